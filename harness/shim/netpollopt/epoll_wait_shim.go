//go:build !arm64 && !riscv64 && poll_opt

//verif:target pkg/netpoll/syscall_epoll_generic_linux.go

// Verification overlay of pkg/netpoll/syscall_epoll_generic_linux.go (poll_opt build): the raw
// epoll_wait system call goes through the vunix hooks like every other call of the I/O path.
package netpoll

import (
	"golang.org/x/sys/unix"

	"github.com/panjf2000/gnet/v2/pkg/vunix"
)

func epollWait(epfd int, events []epollevent, msec int) (int, error) {
	tmp := make([]unix.EpollEvent, len(events))
	n, err := vunix.EpollWait(epfd, tmp, msec)
	for i := 0; i < n && i < len(events); i++ {
		events[i].events = tmp[i].Events
		d := uint64(uint32(tmp[i].Fd)) | uint64(uint32(tmp[i].Pad))<<32
		for k := 0; k < 8; k++ {
			events[i].data[k] = byte(d >> (8 * uint(k)))
		}
	}
	return n, err
}
