package main

import (
	"regexp"
	"sort"
	"strings"
)

// One "WARNING: DATA RACE" block of the race runtime's log.
type raceReport struct {
	accesses [][]string // per access (two of them): function names, innermost first
	heads    []string   // "Write at 0x.. by goroutine 13", ...
	raw      string
}

var accessHead = regexp.MustCompile(`^(Read|Write|Previous read|Previous write|Atomic read|Atomic write|Previous atomic read|Previous atomic write) at 0x[0-9a-f]+ by `)

func parseRaceLog(text string) []raceReport {
	var out []raceReport
	for _, blk := range strings.Split(text, "==================") {
		if !strings.Contains(blk, "WARNING: DATA RACE") {
			continue
		}
		rep := raceReport{raw: strings.TrimSpace(blk)}
		var cur []string
		in := false
		flush := func() {
			if in {
				rep.accesses = append(rep.accesses, cur)
			}
			cur, in = nil, false
		}
		for _, ln := range strings.Split(blk, "\n") {
			t := strings.TrimRight(ln, " \r")
			switch {
			case accessHead.MatchString(t):
				flush()
				in = true
				rep.heads = append(rep.heads, t)
			case strings.HasPrefix(t, "Goroutine ") || strings.HasPrefix(t, "Found "):
				flush()
			case in && strings.HasPrefix(t, "  ") && !strings.HasPrefix(t, "      ") && strings.TrimSpace(t) != "":
				fn := strings.TrimSpace(t)
				if i := strings.LastIndex(fn, "("); i > 0 && strings.HasSuffix(fn, ")") {
					fn = fn[:i]
				}
				cur = append(cur, fn)
			}
		}
		flush()
		if len(rep.accesses) >= 2 {
			out = append(out, rep)
		}
	}
	return out
}

const gnetPrefix = "github.com/panjf2000/gnet/v2"

var closureSuffix = regexp.MustCompile(`(\.func\d+)+(\.\d+)*$`)

// shortName: github.com/panjf2000/gnet/v2.(*conn).release -> conn.release,
// github.com/panjf2000/gnet/v2/pkg/netpoll.(*Poller).Trigger -> netpoll.Poller.Trigger
func shortName(fn string) string {
	s := strings.TrimPrefix(fn, gnetPrefix)
	s = strings.TrimPrefix(s, "/")
	// s is now ".(*conn).release" or "pkg/netpoll.(*Poller).Trigger"
	pkg := ""
	if i := strings.Index(s, "."); i >= 0 {
		pkg = s[:i]
		s = s[i+1:]
	}
	if j := strings.LastIndex(pkg, "/"); j >= 0 {
		pkg = pkg[j+1:]
	}
	s = strings.NewReplacer("(*", "", ")", "").Replace(s)
	s = strings.TrimSuffix(s, "-fm")
	s = closureSuffix.ReplaceAllString(s, "")
	if pkg != "" {
		return pkg + "." + s
	}
	return s
}

func firstGnetFrame(stack []string) string {
	for _, fn := range stack {
		if strings.HasPrefix(fn, gnetPrefix) {
			return shortName(fn)
		}
	}
	return ""
}

func touches(stack []string, prefix string) bool {
	for _, fn := range stack {
		if strings.HasPrefix(fn, prefix) {
			return true
		}
	}
	return false
}

// classify: ("data-race", "<f1>|<f2>") when a stack touches package gnet;
// ("harness-race", ...) when only the harness is involved; ("", "") for races
// entirely inside dependencies (outside the property: assumed absent).
func (r raceReport) classify() (site, sig string) {
	a, b := firstGnetFrame(r.accesses[0]), firstGnetFrame(r.accesses[1])
	if a == "" && b == "" {
		if touches(r.accesses[0], "main.") || touches(r.accesses[1], "main.") {
			top := func(s []string) string {
				if len(s) > 0 {
					return s[0]
				}
				return "?"
			}
			return "harness-race", top(r.accesses[0]) + "|" + top(r.accesses[1])
		}
		return "", ""
	}
	if a == "" {
		a = "user-code"
	}
	if b == "" {
		b = "user-code"
	}
	p := []string{a, b}
	sort.Strings(p)
	return "data-race", p[0] + "|" + p[1]
}

func (r raceReport) summary() string {
	var parts []string
	for i, h := range r.heads {
		if i < len(r.accesses) {
			st := r.accesses[i]
			if len(st) > 6 {
				st = st[:6]
			}
			parts = append(parts, h+": "+strings.Join(st, " < "))
		}
	}
	return strings.Join(parts, " || ")
}
