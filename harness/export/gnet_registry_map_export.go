//go:build verif && !gc_opt

//verif:target export_verif_registry_map.go

package gnet

// VerifRegistryVariant names the registry implementation this binary was built with (conn_map.go).
const VerifRegistryVariant = "map"
