(* C12 — pooled memory is exclusively owned: no aliasing, no out-of-bounds.
   Statements only; proofs live in Proofs/PoolProofs.v.  The model
   (Model/Pool.v) has memory = allocations (id, size), a slice = region
   (id, off, len, cap), the byte-slice pool = entries (pool index, pointer),
   sync.Pool = bag with an oracle choice and arbitrary GC drops, and a ledger of
   outstanding memory per client.  A history is a list of (client, op): any
   number of goroutines, interleaved at the granularity of sync.Pool calls.

   Level: proof, partial — sync.Pool semantics, GC and the discipline of the
   call sites on unexplored runs are assumed (the call sites are enumerated
   from the source on every run, GenSites.v). *)
From GV Require Import Lib.Trace Model.Arith Model.Pool Proofs.PoolProofs.
Open Scope string_scope.
Open Scope Z_scope.

(* A slice obtained from the pool has exactly the requested length, a capacity
   at least that large (the least power of two >= size up to MaxInt32, exactly
   size above), and lies inside one allocation.  All sizes. *)
Theorem C12_get_shape : forall ops c size choice r,
  disciplined init ops ->
  (exists x, snd (get (final init ops) c size choice) = EGetFresh r x) \/
  (exists e x, snd (get (final init ops) c size choice) = EGetPool r e x) ->
  0 < size /\ rlen r = size /\ size <= rcap r /\
  (size <= MaxInt32 -> exists i, 0 <= i <= 31 /\ rcap r = 2^i /\ forall j, 0 <= j -> size <= 2^j -> i <= j) /\
  (MaxInt32 < size -> rcap r = size) /\
  0 <= roff r /\
  exists sz, In (rid r, sz) (allocs (fst (get (final init ops) c size choice))) /\ roff r + rcap r <= sz.
Proof. exact get_shape_hist. Qed.
Print Assumptions C12_get_shape.

Theorem C12_get_nonpositive : forall st c size choice, size <= 0 -> get st c size choice = (st, EGetNil).
Proof. exact get_nonpositive. Qed.
Print Assumptions C12_get_nonpositive.

(* Returning any slice (any capacity, sub-slices, slices not obtained from the
   pool; no discipline assumed, any history) never makes a later Get hand out
   memory beyond that slice's own capacity: what Get takes from the pool starts
   where a slice donated by an earlier Put of this history starts, ends within
   that slice's capacity, and that donation was not handed out before. *)
Theorem C12_get_within_donation : forall ops c size choice r e x,
  (forall c' d, In (OPut c' d) ops -> 0 <= rcap d) ->
  snd (get (final init ops) c size choice) = EGetPool r e x ->
  (exists j c' b, nth_error ops j = Some (OPut c' (edon e)) /\
                  nth_error (events init ops) j = Some (EPut (Some e) b)) /\
  rid r = rid (edon e) /\ roff r = roff (edon e) /\ rcap r <= rcap (edon e) /\
  within_donation r e = true /\
  (forall j r' x', nth_error (events init ops) j <> Some (EGetPool r' e x')).
Proof. exact get_within_donation. Qed.
Print Assumptions C12_get_within_donation.

(* ... and what does not come from the pool is a brand-new allocation. *)
Theorem C12_get_fresh_is_new : forall ops c size choice r x,
  snd (get (final init ops) c size choice) = EGetFresh r x ->
  roff r = 0 /\ forall sz, ~ In (rid r, sz) (allocs (final init ops)).
Proof. exact get_fresh_is_new. Qed.
Print Assumptions C12_get_fresh_is_new.

(* Exclusivity.  In every history of get/put/gc/make/write by any number of
   clients in which each Put donates a well-formed slice whose memory the putter
   owns (ownership is exclusive and ends with the Put, so the putter cannot
   touch it again) and clients touch only memory they own, all outstanding
   intervals and all regions implied by pooled pointers are pairwise disjoint,
   and every Get returns memory that shares no byte with any outstanding
   memory.  All sizes, all slice shapes (odd capacity, re-sliced tails: off > 0,
   foreign slices: OMk). *)
Theorem C12_exclusive : forall ops, disciplined init ops ->
  (forall i j a b, i <> j ->
     nth_error (map snd (ledger (final init ops)) ++ map entry_iv (entries (final init ops))) i = Some a ->
     nth_error (map snd (ledger (final init ops)) ++ map entry_iv (entries (final init ops))) j = Some b ->
     iv_overlap a b = false) /\
  (forall k ev, nth_error (events init ops) k = Some ev ->
     match ev with
     | EGetFresh r x => x = true
     | EGetPool r e x => x = true
     | EPut _ d => d = true
     | EWr own => own = true
     | _ => True
     end).
Proof. exact exclusive_items. Qed.
Print Assumptions C12_exclusive.

Theorem C12_outstanding_disjoint : forall ops, disciplined init ops ->
  forall i j a b, i <> j ->
    nth_error (ledger (final init ops)) i = Some a -> nth_error (ledger (final init ops)) j = Some b ->
    iv_overlap (snd a) (snd b) = false.
Proof. exact outstanding_disjoint. Qed.
Print Assumptions C12_outstanding_disjoint.

Theorem C12_pooled_disjoint_from_outstanding : forall ops, disciplined init ops ->
  forall o e, In o (ledger (final init ops)) -> In e (entries (final init ops)) ->
    iv_overlap (snd o) (entry_iv e) = false.
Proof. exact pooled_disjoint_from_outstanding. Qed.
Print Assumptions C12_pooled_disjoint_from_outstanding.

(* Data held in one holder's buffers cannot be overwritten through another's:
   a disciplined write by client c touches no byte owned by any other client. *)
Theorem C12_write_confined : forall ops c r, disciplined init (ops ++ [OWr c r]) ->
  forall o', In o' (ledger (final init ops)) -> fst o' <> c ->
    iv_overlap (snd o') (region_len_iv r) = false.
Proof. exact write_confined. Qed.
Print Assumptions C12_write_confined.

(* Ring-buffer pool: whatever Get hands out is empty and held by nobody else,
   and no ring buffer is ever held by two holders. *)
Theorem C12_rbpool_get_empty_unshared : forall ops, rb_disciplined rb_init ops ->
  (forall k id b x, nth_error (snd (rb_run rb_init ops)) k = Some (RGot id b x) -> b = 0 /\ x = true) /\
  NoDup (map snd (rb_held (fst (rb_run rb_init ops)))).
Proof. exact rbpool_get_empty_unshared. Qed.
Print Assumptions C12_rbpool_get_empty_unshared.

(* The discipline hypothesis is necessary, and this is exactly what
   conn.release did before the fix (Put of localAddr.Zone and remoteAddr.Zone,
   both backed by package net's zone-cache string): the same memory donated
   twice by a client that does not own it, then two Gets alias each other and
   the owner's memory. *)
Theorem C12_double_put_aliases :
  ~ disciplined init zone_history /\
  exists r1 e1 r2 e2,
    nth_error (events init zone_history) 3 = Some (EGetPool r1 e1 false) /\
    nth_error (events init zone_history) 4 = Some (EGetPool r2 e2 false) /\
    iv_overlap (region_iv r1) (region_iv r2) = true /\
    iv_overlap (region_iv r1) (region_iv zone) = true.
Proof. exact (conj zone_history_undisciplined double_put_aliases). Qed.
Print Assumptions C12_double_put_aliases.

(* Call sites: every use of the two pools listed in the table (and therefore,
   by the per-run obligation GenSites.sites_ok, every use in the current
   source) is a Get or a Put, and every Put carries the reason why the donated
   memory is given up by its owner in the same step. *)
Theorem C12_discipline_of_sites : forall f fn callee arg w, In ((f, fn, callee, arg), w) site_table ->
  (w = GetSite /\ (callee = "byteslice.Get" \/ callee = "ringbuffer.Get")) \/
  ((exists r, w = PutOwnedDropped r \/ w = PutApiContract r) /\
   (callee = "byteslice.Put" \/ callee = "ringbuffer.Put")).
Proof. exact discipline_of_sites. Qed.
Print Assumptions C12_discipline_of_sites.

(* non-vacuity *)
Example C12_ex_disciplined : disciplined init ex_history /\ List.length (ledger (final init ex_history)) = 7%nat.
Proof. split; [exact ex_history_disciplined|vm_compute; reflexivity]. Qed.
Example C12_ex_rb_disciplined : rb_disciplined rb_init ex_rb_history.
Proof. exact ex_rb_disciplined. Qed.
Example C12_ex_sizes : forall c, snd (get init c 2147483647 (-1)) = EGetFresh (mkRegion 0 0 2147483647 2147483648) true
                              /\ snd (get init c 2147483648 (-1)) = EGetFresh (mkRegion 0 0 2147483648 2147483648) true
                              /\ snd (get init c 1 (-1)) = EGetFresh (mkRegion 0 0 1 1) true.
Proof. intros c. vm_compute. repeat split; reflexivity. Qed.
