(* Non-vacuity of C01 / C02 / C08: a concrete input stream (accept, OnOpen reply with a short
   write and EAGAIN, delivery with partial consumption, write while the outbound buffer is
   non-empty, flush on writability, a datagram answered by a Write, end of stream) on which
   the model produces deliveries, hand-overs and a datagram callback, and on which the three
   checkers are evaluated by computation -- in agreement with the theorems. *)
From GV Require Import Lib.Trace Model.Loop Spec.LoopSpec Proofs.LoopData Proofs.LoopUdp.
Open Scope string_scope.
Open Scope Z_scope.

Definition ex_input : list line :=
 [("cfg", [AInt 0; AInt 0; AInt 8; AInt 3; AInt 1024; AInt 256]);
  ("listen", [AInt 4; AInt 1]);
  ("accepted", [AInt 7]);
  ("wait", [AInt 3; AInt 1]);
  ("r", [ASym "epctl"; AInt 0]);
  ("hret", [ASym "none"; ABytes [65; 66]]);
  ("r", [ASym "wr"; AInt 2; AInt 1]);
  ("r", [ASym "wr"; AInt 1; AInt (-1); ASym "eagain"]);
  ("r", [ASym "epctl"; AInt 0]);
  ("wait", [AInt 7; AInt 1]);
  ("r", [ASym "read"; AInt 3; ABytes [1; 2; 3]]);
  ("h", [ASym "peek"; AInt 2]);
  ("h", [ASym "read"; AInt 2]);
  ("h", [ASym "outbuf"]);
  ("h", [ASym "write"; ABytes [67]]);
  ("hret", [ASym "none"]);
  ("wait", [AInt 7; AInt 4]);
  ("r", [ASym "wr"; AInt 2; AInt 2]);
  ("r", [ASym "epctl"; AInt 0]);
  ("wait", [AInt 4; AInt 1]);
  ("r", [ASym "recvfrom"; AInt 2; ABytes [10; 11]; ASym "peer"]);
  ("h", [ASym "read"; AInt 1]);
  ("h", [ASym "write"; ABytes [12]]);
  ("r", [ASym "sendto"; AInt 0]);
  ("hret", [ASym "none"]);
  ("wait", [AInt 7; AInt 1]);
  ("r", [ASym "read"; AInt 0]);
  ("h", [ASym "next"; AInt (-1)]);
  ("hret", [ASym "none"]);
  ("r", [ASym "epctl"; AInt 0]);
  ("r", [ASym "close"; AInt 0])].

Definition ex_history : list ev := match run_history ex_input with Some t => t | None => [] end.

Definition is_out (name kind : string) (e : ev) : bool :=
  match e with
  | EOut (n, ASym k :: _) => String.eqb n name && String.eqb k kind
  | _ => false
  end.
Definition count (name kind : string) : nat := List.length (filter (is_out name kind) ex_history).

Example ex_runs : exists t, run_history ex_input = Some t /\ List.length t = 72%nat.
Proof. eexists. split; [reflexivity|]. vm_compute. reflexivity. Qed.

(* the run is not trivial: deliveries, hand-overs (a short one included), a datagram callback, a sendto *)
Example ex_nontrivial :
  count "g" "del" = 1%nat /\ count "g" "hand" = 2%nat /\ count "g" "sub" = 2%nat /\
  count "cb" "udp" = 1%nat /\ count "sys" "sendto" = 1%nat /\ count "cb" "close" = 1%nat.
Proof. vm_compute. repeat split; reflexivity. Qed.

(* the checkers computed on it ... *)
Example ex_checkers :
  inbound_ok ex_history = true /\ outbound_ok ex_history = true /\ udp_ok (statics ex_input) ex_history = true.
Proof. vm_compute. repeat split; reflexivity. Qed.

(* ... as the theorems say *)
Example ex_by_theorems :
  inbound_ok ex_history = true /\ outbound_ok ex_history = true /\ udp_ok (statics ex_input) ex_history = true.
Proof.
  assert (E : run_history ex_input = Some ex_history) by (vm_compute; reflexivity).
  split; [exact (inbound_holds _ _ E)|]. split; [exact (outbound_holds _ _ E)|exact (udp_holds _ _ E)].
Qed.

(* the checkers are not trivially true: dropping the first hand-over marker, or altering a byte the
   handler read, makes them answer false *)
Definition drop_first (p : ev -> bool) : list ev -> list ev :=
  fix go (t : list ev) := match t with [] => [] | e :: r => if p e then r else e :: go r end.
Example ex_outbound_rejects : outbound_ok (drop_first (is_out "g" "hand") ex_history) = false.
Proof. vm_compute. reflexivity. Qed.
Example ex_inbound_rejects : inbound_ok (drop_first (is_out "g" "del") ex_history) = false.
Proof. vm_compute. reflexivity. Qed.
Example ex_udp_rejects : udp_ok (statics ex_input) (drop_first (is_out "sys" "sendto") ex_history) = false.
Proof. vm_compute. reflexivity. Qed.

(* WriteTo a writer with a byte budget: five bytes are left in the ring by a first OnTraffic, four
   more arrive in the read buffer; `h writeto 3` first takes part of the ring only ([1;2;3], error),
   then the rest of the ring and one byte of the read buffer ([4;5;6], error); an unlimited WriteTo
   takes what remains.  The handler-visible lines are as expected and the inbound checker accepts. *)
Definition wt_input : list line :=
 [("cfg", [AInt 0; AInt 0; AInt 8; AInt 3; AInt 1024; AInt 256]);
  ("listen", [AInt 4; AInt 1]);
  ("accepted", [AInt 7]);
  ("wait", [AInt 3; AInt 1]);
  ("r", [ASym "epctl"; AInt 0]);
  ("hret", [ASym "none"]);
  ("wait", [AInt 7; AInt 1]);
  ("r", [ASym "read"; AInt 5; ABytes [1; 2; 3; 4; 5]]);
  ("hret", [ASym "none"]);
  ("wait", [AInt 7; AInt 1]);
  ("r", [ASym "read"; AInt 4; ABytes [6; 7; 8; 9]]);
  ("h", [ASym "writeto"; AInt 3]);
  ("h", [ASym "inbuf"]);
  ("h", [ASym "writeto"; AInt 3]);
  ("h", [ASym "inbuf"]);
  ("h", [ASym "writeto"]);
  ("h", [ASym "inbuf"]);
  ("hret", [ASym "none"])].
Definition wt_history : list ev := match run_history wt_input with Some t => t | None => [] end.
Definition is_hr (e : ev) : bool := match e with EOut ("hr", _) => true | _ => false end.

Example ex_writeto_partial :
  filter is_hr wt_history =
    [EOut ("hr", [AInt 0; ASym "writeto"; ABytes [1; 2; 3]; AInt 3; ASym "err"]);
     EOut ("hr", [AInt 0; ASym "inbuf"; AInt 6]);
     EOut ("hr", [AInt 0; ASym "writeto"; ABytes [4; 5; 6]; AInt 3; ASym "err"]);
     EOut ("hr", [AInt 0; ASym "inbuf"; AInt 3]);
     EOut ("hr", [AInt 0; ASym "writeto"; ABytes [7; 8; 9]; AInt 3; ASym "nil"]);
     EOut ("hr", [AInt 0; ASym "inbuf"; AInt 0])] /\
  inbound_ok wt_history = true /\ outbound_ok wt_history = true.
Proof. vm_compute. repeat split; reflexivity. Qed.
