(* The inductive invariant of the MS-queue model (DESIGN.md Appendix A.4):
   chain_inv + the ghost history replays to the abstract queue + length lag +
   per-thread facts ("every local pointer is on the chain at an index not
   beyond the shared index it was read from") + the history automaton phase
   of every thread matches its program counter. *)
From GV Require Import Lib.Trace Lib.Interleave Spec.AtomicQueue Model.MSQueue Proofs.MSQueueBase.
From Coq Require Import Lia Arith.
Open Scope Z_scope.
Open Scope list_scope.

(* ---- per-thread facts ---- *)
Definition pre_link (s : gstate) (t : tid) (th : thread) : Prop :=
  exists n, l_n th = Some n /\ ~ In n (g_chain s) /\
            nth_error (heap s) n = Some (mkNode (t_val th) None) /\
            tphase t (g_hist s) = PEnqCalled n (t_val th).

Definition tail_at (s : gstate) (th : thread) (i : nat) : Prop :=
  exists p, l_tail th = Some p /\ nth_error (g_chain s) i = Some p /\ (i <= g_t s)%nat.

Definition head_at (s : gstate) (th : thread) (j : nat) : Prop :=
  exists p, l_head th = Some p /\ nth_error (g_chain s) j = Some p /\ (j <= g_h s)%nat.

Definition in_deq (s : gstate) (t : tid) : Prop := exists b, tphase t (g_hist s) = PDeqCalled b.

Definition next_known (s : gstate) (th : thread) (i : nat) : Prop :=
  l_next th = None \/ l_next th = nth_error (g_chain s) (S i).

Definition next_is (s : gstate) (th : thread) (i : nat) : Prop :=
  exists nx, l_next th = Some nx /\ nth_error (g_chain s) (S i) = Some nx.

Definition thread_inv (s : gstate) (t : tid) (th : thread) : Prop :=
  match t_pc th with
  | Idle => tphase t (g_hist s) = PIdle
  | Crashed => False
  | E1 => pre_link s t th
  | E2 => pre_link s t th /\ exists i, tail_at s th i
  | E3 => pre_link s t th /\ exists i, tail_at s th i /\ next_known s th i
  | E4 => pre_link s t th /\ exists i, tail_at s th i /\ l_next th = None
  | E7 => pre_link s t th /\ exists i, tail_at s th i /\ next_is s th i
  | E5 => exists n i, l_n th = Some n /\ tail_at s th i /\ nth_error (g_chain s) (S i) = Some n /\
                      tphase t (g_hist s) = PEnqLinked n (t_val th)
  | E6 => exists n, tphase t (g_hist s) = PEnqLinked n (t_val th)
  | D1 => in_deq s t
  | D2 => in_deq s t /\ exists j, head_at s th j
  | D3 => in_deq s t /\ exists j i, head_at s th j /\ tail_at s th i /\ (j <= i)%nat
  | D4 => in_deq s t /\ exists j i, head_at s th j /\ tail_at s th i /\ (j <= i)%nat /\
            next_known s th j /\
            ((j < i)%nat -> l_next th = nth_error (g_chain s) (S j)) /\
            (l_next th = None -> j = g_h s -> tphase t (g_hist s) = PDeqCalled true)
  | D5 => in_deq s t /\ exists i, tail_at s th i /\ next_is s th i
  | D6 => in_deq s t /\ exists j, head_at s th j /\ next_is s th j /\ (S j <= g_t s)%nat /\
            exists nx nd, l_next th = Some nx /\ nth_error (heap s) nx = Some nd /\ n_val nd = l_task th
  | D7 => tphase t (g_hist s) = PDeqTaken (l_task th)
  end.

Record Inv (s : gstate) : Prop := {
  inv_chain : chain_inv s;
  inv_replay : replay (g_hist s) = Some (absq_items s);
  inv_len : len s = wrap_i32 (Z.of_nat (List.length (absq_items s)) + total_lag s);
  inv_threads : forall t, thread_inv s t (get_thread (threads s) t);
  inv_enqs : g_chain s = O :: map fst (enqs (g_hist s));
  inv_ids : NoDup (call_ids (g_hist s)) /\
            forall n, In n (call_ids (g_hist s)) -> (n < List.length (heap s))%nat
}.

(* ---- what a step of thread t may do to the part of the state other threads rely on ---- *)
Record frame (s s' : gstate) (t : tid) : Prop := {
  fr_chain : g_chain s' = g_chain s \/
             exists n v, g_chain s' = g_chain s ++ [n] /\ tphase t (g_hist s) = PEnqCalled n v;
  fr_h : (g_h s <= g_h s')%nat;
  fr_t : (g_t s <= g_t s')%nat;
  fr_hist : g_hist s' = g_hist s \/ exists e, g_hist s' = e :: g_hist s /\ ev_tid e = t;
  fr_heap : forall n nd, nth_error (heap s) n = Some nd ->
            exists nd', nth_error (heap s') n = Some nd' /\ n_val nd' = n_val nd /\
                        (~ In n (g_chain s) -> nd' = nd)
}.

Lemma frame_pos : forall s s' t i p, frame s s' t ->
  nth_error (g_chain s) i = Some p -> nth_error (g_chain s') i = Some p.
Proof.
  intros s s' t i p F H. destruct (fr_chain _ _ _ F) as [E|[n [v [E _]]]]; rewrite E; auto.
  apply nth_error_app_l; exact H.
Qed.

Lemma frame_tphase : forall s s' t t', frame s s' t -> t' <> t ->
  tphase t' (g_hist s') = tphase t' (g_hist s).
Proof.
  intros s s' t t' F Hne. destruct (fr_hist _ _ _ F) as [E|[e [E Ht]]]; rewrite E; auto.
  apply tphase_cons_other. congruence.
Qed.

Lemma frame_tail_at : forall s s' t th i, frame s s' t -> tail_at s th i -> tail_at s' th i.
Proof.
  intros s s' t th i F [p [H1 [H2 H3]]]. exists p. splits; auto.
  - eapply frame_pos; eauto.
  - pose proof (fr_t _ _ _ F). lia.
Qed.

Lemma frame_head_at : forall s s' t th j, frame s s' t -> head_at s th j -> head_at s' th j.
Proof.
  intros s s' t th j F [p [H1 [H2 H3]]]. exists p. splits; auto.
  - eapply frame_pos; eauto.
  - pose proof (fr_h _ _ _ F). lia.
Qed.

Lemma frame_next_known : forall s s' t th i, frame s s' t -> next_known s th i -> next_known s' th i.
Proof.
  intros s s' t th i F [H|H]; [left; exact H|].
  destruct (nth_error (g_chain s) (S i)) as [x|] eqn:E.
  - right. rewrite H. symmetry. eapply frame_pos; eauto.
  - left. exact H.
Qed.

Lemma frame_next_is : forall s s' t th i, frame s s' t -> next_is s th i -> next_is s' th i.
Proof.
  intros s s' t th i F [nx [H1 H2]]. exists nx. split; auto. eapply frame_pos; eauto.
Qed.

Lemma frame_in_deq : forall s s' t t', frame s s' t -> t' <> t -> in_deq s t' -> in_deq s' t'.
Proof. intros s s' t t' F Hne [b H]. exists b. rewrite (frame_tphase _ _ _ _ F Hne). exact H. Qed.

Lemma frame_pre_link : forall s s' t t' th, frame s s' t -> t' <> t ->
  NoDup (call_ids (g_hist s)) -> pre_link s t' th -> pre_link s' t' th.
Proof.
  intros s s' t t' th F Hne Hnd [n [H1 [H2 [H3 H4]]]]. exists n. splits; auto.
  - destruct (fr_chain _ _ _ F) as [E|[n0 [v [E P]]]]; rewrite E; auto.
    intro Hin. apply in_app_or in Hin. destruct Hin as [Hin|[Hin|[]]]; [contradiction|]. subst n0.
    apply tphase_called_in in P. apply tphase_called_in in H4.
    destruct (call_ids_unique _ _ _ _ _ _ Hnd P H4). congruence.
  - destruct (fr_heap _ _ _ F _ _ H3) as [nd' [A [_ B]]]. rewrite A, (B H2). reflexivity.
  - rewrite (frame_tphase _ _ _ _ F Hne). exact H4.
Qed.

Lemma thread_inv_frame : forall s s' t t' th, frame s s' t -> t' <> t ->
  NoDup (call_ids (g_hist s)) -> thread_inv s t' th -> thread_inv s' t' th.
Proof.
  intros s s' t t' th F Hne Hnd H. unfold thread_inv in *.
  pose proof (frame_tphase _ _ _ _ F Hne) as TP.
  destruct (t_pc th); try rewrite TP; auto.
  - eapply frame_pre_link; eauto.
  - destruct H as [P [i T]]. split; [eapply frame_pre_link; eauto|]. exists i. eapply frame_tail_at; eauto.
  - destruct H as [P [i [T N]]]. split; [eapply frame_pre_link; eauto|]. exists i.
    split; [eapply frame_tail_at|eapply frame_next_known]; eauto.
  - destruct H as [P [i [T N]]]. split; [eapply frame_pre_link; eauto|]. exists i.
    split; [eapply frame_tail_at; eauto|exact N].
  - destruct H as [n [i [A [T [B C]]]]]. exists n, i. splits; auto.
    + eapply frame_tail_at; eauto.
    + eapply frame_pos; eauto.
  - destruct H as [P [i [T N]]]. split; [eapply frame_pre_link; eauto|]. exists i.
    split; [eapply frame_tail_at|eapply frame_next_is]; eauto.
  - eapply frame_in_deq; eauto.
  - destruct H as [P [j Hh]]. split; [eapply frame_in_deq; eauto|]. exists j. eapply frame_head_at; eauto.
  - destruct H as [P [j [i [Hh [T L]]]]]. split; [eapply frame_in_deq; eauto|]. exists j, i.
    splits; auto; [eapply frame_head_at|eapply frame_tail_at]; eauto.
  - destruct H as [P [j [i [Hh [T [L [N [M SE]]]]]]]]. split; [eapply frame_in_deq; eauto|]. exists j, i.
    splits; auto.
    + eapply frame_head_at; eauto.
    + eapply frame_tail_at; eauto.
    + eapply frame_next_known; eauto.
    + intro Hlt. rewrite (M Hlt).
      destruct T as [q [_ [Tq _]]]. apply nth_error_lt in Tq.
      destruct (nth_error (g_chain s) (S j)) as [x|] eqn:E.
      * symmetry. eapply frame_pos; eauto.
      * apply nth_error_None in E. lia.
    + intros Hn Hj. apply SE; auto.
      destruct Hh as [p [_ [_ Hle]]]. pose proof (fr_h _ _ _ F). lia.
  - destruct H as [P [i [T N]]]. split; [eapply frame_in_deq; eauto|]. exists i.
    split; [eapply frame_tail_at|eapply frame_next_is]; eauto.
  - destruct H as [P [j [Hh [N [L [nx [nd [A [B C]]]]]]]]]. split; [eapply frame_in_deq; eauto|]. exists j.
    splits; auto.
    + eapply frame_head_at; eauto.
    + eapply frame_next_is; eauto.
    + pose proof (fr_t _ _ _ F). lia.
    + destruct (fr_heap _ _ _ F _ _ B) as [nd' [B1 [B2 _]]]. exists nx, nd'. splits; auto. congruence.
Qed.

(* ---- the master preservation lemma ---- *)
Lemma inv_step_general : forall s s1 t th',
  Inv s -> frame s s1 t -> threads s1 = threads s ->
  chain_inv s1 ->
  replay (g_hist s1) = Some (absq_items s1) ->
  len s1 = wrap_i32 (Z.of_nat (List.length (absq_items s1)) +
                     (total_lag s - lag (get_thread (threads s) t) + lag th')) ->
  thread_inv s1 t th' ->
  g_chain s1 = O :: map fst (enqs (g_hist s1)) ->
  (NoDup (call_ids (g_hist s1)) /\
   forall n, In n (call_ids (g_hist s1)) -> (n < List.length (heap s1))%nat) ->
  Inv (upd_thread s1 t th').
Proof.
  intros s s1 t th' I F Eth C R L T Q D.
  constructor; auto.
  - change (len s1 = wrap_i32 (Z.of_nat (List.length (absq_items s1)) + total_lag (upd_thread s1 t th'))).
    rewrite L. f_equal. f_equal. unfold total_lag. cbn [threads upd_thread]. rewrite Eth, total_lag_set. reflexivity.
  - intro t'. cbn [threads upd_thread]. rewrite Eth. destruct (Nat.eq_dec t t') as [->|Hne].
    + rewrite get_set_same. exact T.
    + rewrite get_set_other by exact Hne.
      change (thread_inv s1 t' (get_thread (threads s) t')).
      eapply thread_inv_frame; eauto.
      * exact (proj1 (inv_ids _ I)).
      * apply (inv_threads _ I).
Qed.

Lemma frame_refl : forall s t, frame s s t.
Proof.
  intros s t. constructor; auto.
  intros n nd H. exists nd. auto.
Qed.

Lemma inv_local : forall s t th',
  Inv s -> lag th' = lag (get_thread (threads s) t) -> thread_inv s t th' -> Inv (upd_thread s t th').
Proof.
  intros s t th' I L T. eapply inv_step_general; eauto.
  - apply frame_refl.
  - apply (inv_chain _ I).
  - apply (inv_replay _ I).
  - rewrite (inv_len _ I). f_equal. lia.
  - apply (inv_enqs _ I).
  - apply (inv_ids _ I).
Qed.

(* ---- reading the invariant ---- *)
Lemma chain_heap : forall s i n, Inv s -> nth_error (g_chain s) i = Some n ->
  exists nd, nth_error (heap s) n = Some nd /\ n_next nd = nth_error (g_chain s) (S i).
Proof. intros s i n I H. destruct (inv_chain _ I) as [_ [Cnx _]]. apply Cnx. exact H. Qed.

Lemma chain_in_heap : forall s n, Inv s -> In n (g_chain s) -> (n < List.length (heap s))%nat.
Proof.
  intros s n I H. apply In_nth_error in H. destruct H as [i H].
  destruct (chain_heap _ _ _ I H) as [nd [A _]]. eapply nth_error_lt; eauto.
Qed.

Lemma chain_pos_eq : forall s i j p, Inv s ->
  nth_error (g_chain s) i = Some p -> nth_error (g_chain s) j = Some p -> i = j.
Proof. intros s i j p I. destruct (inv_chain _ I) as [Cnd _]. eapply nodup_pos; eauto. Qed.

Lemma absq_items_eq : forall s1 s, g_chain s1 = g_chain s -> g_h s1 = g_h s ->
  (forall n, In n (g_chain s) -> val_of s1 n = val_of s n) -> absq_items s1 = absq_items s.
Proof.
  intros s1 s E1 E2 V. unfold absq_items. rewrite E1, E2. apply map_ext_in.
  intros n Hin. rewrite V; [reflexivity|]. eapply (In_skipn); eauto.
Qed.
