(* C10 proofs, part 1: the elastic RingBuffer (lazy acquisition from the pool,
   return when empty) refines the FIFO.  The inner ring is used only through
   the interface proved in C09: the one-step theorem [step_spec]
   (= C09_ring_step: no panic, invariant kept, [ring_op_spec] on the content)
   and the accounting lemma of the representation invariant. *)
From Coq Require Import Lia ZArith ZifyBool List Bool.
From GV Require Import Lib.Trace Spec.Fifo Proofs.FifoLemmas Model.Elastic Spec.ElasticSpec.
From GV Require Model.Ring Spec.RingSpec Proofs.RingBase Proofs.RingProofs.
Import ListNotations.
Open Scope Z_scope.

Notation ring_inv := RingSpec.ring_inv.
Notation rc := RingSpec.content.

(* ------------------------------------------------------------------ *)
(* the C09 interface, one lemma per method (all from [step_spec])      *)

Lemma ring_Write rb p : ring_inv rb -> zlen p <= max_len ->
  exists rb', Ring.Write rb p = Ret (rb', (zlen p, Ring.ENil)) /\ ring_inv rb' /\ rc rb' = (rc rb ++ p)%list.
Proof.
  intros Hi Hp. destruct (RingProofs.step_spec rb (Ring.OWrite p) Hi Hp) as (rb' & x & Hs & Hi' & Hsp).
  cbn [Ring.step] in Hs. destruct (Ring.Write rb p) as [[rb1 [n e]]|]; cbn in Hs; [|discriminate].
  injection Hs as <- <-. cbn in Hsp. destruct Hsp as (-> & -> & Hc). exists rb1. auto.
Qed.

Lemma ring_WriteByte rb b : ring_inv rb ->
  exists rb', Ring.WriteByte rb b = Ret (rb', Ring.ENil) /\ ring_inv rb' /\ rc rb' = (rc rb ++ [b])%list.
Proof.
  intros Hi. destruct (RingProofs.step_spec rb (Ring.OWriteByte b) Hi I) as (rb' & x & Hs & Hi' & Hsp).
  cbn [Ring.step] in Hs. destruct (Ring.WriteByte rb b) as [[rb1 e]|]; cbn in Hs; [|discriminate].
  injection Hs as <- <-. cbn in Hsp. destruct Hsp as (-> & Hc). exists rb1. auto.
Qed.

Lemma ring_Read rb n : ring_inv rb -> 0 <= n ->
  exists rb' e, Ring.Read rb n = Ret (rb', (ztake n (rc rb), zlen (ztake n (rc rb)), e)) /\ ring_inv rb' /\
    rc rb' = zdrop n (rc rb) /\
    e = (if (0 <? n) && fifo_is_empty (rc rb) then Ring.EEmpty else Ring.ENil).
Proof.
  intros Hi Hn. destruct (RingProofs.step_spec rb (Ring.ORead n) Hi Hn) as (rb' & x & Hs & Hi' & Hsp).
  cbn [Ring.step] in Hs. destruct (Ring.Read rb n) as [[rb1 [[d k] e]]|]; cbn in Hs; [|discriminate].
  injection Hs as <- <-. cbn [RingSpec.ring_op_spec] in Hsp. destruct Hsp as (Ht & -> & He).
  unfold fifo_take in Ht. injection Ht as -> Hc. exists rb1, e. auto.
Qed.

Lemma ring_ReadByte rb : ring_inv rb ->
  exists rb' b e, Ring.ReadByte rb = Ret (rb', (b, e)) /\ ring_inv rb' /\
    match rc rb with
    | [] => e = Ring.EEmpty /\ rc rb' = []
    | y :: t => b = y /\ e = Ring.ENil /\ rc rb' = t
    end.
Proof.
  intros Hi. destruct (RingProofs.step_spec rb Ring.OReadByte Hi I) as (rb' & x & Hs & Hi' & Hsp).
  cbn [Ring.step] in Hs. destruct (Ring.ReadByte rb) as [[rb1 [b e]]|]; cbn in Hs; [|discriminate].
  injection Hs as <- <-. cbn [RingSpec.ring_op_spec] in Hsp. exists rb1, b, e. auto.
Qed.

Lemma ring_Peek rb n : ring_inv rb ->
  exists h t, Ring.Peek rb n = Ret (h, t) /\ (h ++ t)%list = (if n <=? 0 then rc rb else ztake n (rc rb)).
Proof.
  intros Hi. destruct (RingProofs.step_spec rb (Ring.OPeek n) Hi I) as (rb' & x & Hs & Hi' & Hsp).
  cbn [Ring.step] in Hs. destruct (Ring.Peek rb n) as [[h t]|]; cbn in Hs; [|discriminate].
  injection Hs as <- <-. cbn [RingSpec.ring_op_spec] in Hsp. destruct Hsp as (Hc & _). exists h, t. auto.
Qed.

Lemma ring_Discard rb n : ring_inv rb ->
  exists rb', Ring.Discard rb n = Ret (rb', (zlen (ztake n (rc rb)), Ring.ENil)) /\ ring_inv rb' /\
    rc rb' = zdrop n (rc rb).
Proof.
  intros Hi. destruct (RingProofs.step_spec rb (Ring.ODiscard n) Hi I) as (rb' & x & Hs & Hi' & Hsp).
  cbn [Ring.step] in Hs. destruct (Ring.Discard rb n) as [[rb1 [k e]]|]; cbn in Hs; [|discriminate].
  injection Hs as <- <-. cbn [RingSpec.ring_op_spec fifo_take fst snd] in Hsp. destruct Hsp as (-> & -> & Hc).
  exists rb1. auto.
Qed.

Lemma ring_Bytes rb : ring_inv rb -> Ring.Bytes rb = Ret (rc rb).
Proof.
  intros Hi. destruct (RingProofs.step_spec rb Ring.OBytes Hi I) as (rb' & x & Hs & Hi' & Hsp).
  cbn [Ring.step] in Hs. destruct (Ring.Bytes rb) as [d|]; cbn in Hs; [|discriminate].
  injection Hs as <- <-. cbn [RingSpec.ring_op_spec] in Hsp. destruct Hsp as (-> & _). reflexivity.
Qed.

Lemma ring_ReadFrom rb src sc : ring_inv rb ->
  exists rb' o k, Ring.ReadFrom rb src sc = Ret (rb', o) /\ ring_inv rb' /\
    0 <= k <= zlen src /\ Ring.rf_n o = k /\ Ring.rf_src o = zdrop k src /\ rc rb' = (rc rb ++ ztake k src)%list.
Proof.
  intros Hi. destruct (RingProofs.step_spec rb (Ring.OReadFrom src sc) Hi I) as (rb' & x & Hs & Hi' & Hsp).
  cbn [Ring.step] in Hs. destruct (Ring.ReadFrom rb src sc) as [[rb1 o]|]; cbn in Hs; [|discriminate].
  injection Hs as <- <-. cbn [RingSpec.ring_op_spec] in Hsp. destruct Hsp as (k & Hk & Hn & Hsrc & Hc).
  exists rb1, o, k. splits; auto; lia.
Qed.

Lemma ring_WriteTo rb sc : ring_inv rb ->
  exists rb' o, Ring.WriteTo rb sc = Ret (rb', o) /\ ring_inv rb' /\
    Ring.wt_recv o = ztake (Ring.wt_n o) (rc rb) /\ rc rb' = zdrop (Ring.wt_n o) (rc rb) /\
    0 <= Ring.wt_n o <= zlen (rc rb) /\
    (Ring.wt_err o = Ring.ENil -> rc rb' = []) /\ (rc rb = [] -> Ring.wt_err o = Ring.EEmpty).
Proof.
  intros Hi. destruct (RingProofs.step_spec rb (Ring.OWriteTo sc) Hi I) as (rb' & x & Hs & Hi' & Hsp).
  cbn [Ring.step] in Hs. destruct (Ring.WriteTo rb sc) as [[rb1 o]|]; cbn in Hs; [|discriminate].
  injection Hs as <- <-. cbn [RingSpec.ring_op_spec] in Hsp. destruct Hsp as (Ht & Hn & He & Hemp).
  unfold fifo_take in Ht. injection Ht as Hr Hc. exists rb1, o. unfold fifo_len in Hn. splits; auto; lia.
Qed.

Lemma ring_Reset rb : ring_inv rb -> ring_inv (Ring.Reset rb) /\ rc (Ring.Reset rb) = [].
Proof.
  intros Hi. destruct (RingProofs.step_spec rb Ring.OReset Hi I) as (rb' & x & Hs & Hi' & Hsp).
  cbn [Ring.step] in Hs. injection Hs as <- <-. cbn in Hsp. auto.
Qed.

Lemma ring_Buffered rb : ring_inv rb -> Ring.Buffered rb = zlen (rc rb).
Proof.
  intros Hi. destruct (RingProofs.step_spec rb Ring.OBuffered Hi I) as (rb' & x & Hs & Hi' & Hsp).
  cbn [Ring.step] in Hs. injection Hs as <- <-. cbn in Hsp. destruct Hsp as (H & _). exact H.
Qed.

Lemma ring_IsEmpty rb : ring_inv rb -> Ring.IsEmpty rb = fifo_is_empty (rc rb).
Proof.
  intros Hi. destruct (RingProofs.step_spec rb Ring.OIsEmpty Hi I) as (rb' & x & Hs & Hi' & Hsp).
  cbn [Ring.step] in Hs. injection Hs as <- <-. cbn in Hsp. destruct Hsp as (H & _). exact H.
Qed.

(* accounting of the representation invariant (C09_ring_accounting from any state) *)
Lemma ring_Available_nonneg rb : ring_inv rb -> 0 <= Ring.Available rb.
Proof. intros Hi. pose proof (RingBase.accounting rb Hi). tauto. Qed.

Lemma fifo_is_empty_nil (q : fifo) : fifo_is_empty q = true <-> q = [].
Proof. destruct q; cbn; split; intros; congruence. Qed.

Lemma fifo_is_empty_false (q : fifo) : fifo_is_empty q = false <-> q <> [].
Proof. destruct q; cbn; split; intros; congruence. Qed.

(* ------------------------------------------------------------------ *)
(* the pool, instance(), done()                                        *)

Lemma pool_ring_ok c : 0 <= c -> ring_inv (pool_ring c) /\ rc (pool_ring c) = [].
Proof.
  intros Hc. split; [|reflexivity].
  unfold RingSpec.ring_inv, pool_ring, Ring.Reset, Ring.zeros. cbn.
  rewrite zlen_repeat. splits; try lia; intros; try lia; discriminate.
Qed.

Lemma instance_ok e c : ering_inv e -> 0 <= c ->
  ring_inv (instance e c) /\ rc (instance e c) = rcontent e.
Proof.
  intros Hi Hc. destruct e as [rb|]; cbn [instance rcontent ering_inv] in *; [auto|].
  apply pool_ring_ok. exact Hc.
Qed.

Lemma done_ok rb : ring_inv rb -> ering_inv (done rb) /\ rcontent (done rb) = rc rb.
Proof.
  intros Hi. unfold done. rewrite (ring_IsEmpty rb Hi).
  destruct (fifo_is_empty (rc rb)) eqn:E; cbn [ering_inv rcontent]; [|auto].
  apply fifo_is_empty_nil in E. auto.
Qed.

Lemma RBuffered_ok e : ering_inv e -> RBuffered e = zlen (rcontent e).
Proof. destruct e as [rb|]; cbn; intros Hi; [apply ring_Buffered; exact Hi|reflexivity]. Qed.

Lemma RIsEmpty_ok e : ering_inv e -> RIsEmpty e = fifo_is_empty (rcontent e).
Proof. destruct e as [rb|]; cbn; intros Hi; [apply ring_IsEmpty; exact Hi|reflexivity]. Qed.

Lemma RAvailable_nonneg e : ering_inv e -> 0 <= RAvailable e.
Proof. destruct e as [rb|]; cbn; intros Hi; [apply ring_Available_nonneg; exact Hi|lia]. Qed.

(* ------------------------------------------------------------------ *)
(* methods of the elastic RingBuffer on the content                    *)

Lemma RWrite_ok e c p : ering_inv e -> 0 <= c -> zlen p <= max_len ->
  exists e', RWrite e c p = Ret (e', (zlen p, XNil)) /\ ering_inv e' /\ rcontent e' = (rcontent e ++ p)%list.
Proof.
  intros Hi Hc Hp. unfold RWrite. destruct (Z.eqb_spec (zlen p) 0) as [H0|H0].
  - exists e. rewrite H0, (zlen_zero_nil p H0), app_nil_r. auto.
  - destruct (instance_ok e c Hi Hc) as (Hi0 & Hc0).
    destruct (ring_Write (instance e c) p Hi0 Hp) as (rb' & Hw & Hi' & Hc').
    rewrite Hw. cbn [obind of_rerr]. exists (Some rb'). cbn [ering_inv rcontent]. rewrite Hc', Hc0. auto.
Qed.

Lemma RWriteString_eq e c p : RWriteString e c p = RWrite e c p.
Proof. reflexivity. Qed.

Lemma RWriteByte_ok e c b : ering_inv e -> 0 <= c ->
  exists e', RWriteByte e c b = Ret (e', XNil) /\ ering_inv e' /\ rcontent e' = (rcontent e ++ [b])%list.
Proof.
  intros Hi Hc. unfold RWriteByte. destruct (instance_ok e c Hi Hc) as (Hi0 & Hc0).
  destruct (ring_WriteByte (instance e c) b Hi0) as (rb' & Hw & Hi' & Hc').
  rewrite Hw. cbn [obind of_rerr]. exists (Some rb'). cbn [ering_inv rcontent]. rewrite Hc', Hc0. auto.
Qed.

Lemma RRead_ok e n : ering_inv e -> 0 <= n ->
  exists e' er, RRead e n = Ret (e', (ztake n (rcontent e), zlen (ztake n (rcontent e)), er)) /\ ering_inv e' /\
    rcontent e' = zdrop n (rcontent e) /\
    (rcontent e <> [] -> er = XNil) /\ (rcontent e = [] -> 0 < n -> er = XEmpty).
Proof.
  intros Hi Hn. destruct e as [rb|]; cbn [RRead rcontent ering_inv] in *.
  - destruct (ring_Read rb n Hi Hn) as (rb' & er & Hr & Hi' & Hc & He).
    rewrite Hr. cbn [obind]. destruct (done_ok rb' Hi') as (Hd1 & Hd2).
    exists (done rb'), (of_rerr er). rewrite Hd2. splits; auto.
    + intros Hne. apply fifo_is_empty_false in Hne. rewrite Hne, andb_false_r in He. subst er. reflexivity.
    + intros Hq Hpos. apply fifo_is_empty_nil in Hq. rewrite Hq in He.
      replace (0 <? n) with true in He by lia. subst er. reflexivity.
  - exists None, XEmpty. rewrite ztake_nil, zdrop_nil. cbn [ering_inv rcontent]. splits; auto. congruence.
Qed.

Lemma RReadByte_ok e : ering_inv e ->
  exists e' b er, RReadByte e = Ret (e', (b, er)) /\ ering_inv e' /\
    match rcontent e with
    | [] => er = XEmpty /\ rcontent e' = []
    | y :: t => b = y /\ er = XNil /\ rcontent e' = t
    end.
Proof.
  intros Hi. destruct e as [rb|]; cbn [RReadByte rcontent ering_inv] in *.
  - destruct (ring_ReadByte rb Hi) as (rb' & b & er & Hr & Hi' & Hm).
    rewrite Hr. cbn [obind]. destruct (done_ok rb' Hi') as (Hd1 & Hd2).
    exists (done rb'), b, (of_rerr er). rewrite Hd2. splits; auto.
    destruct (rc rb); [destruct Hm as (-> & ->)|destruct Hm as (-> & -> & ->)]; auto.
  - exists None, 0, XEmpty. cbn. auto.
Qed.

Lemma RPeek_ok e n : ering_inv e ->
  exists h t, RPeek e n = Ret (h, t) /\ (h ++ t)%list = (if n <=? 0 then rcontent e else ztake n (rcontent e)).
Proof.
  intros Hi. destruct e as [rb|]; cbn [RPeek rcontent ering_inv] in *.
  - apply ring_Peek. exact Hi.
  - exists [], []. rewrite ztake_nil. destruct (n <=? 0); auto.
Qed.

Lemma RDiscard_ok e n : ering_inv e ->
  exists e' er, RDiscard e n = Ret (e', (zlen (ztake n (rcontent e)), er)) /\ ering_inv e' /\
    rcontent e' = zdrop n (rcontent e) /\ (rcontent e <> [] -> er = XNil).
Proof.
  intros Hi. destruct e as [rb|]; cbn [RDiscard rcontent ering_inv] in *.
  - destruct (ring_Discard rb n Hi) as (rb' & Hr & Hi' & Hc).
    rewrite Hr. cbn [obind of_rerr]. destruct (done_ok rb' Hi') as (Hd1 & Hd2).
    exists (done rb'), XNil. rewrite Hd2. auto.
  - exists None, XEmpty. rewrite ztake_nil, zdrop_nil. cbn. splits; auto. congruence.
Qed.

Lemma RBytes_ok e : ering_inv e -> RBytes e = Ret (rcontent e).
Proof. destruct e as [rb|]; cbn; intros Hi; [apply ring_Bytes; exact Hi|reflexivity]. Qed.

Lemma RReadFrom_ok e c src sc : ering_inv e -> 0 <= c ->
  exists e' o k, RReadFrom e c src sc = Ret (e', o) /\ ering_inv e' /\
    0 <= k <= zlen src /\ Ring.rf_n o = k /\ zlen (Ring.rf_src o) = zlen src - k /\
    rcontent e' = (rcontent e ++ ztake k src)%list.
Proof.
  intros Hi Hc. unfold RReadFrom. destruct (instance_ok e c Hi Hc) as (Hi0 & Hc0).
  destruct (ring_ReadFrom (instance e c) src (rscript_of sc) Hi0) as (rb' & o & k & Hr & Hi' & Hk & Hn & Hs & Hc').
  rewrite Hr. cbn [obind]. exists (Some rb'), o, k. cbn [ering_inv rcontent]. rewrite Hc', Hc0, Hs.
  splits; auto; try lia. zl.
Qed.

Lemma RWriteTo_ok e sc : ering_inv e ->
  exists e' o, RWriteTo e sc = Ret (e', o) /\ ering_inv e' /\
    Ring.wt_recv o = ztake (Ring.wt_n o) (rcontent e) /\ rcontent e' = zdrop (Ring.wt_n o) (rcontent e) /\
    0 <= Ring.wt_n o <= zlen (rcontent e) /\
    (Ring.wt_err o = Ring.ENil -> rcontent e' = []) /\ (rcontent e = [] -> Ring.wt_err o = Ring.EEmpty).
Proof.
  intros Hi. destruct e as [rb|]; cbn [RWriteTo rcontent ering_inv] in *.
  - destruct (ring_WriteTo rb (rscript_of sc) Hi) as (rb' & o & Hr & Hi' & H1 & H2 & H3 & H4 & H5).
    rewrite Hr. cbn [obind]. destruct (done_ok rb' Hi') as (Hd1 & Hd2).
    exists (done rb'), o. rewrite Hd2. splits; auto; lia.
  - eexists None, _. split; [reflexivity|]. cbn. splits; auto; try lia.
Qed.

Lemma RReset_ok e : ering_inv e -> ering_inv (RReset e) /\ rcontent (RReset e) = [].
Proof. destruct e as [rb|]; cbn; intros Hi; [apply ring_Reset; exact Hi|auto]. Qed.

Lemma of_rerr_nil e : of_rerr e = XNil -> e = Ring.ENil.
Proof. destruct e; cbn; congruence. Qed.

Lemma of_rerr_empty e : e = Ring.EEmpty -> of_rerr e = XEmpty.
Proof. intros ->. reflexivity. Qed.

(* ------------------------------------------------------------------ *)
(* one step, and every finite operation sequence                       *)

Lemma rstep_spec e o : ering_inv e -> rop_wf o ->
  exists e' x, rstep e o = Ret (e', x) /\ ering_inv e' /\ ering_op_spec (rcontent e) o x (rcontent e').
Proof.
  intros Hi Hwf. destruct o; cbn [rstep rop_wf] in *.
  - destruct Hwf as (Hc & Hp). destruct (RWrite_ok e c p Hi Hc Hp) as (e' & H & I & C). rewrite H. cbn [omap].
    eexists _, _. splits; [reflexivity|exact I|]. cbn. auto.
  - destruct Hwf as (Hc & Hp). rewrite RWriteString_eq.
    destruct (RWrite_ok e c p Hi Hc Hp) as (e' & H & I & C). rewrite H. cbn [omap].
    eexists _, _. splits; [reflexivity|exact I|]. cbn. auto.
  - destruct (RWriteByte_ok e c b Hi Hwf) as (e' & H & I & C). rewrite H. cbn [omap].
    eexists _, _. splits; [reflexivity|exact I|]. cbn. auto.
  - destruct (RRead_ok e n Hi Hwf) as (e' & er & H & I & C & E1 & E2). rewrite H. cbn [omap].
    eexists _, _. splits; [reflexivity|exact I|]. cbn [ering_op_spec]. unfold fifo_take. rewrite C. auto.
  - destruct (RReadByte_ok e Hi) as (e' & b & er & H & I & C). rewrite H. cbn [omap].
    eexists _, _. splits; [reflexivity|exact I|]. cbn [ering_op_spec]. exact C.
  - destruct (RPeek_ok e n Hi) as (h & t & H & C). rewrite H. cbn [omap].
    eexists _, _. splits; [reflexivity|exact Hi|]. cbn [ering_op_spec]. auto.
  - destruct (RDiscard_ok e n Hi) as (e' & er & H & I & C & E1). rewrite H. cbn [omap].
    eexists _, _. splits; [reflexivity|exact I|]. cbn [ering_op_spec fifo_take fst snd]. auto.
  - rewrite (RBytes_ok e Hi). cbn [omap]. eexists _, _. splits; [reflexivity|exact Hi|]. cbn. auto.
  - destruct (RReadFrom_ok e c src sc Hi Hwf) as (e' & o & k & H & I & Hk & Hn & Hs & C). rewrite H. cbn [omap].
    eexists _, _. splits; [reflexivity|exact I|]. cbn [ering_op_spec]. exists k. splits; auto; lia.
  - destruct (RWriteTo_ok e sc Hi) as (e' & o & H & I & H1 & H2 & H3 & H4 & H5). rewrite H. cbn [omap].
    eexists _, _. splits; [reflexivity|exact I|]. cbn [ering_op_spec]. unfold fifo_take, fifo_len.
    rewrite H1, H2. splits; auto; try lia.
    + intros He. rewrite <- H2. apply H4. apply of_rerr_nil. exact He.
    + intros Hq. apply of_rerr_empty. auto.
  - destruct (RReset_ok e Hi) as (I & C). eexists _, _. splits; [reflexivity|exact I|]. cbn. exact C.
  - eexists _, _. splits; [reflexivity|exact I|]. reflexivity.
  - eexists _, _. splits; [reflexivity|exact Hi|]. cbn. split; [|reflexivity]. apply RBuffered_ok. exact Hi.
  - eexists _, _. splits; [reflexivity|exact Hi|]. reflexivity.
  - eexists _, _. splits; [reflexivity|exact Hi|]. reflexivity.
  - eexists _, _. splits; [reflexivity|exact Hi|]. reflexivity.
  - eexists _, _. splits; [reflexivity|exact Hi|]. cbn. split; [|reflexivity]. apply RIsEmpty_ok. exact Hi.
  - eexists _, _. splits; [reflexivity|exact Hi|]. reflexivity.
Qed.

Lemma run_rops_spec ops : forall e, ering_inv e -> Forall rop_wf ops ->
  exists e' outs, run_rops e ops = Ret (e', outs) /\ ering_inv e' /\
    ering_run (rcontent e) ops outs (rcontent e').
Proof.
  induction ops as [|o ops IH]; intros e Hi Hwf; cbn [run_rops].
  - exists e, []. splits; trivial. constructor.
  - inversion Hwf as [|? ? Ho Hops]; subst.
    destruct (rstep_spec e o Hi Ho) as (e1 & x & Hs & I1 & S1). rewrite Hs. cbn [obind].
    destruct (IH e1 I1 Hops) as (e2 & xs & Hr & I2 & S2). rewrite Hr. cbn [obind].
    exists e2, (x :: xs). splits; trivial. econstructor; eassumption.
Qed.

(* the elastic ring buffer starts without a ring *)
Theorem elastic_ring_refines_fifo : forall ops, Forall rop_wf ops ->
  exists e outs, run_rops None ops = Ret (e, outs) /\ ering_run fifo_empty ops outs (rcontent e).
Proof.
  intros ops Hwf. destruct (run_rops_spec ops None I Hwf) as (e & outs & Hr & _ & S).
  exists e, outs. auto.
Qed.

Theorem elastic_ring_no_panic : forall ops, Forall rop_wf ops -> run_rops None ops <> Panic.
Proof.
  intros ops Hwf. destruct (elastic_ring_refines_fifo ops Hwf) as (e & outs & Hr & _). rewrite Hr. discriminate.
Qed.

(* lazy acquisition and return: the ring is held exactly while ... it may be
   held empty (after Reset / a ReadFrom that delivered nothing), but it is
   never missing while there is content *)
Lemma rcontent_none_nil e : e = None -> rcontent e = [].
Proof. intros ->. reflexivity. Qed.
