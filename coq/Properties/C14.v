(* C14 — the connection registry is a faithful map from descriptor to live
   connection, for the default map-based registry (conn_map.go, model mp_xxx)
   and for the compacting matrix selected by gc_opt (conn_matrix.go, model
   mx_xxx, parametric in the matrix dimensions ROW x COL; the code has 256 x 65536).
   Statements only; proofs live in Proofs/MatrixProofs.v and Proofs/RegistryProofs.v.

   Vocabulary (Spec/FinMap.v): an operation sequence is a list of
     OAdd id fd | ODel id | OIter m k   (visitor removes the visited connection
                                         iff m > 0 and fd mod m = k),
   sp_run / sp_outs run it on the abstract finite map (fd -> connection id) and
   list what every iteration has to visit; sp_wf says that descriptors are
   registered only while unregistered and only registered connections are
   removed; sp_below cap says that registrations happen below the capacity. *)
From Coq Require Import Permutation.
From GV Require Import Lib.Trace Spec.FinMap Model.Registry Proofs.MatrixProofs Proofs.RegistryProofs.
Open Scope Z_scope.

(* ---- default build: map-based registry; every visitor ---- *)
Theorem C14_map_registry_refines_map : forall ops,
  sp_wf fm_empty ops ->
  exists st outs, mp_run mp_init ops = Ret (st, outs) /\
    (forall fd, mp_get st fd = fm_get (sp_run fm_empty ops) fd) /\
    mp_load st = fm_size (sp_run fm_empty ops) /\
    Forall2 (fun vis vals => NoDup vis /\ Permutation vis vals) outs (sp_outs fm_empty ops).
Proof. exact map_registry_refines_map. Qed.
Print Assumptions C14_map_registry_refines_map.

(* ---- gc_opt build: the matrix; every ROW > 0, COL > 1; population below ROW*COL;
        iterations whose visitor removes all visited connections or none ---- *)
Theorem C14_matrix_registry_refines_map_partial : forall ROW COL, 0 < ROW -> 1 < COL -> forall ops,
  sp_wf fm_empty ops -> sp_below (ROW * COL) fm_empty ops -> Forall all_or_none ops ->
  exists st outs, mx_run ROW COL mx_init ops = Ret (st, outs) /\
    matrix_inv ROW COL st /\
    (forall fd, mx_get st fd = fm_get (sp_run fm_empty ops) fd) /\
    mx_load ROW st = fm_size (sp_run fm_empty ops) /\
    Forall2 (fun vis vals => NoDup vis /\ Permutation vis vals) outs (sp_outs fm_empty ops).
Proof. exact matrix_registry_refines_map_partial. Qed.
Print Assumptions C14_matrix_registry_refines_map_partial.

(* the same statement without the restriction on visitors: it does NOT hold
   (known finding C14/partial-iterate-clobber): after an iteration that removes
   some but not all connections, the next registrations overwrite live entries *)
Definition C14_matrix_registry_refines_map_full : Prop :=
  forall ROW COL, 0 < ROW -> 1 < COL -> forall ops,
  sp_wf fm_empty ops -> sp_below (ROW * COL) fm_empty ops ->
  exists st outs, mx_run ROW COL mx_init ops = Ret (st, outs) /\
    matrix_inv ROW COL st /\
    (forall fd, mx_get st fd = fm_get (sp_run fm_empty ops) fd) /\
    mx_load ROW st = fm_size (sp_run fm_empty ops) /\
    Forall2 (fun vis vals => NoDup vis /\ Permutation vis vals) outs (sp_outs fm_empty ops).

Theorem C14_matrix_registry_refines_map_full_refuted : ~ C14_matrix_registry_refines_map_full.
Proof. exact matrix_full_statement_refuted. Qed.
Print Assumptions C14_matrix_registry_refines_map_full_refuted.

(* ---- the representation invariant (Model/Registry.v, matrix_inv: dense prefix,
        exact per-row counts, row allocated iff count non-zero, fd2gfd / stored GFD /
        position agree) holds initially and is preserved operation by operation ---- *)
Theorem C14_matrix_inv_init : forall ROW COL, 0 < ROW -> 1 < COL -> matrix_inv ROW COL mx_init.
Proof. exact matrix_inv_init. Qed.
Print Assumptions C14_matrix_inv_init.

Theorem C14_matrix_add : forall ROW COL, 0 < ROW -> 1 < COL -> forall st id fd,
  matrix_inv ROW COL st -> mx_load ROW st < ROW * COL ->
  mx_get st fd = None -> (forall fd', mx_get st fd' <> Some id) ->
  matrix_inv ROW COL (mx_add ROW COL st id fd) /\
  (forall fd', mx_get (mx_add ROW COL st id fd) fd' = if fd' =? fd then Some id else mx_get st fd') /\
  mx_load ROW (mx_add ROW COL st id fd) = mx_load ROW st + 1.
Proof. exact matrix_add_spec. Qed.
Print Assumptions C14_matrix_add.

(* at capacity addConn drops the connection silently: no lookup and no count changes *)
Theorem C14_matrix_add_at_capacity_drops : forall ROW COL, 0 < ROW -> 1 < COL -> forall st id fd,
  matrix_inv ROW COL st -> mx_load ROW st = ROW * COL ->
  mat_equiv (mx_add ROW COL st id fd) st /\
  (forall fd', mx_get (mx_add ROW COL st id fd) fd' = mx_get st fd') /\
  mx_load ROW (mx_add ROW COL st id fd) = mx_load ROW st.
Proof. exact matrix_add_full_drops. Qed.
Print Assumptions C14_matrix_add_at_capacity_drops.

(* removal: the relocation of the last entry is invisible to lookups *)
Theorem C14_matrix_del_relocation_invisible : forall ROW COL, 0 < ROW -> 1 < COL -> forall st id fd,
  matrix_inv ROW COL st -> mx_get st fd = Some id ->
  exists st', mx_del ROW COL st id = Ret st' /\ matrix_inv ROW COL st' /\
    (forall fd', mx_get st' fd' = if fd' =? fd then None else mx_get st fd') /\
    mx_load ROW st' = mx_load ROW st - 1.
Proof. exact matrix_del_relocation_invisible. Qed.
Print Assumptions C14_matrix_del_relocation_invisible.

(* read-only iteration: every live connection exactly once, state untouched *)
Theorem C14_matrix_iterate_visits_once : forall ROW COL, 0 < ROW -> 1 < COL -> forall st m k,
  matrix_inv ROW COL st -> (forall fd, del_pred m k fd = false) ->
  exists vis, mx_iterate ROW COL st m k (-1) = Ret (st, vis) /\ NoDup vis /\
    (forall id, In id vis <-> exists fd, mx_get st fd = Some id).
Proof. exact matrix_iterate_visits_once. Qed.
Print Assumptions C14_matrix_iterate_visits_once.

(* the shutdown pattern: every live connection exactly once, and the registry
   ends indistinguishable from a fresh one and satisfies the invariant again
   (hence is reusable: all theorems above apply to it) *)
Theorem C14_matrix_iterate_delete_all_empties : forall ROW COL, 0 < ROW -> 1 < COL -> forall st m k,
  matrix_inv ROW COL st -> (forall fd, del_pred m k fd = true) ->
  exists st' vis, mx_iterate ROW COL st m k (-1) = Ret (st', vis) /\ NoDup vis /\
    (forall id, In id vis <-> exists fd, mx_get st fd = Some id) /\
    mat_equiv st' mx_init /\ matrix_inv ROW COL st' /\
    (forall fd, mx_get st' fd = None) /\ mx_load ROW st' = 0.
Proof. exact matrix_iterate_delete_all_empties. Qed.
Print Assumptions C14_matrix_iterate_delete_all_empties.

(* ---- non-vacuity ---- *)
(* a 2 x 3 matrix: fill the first row and cross into the second, remove a middle
   entry (the last one is relocated and the second row released), re-register the
   removed descriptor, iterate read-only, shut down, reuse *)
Definition C14_ex_ops : list rop :=
  [OAdd 1 10; OAdd 2 11; OAdd 3 12; OAdd 4 13; ODel 2; OAdd 5 11; OIter 0 0; ODel 1;
   OIter 1 0; OAdd 6 10; OAdd 7 99].

Example C14_ex_hypotheses :
  sp_wf fm_empty C14_ex_ops /\ sp_below (2 * 3) fm_empty C14_ex_ops /\ Forall all_or_none C14_ex_ops.
Proof.
  split; [|split].
  - cbn; repeat split; try reflexivity;
      try (intros H; cbn in H; repeat (destruct H as [H|H]; try discriminate H); contradiction);
      try (cbn; tauto).
  - cbn. repeat split; reflexivity.
  - unfold C14_ex_ops.
    repeat (apply Forall_cons;
            [cbn; first [exact I | left; exact (del_pred_none 0) | right; exact del_pred_all]|]).
    apply Forall_nil.
Qed.

Example C14_ex_run :
  exists st, mx_run 2 3 mx_init C14_ex_ops = Ret (st, [[1; 4; 3; 5]; [5; 4; 3]]) /\
    mx_get st 10 = Some 6 /\ mx_get st 99 = Some 7 /\ mx_get st 11 = None /\ mx_load 2 st = 2.
Proof. vm_compute. eexists. repeat split. Qed.

(* relocation really happens: after removing connection 2 (position (0,1)) the last
   connection 4 (position (1,0)) sits at (0,1) and the second row is released *)
Example C14_ex_relocation :
  exists st, mx_run 2 3 mx_init [OAdd 1 10; OAdd 2 11; OAdd 3 12; OAdd 4 13; ODel 2] = Ret (st, []) /\
    cell st 0 1 = Some 4 /\ row_nil st 1 = true /\ mx_get st 13 = Some 4 /\ (m_row st, m_col st) = (1, 0).
Proof. vm_compute. eexists. repeat split. Qed.

(* capacity: a 1 x 2 matrix drops the third registration *)
Example C14_ex_capacity :
  exists st, mx_run 1 2 mx_init [OAdd 1 10; OAdd 2 11; OAdd 3 12] = Ret (st, []) /\
    mx_get st 12 = None /\ mx_load 1 st = 2.
Proof. vm_compute. eexists. repeat split. Qed.

(* why COL > 1: with a single column every removal empties its row, the
   compaction is skipped and a later registration overwrites a live entry
   (irrelevant for the real constants; shown so that the hypothesis is not silent) *)
Example C14_ex_single_column_breaks :
  exists st, mx_run 4 1 mx_init [OAdd 1 10; OAdd 2 11; OAdd 3 12; ODel 1; OAdd 4 13; OAdd 5 14] = Ret (st, []) /\
    mx_get st 11 = Some 5.
Proof. vm_compute. eexists. repeat split. Qed.

(* the refuting run on the real dimensions: descriptor 11 resolves to connection 5 *)
Example C14_ex_partial_iterate_clobbers :
  exists st outs, mx_run 256 65536 mx_init c14_witness_ops = Ret (st, outs) /\
    mx_get st 11 = Some 5 /\ fm_get (sp_run fm_empty c14_witness_ops) 11 = Some 2.
Proof. vm_compute. eexists _, _. repeat split. Qed.

(* the map variant on the same sequence is correct *)
Example C14_ex_map_partial_iterate :
  exists st outs, mp_run mp_init c14_witness_ops = Ret (st, outs) /\ mp_get st 11 = Some 2 /\ mp_load st = 4.
Proof. vm_compute. eexists _, _. repeat split. Qed.

(* a reachable, non-trivial state satisfying the invariant that the per-operation
   theorems assume: two rows in use, one relocation done *)
Example C14_ex_inv_nontrivial :
  exists st, mx_run 2 3 mx_init [OAdd 1 10; OAdd 2 11; OAdd 3 12; OAdd 4 13; OAdd 5 14; ODel 2] = Ret (st, []) /\
    matrix_inv 2 3 st /\ mx_load 2 st = 4 /\ mx_get st 14 = Some 5 /\ cell st 0 1 = Some 5.
Proof.
  destruct (C14_matrix_registry_refines_map_partial 2 3 ltac:(reflexivity) ltac:(reflexivity)
              [OAdd 1 10; OAdd 2 11; OAdd 3 12; OAdd 4 13; OAdd 5 14; ODel 2])
    as (st & outs & E & I & _).
  - cbn; repeat split; try reflexivity;
      try (intros H; cbn in H; repeat (destruct H as [H|H]; try discriminate H); contradiction);
      try (cbn; tauto).
  - cbn. repeat split; reflexivity.
  - repeat (apply Forall_cons; [exact Logic.I|]). apply Forall_nil.
  - vm_compute in E. inversion E; subst st outs. eexists. split; [vm_compute; reflexivity|].
    split; [exact I|]. vm_compute. repeat split.
Qed.
