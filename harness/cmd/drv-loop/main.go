// drv-loop runs the real gnet engine (built from the current tree with the
// x/sys/unix import swapped for the vunix shim) against scripted peers and a
// scripted event handler, and writes the loop-thread event stream as a trace
// for the extracted model of Model/Loop.v (family "loop").  It also evaluates
// the direct oracles of C01, C02, C04, C07, C08 and C18 on what it observed.
package main

import (
	"bytes"
	"context"
	"flag"
	"fmt"
	"net"
	"os"
	"strconv"
	"strings"
	"syscall"

	"golang.org/x/sys/unix"
	"time"

	gnet "github.com/panjf2000/gnet/v2"
	"github.com/panjf2000/gnet/v2/pkg/logging"
	"github.com/panjf2000/gnet/v2/pkg/netpoll"
	"github.com/panjf2000/gnet/v2/pkg/vunix"

	"verifharness/tr"
)

type caseCfg struct {
	et             bool
	chunk          int
	bufcap         int
	proto          string // tcp | unix | udp
	reuseport      bool
	udp            bool
	udpFam         string // v4 | dual | v6: address family of the UDP listener
	sndbuf         int
	wbufcap        int // WithWriteBufferCap (0 = default)
	pClose         int // per mille
	pShutdown      int
	pOpenReply     int // percent
	pDrain         int
	maxCalls       int
	pElClose       int
	pCross         int
	pSweepShutdown int
	crossCloseOnly bool
	scenario       string
	client         bool
	loops          int
	writeSizes     []int
	steps          int
	maxConns       int
	inject         []inject
	focus          string
}

func (c *caseCfg) header() []string {
	return []string{"et=" + tr.B(c.et), "chunk=" + tr.I(c.chunk), "bufcap=" + tr.I(c.bufcap), "proto=" + c.proto,
		"reuseport=" + tr.B(c.reuseport), "sndbuf=" + tr.I(c.sndbuf), "loops=" + tr.I(c.loops), "pollopt=" + tr.B(pollOpt), "focus=" + c.focus}
}

type peer struct {
	dgrams     [][]byte // UDP: datagrams sent, in order
	delivered  int      // UDP: how many of them have been seen by OnTraffic
	expReplies [][]byte // UDP: datagrams the handler sent back to this sender
	gotReplies [][]byte
	conn       net.Conn
	cid        int
	sent       []byte
	recv       []byte
	wclosed    bool
	closed     bool
	reset      bool
	causal     bool // the peer ended (or half-ended) its side while the connection was still open on the gnet side
}

var pcount int

func genCfg(rnd *tr.Rand, focus string) *caseCfg {
	c := &caseCfg{focus: focus, loops: 1}
	switch rnd.Intn(3) {
	case 0:
	case 1:
		c.et = true
	case 2:
		c.et = true
		c.chunk = rnd.Pick([]int{1024, 4096, 65536})
	}
	c.bufcap = rnd.Pick([]int{1024, 1024, 2048, 65536})
	c.proto = rnd.PickS([]string{"tcp", "tcp", "unix"})
	c.reuseport = rnd.Chance(50)
	if rnd.Chance(40) {
		c.sndbuf = 4096
	}
	c.pClose = rnd.Pick([]int{0, 10, 40})
	c.pShutdown = rnd.Pick([]int{0, 0, 0, 4})
	c.pOpenReply = rnd.Pick([]int{0, 50, 100})
	c.pDrain = rnd.Pick([]int{30, 80, 100})
	c.maxCalls = rnd.Pick([]int{0, 2, 4})
	c.pElClose = rnd.Pick([]int{0, 0, 2})
	c.pCross = rnd.Pick([]int{0, 0, 6})
	c.pSweepShutdown = rnd.Pick([]int{0, 0, 40})
	c.writeSizes = []int{0, 1, 10, 1000, 5000}
	if c.sndbuf > 0 {
		c.writeSizes = append(c.writeSizes, 70000, 300000)
	}
	c.steps = rnd.Range(4, 30)
	c.maxConns = rnd.Range(1, 3)
	c.loops = 1
	if focus == "multi" {
		// several event loops: loop 0 is modelled, the others are judged by the direct oracles only
		c.loops = rnd.Range(2, 4)
		c.maxConns = rnd.Range(3, 6)
		c.steps = rnd.Range(15, 40)
		c.pShutdown = 0
		c.pCross = 0
	}
	if strings.HasPrefix(focus, "scenario:") {
		c.scenario = strings.TrimPrefix(focus, "scenario:")
		c.et, c.chunk, c.bufcap, c.proto, c.reuseport, c.sndbuf = false, 0, 65536, "tcp", true, 0
		c.pClose, c.pShutdown, c.pOpenReply, c.pCross, c.pElClose, c.inject = 0, 0, 0, 0, 0, nil
		c.maxConns, c.steps = 1, 0
		switch c.scenario {
		case "read-after-close":
			c.et = true
		case "write-after-close", "shutdown-from-onclose", "shutdown-from-onclose-writev":
			c.inject = []inject{{name: "wr", index: 0, kind: "epipe", cid: -1}}
		case "shutdown-from-onclose-flush":
			// data is buffered behind EAGAIN; the flush from the poller's write event fails hard; OnClose returns Shutdown
			c.sndbuf = 4096
			c.inject = []inject{{name: "wr", index: 3, kind: "epipe", cid: -1}}
		case "peek-from-ring":
			// Peek served entirely from the leftover ring
		case "open-arm-fails":
			// the OnOpen reply does not fit the socket and arming write interest fails: the connection is closed with an error
			c.sndbuf = 4096
			c.inject = []inject{{name: "epctl-mod", index: 0, kind: "enomem", cid: -1}}
		case "onopen-reply-order":
			c.sndbuf, c.pOpenReply = 4096, 100
		case "lt-partial-flush":
			c.sndbuf = 4096
		case "stale-del":
			c.maxConns = 2
			c.bufcap = 1024 // level-triggered: both connections stay readable, so they share epoll_wait batches
		case "queued-write-after-close":
			c.et, c.chunk, c.sndbuf = true, 1024, 4096
		case "writev-eagain":
			c.inject = []inject{{name: "wr", index: 0, kind: "eagain", cid: -1}}
		case "close-drain-error":
			c.sndbuf = 4096
			c.inject = []inject{{name: "wr", index: 2, kind: "epipe", cid: -1}}
		case "et-backlog":
			// edge-triggered, more than IOV_MAX queued chunks behind a backlog: every batch must be followed up
			c.et, c.sndbuf, c.wbufcap = true, 4096, 1024
		case "readfrom-after-spill":
			// a backlog spilled into the list part of the outbound buffer, a partial drain, then ReadFrom + Flush
			c.sndbuf, c.wbufcap = 4096, 1024
		case "stale-read0":
			// edge-triggered with a chunk limit equal to the read buffer: a follow-up read is queued for a connection
			// that is closed (data arrived together with FIN) before the task runs, and whose descriptor number is
			// taken by the next accepted connection in the same batch
			c.et, c.chunk, c.bufcap = true, 1024, 1024
		case "onopen-big-reply", "onopen-big-reply-shutdown":
			c.sndbuf = 4096
		case "accept-fatal":
			// the third accept4 fails with EMFILE: the loop gives up (ErrAcceptSocket) while it owns two open
			// connections; both must get their OnClose before Run returns
			c.maxConns = 3
			c.inject = []inject{{name: "accept", index: 2, kind: "emfile", cid: -1}}
		case "write-fail-del-fail":
			// two faults on ONE connection: the handler's Write fails hard, and the EPOLL_CTL_DEL of the close
			// that follows fails too; the engine and the other connection must not notice
			c.maxConns = 2
			c.inject = []inject{{name: "wr", index: 0, kind: "epipe", cid: -1}, {name: "epctl-del", index: 0, kind: "ebadf", cid: -1}}
		case "shutdown-sweep":
			c.maxConns = 3
		case "error-then-wake", "error-then-edge":
			// three connections; the loop is parked in B's OnTraffic while A's peer closes (the close of A will
			// report a failing EPOLL_CTL_DEL: the poller callback of A returns an error), C's peer sends, and an
			// AsyncWrite for B is queued: the next batch is [A, C, wake-up] and all of it must be served
			c.maxConns = 3
			c.et = c.scenario == "error-then-edge"
			c.inject = []inject{{name: "epctl-del", index: 0, kind: "ebadf", cid: -1}}
		case "register-fails":
			c.maxConns = 3
			c.inject = []inject{{name: "epctl-add", index: 1, kind: "enomem", cid: -1}}
		}
		if strings.HasPrefix(c.scenario, "data-with-fin") {
			// data-with-fin-<unix|tcp>-<lt|et>: the peer's last bytes and its close are reported in ONE event
			c.maxConns = 2
			c.et = strings.HasSuffix(c.scenario, "-et")
			if strings.Contains(c.scenario, "-unix-") {
				c.proto = "unix"
			}
		}
		return c
	}
	if focus == "client" {
		c.client = true
		c.reuseport = true
		c.pShutdown = 0
		if rnd.Chance(25) {
			c.proto, c.udp = "udp", false
			c.pElClose = rnd.Pick([]int{0, 4}) // also reaches AsyncWrite after close on a connected-UDP socket
		}
	}
	if focus == "stale" {
		// the reactor's stale-event branch: a callback closes ANOTHER connection that has an
		// event pending in the same batch
		c.maxConns = 2
		c.pCross = 60
		c.pClose, c.pShutdown, c.pElClose = 0, 0, 0
		c.steps = rnd.Range(8, 16)
		c.maxCalls = 2
		c.crossCloseOnly = true
	}
	if focus == "fault" {
		c.maxConns = rnd.Range(2, 3)
		c.steps = rnd.Range(12, 30)
		c.pShutdown = 0
		n := 1
		if rnd.Chance(30) {
			n = 2
		}
		for i := 0; i < n; i++ {
			name := rnd.PickS([]string{"read", "read", "wr", "wr", "close", "epctl-add", "epctl-mod", "epctl-del", "accept", "accept0", "wait", "evmask", "evmask"})
			var kinds []string
			switch name {
			case "read", "wr":
				kinds = []string{"econnreset", "epipe", "etimedout", "ebadf", "enomem", "einval"}
				if !c.et {
					kinds = append(kinds, "eagain", "eagain")
				}
			case "accept":
				// the last one is fatal: the loop gives up (ErrAcceptSocket), the engine shuts down, and every
				// connection that loop still owns must get its OnClose
				kinds = []string{"eintr", "econnaborted", "econnreset", "emfile"}
			case "accept0":
				kinds = []string{"eintr", "econnaborted", "econnreset", "emfile"}
			case "wait":
				kinds = []string{"eintr"}
			case "evmask":
				kinds = []string{"hup-only", "rdhup-no-in"}
			case "close":
				kinds = []string{"eintr", "ebadf"}
			default:
				kinds = []string{"enomem", "ebadf", "einval"}
			}
			index := rnd.Intn(7)
			if name == "evmask" {
				index = rnd.Intn(2) // a case has only a few events that carry a hang-up
			}
			c.inject = append(c.inject, inject{name: name, index: index, kind: rnd.PickS(kinds), cid: -1})
		}
		if (!c.reuseport || c.proto == "unix") && rnd.Chance(35) {
			// main-reactor mode: a transient accept4 failure on the acceptor thread (edge-triggered listener)
			c.inject = append(c.inject, inject{name: "accept0", index: rnd.Intn(4), kind: rnd.PickS([]string{"eintr", "econnaborted", "econnreset"}), cid: -1})
		}
	}
	return c
}

func main() {
	seed := flag.Uint64("seed", 1, "")
	tier := flag.String("tier", "quick", "")
	out := flag.String("out", "trace.txt", "")
	stats := flag.String("stats", "", "")
	rep := flag.String("replay", "", "")
	focus := flag.String("focus", "stream", "stream | udp | fault")
	ncases := flag.Int("n", 0, "")
	flag.Parse()
	logging.SetDefaultLoggerAndFlusher(nopLogger{}, nil)
	w := tr.NewWriter(*out)
	statsPath = *stats
	defer w.Close(*stats)
	if *rep != "" {
		for _, c := range tr.ReadCases(*rep) {
			s, _ := strconv.ParseUint(c.Cfg["seed"], 10, 64)
			idx := tr.CfgInt(c.Cfg, "idx", 0)
			f := c.Cfg["focus"]
			if f == "" {
				f = *focus
			}
			if f == "startfault" {
				runStartFault(w, s, idx)
				continue
			}
			runCase(w, s, idx, f)
		}
		return
	}
	n := *ncases
	if n == 0 {
		n = 90
	}
	if *tier == "thorough" {
		n *= 30
	}
	for i := 0; i < n; i++ {
		if *focus == "startfault" {
			runStartFault(w, *seed, i)
			continue
		}
		runCase(w, *seed, i, *focus)
	}
}

type nopLogger struct{}

func (nopLogger) Debugf(string, ...any) {}
func (nopLogger) Infof(string, ...any)  {}
func (nopLogger) Warnf(string, ...any)  {}
func (nopLogger) Errorf(string, ...any) {}
func (nopLogger) Fatalf(string, ...any) {}

var ipv6Probe = -1

// haveIPv6: the sandbox has a usable ::1
func haveIPv6() bool {
	if ipv6Probe < 0 {
		ipv6Probe = 0
		if c, err := net.ListenUDP("udp6", &net.UDPAddr{IP: net.IPv6loopback}); err == nil {
			c.Close()
			ipv6Probe = 1
		}
	}
	return ipv6Probe == 1
}

// haveLinkLocal: the loopback interface has the link-local address fe80::1 (added by bin/check in the private
// network namespace of a run): senders bound to it have a ZONE in their address
var llProbe = -1

func haveLinkLocal() bool {
	if llProbe < 0 {
		llProbe = 0
		if c, err := net.ListenUDP("udp6", &net.UDPAddr{IP: net.ParseIP("fe80::1"), Zone: "lo"}); err == nil {
			c.Close()
			llProbe = 1
		}
	}
	return llProbe == 1
}

func freePort() int {
	l, err := net.Listen("tcp", "127.0.0.1:0")
	if err != nil {
		panic(err)
	}
	p := l.Addr().(*net.TCPAddr).Port
	l.Close()
	return p
}

var timing = os.Getenv("VERIF_TIMING") != ""
var statsPath string

func runCase(w *tr.Writer, seed uint64, idx int, focus string) {
	t0 := time.Now()
	lap := func(what string) {
		if timing {
			fmt.Fprintf(os.Stderr, "case %d %s %v\n", idx, what, time.Since(t0))
		}
	}
	defer lap("end")
	rnd := tr.NewRand(seed*1000003 + uint64(idx))
	cfg := genCfg(rnd, focus)
	if focus == "udp" {
		cfg.proto, cfg.udp, cfg.reuseport = "udp", true, true
		cfg.udpFam = rnd.PickS([]string{"v4", "v4", "v4", "dual", "dual", "v6"})
		if rnd.Chance(25) {
			// one recvfrom fails (a pending socket error): only that datagram is affected, the listener goes on
			cfg.inject = append(cfg.inject, inject{name: "recvfrom", index: rnd.Intn(6), kind: rnd.PickS([]string{"econnreset", "enomem", "eintr"}), cid: -1})
		}
		cfg.pShutdown = rnd.Pick([]int{0, 0, 0, 8})
		if cfg.udpFam != "v4" && !haveIPv6() {
			cfg.udpFam = "v4"
		}
	}
	rec := newRecorder()
	rec.injects = cfg.inject
	h := &handler{rec: rec, rnd: tr.NewRand(seed*7919 + uint64(idx)), byC: map[gnet.Conn]*connInfo{}, curBy: map[int64]*connInfo{}, cfg: cfg, w: w,
		inTraffic: make(chan struct{}, 1), release: make(chan struct{}), udpPeers: map[string]*peer{}}
	vunix.SetHooks(rec)
	defer vunix.SetHooks(nil)

	var addr, dialNet, dialAddr, unixPath string
	switch cfg.proto {
	case "unix":
		pcount++
		p := fmt.Sprintf("/var/tmp/vloop-%d-%d.sock", os.Getpid(), pcount)
		os.Remove(p)
		defer os.Remove(p)
		unixPath = p
		addr, dialNet, dialAddr = "unix://"+p, "unix", p
	case "udp":
		port := freePort()
		addr, dialNet, dialAddr = fmt.Sprintf("udp://127.0.0.1:%d", port), "udp", fmt.Sprintf("127.0.0.1:%d", port)
		switch cfg.udpFam {
		case "dual": // wildcard listener on an AF_INET6 socket: IPv4 senders arrive as v4-mapped addresses
			addr = fmt.Sprintf("udp://:%d", port)
		case "v6":
			addr, dialAddr = fmt.Sprintf("udp://[::1]:%d", port), fmt.Sprintf("[::1]:%d", port)
		}
	default:
		port := freePort()
		addr, dialNet, dialAddr = fmt.Sprintf("tcp://127.0.0.1:%d", port), "tcp", fmt.Sprintf("127.0.0.1:%d", port)
	}
	opts := []gnet.Option{gnet.WithNumEventLoop(cfg.loops), gnet.WithReadBufferCap(cfg.bufcap), gnet.WithReusePort(cfg.reuseport)}
	if cfg.wbufcap > 0 {
		opts = append(opts, gnet.WithWriteBufferCap(cfg.wbufcap))
	}
	if cfg.scenario == "" && idx%5 == 3 {
		opts = append(opts, gnet.WithLockOSThread(true)) // no semantic difference: the loops pin their OS threads
	}
	if cfg.et {
		opts = append(opts, gnet.WithEdgeTriggeredIO(true))
	}
	if cfg.chunk > 0 {
		opts = append(opts, gnet.WithEdgeTriggeredIOChunk(cfg.chunk))
	}
	rec.mu.Lock()
	rec.ledgerOn = true
	rec.reactor = !(cfg.client || cfg.udp || (cfg.reuseport && cfg.proto != "unix"))
	rec.client = cfg.client
	rec.nloops = cfg.loops
	rec.mu.Unlock()
	done := make(chan error, 1)
	var cli *gnet.Client
	var srvLn net.Listener
	var srvUDP *net.UDPConn
	if cfg.client {
		// the harness is the server; gnet is the client dialling it
		var err error
		switch cfg.proto {
		case "unix":
			srvLn, err = net.Listen("unix", dialAddr)
		case "udp":
			ua, _ := net.ResolveUDPAddr("udp", dialAddr)
			srvUDP, err = net.ListenUDP("udp", ua)
		default:
			srvLn, err = net.Listen("tcp", dialAddr)
		}
		if err != nil {
			return
		}
		if srvLn != nil {
			defer srvLn.Close()
		}
		if srvUDP != nil {
			if t, err := net.ListenUDP("udp", &net.UDPAddr{IP: net.IPv4(127, 0, 0, 1)}); err == nil {
				h.third = t
				defer t.Close()
			}
			defer srvUDP.Close()
		}
		cli, err = gnet.NewClient(h, opts...)
		if err == nil {
			err = cli.Start()
		}
		if err != nil {
			w.Case(fmt.Sprintf("L%d", idx), "loop", append(cfg.header(), "seed="+tr.U64(seed), "idx="+tr.I(idx))...)
			w.Fail("engine-start", "client-start", fmt.Sprint(err))
			w.End()
			return
		}
	} else {
		go func() { done <- gnet.Run(h, addr, opts...) }()
	}
	// wait for the loop to be up and idle
	booted := false
	for i := 0; i < 4000; i++ {
		rec.mu.Lock()
		up := rec.loopG != 0 && rec.idle && (!rec.reactor || rec.accG != 0)
		rec.mu.Unlock()
		if up {
			booted = true
			break
		}
		select {
		case err := <-done:
			w.Case(fmt.Sprintf("L%d", idx), "loop", append(cfg.header(), "seed="+tr.U64(seed), "idx="+tr.I(idx))...)
			w.Fail("engine-start", "run-returned", fmt.Sprint(err))
			w.End()
			return
		default:
		}
		time.Sleep(250 * time.Microsecond)
	}
	if !booted {
		w.Case(fmt.Sprintf("L%d", idx), "loop", append(cfg.header(), "seed="+tr.U64(seed), "idx="+tr.I(idx))...)
		w.Fail("engine-start", "no-boot", "event loop did not become idle")
		w.End()
		return
	}
	lap("boot")
	chunk := cfg.chunk
	if cfg.et && chunk == 0 {
		chunk = 1 << 20
	}
	var head []tr.Line
	rec.mu.Lock()
	head = append(head, tr.L("cfg", tr.B(cfg.et), tr.I(chunk), tr.I(cfg.bufcap), tr.I(rec.loopEfd), tr.I(netpoll.MaxPollEventsCap), tr.I(netpoll.MaxAsyncTasksAtOneTime)))
	if !rec.reactor {
		for _, fd := range rec.sockets {
			head = append(head, tr.L("listen", tr.I(fd), tr.B(cfg.udp)))
		}
	}
	if pollOpt {
		head = append(head, tr.L("listen", "-1", "1")) // build variant: dispatch through attachments
	}
	rec.mu.Unlock()

	var peers []*peer
	settle := 1500 * time.Microsecond
	stuck := 0
	var engineDown func() bool
	quiet := func() {
		if engineDown != nil && engineDown() {
			rec.mu.Lock()
			rec.exited = true // Run has returned (e.g. a handler asked for shutdown): nothing left to wait for
			rec.mu.Unlock()
		}
		if rec.waitQuiet(settle, 3*time.Second) {
			stuck = 0
			return
		}
		if engineDown != nil && engineDown() {
			return
		}
		stuck++
		if stuck >= 2 {
			// the event loop never goes back to a blocking epoll_wait: it is wedged (e.g. spinning).
			// Nothing can be stopped or awaited any more: report and leave the process.
			rec.Fail("loop-stuck", "no-idle", "the event loop did not become idle within 6 s")
			w.Case(fmt.Sprintf("L%d", idx), "loop", append(cfg.header(), "seed="+tr.U64(seed), "idx="+tr.I(idx))...)
			rec.mu.Lock()
			lo := len(rec.log) - 60
			// skip the repetitive tail: show the part before the loop started spinning
			for lo > 0 && rec.log[lo].line.String() == rec.log[len(rec.log)-1].line.String() {
				lo--
			}
			lo -= 50
			if lo < 0 {
				lo = 0
			}
			if lo < 0 {
				lo = 0
			}
			hi := lo + 70
			if hi > len(rec.log) {
				hi = len(rec.log)
			}
			for _, e := range rec.log[lo:hi] { // the tail of what the loop did before it wedged
				l := e.line.String()
				if len(l) > 160 {
					l = l[:160]
				}
				switch e.tag {
				case "op":
					w.Op(tr.L(l))
				case "obs":
					w.Obs(tr.L(l))
				}
			}
			rec.mu.Unlock()
			w.Fail("loop-stuck", "no-idle", "the event loop did not become idle within 6 s (case aborted, process exits)")
			w.End()
			w.Close(statsPath)
			os.Exit(0)
		}
	}
	woken := func(seq int, max time.Duration) { rec.waitWoken(seq, settle, max) }

	// how long to wait for the loop to react to a peer action on p
	expect := func(p *peer) time.Duration {
		if ci := h.byCid(p.cid); ci != nil && !ci.closed {
			return 300 * time.Millisecond
		}
		return 8 * time.Millisecond
	}
	stopped := false
	sharedPort := rnd.Chance(50)
	engineDown = func() bool {
		select {
		case err := <-done:
			done <- err
			return true
		default:
			return false
		}
	}

	// the peer is about to close / half-close / reset: if gnet still has the connection open, that is a
	// possible cause of its OnClose (for the nil / non-nil error rule of C04)
	ending := func(p *peer) {
		h.mu.Lock()
		defer h.mu.Unlock()
		for _, ci := range h.all {
			if ci.cid == p.cid && ci.closed {
				return
			}
		}
		p.causal = true
	}
	live := func() []*peer {
		var l []*peer
		for _, p := range peers {
			if !p.closed {
				l = append(l, p)
			}
		}
		return l
	}
	recvSome := func(p *peer, max int, d time.Duration) int {
		buf := make([]byte, max)
		p.conn.SetReadDeadline(time.Now().Add(d))
		n, _ := p.conn.Read(buf)
		p.recv = append(p.recv, buf[:n]...)
		return n
	}

	if cfg.scenario != "" {
		// fixed peer behaviour: connect maxConns peers, everyone sends 100 bytes at once, then read everything
		for len(peers) < cfg.maxConns {
			seq := rec.seq()
			c, err := net.Dial(dialNet, dialAddr)
			if err != nil {
				break
			}
			p := &peer{conn: c, cid: -1}
			peers = append(peers, p)
			woken(seq, 2*time.Second)
			quiet()
			rec.mu.Lock()
			p.cid = rec.nextGid - 1
			rec.mu.Unlock()
		}
		seq := rec.seq()
		for _, p := range peers {
			data := rnd.Bytes(map[bool]int{true: 6000, false: 100}[cfg.scenario == "stale-del"])
			n, _ := p.conn.Write(data)
			p.sent = append(p.sent, data[:n]...)
		}
		woken(seq, 500*time.Millisecond)
		quiet()
		for round := 0; round < 200; round++ {
			got := 0
			for _, p := range peers {
				got += recvSome(p, 1<<20, 3*time.Millisecond)
			}
			quiet()
			if got == 0 && round > 3 {
				break
			}
		}
		if cfg.scenario == "stale-requests" && len(peers) > 0 {
			// connection A was closed by its handler; B is accepted and reuses A's descriptor number;
			// then late requests for A arrive from another goroutine
			a := h.byCid(peers[0].cid)
			seq := rec.seq()
			// make B's accept return A's old number: a placeholder takes the free number while B's
			// client socket is created, and is released while the loop is held just before accept(2)
			gate := make(chan struct{})
			rec.mu.Lock()
			rec.acceptGate = gate
			rec.mu.Unlock()
			dummy, _ := os.Open("/dev/null")
			go func() {
				time.Sleep(20 * time.Millisecond)
				if dummy != nil {
					dummy.Close()
				}
				rec.mu.Lock()
				rec.acceptGate = nil
				rec.mu.Unlock()
				close(gate)
			}()
			if c, err := net.Dial(dialNet, dialAddr); err == nil {
				pb := &peer{conn: c, cid: -1}
				peers = append(peers, pb)
				woken(seq, 2*time.Second)
				quiet()
				rec.mu.Lock()
				pb.cid = rec.nextCid - 1
				rec.mu.Unlock()
			}
			if a != nil && a.c != nil {
				for _, kind := range []string{"wake", "write", "close", "wake"} {
					quiet()
					seq = rec.seq()
					switch kind {
					case "wake":
						h.op(a, tr.L("async", "wake", tr.I(a.mcid), "1"))
						a.c.Wake(h.acb("wake", a, true, nil))
					case "write":
						data := []byte("late-data")
						h.op(a, tr.L("async", "write", tr.I(a.mcid), tr.X(data), "1"))
						a.c.AsyncWrite(data, h.acb("write", a, true, data))
					case "close":
						h.op(a, tr.L("async", "close", tr.I(a.mcid), "1"))
						a.c.CloseWithCallback(h.acb("close", a, true, nil))
					}
					woken(seq, time.Second)
				}
				quiet()
			}
		}
		if cfg.scenario == "peek-from-ring" && len(peers) == 1 {
			for _, sz := range []int{50, 7} {
				seq := rec.seq()
				data := rnd.Bytes(sz)
				n, _ := peers[0].conn.Write(data)
				peers[0].sent = append(peers[0].sent, data[:n]...)
				woken(seq, 500*time.Millisecond)
				quiet()
			}
		}
		if cfg.scenario == "stale-read0" && len(peers) == 1 {
			pa := peers[0]
			seq := rec.seq()
			n, _ := pa.conn.Write([]byte("park"))
			pa.sent = append(pa.sent, []byte("park")[:n]...)
			select {
			case <-h.inTraffic:
			case <-time.After(time.Second):
			}
			// while the loop is parked in A's OnTraffic: A sends 5000 bytes and closes, B connects and sends
			data := rnd.Bytes(5000)
			n, _ = pa.conn.Write(data)
			pa.sent = append(pa.sent, data[:n]...)
			ending(pa)
			pa.conn.Close()
			pa.closed = true
			var pb *peer
			if c, err := net.Dial(dialNet, dialAddr); err == nil {
				pb = &peer{conn: c, cid: -1}
				d2 := rnd.Bytes(300)
				n, _ = c.Write(d2)
				pb.sent = append(pb.sent, d2[:n]...)
			}
			time.Sleep(10 * time.Millisecond)
			close(h.release)
			woken(seq, 2*time.Second)
			quiet()
			if pb != nil {
				peers = append(peers, pb)
				rec.mu.Lock()
				pb.cid = rec.nextGid - 1
				rec.mu.Unlock()
				// B goes on sending: its handler must see its own stream from the first byte
				seq = rec.seq()
				d3 := rnd.Bytes(200)
				n, _ = pb.conn.Write(d3)
				pb.sent = append(pb.sent, d3[:n]...)
				woken(seq, 500*time.Millisecond)
				quiet()
				for round := 0; round < 20; round++ {
					if recvSome(pb, 1<<20, 3*time.Millisecond) == 0 && round > 3 {
						break
					}
					quiet()
				}
			}
		}
		if strings.HasPrefix(cfg.scenario, "data-with-fin") && len(peers) == 2 {
			// the loop is parked inside connection 0's second OnTraffic while peer 1 writes and closes:
			// the next epoll_wait reports peer 1's data together with its hang-up
			seq := rec.seq()
			n, _ := peers[0].conn.Write([]byte("park"))
			peers[0].sent = append(peers[0].sent, []byte("park")[:n]...)
			select {
			case <-h.inTraffic:
			case <-time.After(time.Second):
			}
			data := rnd.Bytes(5000)
			n, _ = peers[1].conn.Write(data)
			peers[1].sent = append(peers[1].sent, data[:n]...)
			ending(peers[1])
			peers[1].conn.Close()
			peers[1].closed = true
			time.Sleep(10 * time.Millisecond)
			close(h.release)
			woken(seq, 500*time.Millisecond)
			quiet()
		}
		if strings.HasPrefix(cfg.scenario, "error-then-") && len(peers) == 3 {
			pa, pb, pc := peers[0], peers[1], peers[2]
			seq := rec.seq()
			n, _ := pb.conn.Write([]byte("park"))
			pb.sent = append(pb.sent, []byte("park")[:n]...)
			select {
			case <-h.inTraffic:
			case <-time.After(time.Second):
			}
			ending(pa)
			pa.conn.Close()
			pa.closed = true
			time.Sleep(5 * time.Millisecond)
			data := rnd.Bytes(700)
			n, _ = pc.conn.Write(data)
			pc.sent = append(pc.sent, data[:n]...)
			time.Sleep(5 * time.Millisecond)
			if ci := h.byCid(pb.cid); ci != nil && ci.c != nil {
				late := []byte("after-the-failing-close")
				h.op(ci, tr.L("async", "write", tr.I(ci.mcid), tr.X(late), "1"))
				ci.c.AsyncWrite(late, h.acb("write", ci, true, late))
			}
			time.Sleep(5 * time.Millisecond)
			close(h.release)
			woken(seq, 500*time.Millisecond)
			quiet()
			for round := 0; round < 20; round++ {
				if recvSome(pb, 1<<20, 3*time.Millisecond)+recvSome(pc, 1<<20, 3*time.Millisecond) == 0 && round > 3 {
					break
				}
				quiet()
			}
		}
		if cfg.scenario == "readfrom-after-spill" && len(peers) == 1 {
			p := peers[0]
			send := func(b string) {
				seq := rec.seq()
				n, _ := p.conn.Write([]byte(b))
				p.sent = append(p.sent, []byte(b)[:n]...)
				woken(seq, 500*time.Millisecond)
				quiet()
			}
			send("go") // second OnTraffic: a 200000-byte Write while the peer is not reading
			seq := rec.seq()
			recvSome(p, 30000, 50*time.Millisecond) // partial drain: the ring part empties, list nodes stay
			woken(seq, 100*time.Millisecond)
			quiet()
			send("rf") // third OnTraffic: ReadFrom + Flush
			for round := 0; round < 200; round++ {
				if recvSome(p, 1<<20, 5*time.Millisecond) == 0 && round > 3 {
					break
				}
				quiet()
			}
		}
		if cfg.scenario == "writeto-partial-wrapped" && len(peers) == 1 {
			// the common part sent 100 bytes (left unconsumed); 700 more make the leftover 800, the handler
			// discards 700 of them, 500 more wrap the inbound ring, then WriteTo into a sink that fails
			// inside the first (upper) segment
			p := peers[0]
			for _, sz := range []int{700, 500, 10} {
				seq := rec.seq()
				data := rnd.Bytes(sz)
				n, _ := p.conn.Write(data)
				p.sent = append(p.sent, data[:n]...)
				woken(seq, 500*time.Millisecond)
				quiet()
			}
		}
		if cfg.scenario == "flood-then-shutdown" && len(peers) > 0 {
			// more asynchronous writes than the high-priority threshold are queued while the loop is busy, then a
			// Wake: it is shunted to the low-priority queue, and the OnTraffic it leads to returns Shutdown -- which
			// must end the engine like a Shutdown from anywhere else (C06)
			if ci := h.byCid(peers[0].cid); ci != nil && ci.c != nil {
				// the "park" message: its OnTraffic holds the loop until the requests below are queued
				pm := []byte("park")
				pn, _ := peers[0].conn.Write(pm)
				peers[0].sent = append(peers[0].sent, pm[:pn]...)
				select {
				case <-h.inTraffic:
				case <-time.After(2 * time.Second):
				}
				for i := 0; i < 1100; i++ {
					data := []byte(fmt.Sprintf("%07d ", i))
					h.op(ci, tr.L("async", "write", tr.I(ci.mcid), tr.X(data), "1"))
					ci.c.AsyncWrite(data, h.acb("write", ci, true, data))
				}
				h.op(ci, tr.L("async", "wake", tr.I(ci.mcid), "0"))
				ci.c.Wake(nil)
				close(h.release)
				for t0 := time.Now(); !engineDown() && time.Since(t0) < 2*time.Second; {
					recvSome(peers[0], 1<<20, 5*time.Millisecond)
				}
			}
		}
		if cfg.scenario == "async-flood" && len(peers) > 0 {
			// 1500 asynchronous writes are issued while the loop is busy inside OnTraffic
			if ci := h.byCid(peers[0].cid); ci != nil && ci.c != nil {
				// the "park" message: its OnTraffic holds the loop until the requests below are queued
				pm := []byte("park")
				pn, _ := peers[0].conn.Write(pm)
				peers[0].sent = append(peers[0].sent, pm[:pn]...)
				select {
				case <-h.inTraffic:
				case <-time.After(2 * time.Second):
				}
				for i := 0; i < 1500; i++ {
					data := []byte(fmt.Sprintf("%07d ", i))
					h.op(ci, tr.L("async", "write", tr.I(ci.mcid), tr.X(data), "1"))
					ci.c.AsyncWrite(data, h.acb("write", ci, true, data))
				}
				// behind that backlog: a vectored write followed by a plain one, still in issue order
				va, vb := []byte("vectored-A "), []byte("plain-B ")
				h.op(ci, tr.L("async", "writev", tr.I(ci.mcid), "1", tr.X(va[:4]), tr.X(va[4:])))
				ci.c.AsyncWritev([][]byte{va[:4], va[4:]}, h.acb("writev", ci, true, va))
				h.op(ci, tr.L("async", "write", tr.I(ci.mcid), tr.X(vb), "1"))
				ci.c.AsyncWrite(vb, h.acb("write", ci, true, vb))
				// low-priority requests behind the backlog are shunted to the second queue; more of them than one
				// batch takes (MaxAsyncTasksAtOneTime), so the loop has to wake itself up for the rest
				for i := 0; i < 300; i++ {
					h.op(ci, tr.L("async", "wake", tr.I(ci.mcid), "1"))
					ci.c.Wake(h.acb("wake", ci, true, nil))
				}
				close(h.release)
				quiet()
				for round := 0; round < 50; round++ {
					if recvSome(peers[0], 1<<20, 5*time.Millisecond) == 0 && round > 3 {
						break
					}
				}
				quiet()
			}
		}
		w.Hist("scenario-" + cfg.scenario)
	}
	udpBurst := false
	for step := 0; step < cfg.steps && !engineDown(); step++ {
		lp := live()
		k := rnd.Intn(100)
		seq := rec.seq()
		switch {
		case cfg.focus == "stale" && len(lp) >= 2 && rnd.Chance(50):
			// both peers send before the loop wakes: two ready events in one epoll_wait batch
			for _, p := range lp[:2] {
				data := rnd.Bytes(rnd.Pick([]int{1, 50, 500}))
				p.conn.SetWriteDeadline(time.Now().Add(time.Second))
				n, _ := p.conn.Write(data)
				p.sent = append(p.sent, data[:n]...)
			}
			w.Hist("burst-send")
			woken(seq, 100*time.Millisecond)
		case cfg.udp:
			// UDP: senders are unconnected sockets; every datagram is one event
			if len(peers) < cfg.maxConns || len(lp) == 0 {
				// senders live on other loopback addresses than the listener (127.0.0.1), so a reply that
				// is addressed wrongly cannot reach them by accident
				ra, _ := net.ResolveUDPAddr("udp", dialAddr)
				la := &net.UDPAddr{IP: net.IPv4(127, 0, 0, byte(2+len(peers)%3))}
				if cfg.udpFam == "dual" && len(peers)%2 == 1 && haveLinkLocal() {
					// a link-local sender: its address carries a zone, which RemoteAddr has to report too
					la = &net.UDPAddr{IP: net.ParseIP("fe80::1"), Zone: "lo"}
					ra = &net.UDPAddr{IP: net.ParseIP("fe80::1"), Zone: "lo", Port: ra.Port}
					w.Hist("udp-sender-link-local")
				} else if cfg.udpFam == "v6" {
					la = &net.UDPAddr{IP: net.IPv6loopback}
				} else if len(peers) > 0 && len(peers) < 3 && sharedPort {
					// several senders with the SAME source port on different addresses
					la.Port = peers[0].conn.LocalAddr().(*net.UDPAddr).Port
				}
				c, err := net.DialUDP("udp", la, ra)
				if err != nil && la.Port != 0 {
					la.Port = 0
					c, err = net.DialUDP("udp", la, ra)
				}
				if err != nil {
					continue
				}
				if la.Port != 0 {
					w.Hist("udp-sender-same-port")
				}
				np := &peer{conn: c, cid: -1}
				peers = append(peers, np)
				h.mu.Lock()
				h.udpPeers[c.LocalAddr().String()] = np
				h.mu.Unlock()
				w.Hist("udp-sender")
				continue
			}
			p := lp[rnd.Intn(len(lp))]
			if k >= 60 && k < 75 && !udpBurst && cfg.pShutdown == 0 && !engineDown() {
				// a burst: the loop is held inside the callback of one datagram while 150 more are queued in the
				// listener's socket behind it; every one of them gets its own event once the loop goes on
				udpBurst = true
				h.mu.Lock()
				h.parkUDP = true
				first := rnd.Bytes(9)
				p.dgrams = append(p.dgrams, first)
				h.mu.Unlock()
				p.conn.Write(first)
				select {
				case <-h.inTraffic:
				case <-time.After(time.Second):
				}
				for i := 0; i < 150; i++ {
					d := rnd.Bytes(rnd.Pick([]int{1, 20, 100}))
					h.mu.Lock()
					p.dgrams = append(p.dgrams, d)
					h.mu.Unlock()
					p.conn.Write(d)
				}
				time.Sleep(3 * time.Millisecond)
				close(h.release)
				for round := 0; round < 40; round++ {
					recvDgrams(p, 3*time.Millisecond)
					h.mu.Lock()
					done := p.delivered >= len(p.dgrams)
					h.mu.Unlock()
					if done && round > 2 {
						break
					}
				}
				quiet()
				recvDgrams(p, 3*time.Millisecond)
				w.Hist("udp-burst-150")
				continue
			}
			if k < 75 {
				sz := rnd.Pick([]int{0, 1, 2, 100, 1000, cfg.bufcap - 1, cfg.bufcap, 1400})
				if sz > 60000 {
					sz = 60000
				}
				data := rnd.Bytes(sz)
				h.mu.Lock()
				p.dgrams = append(p.dgrams, data)
				h.mu.Unlock()
				p.conn.Write(data)
				w.Hist(fmt.Sprintf("udp-send-%d", sz))
				woken(seq, 300*time.Millisecond)
			} else {
				recvDgrams(p, 2*time.Millisecond)
			}
		case cfg.client && len(peers) < cfg.maxConns && (len(lp) == 0 || k < 12):
			quiet()
			rec.mu.Lock()
			rec.dialUDP = cfg.proto == "udp"
			rec.mu.Unlock()
			type acc struct {
				c   net.Conn
				err error
			}
			ach := make(chan acc, 1)
			if srvLn != nil {
				go func() { c, err := srvLn.Accept(); ach <- acc{c, err} }()
			}
			var gc gnet.Conn
			var err error
			if srvLn != nil && rnd.Chance(35) {
				// Client.Enroll: the caller's own net.Conn is handed over (its descriptor is duplicated, the
				// original is closed by the framework's worker)
				var nc net.Conn
				if nc, err = net.Dial(dialNet, dialAddr); err == nil {
					gc, err = cli.Enroll(nc)
					w.Hist("client-enroll")
				}
			} else {
				gc, err = cli.Dial(dialNet, dialAddr)
			}
			if err != nil {
				rec.Fail("client-dial", "error", err.Error())
				continue
			}
			var pc net.Conn
			if srvLn != nil {
				a := <-ach
				pc = a.c
			} else {
				// UDP: the "peer" answers from the server socket to the client's local address
				la := gc.LocalAddr()
				if la == nil { // closed inside OnOpen already
					continue
				}
				ra, _ := net.ResolveUDPAddr("udp", la.String())
				pc = &udpPeer{c: srvUDP, to: ra}
			}
			p := &peer{conn: pc, cid: -1}
			peers = append(peers, p)
			quiet()
			rec.mu.Lock()
			p.cid = rec.nextGid - 1
			rec.mu.Unlock()
			w.Hist("client-dial")
		case !cfg.client && len(peers) < cfg.maxConns && (len(lp) == 0 || k < 12):
			rec.mu.Lock()
			g0 := rec.nextGid
			rec.mu.Unlock()
			c, err := net.Dial(dialNet, dialAddr)
			if err != nil {
				continue
			}
			p := &peer{conn: c, cid: -1}
			woken(seq, 2*time.Second)
			quiet()
			taken := func() bool {
				rec.mu.Lock()
				defer rec.mu.Unlock()
				return rec.nextGid > g0
			}
			for t0 := time.Now(); !taken() && !engineDown() && time.Since(t0) < time.Second; {
				time.Sleep(time.Millisecond)
			}
			if !taken() {
				if !engineDown() {
					// C18: a transient accept failure must have no visible effect: the connection is served
					rec.Fail("accept-stuck", "connect", "a connection completed by the kernel was not accepted by the running engine within 3 s")
				}
				c.Close()
				continue
			}
			peers = append(peers, p)
			rec.mu.Lock()
			p.cid = rec.nextGid - 1
			rec.mu.Unlock()
			w.Hist("connect")
		case len(lp) == 0:
			continue
		case k < 45:
			p := lp[rnd.Intn(len(lp))]
			if p.wclosed {
				continue
			}
			sz := rnd.Pick([]int{1, 1, 7, 100, cfg.bufcap - 1, cfg.bufcap, cfg.bufcap + 1, 3 * cfg.bufcap, 3*cfg.bufcap + 5, rnd.Range(1, 20000)})
			data := rnd.Bytes(sz)
			p.conn.SetWriteDeadline(time.Now().Add(2 * time.Second))
			n, _ := p.conn.Write(data)
			p.sent = append(p.sent, data[:n]...)
			if k >= 41 && n == len(data) {
				// the last bytes and the close (or half-close) arrive back to back: often one event
				ending(p)
				if k >= 43 {
					switch c := p.conn.(type) {
					case *net.TCPConn:
						c.CloseWrite()
					case *net.UnixConn:
						c.CloseWrite()
					}
					p.wclosed = true
				} else {
					// close(2) with unread data in the peer's own receive queue makes the kernel send a
					// reset instead of an orderly FIN (and the receiver may then lose queued bytes):
					// only the half-close variant counts as an orderly close for the end-of-stream oracle
					p.conn.Close()
					p.closed, p.reset = true, true
				}
				w.Hist("peer-send-close")
			} else {
				w.Hist("peer-send")
			}
			woken(seq, expect(p))
		case k < 60:
			p := lp[rnd.Intn(len(lp))]
			recvSome(p, rnd.Pick([]int{1, 100, 4096, 1 << 20}), 3*time.Millisecond)
			w.Hist("peer-recv")
			woken(seq, 3*time.Millisecond)
		case k < 65:
			p := lp[rnd.Intn(len(lp))]
			if p.wclosed {
				continue
			}
			ending(p)
			switch c := p.conn.(type) {
			case *net.TCPConn:
				c.CloseWrite()
			case *net.UnixConn:
				c.CloseWrite()
			}
			p.wclosed = true
			w.Hist("peer-half-close")
			woken(seq, expect(p))
		case k < 70:
			p := lp[rnd.Intn(len(lp))]
			ending(p)
			p.conn.Close()
			p.closed = true
			w.Hist("peer-close")
			woken(seq, expect(p))
		case k < 73:
			p := lp[rnd.Intn(len(lp))]
			ending(p)
			if c, ok := p.conn.(*net.TCPConn); ok {
				c.SetLinger(0)
			}
			p.conn.Close()
			p.closed, p.reset = true, true
			w.Hist("peer-reset")
			woken(seq, expect(p))
		case k < 97:
			// request from another goroutine, issued while the loop is idle
			p := lp[rnd.Intn(len(lp))]
			ci := h.byCid(p.cid)
			if ci == nil || ci.c == nil {
				continue
			}
			quiet()
			cb := rnd.Chance(60)
			kk := rnd.Intn(10)
			if cfg.proto == "udp" && kk < 6 {
				kk = 6 + kk%4 // datagram AsyncWrite(v) never goes through the loop: only wake/close here
			}
			switch {
			case kk < 4:
				data := h.payload(rnd.Pick([]int{1, 100, 5000, 100000}))
				h.op(ci, tr.L("async", "write", tr.I(ci.mcid), tr.X(data), tr.B(cb)))
				ci.c.AsyncWrite(data, h.acb("write", ci, cb, data))
				w.Hist("async-write")
			case kk < 6:
				data := h.payload(rnd.Pick([]int{2, 100, 5000}))
				segs := splitSegs(data, rnd.Pick([]int{1, 2, 3}))
				h.op(ci, tr.L("async", append([]string{"writev", tr.I(ci.mcid), tr.B(cb)}, segArgs(segs)...)...))
				ci.c.AsyncWritev(segs, h.acb("writev", ci, cb, data))
				w.Hist("async-writev")
			case kk < 8:
				h.op(ci, tr.L("async", "wake", tr.I(ci.mcid), tr.B(cb)))
				ci.c.Wake(h.acb("wake", ci, cb, nil))
				w.Hist("async-wake")
			default:
				h.op(ci, tr.L("async", "close", tr.I(ci.mcid), tr.B(cb)))
				ci.localReq = true
				if cb {
					ci.c.CloseWithCallback(h.acb("close", ci, true, nil))
				} else {
					ci.c.Close()
				}
				w.Hist("async-close")
			}
			woken(seq, 2*time.Second)
		default:
			quiet()
			if !cfg.client && rnd.Chance(30) {
				// C07: a descriptor handed to the user by DupListener is the user's: the framework never
				// touches it again (the ledger flags any call on it) and it is not part of the leak check
				if fd, err := h.eng.DupListener(dialNet, dialAddr); err == nil {
					rec.mu.Lock()
					delete(rec.owned, fd)
					rec.userFds = append(rec.userFds, fd)
					rec.mu.Unlock()
					w.Hist("dup-listener")
				}
			}
			if n := h.eng.CountConnections(); true {
				open := 0
				h.mu.Lock()
				for _, ci := range h.all {
					if ci.opened && !ci.closed && !ci.udp {
						open++
					}
				}
				h.mu.Unlock()
				if n != open && !engineDown() && !cfg.client {
					rec.Fail("count-connections", "idle", fmt.Sprintf("CountConnections %d != opened-not-closed %d", n, open))
				}
			}
		}
		quiet()
	}

	lap("steps")
	// C04: with no callback in flight CountConnections equals the connections opened and not yet closed
	quiet()
	if !cfg.client && !cfg.udp && !engineDown() {
		rec.mu.Lock()
		down := rec.shutdown
		rec.mu.Unlock()
		if n := h.eng.CountConnections(); !down {
			open := 0
			h.mu.Lock()
			for _, ci := range h.all {
				if ci.opened && !ci.closed && !ci.udp {
					open++
				}
			}
			h.mu.Unlock()
			if n != open && !engineDown() {
				rec.Fail("count-connections", "idle", fmt.Sprintf("CountConnections %d != opened-not-closed %d", n, open))
			}
		}
	}
	// ---- drain: every open connection's accepted output must reach its peer
	quiet()
	if !cfg.udp && cfg.proto != "udp" && !engineDown() {
		for _, p := range live() {
			ci := h.byCid(p.cid)
			if ci == nil || ci.untracked || ci.unflushed {
				continue
			}
			deadline := time.Now().Add(1500 * time.Millisecond)
			for time.Now().Before(deadline) {
				h.mu.Lock()
				want := len(ci.accepted)
				cl := ci.closed
				h.mu.Unlock()
				if len(p.recv) >= want || cl {
					break
				}
				if recvSome(p, 1<<20, 20*time.Millisecond) == 0 {
					quiet()
				}
			}
			quiet()
			if !ci.closed && len(p.recv) < len(ci.accepted) {
				rec.Fail("outbound-stuck", fmt.Sprintf("et=%v", cfg.et), fmt.Sprintf("cid %d: %d bytes accepted, peer received %d although it kept reading", ci.cid, len(ci.accepted), len(p.recv)))
			}
		}
	}
	quiet()
	rec.mu.Lock()
	stopping := rec.shutdown || rec.shutdownAsked || rec.acceptFatal
	rec.mu.Unlock()
	if !engineDown() && !stopping {
		// C03/C04: the loop is idle and nobody asked for a shutdown: every accepted asynchronous request
		// issued with a callback has had that callback
		h.checkPending()
	}

	lap("drain")
	// ---- stop
	if engineDown() {
		rec.mu.Lock()
		asked := rec.shutdownAsked || rec.acceptFatal
		rec.mu.Unlock()
		if !asked {
			// C18: no failure on one connection may take the engine down; only a Shutdown action, a stop
			// request or a fatal accept error ends Run
			rec.Fail("engine-exit", "unasked", "Run returned although no callback returned Shutdown, nobody called Stop and accept did not fail fatally")
		}
	}
	if !engineDown() {
		rec.mu.Lock()
		asked := rec.shutdownAsked
		rec.mu.Unlock()
		if asked && !cfg.client {
			// C06: a Shutdown action returned by a callback makes Run return, whatever else that callback did
			for t0 := time.Now(); !engineDown() && time.Since(t0) < 3*time.Second; {
				time.Sleep(2 * time.Millisecond)
			}
			if !engineDown() {
				rec.Fail("shutdown", "action-ignored", "a callback returned Shutdown but the engine was still running 3 s later")
			}
		}
	}
	if !engineDown() {
		if cfg.client {
			go func() { done <- cli.Stop() }()
		} else {
			ctx, cancel := context.WithTimeout(context.Background(), 5*time.Second)
			go func() { h.eng.Stop(ctx); cancel() }()
		}
		stopped = true
	}
	select {
	case <-done:
	case <-time.After(5 * time.Second):
		rec.Fail("shutdown", "run-did-not-return", "Run did not return within 5 s of the stop request")
	}
	_ = stopped
	lap("stopped")
	rec.mu.Lock()
	rec.exited = true
	rec.mu.Unlock()
	for _, p := range peers {
		if !p.closed {
			if cfg.udp {
				recvDgrams(p, 5*time.Millisecond)
			} else {
				recvSome(p, 1<<20, 2*time.Millisecond)
			}
			p.conn.Close()
		}
	}
	if cfg.udp {
		// C08: every datagram was delivered once, and each sender got back exactly what the handler sent it
		h.mu.Lock()
		for _, p := range peers {
			if p.delivered != len(p.dgrams) && len(rec.injected) == 0 {
				rec.Fail("udp-delivery", "count", fmt.Sprintf("sender %s: %d datagrams sent, %d OnTraffic events", p.conn.LocalAddr(), len(p.dgrams), p.delivered))
			}
			if len(p.gotReplies) != len(p.expReplies) {
				rec.Fail("udp-reply", "count", fmt.Sprintf("sender %s: handler sent %d datagrams, peer received %d", p.conn.LocalAddr(), len(p.expReplies), len(p.gotReplies)))
			} else {
				for i := range p.expReplies {
					if !bytes.Equal(p.expReplies[i], p.gotReplies[i]) {
						rec.Fail("udp-reply", "payload", fmt.Sprintf("sender %s: reply #%d differs (%d vs %d bytes)", p.conn.LocalAddr(), i, len(p.expReplies[i]), len(p.gotReplies[i])))
						break
					}
				}
			}
		}
		h.mu.Unlock()
	}
	// After Run has returned the framework owns no descriptor any more: requests on stale
	// connection handles must not touch any (C07).  The ledger is still watching.
	h.mu.Lock()
	stale := append([]*connInfo(nil), h.all...)
	h.mu.Unlock()
	for i, ci := range stale {
		if ci.c == nil || ci.udp || cfg.udp || cfg.proto == "udp" || i > 3 {
			continue // datagram AsyncWrite sends at once from the caller: the recorded staleudp finding
		}
		_ = ci.c.Wake(nil)
		_ = ci.c.Close()
		_ = ci.c.AsyncWrite([]byte("late"), nil)
		if i == 0 && ci.closed && cfg.focus == "stale" {
			staleHandleOps(rec, ci) // the recorded finding stale-handle-dup-and-setsockopt (C07 runs only)
		}
	}
	finalOracles(rec, h, cfg, peers)
	if h.third != nil {
		// every datagram SendTo addressed to the third party arrived there (and nowhere else)
		got := map[string]int{}
		buf := make([]byte, 2048)
		for {
			h.third.SetReadDeadline(time.Now().Add(20 * time.Millisecond))
			n, _, err := h.third.ReadFromUDP(buf)
			if err != nil {
				break
			}
			got[string(buf[:n])]++
		}
		h.mu.Lock()
		for _, d := range h.thirdExp {
			if got[string(d)] == 0 {
				rec.Fail("udp-reply", "sendto-on-connected-socket", fmt.Sprintf("a %d-byte datagram SendTo addressed to %s did not arrive there", len(d), h.third.LocalAddr()))
				break
			}
			got[string(d)]--
		}
		h.mu.Unlock()
	}
	if unixPath != "" && !cfg.client {
		// C07: the file of a Unix-domain listener is removed by the time Run returns
		if _, err := os.Lstat(unixPath); err == nil {
			rec.Fail("fd-leak", "unix-socket-file", "the listener's socket file still exists after Run returned")
		}
	}
	rec.mu.Lock()
	for _, fd := range rec.userFds {
		syscall.Close(fd)
	}
	rec.mu.Unlock()

	// ---- write the case
	w.Case(fmt.Sprintf("L%d", idx), "loop", append(cfg.header(), "seed="+tr.U64(seed), "idx="+tr.I(idx))...)
	for _, l := range head {
		w.Op(l)
	}
	rec.mu.Lock()
	for _, e := range rec.log {
		switch e.tag {
		case "op":
			w.Op(e.line)
		case "obs":
			w.Obs(e.line)
		case "fail":
			w.Fail(e.line.Name, e.line.Args[0], strings.Join(e.line.Args[2:], " "))
		}
	}
	for _, k := range []string{"lifecycle", "fd", "inbound", "outbound", "udp", "fault", "count", "fuel", "outprogress", "inprogress"} {
		w.Obs(tr.L("chk", k, "1"))
	}
	tags := map[string]bool{}
	for _, e := range rec.log {
		if e.tag == "op" && e.line.Name == "r" && len(e.line.Args) > 2 && e.line.Args[len(e.line.Args)-1] == "eagain" {
			tags["eagain-"+e.line.Args[0]] = true
		}
		if e.tag == "obs" && e.line.Name == "cb" {
			tags["cb-"+e.line.Args[0]] = true
		}
		if e.tag == "obs" && e.line.Name == "acb" {
			tags["async-callback"] = true
		}
	}
	rec.mu.Unlock()
	if cfg.et {
		tags["edge-triggered"] = true
	} else {
		tags["level-triggered"] = true
	}
	for t := range tags {
		// a case is non-trivial when it reached back-pressure (EAGAIN), an asynchronous callback,
		// a datagram callback, an injected fault or a named scenario; mode and open/traffic classes are only counted
		if strings.HasPrefix(t, "eagain-") || t == "async-callback" || t == "cb-udp" {
			w.Tag(t)
		} else {
			w.Note(t)
		}
	}
	if len(rec.injected) > 0 {
		w.Tag("fault-injected")
	}
	if len(rec.injectedAcc) > 0 {
		w.Tag("fault-injected")
		w.Hist("acceptor-fault")
	}
	if cfg.scenario != "" {
		w.Tag("scenario")
	}
	w.Hist("mode-" + map[bool]string{true: "et", false: "lt"}[cfg.et] + "-" + cfg.proto + map[bool]string{true: "-reactor", false: "-reuseport"}[rec.reactor])
	w.End()
}

// staleHandleOps: Dup and a socket-option setter on the handle of a connection the framework has closed.
// Both are documented as callable from any goroutine at any time; neither may touch the old descriptor NUMBER,
// which by now may be anybody's (C07).  The number is given to a socket of the harness first, so that a
// setsockopt on it is visible as a changed option of a stranger's socket.
func staleHandleOps(rec *recorder, ci *connInfo) {
	fd := ci.c.Fd()
	if fd < 3 {
		return
	}
	rec.mu.Lock()
	_, owned := rec.owned[fd]
	rec.poke = "stale-handle"
	rec.mu.Unlock()
	defer func() { rec.mu.Lock(); rec.poke = ""; rec.mu.Unlock() }()
	if owned {
		return // still a descriptor of the framework (reported elsewhere as a leak)
	}
	var stranger = -1
	if _, err := unix.FcntlInt(uintptr(fd), unix.F_GETFD, 0); err != nil {
		// the number is free: a socket of the harness takes it
		if s, err := syscall.Socket(syscall.AF_INET, syscall.SOCK_DGRAM|syscall.SOCK_CLOEXEC, 0); err == nil {
			if s != fd {
				if err := syscall.Dup3(s, fd, syscall.O_CLOEXEC); err == nil {
					stranger = fd
				}
				syscall.Close(s)
			} else {
				stranger = fd
			}
		}
	}
	if d, err := ci.c.Dup(); err == nil {
		rec.mu.Lock()
		delete(rec.owned, d) // handed to the caller: the harness's to close
		rec.mu.Unlock()
		syscall.Close(d)
	}
	if stranger >= 0 {
		before, _ := syscall.GetsockoptInt(stranger, syscall.SOL_SOCKET, syscall.SO_RCVBUF)
		_ = ci.c.SetReadBuffer(before/2 + 12345)
		after, _ := syscall.GetsockoptInt(stranger, syscall.SOL_SOCKET, syscall.SO_RCVBUF)
		if after != before {
			rec.Fail("fd-not-owned", "ext:setsockopt@stale-handle", fmt.Sprintf("SetReadBuffer on the handle of a closed connection changed SO_RCVBUF of descriptor %d, a socket opened by somebody else after the close (%d -> %d)", stranger, before, after))
		}
		syscall.Close(stranger)
	}
}

// udpPeer lets the harness's UDP server socket play the peer of one connected client socket
type udpPeer struct {
	c  *net.UDPConn
	to *net.UDPAddr
	net.Conn
}

func (u *udpPeer) Write(b []byte) (int, error)        { return u.c.WriteToUDP(b, u.to) }
func (u *udpPeer) Read(b []byte) (int, error)         { n, _, err := u.c.ReadFromUDP(b); return n, err }
func (u *udpPeer) Close() error                       { return nil }
func (u *udpPeer) SetReadDeadline(t time.Time) error  { return u.c.SetReadDeadline(t) }
func (u *udpPeer) SetWriteDeadline(t time.Time) error { return u.c.SetWriteDeadline(t) }

// recvDgrams reads every datagram currently available on a UDP sender socket
func recvDgrams(p *peer, d time.Duration) {
	buf := make([]byte, 70000)
	for {
		p.conn.SetReadDeadline(time.Now().Add(d))
		n, err := p.conn.Read(buf)
		if err != nil {
			return
		}
		p.gotReplies = append(p.gotReplies, append([]byte(nil), buf[:n]...))
	}
}

func finalOracles(rec *recorder, h *handler, cfg *caseCfg, peers []*peer) {
	rec.mu.Lock()
	defer rec.mu.Unlock()
	// C07: nothing the framework created may still be open
	for fd, kind := range rec.owned {
		rec.failLocked("fd-leak", kind, fmt.Sprintf("descriptor %d (%s) still open after Run returned", fd, kind))
	}
	if cfg.udp || cfg.proto == "udp" {
		return
	}
	for _, p := range peers {
		if p.cid < 0 {
			continue
		}
		var ci *connInfo
		for _, x := range h.all {
			if x.cid == p.cid {
				ci = x
			}
		}
		del := rec.delivered[p.cid]
		// C01: what the kernel delivered is a prefix of what the peer sent (sanity of the harness)
		if !bytes.HasPrefix(p.sent, del) {
			rec.failLocked("harness", "kernel-stream", fmt.Sprintf("cid %d", p.cid))
		}
		if ci == nil {
			continue
		}
		if f, ok := rec.faulted[p.cid]; ok && ci.opened {
			// C18: the connection hit by a fatal fault is closed, and the handler is told why
			if !ci.closed {
				rec.failLocked("fault-close", f, fmt.Sprintf("cid %d not closed after %s", ci.cid, f))
			} else if !ci.closeErr && !ci.localReq && !strings.HasPrefix(f, "close:") && !strings.HasPrefix(f, "epctl-del:") {
				rec.failLocked("fault-close-error", f, fmt.Sprintf("cid %d: OnClose carried a nil error after %s", ci.cid, f))
			}
			continue
		}
		// C04: OnClose carries nil for a locally requested close (or the shutdown sweep) and a non-nil
		// error for a peer- or I/O-induced one
		if ci.opened && ci.closed && !ci.udp && cfg.proto != "udp" {
			if !ci.closeErr && !ci.localReq && !ci.closedInSweep {
				rec.failLocked("lifecycle", "nil-error-without-local-close", fmt.Sprintf("cid %d: OnClose carried a nil error although no local close was requested and the engine was not shutting down", ci.cid))
			}
			if ci.closeErr && ci.localReq && !p.causal && len(rec.injected) == 0 {
				rec.failLocked("lifecycle", "error-on-local-close", fmt.Sprintf("cid %d: OnClose carried an error although the close was requested locally and neither the peer nor an I/O failure ended the connection", ci.cid))
			}
		}
		// C04: every opened connection is closed by the time Run returns
		if ci.opened && !ci.closed {
			rec.failLocked("lifecycle", "no-close-before-return", fmt.Sprintf("cid %d opened but never closed", ci.cid))
		}
		// C01: an orderly peer close is seen only after everything it sent was offered
		if ci.closed && (p.wclosed || (p.closed && !p.reset)) && !ci.localReq && len(rec.injected) == 0 && !rec.shutdownBeforeEOF(ci) {
			if len(del) != len(p.sent) {
				rec.failLocked("inbound-eof", "data-lost-before-close", fmt.Sprintf("cid %d: peer sent %d bytes before its orderly close, only %d were read before OnClose", ci.cid, len(p.sent), len(del)))
			}
		}
		// C02: the peer receives exactly the accepted bytes, in order
		if !ci.untracked {
			if !bytes.HasPrefix(ci.accepted, p.recv) {
				rec.failLocked("outbound-stream", "peer-received-differs", fmt.Sprintf("cid %d: peer received %d bytes that are not a prefix of the %d accepted bytes", ci.cid, len(p.recv), len(ci.accepted)))
			}
		}
	}
}

// shutdownBeforeEOF: the connection was closed by engine shutdown rather than by the peer's EOF
func (r *recorder) shutdownBeforeEOF(ci *connInfo) bool { return !ci.closeErr }
