//go:build verif

//verif:target export_verif_gfd.go

package gnet

import "github.com/panjf2000/gnet/v2/internal/gfd"

// VerifGFD packs and unpacks a connection identifier (internal/gfd).
func VerifGFD(fd, el, row, col int, row2, col2 int) (raw [16]byte, ofd, oel, orow, ocol int, seq uint32, valid bool,
	row2o, col2o, fd2o, el2o int, seq2 uint32) {
	g := gfd.NewGFD(fd, el, row, col)
	raw = g
	ofd, oel, orow, ocol, seq, valid = g.Fd(), g.EventLoopIndex(), g.ConnMatrixRow(), g.ConnMatrixColumn(), g.Sequence(), g.Validate()
	g.UpdateIndexes(row2, col2)
	row2o, col2o, fd2o, el2o, seq2 = g.ConnMatrixRow(), g.ConnMatrixColumn(), g.Fd(), g.EventLoopIndex(), g.Sequence()
	return
}
