// gennorm translates, from the current gnet source, the pieces of the C16
// model that are cheap to extract mechanically, and emits one Coq obligation
// per piece (checked on every run):
//
//   - constants: ring.DefaultBufferSize, the initial value of
//     gnet.MaxStreamBufferCap, gfd.EventLoopIndexMax;
//   - the Read/WriteBufferCap switches and the EdgeTriggeredIOChunk if/else of
//     createListeners (gnet.go) and NewClient (client_unix.go), statement by
//     statement, into Gallina   (obligation: = Addr.norm_cap / Addr.norm_chunk);
//   - determineEventLoops       (obligation: = Addr.determine_event_loops);
//   - parseProtoAddr: the arguments of the strings.ReplaceAll pre-escape and
//     the case lists of `switch u.Scheme` (obligation: = the model's tables).
//
// usage: gennorm -o GenNorm.v <repo-root>
//
// Anything outside the small subset below is reported as UNTRANSLATABLE, which
// the check treats as a broken obligation.
package main

import (
	"flag"
	"fmt"
	"go/ast"
	"go/constant"
	"go/parser"
	"go/token"
	"os"
	"path/filepath"
	"strconv"
	"strings"
)

type untranslatable struct{ msg string }

func fail(format string, a ...interface{}) { panic(untranslatable{fmt.Sprintf(format, a...)}) }

var fset = token.NewFileSet()

func parse(path string) *ast.File {
	f, err := parser.ParseFile(fset, path, nil, 0)
	if err != nil {
		fail("cannot parse %s: %v", path, err)
	}
	return f
}

// ---- constant expressions (literals, + - * <<, known identifiers)

type cenv map[string]constant.Value

func (c cenv) eval(x ast.Expr) constant.Value {
	switch v := x.(type) {
	case *ast.ParenExpr:
		return c.eval(v.X)
	case *ast.BasicLit:
		if v.Kind == token.INT {
			return constant.MakeFromLiteral(v.Value, token.INT, 0)
		}
	case *ast.Ident:
		if val, ok := c[v.Name]; ok {
			return val
		}
	case *ast.SelectorExpr:
		if p, ok := v.X.(*ast.Ident); ok {
			if val, ok := c[p.Name+"."+v.Sel.Name]; ok {
				return val
			}
		}
	case *ast.BinaryExpr:
		l, r := c.eval(v.X), c.eval(v.Y)
		if l == nil || r == nil {
			return nil
		}
		switch v.Op {
		case token.ADD, token.SUB, token.MUL:
			return constant.BinaryOp(l, v.Op, r)
		case token.SHL:
			n, ok := constant.Uint64Val(r)
			if !ok || n > 62 {
				return nil
			}
			return constant.Shift(l, token.SHL, uint(n))
		}
	}
	return nil
}

func findValue(f *ast.File, name string, tok token.Token) ast.Expr {
	for _, d := range f.Decls {
		g, ok := d.(*ast.GenDecl)
		if !ok || g.Tok != tok {
			continue
		}
		for _, s := range g.Specs {
			vs := s.(*ast.ValueSpec)
			for i, n := range vs.Names {
				if n.Name == name && i < len(vs.Values) {
					return vs.Values[i]
				}
			}
		}
	}
	return nil
}

func findFunc(f *ast.File, name string) *ast.FuncDecl {
	for _, d := range f.Decls {
		if fd, ok := d.(*ast.FuncDecl); ok && fd.Name.Name == name && fd.Recv == nil && fd.Body != nil {
			return fd
		}
	}
	return nil
}

func zlit(v constant.Value) string {
	s := v.ExactString()
	if strings.HasPrefix(s, "-") {
		return "(" + s + ")"
	}
	return s
}

// ---- expressions of the normalisation code

// tr translates an integer / boolean expression. Field reads of the options
// struct become the Gallina variables in `fields`; locals are in `locals`.
type tr struct {
	c      cenv
	fields map[string]string // options field -> Gallina variable currently holding it
	locals map[string]string
}

func (t *tr) expr(x ast.Expr) string {
	if v := t.c.eval(x); v != nil {
		return zlit(v)
	}
	switch v := x.(type) {
	case *ast.ParenExpr:
		return t.expr(v.X)
	case *ast.Ident:
		switch v.Name {
		case "true", "false":
			return v.Name
		case "MaxStreamBufferCap":
			return "maxcap"
		}
		if g, ok := t.locals[v.Name]; ok {
			return g
		}
		fail("unknown identifier %s", v.Name)
	case *ast.SelectorExpr:
		if p, ok := v.X.(*ast.Ident); ok && (p.Name == "options" || p.Name == "opts") {
			if g, ok := t.fields[v.Sel.Name]; ok {
				return g
			}
			fail("unmodelled option field %s", v.Sel.Name)
		}
		fail("selector %s", v.Sel.Name)
	case *ast.CallExpr:
		if sel, ok := v.Fun.(*ast.SelectorExpr); ok {
			if p, ok := sel.X.(*ast.Ident); ok && p.Name == "runtime" && sel.Sel.Name == "NumCPU" && len(v.Args) == 0 {
				return "numcpu"
			}
		}
		fail("call in expression position")
	case *ast.BinaryExpr:
		ops := map[token.Token]string{token.LEQ: "<=?", token.LSS: "<?", token.GTR: ">?", token.GEQ: ">=?", token.EQL: "=?"}
		if o, ok := ops[v.Op]; ok {
			return "(" + t.expr(v.X) + " " + o + " " + t.expr(v.Y) + ")"
		}
		if v.Op == token.LAND {
			return "(" + t.expr(v.X) + " && " + t.expr(v.Y) + ")"
		}
		if v.Op == token.LOR {
			return "(" + t.expr(v.X) + " || " + t.expr(v.Y) + ")"
		}
		fail("binary operator %s", v.Op)
	}
	fail("expression %T", x)
	return ""
}

func isCeil(x ast.Expr) (ast.Expr, bool) {
	c, ok := x.(*ast.CallExpr)
	if !ok || len(c.Args) != 1 {
		return nil, false
	}
	sel, ok := c.Fun.(*ast.SelectorExpr)
	if !ok || sel.Sel.Name != "CeilToPowerOfTwo" {
		return nil, false
	}
	if p, ok := sel.X.(*ast.Ident); !ok || p.Name != "math" {
		return nil, false
	}
	return c.Args[0], true
}

func optField(x ast.Expr) (string, bool) {
	sel, ok := x.(*ast.SelectorExpr)
	if !ok {
		return "", false
	}
	p, ok := sel.X.(*ast.Ident)
	if !ok || (p.Name != "options" && p.Name != "opts") {
		return "", false
	}
	return sel.Sel.Name, true
}

// capSwitch translates  `v := options.F; switch { case c1: options.F = e1 ... default: ... }`
// into a Gallina term of type outcome Z in the variables maxcap, c.
func capSwitch(c cenv, body []ast.Stmt, field string) string {
	for i, s := range body {
		a, ok := s.(*ast.AssignStmt)
		if !ok || a.Tok != token.DEFINE || len(a.Lhs) != 1 || len(a.Rhs) != 1 {
			continue
		}
		if f, ok := optField(a.Rhs[0]); !ok || f != field {
			continue
		}
		local := a.Lhs[0].(*ast.Ident).Name
		if i+1 >= len(body) {
			fail("no switch after %s := options.%s", local, field)
		}
		sw, ok := body[i+1].(*ast.SwitchStmt)
		if !ok || sw.Tag != nil || sw.Init != nil {
			fail("statement after %s := options.%s is not a tagless switch", local, field)
		}
		t := &tr{c: c, fields: map[string]string{}, locals: map[string]string{local: "c"}}
		var out strings.Builder
		var def string
		for _, cl := range sw.Body.List {
			cc := cl.(*ast.CaseClause)
			if len(cc.Body) != 1 {
				fail("case body of the %s switch is not a single assignment", field)
			}
			as, ok := cc.Body[0].(*ast.AssignStmt)
			if !ok || as.Tok != token.ASSIGN || len(as.Lhs) != 1 {
				fail("case body of the %s switch is not an assignment", field)
			}
			if f, ok := optField(as.Lhs[0]); !ok || f != field {
				fail("case of the %s switch assigns something else", field)
			}
			var val string
			if arg, ok := isCeil(as.Rhs[0]); ok {
				val = "CeilToPowerOfTwo " + t.expr(arg)
			} else {
				val = "Ret " + t.expr(as.Rhs[0])
			}
			if cc.List == nil {
				def = val
				continue
			}
			if def != "" {
				fail("default is not the last clause of the %s switch", field)
			}
			if len(cc.List) != 1 {
				fail("multi-expression case in the %s switch", field)
			}
			out.WriteString("if " + t.expr(cc.List[0]) + " then " + val + " else ")
		}
		if def == "" {
			fail("%s switch has no default", field)
		}
		return out.String() + def
	}
	fail("`x := options.%s` not found", field)
	return ""
}

// chunkIf translates the if / else-if chain that starts with a condition on
// options.EdgeTriggeredIOChunk into a term of type outcome (Z * bool) in the
// variables chunk, et.
func chunkIf(c cenv, body []ast.Stmt) string {
	for _, s := range body {
		is, ok := s.(*ast.IfStmt)
		if !ok || is.Init != nil {
			continue
		}
		b, ok := is.Cond.(*ast.BinaryExpr)
		if !ok {
			continue
		}
		if f, ok := optField(b.X); !ok || f != "EdgeTriggeredIOChunk" {
			continue
		}
		n := 0
		var branch func(ss []ast.Stmt) string
		branch = func(ss []ast.Stmt) string {
			t := &tr{c: c, fields: map[string]string{"EdgeTriggeredIOChunk": "chunk", "EdgeTriggeredIO": "et"}, locals: map[string]string{}}
			pre, closers := "", ""
			for _, st := range ss {
				as, ok := st.(*ast.AssignStmt)
				if !ok || as.Tok != token.ASSIGN || len(as.Lhs) != 1 || len(as.Rhs) != 1 {
					fail("statement in the chunk normalisation is not a simple assignment")
				}
				f, ok := optField(as.Lhs[0])
				if !ok || (f != "EdgeTriggeredIOChunk" && f != "EdgeTriggeredIO") {
					fail("chunk normalisation assigns to something else")
				}
				if arg, ok := isCeil(as.Rhs[0]); ok {
					n++
					v := fmt.Sprintf("c%d", n)
					pre += "obind (CeilToPowerOfTwo " + t.expr(arg) + ") (fun " + v + " => "
					closers += ")"
					t.fields[f] = v
				} else {
					t.fields[f] = t.expr(as.Rhs[0])
				}
			}
			return pre + "Ret (" + t.fields["EdgeTriggeredIOChunk"] + ", " + t.fields["EdgeTriggeredIO"] + ")" + closers
		}
		var chain func(is *ast.IfStmt) string
		chain = func(is *ast.IfStmt) string {
			t := &tr{c: c, fields: map[string]string{"EdgeTriggeredIOChunk": "chunk", "EdgeTriggeredIO": "et"}, locals: map[string]string{}}
			cond := t.expr(is.Cond)
			if fld, ok := optField(is.Cond); ok && fld == "EdgeTriggeredIO" {
				cond = "et"
			}
			th := branch(is.Body.List)
			var el string
			switch e := is.Else.(type) {
			case nil:
				el = branch(nil)
			case *ast.IfStmt:
				if e.Init != nil {
					fail("if-init in the chunk normalisation")
				}
				el = chain(e)
			case *ast.BlockStmt:
				el = branch(e.List)
			}
			return "if " + cond + " then " + th + " else " + el
		}
		return chain(is)
	}
	fail("`if options.EdgeTriggeredIOChunk ...` not found")
	return ""
}

// eventLoops translates determineEventLoops.
func eventLoops(c cenv, fd *ast.FuncDecl) string {
	t := &tr{c: c, fields: map[string]string{"Multicore": "multicore", "NumEventLoop": "n"}, locals: map[string]string{}}
	var out strings.Builder
	for i, s := range fd.Body.List {
		switch v := s.(type) {
		case *ast.AssignStmt:
			if len(v.Lhs) != 1 || len(v.Rhs) != 1 {
				fail("multi-assignment")
			}
			id, ok := v.Lhs[0].(*ast.Ident)
			if !ok {
				fail("assignment target")
			}
			rhs := t.expr(v.Rhs[0])
			t.locals[id.Name] = id.Name
			out.WriteString("let " + id.Name + " := " + rhs + " in\n  ")
		case *ast.IfStmt:
			if v.Else != nil || v.Init != nil || len(v.Body.List) != 1 {
				fail("if statement shape")
			}
			a, ok := v.Body.List[0].(*ast.AssignStmt)
			if !ok || a.Tok != token.ASSIGN || len(a.Lhs) != 1 {
				fail("if body is not a single assignment")
			}
			id, ok := a.Lhs[0].(*ast.Ident)
			if !ok {
				fail("assignment target")
			}
			cond := t.expr(v.Cond)
			if fld, ok := optField(v.Cond); ok && fld == "Multicore" {
				cond = "multicore"
			}
			out.WriteString("let " + id.Name + " := if " + cond + " then " + t.expr(a.Rhs[0]) + " else " + id.Name + " in\n  ")
		case *ast.ReturnStmt:
			if len(v.Results) != 1 || i != len(fd.Body.List)-1 {
				fail("return shape")
			}
			out.WriteString(t.expr(v.Results[0]))
		default:
			fail("statement %T", s)
		}
	}
	return out.String()
}

func bytesLit(s string) string {
	var p []string
	for i := 0; i < len(s); i++ {
		p = append(p, strconv.Itoa(int(s[i])))
	}
	return "[" + strings.Join(p, "; ") + "]"
}

func strLit(x ast.Expr) string {
	l, ok := x.(*ast.BasicLit)
	if !ok || l.Kind != token.STRING {
		fail("expected a string literal")
	}
	s, err := strconv.Unquote(l.Value)
	if err != nil {
		fail("string literal %s", l.Value)
	}
	return s
}

// parseTables extracts the pre-escape arguments and the scheme case lists.
func parseTables(fd *ast.FuncDecl) (pre string, cases string) {
	ast.Inspect(fd.Body, func(n ast.Node) bool {
		c, ok := n.(*ast.CallExpr)
		if !ok {
			return true
		}
		if sel, ok := c.Fun.(*ast.SelectorExpr); ok && sel.Sel.Name == "ReplaceAll" && len(c.Args) == 3 && pre == "" {
			if p, ok := sel.X.(*ast.Ident); ok && p.Name == "strings" {
				pre = "(" + bytesLit(strLit(c.Args[1])) + ", " + bytesLit(strLit(c.Args[2])) + ")"
			}
		}
		return true
	})
	if pre == "" {
		fail("strings.ReplaceAll pre-escape not found in parseProtoAddr")
	}
	var rows []string
	ast.Inspect(fd.Body, func(n ast.Node) bool {
		sw, ok := n.(*ast.SwitchStmt)
		if !ok || sw.Tag == nil {
			return true
		}
		sel, ok := sw.Tag.(*ast.SelectorExpr)
		if !ok || sel.Sel.Name != "Scheme" {
			return true
		}
		for _, cl := range sw.Body.List {
			cc := cl.(*ast.CaseClause)
			var items []string
			for _, e := range cc.List {
				items = append(items, bytesLit(strLit(e)))
			}
			rows = append(rows, "["+strings.Join(items, "; ")+"]")
		}
		return false
	})
	if rows == nil {
		fail("switch u.Scheme not found in parseProtoAddr")
	}
	return pre, "[" + strings.Join(rows, ";\n   ") + "]"
}

func main() {
	out := flag.String("o", "GenNorm.v", "")
	flag.Parse()
	if flag.NArg() != 1 {
		fmt.Fprintln(os.Stderr, "usage: gennorm -o out.v <repo>")
		os.Exit(2)
	}
	repo := flag.Arg(0)
	var b strings.Builder
	b.WriteString("(* generated by gennorm from the current source; do not edit *)\n")
	b.WriteString("From GV Require Import Lib.Trace Model.Arith Model.Addr.\nFrom Coq Require Import ZArith Bool List Lia.\nImport ListNotations.\nOpen Scope Z_scope.\n\n")
	// proof portfolio: syntactic equality first; otherwise case analysis on every comparison, linear
	// arithmetic, and evaluation at a value pinned between two bounds (e.g. `<` versus `<=` at a threshold
	// where both branches agree)
	b.WriteString("Ltac gen_unfold := idtac.\n")
	b.WriteString("Ltac gen_eq := intros; first [ reflexivity | timeout 30 (gen_unfold; cbv zeta;\n" +
		"  repeat match goal with\n" +
		"  | |- context [?a <=? ?b] => destruct (Z.leb_spec a b)\n" +
		"  | |- context [?a <? ?b] => destruct (Z.ltb_spec a b)\n" +
		"  | |- context [?a >? ?b] => destruct (Z.gtb_spec a b)\n" +
		"  | |- context [?a >=? ?b] => destruct (Z.geb_spec a b)\n" +
		"  | |- context [?a =? ?b] => destruct (Z.eqb_spec a b)\n" +
		"  | |- context [if ?x then _ else _] => is_var x; destruct x\n" +
		"  end;\n" +
		"  first [ reflexivity | exfalso; lia | f_equal; lia\n" +
		"        | match goal with H1 : ?c <= ?k, H2 : ?k <= ?c |- _ => assert (c = k) by lia; subst c; vm_compute; reflexivity end ]) ].\n\n")
	status := 0
	guard := func(name string, f func()) {
		defer func() {
			if r := recover(); r != nil {
				u, ok := r.(untranslatable)
				if !ok {
					panic(r)
				}
				fmt.Printf("UNTRANSLATABLE %s %s\n", name, u.msg)
				b.WriteString(fmt.Sprintf("(* UNTRANSLATABLE %s: %s *)\n\n", name, u.msg))
				status = 3
			}
		}()
		f()
	}
	c := cenv{"math.MaxUint8": constant.MakeInt64(255)}
	constOb := func(name, gname, file string, tok token.Token, model string) {
		guard(gname, func() {
			x := findValue(parse(filepath.Join(repo, file)), name, tok)
			if x == nil {
				fail("%s not found in %s", name, file)
			}
			v := c.eval(x)
			if v == nil {
				fail("%s is not a constant expression of the supported subset", name)
			}
			b.WriteString(fmt.Sprintf("Definition %s : Z := %s.\nExample %s_ok : %s = %s.\nProof. reflexivity. Qed.\n\n", gname, zlit(v), gname, gname, model))
			fmt.Printf("TRANSLATED %s = %s\n", name, v.ExactString())
		})
	}
	constOb("DefaultBufferSize", "gen_DefaultBufferSize", "pkg/buffer/ring/ring_buffer.go", token.CONST, "default_buffer_size")
	// make it available to the code translation under its qualified name
	guard("ring.DefaultBufferSize", func() {
		if x := findValue(parse(filepath.Join(repo, "pkg/buffer/ring/ring_buffer.go")), "DefaultBufferSize", token.CONST); x != nil {
			if v := c.eval(x); v != nil {
				c["ring.DefaultBufferSize"] = v
			}
		}
	})
	constOb("MaxStreamBufferCap", "gen_MaxStreamBufferCap", "gnet.go", token.VAR, "max_stream_buffer_cap")
	constOb("EventLoopIndexMax", "gen_EventLoopIndexMax", "internal/gfd/gfd.go", token.CONST, "event_loop_index_max")
	guard("gfd.EventLoopIndexMax", func() {
		if x := findValue(parse(filepath.Join(repo, "internal/gfd/gfd.go")), "EventLoopIndexMax", token.CONST); x != nil {
			if v := c.eval(x); v != nil {
				c["gfd.EventLoopIndexMax"] = v
			}
		}
	})

	for _, site := range []struct{ file, fn string }{{"gnet.go", "createListeners"}, {"client_unix.go", "NewClient"}} {
		site := site
		for _, fld := range []struct{ field, tag string }{{"ReadBufferCap", "rbc"}, {"WriteBufferCap", "wbc"}} {
			fld := fld
			g := "gen_" + site.fn + "_" + fld.tag
			guard(g, func() {
				fd := findFunc(parse(filepath.Join(repo, site.file)), site.fn)
				if fd == nil {
					fail("function %s not found in %s", site.fn, site.file)
				}
				term := capSwitch(c, fd.Body.List, fld.field)
				b.WriteString(fmt.Sprintf("Definition %s (maxcap c : Z) : outcome Z :=\n  %s.\nLtac gen_unfold ::= unfold %s, norm_cap, default_buffer_size.\nLemma %s_ok : forall maxcap c, %s maxcap c = norm_cap maxcap c.\nProof. gen_eq. Qed.\n\n", g, term, g, g, g))
				fmt.Printf("TRANSLATED %s:%s %s switch\n", site.file, site.fn, fld.field)
			})
		}
		g := "gen_" + site.fn + "_chunk"
		guard(g, func() {
			fd := findFunc(parse(filepath.Join(repo, site.file)), site.fn)
			if fd == nil {
				fail("function %s not found in %s", site.fn, site.file)
			}
			term := chunkIf(c, fd.Body.List)
			b.WriteString(fmt.Sprintf("Definition %s (chunk : Z) (et : bool) : outcome (Z * bool) :=\n  %s.\nLtac gen_unfold ::= unfold %s, norm_chunk, default_et_chunk.\nLemma %s_ok : forall chunk et, %s chunk et = norm_chunk chunk et.\nProof. gen_eq. Qed.\n\n", g, term, g, g, g))
			fmt.Printf("TRANSLATED %s:%s chunk normalisation\n", site.file, site.fn)
		})
	}
	guard("gen_determineEventLoops", func() {
		fd := findFunc(parse(filepath.Join(repo, "gnet.go")), "determineEventLoops")
		if fd == nil {
			fail("determineEventLoops not found")
		}
		term := eventLoops(c, fd)
		b.WriteString(fmt.Sprintf("Definition gen_determineEventLoops (numcpu : Z) (multicore : bool) (n : Z) : Z :=\n  %s.\nLtac gen_unfold ::= unfold gen_determineEventLoops, determine_event_loops, event_loop_index_max.\nLemma gen_determineEventLoops_ok : forall numcpu multicore n, gen_determineEventLoops numcpu multicore n = determine_event_loops numcpu multicore n.\nProof. gen_eq. Qed.\n\n", term))
		fmt.Println("TRANSLATED gnet.go:determineEventLoops")
	})
	guard("gen_parseProtoAddr_tables", func() {
		fd := findFunc(parse(filepath.Join(repo, "gnet.go")), "parseProtoAddr")
		if fd == nil {
			fail("parseProtoAddr not found")
		}
		pre, cases := parseTables(fd)
		b.WriteString(fmt.Sprintf("Definition gen_preescape : list Z * list Z := %s.\nExample gen_preescape_ok : gen_preescape = ([37], escape_pct [37]).\nProof. reflexivity. Qed.\n\n", pre))
		b.WriteString(fmt.Sprintf("Definition gen_scheme_cases : list (list (list Z)) :=\n  %s.\nExample gen_scheme_cases_ok : gen_scheme_cases = [[[]]; inet_schemes; [s_unix]; []].\nProof. reflexivity. Qed.\n\n", cases))
		fmt.Println("TRANSLATED gnet.go:parseProtoAddr tables")
	})
	if err := os.WriteFile(*out, []byte(b.String()), 0o644); err != nil {
		fmt.Fprintln(os.Stderr, err)
		os.Exit(2)
	}
	os.Exit(status)
}
