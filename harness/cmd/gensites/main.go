// gensites lists every use of the byte-slice pool and the ring-buffer pool
// (pkg/pool/byteslice, pkg/pool/ringbuffer) in the non-test sources of the
// current gnet tree that build on a unix system, and emits the obligation that
// this list equals the list of call sites the C12 analysis justifies
// (Model.Pool.justified_sites).  A new, removed or changed call site breaks the
// obligation.
//
// usage: gensites -o GenSites.v <repo root>
//
// One record per selector expression <pkg>.<Name> whose <pkg> is an import of
// one of the two pool packages (whatever the local alias): (file, enclosing
// function, package.Name, argument text).  A reference that is not a call
// (method value, type use) is listed with argument "<ref>", so it can never go
// unnoticed either.
package main

import (
	"bytes"
	"flag"
	"fmt"
	"go/ast"
	"go/build"
	"go/parser"
	"go/printer"
	"go/token"
	"hash/fnv"
	"os"
	"path/filepath"
	"sort"
	"strconv"
	"strings"
)

var pools = map[string]string{
	"github.com/panjf2000/gnet/v2/pkg/pool/byteslice":  "byteslice",
	"github.com/panjf2000/gnet/v2/pkg/pool/ringbuffer": "ringbuffer",
}

type site struct{ file, fn, callee, arg string }

func coqStr(s string) string { return `"` + strings.ReplaceAll(s, `"`, `""`) + `"` }

func (s site) coq() string {
	return "(" + coqStr(s.file) + ", " + coqStr(s.fn) + ", " + coqStr(s.callee) + ", " + coqStr(s.arg) + ")"
}

func buildsOnUnix(dir, name string) bool {
	for _, goos := range []string{"linux", "darwin", "freebsd"} {
		ctx := build.Default
		ctx.GOOS, ctx.GOARCH, ctx.CgoEnabled = goos, "amd64", false
		ctx.BuildTags = nil
		if ok, err := ctx.MatchFile(dir, name); err == nil && ok {
			return true
		}
	}
	return false
}

func recvName(fd *ast.FuncDecl) string {
	if fd.Recv == nil || len(fd.Recv.List) == 0 {
		return fd.Name.Name
	}
	t := fd.Recv.List[0].Type
	for {
		switch v := t.(type) {
		case *ast.StarExpr:
			t = v.X
			continue
		case *ast.IndexExpr:
			t = v.X
			continue
		case *ast.Ident:
			return v.Name + "." + fd.Name.Name
		}
		return "?." + fd.Name.Name
	}
}

func main() {
	out := flag.String("o", "GenSites.v", "")
	flag.Parse()
	if flag.NArg() != 1 {
		fmt.Fprintln(os.Stderr, "usage: gensites -o out.v <repo>")
		os.Exit(2)
	}
	root := flag.Arg(0)
	var files []string
	filepath.Walk(root, func(p string, info os.FileInfo, err error) error {
		if err != nil {
			return nil
		}
		if info.IsDir() {
			b := info.Name()
			if p != root && (strings.HasPrefix(b, ".") || b == "testdata" || b == "vendor") {
				return filepath.SkipDir
			}
			return nil
		}
		if !strings.HasSuffix(p, ".go") || strings.HasSuffix(p, "_test.go") {
			return nil
		}
		if buildsOnUnix(filepath.Dir(p), filepath.Base(p)) {
			files = append(files, p)
		}
		return nil
	})
	sort.Strings(files)
	fset := token.NewFileSet()
	var sites []site
	var contexts [][3]string
	status := 0
	for _, p := range files {
		f, err := parser.ParseFile(fset, p, nil, 0)
		if err != nil {
			fmt.Fprintln(os.Stderr, "parse:", err)
			status = 3
			continue
		}
		alias := map[string]string{} // local name -> pool package
		for _, im := range f.Imports {
			path, _ := strconv.Unquote(im.Path.Value)
			pk, ok := pools[path]
			if !ok {
				continue
			}
			name := pk
			if im.Name != nil {
				name = im.Name.Name
			}
			if name == "." || name == "_" {
				// a dot import would hide the uses from this translator: refuse
				sites = append(sites, site{rel(root, p), "<import>", pk + ".<" + name + "-import>", "<ref>"})
				continue
			}
			alias[name] = pk
		}
		if len(alias) == 0 {
			continue
		}
		rp := rel(root, p)
		firstSite := len(sites)
		for _, d := range f.Decls {
			fn := "<package-level>"
			if fd, ok := d.(*ast.FuncDecl); ok {
				fn = recvName(fd)
			}
			called := map[*ast.SelectorExpr]bool{}
			ast.Inspect(d, func(n ast.Node) bool {
				switch v := n.(type) {
				case *ast.CallExpr:
					if se, ok := v.Fun.(*ast.SelectorExpr); ok {
						if id, ok := se.X.(*ast.Ident); ok && id.Obj == nil {
							if pk, ok := alias[id.Name]; ok {
								called[se] = true
								var args []string
								for _, a := range v.Args {
									var b bytes.Buffer
									printer.Fprint(&b, fset, a)
									args = append(args, b.String())
								}
								sites = append(sites, site{rp, fn, pk + "." + se.Sel.Name, strings.Join(args, ", ")})
							}
						}
					}
				case *ast.SelectorExpr:
					if called[v] {
						return true
					}
					if id, ok := v.X.(*ast.Ident); ok && id.Obj == nil {
						if pk, ok := alias[id.Name]; ok {
							sites = append(sites, site{rp, fn, pk + "." + v.Sel.Name, "<ref>"})
						}
					}
				}
				return true
			})
		}
		// the text the justification of a Put was written against: the function that contains it and every
		// function of the same file that mentions the field (selector) whose value is put back
		fields := map[string]bool{}
		fnsWithPut := map[string]bool{}
		for _, st := range sites[firstSite:] {
			if strings.HasSuffix(st.callee, ".Put") {
				fnsWithPut[st.fn] = true
				if i := strings.LastIndex(st.arg, "."); i >= 0 && !strings.ContainsAny(st.arg[i+1:], "()[] ,") {
					fields[st.arg[i+1:]] = true
				}
			}
		}
		if len(fnsWithPut) > 0 {
			for _, d := range f.Decls {
				fd, ok := d.(*ast.FuncDecl)
				if !ok || fd.Body == nil {
					continue
				}
				name := recvName(fd)
				relevant := fnsWithPut[name]
				ast.Inspect(fd.Body, func(n ast.Node) bool {
					if as, ok := n.(*ast.AssignStmt); ok {
						for _, l := range as.Lhs {
							if se, ok := l.(*ast.SelectorExpr); ok && fields[se.Sel.Name] {
								relevant = true // the ownership bookkeeping of that field lives here too
							}
						}
					}
					return !relevant
				})
				if relevant {
					var buf bytes.Buffer
					printer.Fprint(&buf, fset, fd.Body) // parsed without comments: a comment edit does not count
					h := fnv.New64a()
					h.Write(buf.Bytes())
					contexts = append(contexts, [3]string{rp, name, fmt.Sprintf("%016x", h.Sum64())})
				}
			}
		}
	}
	var b strings.Builder
	b.WriteString("(* generated by gensites from the current source; do not edit *)\n")
	b.WriteString("From GV Require Import Lib.Trace Model.Pool.\nOpen Scope string_scope.\n\n")
	b.WriteString("Definition gen_sites : list site := [\n")
	for i, s := range sites {
		sep := ";"
		if i == len(sites)-1 {
			sep = ""
		}
		b.WriteString("  " + s.coq() + sep + "\n")
	}
	b.WriteString("].\n\n")
	b.WriteString("(* every use of a pool found in the source is one the analysis has justified *)\n")
	for i, s := range sites {
		nm := fmt.Sprintf("site_%02d_%s", i+1, ident(s.fn+"_"+s.callee))
		b.WriteString(fmt.Sprintf("Example %s : site_in %s justified_sites = true.\nProof. vm_compute. reflexivity. Qed.\n", nm, s.coq()))
	}
	b.WriteString("\n(* ... and the two lists coincide (nothing justified has silently disappeared or moved) *)\n")
	b.WriteString("Example sites_ok : gen_sites = justified_sites.\nProof. vm_compute. reflexivity. Qed.\n")
	b.WriteString("\n(* the functions each Put was justified against (the one containing it, and every function of the same\n   file that assigns to the field whose value is put back), by fingerprint of their body: an edit there means\n   the justification in Model.Pool.site_table has to be looked at again *)\n")
	b.WriteString("Definition gen_put_contexts : list (string * string * string) := [\n")
	for i, c := range contexts {
		sep := ";"
		if i == len(contexts)-1 {
			sep = ""
		}
		b.WriteString("  (" + coqStr(c[0]) + ", " + coqStr(c[1]) + ", " + coqStr(c[2]) + ")" + sep + "\n")
	}
	b.WriteString("].\n")
	b.WriteString("Example put_contexts_as_justified : gen_put_contexts = justified_put_contexts.\nProof. vm_compute. reflexivity. Qed.\n")
	if err := os.WriteFile(*out, []byte(b.String()), 0o644); err != nil {
		fmt.Fprintln(os.Stderr, err)
		os.Exit(2)
	}
	fmt.Printf("gensites: %d files, %d sites\n", len(files), len(sites))
	os.Exit(status)
}

func rel(root, p string) string {
	r, err := filepath.Rel(root, p)
	if err != nil {
		return p
	}
	return filepath.ToSlash(r)
}

func ident(s string) string {
	var b strings.Builder
	for _, c := range s {
		if c >= 'a' && c <= 'z' || c >= 'A' && c <= 'Z' || c >= '0' && c <= '9' {
			b.WriteRune(c)
		} else {
			b.WriteByte('_')
		}
	}
	return b.String()
}
