(* C07 -- descriptor ownership.  Statements only; proofs in Proofs/LoopFd.v. *)
From GV Require Import Lib.Trace Model.Loop Spec.LoopSpec Proofs.LoopFd.
Open Scope Z_scope.

(* full statement: every system call of the loop names a descriptor it owns *)
Definition C07_fd_safety_full : Prop :=
  forall i t, run_history i = Some t -> fd_ok (statics i) t = true.

(* proved: the same, except for epoll_ctl(DEL) of the reactor's stale-event branch *)
Theorem C07_fd_safety_partial : forall i t,
  run_history i = Some t -> fd_ok_but_stale_del (statics i) t = true.
Proof. exact fd_safety_partial. Qed.
Print Assumptions C07_fd_safety_partial.

(* the full statement is false of the faithful model: the stale-event branch *)
Theorem C07_fd_safety_refuted : ~ C07_fd_safety_full.
Proof. exact fd_safety_refuted. Qed.
Print Assumptions C07_fd_safety_refuted.

(* "closed exactly once, never used after close" is part of the ledger: close(2) removes
   the descriptor from the owned set, so a second close or any later call on that number
   (before the kernel hands it out again) would be rejected by fd_ok_but_stale_del. *)

(* Non-vacuity: on the run that refutes the unrestricted ledger the ledger with the exemption holds and has
   seen system calls; and it is not trivially true (a write on a closed descriptor is rejected). *)
Example C07_nonvacuous :
  match run_history LoopFd.stale_input with
  | Some t => (fd_ok_but_stale_del (statics LoopFd.stale_input) t,
               existsb (fun e => match e with EOut ("sys", _) => true | _ => false end) t)
  | None => (false, false)
  end = (true, true) /\
  fd_ok_but_stale_del [3]
    [EIn ("accepted", [AInt 5]);
     EOut (obs "sys" [ASym "close"; AInt 5]); EIn ("r", [ASym "close"; AInt 0]);
     EOut (obs "sys" [ASym "wr"; AInt 5])] = false.
Proof. split; [exact LoopFd.ex_stale_partial|exact LoopFd.ex_fd_rejects]. Qed.
Print Assumptions C07_nonvacuous.

(* ---- the engine's own descriptors: listeners, epoll descriptors, eventfds (Model/Start.v).
   For EVERY configuration (reuse-port or main-reactor mode, any number of loops and listeners) and EVERY
   failure of epoll_create1 / eventfd / epoll_ctl ADD during the start (or none): when Run / Rotate returns,
   every descriptor the start created has been closed, none twice, nothing else has been closed; a start
   that fails has not started a goroutine (nobody is left polling a closed descriptor's number); and Run
   reports the failure exactly when a call failed. *)
From GV Require Model.Start Proofs.StartProofs.

Theorem C07_start_no_leak : forall c, Start.leaked (fst (Start.run c)) = nil.
Proof. exact StartProofs.run_no_leak. Qed.
Print Assumptions C07_start_no_leak.

Theorem C07_start_closes_once : forall c, List.NoDup (Start.cls (fst (Start.run c))).
Proof. exact StartProofs.run_closes_once. Qed.
Print Assumptions C07_start_closes_once.

Theorem C07_start_closes_created : forall c id,
  List.In id (Start.cls (fst (Start.run c))) <-> List.In id (List.map fst (Start.opn (fst (Start.run c)))).
Proof. exact StartProofs.run_closed_iff_created. Qed.
Print Assumptions C07_start_closes_created.

Theorem C07_failed_start_no_goroutine : forall c s, Start.after_start c = (s, false) -> Start.gos s = 0%nat.
Proof. exact StartProofs.failed_start_no_goroutine. Qed.
Print Assumptions C07_failed_start_no_goroutine.

Theorem C07_start_outcome : forall c,
  (snd (Start.run c) = Start.Failed <-> snd (Start.after_start c) = false) /\
  (Start.c_fault c = None -> snd (Start.run c) = Start.Started) /\
  (snd (Start.run c) = Start.Started ->
   Start.gos (fst (Start.run c)) = (if Start.c_reuseport c then Start.c_nloops c else S (Start.c_nloops c))).
Proof.
  intro c. split; [exact (StartProofs.outcome_spec c)|].
  split; [exact (StartProofs.no_fault_starts c)|exact (StartProofs.started_goroutines c)].
Qed.
Print Assumptions C07_start_outcome.

(* non-vacuity: a reuse-port start of 3 loops with 2 listeners whose 4th epoll_ctl ADD fails *)
Example C07_start_nonvacuous :
  let c := Start.mkCfg true 3 2 (Some (Start.mkFault Start.SAdd 3)) in
  snd (Start.run c) = Start.Failed /\
  Start.count_kind Start.KSock (fst (Start.run c)) = 4%nat /\
  Start.count_kind Start.KEpoll (fst (Start.run c)) = 2%nat /\
  List.length (Start.cls (fst (Start.run c))) = 8%nat /\
  Start.leaked (fst (Start.after_start c)) <> nil.
Proof. vm_compute. repeat split; discriminate. Qed.

(* the same for a gnet.Client: Client.Start with any number of loops and any failing call (or none),
   followed by Client.Stop when the start succeeded *)
From GV Require Proofs.StartClientProofs.

Theorem C07_client_start_ledger : forall n f,
  Start.leaked (fst (Start.run_client n f)) = nil /\
  List.NoDup (Start.cls (fst (Start.run_client n f))) /\
  (forall id, List.In id (Start.cls (fst (Start.run_client n f))) <->
              List.In id (List.map fst (Start.opn (fst (Start.run_client n f))))).
Proof.
  intros n f. split; [exact (StartClientProofs.client_no_leak n f)|].
  split; [exact (StartClientProofs.client_closes_once n f)|exact (StartClientProofs.client_closes_created n f)].
Qed.
Print Assumptions C07_client_start_ledger.

Theorem C07_client_failed_start_no_goroutine : forall n f s,
  Start.after_client_start n f = (s, false) -> Start.gos s = 0%nat.
Proof. exact StartClientProofs.client_failed_start_no_goroutine. Qed.
Print Assumptions C07_client_failed_start_no_goroutine.

Theorem C07_client_start_outcome : forall n f,
  (snd (Start.run_client n f) = Start.Failed <-> snd (Start.after_client_start n f) = false) /\
  (f = None -> snd (Start.run_client n f) = Start.Started) /\
  (snd (Start.run_client n f) = Start.Started -> Start.gos (fst (Start.run_client n f)) = n).
Proof. exact StartClientProofs.client_outcome. Qed.
Print Assumptions C07_client_start_outcome.
