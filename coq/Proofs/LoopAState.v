(* The invariant behind C04 (lifecycle, connection count) and C07 (descriptor ledger):
   one product checker (phase map x ledger) and the relation between its state and the
   model state.  Pure facts only (no worlds): association lists, the product step on each
   kind of line, and the preservation of the relation by each kind of state change. *)
From GV Require Import Lib.Trace Model.Loop Spec.LoopSpec Proofs.LoopInv.
From Coq Require Import Lia Permutation.
Open Scope string_scope.
Open Scope list_scope.
Open Scope Z_scope.

(* ------------------------------------------------------------------ *)
(* strings: a match on a string variable that is none of the literals falls through *)

Ltac sdef n :=
  first [ solve [reflexivity] | solve [congruence] |
    let a := fresh "a" in let n' := fresh "n" in
    destruct n as [|a n'];
    [ first [solve [reflexivity] | solve [congruence]]
    | first [ solve [reflexivity] |
        let b0 := fresh "b" in let b1 := fresh "b" in let b2 := fresh "b" in let b3 := fresh "b" in
        let b4 := fresh "b" in let b5 := fresh "b" in let b6 := fresh "b" in let b7 := fresh "b" in
        destruct a as [b0 b1 b2 b3 b4 b5 b6 b7];
        destruct b0; try solve [reflexivity]; destruct b1; try solve [reflexivity];
        destruct b2; try solve [reflexivity]; destruct b3; try solve [reflexivity];
        destruct b4; try solve [reflexivity]; destruct b5; try solve [reflexivity];
        destruct b6; try solve [reflexivity]; destruct b7; try solve [reflexivity];
        sdef n' ] ] ].

(* ------------------------------------------------------------------ *)
(* association lists *)

Lemma alookup_none_notin : forall {A} k (m : list (Z * A)),
  alookup k m = None <-> ~ In k (map fst m).
Proof.
  induction m as [|[k0 v] m IH]; cbn [alookup map fst In].
  - tauto.
  - destruct (k =? k0) eqn:E.
    + split; [discriminate|]. intros H. exfalso. apply H. left. lia.
    + rewrite IH. split; [intros H [H1|H1]; [lia|tauto]|tauto].
Qed.

Lemma alookup_some_in : forall {A} k v (m : list (Z * A)),
  alookup k m = Some v -> In k (map fst m).
Proof.
  intros A k v m H. destruct (in_dec Z.eq_dec k (map fst m)) as [Hi|Hn]; [exact Hi|].
  apply alookup_none_notin in Hn. congruence.
Qed.

Lemma aremove_id : forall {A} k (m : list (Z * A)), alookup k m = None -> aremove k m = m.
Proof.
  induction m as [|[k0 v] m IH]; cbn [alookup aremove]; [reflexivity|].
  destruct (k =? k0); [discriminate|]. intros H. rewrite IH; auto.
Qed.

Lemma in_keys_aremove : forall {A} k k' (m : list (Z * A)),
  In k' (map fst (aremove k m)) -> In k' (map fst m) /\ k' <> k.
Proof.
  induction m as [|[k0 v] m IH]; cbn [aremove map fst In]; [tauto|].
  destruct (k =? k0) eqn:E.
  - intros H. apply IH in H. tauto.
  - cbn [map fst In]. intros [H|H]; [split; [left; exact H|lia]|]. apply IH in H. tauto.
Qed.

Lemma nodup_aremove : forall {A} k (m : list (Z * A)),
  NoDup (map fst m) -> NoDup (map fst (aremove k m)).
Proof.
  induction m as [|[k0 v] m IH]; cbn [aremove map fst]; [auto|].
  intros H. inversion H; subst. destruct (k =? k0); [auto|].
  cbn [map fst]. constructor; [|auto].
  intros Hi. apply in_keys_aremove in Hi. tauto.
Qed.

Lemma nodup_aset : forall {A} k (v : A) (m : list (Z * A)),
  NoDup (map fst m) -> NoDup (map fst (aset k v m)).
Proof.
  intros. unfold aset. cbn [map fst]. constructor; [|apply nodup_aremove; auto].
  intros Hi. apply in_keys_aremove in Hi. tauto.
Qed.

Lemma zlen_cons : forall {A} (x : A) l, zlen (x :: l) = zlen l + 1.
Proof. intros. unfold zlen. cbn [List.length]. lia. Qed.

Lemma zlen_aremove : forall {A} k v (m : list (Z * A)),
  NoDup (map fst m) -> alookup k m = Some v -> zlen (aremove k m) = zlen m - 1.
Proof.
  induction m as [|[k0 v0] m IH]; cbn [alookup aremove map fst]; [discriminate|].
  intros Hn Hl. inversion Hn; subst.
  destruct (k =? k0) eqn:E.
  - assert (k = k0) by lia. subst k0.
    rewrite aremove_id; [rewrite zlen_cons; lia|]. apply alookup_none_notin; auto.
  - rewrite !zlen_cons. rewrite IH; auto. lia.
Qed.

Lemma getd_aset : forall {A} (d : A) k k' v m,
  getd d k' (aset k v m) = if k' =? k then v else getd d k' m.
Proof. intros. unfold getd. rewrite alookup_aset. destruct (k' =? k); reflexivity. Qed.

(* ------------------------------------------------------------------ *)
(* phases and the open count *)

Definition phmap := list (Z * phase).
Definition ph (m : phmap) (cid : Z) : phase := getd PNew cid m.
Definition isopen (p : phase) : Z := match p with POpen => 1 | _ => 0 end.

Lemma ph_aset : forall m k p k', ph (aset k p m) k' = if k' =? k then p else ph m k'.
Proof. intros. unfold ph. apply getd_aset. Qed.

Lemma count_open_cons : forall k p m, count_open ((k, p) :: m) = isopen p + count_open m.
Proof.
  intros. unfold count_open. cbn [filter snd]. destruct p; cbn [isopen]; rewrite ?zlen_cons; lia.
Qed.

Lemma count_open_aremove : forall k (m : phmap),
  NoDup (map fst m) -> count_open (aremove k m) = count_open m - isopen (ph m k).
Proof.
  induction m as [|[k0 p] m IH]; cbn [aremove map fst].
  - intros _. unfold ph, getd. cbn. lia.
  - intros Hn. inversion Hn; subst. unfold ph, getd. cbn [alookup].
    destruct (k =? k0) eqn:E.
    + assert (k = k0) by lia. subst k0.
      rewrite aremove_id; [rewrite count_open_cons; lia|]. apply alookup_none_notin; auto.
    + rewrite !count_open_cons, IH; auto. unfold ph, getd. lia.
Qed.

Lemma count_open_aset : forall k p (m : phmap),
  NoDup (map fst m) -> count_open (aset k p m) = count_open m - isopen (ph m k) + isopen p.
Proof.
  intros. unfold aset. rewrite count_open_cons, count_open_aremove; auto. lia.
Qed.

(* ------------------------------------------------------------------ *)
(* the product checker *)

Definition pst := (phmap * fdst)%type.

Definition pstep (c : pst) (e : ev) : option pst :=
  match count_step (fst c) e, fd_step_stale (snd c) e with
  | Some m', Some cs' => Some (m', cs')
  | _, _ => None
  end.

Lemma count_step_cases : forall m ln la,
  count_step m (EOut (ln, la)) = lc_step m (EOut (ln, la)) \/
  exists n a, ln = "g" /\ la = [ASym "count"; AInt n; a].
Proof.
  intros m ln la.
  destruct (String.eqb_spec ln "g") as [->|Hne]; [|left; unfold count_step; sdef ln].
  destruct la as [|[z|b|s1] la]; try (left; reflexivity).
  destruct (String.eqb_spec s1 "count") as [->|Hne]; [|left; unfold count_step; sdef s1].
  destruct la as [|[n|b|s2] la]; try (left; reflexivity).
  destruct la as [|a3 la]; [left; reflexivity|].
  destruct la as [|a4 la]; [|left; reflexivity].
  right. eauto.
Qed.

Lemma count_lc : forall m e m', count_step m e = Some m' -> lc_step m e = Some m'.
Proof.
  intros m e m' H. destruct e as [l|l]; [exact H|].
  destruct l as [ln la].
  destruct (count_step_cases m ln la) as [E|[n [a [-> ->]]]]; [congruence|].
  cbn in H. destruct (n =? count_open m); [inversion H; reflexivity|discriminate].
Qed.

Lemma runs_pstep_count : forall t m cs,
  runs pstep (m, cs) t <> Fail -> runs count_step m t <> Fail.
Proof.
  induction t as [|e r IH]; intros m cs H; cbn [runs] in *; [congruence|].
  destruct (is_desync e); [congruence|].
  unfold pstep in H. cbn [fst snd] in H.
  destruct (count_step m e) as [m'|]; [|congruence].
  destruct (fd_step_stale cs e); [eapply IH; eauto|congruence].
Qed.

Lemma runs_count_lc : forall t m, runs count_step m t <> Fail -> runs lc_step m t <> Fail.
Proof.
  induction t as [|e r IH]; intros m H; cbn [runs] in *; [congruence|].
  destruct (is_desync e); [congruence|].
  destruct (count_step m e) as [m'|] eqn:E; [|congruence].
  rewrite (count_lc _ _ _ E). auto.
Qed.

Lemma runs_pstep_fd : forall t m cs,
  runs pstep (m, cs) t <> Fail -> runs fd_step_stale cs t <> Fail.
Proof.
  induction t as [|e r IH]; intros m cs H; cbn [runs] in *; [congruence|].
  destruct (is_desync e); [congruence|].
  unfold pstep in H. cbn [fst snd] in H.
  destruct (count_step m e) as [m'|]; [|congruence].
  destruct (fd_step_stale cs e); [eapply IH; eauto|congruence].
Qed.

(* ------------------------------------------------------------------ *)
(* the ledger checker on each kind of line *)

Definition owns (cs : fdst) (fd : Z) : bool := zmem fd (f_owned cs) || zmem fd (f_static cs).

Definition fresh_fd (cs : fdst) (fd : Z) : fdst :=
  if owns cs fd then mkFd0 (f_owned cs) (f_static cs) None true
  else mkFd (fd :: f_owned cs) (f_static cs) (f_last cs).

Definition set_last (cs : fdst) (q : option (string * Z)) : fdst :=
  mkFd0 (f_owned cs) (f_static cs) q (f_dead cs).

(* the effect of a result line *)
Definition fd_result (cs : fdst) (n : Z) : fdst :=
  match f_last cs with
  | Some (nm, fd) =>
      if sym_eqb nm "close" then mkFd (zrem fd (f_owned cs)) (f_static cs) None
      else if sym_eqb nm "accept" && (0 <=? n) then
        let s' := fresh_fd cs n in mkFd0 (f_owned s') (f_static s') None (f_dead s')
      else mkFd (f_owned cs) (f_static cs) None
  | None => cs
  end.

Lemma fd_in_r : forall cs nm n rest,
  fd_step_stale cs (EIn ("r", ASym nm :: AInt n :: rest)) =
  Some (if f_dead cs then cs else fd_result cs n).
Proof.
  intros. unfold fd_result, fresh_fd, owns. cbn. unfold fd_step. destruct (f_dead cs); [reflexivity|].
  destruct (f_last cs) as [[nm' fd]|]; [|reflexivity].
  destruct (sym_eqb nm' "close"); [reflexivity|].
  destruct (sym_eqb nm' "accept" && (0 <=? n)); reflexivity.
Qed.

Lemma fd_in_accepted : forall cs fd,
  fd_step_stale cs (EIn ("accepted", [AInt fd])) = Some (if f_dead cs then cs else fresh_fd cs fd).
Proof. intros. unfold fresh_fd, owns. cbn. unfold fd_step. destruct (f_dead cs); reflexivity. Qed.

Lemma fd_in_enroll : forall cs fd rest,
  fd_step_stale cs (EIn ("enroll", AInt fd :: rest)) = Some (if f_dead cs then cs else fresh_fd cs fd).
Proof. intros. unfold fresh_fd, owns. cbn. unfold fd_step. destruct (f_dead cs); reflexivity. Qed.

Lemma fd_in_dial : forall cs fd rest,
  fd_step_stale cs (EIn ("dial", AInt fd :: rest)) = Some (if f_dead cs then cs else fresh_fd cs fd).
Proof. intros. unfold fresh_fd, owns. cbn. unfold fd_step. destruct (f_dead cs); reflexivity. Qed.

Lemma fd_in_other : forall cs ln la,
  ln <> "r" -> ln <> "accepted" -> ln <> "enroll" -> ln <> "dial" ->
  fd_step_stale cs (EIn (ln, la)) = Some cs.
Proof.
  intros cs ln la H1 H2 H3 H4. cbn. unfold fd_step. destruct (f_dead cs); [reflexivity|].
  sdef ln.
Qed.

Lemma fd_in_total : forall cs l, exists cs', fd_step_stale cs (EIn l) = Some cs'.
Proof.
  intros cs [ln la].
  destruct (String.eqb_spec ln "r") as [->|H1].
  - destruct la as [|[z|b|nm] la]; try (cbn; unfold fd_step; destruct (f_dead cs); eexists; reflexivity).
    destruct la as [|[n|b|s2] rest]; try (cbn; unfold fd_step; destruct (f_dead cs); eexists; reflexivity).
    rewrite fd_in_r. eauto.
  - destruct (String.eqb_spec ln "accepted") as [->|H2].
    + destruct la as [|[fd|b|nm] la]; try (cbn; unfold fd_step; destruct (f_dead cs); eexists; reflexivity).
      destruct la; [rewrite fd_in_accepted; eauto|].
      cbn; unfold fd_step; destruct (f_dead cs); eexists; reflexivity.
    + destruct (String.eqb_spec ln "enroll") as [->|H3].
      * destruct la as [|[fd|b|nm] la]; try (cbn; unfold fd_step; destruct (f_dead cs); eexists; reflexivity).
        all: try (rewrite fd_in_enroll; eauto).
      * destruct (String.eqb_spec ln "dial") as [->|H4].
        -- destruct la as [|[fd|b|nm] la]; try (cbn; unfold fd_step; destruct (f_dead cs); eexists; reflexivity).
           all: try (rewrite fd_in_dial; eauto).
        -- rewrite fd_in_other; eauto.
Qed.

Lemma pstep_in : forall m cs l,
  exists cs', fd_step_stale cs (EIn l) = Some cs' /\ pstep (m, cs) (EIn l) = Some (m, cs').
Proof.
  intros m cs l. destruct (fd_in_total cs l) as [cs' H]. exists cs'. split; [exact H|].
  unfold pstep. cbn [fst snd]. rewrite H. reflexivity.
Qed.

Lemma pstep_in_total : forall c l, exists c', pstep c (EIn l) = Some c'.
Proof. intros [m cs] l. destruct (pstep_in m cs l) as [cs' [_ H]]. eauto. Qed.

(* ------------------------------------------------------------------ *)
(* the relation between checker state and model state *)

Definition regs (s : lstate) (fd : Z) : option Z := alookup fd (l_reg s).
Definition tasks (s : lstate) : list task := l_urgent s ++ l_low s.
Definition regcids (q : list task) : list Z :=
  flat_map (fun t => match t with TRegister c _ => [c] | _ => [] end) q.
(* connections that are promised a registration: P (being registered right now) and
   those riding in queued TRegister tasks *)
Definition promised (P : list Z) (s : lstate) : list Z := P ++ regcids (tasks s).

(* L: connections inside el_close (from the OnClose callback to the close(2) result);
   N: identities that will never be opened (datagram callbacks in progress) *)
Record Rst (L P N : list Z) (m : phmap) (s : lstate) : Prop := mkRst {
  r_open : forall cid, c_opened (getc s cid) = true ->
     (In cid L /\ regs s (c_fd (getc s cid)) = None) \/
     (~ In cid L /\ regs s (c_fd (getc s cid)) = Some cid /\ ph m cid = POpen);
  r_closed : forall cid, c_opened (getc s cid) = false -> ph m cid <> POpen;
  r_reg : forall fd cid, regs s fd = Some cid ->
     c_fd (getc s cid) = fd /\ c_opened (getc s cid) = true;
  r_count : count_open m = zlen (l_reg s);
  r_nd_m : NoDup (map fst m);
  r_nd_reg : NoDup (map fst (l_reg s));
  r_L : forall cid, In cid L -> ph m cid = PClosed;
  r_L_nd : NoDup L;
  r_fresh : forall cid, l_next s <= cid ->
     c_opened (getc s cid) = false /\ ph m cid = PNew /\ ~ In cid (promised P s) /\ ~ In cid N;
  r_prom : forall cid, In cid (promised P s) ->
     c_opened (getc s cid) = false /\ ph m cid = PNew /\
     (c_udp (getc s cid) && c_remote (getc s cid) = false);
  r_prom_nd : NoDup (promised P s);
  r_udp : forall cid, c_udp (getc s cid) = true -> c_remote (getc s cid) = true ->
     In (c_fd (getc s cid)) (map fst (l_listeners s));
  r_never : forall cid, In cid N -> ph m cid = PNew /\ ~ In cid (promised P s);
}.

Definition holder (L P : list Z) (s : lstate) (cid : Z) : Prop :=
  c_opened (getc s cid) = true \/ In cid L \/ In cid (promised P s).

Record Led (L P : list Z) (q : option (string * Z)) (cs : fdst) (s : lstate) : Prop := mkLed {
  l_last : f_last cs = q;
  l_static : f_static cs = l_efd s :: map fst (l_listeners s);
  l_own : forall cid, holder L P s cid -> zmem (c_fd (getc s cid)) (f_owned cs) = true;
  l_inj : forall c1 c2, holder L P s c1 -> holder L P s c2 ->
     c_fd (getc s c1) = c_fd (getc s c2) -> c1 = c2;
}.

Definition FdR (L P : list Z) (q : option (string * Z)) (cs : fdst) (s : lstate) : Prop :=
  f_dead cs = true \/ Led L P q cs s.

Definition RelQ (L P N : list Z) (q : option (string * Z)) (c : pst) (s : lstate) : Prop :=
  Rst L P N (fst c) s /\ FdR L P q (snd c) s.

Definition Rel (L P N : list Z) := RelQ L P N None.

(* ------------------------------------------------------------------ *)
(* output lines *)

Definition quiet (l : line) : Prop := forall c, pstep c (EOut l) = Some c.

Ltac quiet_tac :=
  intros [?m ?cs]; unfold pstep; cbn [fst snd]; cbn; unfold fd_step;
  match goal with |- context [f_dead ?cs] => destruct (f_dead cs) end; reflexivity.

Lemma quiet_hr : forall vals, quiet (obs "hr" vals).  Proof. intros; quiet_tac. Qed.
Lemma quiet_wdata : forall a, quiet (obs "wdata" a).  Proof. intros; quiet_tac. Qed.
Lemma quiet_acb : forall a, quiet (obs "acb" a).  Proof. intros; quiet_tac. Qed.
Lemma quiet_regcb : forall a, quiet (obs "regcb" a).  Proof. intros; quiet_tac. Qed.
Lemma quiet_exec : forall a, quiet (obs "exec" a).  Proof. intros; quiet_tac. Qed.
Lemma quiet_cb_udp : forall cid src, quiet (obs "cb" (ASym "udp" :: AInt cid :: src)).
Proof. intros; quiet_tac. Qed.

Lemma quiet_pending : forall cid fd n, quiet ("g", [ASym "pending"; AInt cid; AInt fd; AInt n]).
Proof. intros; quiet_tac. Qed.

Definition quiet_ghost (what : string) : Prop :=
  In what ["sub"; "hand"; "fail"; "del"; "udpconn"; "regcb"; "eagain"; "rearm-write"; "rearm-read"].

Lemma quiet_g : forall what cid bs, quiet_ghost what -> quiet ("g", [ASym what; AInt cid; ABytes bs]).
Proof.
  intros what cid bs H. unfold quiet_ghost in H. cbn [In] in H.
  repeat (destruct H as [<-|H]; [quiet_tac|]). tauto.
Qed.

Lemma pstep_cb_open : forall m cs cid, ph m cid = PNew ->
  pstep (m, cs) (EOut (obs "cb" [ASym "open"; AInt cid])) = Some (aset cid POpen m, cs).
Proof.
  intros m cs cid H. unfold pstep. cbn [fst snd]. cbn. unfold ph in H. rewrite H.
  unfold fd_step. destruct (f_dead cs); reflexivity.
Qed.

Lemma pstep_cb_traffic : forall m cs cid, ph m cid = POpen ->
  pstep (m, cs) (EOut (obs "cb" [ASym "traffic"; AInt cid])) = Some (m, cs).
Proof.
  intros m cs cid H. unfold pstep. cbn [fst snd]. cbn. unfold ph in H. rewrite H.
  unfold fd_step. destruct (f_dead cs); reflexivity.
Qed.

Lemma pstep_cb_close : forall m cs cid e, ph m cid = POpen ->
  pstep (m, cs) (EOut (obs "cb" [ASym "close"; AInt cid; e])) = Some (aset cid PClosed m, cs).
Proof.
  intros m cs cid e H. unfold pstep. cbn [fst snd]. cbn. unfold ph in H. rewrite H.
  unfold fd_step. destruct (f_dead cs); reflexivity.
Qed.

Lemma pstep_count : forall m cs n, n = count_open m ->
  pstep (m, cs) (EOut ("g", [ASym "count"; AInt n; ABytes []])) = Some (m, cs).
Proof.
  intros m cs n ->. unfold pstep. cbn [fst snd]. cbn. rewrite Z.eqb_refl.
  unfold fd_step. destruct (f_dead cs); reflexivity.
Qed.

Lemma count_step_sys : forall m a, count_step m (EOut (obs "sys" a)) = Some m.
Proof. reflexivity. Qed.

Lemma Led_set_last : forall L P q q' cs s, f_dead cs = false -> Led L P q cs s ->
  Led L P q' (mkFd (f_owned cs) (f_static cs) q') s.
Proof. intros L P q q' cs s Hd [H1 H2 H3 H4]. constructor; auto. Qed.

Definition sysname (name : string) : Prop :=
  In name ["write"; "read"; "wr"; "close"; "recvfrom"; "accept"].

Lemma FdR_sys : forall L P cs s name fd rest,
  sysname name -> FdR L P None cs s -> (Led L P None cs s -> owns cs fd = true) ->
  exists cs', fd_step_stale cs (EOut (obs "sys" (ASym name :: AInt fd :: rest))) = Some cs' /\
              FdR L P (Some (name, fd)) cs' s.
Proof.
  intros L P cs s name fd rest Hn HR Ho. unfold sysname in Hn. cbn [In] in Hn.
  destruct (f_dead cs) eqn:Hd.
  - exists cs. split; [|left; exact Hd].
    repeat (destruct Hn as [<-|Hn]; [cbn; unfold fd_step; rewrite Hd; reflexivity|]). tauto.
  - destruct HR as [HR|HR]; [congruence|]. specialize (Ho HR). unfold owns in Ho.
    exists (mkFd (f_owned cs) (f_static cs) (Some (name, fd))).
    split; [|right; eapply Led_set_last; eauto].
    repeat (destruct Hn as [<-|Hn]; [cbn; unfold fd_step; rewrite Hd; cbn; rewrite Ho; reflexivity|]).
    tauto.
Qed.

Lemma FdR_sendto : forall L P cs s fd d fl,
  FdR L P None cs s -> (Led L P None cs s -> owns cs fd = true) ->
  exists cs', fd_step_stale cs (EOut (obs "sys" [ASym "sendto"; AInt fd; ABytes d; fl])) = Some cs' /\
              FdR L P (Some ("sendto", fd)) cs' s.
Proof.
  intros L P cs s fd d fl HR Ho.
  destruct (f_dead cs) eqn:Hd.
  - cbn. destruct (f_last cs) as [[nm z]|].
    + destruct (sym_eqb nm "staleudp").
      * eexists. split; [reflexivity|]. left. exact Hd.
      * unfold fd_step. rewrite Hd. eexists. split; [reflexivity|]. left. exact Hd.
    + unfold fd_step. rewrite Hd. eexists. split; [reflexivity|]. left. exact Hd.
  - destruct HR as [HR|HR]; [congruence|]. specialize (Ho HR). unfold owns in Ho.
    exists (mkFd (f_owned cs) (f_static cs) (Some ("sendto", fd))).
    split; [|right; eapply Led_set_last; eauto].
    cbn. rewrite (l_last _ _ _ _ _ HR). unfold fd_step. rewrite Hd. cbn. rewrite Ho. reflexivity.
Qed.

(* AsyncWrite on a closed connected-UDP connection: marker, then an exempt sendto *)
Lemma FdR_staleudp : forall L P cs s cid fd d fl,
  FdR L P None cs s ->
  exists cs1 cs2,
    fd_step_stale cs (EOut ("g", [ASym "staleudp"; AInt cid; ABytes []])) = Some cs1 /\
    fd_step_stale cs1 (EOut (obs "sys" [ASym "sendto"; AInt fd; ABytes d; fl])) = Some cs2 /\
    FdR L P (Some ("sendto", fd)) cs2 s.
Proof.
  intros L P cs s cid fd d fl HR.
  eexists. eexists. split; [reflexivity|]. split; [cbn; reflexivity|].
  destruct HR as [HR|HR]; [left; cbn; exact HR|].
  destruct (f_dead cs) eqn:Hd; [left; reflexivity|]. right.
  destruct HR as [H1 H2 H3 H4]. constructor; auto.
Qed.

Lemma FdR_epctl : forall L P cs s op fd a b,
  In op ["add"; "mod"; "del"] ->
  FdR L P None cs s -> (op <> "del" -> Led L P None cs s -> owns cs fd = true) ->
  exists cs', fd_step_stale cs (EOut (obs "sys" [ASym "epctl"; ASym op; AInt fd; a; b])) = Some cs' /\
              FdR L P (Some ("epctl", fd)) cs' s.
Proof.
  intros L P cs s op fd a b Hop HR Ho. cbn [In] in Hop.
  destruct Hop as [<-|[<-|[<-|[]]]].
  - destruct (f_dead cs) eqn:Hd.
    + exists cs. split; [cbn; unfold fd_step; rewrite Hd; reflexivity|left; exact Hd].
    + destruct HR as [HR|HR]; [congruence|].
      assert (Ho' : owns cs fd = true) by (apply Ho; [congruence|exact HR]). unfold owns in Ho'.
      exists (mkFd (f_owned cs) (f_static cs) (Some ("epctl", fd))).
      split; [|right; eapply Led_set_last; eauto].
      cbn. unfold fd_step. rewrite Hd. cbn. rewrite Ho'. reflexivity.
  - destruct (f_dead cs) eqn:Hd.
    + exists cs. split; [cbn; unfold fd_step; rewrite Hd; reflexivity|left; exact Hd].
    + destruct HR as [HR|HR]; [congruence|].
      assert (Ho' : owns cs fd = true) by (apply Ho; [congruence|exact HR]). unfold owns in Ho'.
      exists (mkFd (f_owned cs) (f_static cs) (Some ("epctl", fd))).
      split; [|right; eapply Led_set_last; eauto].
      cbn. unfold fd_step. rewrite Hd. cbn. rewrite Ho'. reflexivity.
  - eexists. split; [reflexivity|].
    destruct HR as [HR|HR]; [left; cbn; exact HR|].
    destruct (f_dead cs) eqn:Hd; [left; reflexivity|]. right.
    destruct HR as [H1 H2 H3 H4]. constructor; auto.
Qed.
