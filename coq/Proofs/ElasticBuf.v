(* C10 proofs, part 3: every method of the mixed ring/linked-list buffer on the
   content  bcontent b = rcontent (ring part) ++ lcontent (list part). *)
From Coq Require Import Lia ZArith ZifyBool List Bool.
From GV Require Import Lib.Trace Spec.Fifo Proofs.FifoLemmas Model.Elastic Spec.ElasticSpec
  Proofs.ElasticRing Proofs.ElasticList.
From GV Require Model.Ring Model.LList Spec.LListSpec.
Import ListNotations.
Open Scope Z_scope.

(* ------------------------------------------------------------------ *)
(* small facts                                                         *)

Lemma ztake_ztake_app (n : Z) (a b : list Z) : ztake n (ztake n a ++ b) = ztake n (a ++ b).
Proof.
  destruct (Z_le_gt_dec n 0) as [Hn|Hn]; [rewrite !ztake_nonpos by lia; reflexivity|].
  destruct (Z_le_gt_dec (zlen a) n) as [Ha|Ha]; [rewrite (ztake_all n a) by lia; reflexivity|].
  rewrite !ztake_app_le by zl. rewrite ztake_ztake. f_equal. lia.
Qed.

Lemma slice_prefix (p : list Z) k : 0 <= k <= zlen p -> Ring.slice p 0 k = Ret (ztake k p).
Proof.
  intros H. unfold Ring.slice. replace ((0 <=? 0) && (0 <=? k) && (k <=? zlen p)) with true by lia.
  rewrite zdrop_nonpos by lia. rewrite Z.sub_0_r. reflexivity.
Qed.

Lemma slice_suffix (p : list Z) k : 0 <= k <= zlen p -> Ring.slice p k (zlen p) = Ret (zdrop k p).
Proof.
  intros H. unfold Ring.slice. replace ((0 <=? k) && (k <=? zlen p) && (zlen p <=? zlen p)) with true by lia.
  rewrite ztake_all by zl. reflexivity.
Qed.

Lemma Forall_skipn' {A} (P : A -> Prop) : forall k l, Forall P l -> Forall P (skipn k l).
Proof.
  induction k as [|k IH]; intros l H; cbn [skipn]; [exact H|].
  destruct l; [constructor|]. inversion H; subst. apply IH. assumption.
Qed.

Lemma to_list_false b : binv b -> to_list b = false ->
  lcontent (eb_list b) = [] /\ zlen (rcontent (eb_ring b)) < eb_max b.
Proof.
  intros (Hr & Hl) H. unfold to_list in H. apply orb_false_elim in H. destruct H as (H1 & H2).
  rewrite (L_IsEmpty _ Hl) in H1. apply negb_false_iff, fifo_is_empty_nil in H1.
  rewrite (RBuffered_ok _ Hr) in H2. split; [exact H1|lia].
Qed.

Lemma BBuffered_ok b : binv b -> BBuffered b = zlen (bcontent b).
Proof.
  intros (Hr & Hl). unfold BBuffered, bcontent. rewrite (RBuffered_ok _ Hr), (L_Buffered _ Hl), zlen_app. reflexivity.
Qed.

Lemma BIsEmpty_ok b : binv b -> BIsEmpty b = fifo_is_empty (bcontent b).
Proof.
  intros (Hr & Hl). unfold BIsEmpty, bcontent. rewrite (RIsEmpty_ok _ Hr), (L_IsEmpty _ Hl).
  destruct (rcontent (eb_ring b)); [cbn; reflexivity|reflexivity].
Qed.

(* ------------------------------------------------------------------ *)
(* Read                                                                *)

Lemma BRead_ok b n : binv b -> 0 <= n ->
  exists b' e, BRead b n = Ret (b', (ztake n (bcontent b), zlen (ztake n (bcontent b)), e)) /\
    binv b' /\ eb_max b' = eb_max b /\ bcontent b' = zdrop n (bcontent b) /\
    (0 < n <= zlen (bcontent b) -> e = XNil).
Proof.
  intros (Hr & Hl) Hn. destruct b as [m r l]. unfold bcontent, binv, BRead. cbn [eb_ring eb_list eb_max] in *.
  set (qr := rcontent r) in *. set (ql := lcontent l) in *.
  pose proof (zlen_nonneg qr) as Hqr. pose proof (zlen_nonneg ql) as Hql.
  destruct (RRead_ok r n Hr Hn) as (r' & er & H & Hr' & Hc & E1 & E2). fold qr in H, Hc, E1, E2.
  rewrite H. cbn [obind].
  assert (Hk : zlen (ztake n qr) = Z.min n (zlen qr)) by zl.
  destruct (Z.eqb_spec (zlen (ztake n qr)) n) as [Heq|Hne].
  - exists (mkB m r' l), er. cbn [eb_ring eb_list eb_max]. fold ql.
    rewrite ztake_app_le, zdrop_app_le by lia. rewrite Hc. splits; auto.
    intros Hpos. apply E1. intros Hq. assert (zlen qr = 0) by (rewrite Hq; reflexivity). lia.
  - replace ((0 <=? zlen (ztake n qr)) && (zlen (ztake n qr) <=? n)) with true by lia.
    assert (Hlt : zlen qr < n) by lia.
    destruct (L_Read l (n - zlen (ztake n qr))) as (bs & l' & le & HR & Hl' & Hbs & Hcl & Hle); [exact Hl|lia|].
    fold ql in HR, Hbs, Hcl, Hle. rewrite HR.
    exists (mkB m r' l'), (of_lerr le). cbn [eb_ring eb_list eb_max].
    rewrite Hbs, Hc, Hcl, Hk. replace (Z.min n (zlen qr)) with (zlen qr) by lia.
    rewrite (ztake_all n qr), (zdrop_all n qr) by lia.
    rewrite ztake_app_ge, zdrop_app_ge by lia. cbn [app].
    splits; auto.
    + rewrite !zlen_app. reflexivity.
    + rewrite zlen_app. intros Hpos. subst le. rewrite Hk.
      replace (zlen ql =? 0) with false by lia. rewrite andb_false_r. reflexivity.
Qed.

(* ------------------------------------------------------------------ *)
(* Peek                                                                *)

Lemma peek_rest_ok b n : binv b -> 0 < n -> (n = LList.MaxInt32 \/ n <= zlen (bcontent b)) ->
  exists segs, peek_rest b n = Ret (XNil, segs) /\ List.concat segs = ztake n (bcontent b).
Proof.
  intros (Hr & Hl) Hn Hcase. destruct b as [m r l]. unfold bcontent, peek_rest in *. cbn [eb_ring eb_list eb_max] in *.
  set (qr := rcontent r) in *. set (ql := lcontent l) in *.
  pose proof (zlen_nonneg qr) as Hqr. pose proof (zlen_nonneg ql) as Hql.
  destruct (RPeek_ok r n Hr) as (h & t & H & Hht). fold qr in Hht.
  replace (n <=? 0) with false in Hht by lia. rewrite H. cbn [obind].
  rewrite (RBuffered_ok r Hr). fold qr.
  destruct (Z.eqb_spec (zlen qr) n) as [Heq|Hne].
  - exists [h; t]. split; [reflexivity|]. cbn [List.concat]. rewrite app_nil_r, Hht.
    rewrite ztake_app_le by lia. reflexivity.
  - destruct (L_PeekWithBytes l n h t Hl) as (e & bss & HP & Hall & Hpre & _). fold ql in Hall, Hpre.
    rewrite HP. cbn [obind].
    assert (Hlen : zlen (h ++ t) = Z.min n (zlen qr)) by (rewrite Hht; zl).
    destruct (Z.eq_dec n LList.MaxInt32) as [HM|HM].
    + destruct Hall as (-> & Hc); [right; exact HM|]. exists (map (map unlit) bss). split; [reflexivity|].
      rewrite Hc, Hht, <- HM. apply ztake_ztake_app.
    + destruct Hcase as [Hc|Hc]; [contradiction|]. rewrite zlen_app in Hc.
      destruct Hpre as (-> & Hc'); [lia|exact HM|]. exists (map (map unlit) bss). split; [reflexivity|].
      rewrite Hc', Hht. apply ztake_ztake_app.
Qed.

Lemma BPeek_ok b n : binv b ->
  exists e segs, BPeek b n = Ret (e, segs) /\
    (n <= 0 \/ n = LList.MaxInt32 -> e = XNil /\ List.concat segs = ztake LList.MaxInt32 (bcontent b)) /\
    (0 < n <= zlen (bcontent b) -> n <> LList.MaxInt32 -> e = XNil /\ List.concat segs = ztake n (bcontent b)) /\
    (zlen (bcontent b) < n -> n <> LList.MaxInt32 -> e = XShortBuf /\ segs = []).
Proof.
  intros Hi. unfold BPeek. rewrite (BBuffered_ok b Hi). pose proof (zlen_nonneg (bcontent b)) as Hq.
  destruct ((n <=? 0) || (n =? LList.MaxInt32)) eqn:E.
  - destruct (peek_rest_ok b LList.MaxInt32 Hi) as (segs & H & Hc); [unfold LList.MaxInt32; lia|left; reflexivity|].
    exists XNil, segs. split; [exact H|]. splits; intros; try lia; split; auto.
  - destruct (n >? zlen (bcontent b)) eqn:E2.
    + exists XShortBuf, []. split; [reflexivity|]. splits; intros; try lia; split; auto.
    + destruct (peek_rest_ok b n Hi) as (segs & H & Hc); [lia|right; lia|].
      exists XNil, segs. split; [exact H|]. splits; intros; try lia; split; auto.
Qed.

(* ------------------------------------------------------------------ *)
(* Discard                                                             *)

Lemma BDiscard_ok b n : binv b ->
  exists b' e, BDiscard b n = Ret (b', (zlen (ztake n (bcontent b)), e)) /\
    binv b' /\ eb_max b' = eb_max b /\ bcontent b' = zdrop n (bcontent b) /\ (0 < n -> e = XNil).
Proof.
  intros (Hr & Hl). destruct b as [m r l]. unfold bcontent, binv, BDiscard. cbn [eb_ring eb_list eb_max] in *.
  set (qr := rcontent r) in *. set (ql := lcontent l) in *.
  pose proof (zlen_nonneg qr) as Hqr. pose proof (zlen_nonneg ql) as Hql.
  destruct (RDiscard_ok r n Hr) as (r' & er & H & Hr' & Hc & E1). fold qr in H, Hc, E1.
  rewrite H. cbn [obind].
  assert (Hk : zlen (ztake n qr) = Z.min (Z.max 0 n) (zlen qr)) by zl.
  destruct (Z.leb_spec n (zlen (ztake n qr))) as [Hle|Hgt].
  - exists (mkB m r' l), er. cbn [eb_ring eb_list eb_max]. fold ql.
    rewrite ztake_app_le, zdrop_app_le by lia. rewrite Hc. splits; auto.
    intros Hpos. apply E1. intros Hq. assert (zlen qr = 0) by (rewrite Hq; reflexivity). lia.
  - assert (Hlt : zlen qr < n) by lia.
    destruct (L_Discard l (n - zlen (ztake n qr)) Hl) as (l' & HD & Hl' & Hcl). fold ql in HD, Hcl.
    rewrite HD. exists (mkB m r' l'), XNil. cbn [eb_ring eb_list eb_max].
    rewrite Hc, Hcl, Hk. replace (Z.min (Z.max 0 n) (zlen qr)) with (zlen qr) by lia.
    rewrite (zdrop_all n qr) by lia. rewrite ztake_app_ge, zdrop_app_ge by lia. cbn [app].
    splits; auto. rewrite zlen_app. reflexivity.
Qed.

(* ------------------------------------------------------------------ *)
(* Write                                                               *)

Lemma BWrite_ok b c p : binv b -> 0 <= c -> zlen p <= max_len ->
  exists b', BWrite b c p = Ret (b', (zlen p, XNil)) /\ binv b' /\ eb_max b' = eb_max b /\
    bcontent b' = (bcontent b ++ p)%list /\
    (to_list b = true -> eb_ring b' = eb_ring b /\ lcontent (eb_list b') = (lcontent (eb_list b) ++ p)%list).
Proof.
  intros Hi Hc Hp. pose proof Hi as (Hr & Hl). unfold BWrite.
  destruct (to_list b) eqn:T.
  - destruct (L_PushBack (eb_list b) p Hl) as (Hl' & Hc'). eexists. split; [reflexivity|].
    unfold binv, bcontent. cbn [eb_ring eb_list eb_max]. rewrite Hc', app_assoc. splits; auto.
  - destruct (to_list_false b Hi T) as (Hql & Hlim). unfold bcontent. rewrite Hql, app_nil_r.
    pose proof (RAvailable_nonneg _ Hr) as Hav.
    destruct ((RLen (eb_ring b) >=? eb_max b) && (zlen p >? RAvailable (eb_ring b))) eqn:E.
    + assert (Hw : 0 <= RAvailable (eb_ring b) <= zlen p) by lia.
      rewrite slice_prefix by exact Hw. cbn [obind].
      destruct (RWrite_ok (eb_ring b) c (ztake (RAvailable (eb_ring b)) p) Hr Hc) as (r' & HW & Hr' & Hcr); [zl|].
      rewrite HW. cbn [obind]. rewrite slice_suffix by exact Hw. cbn [obind].
      destruct (L_PushBack (eb_list b) (zdrop (RAvailable (eb_ring b)) p) Hl) as (Hl' & Hc').
      eexists. split; [reflexivity|]. unfold binv. cbn [eb_ring eb_list eb_max].
      rewrite Hc', Hcr, Hql. cbn [app]. rewrite <- app_assoc, ztake_zdrop_id. splits; auto; try discriminate.
    + destruct (RWrite_ok (eb_ring b) c p Hr Hc Hp) as (r' & HW & Hr' & Hcr).
      rewrite HW. cbn [obind]. eexists. split; [reflexivity|]. unfold binv. cbn [eb_ring eb_list eb_max].
      rewrite Hql, app_nil_r. splits; auto; try discriminate.
Qed.

(* ------------------------------------------------------------------ *)
(* Writev                                                              *)

Lemma writev_loop_ok : forall bs r l c writable cum,
  ering_inv r -> linv l -> lcontent l = [] -> 0 <= c -> 0 <= writable ->
  Forall (fun x => zlen x <= max_len) bs ->
  exists r' l', writev_loop bs r l c writable cum = Ret (r', l', cum + zlen (List.concat bs)) /\
    ering_inv r' /\ linv l' /\
    (rcontent r' ++ lcontent l' = rcontent r ++ List.concat bs)%list.
Proof.
  induction bs as [|x rest IH]; intros r l c writable cum Hr Hl Hql Hc Hw Hwf; cbn [writev_loop List.concat].
  - exists r, l. rewrite zlen_nil, Z.add_0_r, Hql. auto.
  - inversion Hwf as [|? ? Hx Hrest]; subst. pose proof (zlen_nonneg x) as Hxn.
    destruct (zlen x >? writable) eqn:E.
    + assert (Hww : 0 <= writable <= zlen x) by lia.
      rewrite slice_prefix by exact Hww. cbn [obind].
      destruct (RWrite_ok r c (ztake writable x) Hr Hc) as (r' & HW & Hr' & Hcr); [zl|].
      rewrite HW. cbn [obind]. rewrite slice_suffix by exact Hww. cbn [obind].
      destruct (L_PushBack l (zdrop writable x) Hl) as (Hl1 & Hc1).
      destruct (push_all_ok rest _ Hl1) as (Hl2 & Hc2).
      eexists _, _. split; [|splits; [exact Hr'|exact Hl2|]].
      * rewrite total_len_ok, zlen_app. do 2 f_equal. lia.
      * rewrite Hc2, Hc1, Hcr, Hql. cbn [app]. rewrite <- !app_assoc. f_equal.
        rewrite app_assoc, ztake_zdrop_id. reflexivity.
    + destruct (RWrite_ok r c x Hr Hc Hx) as (r' & HW & Hr' & Hcr).
      rewrite HW. cbn [obind].
      destruct (IH r' l c (writable - zlen x) (cum + zlen x) Hr' Hl Hql Hc) as (r2 & l2 & HL & Hr2 & Hl2 & Hc2); [lia|exact Hrest|].
      rewrite HL. exists r2, l2. splits; auto.
      * rewrite zlen_app. do 2 f_equal. lia.
      * rewrite Hc2, Hcr, <- app_assoc. reflexivity.
Qed.

Lemma BWritev_ok b c bs : binv b -> 0 <= c -> Forall (fun x => zlen x <= max_len) bs ->
  exists b', BWritev b c bs = Ret (b', (zlen (List.concat bs), XNil)) /\ binv b' /\ eb_max b' = eb_max b /\
    bcontent b' = (bcontent b ++ List.concat bs)%list /\
    (to_list b = true -> eb_ring b' = eb_ring b /\
       lcontent (eb_list b') = (lcontent (eb_list b) ++ List.concat bs)%list).
Proof.
  intros Hi Hc Hwf. pose proof Hi as (Hr & Hl). unfold BWritev.
  destruct (to_list b) eqn:T.
  - destruct (push_all_ok bs (eb_list b) Hl) as (Hl' & Hc'). eexists. split; [rewrite total_len_ok; reflexivity|].
    unfold binv, bcontent. cbn [eb_ring eb_list eb_max]. rewrite Hc', app_assoc. splits; auto.
  - destruct (to_list_false b Hi T) as (Hql & Hlim). unfold bcontent. rewrite Hql, app_nil_r.
    pose proof (RAvailable_nonneg _ Hr) as Hav. pose proof (RBuffered_ok _ Hr) as Hbu.
    set (writable := if RLen (eb_ring b) <? eb_max b then eb_max b - RBuffered (eb_ring b) else RAvailable (eb_ring b)).
    assert (Hw : 0 <= writable) by (subst writable; destruct (RLen (eb_ring b) <? eb_max b); lia).
    destruct (writev_loop_ok bs (eb_ring b) (eb_list b) c writable 0 Hr Hl Hql Hc Hw Hwf)
      as (r' & l' & HL & Hr' & Hl' & Hcc).
    rewrite HL. cbn [obind]. eexists. split; [rewrite Z.add_0_l; reflexivity|].
    unfold binv. cbn [eb_ring eb_list eb_max]. splits; auto; try discriminate.
Qed.

(* ------------------------------------------------------------------ *)
(* ReadFrom                                                            *)

Lemma BReadFrom_ok b c src sc : binv b -> 0 <= c -> script_ok sc ->
  exists b' k e, BReadFrom b c src sc = Ret (b', (k, e, zlen src - k)) /\ binv b' /\ eb_max b' = eb_max b /\
    0 <= k <= zlen src /\ bcontent b' = (bcontent b ++ ztake k src)%list /\
    (to_list b = true -> eb_ring b' = eb_ring b /\
       lcontent (eb_list b') = (lcontent (eb_list b) ++ ztake k src)%list).
Proof.
  intros Hi Hc Hsc. pose proof Hi as (Hr & Hl). unfold BReadFrom.
  destruct (to_list b) eqn:T.
  - destruct (L_ReadFrom (eb_list b) src (lscript_of sc) Hl (lscript_ok sc Hsc)) as (l' & k & e & HR & Hl' & Hk & Hcl).
    rewrite HR. exists (mkB (eb_max b) (eb_ring b) l'), k, (of_lerr e). split; [reflexivity|].
    unfold binv, bcontent. cbn [eb_ring eb_list eb_max]. rewrite Hcl, app_assoc. splits; auto; lia.
  - destruct (to_list_false b Hi T) as (Hql & Hlim). unfold bcontent. rewrite Hql, app_nil_r.
    destruct (RReadFrom_ok (eb_ring b) c src sc Hr Hc) as (r' & o & k & HR & Hr' & Hk & Hn & Hs & Hcr).
    rewrite HR. cbn [obind]. exists (mkB (eb_max b) r' (eb_list b)), k, (of_rerr (Ring.rf_err o)).
    rewrite Hn, Hs. split; [reflexivity|]. unfold binv. cbn [eb_ring eb_list eb_max].
    rewrite Hql, app_nil_r. splits; auto; try lia; try discriminate.
Qed.

(* ------------------------------------------------------------------ *)
(* WriteTo                                                             *)

Lemma BWriteTo_ok b sc : binv b -> script_ok sc ->
  exists b' n e, BWriteTo b sc = Ret (b', (n, e, ztake n (bcontent b))) /\ binv b' /\ eb_max b' = eb_max b /\
    bcontent b' = zdrop n (bcontent b) /\ 0 <= n <= zlen (bcontent b) /\ (e = XNil -> bcontent b' = []).
Proof.
  intros (Hr & Hl) Hsc. destruct b as [m r l]. unfold bcontent, binv, BWriteTo. cbn [eb_ring eb_list eb_max] in *.
  set (qr := rcontent r) in *. set (ql := lcontent l) in *.
  pose proof (zlen_nonneg qr) as Hqr. pose proof (zlen_nonneg ql) as Hql.
  (* the ring part: either skipped (empty) or written first *)
  assert (Hring : exists r' o,
    (if negb (RIsEmpty r) then RWriteTo r sc else Ret (r, Ring.mkWtOut 0 Ring.ENil [])) = Ret (r', o) /\
    ering_inv r' /\ Ring.wt_recv o = ztake (Ring.wt_n o) qr /\ rcontent r' = zdrop (Ring.wt_n o) qr /\
    0 <= Ring.wt_n o <= zlen qr /\ (Ring.wt_err o = Ring.ENil -> rcontent r' = [])).
  { rewrite (RIsEmpty_ok r Hr). fold qr. destruct (fifo_is_empty qr) eqn:E; cbn [negb].
    - apply fifo_is_empty_nil in E. exists r, (Ring.mkWtOut 0 Ring.ENil []). cbn [Ring.wt_n Ring.wt_recv Ring.wt_err].
      fold qr. rewrite E. cbn. splits; auto; lia.
    - destruct (RWriteTo_ok r sc Hr) as (r' & o & H & Hr' & H1 & H2 & H3 & H4 & _). fold qr in H1, H2, H3.
      exists r', o. splits; auto; lia. }
  destruct Hring as (r' & o & H & Hr' & H1 & H2 & H3 & H4). rewrite H. cbn [obind].
  destruct (Ring.is_nil (Ring.wt_err o)) eqn:En; cbn [negb].
  - (* the ring part is flushed: go on with the list part *)
    assert (He : Ring.wt_err o = Ring.ENil) by (destruct (Ring.wt_err o); cbn in En; congruence).
    specialize (H4 He). assert (Hn : Ring.wt_n o = zlen qr).
    { rewrite H2 in H4. assert (zlen (zdrop (Ring.wt_n o) qr) = 0) by (rewrite H4; reflexivity). zlen_norm_in H0. lia. }
    assert (Hsc' : LListSpec.script_ok (lscript_of (skipn (ring_wt_calls r sc) sc))).
    { apply lscript_ok. apply Forall_skipn'. exact Hsc. }
    destruct (L_WriteTo l _ Hl Hsc') as (l' & k & e & bs & HW & Hl' & Hbs & Hcl & Hk & Hek). fold ql in Hbs, Hcl, Hk, Hek.
    rewrite HW. exists (mkB m r' l'), (Ring.wt_n o + k), (of_lerr e). cbn [eb_ring eb_list eb_max].
    rewrite H1, Hbs, H4, Hcl, Hn. rewrite (ztake_all (zlen qr) qr) by lia.
    rewrite ztake_app_ge, zdrop_app_ge by lia. replace (zlen qr + k - zlen qr) with k by lia. cbn [app].
    splits; auto; try lia; try (rewrite zlen_app; lia).
    intros Hx. apply of_lerr_nil in Hx. rewrite (Hek Hx). apply zdrop_all. lia.
  - exists (mkB m r' l), (Ring.wt_n o), (of_rerr (Ring.wt_err o)). cbn [eb_ring eb_list eb_max]. fold ql.
    rewrite H1, H2. rewrite ztake_app_le, zdrop_app_le by lia. splits; auto; try lia; try (rewrite zlen_app; lia).
    intros Hx. apply of_rerr_nil in Hx. rewrite Hx in En. discriminate.
Qed.

(* ------------------------------------------------------------------ *)
(* Reset / Release                                                     *)

Lemma BReset_ok b m : binv b -> binv (BReset b m) /\ bcontent (BReset b m) = [].
Proof.
  intros (Hr & Hl). destruct (RReset_ok _ Hr) as (Hr' & Hc). destruct (L_Reset (eb_list b)) as (Hl' & Hcl).
  unfold binv, bcontent, BReset. cbn [eb_ring eb_list]. rewrite Hc, Hcl. auto.
Qed.

Lemma BRelease_ok b : binv b -> binv (BRelease b) /\ bcontent (BRelease b) = [].
Proof.
  intros (Hr & Hl). destruct (L_Reset (eb_list b)) as (Hl' & Hcl).
  unfold binv, bcontent, BRelease. cbn [eb_ring eb_list RDone ering_inv rcontent]. rewrite Hcl. auto.
Qed.
