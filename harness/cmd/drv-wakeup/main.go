// drv-wakeup drives the wake-up protocol of pkg/netpoll's epoll poller (C03):
// the REAL Trigger and Polling of the current tree (sync/atomic swapped for
// pkg/vatomic in the poller file and in lock_free_queue.go, x/sys/unix swapped
// for pkg/vunix in the poller file; poll_opt build: SYS_EPOLL_WAIT routed
// through pkg/vsys) with every goroutine managed by pkg/vsched, and writes the
// trace consumed by the extracted model (family "wakeup").
//
// Threads: 0 is the event loop running Polling; 1.. are producers calling
// Trigger.  Under vsched epoll_wait never blocks: the shim always polls with
// timeout 0; a -1 wait that finds nothing returns 0 events (Polling treats
// that like a timeout and waits again), and the generator does not schedule
// the loop again until some thread wrote the eventfd (or an I/O source fired).
//
// op lines (inputs; the schedule is an input):
//
//	cfg <thr> <max>                    threshold (set through the export file) and MaxAsyncTasksAtOneTime (read from the code)
//	script <k> (<high> <kind> <conn> <cb> <script>)*   define script k: the Trigger calls a body makes
//	io <k> <script>                    I/O source k becomes ready; its callback runs <script>
//	preload <v>                        the harness adds v to the eventfd
//	start <tid> <high> <kind> <conn> <cb> <script>     producer tid calls Trigger; runs to its first scheduling point
//	call <tid> <high> <kind> <conn> <cb> <script>      unmanaged complete Trigger call (no interleaving, no obs)
//	step <tid> [order...]              grant one scheduling point that the model sees (for epoll_wait: delivered events, -1 = eventfd)
//	tau <tid>                          grant one atomic operation inside Enqueue/Dequeue that is not a linearization point
//	fault <tid>                        grant the eventfd write and make it fail with EBADF
//	check                              unmanaged reads + the direct oracle
//	stress <g> <n> <seed>              unmanaged run with real goroutines (oracle only)
//
// kind: 0 plain, 1 wake(conn), 2 close(conn).
//
// obs lines (predicted by the model):
//
//	begin <tid> <id> | ret <tid> nil|err
//	ld <tid> U|L <v> | add <tid> U|L <d> <v> | link <tid> U|L <id> | unlink 0 U|L | empty 0 U|L
//	cas <tid> 0 1 <ok> | st 0 0 | write <tid> ok|eagain|err | read <tid> <v|-1> | wait <msec> [events...]
//	iocb <k> | exec <id> | traffic <conn> | cb <id> | stuck <tid>
//	check <quiescent> <executed> <lenU> <lenL> <flag>
package main

import (
	"encoding/binary"
	"flag"
	"fmt"
	"os"
	"sort"
	"strconv"
	"sync"
	"sync/atomic"
	"time"
	"unsafe"

	"golang.org/x/sys/unix"

	errorx "github.com/panjf2000/gnet/v2/pkg/errors"
	"github.com/panjf2000/gnet/v2/pkg/logging"
	"github.com/panjf2000/gnet/v2/pkg/netpoll"
	"github.com/panjf2000/gnet/v2/pkg/queue"
	"github.com/panjf2000/gnet/v2/pkg/vsched"
	"github.com/panjf2000/gnet/v2/pkg/vunix"

	"verifharness/tr"
)

const fam = "wakeup"

type nopLogger struct{}

func (nopLogger) Debugf(string, ...any) {}
func (nopLogger) Infof(string, ...any)  {}
func (nopLogger) Warnf(string, ...any)  {}
func (nopLogger) Errorf(string, ...any) {}
func (nopLogger) Fatalf(string, ...any) {}

type spec struct {
	high   bool
	kind   int
	conn   int
	cb     bool
	script int
}

func (s spec) args() []string {
	return []string{tr.B(s.high), tr.I(s.kind), tr.I(s.conn), tr.B(s.cb), tr.I(s.script)}
}

func parseSpec(a []string) (spec, bool) {
	if len(a) < 5 {
		return spec{}, false
	}
	v := make([]int, 5)
	for i := 0; i < 5; i++ {
		x, err := strconv.Atoi(a[i])
		if err != nil {
			return spec{}, false
		}
		v[i] = x
	}
	if v[4] < 0 {
		v[4] = 0
	}
	return spec{high: v[0] != 0, kind: v[1], conn: v[2], cb: v[3] != 0, script: v[4]}, true
}

type qaddr struct {
	head, tail unsafe.Pointer
	length     unsafe.Pointer
}

// request bookkeeping for the direct oracle
type req struct {
	id    int
	prod  int
	sp    spec
	ret   bool
	ok    bool
	execs int
	cbs   int
	traf  int
	open  bool // for wake: was the connection open when the task ran
}

// drv is one case: one real poller, one scheduler.
type drv struct {
	w   *tr.Writer
	p   *netpoll.Poller
	s   *vsched.Sched
	efd int

	flagA  unsafe.Pointer
	flagP  *int32
	qa     [2]qaddr // 0 = U, 1 = L
	queues [2]queue.AsyncTaskQueue

	scripts map[int][]spec
	ioFd    map[int]int // source -> eventfd
	ioSrc   map[int]int // fd -> source
	ioScr   map[int]int // source -> script of the pending event
	ioDeliv map[int]int // source -> script of the delivered event
	ioPend  map[int]bool
	closed  map[int]bool

	busy    map[int]bool
	spawned map[int]bool
	cur     map[int]int // tid -> id of the Trigger in flight
	curq    map[int]int // tid -> queue last touched through head/tail/len
	dseq    map[int]int // tid -> progress of the load sequence head, tail of Dequeue

	atWait   bool
	waitMsec int
	lastWait []int // events delivered by the last epoll_wait (-1 = eventfd)
	lastN    int
	lastMs   int

	shadowReady bool // an eventfd write since the last epoll_wait (and no read since)
	confirmed   bool // the loop's last step was a -1 wait that found nothing, and nothing happened since
	faultNext   bool
	faulted     bool // a fault was injected in this case: outside the property
	injected    bool

	terminating int32
	mute        bool
	stepBuf     []tr.Line

	nextID int
	reqs   []*req
	order  []int // executed ids in order
	thr    int32
	steps  int

	loopStreak int // consecutive scheduling points granted to the loop
}

var (
	ioFds   []int // I/O eventfds are reused across cases (drained by re-creation when needed)
	theDrv  atomic.Value
	hookSet bool
)

func current() *drv {
	if v := theDrv.Load(); v != nil {
		return v.(*drv)
	}
	return nil
}

func newDrv(w *tr.Writer) *drv {
	d := &drv{w: w, s: vsched.New(), scripts: map[int][]spec{}, ioFd: map[int]int{}, ioSrc: map[int]int{},
		ioScr: map[int]int{}, ioDeliv: map[int]int{}, ioPend: map[int]bool{}, closed: map[int]bool{}, busy: map[int]bool{},
		spawned: map[int]bool{}, cur: map[int]int{}, curq: map[int]int{}, dseq: map[int]int{}}
	p, err := netpoll.OpenPoller()
	if err != nil {
		panic("OpenPoller: " + err.Error())
	}
	d.p = p
	d.efd = netpoll.VerifEfd(p)
	var u, l queue.AsyncTaskQueue
	d.flagP, u, l, _ = netpoll.VerifWakeLayout(p)
	d.flagA = unsafe.Pointer(d.flagP)
	d.queues = [2]queue.AsyncTaskQueue{u, l}
	for i, q := range d.queues {
		h, t, ln, _, ok := queue.VerifLFQLayout(q)
		if !ok {
			panic("not a lock-free queue")
		}
		d.qa[i] = qaddr{unsafe.Pointer(h), unsafe.Pointer(t), unsafe.Pointer(ln)}
	}
	d.thr = netpoll.VerifThreshold(p)
	theDrv.Store(d)
	installHooks()
	// the loop: runs up to its first epoll_wait
	d.s.Spawn(0)
	d.spawned[0] = true
	d.s.Start(0, func() { _ = runPolling(d) })
	d.busy[0] = true
	return d
}

// ---------------------------------------------------------------- events emitted by the code under test

func (d *drv) emit(l tr.Line) {
	if d.mute {
		return
	}
	d.stepBuf = append(d.stepBuf, l)
}

// trigger is one request: what AsyncWrite / Wake / Close / Execute ... do.
func (d *drv) trigger(tid int, sp spec) {
	id := d.nextID
	d.nextID++
	r := &req{id: id, prod: tid, sp: sp}
	d.reqs = append(d.reqs, r)
	d.cur[tid] = id
	d.emit(tr.L("begin", tr.I(tid), tr.I(id)))
	prio := queue.LowPriority
	if sp.high {
		prio = queue.HighPriority
	}
	err := d.p.Trigger(prio, d.body(r), nil)
	r.ret, r.ok = true, err == nil
	if err == nil {
		d.emit(tr.L("ret", tr.I(tid), "nil"))
	} else {
		d.emit(tr.L("ret", tr.I(tid), "err"))
	}
}

func (d *drv) body(r *req) queue.Func {
	return func(any) error {
		r.execs++
		d.order = append(d.order, r.id)
		d.emit(tr.L("exec", tr.I(r.id)))
		switch r.sp.kind {
		case 1: // el.wake: stale connections are ignored, otherwise exactly one OnTraffic
			r.open = !d.closed[r.sp.conn]
			if r.open {
				r.traf++
				d.emit(tr.L("traffic", tr.I(r.sp.conn)))
			}
		case 2:
			d.closed[r.sp.conn] = true
		}
		if r.sp.cb {
			r.cbs++
			d.emit(tr.L("cb", tr.I(r.id)))
		}
		d.runScript(r.sp.script)
		return nil
	}
}

func (d *drv) runScript(k int) {
	sc := d.scripts[k]
	if len(sc) > 0 {
		d.w.Tag("nested-trigger")
	}
	for _, sp := range sc {
		d.trigger(0, sp)
	}
}

// ioCallback is the PollEventHandler of the I/O sources.
func (d *drv) ioCallback(fd int) error {
	k, ok := d.ioSrc[fd]
	if !ok {
		return nil
	}
	d.emit(tr.L("iocb", tr.I(k)))
	d.runScript(d.ioDeliv[k])
	return nil
}

// ---------------------------------------------------------------- system-call shims

type hooks struct{}

func installHooks() {
	if hookSet {
		return
	}
	hookSet = true
	vunix.SetHooks(hooks{})
	installWaitHook()
}

func removeHooks() {
	hookSet = false
	vunix.SetHooks(nil)
	removeWaitHook()
}

func (hooks) Before(c *vunix.Call) {
	d := current()
	if d == nil {
		return
	}
	switch c.Name {
	case "epoll_wait":
		c.Skip = true
		c.Ret, c.Err = d.waitCommon(c.Arg,
			func(ms int) (int, error) { return unix.EpollWait(c.Fd, c.EvList, ms) },
			func(n int) []int {
				var fds []int
				for i := 0; i < n && i < len(c.EvList); i++ {
					fds = append(fds, int(c.EvList[i].Fd))
				}
				return fds
			})
	case "write", "read":
		if c.Fd != d.efd {
			return
		}
		if g := vsched.Current(); g != nil {
			g.Enter()
			if c.Name == "write" && d.faultNext && atomic.LoadInt32(&d.terminating) == 0 {
				d.faultNext, d.injected = false, true
				c.Skip, c.Ret, c.Err = true, -1, unix.EBADF
			}
		}
	}
}

func (hooks) After(c *vunix.Call) {
	d := current()
	if d == nil || (c.Name != "write" && c.Name != "read") || c.Fd != d.efd {
		return
	}
	res := "ok"
	switch {
	case c.Err == unix.EAGAIN:
		res = "eagain"
	case c.Err != nil:
		res = "err"
	}
	var val int64 = -1
	if c.Name == "read" && c.Err == nil && len(c.Buf) >= 8 {
		val = int64(binary.LittleEndian.Uint64(c.Buf))
	}
	if res == "ok" {
		d.shadowReady = c.Name == "write"
	}
	if g := vsched.Current(); g != nil {
		g.Exit(vsched.Event{Op: c.Name, Val: val, Aux: []string{res}})
	}
}

// waitCommon runs on the goroutine that calls epoll_wait.
func (d *drv) waitCommon(msec int, real func(int) (int, error), fds func(int) []int) (int, error) {
	g := vsched.Current()
	if g == nil {
		if atomic.LoadInt32(&d.terminating) != 0 {
			return -1, unix.EBADF
		}
		return real(msec)
	}
	d.atWait, d.waitMsec = true, msec
	g.Enter()
	d.atWait = false
	if atomic.LoadInt32(&d.terminating) != 0 {
		return -1, unix.EBADF
	}
	n, err := real(0)
	d.lastMs, d.lastN = msec, n
	d.lastWait = d.lastWait[:0]
	for _, fd := range fds(n) {
		if fd == d.efd {
			d.lastWait = append(d.lastWait, -1)
		} else if k, ok := d.ioSrc[fd]; ok {
			d.lastWait = append(d.lastWait, k)
			d.ioDeliv[k] = d.ioScr[k]
			delete(d.ioPend, k)
		} else {
			d.lastWait = append(d.lastWait, 1000+fd)
		}
	}
	d.shadowReady = false
	g.Exit(vsched.Event{Op: "epoll_wait", Val: int64(n)})
	return n, err
}

// ---------------------------------------------------------------- classification of atomic operations

func (d *drv) queueOf(a unsafe.Pointer) (q int, what string) {
	for i := range d.qa {
		switch a {
		case d.qa[i].head:
			return i, "head"
		case d.qa[i].tail:
			return i, "tail"
		case d.qa[i].length:
			return i, "len"
		}
	}
	return -1, ""
}

var qname = [2]string{"U", "L"}

// classify maps one granted scheduling point to the model's vocabulary:
// visible=false means an operation inside Enqueue/Dequeue that is not a
// linearization point.
func (d *drv) classify(tid int, ev vsched.Event) (visible bool, obs tr.Line, order []string) {
	seq := d.dseq[tid]
	d.dseq[tid] = 0
	switch ev.Op {
	case "epoll_wait":
		for _, k := range d.lastWait {
			order = append(order, tr.I(k))
		}
		return true, tr.L("wait", append([]string{tr.I(d.lastMs)}, order...)...), order
	case "write":
		return true, tr.L("write", tr.I(tid), ev.Aux[0]), nil
	case "read":
		if ev.Aux[0] != "ok" {
			return true, tr.L("read", tr.I(tid), "-1"), nil
		}
		return true, tr.L("read", tr.I(tid), tr.U64(uint64(ev.Val))), nil
	}
	if ev.Addr == d.flagA {
		switch ev.Op {
		case "cas":
			return true, tr.L("cas", tr.I(tid), tr.I64(ev.Old), tr.I64(ev.New), tr.B(ev.Ok)), nil
		case "st":
			return true, tr.L("st", tr.I(tid), tr.I64(ev.New)), nil
		}
		return true, tr.L("other", tr.I(tid), ev.Op, "flag"), nil
	}
	q, what := d.queueOf(ev.Addr)
	if q >= 0 {
		d.curq[tid] = q
		switch {
		case what == "len" && ev.Op == "ld":
			return true, tr.L("ld", tr.I(tid), qname[q], tr.I64(ev.Val)), nil
		case what == "len" && ev.Op == "add":
			if ev.Val < 0 {
				d.w.Tag("len-negative")
			}
			return true, tr.L("add", tr.I(tid), qname[q], tr.I64(ev.New), tr.I64(ev.Val)), nil
		case what == "head" && ev.Op == "ld":
			d.dseq[tid] = 1
			return false, tr.Line{}, nil
		case what == "tail" && ev.Op == "ld":
			if seq == 1 {
				d.dseq[tid] = 2
			}
			return false, tr.Line{}, nil
		case what == "head" && ev.Op == "cas":
			if ev.Ok {
				return true, tr.L("unlink", tr.I(tid), qname[q]), nil
			}
			return false, tr.Line{}, nil
		case what == "tail" && ev.Op == "cas":
			return false, tr.Line{}, nil
		}
		return true, tr.L("other", tr.I(tid), ev.Op, what), nil
	}
	if ev.Typ == "ptr" { // a node's next field
		q = d.curq[tid]
		switch ev.Op {
		case "ld":
			if seq == 2 && ev.ValP == nil { // head.next == nil after head, tail were read: Dequeue returns nil
				return true, tr.L("empty", tr.I(tid), qname[q]), nil
			}
			return false, tr.Line{}, nil
		case "cas":
			if ev.Ok && ev.OldP == nil {
				return true, tr.L("link", tr.I(tid), qname[q], tr.I(d.cur[tid])), nil
			}
			return false, tr.Line{}, nil
		}
	}
	return true, tr.L("other", tr.I(tid), ev.Op, ev.Typ), nil
}

// ---------------------------------------------------------------- interpreter

func (d *drv) flush() {
	for _, l := range d.stepBuf {
		d.w.Obs(l)
	}
	d.stepBuf = d.stepBuf[:0]
}

func (d *drv) producersIdle() bool {
	for t, b := range d.busy {
		if t != 0 && b {
			return false
		}
	}
	return true
}

// loopEnabled: false when the loop sits in a -1 wait with nothing to report.
func (d *drv) loopEnabled() bool {
	if d.atWait && d.waitMsec < 0 && !d.shadowReady && len(d.ioPend) == 0 {
		return false
	}
	return true
}

func (d *drv) quietShadow() bool {
	return d.producersIdle() && d.atWait && !d.shadowReady && len(d.ioPend) == 0
}

// grant gives tid one scheduling point and writes the op line (as classified) and its obs lines.
func (d *drv) grant(tid int, fault bool) (visible bool) {
	w := d.w
	if !d.busy[tid] {
		w.Op(tr.L("step", tr.I(tid)))
		w.Obs(tr.L("stuck", tr.I(tid)))
		return true
	}
	d.stepBuf = d.stepBuf[:0]
	d.faultNext, d.injected, d.confirmed = fault, false, false
	d.steps++
	if tid == 0 {
		d.loopStreak++
	} else {
		d.loopStreak = 0
	}
	ev, done, ok := d.s.Step(tid)
	d.faultNext = false
	if !ok || d.s.Hung {
		w.Op(tr.L("step", tr.I(tid)))
		w.Obs(tr.L("hung", tr.I(tid)))
		w.Fail("driver", "hung", "managed goroutine did not reach a scheduling point")
		d.busy[tid] = false
		return true
	}
	vis, o, order := d.classify(tid, ev)
	switch {
	case d.injected:
		d.faulted = true
		w.Op(tr.L("fault", tr.I(tid)))
	case vis:
		w.Op(tr.L("step", append([]string{tr.I(tid)}, order...)...))
	default:
		w.Op(tr.L("tau", tr.I(tid)))
	}
	if vis {
		w.Obs(o)
		d.tags(tid, o)
	}
	d.flush()
	if tid == 0 && ev.Op == "epoll_wait" && d.lastMs < 0 && d.lastN == 0 {
		d.confirmed = true
	}
	if done {
		d.busy[tid] = false
		if tid == 0 {
			w.Fail("Polling", "returned", "Polling returned while the engine keeps running")
		}
		if p, msg := d.s.Panicked(tid); p {
			w.Obs(tr.L("panic", tr.I(tid)))
			w.Fail("Poller", "panic", msg)
		}
	}
	return vis
}

func (d *drv) tags(tid int, o tr.Line) {
	w := d.w
	switch o.Name {
	case "cas":
		if tid == 0 && !d.loopInTrigger() {
			w.Tag("recheck-cas")
		}
		if o.Args[len(o.Args)-1] == "0" {
			w.Tag("cas-lost")
		}
	case "write":
		if o.Args[1] == "eagain" {
			w.Tag("eagain")
		}
		if tid == 0 && !d.loopInTrigger() {
			w.Tag("recheck-write")
		}
	case "link":
		if o.Args[1] == "L" {
			w.Tag("low-queue")
		}
	case "wait":
		if len(o.Args) > 2 {
			w.Tag("batch-mixed")
		}
		if len(o.Args) == 1 && o.Args[0] == "-1" {
			w.Tag("blocked")
		}
	}
}

// loopInTrigger: is the loop thread inside a Trigger call (re-entrancy)?
func (d *drv) loopInTrigger() bool {
	id, ok := d.cur[0]
	return ok && id < len(d.reqs) && !d.reqs[id].ret
}

func (d *drv) exec(op tr.Line) {
	w := d.w
	if op.Name != "check" {
		d.confirmed = false
	}
	switch op.Name {
	case "cfg":
		if len(op.Args) < 1 {
			w.Op(op)
			w.Obs(tr.L("unknown"))
			return
		}
		d.thr = int32(op.Int(0))
		netpoll.VerifSetThreshold(d.p, d.thr)
		w.Op(tr.L("cfg", tr.I(int(d.thr)), tr.I(netpoll.MaxAsyncTasksAtOneTime)))
	case "script":
		w.Op(op)
		if len(op.Args) < 1 {
			w.Obs(tr.L("unknown"))
			return
		}
		var sc []spec
		for a := op.Args[1:]; len(a) >= 5; a = a[5:] {
			sp, ok := parseSpec(a)
			if !ok {
				break
			}
			sc = append(sc, sp)
		}
		d.scripts[op.Int(0)] = sc
	case "io":
		w.Op(op)
		if len(op.Args) < 2 {
			w.Obs(tr.L("unknown"))
			return
		}
		k, sc := op.Int(0), op.Int(1)
		if k < 0 || k > 7 || d.ioPend[k] {
			return // the model ignores it as well
		}
		if sc < 0 {
			sc = 0
		}
		fd, ok := d.ioFd[k]
		if !ok {
			var err error
			fd, err = unix.Eventfd(0, unix.EFD_NONBLOCK|unix.EFD_CLOEXEC)
			if err != nil {
				panic(err)
			}
			d.ioFd[k], d.ioSrc[fd] = fd, k
			if err = addIO(d, fd); err != nil {
				panic(err)
			}
		}
		d.ioScr[k], d.ioPend[k] = sc, true
		var b [8]byte
		binary.LittleEndian.PutUint64(b[:], 1)
		if _, err := unix.Write(fd, b[:]); err != nil {
			panic(err)
		}
		w.Tag("io-event")
	case "preload":
		w.Op(op)
		if len(op.Args) < 1 {
			w.Obs(tr.L("unknown"))
			return
		}
		v, err := strconv.ParseUint(op.Args[0], 10, 64)
		if err != nil || v == 0 {
			return
		}
		var b [8]byte
		binary.LittleEndian.PutUint64(b[:], v)
		if _, err := unix.Write(d.efd, b[:]); err == nil {
			d.shadowReady = true
		}
	case "start", "call":
		w.Op(op)
		if len(op.Args) < 6 {
			w.Obs(tr.L("unknown"))
			return
		}
		tid := op.Int(0)
		sp, ok := parseSpec(op.Args[1:])
		if !ok {
			w.Obs(tr.L("unknown"))
			return
		}
		if tid <= 0 || d.busy[tid] {
			w.Obs(tr.L("stuck", tr.I(tid)))
			return
		}
		if op.Name == "call" {
			d.mute = true
			d.trigger(tid, sp)
			d.mute = false
			return
		}
		if !d.spawned[tid] {
			d.s.Spawn(tid)
			d.spawned[tid] = true
		}
		d.stepBuf = d.stepBuf[:0]
		d.busy[tid] = true
		if d.s.Start(tid, func() { d.trigger(tid, sp) }) {
			d.busy[tid] = false
		}
		d.flush()
	case "step", "tau":
		if len(op.Args) < 1 {
			w.Op(op)
			w.Obs(tr.L("unknown"))
			return
		}
		d.grant(op.Int(0), false)
	case "fault":
		if len(op.Args) < 1 {
			w.Op(op)
			w.Obs(tr.L("unknown"))
			return
		}
		d.grant(op.Int(0), true)
	case "check":
		w.Op(op)
		d.check()
	case "stress":
		w.Op(op)
		if len(op.Args) < 3 {
			w.Obs(tr.L("unknown"))
			return
		}
		d.shutdown()
		stress(w, op.Int(0), op.Int(1), uint64(op.Int(2)))
	default:
		w.Op(op)
		w.Obs(tr.L("unknown"))
	}
}

// check: unmanaged reads of the shared words and the direct oracle (the
// property itself, without the model).
func (d *drv) check() {
	w := d.w
	q := d.quietShadow()
	w.Obs(tr.L("check", tr.B(q), tr.I(len(d.order)), tr.I(int(d.queues[0].Length())), tr.I(int(d.queues[1].Length())),
		tr.I(int(atomic.LoadInt32(d.flagP)))))
	if d.faulted {
		return // a failed eventfd write: the request was not accepted without error
	}
	d.oracle(q && d.confirmed)
}

func (d *drv) oracle(quiescent bool) {
	w := d.w
	for _, r := range d.reqs {
		if r.execs > 1 {
			w.Fail("Polling", "executed-twice", fmt.Sprintf("request %d executed %d times", r.id, r.execs))
		}
		if r.sp.cb && r.cbs != r.execs {
			w.Fail("Polling", "callback-count", fmt.Sprintf("request %d executed %d times, callback invoked %d times", r.id, r.execs, r.cbs))
		}
		if r.sp.kind == 1 && r.execs == 1 && r.open && r.traf != 1 {
			w.Fail("Wake", "wake-traffic", fmt.Sprintf("wake %d on an open connection: %d OnTraffic", r.id, r.traf))
		}
		if quiescent && r.ret && r.ok && r.execs != 1 {
			w.Fail("Trigger", "lost-request", fmt.Sprintf("quiescent: request %d (producer %d, high=%v) accepted without error but executed %d times", r.id, r.prod, r.sp.high, r.execs))
		}
	}
	// high-priority requests of one goroutine run in issue order
	last := map[int]int{}
	for _, id := range d.order {
		r := d.reqs[id]
		if !r.sp.high {
			continue
		}
		if p, ok := last[r.prod]; ok && p > id {
			w.Fail("Polling", "urgent-order", fmt.Sprintf("producer %d: high-priority request %d ran after %d", r.prod, id, p))
		}
		last[r.prod] = id
	}
	if quiescent {
		w.Tag("quiescent-checked")
	}
}

func (d *drv) shutdown() {
	if d.p == nil {
		return
	}
	atomic.StoreInt32(&d.terminating, 1)
	d.s.Close()
	_ = d.p.Close()
	for _, fd := range d.ioFd {
		_ = unix.Close(fd)
	}
	d.p = nil
	theDrv.Store((*drv)(nil))
}

func (d *drv) end() {
	d.shutdown()
	d.w.End()
}

// ---------------------------------------------------------------- unmanaged stress

// stress: g real goroutines issue n requests each against a real Polling loop.
func stress(w *tr.Writer, g, n int, seed uint64) {
	removeHooks()
	defer installHooks()
	p, err := netpoll.OpenPoller()
	if err != nil {
		w.Fail("driver", "open", err.Error())
		return
	}
	netpoll.VerifSetThreshold(p, 8)
	d := &drv{p: p, ioSrc: map[int]int{}}
	total := int64(0)
	var issued int64
	execs := make([]int32, g*n*2)
	var orderMu sync.Mutex
	var order []int
	var nextID int64
	type meta struct {
		prod int
		high bool
	}
	metas := make([]meta, g*n*2)
	var fire func(prod int, high, nested bool) error
	fire = func(prod int, high, nested bool) error {
		id := int(atomic.AddInt64(&nextID, 1) - 1)
		metas[id] = meta{prod, high}
		atomic.AddInt64(&issued, 1)
		prio := queue.LowPriority
		if high {
			prio = queue.HighPriority
		}
		return p.Trigger(prio, func(any) error {
			atomic.AddInt32(&execs[id], 1)
			orderMu.Lock()
			order = append(order, id)
			orderMu.Unlock()
			var err error
			if nested {
				err = fire(1000, high, false) // issued is incremented before total
			}
			atomic.AddInt64(&total, 1)
			return err
		}, nil)
	}
	done := make(chan error, 1)
	go func() { done <- runPolling(d) }()
	var wg sync.WaitGroup
	var failed int32
	for i := 0; i < g; i++ {
		wg.Add(1)
		go func(i int) {
			defer wg.Done()
			rnd := tr.NewRand(seed*977 + uint64(i))
			for k := 0; k < n; k++ {
				if err := fire(i, rnd.Chance(50), rnd.Chance(10)); err != nil {
					atomic.AddInt32(&failed, 1)
				}
				if rnd.Chance(5) {
					time.Sleep(time.Duration(rnd.Intn(200)) * time.Microsecond) // let the loop go idle
				}
			}
		}(i)
	}
	wg.Wait()
	// wait while the loop makes progress: give up after 4 s without a single execution (or 30 s in all)
	deadline := time.Now().Add(30 * time.Second)
	lastTotal, lastMove := atomic.LoadInt64(&total), time.Now()
	for atomic.LoadInt64(&total) < atomic.LoadInt64(&issued) && time.Now().Before(deadline) {
		time.Sleep(200 * time.Microsecond)
		if t := atomic.LoadInt64(&total); t != lastTotal {
			lastTotal, lastMove = t, time.Now()
		} else if time.Since(lastMove) > 4*time.Second {
			break
		}
	}
	// the loop is idle (or stuck): everything accepted must have run exactly once
	iss := int(atomic.LoadInt64(&issued))
	if failed > 0 {
		w.Fail("Trigger", "stress-error", fmt.Sprintf("%d Trigger calls returned an error", failed))
	}
	lost := 0
	for id := 0; id < iss; id++ {
		switch c := atomic.LoadInt32(&execs[id]); {
		case c == 0:
			lost++
		case c > 1:
			w.Fail("Polling", "executed-twice", fmt.Sprintf("stress: request %d executed %d times", id, c))
		}
	}
	if lost > 0 {
		stressLost = true
		w.Fail("Trigger", "lost-request", fmt.Sprintf("stress: %d of %d accepted requests never ran (the loop made no progress for 4 s)", lost, iss))
	}
	orderMu.Lock()
	last := map[int]int{}
	for _, id := range order {
		m := metas[id]
		if !m.high || m.prod == 1000 {
			continue
		}
		if pv, ok := last[m.prod]; ok && pv > id {
			w.Fail("Polling", "urgent-order", fmt.Sprintf("stress: producer %d: high-priority request %d ran after %d", m.prod, id, pv))
			break
		}
		last[m.prod] = id
	}
	orderMu.Unlock()
	_ = p.Trigger(queue.HighPriority, func(any) error { return errorx.ErrEngineShutdown }, nil)
	select {
	case <-done:
	case <-time.After(3 * time.Second):
		if lost == 0 {
			w.Fail("Trigger", "lost-request", "stress: the shutdown request never ran")
		}
	}
	_ = p.Close()
	w.Tag("stress")
	w.Hist(fmt.Sprintf("stress-requests=%d", iss))
}

// ---------------------------------------------------------------- generators

type gen struct {
	w   *tr.Writer
	rnd *tr.Rand
	id  int
}

func (g *gen) newCase(kind string, thr int, cfg ...string) *drv {
	g.id++
	g.w.Case(fmt.Sprintf("%s%d", kind, g.id), fam, append([]string{"variant=" + variant}, cfg...)...)
	g.w.Hist("kind=" + kind)
	d := newDrv(g.w)
	d.exec(tr.L("cfg", tr.I(thr)))
	return d
}

func scriptLine(k int, sc []spec) tr.Line {
	a := []string{tr.I(k)}
	for _, s := range sc {
		a = append(a, s.args()...)
	}
	return tr.L("script", a...)
}

// randomScripts defines scripts 1..m; a child only refers to a lower script (bodies terminate).
func (g *gen) randomScripts(d *drv, m int) {
	for k := 1; k <= m; k++ {
		n := g.rnd.Range(1, 2)
		var sc []spec
		for i := 0; i < n; i++ {
			sc = append(sc, g.randSpec(k-1))
		}
		d.exec(scriptLine(k, sc))
	}
}

func (g *gen) randSpec(maxScript int) spec {
	sp := spec{high: g.rnd.Chance(50), cb: g.rnd.Chance(40)}
	switch g.rnd.Intn(6) {
	case 0, 1:
		sp.kind, sp.conn = 1, g.rnd.Intn(2) // Wake is low priority in gnet
		sp.high = false
	case 2:
		sp.kind, sp.conn = 2, g.rnd.Intn(2)
		sp.high = false
	}
	if maxScript > 0 && g.rnd.Chance(35) {
		sp.script = g.rnd.Range(1, maxScript)
	}
	return sp
}

type plan struct {
	sc  [][]spec // per producer (index = tid-1)
	pos []int
}

func (g *gen) plan(np, maxReq, maxScript int) *plan {
	pl := &plan{sc: make([][]spec, np), pos: make([]int, np)}
	for t := 0; t < np; t++ {
		n := g.rnd.Range(1, maxReq)
		for k := 0; k < n; k++ {
			pl.sc[t] = append(pl.sc[t], g.randSpec(maxScript))
		}
	}
	return pl
}

// enabled threads: producers with work left, the loop unless it is parked in a -1 wait.
func enabled(d *drv, pl *plan) []int {
	var en []int
	for t := range pl.sc {
		if d.busy[t+1] || pl.pos[t] < len(pl.sc[t]) {
			en = append(en, t+1)
		}
	}
	// fairness: the loop may spin (a producer sits between link and count, the re-check sees
	// a non-zero length and the loop wakes itself up): do not starve the producers forever
	if d.busy[0] && d.loopEnabled() && (d.loopStreak < 100 || len(en) == 0) {
		en = append([]int{0}, en...)
	}
	return en
}

// advance: thread t starts its next request if idle, otherwise takes one scheduling point;
// fused: keep going until a step the model sees was made.
func advance(d *drv, pl *plan, t int, fused bool) {
	if t > 0 && !d.busy[t] {
		sp := pl.sc[t-1][pl.pos[t-1]]
		pl.pos[t-1]++
		d.exec(tr.L("start", append([]string{tr.I(t)}, sp.args()...)...))
		if !fused {
			return
		}
	}
	for i := 0; i < 64 && d.busy[t]; i++ {
		d.confirmed = false
		if d.grant(t, false) || !fused {
			return
		}
	}
}

// settle: run the loop until it is parked in a -1 wait that found nothing, then check.
func settle(d *drv) {
	for i := 0; i < 200000 && d.busy[0]; i++ {
		if d.producersIdle() && d.atWait && d.waitMsec < 0 && d.confirmed {
			break
		}
		if !d.producersIdle() {
			for t, b := range d.busy {
				if t != 0 && b {
					d.grant(t, false)
				}
			}
			continue
		}
		d.grant(0, false)
	}
	d.exec(tr.L("check"))
}

func (g *gen) finale(d *drv) {
	settle(d)
	d.end()
}

func (g *gen) maybeEnv(d *drv, nio int, maxScript int) {
	if nio > 0 && g.rnd.Chance(4) {
		k := g.rnd.Intn(nio)
		if !d.ioPend[k] {
			sc := 0
			if maxScript > 0 && g.rnd.Chance(60) {
				sc = g.rnd.Range(1, maxScript)
			}
			d.exec(tr.L("io", tr.I(k), tr.I(sc)))
		}
	}
}

func (g *gen) setup(kind string) (*drv, *plan, int, int) {
	np := g.rnd.Range(1, 4)
	thr := g.rnd.Pick([]int{0, 0, 1, 2, 3, 1024})
	d := g.newCase(kind, thr, "producers="+tr.I(np), "thr="+tr.I(thr))
	g.w.Hist("producers=" + tr.I(np))
	g.w.Hist("thr=" + tr.I(thr))
	ms := g.rnd.Pick([]int{0, 0, 1, 2, 3})
	g.randomScripts(d, ms)
	pl := g.plan(np, g.rnd.Pick([]int{1, 2, 3, 6}), ms)
	nio := g.rnd.Pick([]int{0, 0, 1, 2})
	if g.rnd.Chance(12) { // eventfd counter close to its maximum: EAGAIN path
		d.exec(tr.L("preload", tr.U64(18446744073709551614-uint64(g.rnd.Intn(3)))))
	}
	if g.rnd.Chance(15) { // some requests already queued before anybody runs
		for i := g.rnd.Range(1, 3); i > 0; i-- {
			d.exec(tr.L("call", append([]string{tr.I(np + 1)}, g.randSpec(ms).args()...)...))
		}
	}
	return d, pl, nio, ms
}

func (g *gen) random() {
	d, pl, nio, ms := g.setup("rnd")
	sticky := g.rnd.Pick([]int{0, 50, 80, 92})
	last := -1
	for i := 0; i < 6000; i++ {
		g.maybeEnv(d, nio, ms)
		en := enabled(d, pl)
		if len(en) == 0 {
			break
		}
		t := en[g.rnd.Intn(len(en))]
		if last >= 0 && g.rnd.Chance(sticky) {
			for _, e := range en {
				if e == last {
					t = last
				}
			}
		}
		last = t
		advance(d, pl, t, false)
		if g.rnd.Chance(1) {
			d.exec(tr.L("check"))
		}
	}
	g.finale(d)
}

// pct: PCT-style priority schedule with d-1 priority change points.
func (g *gen) pct() {
	d, pl, nio, ms := g.setup("pct")
	nt := len(pl.sc) + 1
	depth := g.rnd.Range(1, 4)
	prio := make([]int, nt)
	perm := g.perm(nt)
	for i, t := range perm {
		prio[t] = depth + i
	}
	est := 30
	for _, s := range pl.sc {
		est += 25 * len(s)
	}
	change := map[int]int{}
	for k := 1; k < depth; k++ {
		change[g.rnd.Intn(est+1)] = depth - k
	}
	for i := 0; i < 6000; i++ {
		g.maybeEnv(d, nio, ms)
		en := enabled(d, pl)
		if len(en) == 0 {
			break
		}
		best := en[0]
		for _, t := range en {
			if prio[t] > prio[best] {
				best = t
			}
		}
		if np, ok := change[i]; ok {
			prio[best] = np
			best = en[0]
			for _, t := range en {
				if prio[t] > prio[best] {
					best = t
				}
			}
		}
		advance(d, pl, best, false)
	}
	g.finale(d)
}

func (g *gen) perm(n int) []int {
	p := make([]int, n)
	for i := range p {
		p[i] = i
	}
	for i := n - 1; i > 0; i-- {
		j := g.rnd.Intn(i + 1)
		p[i], p[j] = p[j], p[i]
	}
	return p
}

// bounded: every schedule (at the granularity of the model's steps) of the given
// requests with at most `bound` preemptions.
func (g *gen) bounded(sc [][]spec, scripts map[int][]spec, thr, pre, bound, limit int) int {
	stack := [][]int{{}}
	count := 0
	for len(stack) > 0 && count < limit {
		prefix := stack[len(stack)-1]
		stack = stack[:len(stack)-1]
		d := g.newCase("pb", thr, "bound="+tr.I(bound))
		count++
		ks := make([]int, 0, len(scripts))
		for k := range scripts {
			ks = append(ks, k)
		}
		sort.Ints(ks)
		for _, k := range ks {
			d.exec(scriptLine(k, scripts[k]))
		}
		for i := 0; i < pre; i++ {
			d.exec(tr.L("call", append([]string{tr.I(len(sc) + 1)}, spec{high: i%2 == 0}.args()...)...))
		}
		pl := &plan{sc: sc, pos: make([]int, len(sc))}
		var chosen []int
		used, cur := 0, -1
		for k := 0; k < 4000; k++ {
			en := enabled(d, pl)
			if len(en) == 0 {
				break
			}
			curEn := false
			for _, e := range en {
				if e == cur {
					curEn = true
				}
			}
			var t int
			if k < len(prefix) {
				t = prefix[k]
			} else if curEn {
				t = cur
			} else {
				t = en[0]
			}
			usedBefore := used
			if curEn && t != cur {
				used++
			}
			chosen = append(chosen, t)
			if k >= len(prefix) {
				for _, x := range en {
					if x == t {
						continue
					}
					cost := usedBefore
					if curEn && x != cur {
						cost++
					}
					if cost <= bound {
						np := append(append([]int{}, chosen[:k]...), x)
						stack = append(stack, np)
					}
				}
			}
			cur = t
			advance(d, pl, t, true)
		}
		g.finale(d)
	}
	return count
}

// batch: more low-priority requests than MaxAsyncTasksAtOneTime are queued before the loop runs.
func (g *gen) batch() {
	d := g.newCase("batch", 0)
	n := netpoll.MaxAsyncTasksAtOneTime + g.rnd.Range(1, 5)
	for i := 0; i < n; i++ {
		d.exec(tr.L("call", "1", "0", "0", "0", "0", "0"))
	}
	d.exec(tr.L("call", "1", "1", "0", "0", "1", "0"))
	d.w.Tag("batch-limit")
	pl := &plan{sc: [][]spec{{{high: true}, {high: false}}}, pos: []int{0}}
	for i := 0; i < 40000; i++ {
		en := enabled(d, pl)
		if len(en) == 0 {
			break
		}
		t := en[0]
		if len(en) > 1 && g.rnd.Chance(3) {
			t = en[1]
		}
		advance(d, pl, t, false)
	}
	g.finale(d)
}

var stressLost bool // a stress run already lost requests: one report is enough, do not wait again

func (g *gen) stressCase(gor, n int) {
	if stressLost {
		return
	}
	g.id++
	g.w.Case(fmt.Sprintf("stress%d", g.id), fam, "variant="+variant)
	g.w.Hist("kind=stress")
	d := newDrv(g.w)
	d.exec(tr.L("stress", tr.I(gor), tr.I(n), tr.U64(g.rnd.U64()%1000000)))
	d.end()
}

// ---------------------------------------------------------------- main

func main() {
	seed := flag.Uint64("seed", 1, "")
	tier := flag.String("tier", "quick", "")
	out := flag.String("out", "", "")
	stats := flag.String("stats", "", "")
	replay := flag.String("replay", "", "")
	flag.Parse()
	if *out == "" {
		fmt.Fprintln(os.Stderr, "drv-wakeup: -out required")
		os.Exit(2)
	}
	logging.SetDefaultLoggerAndFlusher(nopLogger{}, nil)
	w := tr.NewWriter(*out)
	if *replay != "" {
		for _, c := range tr.ReadCases(*replay) {
			w.Case(c.ID, fam, tr.CfgList(c.Cfg)...)
			d := newDrv(w)
			for _, op := range c.Ops {
				if p, msg := tr.Guard(func() { d.exec(op) }); p {
					w.Obs(tr.L("driver-panic"))
					w.Fail("driver", "panic", msg)
					break
				}
			}
			d.end()
		}
		w.Close(*stats)
		return
	}
	g := &gen{w: w, rnd: tr.NewRand(*seed)}
	nRnd, nPct, nBatch, nStress, stressN := 1000, 500, 2, 6, 2500
	bound, limit := 2, 1000
	if *tier == "thorough" {
		nRnd, nPct, nBatch, nStress, stressN = 12000, 6000, 12, 40, 20000
		bound, limit = 3, 12000
	}
	for i := 0; i < nRnd; i++ {
		g.random()
	}
	for i := 0; i < nPct; i++ {
		g.pct()
	}
	// exhaustive, small configurations
	hi, lo := spec{high: true}, spec{high: false}
	nest := map[int][]spec{1: {{high: true}}}
	cfgs := []struct {
		name string
		sc   [][]spec
		scr  map[int][]spec
		thr  int
		pre  int
	}{
		{"1x2-high", [][]spec{{hi, hi}}, nil, 1024, 0},
		{"2x1-high-low", [][]spec{{hi}, {lo}}, nil, 0, 0},
		{"2x1-pre1", [][]spec{{lo}, {hi}}, nil, 1, 1},
		{"1x1-nested-pre1", [][]spec{{{high: false, script: 1}}}, nest, 1024, 1},
	}
	for _, c := range cfgs {
		n := g.bounded(c.sc, c.scr, c.thr, c.pre, bound, limit)
		w.Hist(fmt.Sprintf("exhaustive:%s:bound%d=%d", c.name, bound, n))
	}
	for i := 0; i < nBatch; i++ {
		g.batch()
	}
	for i := 0; i < nStress; i++ {
		g.stressCase(8, stressN)
	}
	w.Close(*stats)
}
