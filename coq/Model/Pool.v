(* Model of pkg/pool/byteslice (Pool.Get / Pool.Put over 32 sync.Pools) and of
   pkg/pool/ringbuffer (Pool.Get / Pool.Put), together with the ownership
   ledger the property C12 speaks about.  No proofs here.

   Memory is a set of allocations (id, size).  A slice value is a region
   (id, off, len, cap): bytes [off, off+cap) of allocation id are reachable
   from it.  byteslice.Pool stores, per size class idx, *pointers to the first
   byte* of donated slices (unsafe.SliceData); the capacity of a stored
   pointer is not recorded by the code - it is implied by the class: 1<<idx.
   The 32 sync.Pools are modelled as one list of entries, each tagged with the
   index of the sync.Pool it sits in ([bag] gives the view "32 bags").
   sync.Pool itself is a bag with an oracle: which stored entry (or none) a Get
   returns is an input; a GC may drop arbitrary entries.

   Concurrency: sync.Pool.Get/Put are atomic with respect to one another, so
   an execution by any number of goroutines is a sequence of (client, op). *)
From GV Require Export Lib.Trace Model.Arith.
Open Scope Z_scope.

Definition MaxInt32 : Z := 2147483647.

(* ------------------------------------------------------------------ *)
(* memory vocabulary *)

Record region := mkRegion { rid : Z; roff : Z; rlen : Z; rcap : Z }.

(* an interval [vlo, vhi) of allocation vid *)
Record iv := mkIv { vid : Z; vlo : Z; vhi : Z }.

Definition region_iv (r : region) : iv := mkIv (rid r) (roff r) (roff r + rcap r).
Definition region_len_iv (r : region) : iv := mkIv (rid r) (roff r) (roff r + rlen r).

(* two intervals share at least one byte *)
Definition iv_overlap (a b : iv) : bool :=
  (vid a =? vid b) && (vlo a <? vhi b) && (vlo b <? vhi a) && (vlo a <? vhi a) && (vlo b <? vhi b).

(* a inside b *)
Definition iv_inside (a b : iv) : bool :=
  (vid a =? vid b) && (vlo b <=? vlo a) && (vhi a <=? vhi b).

(* an entry of one of the 32 sync.Pools: the stored pointer (eid, eoff) and the
   pool index ecls.  Ghost fields (not present in the code, used to state the
   theorems and to let the harness name entries): the serial number of the Put
   that stored it and the region that Put donated. *)
Record entry := mkEntry { ecls : Z; eid : Z; eoff : Z; eser : Z; edon : region }.

(* the memory a later Get will hand out for this entry: unsafe.Slice(ptr, 1<<idx) *)
Definition entry_iv (e : entry) : iv := mkIv (eid e) (eoff e) (eoff e + Z.shiftl 1 (ecls e)).

Record state := mkState {
  allocs  : list (Z * Z);       (* (id, size) *)
  next_id : Z;
  entries : list entry;          (* contents of the 32 sync.Pools *)
  ledger  : list (Z * iv);       (* outstanding memory: (client, interval it owns) *)
  nput    : Z                    (* number of Put calls so far (serial numbers) *)
}.

Definition init : state := mkState [] 0 [] [] 0.

Definition bag (st : state) (idx : Z) : list entry := filter (fun e => ecls e =? idx) (entries st).

(* ------------------------------------------------------------------ *)
(* ledger *)

Definition own_match (c : Z) (v : iv) (o : Z * iv) : bool :=
  (fst o =? c) && iv_inside v (snd o).

(* client c owns every byte of v *)
Definition owns (st : state) (c : Z) (v : iv) : bool := existsb (own_match c v) (ledger st).

(* give up v: the first owned interval of c containing v is split into what is
   left before and after v *)
Fixpoint release (c : Z) (v : iv) (l : list (Z * iv)) : option (list (Z * iv)) :=
  match l with
  | [] => None
  | o :: l' =>
      if own_match c v o
      then Some ((c, mkIv (vid (snd o)) (vlo (snd o)) (vlo v)) ::
                 (c, mkIv (vid (snd o)) (vhi v) (vhi (snd o))) :: l')
      else match release c v l' with
           | Some r => Some (o :: r)
           | None => None
           end
  end.

(* v shares no byte with any outstanding interval *)
Definition excl_of (st : state) (v : iv) : bool :=
  forallb (fun o => negb (iv_overlap (snd o) v)) (ledger st).

(* ------------------------------------------------------------------ *)
(* operations *)

Inductive op :=
| OGet (c size choice : Z)      (* choice < 0: sync.Pool returns nil; else serial of the Put whose pointer comes back *)
| OPut (c : Z) (r : region)
| OGc (keep : list Z)           (* GC: only the entries with these serials survive *)
| OMk (c len cap : Z)           (* client allocates make([]byte, len, cap) itself (foreign slice) *)
| OWr (c : Z) (r : region).     (* client touches r[0:len] *)

Inductive event :=
| EGetNil
| EGetFresh (r : region) (excl : bool)
| EGetPool (r : region) (e : entry) (excl : bool)
| EGetBad                       (* the oracle choice names no entry of that sync.Pool *)
| EPanic
| EPut (stored : option entry) (disc : bool)
| EGc
| EMk (r : region)
| EWr (own : bool).

Fixpoint take_entry (ser : Z) (l : list entry) : option (entry * list entry) :=
  match l with
  | [] => None
  | e :: l' =>
      if eser e =? ser then Some (e, l')
      else match take_entry ser l' with
           | Some (x, r) => Some (x, e :: r)
           | None => None
           end
  end.

(* make([]byte, _, sz) by client c *)
Definition alloc_for (st : state) (c sz : Z) : state :=
  mkState ((next_id st, sz) :: allocs st) (next_id st + 1) (entries st)
          ((c, mkIv (next_id st) 0 sz) :: ledger st) (nput st).

(* func (p *Pool) Get(size int) []byte *)
Definition get (st : state) (c size choice : Z) : state * event :=
  if size <=? 0 then (st, EGetNil) else
  if size >? MaxInt32 then
    let r := mkRegion (next_id st) 0 size size in              (* make([]byte, size) *)
    (alloc_for st c size, EGetFresh r (excl_of st (region_iv r)))
  else
  match bs_index size with
  | Panic => (st, EPanic)
  | Ret idx =>
    if (idx <? 0) || (32 <=? idx) then (st, EPanic) else        (* p.pools[idx] *)
    if choice <? 0 then
      let r := mkRegion (next_id st) 0 size (Z.shiftl 1 idx) in (* make([]byte, size, 1<<idx) *)
      (alloc_for st c (Z.shiftl 1 idx), EGetFresh r (excl_of st (region_iv r)))
    else
      match take_entry choice (entries st) with
      | None => (st, EGetBad)
      | Some (e, rest) =>
          if ecls e =? idx then
            let r := mkRegion (eid e) (eoff e) size (Z.shiftl 1 idx) in   (* unsafe.Slice(ptr, 1<<idx)[:size] *)
            (mkState (allocs st) (next_id st) rest ((c, region_iv r) :: ledger st) (nput st),
             EGetPool r e (excl_of st (region_iv r)))
          else (st, EGetBad)
      end
  end.

(* the sync.Pool index chosen by Put: rounded DOWN for a capacity that is not a
   power of two (idx is a uint32 in the code, hence the wrap on idx-1) *)
Definition put_idx (size : Z) : outcome Z :=
  obind (bs_index size) (fun idx =>
  Ret (if negb (size =? Z.shiftl 1 idx) then wrapu32 (idx - 1) else idx)).

Definition put_noop (r : region) : bool := (rcap r =? 0) || (rcap r >? MaxInt32).

Definition bump (st : state) : state :=
  mkState (allocs st) (next_id st) (entries st) (ledger st) (nput st + 1).

(* func (p *Pool) Put(buf []byte) *)
Definition put (st : state) (c : Z) (r : region) : state * event :=
  if put_noop r then (bump st, EPut None true) else
  match put_idx (rcap r) with
  | Panic => (bump st, EPanic)
  | Ret idx =>
    if (idx <? 0) || (32 <=? idx) then (bump st, EPanic) else
    let e := mkEntry idx (rid r) (roff r) (nput st) r in        (* p.pools[idx].Put(unsafe.SliceData(buf)) *)
    match release c (region_iv r) (ledger st) with
    | Some led => (mkState (allocs st) (next_id st) (entries st ++ [e]) led (nput st + 1), EPut (Some e) true)
    | None => (mkState (allocs st) (next_id st) (entries st ++ [e]) (ledger st) (nput st + 1), EPut (Some e) false)
    end
  end.

Definition gc (st : state) (keep : list Z) : state :=
  mkState (allocs st) (next_id st)
          (filter (fun e => existsb (Z.eqb (eser e)) keep) (entries st))
          (ledger st) (nput st).

Definition mk (st : state) (c len cap : Z) : state * event :=
  if (0 <=? len) && (len <=? cap) then (alloc_for st c cap, EMk (mkRegion (next_id st) 0 len cap))
  else (st, EPanic).

Definition step (st : state) (o : op) : state * event :=
  match o with
  | OGet c size choice => get st c size choice
  | OPut c r => put st c r
  | OGc keep => (gc st keep, EGc)
  | OMk c len cap => mk st c len cap
  | OWr c r => (st, EWr (owns st c (region_len_iv r)))
  end.

Fixpoint run (st : state) (ops : list op) : state * list event :=
  match ops with
  | [] => (st, [])
  | o :: rest =>
      let (st1, ev) := step st o in
      let (st2, evs) := run st1 rest in
      (st2, ev :: evs)
  end.

Definition final (st : state) (ops : list op) : state := fst (run st ops).
Definition events (st : state) (ops : list op) : list event := snd (run st ops).

(* ---- discipline: what a client of the pool must respect ----
   A Put donates a region the putter owns (the ledger makes ownership
   exclusive and the Put removes it, so the putter cannot touch the region
   again without violating the OWr / OPut clauses later); a client touches
   only memory it owns; slice values are well formed. *)
Definition op_ok (st : state) (o : op) : Prop :=
  match o with
  | OPut c r => 0 <= rlen r <= rcap r /\ (put_noop r = true \/ owns st c (region_iv r) = true)
  | OWr c r => 0 <= rlen r /\ owns st c (region_len_iv r) = true
  | _ => True
  end.

Fixpoint disciplined (st : state) (ops : list op) : Prop :=
  match ops with
  | [] => True
  | o :: rest => op_ok st o /\ disciplined (fst (step st o)) rest
  end.

(* ------------------------------------------------------------------ *)
(* ring-buffer pool: pkg/pool/ringbuffer.  A ring buffer is an identity with
   its number of buffered bytes.  The calibration policy (defaultSize, maxSize)
   is not modelled: whether Put keeps the buffer is an input. *)

Record rbstate := mkRb {
  rb_next : Z;
  rb_bufs : list (Z * Z);        (* (id, buffered bytes) of every ring buffer created *)
  rb_bag  : list (Z * Z);        (* (serial of the Put, id) stored in the sync.Pool *)
  rb_held : list (Z * Z);        (* (client, id): handed out / created and not returned *)
  rb_nput : Z
}.

Definition rb_init : rbstate := mkRb 0 [] [] [] 0.

Inductive rbop :=
| RGet (c choice : Z)            (* choice < 0: sync.Pool empty -> ring.New(defaultSize) *)
| RMk (c : Z)                    (* client builds its own ring buffer *)
| RUse (c id n : Z)              (* client reads/writes its buffer; afterwards n bytes are buffered *)
| RPut (c id : Z) (kept : bool)  (* kept = (maxSize == 0 || b.Cap() <= maxSize) *)
| RGc (keep : list Z).

Inductive rbevent :=
| RGot (id buffered : Z) (excl : bool)
| RBad
| RMade (id : Z)
| RUsed (own : bool)
| RPutDone (disc : bool) (buffered : Z)
| RGcDone.

Fixpoint lookup (id : Z) (l : list (Z * Z)) : Z :=
  match l with
  | [] => 0
  | (k, v) :: l' => if k =? id then v else lookup id l'
  end.

Fixpoint update (id v : Z) (l : list (Z * Z)) : list (Z * Z) :=
  match l with
  | [] => []
  | (k, w) :: l' => if k =? id then (k, v) :: l' else (k, w) :: update id v l'
  end.

Fixpoint take_rb (ser : Z) (l : list (Z * Z)) : option (Z * list (Z * Z)) :=
  match l with
  | [] => None
  | (s, id) :: l' =>
      if s =? ser then Some (id, l')
      else match take_rb ser l' with
           | Some (x, r) => Some (x, (s, id) :: r)
           | None => None
           end
  end.

Definition held_by (c id : Z) (o : Z * Z) : bool := (fst o =? c) && (snd o =? id).
Definition rb_holds (st : rbstate) (c id : Z) : bool := existsb (held_by c id) (rb_held st).
Definition rb_unheld (st : rbstate) (id : Z) : bool := forallb (fun o => negb (snd o =? id)) (rb_held st).

Fixpoint drop_first (c id : Z) (l : list (Z * Z)) : list (Z * Z) :=
  match l with
  | [] => []
  | o :: l' => if held_by c id o then l' else o :: drop_first c id l'
  end.

Definition rb_step (st : rbstate) (o : rbop) : rbstate * rbevent :=
  match o with
  | RGet c choice =>
      if choice <? 0 then
        let id := rb_next st in                                   (* ring.New: isEmpty = true *)
        (mkRb (id + 1) ((id, 0) :: rb_bufs st) (rb_bag st) ((c, id) :: rb_held st) (rb_nput st),
         RGot id 0 (rb_unheld st id))
      else match take_rb choice (rb_bag st) with
           | None => (st, RBad)
           | Some (id, rest) =>
               (mkRb (rb_next st) (rb_bufs st) rest ((c, id) :: rb_held st) (rb_nput st),
                RGot id (lookup id (rb_bufs st)) (rb_unheld st id))
           end
  | RMk c =>
      let id := rb_next st in
      (mkRb (id + 1) ((id, 0) :: rb_bufs st) (rb_bag st) ((c, id) :: rb_held st) (rb_nput st), RMade id)
  | RUse c id n =>
      if rb_holds st c id
      then (mkRb (rb_next st) (update id n (rb_bufs st)) (rb_bag st) (rb_held st) (rb_nput st), RUsed true)
      else (mkRb (rb_next st) (update id n (rb_bufs st)) (rb_bag st) (rb_held st) (rb_nput st), RUsed false)
  | RPut c id kept =>
      let disc := rb_holds st c id in
      let held := drop_first c id (rb_held st) in
      if kept then                                                  (* b.Reset(); p.pool.Put(b) *)
        (mkRb (rb_next st) (update id 0 (rb_bufs st)) (rb_bag st ++ [(rb_nput st, id)]) held (rb_nput st + 1),
         RPutDone disc 0)
      else
        (mkRb (rb_next st) (rb_bufs st) (rb_bag st) held (rb_nput st + 1),
         RPutDone disc (lookup id (rb_bufs st)))
  | RGc keep =>
      (mkRb (rb_next st) (rb_bufs st) (filter (fun e => existsb (Z.eqb (fst e)) keep) (rb_bag st))
            (rb_held st) (rb_nput st), RGcDone)
  end.

Fixpoint rb_run (st : rbstate) (ops : list rbop) : rbstate * list rbevent :=
  match ops with
  | [] => (st, [])
  | o :: rest =>
      let (st1, ev) := rb_step st o in
      let (st2, evs) := rb_run st1 rest in
      (st2, ev :: evs)
  end.

Definition rb_op_ok (st : rbstate) (o : rbop) : Prop :=
  match o with
  | RUse c id n => rb_holds st c id = true /\ 0 <= n
  | RPut c id _ => rb_holds st c id = true
  | _ => True
  end.

Fixpoint rb_disciplined (st : rbstate) (ops : list rbop) : Prop :=
  match ops with
  | [] => True
  | o :: rest => rb_op_ok st o /\ rb_disciplined (fst (rb_step st o)) rest
  end.

(* ------------------------------------------------------------------ *)
(* call sites of the pools in the non-test sources that build on unix:
   (file, enclosing function, callee, argument text), in the order the
   translator harness/cmd/gensites emits them (files sorted, then source
   order).  Each site carries the reason why it respects the discipline.
   History: conn.release used to Put the bytes of localAddr.Zone and
   remoteAddr.Zone (4 sites, argument bs.StringToBytes(addr.Zone)); those
   strings are package net's zone-cache strings for dialled/enrolled
   connections, i.e. memory the connection does not own and donated twice
   (Proofs.PoolProofs.double_put_aliases is that history).  Removed by /repo
   commit 3eb92b8; should such a site come back, gensites lists it, the
   obligation GenSites.sites_ok breaks and the engine phases of drv-pool
   (corpus/C12/engine_zone.trace) find the aliasing. *)
Open Scope string_scope.

Inductive why :=
| GetSite                       (* a Get: the result is owned by the caller *)
| PutOwnedDropped (s : string)  (* the owner structure forgets the slice in the same step *)
| PutApiContract (s : string).  (* safe only under a documented API contract of gnet *)

Definition site := (string * string * string * string)%type.

Definition site_table : list (site * why) := [
  (("connection_unix.go", "conn.Next", "byteslice.Get", "n"), GetSite);
  (("connection_unix.go", "conn.Peek", "byteslice.Get", "n"), GetSite);
  (("connection_unix.go", "conn.Discard", "byteslice.Put", "c.cache"),
     PutApiContract "c.cache = nil follows; the slice Peek returned is invalid after Discard (gnet.Reader doc)");
  (("pkg/buffer/elastic/elastic_ring_buffer.go", "RingBuffer.instance", "ringbuffer.Get", ""), GetSite);
  (("pkg/buffer/elastic/elastic_ring_buffer.go", "RingBuffer.Done", "ringbuffer.Put", "b.rb"),
     PutApiContract "b.rb = nil follows; slices from Peek/Bytes are invalid after Discard/release (gnet.Reader doc)");
  (("pkg/buffer/elastic/elastic_ring_buffer.go", "RingBuffer.done", "ringbuffer.Put", "b.rb"),
     PutApiContract "b.rb = nil follows; only when the ring is empty; Peek slices invalid after Discard (gnet.Reader doc)");
  (("pkg/buffer/linkedlist/linked_list_buffer.go", "Buffer.Read", "byteslice.Put", "b.buf"),
     PutOwnedDropped "node popped and fully consumed; a partially consumed node is re-sliced forward and pushed back, not Put");
  (("pkg/buffer/linkedlist/linked_list_buffer.go", "Buffer.AllocNode", "byteslice.Get", "n"), GetSite);
  (("pkg/buffer/linkedlist/linked_list_buffer.go", "Buffer.FreeNode", "byteslice.Put", "p"),
     PutApiContract "caller hands over a slice from AllocNode/Pop and must not use it afterwards");
  (("pkg/buffer/linkedlist/linked_list_buffer.go", "Buffer.PushFront", "byteslice.Get", "n"), GetSite);
  (("pkg/buffer/linkedlist/linked_list_buffer.go", "Buffer.PushBack", "byteslice.Get", "n"), GetSite);
  (("pkg/buffer/linkedlist/linked_list_buffer.go", "Buffer.Discard", "byteslice.Put", "b.buf"),
     PutOwnedDropped "node popped and fully discarded; Peek slices are invalid after Discard (gnet.Reader doc)");
  (("pkg/buffer/linkedlist/linked_list_buffer.go", "Buffer.ReadFrom", "byteslice.Get", "minRead"), GetSite);
  (("pkg/buffer/linkedlist/linked_list_buffer.go", "Buffer.ReadFrom", "byteslice.Put", "b"),
     PutOwnedDropped "local slice b of an empty read (m = 0): never linked into the list");
  (("pkg/buffer/linkedlist/linked_list_buffer.go", "Buffer.WriteTo", "byteslice.Put", "b.buf"),
     PutOwnedDropped "node popped and fully written");
  (("pkg/buffer/linkedlist/linked_list_buffer.go", "Buffer.Reset", "byteslice.Put", "b.buf"),
     PutOwnedDropped "every node popped; list emptied");
  (("pkg/buffer/ring/ring_buffer.go", "Buffer.grow", "byteslice.Get", "newCap"), GetSite);
  (("pkg/buffer/ring/ring_buffer.go", "Buffer.grow", "byteslice.Put", "rb.buf"),
     PutOwnedDropped "old array after its content was copied; rb.buf = newBuf is the next statement");
  (("pkg/socket/sockaddr.go", "itod", "byteslice.Get", "32"), GetSite)
].

Definition justified_sites : list site := map fst site_table.

(* The justifications above were written against the text of the functions that contain a Put and of the
   functions (same file) that assign to the field whose value is put back.  Their bodies are pinned by
   fingerprint (FNV-64a of the go/printer form without comments, computed by gensites on every run): an edit
   to one of them does not make C12 false, but the justification has to be read again and the fingerprint
   updated here. *)
Definition justified_put_contexts : list (string * string * string) := [
  ("connection_unix.go", "conn.Peek", "7f2ddd2afa8bfe5e");
  ("connection_unix.go", "conn.Discard", "7f9708b463751be9");
  ("pkg/buffer/elastic/elastic_ring_buffer.go", "RingBuffer.instance", "8c0a23d893ac3ee4");
  ("pkg/buffer/elastic/elastic_ring_buffer.go", "RingBuffer.Done", "4799555b17b44547");
  ("pkg/buffer/elastic/elastic_ring_buffer.go", "RingBuffer.done", "5d7e08e89c054e23");
  ("pkg/buffer/linkedlist/linked_list_buffer.go", "Buffer.Read", "d6cec914f6ea0687");
  ("pkg/buffer/linkedlist/linked_list_buffer.go", "Buffer.FreeNode", "12499be787904819");
  ("pkg/buffer/linkedlist/linked_list_buffer.go", "Buffer.Discard", "1550844246a2e12b");
  ("pkg/buffer/linkedlist/linked_list_buffer.go", "Buffer.ReadFrom", "091400b6254712ad");
  ("pkg/buffer/linkedlist/linked_list_buffer.go", "Buffer.WriteTo", "5b6f0f5aa1ca293c");
  ("pkg/buffer/linkedlist/linked_list_buffer.go", "Buffer.Reset", "d20a1bbe0f49c457");
  ("pkg/buffer/ring/ring_buffer.go", "Buffer.grow", "254a73c1103aafdb")
].

Definition site_eqb (a b : site) : bool :=
  let '(a1, a2, a3, a4) := a in
  let '(b1, b2, b3, b4) := b in
  String.eqb a1 b1 && String.eqb a2 b2 && String.eqb a3 b3 && String.eqb a4 b4.

Definition site_in (a : site) (l : list site) : bool := existsb (site_eqb a) l.

(* ------------------------------------------------------------------ *)
(* trace runner: family "pool"
     op mk <c> <len> <cap>               -> obs mk <len> <cap> | obs mk panic            (new handle)
     op sub <c> <h> <lo> <hi> <max>      -> obs sub <len> <cap> | obs sub panic          (new handle; max<0: b[lo:hi])
     op get <c> <size> <choice>          -> obs get nil | obs get <len> <cap> <excl> <within> | obs get bad | obs get panic
                                                                                          (new handle)
     op put <c> <h>                      -> obs put <disc> | obs put panic
     op wr <c> <h>                       -> obs wr <own>
     op gc <n>                           (n >= 2 runtime.GC() calls empty every sync.Pool; n < 2: nothing is lost for sure)
     op rbget <c> <choice>               -> obs rbget <id> <buffered> <excl> | obs rbget bad
     op rbmk <c>                         -> obs rbmk <id>
     op rbuse <c> <id> <n>               -> obs rbuse <own>
     op rbput <c> <id> <kept>            -> obs rbput <disc> <buffered afterwards>
     op rbgc <n>
     op storm .. / op engine <phase> ..  -> obs storm / obs engine <phase>   (oracle-only phases, echoed)
   Handles number the slice values the driver holds, in creation order. *)

Open Scope Z_scope.

Definition nil_region : region := mkRegion (-1) 0 0 0.

Record rstate := mkR { r_pool : state; r_rb : rbstate; r_handles : list region }.

Definition handle (rs : rstate) (h : Z) : region :=
  if h <? 0 then nil_region else nth (Z.to_nat h) (r_handles rs) nil_region.

Definition with_pool (rs : rstate) (st : state) (h : list region) : rstate :=
  mkR st (r_rb rs) (r_handles rs ++ h).

(* b[lo:hi:max] *)
Definition subslice (r : region) (lo hi mx : Z) : outcome region :=
  let mx := if mx <? 0 then rcap r else mx in
  if (0 <=? lo) && (lo <=? hi) && (hi <=? mx) && (mx <=? rcap r)
  then Ret (mkRegion (rid r) (roff r + lo) (hi - lo) (mx - lo))
  else Panic.

Definition within_donation (r : region) (e : entry) : bool :=
  iv_inside (region_iv r) (region_iv (edon e)).

Definition pool_line (rs : rstate) (l : line) : rstate * list line :=
  match l with
  | ("mk", [AInt c; AInt len; AInt cap]) =>
      match mk (r_pool rs) c len cap with
      | (st, EMk r) => (with_pool rs st [r], [obs "mk" [AInt (rlen r); AInt (rcap r)]])
      | (st, _) => (with_pool rs st [nil_region], [panic_line "mk"])
      end
  | ("sub", [AInt c; AInt h; AInt lo; AInt hi; AInt mx]) =>
      match subslice (handle rs h) lo hi mx with
      | Ret r => (with_pool rs (r_pool rs) [r], [obs "sub" [AInt (rlen r); AInt (rcap r)]])
      | Panic => (with_pool rs (r_pool rs) [nil_region], [panic_line "sub"])
      end
  | ("get", [AInt c; AInt size; AInt choice]) =>
      match get (r_pool rs) c size choice with
      | (st, EGetNil) => (with_pool rs st [nil_region], [obs "get" [ASym "nil"]])
      | (st, EGetFresh r x) =>
          (with_pool rs st [r], [obs "get" [AInt (rlen r); AInt (rcap r); bool_arg x; bool_arg true]])
      | (st, EGetPool r e x) =>
          (with_pool rs st [r], [obs "get" [AInt (rlen r); AInt (rcap r); bool_arg x; bool_arg (within_donation r e)]])
      | (st, EGetBad) => (with_pool rs st [nil_region], [obs "get" [ASym "bad"]])
      | (st, _) => (with_pool rs st [nil_region], [panic_line "get"])
      end
  | ("put", [AInt c; AInt h]) =>
      match put (r_pool rs) c (handle rs h) with
      | (st, EPut _ d) => (with_pool rs st [], [obs "put" [bool_arg d]])
      | (st, _) => (with_pool rs st [], [panic_line "put"])
      end
  | ("wr", [AInt c; AInt h]) =>
      (rs, [obs "wr" [bool_arg (owns (r_pool rs) c (region_len_iv (handle rs h)))]])
  | ("gc", [AInt n]) =>
      if n <? 2 then (rs, []) else (with_pool rs (gc (r_pool rs) []) [], [])
  | ("rbget", [AInt c; AInt choice]) =>
      match rb_step (r_rb rs) (RGet c choice) with
      | (st, RGot id b x) => (mkR (r_pool rs) st (r_handles rs), [obs "rbget" [AInt id; AInt b; bool_arg x]])
      | (st, _) => (mkR (r_pool rs) st (r_handles rs), [obs "rbget" [ASym "bad"]])
      end
  | ("rbmk", [AInt c]) =>
      match rb_step (r_rb rs) (RMk c) with
      | (st, RMade id) => (mkR (r_pool rs) st (r_handles rs), [obs "rbmk" [AInt id]])
      | (st, _) => (mkR (r_pool rs) st (r_handles rs), [obs "rbmk" [ASym "bad"]])
      end
  | ("rbuse", [AInt c; AInt id; AInt n]) =>
      match rb_step (r_rb rs) (RUse c id n) with
      | (st, RUsed o) => (mkR (r_pool rs) st (r_handles rs), [obs "rbuse" [bool_arg o]])
      | (st, _) => (mkR (r_pool rs) st (r_handles rs), [obs "rbuse" [ASym "bad"]])
      end
  | ("rbput", [AInt c; AInt id; AInt kept]) =>
      match rb_step (r_rb rs) (RPut c id (negb (kept =? 0))) with
      | (st, RPutDone d b) => (mkR (r_pool rs) st (r_handles rs), [obs "rbput" [bool_arg d; AInt b]])
      | (st, _) => (mkR (r_pool rs) st (r_handles rs), [obs "rbput" [ASym "bad"]])
      end
  | ("rbgc", [AInt n]) =>
      if n <? 2 then (rs, []) else (mkR (r_pool rs) (fst (rb_step (r_rb rs) (RGc []))) (r_handles rs), [])
  | ("storm", _) => (rs, [obs "storm" []])
  | ("engine", ASym ph :: _) => (rs, [obs "engine" [ASym ph]])
  | _ => (rs, [obs "unknown" []])
  end.

Fixpoint pool_lines (rs : rstate) (ls : list line) : list line :=
  match ls with
  | [] => []
  | l :: rest => let (rs', out) := pool_line rs l in (out ++ pool_lines rs' rest)%list
  end.

Definition run_pool : runner := fun ls => pool_lines (mkR init rb_init []) ls.
