(* C19 — engine and client control API obey their state machine.
   Statements only; proofs live in Proofs/Engine*.v.
   Model: Model/Engine.v (interleavings of the synchronisation operations of the Run
   caller, the event loops, the main reactor, the ticker, user goroutines issuing control
   calls and the worker-pool goroutines of Register / Enroll).
   phase_s s = PEmpty (no engine / no listeners) | PRunning | PStopping (rootCtx cancelled)
   | PShutdown (inShutdown set).  e_hist is the history, NEWEST FIRST. *)
From GV Require Import Lib.Trace Lib.Interleave Model.Engine Proofs.EngineBase Proofs.EngineInv Proofs.EngineHist
  Proofs.EngineConns Proofs.EngineWorkers Proofs.EngineProgress Proofs.EngineProofs Proofs.EngineExtra Proofs.EngineQueue
  Proofs.EngineClient.
From Coq Require Import List ZArith.
Import ListNotations.
Open Scope list_scope.

(* the table of the property: never started -> empty-engine error and -1; running (also
   while shutting down) -> accepted; after shutdown -> in-shutdown error and -1 *)
Theorem C19_control_table :
  (validate PEmpty = REmpty /\
   (forall n, count_conns PEmpty n = RCount (-1)) /\
   (forall nl lo, dup_res PEmpty nl lo = REmpty) /\
   (forall f lo, dup_listener_res PEmpty f lo = REmpty) /\
   (forall st t, register_res PEmpty st t = (REmpty, None)) /\
   stop_entry PEmpty = Some REmpty) /\
  (forall p, p = PRunning \/ p = PStopping ->
   validate p = RNil /\
   (forall n, count_conns p n = RCount n) /\
   (forall nl, (nl <= 1)%Z -> dup_res p nl true = RNil) /\
   dup_listener_res p true true = RNil /\
   register_res p true TgtAddr = (RNil, Some true) /\
   register_res p true TgtConn = (RNil, Some true) /\
   stop_entry p = None) /\
  (validate PShutdown = RInShutdown /\
   (forall n, count_conns PShutdown n = RCount (-1)) /\
   (forall nl lo, dup_res PShutdown nl lo = RInShutdown) /\
   (forall f lo, dup_listener_res PShutdown f lo = RInShutdown) /\
   (forall st t, register_res PShutdown st t = (RInShutdown, None)) /\
   (forall a, el_register_res true a = (RInShutdown, None)) /\
   (forall a, el_enroll_res true a = (RInShutdown, None)) /\
   (forall a f, execute_res true a f = (RInShutdown, false)) /\
   stop_entry PShutdown = Some RInShutdown).
Proof. exact control_table. Qed.
Print Assumptions C19_control_table.

(* every control call made by an idle user goroutine is answered by these functions applied
   to the phase of the state in which it is made (calls from several goroutines interleave
   as single steps) *)
Theorem C19_calls_follow_table : forall s g, get_user s g = Some UIdle ->
  estep_opt s (TU g) (CCall KValidate) = Some (s, [(TU g, KRes (validate (phase_s s)))]) /\
  estep_opt s (TU g) (CCall KCount) = Some (s, [(TU g, KRes (count_conns (phase_s s) (total_conns s)))]) /\
  estep_opt s (TU g) (CCall KDup) = Some (s, [(TU g, KRes (dup_res (phase_s s) (c_nlis (e_cfg s)) (lis_open s)))]) /\
  (forall f, estep_opt s (TU g) (CCall (KDupListener f)) =
             Some (s, [(TU g, KRes (dup_listener_res (phase_s s) f (lis_open s)))])) /\
  (forall t li l, get_loop s li = Some l ->
     estep_opt s (TU g) (CCall (KRegister t li)) =
     match register_res (phase_s s) (e_started s) t with
     | (r, Some dial) => Some (new_worker s li dial, [(TU g, KRes r)])
     | (r, None) => Some (s, [(TU g, KRes r)])
     end) /\
  (forall e, estep_opt s (TU g) (CCall (KStop e)) =
     match stop_entry (phase_s s) with
     | Some r => Some (s, [(TU g, KRes r)])
     | None => Some (put_user (set_cancel s true) g (UStopPoll e false), [])
     end).
Proof. exact calls_follow_table. Qed.
Print Assumptions C19_calls_follow_table.

(* nil address, nil connection, nil runnable, context without target, Dup with several
   listeners, DupListener of an unknown address: the documented errors *)
Theorem C19_invalid_args :
  (forall p, p = PRunning \/ p = PStopping -> register_res p true TgtNone = (RInvalidAddr, None)) /\
  el_register_res false true = (RInvalidAddr, None) /\
  el_enroll_res false true = (RInvalidConn, None) /\
  (forall f, execute_res false true f = (RNilRunnable, false)) /\
  (forall p nl lo, p = PRunning \/ p = PStopping -> (1 < nl)%Z -> dup_res p nl lo = RUnsupported) /\
  (forall p lo, p = PRunning \/ p = PStopping -> dup_listener_res p false lo = RInvalidAddr).
Proof. exact invalid_args. Qed.
Print Assumptions C19_invalid_args.

(* after shutdown, and on a handle that was never started, the calls change nothing *)
Theorem C19_no_effect_after_shutdown : forall s g k s' evs,
  phase_s s = PShutdown \/ phase_s s = PEmpty ->
  get_user s g = Some UIdle ->
  match k with KValidate | KCount | KDup | KDupListener _ | KRegister _ _ | KStop _ => True | _ => False end ->
  estep_opt s (TU g) (CCall k) = Some (s', evs) -> s' = s.
Proof. exact no_effect_after_shutdown. Qed.
Print Assumptions C19_no_effect_after_shutdown.

(* stopping twice is harmless: the second Stop returns the in-shutdown error, the state is unchanged *)
Theorem C19_double_stop_harmless : forall s g e,
  phase_s s = PShutdown -> get_user s g = Some UIdle ->
  estep_opt s (TU g) (CCall (KStop e)) = Some (s, [(TU g, KRes RInShutdown)]).
Proof. exact double_stop_harmless. Qed.
Print Assumptions C19_double_stop_harmless.

(* cancellation, inShutdown and the shutdown phase are never left again *)
Theorem C19_shutdown_is_final : forall s tr s', exec (fun_step estep) s tr s' ->
  (e_cancel s = true -> e_cancel s' = true) /\ (e_insd s = true -> e_insd s' = true) /\
  (phase_s s = PShutdown -> phase_s s' = PShutdown).
Proof. exact shutdown_is_final. Qed.
Print Assumptions C19_shutdown_is_final.

(* Stop on a live engine cancels the root context and starts polling, without a result yet *)
Theorem C19_stop_starts_shutdown : forall s g e s' evs,
  get_user s g = Some UIdle -> stop_entry (phase_s s) = None ->
  estep_opt s (TU g) (CCall (KStop e)) = Some (s', evs) ->
  e_cancel s' = true /\ evs = [] /\ get_user s' g = Some (UStopPoll e false).
Proof. exact stop_starts_shutdown. Qed.
Print Assumptions C19_stop_starts_shutdown.

(* a polling Stop (Engine.Stop or gnet.Stop) returns nil only with inShutdown set and the
   context's error only if the context has ended; the engine stays cancelled: the shutdown goes on *)
Theorem C19_stop_result : forall s g e p c s' evs, ereachable s ->
  get_user s g = Some (UStopPoll e p) -> estep_opt s (TU g) c = Some (s', evs) ->
  e_cancel s = true /\ e_cancel s' = true /\
  (In (TU g, KRes RNil) evs -> e_insd s = true) /\
  (In (TU g, KRes RCtxErr) evs -> e = true) /\
  (forall r, In (TU g, KRes r) evs -> r = RNil \/ r = RCtxErr).
Proof. exact stop_result. Qed.
Print Assumptions C19_stop_result.

(* Register / Enroll: the RegisteredResults delivered for an accepted call are the ones its
   worker counts: never more than one, and exactly one once the worker is done *)
Theorem C19_one_result : forall s k w, ereachable s -> nth_error (e_workers s) k = Some w ->
  count_results k (e_hist s) = w_res w /\ (w_res w = 0 \/ w_res w = 1)%Z /\ (w_res w = 1%Z <-> w_pc w = WDone).
Proof. exact one_result. Qed.
Print Assumptions C19_one_result.

(* FULL statement of "exactly one result": every accepted registration can still complete.
   It is FALSE on the current tree (known finding C19 register-stranded-when-loop-exited). *)
Definition C19_one_result_full : Prop := forall s k w,
  ereachable s -> nth_error (e_workers s) k = Some w ->
  exists tr s', exec (fun_step estep) s tr s' /\ count_results k (e_hist s') = 1%Z.

(* the refutation: Register is accepted after every loop has exited and before inShutdown is
   set; its task is queued on a loop that never runs again; no continuation delivers a result *)
Theorem C19_one_result_refuted : exists s, ereachable s /\ returned s = true /\
  In (TU 1, KRes RNil) (e_hist s) /\
  (exists w, nth_error (e_workers s) 0 = Some w) /\
  forall tr s', exec (fun_step estep) s tr s' -> count_results 0 (e_hist s') = 0%Z.
Proof. exact one_result_refuted. Qed.
Print Assumptions C19_one_result_refuted.

(* the partial theorem: a registration that waits for its loop, and whose loop is still
   polling (this excludes exactly the refuted case), completes with exactly one result *)
Theorem C19_one_result_partial : forall s k w, ereachable s -> nth_error (e_workers s) k = Some w ->
  w_pc w = WWait ->
  (forall l, get_loop s (w_loop w) = Some l -> l_pc l = LPoll) ->
  exists tr s', exec (fun_step estep) s tr s' /\ count_results k (e_hist s') = 1%Z.
Proof. exact one_result_partial. Qed.
Print Assumptions C19_one_result_partial.

(* the client's control calls follow its state: never started -> empty-engine error; stopped ->
   in-shutdown error, for Dial / Enroll and for a further Stop, each without any effect on the
   state; running -> exactly one register task is queued and the caller waits for it *)
Theorem C19_client_calls_follow_state : forall s g, get_user s g = Some UIdle -> c_client (e_cfg s) = true ->
  (e_started s = false -> forall li,
     estep_opt s (TU g) (CCall (KCliEnroll li false)) = Some (s, [(TU g, KRes REmpty)])) /\
  (e_started s = true -> e_insd s = true -> forall li,
     estep_opt s (TU g) (CCall (KCliEnroll li false)) = Some (s, [(TU g, KRes RInShutdown)])) /\
  (e_started s = true -> e_insd s = false -> forall li l, get_loop s li = Some l ->
     estep_opt s (TU g) (CCall (KCliEnroll li false)) =
       Some (put_user (set_next (trigger s li (TReg (e_next s) (OUser g))) (e_next s + 1)) g (UEnrollWait false), [])) /\
  (e_insd s = true -> estep_opt s (TU g) (CCall KCliStop) = Some (s, [(TU g, KRes RInShutdown)])) /\
  (e_insd s = false -> estep_opt s (TU g) (CCall KCliStop) = None).
Proof. exact client_calls_follow_state. Qed.
Print Assumptions C19_client_calls_follow_state.

(* what a Client.Dial / Enroll that has not returned yet waits for: its register task is queued on a
   loop of the client; and when that loop is polling, the loop runs the task (OnOpen) and the
   call returns nil.  (A Dial whose task is queued on a loop that has already exited never
   returns: the same stranding as the recorded finding for Register.) *)
Theorem C19_client_dial_queued : forall s g, ereachable s -> get_user s g = Some (UEnrollWait false) ->
  exists li l cid, get_loop s li = Some l /\ In (TReg cid (OUser g)) (l_q l).
Proof. exact client_dial_queued. Qed.
Print Assumptions C19_client_dial_queued.

Theorem C19_client_dial_completes_partial : forall s g, ereachable s -> get_user s g = Some (UEnrollWait false) ->
  (forall li l cid, get_loop s li = Some l -> In (TReg cid (OUser g)) (l_q l) -> l_pc l = LPoll) ->
  exists tr s' li idx cid, exec (fun_step estep) s tr s' /\
    map fst tr = [(TL li, CRun idx h_none); (TU g, CNone)] /\ get_user s' g = Some UIdle /\
    e_hist s' = (TU g, KRes RNil) :: (TL li, KOpen cid) :: e_hist s.
Proof. exact client_dial_completes_open. Qed.
Print Assumptions C19_client_dial_completes_partial.

(* what a waiting registration waits for: its task is queued on its loop *)
Theorem C19_registration_queued : forall s k w, ereachable s ->
  nth_error (e_workers s) k = Some w -> w_pc w = WWait -> w_opened w = false ->
  exists l cid, get_loop s (w_loop w) = Some l /\ In (TReg cid (OWorker k)) (l_q l).
Proof. exact registration_queued. Qed.
Print Assumptions C19_registration_queued.

(* FULL statement of the first clause of the property for every never-started handle.  It is
   FALSE on the current tree (known finding C19 never-started-handle-not-empty): the handle
   captured in OnBoot has an engine with listeners, so Validate answers nil although the
   engine was never started (e.g. OnBoot returned Shutdown and Run has returned). *)
Definition C19_never_started_full : Prop := forall s,
  ereachable s -> e_started s = false -> validate (phase_s s) = REmpty.

Theorem C19_never_started_refuted : exists s, ereachable s /\ returned s = true /\ e_started s = false /\
  validate (phase_s s) = RNil /\ stop_entry (phase_s s) = None /\
  dup_res (phase_s s) (c_nlis (e_cfg s)) (lis_open s) = ROsErr.
Proof. exact never_started_refuted. Qed.
Print Assumptions C19_never_started_refuted.

(* the partial theorem: a handle whose engine never reached OnBoot (the zero Engine{}) is empty;
   e_alloc s = false holds exactly until Run / Client.Start calls OnBoot *)
Theorem C19_never_started_partial : forall s, e_alloc s = false ->
  phase_s s = PEmpty /\ validate (phase_s s) = REmpty /\ stop_entry (phase_s s) = Some REmpty.
Proof. exact never_started_partial. Qed.
Print Assumptions C19_never_started_partial.

Theorem C19_alloc_iff_booted : forall s, ereachable s -> (e_alloc s = false <-> e_r s = R0).
Proof. exact alloc_iff_booted. Qed.
Print Assumptions C19_alloc_iff_booted.

(* ---- non-vacuity: evaluated by the kernel *)

(* a running engine with one registration in flight whose loop is polling: the hypotheses of
   C19_one_result_partial / C19_registration_queued hold there *)
Definition ex_cfg : config := mkCfg false 1 true false 2.
Definition ex_waiting : estate :=
  fst (run estep (einit ex_cfg 2)
         [ (TR, CBoot ANone); (TR, CNone); (TR, CNone);
           (TU 0, CCall (KRegister TgtAddr 1)); (TW 0, CDial true); (TW 0, CTrig false) ]).
Example C19_ex_waiting :
  phase_s ex_waiting = PRunning /\
  (exists w, nth_error (e_workers ex_waiting) 0 = Some w /\ w_pc w = WWait /\ w_opened w = false /\ w_loop w = 1%nat) /\
  (exists l, get_loop ex_waiting 1 = Some l /\ l_pc l = LPoll /\ l_q l = [TReg 0 (OWorker 0)]).
Proof. vm_compute. repeat split; eexists; repeat split. Qed.

(* a Stop with an expired context on a running engine, then the whole shutdown, then a second Stop *)
Definition ex_stopped : estate :=
  fst (run estep (einit ex_cfg 2)
         [ (TR, CBoot ANone); (TR, CNone); (TR, CNone);
           (TU 0, CCall (KStop true)); (TU 0, CPollCtx);
           (TR, CNone); (TR, CNone); (TR, CNone); (TR, CNone);
           (TL 0, CRun 0 h_none); (TL 0, CNone); (TL 0, CNone);
           (TL 1, CRun 0 h_none); (TL 1, CNone); (TL 1, CNone);
           (TA, CRun 0 h_none); (TA, CNone); (TA, CNone);
           (TR, CNone); (TR, CNone); (TR, CNone); (TR, CNone);
           (TU 0, CCall (KStop false)); (TU 1, CCall KValidate); (TU 1, CCall KCount) ]).
Example C19_ex_stopped :
  phase_s ex_stopped = PShutdown /\ returned ex_stopped = true /\
  map snd (e_hist ex_stopped) =
    [KRes (RCount (-1)); KRes RInShutdown; KRes RInShutdown; KRet; KShutdown; KRes RCtxErr; KBoot].
Proof. vm_compute. repeat split. Qed.

(* a client: Dial before Start, Start, Dial (served by the loop), Client.Stop, then Dial and two
   further Stops on the stopped client: the three refusals change nothing *)
Definition ex_ccfg : config := mkCfg true 0 false false 1.
Definition ex_client_steps : list (tid * choice) :=
  [ (TU 0, CCall (KCliEnroll 0 false));
    (TR, CBoot ANone); (TR, CNone); (TR, CNone);
    (TU 0, CCall (KCliEnroll 0 false)); (TL 0, CRun 0 h_none); (TU 0, CNone);
    (TR, CClientStop); (TR, CNone); (TR, CNone); (TR, CNone);
    (TL 0, CRun 0 h_none); (TL 0, CNone); (TL 0, CNone); (TL 0, CNone);
    (TR, CNone); (TR, CNone); (TR, CNone); (TR, CNone) ].
Definition ex_client_stopped : estate := fst (run estep (einit ex_ccfg 2) ex_client_steps).
Definition ex_client_after : estate :=
  fst (run estep ex_client_stopped
         [ (TU 1, CCall (KCliEnroll 0 false)); (TU 0, CCall KCliStop); (TU 1, CCall KCliStop) ]).
Example C19_ex_client :
  e_insd ex_client_stopped = true /\ returned ex_client_stopped = true /\
  map snd (e_hist ex_client_stopped) = [KRet; KClose 0; KShutdown; KRes RNil; KOpen 0; KBoot; KRes REmpty] /\
  map snd (e_hist ex_client_after) =
    [KRes RInShutdown; KRes RInShutdown; KRes RInShutdown] ++ map snd (e_hist ex_client_stopped) /\
  set_hist ex_client_after [] = set_hist ex_client_stopped [].
Proof. vm_compute. repeat split. Qed.
