package main

import (
	"fmt"
	"go/ast"
	"go/token"
	"go/types"
	"sort"
	"strings"
)

// Packages whose function bodies are analysed (calls into them are followed).
// Every other package is a boundary: the call is recorded according to the
// rules in call.go and not entered.
var descendPkgs = map[string]bool{
	modPath:                  true,
	modPath + "/pkg/netpoll": true,
	modPath + "/pkg/socket":  true,
}

// Packages whose struct fields and package-level variables are locations.
var trackPkgs = map[string]bool{
	modPath:                  true,
	modPath + "/pkg/netpoll": true,
	modPath + "/pkg/socket":  true,
	modPath + "/pkg/queue":   true,
}

type guard struct {
	loc string
	val bool
}

type access struct {
	loc, kind string // kind: R W AR AW
	owned     bool
	guards    []guard
	via       string
	pos       token.Pos
	root      *types.Var // root variable of the access path (nil if none)
}

type fnode struct {
	name   string
	pkg    *pkgInfo
	obj    *types.Func
	params []*types.Var // receiver first, if any
	body   *ast.BlockStmt
	lit    *ast.FuncLit
	nlits  int
}

type edge struct {
	callee *fnode
	mask   uint64
	guards []guard
}

type spawn struct {
	kind   string // trigger | submit | go | errgroup
	target *fnode // nil when the function value could not be resolved
	text   string
	from   string
}

type cbsite struct {
	kind, via string
	guards    []guard
}

type summary struct {
	acc        []access
	edges      []edge
	spawns     []spawn
	cbs        []cbsite
	escaped    map[int]bool
	callsParam map[int]bool
	untrans    []string
}

type skey struct {
	fn   *fnode
	mask uint64
}

type world struct {
	l         *loader
	funcs     map[*types.Func]*fnode
	lits      map[*ast.FuncLit]*fnode
	byName    map[string]*fnode
	fieldName map[*types.Var]string
	varName   map[*types.Var]string
	sums      map[skey]*summary
	busy      map[skey]bool
	retFresh  map[*fnode]int // 0 unknown, 1 yes, 2 no, 3 in progress
	impls     map[*types.Func][]*fnode
	named     []*types.Named
}

func pkgPrefix(p *pkgInfo) string {
	if p.short == "" {
		return ""
	}
	return p.short + "."
}

func recvTypeName(t types.Type) string {
	for {
		switch v := t.(type) {
		case *types.Pointer:
			t = v.Elem()
			continue
		case *types.Named:
			return v.Obj().Name()
		}
		return "?"
	}
}

func newWorld(l *loader) *world {
	w := &world{l: l, funcs: map[*types.Func]*fnode{}, lits: map[*ast.FuncLit]*fnode{}, byName: map[string]*fnode{},
		fieldName: map[*types.Var]string{}, varName: map[*types.Var]string{}, sums: map[skey]*summary{},
		busy: map[skey]bool{}, retFresh: map[*fnode]int{}, impls: map[*types.Func][]*fnode{}}
	var paths []string
	for p := range l.pkgs {
		paths = append(paths, p)
	}
	sort.Strings(paths)
	for _, path := range paths {
		p := l.pkgs[path]
		if p.pkg == nil {
			continue
		}
		if trackPkgs[path] {
			sc := p.pkg.Scope()
			for _, n := range sc.Names() {
				switch o := sc.Lookup(n).(type) {
				case *types.TypeName:
					if nt, ok := o.Type().(*types.Named); ok {
						w.named = append(w.named, nt)
						if st, ok := nt.Underlying().(*types.Struct); ok {
							w.nameFields(pkgPrefix(p)+o.Name(), st)
						}
					}
				case *types.Var:
					w.varName[o] = "var:" + pkgPrefix(p) + o.Name()
				}
			}
		}
		if !descendPkgs[path] {
			continue
		}
		for _, f := range p.files {
			for _, d := range f.Decls {
				fd, ok := d.(*ast.FuncDecl)
				if !ok || fd.Body == nil {
					continue
				}
				obj, _ := p.info.Defs[fd.Name].(*types.Func)
				if obj == nil {
					continue
				}
				sig := obj.Type().(*types.Signature)
				fn := &fnode{pkg: p, obj: obj, body: fd.Body}
				name := fd.Name.Name
				if r := sig.Recv(); r != nil {
					fn.params = append(fn.params, r)
					name = recvTypeName(r.Type()) + "." + name
				}
				for i := 0; i < sig.Params().Len(); i++ {
					fn.params = append(fn.params, sig.Params().At(i))
				}
				fn.name = pkgPrefix(p) + name
				if old, dup := w.byName[fn.name]; dup && old != fn {
					fn.name = fn.name + "@" + l.relPos(fd.Pos())
				}
				w.funcs[obj] = fn
				w.byName[fn.name] = fn
				// number the function literals of this declaration in source order
				ast.Inspect(fd.Body, func(n ast.Node) bool {
					if fl, ok := n.(*ast.FuncLit); ok {
						fn.nlits++
						ln := &fnode{pkg: p, body: fl.Body, lit: fl, name: fmt.Sprintf("%s$%d", fn.name, fn.nlits)}
						if tv, ok := p.info.Types[fl]; ok {
							if sg, ok := tv.Type.(*types.Signature); ok {
								for i := 0; i < sg.Params().Len(); i++ {
									ln.params = append(ln.params, sg.Params().At(i))
								}
							}
						}
						w.lits[fl] = ln
						w.byName[ln.name] = ln
					}
					return true
				})
			}
		}
	}
	return w
}

func (w *world) nameFields(prefix string, st *types.Struct) {
	for i := 0; i < st.NumFields(); i++ {
		f := st.Field(i)
		w.fieldName[f] = prefix + "." + f.Name()
		if inner, ok := f.Type().(*types.Struct); ok { // anonymous struct type
			w.nameFields(prefix+"."+f.Name(), inner)
		}
	}
}

func (w *world) fieldLoc(f *types.Var) (string, bool) {
	f = f.Origin()
	n, ok := w.fieldName[f]
	return n, ok
}

// implementations of an interface method among the named types of the tracked packages
func (w *world) implsOf(m *types.Func) []*fnode {
	if r, ok := w.impls[m]; ok {
		return r
	}
	var out []*fnode
	seen := map[*fnode]bool{}
	sig := m.Type().(*types.Signature)
	iface, _ := sig.Recv().Type().Underlying().(*types.Interface)
	if iface != nil {
		for _, nt := range w.named {
			if _, isIface := nt.Underlying().(*types.Interface); isIface {
				continue
			}
			for _, t := range []types.Type{nt, types.NewPointer(nt)} {
				if !types.Implements(t, iface) {
					continue
				}
				obj, _, _ := types.LookupFieldOrMethod(t, true, m.Pkg(), m.Name())
				if f, ok := obj.(*types.Func); ok {
					if fn := w.funcs[f.Origin()]; fn != nil && !seen[fn] {
						seen[fn] = true
						out = append(out, fn)
					}
				}
			}
		}
	}
	sort.Slice(out, func(i, j int) bool { return out[i].name < out[j].name })
	w.impls[m] = out
	return out
}

func guardsKey(gs []guard) string {
	var s []string
	for _, g := range gs {
		s = append(s, fmt.Sprintf("%s=%v", g.loc, g.val))
	}
	sort.Strings(s)
	return strings.Join(s, ",")
}

func normGuards(gs []guard) []guard {
	seen := map[string]bool{}
	var out []guard
	for _, g := range gs {
		k := fmt.Sprintf("%s=%v", g.loc, g.val)
		if !seen[k] {
			seen[k] = true
			out = append(out, g)
		}
	}
	sort.Slice(out, func(i, j int) bool {
		if out[i].loc != out[j].loc {
			return out[i].loc < out[j].loc
		}
		return !out[i].val && out[j].val
	})
	return out
}

func interGuards(a, b []guard) []guard {
	var out []guard
	for _, x := range a {
		for _, y := range b {
			if x == y {
				out = append(out, x)
				break
			}
		}
	}
	return out
}
