// drv-elastic drives pkg/buffer/elastic (C10): the elastic RingBuffer (a
// lazily acquired pooled ring.Buffer) and the mixed ring/linked-list Buffer.
// It is an interpreter of `op` lines (used by the generator and by -replay),
// writes the trace consumed by the extracted model (family "elastic") and
// evaluates the direct oracle: a reference []byte FIFO.
//
// The capacity of the ring buffer the pool hands back at a lazy acquisition is
// a model INPUT (first argument of every op that can acquire).  In a `seed`
// case the driver chooses it (ringbuffer.VerifSeed makes the next Get return a
// ring of that capacity); in a `real` case the stock pool decides and the
// driver records what came back (identified by pointer, or ring.New of the
// pool's default size for a buffer it has never seen).
package main

import (
	"bytes"
	"errors"
	"flag"
	"fmt"
	"io"
	"math"
	"strconv"

	"github.com/panjf2000/gnet/v2/pkg/buffer/elastic"
	"github.com/panjf2000/gnet/v2/pkg/buffer/ring"
	rbPool "github.com/panjf2000/gnet/v2/pkg/pool/ringbuffer"

	"verifharness/tr"
)

var w *tr.Writer

var errScripted = errors.New("scripted failure")

func errSym(e error) string {
	switch e {
	case nil:
		return "nil"
	case ring.ErrIsEmpty:
		return "empty"
	case io.ErrShortWrite:
		return "shortwrite"
	case io.ErrShortBuffer:
		return "shortbuf"
	case io.EOF:
		return "eof"
	case errScripted:
		return "err"
	}
	return "other"
}

func errOf(s string) error {
	switch s {
	case "nil":
		return nil
	case "eof":
		return io.EOF
	}
	return errScripted
}

type resp struct {
	k int
	e string
}

func parseScript(a []string) []resp {
	var out []resp
	for i := 0; i+1 < len(a); i += 2 {
		k, err := strconv.Atoi(a[i])
		if err != nil {
			break
		}
		out = append(out, resp{k, a[i+1]})
	}
	return out
}

// scripted io.Reader: entry (k,e) delivers min(len p, k, len src) bytes with e;
// an exhausted script answers (0, EOF).
type sreader struct {
	src    []byte
	script []resp
	calls  int
}

func (s *sreader) Read(p []byte) (int, error) {
	s.calls++
	rp := resp{0, "eof"}
	if len(s.script) > 0 {
		rp = s.script[0]
		s.script = s.script[1:]
	}
	n := rp.k
	if n < 0 {
		n = 0
	}
	if n > len(p) {
		n = len(p)
	}
	if n > len(s.src) {
		n = len(s.src)
	}
	copy(p, s.src[:n])
	s.src = s.src[n:]
	return n, errOf(rp.e)
}

// scripted io.Writer: entry (k,e) accepts min(len p, k) bytes and returns e;
// an exhausted script accepts everything.
type swriter struct {
	script  []resp
	recv    []byte
	refused bool // some call was not accepted completely or returned an error
}

func (s *swriter) Write(p []byte) (int, error) {
	if len(s.script) == 0 {
		s.recv = append(s.recv, p...)
		return len(p), nil
	}
	rp := s.script[0]
	s.script = s.script[1:]
	m := rp.k
	if m < 0 {
		m = 0
	}
	if m > len(p) {
		m = len(p)
	}
	s.recv = append(s.recv, p[:m]...)
	if m < len(p) || rp.e != "nil" {
		s.refused = true
	}
	return m, errOf(rp.e)
}

// ---------------------------------------------------------------- pool input

// capOf remembers the capacity of every ring.Buffer ever seen attached to an
// elastic buffer (real-pool cases: a ring that comes back from the pool is
// recognised by its address; capacities only change while attached).
var capOf = map[*ring.Buffer]int{}

// mkRing builds an empty ring.Buffer of (as nearly as the package allows)
// capacity c, the way one ends up in the pool: created, grown, emptied.
func mkRing(c int) *ring.Buffer {
	if c <= 0 {
		return ring.New(0)
	}
	rb := ring.New(c)
	if rb.Cap() == c || c <= 4 {
		return rb // a power of two (or the nearest one for 1 and 3)
	}
	rb = ring.New(2)
	_, _ = rb.Write(make([]byte, c)) // grow(c): above twice the size the new capacity is exactly c
	rb.Reset()
	return rb
}

// ---------------------------------------------------------------- interpreter

type machine struct {
	typ  string // "ring" | "buffer"
	rb   *elastic.RingBuffer
	mb   *elastic.Buffer
	ref  []byte // direct oracle: bytes accepted and not yet consumed
	dead bool
	real bool // the stock pool decides the capacity at lazy acquisition

	pend []func() // obs / fail / tag records of the op being executed (emitted after its op line)
}

func (m *machine) obs(l tr.Line) { m.pend = append(m.pend, func() { w.Obs(l) }) }
func (m *machine) fail(site, sig, detail string) {
	m.pend = append(m.pend, func() { w.Fail(site, sig, detail) })
}
func (m *machine) tag(t string) { m.pend = append(m.pend, func() { w.Tag(t) }) }
func (m *machine) flush() {
	for _, f := range m.pend {
		f()
	}
	m.pend = m.pend[:0]
}

func short(b []byte) string {
	if len(b) > 24 {
		return fmt.Sprintf("%x..(%d)", b[:24], len(b))
	}
	return fmt.Sprintf("%x", b)
}

// scribble overwrites a slice the driver handed to a write operation (after the reference copy was taken)
func scribble(b []byte) {
	for i := range b {
		b[i] = 0xEE
	}
}

func flatten(bs [][]byte) []byte {
	var out []byte
	for _, b := range bs {
		out = append(out, b...)
	}
	return out
}

func (m *machine) ering() *elastic.RingBuffer {
	if m.typ == "ring" {
		return m.rb
	}
	return m.mb.VerifRingBuffer()
}

func (m *machine) inst() *ring.Buffer { return m.ering().VerifRing() }

func (m *machine) pfx() string {
	if m.typ == "ring" {
		return "RingBuffer."
	}
	return "Buffer."
}

// state observables + accounting oracle
func (m *machine) state(site string) {
	var line tr.Line
	var content []byte
	var bu int
	var ie bool
	p, msg := tr.Guard(func() {
		if m.typ == "ring" {
			r := m.rb
			content = r.Bytes()
			bu, ie = r.Buffered(), r.IsEmpty()
			bx := "-"
			if bu <= 768 {
				bx = tr.X(content)
			}
			line = tr.L("st", tr.B(r.VerifRing() == nil), tr.I(bu), tr.I(r.Available()), tr.I(r.Cap()), tr.I(r.Len()),
				tr.B(ie), tr.B(r.IsFull()), bx)
			if bu+r.Available() != r.Cap() && r.VerifRing() != nil {
				m.fail(site, "ring-accounting", fmt.Sprintf("buffered=%d available=%d cap=%d", bu, r.Available(), r.Cap()))
			}
		} else {
			b := m.mb
			bu, ie = b.Buffered(), b.IsEmpty()
			er, ll := b.VerifRingBuffer(), b.VerifListBuffer()
			bx := "-"
			if bu <= 768 {
				segs, err := b.Peek(-1)
				content = flatten(segs)
				bx = tr.X(content)
				if err != nil {
					m.fail(site, "peek-all-error", fmt.Sprint(err))
				}
			} else {
				// the oracle still looks at everything, through the two halves
				content = append(append([]byte{}, er.Bytes()...), func() []byte {
					segs, _ := ll.Peek(-1)
					return flatten(segs)
				}()...)
			}
			line = tr.L("st", tr.I(bu), tr.B(ie), tr.I(b.VerifMaxStatic()), tr.B(er.VerifRing() == nil),
				tr.I(er.Buffered()), tr.I(er.Cap()), tr.I(ll.Buffered()), tr.I(ll.Len()), bx)
			if er.Buffered() > 0 && ll.Buffered() > 0 {
				m.tag("ring+list")
			}
			if er.Buffered() == 0 && ll.Buffered() > 0 {
				m.tag("list-only")
			}
			if _, t := er.Peek(-1); len(t) > 0 {
				m.tag("ring-wrapped")
				if ll.Buffered() > 0 {
					m.tag("ring-wrapped+list")
				}
			}
			if er.VerifRing() != nil && er.Buffered() == er.Cap() && er.Cap() > 0 {
				m.tag("ring-full")
			}
		}
	})
	if p {
		m.obs(tr.L("st", "panic"))
		m.fail(site, "state-panic", msg)
		m.dead = true
		return
	}
	m.obs(line)
	if !bytes.Equal(content, m.ref) {
		m.fail(site, "content", fmt.Sprintf("content=%s want %s", short(content), short(m.ref)))
	}
	if bu != len(m.ref) || ie != (len(m.ref) == 0) {
		m.fail(site, "accounting", fmt.Sprintf("buffered=%d empty=%v want buffered=%d", bu, ie, len(m.ref)))
	}
}

// acquiring ops carry the pool capacity as their first argument
func acquiring(name string) bool {
	switch name {
	case "write", "writestring", "writebyte", "writev", "readfrom":
		return true
	}
	return false
}

func (m *machine) exec(op tr.Line) {
	if m.dead {
		return
	}
	name := op.Name
	if name == "new" {
		w.Op(op)
		m.ref = nil
		if len(op.Args) > 0 && op.Args[0] == "ring" {
			m.typ, m.rb = "ring", &elastic.RingBuffer{}
			w.Obs(tr.L("new", "ok"))
		} else {
			m.typ = "buffer"
			mx := 0
			if len(op.Args) > 1 {
				mx = op.Int(1)
			}
			mb, err := elastic.New(mx)
			if err != nil {
				mb = &elastic.Buffer{} // the zero value, as embedded in gnet's conn before Reset
				w.Obs(tr.L("new", "err"))
			} else {
				w.Obs(tr.L("new", "ok"))
			}
			m.mb = mb
		}
		m.state("New")
		m.flush()
		return
	}
	if m.typ == "" {
		w.Op(op)
		w.Obs(tr.L("unknown"))
		return
	}
	// ---- the pool's answer for this op
	wasNil := m.inst() == nil
	defSize := rbPool.VerifDefaultSize()
	if acquiring(name) && len(op.Args) > 0 && wasNil && !m.real {
		rb := mkRing(op.Int(0))
		capOf[rb] = rb.Cap() // it stays in the pool if this op does not acquire after all
		op.Args[0] = tr.I(rb.Cap())
		rbPool.VerifSeed(rb, 0)
	}
	capBefore := m.ering().Cap()
	pf := m.pfx()
	var site string
	var after func()
	p, msg := tr.Guard(func() {
		switch name {
		case "write", "writestring":
			data := op.Bytes(1)
			var n int
			var err error
			site = pf + "Write"
			if m.typ == "ring" {
				if name == "write" {
					n, err = m.rb.Write(data)
				} else {
					n, err = m.rb.WriteString(string(data))
				}
			} else {
				n, err = m.mb.Write(data)
			}
			m.obs(tr.L("write", tr.I(n), errSym(err)))
			m.ref = append(m.ref, data...)
			// the caller's slice is the caller's again once Write has returned (io.Writer): it is overwritten here,
			// so a buffer that kept a reference instead of a copy shows other bytes later
			scribble(data)
			if n != len(data) || err != nil {
				m.fail(site, "result", fmt.Sprintf("n=%d err=%v len=%d", n, err, len(data)))
			}
		case "writebyte":
			site = pf + "WriteByte"
			if m.typ != "ring" {
				m.obs(tr.L("unknown"))
				return
			}
			c := byte(op.Int(1))
			err := m.rb.WriteByte(c)
			m.obs(tr.L("writebyte", errSym(err)))
			m.ref = append(m.ref, c)
			if err != nil {
				m.fail(site, "result", fmt.Sprint(err))
			}
		case "writev":
			site = pf + "Writev"
			if m.typ != "buffer" {
				m.obs(tr.L("unknown"))
				return
			}
			var bs [][]byte
			tot := 0
			for i := 1; i < len(op.Args); i++ {
				b := op.Bytes(i)
				bs = append(bs, b)
				tot += len(b)
			}
			n, err := m.mb.Writev(bs)
			m.obs(tr.L("writev", tr.I(n), errSym(err)))
			m.ref = append(m.ref, flatten(bs)...)
			for _, b := range bs {
				scribble(b)
			}
			if n != tot || err != nil {
				m.fail(site, "result", fmt.Sprintf("n=%d err=%v total=%d", n, err, tot))
			}
			if len(bs) > 1024 {
				m.tag("writev>1024")
			}
		case "read":
			site = pf + "Read"
			n := op.Int(0)
			pbuf := make([]byte, n)
			var k int
			var err error
			if m.typ == "ring" {
				k, err = m.rb.Read(pbuf)
			} else {
				k, err = m.mb.Read(pbuf)
			}
			if k < 0 || k > n {
				m.obs(tr.L("read", tr.I(k), errSym(err), "x"))
				m.fail(site, "result", fmt.Sprintf("count %d out of range", k))
				return
			}
			m.obs(tr.L("read", tr.I(k), errSym(err), tr.X(pbuf[:k])))
			want := n
			if want > len(m.ref) {
				want = len(m.ref)
			}
			if k != want || !bytes.Equal(pbuf[:k], m.ref[:want]) {
				m.fail(site, "result", fmt.Sprintf("n=%d err=%v data=%s want n=%d data=%s", k, err, short(pbuf[:k]), want, short(m.ref[:want])))
			} else if n > 0 && n <= len(m.ref) && err != nil {
				m.fail(site, "error-with-enough-data", fmt.Sprintf("n=%d err=%v buffered=%d", k, err, len(m.ref)))
			}
			m.ref = m.ref[want:]
		case "readbyte":
			site = pf + "ReadByte"
			if m.typ != "ring" {
				m.obs(tr.L("unknown"))
				return
			}
			b, err := m.rb.ReadByte()
			m.obs(tr.L("readbyte", tr.I(int(b)), errSym(err)))
			if len(m.ref) == 0 {
				if err != ring.ErrIsEmpty {
					m.fail(site, "result", fmt.Sprintf("err=%v on empty buffer", err))
				}
			} else {
				if err != nil || b != m.ref[0] {
					m.fail(site, "result", fmt.Sprintf("b=%d err=%v want %d", b, err, m.ref[0]))
				}
				m.ref = m.ref[1:]
			}
		case "peek":
			site = pf + "Peek"
			n := op.Int(0)
			if m.typ == "ring" {
				h, t := m.rb.Peek(n)
				m.obs(tr.L("peek", tr.I(len(h)), tr.I(len(t)), tr.X(h), tr.X(t)))
				want := len(m.ref)
				if n > 0 && n < want {
					want = n
				}
				got := append(append([]byte{}, h...), t...)
				if !bytes.Equal(got, m.ref[:want]) {
					m.fail(site, "result", fmt.Sprintf("n=%d got %s want %s", n, short(got), short(m.ref[:want])))
				}
				if len(t) > 0 {
					m.tag("peek-two-segments")
				}
				return
			}
			rbu := m.mb.VerifRingBuffer().Buffered()
			segs, err := m.mb.Peek(n)
			line := []string{errSym(err), tr.I(len(segs))}
			for _, s := range segs {
				line = append(line, tr.X(s))
			}
			m.obs(tr.L("peek", line...))
			got := flatten(segs)
			pos := "ring<n" // where the request ends relative to the ring part
			if n == rbu {
				pos = "ring=n"
			} else if n < rbu {
				pos = "ring>n"
			}
			switch {
			case n <= 0 || n == math.MaxInt32:
				if err != nil || !bytes.Equal(got, m.ref) {
					m.fail(site, "all", fmt.Sprintf("Peek(%d) = (%s,%v) want everything (%d bytes)", n, short(got), err, len(m.ref)))
				}
			case n > len(m.ref):
				if err != io.ErrShortBuffer || len(segs) != 0 {
					m.fail(site, "beyond", fmt.Sprintf("Peek(%d) with %d buffered = (%d segments,%v) want ErrShortBuffer", n, len(m.ref), len(segs), err))
				}
				m.tag("peek-beyond")
			default:
				if err != nil || !bytes.Equal(got, m.ref[:n]) {
					m.fail(site, "prefix "+pos+" err="+errSym(err), fmt.Sprintf("Peek(%d) with ring=%d list=%d = (%s,%v) want the first %d bytes",
						n, rbu, len(m.ref)-rbu, short(got), err, n))
				}
				m.tag("peek-prefix-" + pos)
			}
		case "discard":
			site = pf + "Discard"
			n := op.Int(0)
			var d int
			var err error
			if m.typ == "ring" {
				d, err = m.rb.Discard(n)
			} else {
				rbu := m.mb.VerifRingBuffer().Buffered()
				if n > rbu && rbu > 0 {
					m.tag("discard-across")
				}
				d, err = m.mb.Discard(n)
			}
			m.obs(tr.L("discard", tr.I(d), errSym(err)))
			want := n
			if want < 0 {
				want = 0
			}
			if want > len(m.ref) {
				want = len(m.ref)
			}
			if d != want {
				m.fail(site, "result", fmt.Sprintf("n=%d discarded=%d err=%v want %d", n, d, err, want))
			} else if n > 0 && len(m.ref) > 0 && err != nil {
				m.fail(site, "error-on-nonempty", fmt.Sprintf("n=%d err=%v", n, err))
			}
			m.ref = m.ref[want:]
		case "bytes":
			site = pf + "Bytes"
			if m.typ != "ring" {
				m.obs(tr.L("unknown"))
				return
			}
			b := m.rb.Bytes()
			m.obs(tr.L("bytes", tr.X(b)))
			if !bytes.Equal(b, m.ref) {
				m.fail(site, "result", fmt.Sprintf("got %s want %s", short(b), short(m.ref)))
			}
		case "readfrom":
			site = pf + "ReadFrom"
			src := op.Bytes(1)
			rd := &sreader{src: src, script: parseScript(op.Args[2:])}
			wantErr := "nil"
			for _, rp := range rd.script {
				if rp.e == "eof" {
					break
				}
				if rp.e != "nil" {
					wantErr = "err"
					break
				}
			}
			after = func() {
				delivered := len(src) - len(rd.src)
				m.ref = append(m.ref, src[:delivered]...)
			}
			var n int64
			var err error
			if m.typ == "ring" {
				n, err = m.rb.ReadFrom(rd)
			} else {
				n, err = m.mb.ReadFrom(rd)
			}
			m.obs(tr.L("readfrom", tr.I64(n), errSym(err), tr.I(len(rd.src))))
			delivered := len(src) - len(rd.src)
			if int(n) != delivered || errSym(err) != wantErr {
				m.fail(site, "result", fmt.Sprintf("n=%d err=%v delivered=%d wanterr=%s", n, err, delivered, wantErr))
			}
			if rd.calls > 2 {
				m.tag("reader-multi")
			}
			if wantErr == "err" {
				m.tag("reader-error")
			}
		case "writeto":
			site = pf + "WriteTo"
			wr := &swriter{script: parseScript(op.Args)}
			wasLen := len(m.ref)
			after = func() {
				k := len(wr.recv)
				if k > len(m.ref) {
					k = len(m.ref)
				}
				m.ref = m.ref[k:]
			}
			var n int64
			var err error
			rbu, lbu := 0, 0
			if m.typ == "ring" {
				n, err = m.rb.WriteTo(wr)
			} else {
				rbu, lbu = m.mb.VerifRingBuffer().Buffered(), m.mb.VerifListBuffer().Buffered()
				n, err = m.mb.WriteTo(wr)
			}
			m.obs(tr.L("writeto", tr.I64(n), errSym(err), tr.X(wr.recv)))
			switch {
			case int(n) != len(wr.recv) || len(wr.recv) > wasLen || !bytes.Equal(wr.recv, m.ref[:min(len(wr.recv), wasLen)]):
				m.fail(site, "result", fmt.Sprintf("n=%d err=%v received=%s buffered-before=%d", n, err, short(wr.recv), wasLen))
			case m.typ == "ring" && wasLen == 0 && err != ring.ErrIsEmpty:
				m.fail(site, "result", fmt.Sprintf("err=%v on an empty ring buffer", err))
			case wasLen > 0 && err == nil && len(wr.recv) != wasLen:
				m.fail(site, "nil-error-incomplete", fmt.Sprintf("received %d of %d", len(wr.recv), wasLen))
			case wasLen > 0 && !wr.refused && (err != nil || len(wr.recv) != wasLen):
				ringPart := "ring-nonempty"
				if rbu == 0 {
					ringPart = "ring-empty"
				}
				m.fail(site, "willing-writer-incomplete "+ringPart+" err="+errSym(err),
					fmt.Sprintf("the writer accepted everything it was offered, yet n=%d err=%v received %d of %d (ring=%d list=%d)",
						n, err, len(wr.recv), wasLen, rbu, lbu))
			}
			if len(wr.recv) < wasLen {
				m.tag("writer-short-or-error")
			}
			if rbu > 0 && lbu > 0 && len(wr.recv) > rbu {
				m.tag("writeto-across")
			}
		case "reset":
			site = pf + "Reset"
			if m.typ == "ring" {
				m.rb.Reset()
			} else {
				mx := 0
				if len(op.Args) > 0 {
					mx = op.Int(0)
				}
				m.mb.Reset(mx)
			}
			m.obs(tr.L("reset", "ok"))
			m.ref = nil
		case "done":
			site = pf + "Done"
			if m.typ != "ring" {
				m.obs(tr.L("unknown"))
				return
			}
			m.rb.Done()
			m.obs(tr.L("done", "ok"))
			m.ref = nil
		case "release":
			site = pf + "Release"
			if m.typ != "buffer" {
				m.obs(tr.L("unknown"))
				return
			}
			m.mb.Release()
			m.obs(tr.L("release", "ok"))
			m.ref = nil
		default:
			site = "unknown"
			m.obs(tr.L("unknown"))
		}
	})
	if after != nil {
		after()
	}
	// ---- what the pool handed back (real pool: found out afterwards)
	nowInst := m.inst()
	if acquiring(name) && len(op.Args) > 0 && wasNil && m.real {
		c := 0
		if nowInst != nil {
			if c0, ok := capOf[nowInst]; ok {
				c = c0
				m.tag("pool-recycled")
			} else {
				c = ring.New(defSize).Cap()
			}
		}
		op.Args[0] = tr.I(c)
	}
	if nowInst != nil {
		capOf[nowInst] = nowInst.Cap()
	}
	w.Op(op)
	if p {
		m.flush()
		if name == "writestring" {
			name = "write"
		}
		w.Obs(tr.L(name, "panic"))
		w.Fail(site, "panic", msg)
		m.dead = true
		return
	}
	m.state(site)
	m.flush()
	if wasNil && nowInst != nil {
		w.Tag("lazy-acquire")
	}
	if !wasNil && nowInst == nil {
		w.Tag("returned-to-pool")
	}
	if !m.dead && !wasNil && nowInst != nil && nowInst.Cap() != capBefore {
		w.Tag("grow")
	}
}

func min(a, b int) int {
	if a < b {
		return a
	}
	return b
}

// ---------------------------------------------------------------- generator

var maxStatics = []int{1, 4, 64, 1024, 4096, 65536}

func clamp(n, hi int) int {
	if n < 0 {
		return 0
	}
	if n > hi {
		return hi
	}
	return n
}

// a capacity for the pool to hand back
func pickCap(rnd *tr.Rand, mx int) int {
	switch rnd.Intn(12) {
	case 0, 1, 2:
		return 0 // an uncalibrated pool: ring.New(0)
	case 3:
		return 2
	case 4:
		return rnd.Pick([]int{4, 8, 64, 512})
	case 5:
		return 1024
	case 6:
		return clamp(mx, 65536)
	case 7:
		return clamp(mx/2, 32768)
	case 8:
		return clamp(2*mx, 131072)
	case 9:
		return rnd.Pick([]int{1000, 3000, 5120, 6400})
	case 10:
		return 4096
	default:
		return rnd.Intn(300)
	}
}

// payload sizes around the ring's room, its capacity and the static limit
func (m *machine) pickSize(rnd *tr.Rand, write bool, hi int) (int, string) {
	er := m.ering()
	av, cp, rbu := er.Available(), er.Cap(), er.Buffered()
	bu := len(m.ref)
	mx := 0
	if m.typ == "buffer" {
		mx = m.mb.VerifMaxStatic()
	}
	if write {
		switch rnd.Intn(16) {
		case 0:
			return 0, "0"
		case 1:
			return 1, "1"
		case 2:
			return clamp(av-1, hi), "avail-1"
		case 3:
			return clamp(av, hi), "avail"
		case 4:
			return clamp(av+1, hi), "avail+1"
		case 5:
			return clamp(mx-rbu-1, hi), "limit-1"
		case 6:
			return clamp(mx-rbu, hi), "limit"
		case 7:
			return clamp(mx-rbu+1, hi), "limit+1"
		case 8:
			return clamp(cp+rnd.Intn(3)-1, hi), "cap+-1"
		case 9:
			return clamp(mx+rnd.Intn(3)-1, hi), "max+-1"
		case 10:
			return clamp(rnd.Intn(2*mx+17), hi), "random<2max"
		case 11:
			return clamp(rnd.Intn(av+2), hi), "random<=avail"
		case 12:
			return clamp(511+rnd.Intn(3), hi), "511..513"
		default:
			return rnd.Intn(40), "random<40"
		}
	}
	switch rnd.Intn(14) {
	case 0:
		return 0, "0"
	case 1:
		return 1, "1"
	case 2:
		return clamp(rbu-1, hi), "ring-1"
	case 3:
		return clamp(rbu, hi), "ring"
	case 4:
		return clamp(rbu+1, hi), "ring+1"
	case 5:
		return clamp(bu-1, hi), "buffered-1"
	case 6:
		return clamp(bu, hi), "buffered"
	case 7:
		return clamp(bu+1, hi), "buffered+1"
	case 8, 9:
		return clamp(rnd.Intn(bu+1), hi), "random<=buffered"
	case 10:
		return clamp(rbu+rnd.Intn(bu-rbu+1), hi), "ring+random<=list"
	case 11:
		return clamp(rnd.Intn(rbu+1), hi), "random<=ring"
	default:
		return rnd.Intn(40), "random<40"
	}
}

func (m *machine) genReadScript(rnd *tr.Rand, hi int) []string {
	var out []string
	n := rnd.Intn(6)
	for i := 0; i < n; i++ {
		c := rnd.Intn(100)
		switch {
		case c < 45:
			out = append(out, "100000", "nil")
		case c < 75:
			k, _ := m.pickSize(rnd, false, hi)
			out = append(out, tr.I(k), "nil")
			w.Hist("rscript-short")
		case c < 85:
			k, _ := m.pickSize(rnd, false, hi)
			out = append(out, tr.I(k), "eof")
			w.Hist("rscript-data+eof")
		case c < 95:
			k, _ := m.pickSize(rnd, false, hi)
			out = append(out, tr.I(k), "err")
			w.Hist("rscript-partial+err")
		default:
			out = append(out, "0", "nil")
			w.Hist("rscript-0-nil")
		}
	}
	return out
}

func (m *machine) genWriteScript(rnd *tr.Rand, hi int) []string {
	var out []string
	n := rnd.Intn(5)
	for i := 0; i < n; i++ {
		c := rnd.Intn(100)
		k, _ := m.pickSize(rnd, false, hi)
		switch {
		case c < 40:
			out = append(out, "100000", "nil")
		case c < 60:
			out = append(out, tr.I(k), "nil")
			w.Hist("wscript-short-nil")
		case c < 80:
			out = append(out, tr.I(k), "err")
			w.Hist("wscript-partial+err")
		case c < 88:
			out = append(out, "0", "err")
			w.Hist("wscript-0-err")
		case c < 94:
			out = append(out, "0", "nil")
			w.Hist("wscript-0-nil")
		default:
			out = append(out, "100000", "err")
			w.Hist("wscript-all+err")
		}
	}
	return out
}

// split a payload of `total` bytes into `nseg` Writev segments (empty ones included)
func genSegments(rnd *tr.Rand, total, nseg int) []string {
	if nseg == 0 {
		return nil
	}
	data := rnd.Bytes(total)
	cuts := make([]int, nseg+1)
	cuts[nseg] = total
	for i := 1; i < nseg; i++ {
		switch rnd.Intn(4) {
		case 0: // empty segment
			cuts[i] = cuts[i-1]
		default:
			left := total - cuts[i-1]
			step := 0
			if left > 0 {
				step = rnd.Intn(2*left/(nseg-i+1) + 2)
				if rnd.Chance(10) {
					step = rnd.Intn(left + 1)
				}
			}
			if step > left {
				step = left
			}
			cuts[i] = cuts[i-1] + step
		}
	}
	out := make([]string, nseg)
	for i := 0; i < nseg; i++ {
		out[i] = tr.X(data[cuts[i]:cuts[i+1]])
	}
	return out
}

func pickSegCount(rnd *tr.Rand, allowHuge bool) (int, string) {
	switch rnd.Intn(12) {
	case 0:
		return 0, "0"
	case 1:
		return 1, "1"
	case 2, 3:
		return 2, "2"
	case 4, 5:
		return rnd.Range(3, 8), "3..8"
	case 6, 7:
		return rnd.Range(9, 40), "9..40"
	case 8:
		if allowHuge {
			return rnd.Range(1023, 1025), "1023..1025"
		}
		return rnd.Range(41, 120), "41..120"
	case 9:
		if allowHuge {
			return rnd.Range(1026, 1500), "1026..1500"
		}
		return rnd.Range(41, 120), "41..120"
	default:
		return rnd.Range(2, 5), "2..5"
	}
}

func genCase(rnd *tr.Rand, id int) {
	m := &machine{}
	m.real = rnd.Chance(25)
	pool := "seed"
	if m.real {
		pool = "real"
	}
	isRing := rnd.Chance(28)
	mx := rnd.Pick(maxStatics)
	if rnd.Chance(8) {
		mx = rnd.Pick([]int{0, -1, 2, 3, 100, 1000, 5000})
	}
	if isRing {
		w.Case(fmt.Sprintf("e%d", id), "elastic", "type=ring", "pool="+pool)
		w.Hist("type-ring")
		m.exec(tr.L("new", "ring"))
	} else {
		w.Case(fmt.Sprintf("e%d", id), "elastic", "type=buffer", "max="+tr.I(mx), "pool="+pool)
		w.Hist(fmt.Sprintf("type-buffer-max-%d", mx))
		m.exec(tr.L("new", "buffer", tr.I(mx)))
	}
	w.Hist("pool-" + pool)
	// bound the cost of a case for the extracted model: big limits get fewer, smaller-count ops
	hi := 10000
	nops := rnd.Range(1, 50)
	if !isRing && mx >= 65536 {
		hi = 70000
		nops = rnd.Range(1, 10)
	} else if !isRing && mx >= 4096 {
		nops = rnd.Range(1, 25)
	}
	wbias := rnd.Range(25, 65)
	for i := 0; i < nops && !m.dead; i++ {
		var op tr.Line
		capArg := tr.I(pickCap(rnd, mx))
		c := rnd.Intn(100)
		if c < wbias {
			k := rnd.Intn(10)
			switch {
			case k < 4:
				n, cl := m.pickSize(rnd, true, hi)
				w.Hist("write-" + cl)
				op = tr.L("write", capArg, tr.X(rnd.Bytes(n)))
			case k < 5 && isRing:
				n, cl := m.pickSize(rnd, true, hi)
				w.Hist("writestring-" + cl)
				op = tr.L("writestring", capArg, tr.X(rnd.Bytes(n)))
			case k < 7 && isRing:
				w.Hist("writebyte")
				op = tr.L("writebyte", capArg, tr.I(rnd.Intn(256)))
			case k < 8 && !isRing:
				// the cost of a Writev on the model is (#segments x ring capacity): many segments only on small rings
				allowHuge := m.ering().Cap() <= 4096 && mx <= 4096
				ns, scl := pickSegCount(rnd, allowHuge)
				n, cl := m.pickSize(rnd, true, hi)
				if ns > 200 && n > 4000 {
					n = rnd.Intn(4000)
				}
				if ns > 200 && rnd.Chance(50) {
					n = ns + rnd.Intn(ns) // about one or two bytes per segment
				}
				w.Hist("writev-segs-" + scl)
				w.Hist("writev-" + cl)
				op = tr.L("writev", append([]string{capArg}, genSegments(rnd, n, ns)...)...)
			default:
				n, cl := m.pickSize(rnd, true, hi)
				w.Hist("readfrom-" + cl)
				args := append([]string{capArg, tr.X(rnd.Bytes(n))}, m.genReadScript(rnd, hi)...)
				op = tr.L("readfrom", args...)
			}
		} else {
			k := rnd.Intn(16)
			switch {
			case k < 3:
				n, cl := m.pickSize(rnd, false, hi)
				w.Hist("read-" + cl)
				op = tr.L("read", tr.I(n))
			case k < 4 && isRing:
				w.Hist("readbyte")
				op = tr.L("readbyte")
			case k < 7:
				n, cl := m.pickSize(rnd, false, hi)
				if rnd.Chance(15) {
					n, cl = rnd.Pick([]int{-1, 0, -2, math.MaxInt32}), "all"
				}
				w.Hist("peek-" + cl)
				op = tr.L("peek", tr.I(n))
			case k < 11:
				n, cl := m.pickSize(rnd, false, hi)
				if rnd.Chance(10) {
					n, cl = -1-rnd.Intn(3), "negative"
				}
				w.Hist("discard-" + cl)
				op = tr.L("discard", tr.I(n))
			case k < 13:
				w.Hist("writeto")
				op = tr.L("writeto", m.genWriteScript(rnd, hi)...)
			case k < 14 && isRing:
				w.Hist("bytes")
				op = tr.L("bytes")
			case k < 15:
				if isRing {
					if rnd.Chance(50) {
						w.Hist("reset")
						op = tr.L("reset")
					} else {
						w.Hist("done")
						op = tr.L("done")
					}
				} else {
					if rnd.Chance(60) {
						nm := 0
						if rnd.Chance(50) {
							nm = rnd.Pick(maxStatics)
							if mx >= 65536 || nm >= 65536 {
								nm = mx
							}
						}
						w.Hist("reset")
						op = tr.L("reset", tr.I(nm))
					} else {
						w.Hist("release")
						op = tr.L("release")
					}
				}
			default:
				w.Hist("read-all")
				op = tr.L("read", tr.I(len(m.ref)))
			}
		}
		m.exec(op)
	}
	w.End()
}

func replay(path string) {
	for _, c := range tr.ReadCases(path) {
		m := &machine{}
		w.Case(c.ID, "elastic", tr.CfgList(c.Cfg)...)
		w.Tag("replay")
		for _, op := range c.Ops {
			m.exec(op)
		}
		w.End()
	}
}

func main() {
	seed := flag.Uint64("seed", 1, "")
	tier := flag.String("tier", "quick", "")
	out := flag.String("out", "trace.txt", "")
	stats := flag.String("stats", "", "")
	rep := flag.String("replay", "", "")
	flag.Parse()
	w = tr.NewWriter(*out)
	defer w.Close(*stats)
	if *rep != "" {
		replay(*rep)
		return
	}
	rnd := tr.NewRand(*seed)
	cnt := 500
	if *tier == "thorough" {
		cnt = 5000
	}
	for i := 1; i <= cnt; i++ {
		genCase(rnd, i)
	}
}
