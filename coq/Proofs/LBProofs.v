(* Proofs about Model/LB.v (property C15). *)
From Coq Require Import Lia ZArith Znumtheory ZifyBool List Bool.
From GV Require Import Lib.Trace Model.LB.
Import ListNotations.
Close Scope string_scope.
Open Scope list_scope.
Open Scope Z_scope.

Ltac splits := repeat match goal with |- _ /\ _ => split end.


(* ------------------------------------------------------------------ *)
(* crc32 stays a uint32                                                 *)

Lemma lxor_range : forall n a b, 0 <= n -> 0 <= a < 2 ^ n -> 0 <= b < 2 ^ n -> 0 <= Z.lxor a b < 2 ^ n.
Proof.
  intros n a b Hn Ha Hb. split; [apply Z.lxor_nonneg; lia|].
  destruct (Z.eq_dec (Z.lxor a b) 0) as [E|NE]; [rewrite E; apply Z.pow_pos_nonneg; lia|].
  assert (Hpos : 0 < Z.lxor a b) by (pose proof (proj2 (Z.lxor_nonneg a b)); lia).
  apply Z.log2_lt_pow2; [assumption|].
  pose proof (Z.log2_lxor a b ltac:(lia) ltac:(lia)) as Hl.
  assert (Hla : a = 0 \/ Z.log2 a < n).
  { destruct (Z.eq_dec a 0); [left; assumption|right; apply Z.log2_lt_pow2; lia]. }
  assert (Hlb : b = 0 \/ Z.log2 b < n).
  { destruct (Z.eq_dec b 0); [left; assumption|right; apply Z.log2_lt_pow2; lia]. }
  assert (H0 : Z.log2 0 = 0) by reflexivity.
  destruct Hla as [->|Hla]; destruct Hlb as [->|Hlb].
  - rewrite Z.lxor_0_l in NE. contradiction.
  - rewrite Z.lxor_0_l in *. assumption.
  - rewrite Z.lxor_0_r in *. assumption.
  - lia.
Qed.

Definition u32 (z : Z) : Prop := 0 <= z < 2 ^ 32.

Lemma crc_bit_range : forall c, u32 c -> u32 (crc_bit c).
Proof.
  unfold u32, crc_bit. intros c Hc.
  assert (Hs : 0 <= Z.shiftr c 1 < 2 ^ 32).
  { rewrite Z.shiftr_div_pow2 by lia. change (2 ^ 1) with 2. split; [apply Z.div_pos; lia|].
    apply Z.div_lt_upper_bound; lia. }
  destruct (Z.odd c); [|assumption].
  apply lxor_range; [lia|assumption|unfold crc_poly; lia].
Qed.

Lemma crc_byte_range : forall c b, u32 c -> 0 <= b < 256 -> u32 (crc_byte c b).
Proof.
  intros c b Hc Hb. unfold crc_byte.
  do 8 apply crc_bit_range.
  unfold u32 in *. apply lxor_range; lia.
Qed.

Lemma crc_fold_range : forall s c, is_bytes s -> u32 c -> u32 (fold_left crc_byte s c).
Proof.
  induction s as [|b s IH]; intros c Hs Hc; [assumption|].
  inversion Hs; subst. cbn [fold_left]. apply IH; [assumption|]. apply crc_byte_range; assumption.
Qed.

Theorem crc32_range : forall s, is_bytes s -> 0 <= crc32 s < 2 ^ 32.
Proof.
  intros s Hs. unfold crc32.
  apply lxor_range; [lia| |unfold crc_mask; lia].
  apply crc_fold_range; [assumption|unfold u32, crc_mask; lia].
Qed.

(* ------------------------------------------------------------------ *)
(* hash: with a 64-bit int the uint32 converts to itself, `-v` is never taken *)

Lemma wrap64_small : forall z, -9223372036854775808 <= z < 9223372036854775808 -> wrap64 z = z.
Proof. intros z H. unfold wrap64. rewrite Z.mod_small by lia. lia. Qed.

Theorem hash_is_crc32 : forall s, is_bytes s -> hash s = crc32 s.
Proof.
  intros s Hs. unfold hash, hash_with. pose proof (crc32_range s Hs) as Hr.
  rewrite wrap64_small by lia.
  destruct (Z.geb_spec (crc32 s) 0); [reflexivity|lia].
Qed.

Theorem hash_range : forall s, is_bytes s -> 0 <= hash s < 2 ^ 32.
Proof. intros s Hs. rewrite hash_is_crc32 by assumption. apply crc32_range; assumption. Qed.

(* remark: were `int` 32 bits wide, the same code could return a negative hash code
   (int32(0x80000000) = -2^31 = -(-2^31) after wrap), hence a negative index and a panic:
   the theorem needs the 64-bit int of linux/amd64 *)
Example hash_int32_can_be_negative : hash_int32 [78; 133; 236; 54] = -2147483648 /\ crc32 [78; 133; 236; 54] = 2 ^ 31.
Proof. split; vm_compute; reflexivity. Qed.

Theorem hash_next_in_range : forall s size, is_bytes s -> 1 <= size ->
  hash_next (Some s) size = Ret (hash s mod size) /\ 0 <= hash s mod size < size.
Proof.
  intros s size Hs Hsz. pose proof (hash_range s Hs) as Hr.
  pose proof (Z.mod_pos_bound (hash s) size ltac:(lia)) as Hm.
  split; [|assumption].
  unfold hash_next, go_rem.
  destruct (Z.eqb_spec size 0); [lia|].
  rewrite Z.rem_mod_nonneg by lia.
  replace ((hash s mod size <? 0) || (size <=? hash s mod size)) with false by lia.
  reflexivity.
Qed.

(* ------------------------------------------------------------------ *)
(* round robin                                                          *)


Lemma wrapu64_small : forall z, 0 <= z < 2 ^ 64 -> wrapu64 z = z.
Proof. intros. unfold wrapu64. apply Z.mod_small. lia. Qed.

Lemma rr_accepts_length : forall m c size, 1 <= size -> List.length (rr_accepts c size m) = m.
Proof.
  induction m as [|m IH]; intros c size Hs; [reflexivity|].
  cbn [rr_accepts]. unfold rr_next. destruct (Z.eqb_spec size 0); [lia|].
  cbn [List.length]. rewrite IH by assumption. reflexivity.
Qed.

(* as long as the counter does not wrap, the j-th pick is (c + j) mod N *)
Theorem rr_cyclic : forall m c size j, 1 <= size -> 0 <= c -> c + Z.of_nat m <= 2 ^ 64 ->
  (j < m)%nat -> nth j (rr_accepts c size m) (-1) = (c + Z.of_nat j) mod size.
Proof.
  induction m as [|m IH]; intros c size j Hs Hc Hm Hj; [lia|].
  cbn [rr_accepts]. unfold rr_next. destruct (Z.eqb_spec size 0); [lia|].
  destruct j as [|j]; cbn [nth].
  - f_equal. lia.
  - rewrite wrapu64_small by lia. rewrite IH by lia. f_equal. lia.
Qed.

(* consecutive picks are consecutive loops (cyclically) *)
Theorem rr_successor : forall c size, 1 <= size -> 0 <= c -> c + 1 < 2 ^ 64 ->
  exists i1 c1 i2 c2, rr_next c size = Ret (i1, c1) /\ rr_next c1 size = Ret (i2, c2) /\ i2 = (i1 + 1) mod size.
Proof.
  intros c size Hs Hc Hw. unfold rr_next. destruct (Z.eqb_spec size 0); [lia|].
  do 4 eexists. splits; try reflexivity.
  rewrite wrapu64_small by lia. rewrite Zplus_mod_idemp_l. reflexivity.
Qed.

(* F x i = number of y in [0, x) with y mod N = i *)
Definition upto (size x i : Z) : Z := (x - i + size - 1) / size.

Lemma upto_step : forall size x i, 1 <= size -> 0 <= x -> 0 <= i < size ->
  upto size (x + 1) i - upto size x i = if x mod size =? i then 1 else 0.
Proof.
  intros size x i Hs Hx Hi. unfold upto.
  pose proof (Z.div_mod x size ltac:(lia)) as Hdm.
  pose proof (Z.mod_pos_bound x size ltac:(lia)) as Hr.
  set (q := x / size) in *. set (r := x mod size) in *.
  replace (x + 1 - i + size - 1) with ((r + 1 - i + size - 1) + q * size) by lia.
  replace (x - i + size - 1) with ((r - i + size - 1) + q * size) by lia.
  rewrite !Z.div_add by lia.
  assert (A : (r + 1 - i + size - 1) / size = if i <=? r then 1 else 0).
  { destruct (Z.leb_spec i r).
    - symmetry. apply Z.div_unique with (r + 1 - i - 1); lia.
    - apply Z.div_small; lia. }
  assert (B : (r - i + size - 1) / size = if i <? r then 1 else 0).
  { destruct (Z.ltb_spec i r).
    - symmetry. apply Z.div_unique with (r - i - 1); lia.
    - apply Z.div_small; lia. }
  rewrite A, B. destruct (Z.leb_spec i r), (Z.ltb_spec i r), (Z.eqb_spec r i); lia.
Qed.

Lemma rr_count : forall m c size i, 1 <= size -> 0 <= c -> c + Z.of_nat m <= 2 ^ 64 -> 0 <= i < size ->
  count i (rr_accepts c size m) = upto size (c + Z.of_nat m) i - upto size c i.
Proof.
  induction m as [|m IH]; intros c size i Hs Hc Hm Hi.
  - cbn. replace (c + 0) with c by lia. lia.
  - cbn [rr_accepts]. unfold rr_next. destruct (Z.eqb_spec size 0); [lia|].
    cbn [count]. destruct (Z_lt_ge_dec (c + 1) (2 ^ 64)) as [Hlt|Hge].
    + rewrite wrapu64_small by lia. rewrite IH by lia.
      pose proof (upto_step size c i Hs Hc Hi).
      replace (c + 1 + Z.of_nat m) with (c + Z.of_nat (S m)) by lia. lia.
    + (* c + 1 = 2^64: this was the last permitted accept *)
      assert (m = O) by lia. subst m. cbn [rr_accepts count].
      pose proof (upto_step size c i Hs Hc Hi).
      replace (c + Z.of_nat 1) with (c + 1) by lia. lia.
Qed.

(* after k*N accepts, starting from ANY counter value c with c + k*N <= 2^64,
   every one of the N loops has received exactly k *)
Theorem rr_balanced : forall k c size i, 1 <= size -> 0 <= c -> 0 <= k -> c + k * size <= 2 ^ 64 ->
  0 <= i < size -> count i (rr_accepts c size (Z.to_nat (k * size))) = k.
Proof.
  intros k c size i Hs Hc Hk Hm Hi.
  rewrite rr_count by (try rewrite Z2Nat.id; nia).
  rewrite Z2Nat.id by nia. unfold upto.
  replace (c + k * size - i + size - 1) with ((c - i + size - 1) + k * size) by lia.
  rewrite Z.div_add by lia. lia.
Qed.

(* remark (not a finding): at the 2^64 wrap of the counter the cycle is broken when N does
   not divide 2^64 — once every 2^64 accepts one loop is served twice in a row … *)
Example rr_wrap_breaks_cycle : rr_accepts (2 ^ 64 - 1) 3 3 = [0; 0; 1].
Proof. vm_compute. reflexivity. Qed.

(* … and stays intact when N is a power of two (N divides 2^64) *)
Theorem rr_wrap_pow2 : forall c size, 1 <= size -> 0 <= c < 2 ^ 64 -> (size | 2 ^ 64) ->
  exists i1 c1 i2 c2, rr_next c size = Ret (i1, c1) /\ rr_next c1 size = Ret (i2, c2) /\ i2 = (i1 + 1) mod size.
Proof.
  intros c size Hs Hc Hd. unfold rr_next. destruct (Z.eqb_spec size 0); [lia|].
  do 4 eexists. splits; try reflexivity.
  unfold wrapu64. change 18446744073709551616 with (2 ^ 64).
  rewrite <- (Zmod_div_mod size (2 ^ 64) (c + 1)) by (try assumption; lia).
  rewrite Zplus_mod_idemp_l. reflexivity.
Qed.

Theorem rr_next_in_range : forall c size, 1 <= size ->
  exists i c', rr_next c size = Ret (i, c') /\ 0 <= i < size /\ i = c mod size.
Proof.
  intros c size Hs. unfold rr_next. destruct (Z.eqb_spec size 0); [lia|].
  do 2 eexists. splits; try reflexivity; apply Z.mod_pos_bound; lia.
Qed.

(* ------------------------------------------------------------------ *)
(* least connections: the first minimum                                 *)

Lemma lc_scan_inv : forall rest done best minN,
  (Z.to_nat best < List.length done)%nat -> 0 <= best ->
  nth (Z.to_nat best) done 0 = minN ->
  Forall (fun x => minN <= x) done ->
  Forall (fun x => minN < x) (firstn (Z.to_nat best) done) ->
  let b := lc_scan rest (zlen done) best minN in
  let all := done ++ rest in
  0 <= b < zlen all /\
  Forall (fun x => nth (Z.to_nat b) all 0 <= x) all /\
  Forall (fun x => nth (Z.to_nat b) all 0 < x) (firstn (Z.to_nat b) all).
Proof.
  induction rest as [|n t IH]; intros done best minN Hlt Hb0 Hnth Hall Hfirst.
  - cbn [lc_scan]. rewrite app_nil_r. rewrite Hnth. unfold zlen. splits; try assumption; lia.
  - cbn [lc_scan].
    assert (Hlen : zlen (done ++ [n]) = zlen done + 1).
    { unfold zlen. rewrite app_length. cbn [List.length]. lia. }
    replace (done ++ n :: t) with ((done ++ [n]) ++ t) by (rewrite <- app_assoc; reflexivity).
    rewrite <- Hlen.
    destruct (Z.ltb_spec n minN) as [Hless|Hge].
    + apply IH.
      * unfold zlen. rewrite Nat2Z.id, app_length. cbn [List.length]. lia.
      * unfold zlen. lia.
      * unfold zlen. rewrite Nat2Z.id. rewrite app_nth2 by lia. rewrite Nat.sub_diag. reflexivity.
      * apply Forall_app. split; [|constructor; [lia|constructor]].
        eapply Forall_impl; [|exact Hall]. cbn. intros; lia.
      * unfold zlen. rewrite Nat2Z.id. rewrite firstn_app, Nat.sub_diag, firstn_all. cbn [firstn].
        rewrite app_nil_r. eapply Forall_impl; [|exact Hall]. cbn. intros; lia.
    + apply IH.
      * rewrite app_length. cbn [List.length]. lia.
      * assumption.
      * rewrite app_nth1 by assumption. assumption.
      * apply Forall_app. split; [assumption|constructor; [lia|constructor]].
      * rewrite firstn_app.
        replace (Z.to_nat best - List.length done)%nat with O by lia. cbn [firstn].
        rewrite app_nil_r. assumption.
Qed.

(* the returned loop's count is <= every count, and strictly below every earlier one *)
Theorem lc_min : forall counts, counts <> [] ->
  exists b, lc_next counts = Ret b /\ 0 <= b < zlen counts /\
    Forall (fun x => nth (Z.to_nat b) counts 0 <= x) counts /\
    Forall (fun x => nth (Z.to_nat b) counts 0 < x) (firstn (Z.to_nat b) counts).
Proof.
  intros [|c0 t] Hne; [contradiction|].
  eexists. split; [reflexivity|].
  change 1 with (zlen [c0]).
  change (c0 :: t) with ([c0] ++ t).
  apply lc_scan_inv; cbn; try lia; try constructor; try lia; constructor.
Qed.

Theorem lc_empty_panics : lc_next [] = Panic.
Proof. reflexivity. Qed.

(* ------------------------------------------------------------------ *)
(* base balancer and next for every policy                              *)


Lemma wf_new : forall p, wf (lb_new p).
Proof. intros; unfold wf; cbn; lia. Qed.

Theorem register_spec : forall st, wf st ->
  fst (lb_register st) = lb_size st /\
  lb_len (snd (lb_register st)) = lb_len st + 1 /\
  wf (snd (lb_register st)) /\
  lb_policy (snd (lb_register st)) = lb_policy st.
Proof.
  intros st [H0 Hl]. unfold lb_register, lb_len, wf; cbn [fst snd lb_size lb_counts lb_policy].
  splits; try reflexivity; try lia.
  unfold zlen in *. rewrite app_length. cbn [List.length]. lia.
Qed.

Theorem index_spec : forall st i,
  (0 <= i < lb_size st -> lb_index st i = Ret (Some i)) /\
  (lb_size st <= i -> lb_index st i = Ret None) /\
  (i < 0 -> i < lb_size st -> lb_index st i = Panic).
Proof.
  intros st i. unfold lb_index. splits; intros.
  - destruct (Z.geb_spec i (lb_size st)); [lia|]. destruct (Z.ltb_spec i 0); [lia|reflexivity].
  - destruct (Z.geb_spec i (lb_size st)); [reflexivity|lia].
  - destruct (Z.geb_spec i (lb_size st)); [lia|]. destruct (Z.ltb_spec i 0); [reflexivity|lia].
Qed.

(* every policy returns one of the registered loops, whatever the address *)
Theorem next_in_range : forall st addr, wf st -> 1 <= lb_size st ->
  (lb_policy st = HASH -> exists s, addr = Some s /\ is_bytes s) ->
  exists i, fst (lb_next st addr) = Ret i /\ 0 <= i < lb_size st /\
            wf (snd (lb_next st addr)) /\ lb_size (snd (lb_next st addr)) = lb_size st /\
            lb_policy (snd (lb_next st addr)) = lb_policy st.
Proof.
  intros st addr [H0 Hl] Hs Hh. unfold lb_next.
  destruct (lb_policy st) eqn:Ep.
  - destruct (rr_next_in_range (lb_ctr st) (lb_size st) Hs) as (i & c' & E & Hi & _).
    rewrite E. exists i. cbn [fst snd lb_size lb_counts lb_policy]. unfold wf. cbn [lb_size lb_counts].
    splits; try reflexivity; lia.
  - assert (Hne : lb_counts st <> []).
    { intros E. rewrite E in Hl. cbn in Hl. lia. }
    destruct (lc_min (lb_counts st) Hne) as (b & E & Hb & _).
    exists b. cbn [fst snd]. rewrite Ep. unfold wf. splits; try assumption; try reflexivity; lia.
  - destruct (Hh eq_refl) as (s & -> & Hb).
    destruct (hash_next_in_range s (lb_size st) Hb Hs) as [E Hr].
    exists (hash s mod lb_size st). cbn [fst snd]. rewrite Ep. unfold wf.
    splits; try assumption; try reflexivity; lia.
Qed.

(* Source-Addr-Hash is a pure function of the address string (and the number of
   loops): it neither reads nor changes the counter or the connection counts *)
Theorem hash_pure : forall st1 st2 addr,
  lb_policy st1 = HASH -> lb_policy st2 = HASH -> lb_size st1 = lb_size st2 ->
  fst (lb_next st1 addr) = fst (lb_next st2 addr) /\ snd (lb_next st1 addr) = st1 /\ snd (lb_next st2 addr) = st2.
Proof.
  intros st1 st2 addr H1 H2 Hs. unfold lb_next. rewrite H1, H2, Hs. splits; reflexivity.
Qed.

(* Least-Connections through the balancer state *)
Theorem lc_next_min : forall st addr, wf st -> 1 <= lb_size st -> lb_policy st = LC ->
  exists b, fst (lb_next st addr) = Ret b /\ 0 <= b < lb_size st /\
    Forall (fun x => nth (Z.to_nat b) (lb_counts st) 0 <= x) (lb_counts st) /\
    Forall (fun x => nth (Z.to_nat b) (lb_counts st) 0 < x) (firstn (Z.to_nat b) (lb_counts st)) /\
    snd (lb_next st addr) = st.
Proof.
  intros st addr [H0 Hl] Hs Hp.
  assert (Hne : lb_counts st <> []).
  { intros E. rewrite E in Hl. cbn in Hl. lia. }
  destruct (lc_min (lb_counts st) Hne) as (b & E & Hb & Hall & Hfirst).
  exists b. unfold lb_next. rewrite Hp. cbn [fst snd]. splits; try assumption; try reflexivity; lia.
Qed.

(* Round-Robin through the balancer state: k*N accepts in a row *)

Lemma lb_accepts_rr : forall addrs st, lb_policy st = RR -> 1 <= lb_size st ->
  fst (lb_accepts st addrs) = rr_accepts (lb_ctr st) (lb_size st) (List.length addrs).
Proof.
  induction addrs as [|a t IH]; intros st Hp Hs; [reflexivity|].
  cbn [lb_accepts List.length rr_accepts]. unfold lb_next. rewrite Hp.
  unfold rr_next. destruct (Z.eqb_spec (lb_size st) 0); [lia|].
  cbn [fst snd]. rewrite IH by (cbn; first [reflexivity|assumption]). reflexivity.
Qed.

Theorem rr_balanced_lb : forall k st addrs i, lb_policy st = RR -> 1 <= lb_size st -> 0 <= lb_ctr st ->
  0 <= k -> lb_ctr st + k * lb_size st <= 2 ^ 64 -> Z.of_nat (List.length addrs) = k * lb_size st ->
  0 <= i < lb_size st -> count i (fst (lb_accepts st addrs)) = k.
Proof.
  intros k st addrs i Hp Hs Hc Hk Hw Hlen Hi.
  rewrite lb_accepts_rr by assumption.
  replace (List.length addrs) with (Z.to_nat (k * lb_size st)) by lia.
  apply rr_balanced; assumption.
Qed.

Theorem hash_crc32_range : forall s, is_bytes s -> hash s = crc32 s /\ 0 <= crc32 s < 2 ^ 32.
Proof. intros s H. split; [exact (hash_is_crc32 s H)|exact (crc32_range s H)]. Qed.
