(* Model of load_balancer.go (C15): the base balancer (register/index/iterate/len),
   Round-Robin (uint64 counter), Least-Connections (first-minimum scan over the
   per-loop connection counts) and Source-Addr-Hash (crc32 IEEE of the address
   string, int conversion, abs, remainder).  An event loop is identified by the
   index `register` assigned to it (el.idx = position in eventLoops).
   No proofs here. *)
From GV Require Export Lib.Trace.
Open Scope Z_scope.

Definition bytes := list Z.

Definition wrapu64 (z : Z) : Z := z mod 18446744073709551616.
Definition wrap64 (z : Z) : Z := (z + 9223372036854775808) mod 18446744073709551616 - 9223372036854775808.
Definition wrap32 (z : Z) : Z := (z + 2147483648) mod 4294967296 - 2147483648.

(* ---- hash/crc32.ChecksumIEEE, bit by bit (reflected polynomial 0xEDB88320) ---- *)
Definition crc_poly : Z := 3988292384.      (* 0xEDB88320 *)
Definition crc_mask : Z := 4294967295.      (* 0xFFFFFFFF *)

Definition crc_bit (crc : Z) : Z :=
  if Z.odd crc then Z.lxor (Z.shiftr crc 1) crc_poly else Z.shiftr crc 1.

Definition crc_byte (crc b : Z) : Z :=
  let c := Z.lxor crc b in
  crc_bit (crc_bit (crc_bit (crc_bit (crc_bit (crc_bit (crc_bit (crc_bit c))))))).

Definition crc32 (s : bytes) : Z := Z.lxor (fold_left crc_byte s crc_mask) crc_mask.

(* ---- sourceAddrHashLoadBalancer.hash ----
   v := int(crc32.ChecksumIEEE(s)); if v >= 0 { return v }; return -v
   `to_int` is the uint32 -> int conversion: the identity on a 64-bit int (linux/amd64). *)
Definition hash_with (to_int neg : Z -> Z) (s : bytes) : Z :=
  let v := to_int (crc32 s) in
  if v >=? 0 then v else neg v.

Definition hash (s : bytes) : Z := hash_with wrap64 (fun v => wrap64 (- v)) s.
(* the same code with a 32-bit int, for the remark in the proofs *)
Definition hash_int32 (s : bytes) : Z := hash_with wrap32 (fun v => wrap32 (- v)) s.

(* Go's % on ints truncates towards zero *)
Definition go_rem (a b : Z) : Z := Z.rem a b.

(* ---- next, one function per policy; result = el.idx of the returned loop ---- *)

(* lb.eventLoops[lb.nextIndex%uint64(lb.size)]; lb.nextIndex++  ->  (index, new counter) *)
Definition rr_next (ctr size : Z) : outcome (Z * Z) :=
  if size =? 0 then Panic                       (* integer divide by zero *)
  else Ret (ctr mod size, wrapu64 (ctr + 1)).

(* the range loop over lb.eventLoops[1:]: i is the position of the element under
   inspection, (best, minN) the current choice *)
Fixpoint lc_scan (rest : list Z) (i best minN : Z) : Z :=
  match rest with
  | [] => best
  | n :: t => if n <? minN then lc_scan t (i + 1) i n else lc_scan t (i + 1) best minN
  end.

Definition lc_next (counts : list Z) : outcome Z :=
  match counts with
  | [] => Panic                                  (* lb.eventLoops[0]: index out of range *)
  | c0 :: t => Ret (lc_scan t 1 0 c0)
  end.

(* addr = None is a nil net.Addr: netAddr.String() panics *)
Definition hash_next (addr : option bytes) (size : Z) : outcome Z :=
  match addr with
  | None => Panic
  | Some s =>
      if size =? 0 then Panic                    (* integer divide by zero *)
      else let i := go_rem (hash s) size in
           if (i <? 0) || (size <=? i) then Panic (* index out of range *) else Ret i
  end.

(* ---- base balancer ---- *)
Inductive policy := RR | LC | HASH.

Record lbstate := {
  lb_policy : policy;
  lb_size : Z;               (* lb.size = len(lb.eventLoops) *)
  lb_ctr : Z;                (* roundRobin nextIndex (uint64) *)
  lb_counts : list Z         (* connection count of every registered loop, in registration order *)
}.

Definition lb_new (p : policy) : lbstate := {| lb_policy := p; lb_size := 0; lb_ctr := 0; lb_counts := [] |}.

(* register: el.idx = lb.size; append; size++   ->  (assigned index, new state) *)
Definition lb_register (st : lbstate) : Z * lbstate :=
  (lb_size st,
   {| lb_policy := lb_policy st; lb_size := lb_size st + 1; lb_ctr := lb_ctr st;
      lb_counts := lb_counts st ++ [0] |}).

(* index(i): nil when i >= size, panics on a negative i *)
Definition lb_index (st : lbstate) (i : Z) : outcome (option Z) :=
  if i >=? lb_size st then Ret None
  else if i <? 0 then Panic
  else Ret (Some i).

Definition lb_len (st : lbstate) : Z := lb_size st.

Fixpoint seqz (start : Z) (n : nat) : list Z :=
  match n with O => [] | S n' => start :: seqz (start + 1) n' end.

(* iterate(f) where f returns false on its k-th call (k = 0: never): the visited indices *)
Definition lb_iterate (st : lbstate) (k : Z) : list Z :=
  let all := seqz 0 (Z.to_nat (lb_size st)) in
  if k <=? 0 then all else firstn (Z.to_nat k) all.

Definition lb_next (st : lbstate) (addr : option bytes) : outcome Z * lbstate :=
  match lb_policy st with
  | RR => match rr_next (lb_ctr st) (lb_size st) with
          | Ret (i, c) => (Ret i, {| lb_policy := RR; lb_size := lb_size st; lb_ctr := c; lb_counts := lb_counts st |})
          | Panic => (Panic, st)
          end
  | LC => (lc_next (lb_counts st), st)
  | HASH => (hash_next addr (lb_size st), st)
  end.

Fixpoint set_nth (l : list Z) (i : nat) (v : Z) : list Z :=
  match l, i with
  | [], _ => []
  | _ :: t, O => v :: t
  | h :: t, S i' => h :: set_nth t i' v
  end.

Definition set_count (st : lbstate) (i n : Z) : lbstate :=
  {| lb_policy := lb_policy st; lb_size := lb_size st; lb_ctr := lb_ctr st;
     lb_counts := if (i <? 0) then lb_counts st else set_nth (lb_counts st) (Z.to_nat i) n |}.

Definition add_count (st : lbstate) (i d : Z) : lbstate :=
  set_count st i (nth (Z.to_nat i) (lb_counts st) 0 + d).

(* ---- vocabulary for the statements of C15 (no proofs) ---- *)
Definition zlen (l : list Z) : Z := Z.of_nat (List.length l).
Definition is_bytes (s : bytes) : Prop := Forall (fun b => 0 <= b < 256) s.

(* the loops chosen by m consecutive next() calls starting with counter value ctr *)
Fixpoint rr_accepts (ctr size : Z) (m : nat) : list Z :=
  match m with
  | O => []
  | S m' => match rr_next ctr size with
            | Ret (i, c) => i :: rr_accepts c size m'
            | Panic => []
            end
  end.

Fixpoint count (i : Z) (l : list Z) : Z :=
  match l with
  | [] => 0
  | x :: t => (if x =? i then 1 else 0) + count i t
  end.

(* how often loop i occurs in a sequence of picks: `count` above *)

(* a reachable balancer state: as many counts as registered loops *)
Definition wf (st : lbstate) : Prop :=
  0 <= lb_size st /\ zlen (lb_counts st) = lb_size st.

(* the loops chosen for a sequence of accepted addresses, and the final state *)
Fixpoint lb_accepts (st : lbstate) (addrs : list (option bytes)) : list Z * lbstate :=
  match addrs with
  | [] => ([], st)
  | a :: t => match lb_next st a with
              | (Ret i, st') => let r := lb_accepts st' t in (i :: fst r, snd r)
              | (Panic, st') => ([], st')
              end
  end.

(* ---- trace runner: family "lb" ----
   op lines:
     new rr|lc|hash                 (no obs) fresh balancer
     reg                            -> obs idx <assigned el.idx> <len>
     cnt <i> <n>                    (no obs) set the connection count of loop i (an input)
     setctr <c>                     (no obs) set the round-robin counter (an input)
     next nil | next <xaddr>        -> obs el <idx> | obs el panic
     accept nil|<xaddr>             -> obs el <idx> ; the chosen loop's count is incremented
     close <i>                      (no obs) the count of loop i is decremented
     index <i>                      -> obs ix <idx> | obs ix nil | obs ix panic
     len                            -> obs len <n>
     iter <k>                       -> obs it <idx>…
     crc <xbytes>                   -> obs crc <uint32>
     hash <xbytes>                  -> obs h <int>
     balance <k>                    (no obs) oracle directive: every loop received exactly k accepts
     int <scenario>                 (no obs) live-server scenario, judged by the driver's oracle *)
Open Scope string_scope.

Definition parse_addr (a : arg) : option (option bytes) :=
  match a with
  | ABytes b => Some (Some b)
  | ASym s => if sym_eqb s "nil" then Some None else None
  | _ => None
  end.

Definition out_el (o : outcome Z) : line :=
  match o with Ret i => obs "el" [AInt i] | Panic => panic_line "el" end.

Definition unknown : list line := [obs "unknown" []].

Definition lb_step (acc : lbstate * list line) (l : line) : lbstate * list line :=
  let st := fst acc in
  let emit (st' : lbstate) (ls : list line) := (st', rev_append ls (snd acc)) in
  match l with
  | ("new", [ASym p]) =>
      if sym_eqb p "rr" then emit (lb_new RR) []
      else if sym_eqb p "lc" then emit (lb_new LC) []
      else if sym_eqb p "hash" then emit (lb_new HASH) []
      else emit st unknown
  | ("reg", []) =>
      let r := lb_register st in emit (snd r) [obs "idx" [AInt (fst r); AInt (lb_len (snd r))]]
  | ("cnt", [AInt i; AInt n]) => emit (set_count st i n) []
  | ("setctr", [AInt c]) =>
      emit {| lb_policy := lb_policy st; lb_size := lb_size st; lb_ctr := c; lb_counts := lb_counts st |} []
  | ("next", [a]) =>
      match parse_addr a with
      | Some addr => let r := lb_next st addr in emit (snd r) [out_el (fst r)]
      | None => emit st unknown
      end
  | ("accept", [a]) =>
      match parse_addr a with
      | Some addr =>
          let r := lb_next st addr in
          match fst r with
          | Ret i => emit (add_count (snd r) i 1) [out_el (fst r)]
          | Panic => emit (snd r) [out_el (fst r)]
          end
      | None => emit st unknown
      end
  | ("close", [AInt i]) => emit (add_count st i (-1)) []
  | ("index", [AInt i]) =>
      match lb_index st i with
      | Ret (Some j) => emit st [obs "ix" [AInt j]]
      | Ret None => emit st [obs "ix" [ASym "nil"]]
      | Panic => emit st [panic_line "ix"]
      end
  | ("len", []) => emit st [obs "len" [AInt (lb_len st)]]
  | ("iter", [AInt k]) => emit st [obs "it" (map AInt (lb_iterate st k))]
  | ("crc", [ABytes s]) => emit st [obs "crc" [AInt (crc32 s)]]
  | ("hash", [ABytes s]) => emit st [obs "h" [AInt (hash s)]]
  | ("int", _) => emit st []
  | ("balance", _) => emit st []
  | _ => emit st unknown
  end.

Definition run_lb : runner := fun ls => rev (snd (fold_left lb_step ls (lb_new RR, []))).
