(* Proofs about the gnet.Client start of Model/Start.v ([run_client], [after_client_start]).

   For every number of event loops and every injected fault (or none): every descriptor created
   is closed when the client has stopped (or when its failing start has returned), no descriptor
   is closed twice, the closed descriptors are exactly the created ones, a failing start has
   started no goroutine, the outcome is Failed exactly when the start failed, and a successful
   start has started one goroutine per loop.

   Proof shape: the invariant [Inv] and the building-block lemmas of Proofs/StartProofs.v, used
   with an empty listener set: [open_subs_inv] with L = [] carries the invariant through the
   start, [close_phase] with L = [] and no main reactor empties the pollers held. *)
From GV Require Import Model.Start Proofs.StartProofs.
From Coq Require Import List Arith Bool Lia PeanoNat.
Import ListNotations.
Open Scope list_scope.

(* ------------------------------------------------------------------ *)
(* the start *)

Lemma client_open_inv : forall n f s1 regs ok,
  open_subs f [] n [] st0 = (s1, regs, ok) ->
  Inv s1 (pids regs ++ ipids None) ([] ++ lids regs) /\ gos s1 = 0 /\
  (ok = true -> List.length regs = n).
Proof.
  intros n f s1 regs ok E.
  assert (H0 : Inv st0 (pids []) ([] ++ lids [])) by (cbn; exact Inv_st0).
  destruct (open_subs_inv _ _ _ _ _ _ _ _ E H0) as [I [G N]].
  split; [|split].
  - cbn [ipids]. rewrite app_nil_r. exact I.
  - rewrite G. reflexivity.
  - intros Hok. rewrite (N Hok). reflexivity.
Qed.

(* the clean-up of a client: no listeners, no main reactor *)
Lemma client_close_phase : forall regs s,
  Inv s (pids regs ++ ipids None) ([] ++ lids regs) ->
  Final (close_event_loops regs None [] s) /\ gos (close_event_loops regs None [] s) = gos s.
Proof.
  intros regs s H.
  change (close_event_loops regs None [] s)
    with (close_all_once [] (close_event_loops regs None [] s)).
  apply close_phase. exact H.
Qed.

Lemma client_final_gos : forall n f,
  Final (fst (run_client n f)) /\
  (snd (run_client n f) = Started -> gos (fst (run_client n f)) = n).
Proof.
  intros n f. unfold run_client.
  destruct (open_subs f [] n [] st0) as [[s1 regs] ok] eqn:E.
  destruct (client_open_inv _ _ _ _ _ E) as [I [G N]].
  destruct ok; cbn [fst snd].
  - destruct (client_close_phase _ _ (go_inv (List.length regs) _ _ _ I)) as [F G'].
    split; [exact F|]. intros _. rewrite G'. cbn [go gos]. rewrite G, (N eq_refl). reflexivity.
  - destruct (client_close_phase _ _ I) as [F _]. split; [exact F | discriminate].
Qed.

Lemma after_client_start_gos : forall n f, gos (fst (after_client_start n f)) = 0.
Proof.
  intros n f. unfold after_client_start.
  destruct (open_subs f [] n [] st0) as [[s1 regs] ok] eqn:E.
  destruct (client_open_inv _ _ _ _ _ E) as [_ [G _]]. exact G.
Qed.

(* ------------------------------------------------------------------ *)
(* the theorems *)

(* 1. every descriptor created is closed *)
Theorem client_no_leak : forall n f, leaked (fst (run_client n f)) = [].
Proof.
  intros n f. destruct (client_final_gos n f) as [[A B C] _]. unfold leaked.
  apply filter_none. intros id Hid. apply A, C, existsb_eqb_In in Hid. rewrite Hid. reflexivity.
Qed.

(* 2. no descriptor is closed twice *)
Theorem client_closes_once : forall n f, NoDup (cls (fst (run_client n f))).
Proof. intros n f. destruct (client_final_gos n f) as [[A B C] _]. exact B. Qed.

Corollary client_no_dup_closes : forall n f, dup_closes (cls (fst (run_client n f))) = 0.
Proof. intros n f. apply NoDup_dup_closes, client_closes_once. Qed.

(* 3. the closed descriptors are exactly the created ones *)
Theorem client_closes_created : forall n f id,
  In id (cls (fst (run_client n f))) <-> In id (map fst (opn (fst (run_client n f)))).
Proof.
  intros n f id. destruct (client_final_gos n f) as [[A B C] _]. rewrite A, C. tauto.
Qed.

(* 4. a failing start has started no goroutine *)
Theorem client_failed_start_no_goroutine : forall n f s,
  after_client_start n f = (s, false) -> gos s = 0.
Proof.
  intros n f s H. pose proof (after_client_start_gos n f) as G. rewrite H in G. exact G.
Qed.

(* 5. Failed exactly when the start failed; no fault, no failure; one goroutine per loop *)
Theorem client_outcome : forall n f,
  (snd (run_client n f) = Failed <-> snd (after_client_start n f) = false) /\
  (f = None -> snd (run_client n f) = Started) /\
  (snd (run_client n f) = Started -> gos (fst (run_client n f)) = n).
Proof.
  intros n f. split; [|split].
  - unfold run_client, after_client_start.
    destruct (open_subs f [] n [] st0) as [[s1 regs] ok].
    destruct ok; cbn; split; congruence.
  - intros ->. unfold run_client.
    pose proof (open_subs_none [] n [] st0) as H.
    destruct (open_subs None [] n [] st0) as [[s1 regs] ok].
    cbn in H. subst ok. reflexivity.
  - apply (client_final_gos n f).
Qed.

(* ------------------------------------------------------------------ *)
(* the theorems are not vacuous: concrete runs *)

Definition client_summary (n : nat) (f : option fault) :=
  let r := run_client n f in
  (snd r, count_kind KSock (fst r), count_kind KEpoll (fst r), count_kind KEfd (fst r),
   List.length (cls (fst r)), gos (fst r)).

(* 3 loops, the 2nd eventfd fails: loop 0 has its poller (2 descriptors), loop 1 its epoll
   descriptor only, closed at once by the failing OpenPoller; 3 descriptors, 3 closes *)
Example ex_client_efd_fails :
  client_summary 3 (Some (mkFault SEfd 1)) = (Failed, 0, 2, 1, 3, 0).
Proof. vm_compute. reflexivity. Qed.

Example ex_client_efd_fails_ledger :
  let s := fst (run_client 3 (Some (mkFault SEfd 1))) in
  leaked s = [] /\ dup_closes (cls s) = 0 /\ cls s = [0; 1; 2] /\ map fst (opn s) = [2; 1; 0].
Proof. vm_compute. repeat split; reflexivity. Qed.

(* the same start before the clean-up: no goroutine, loop 0's poller still open *)
Example ex_client_efd_fails_after_start :
  let r := after_client_start 3 (Some (mkFault SEfd 1)) in
  snd r = false /\ gos (fst r) = 0 /\ cls (fst r) = [2] /\ leaked (fst r) = [1; 0].
Proof. vm_compute. repeat split; reflexivity. Qed.

(* 2 loops, no fault: 2 goroutines, 2 pollers, 4 closes *)
Example ex_client_start :
  client_summary 2 None = (Started, 0, 2, 2, 4, 2).
Proof. vm_compute. reflexivity. Qed.

Example ex_client_start_ledger :
  let s := fst (run_client 2 None) in leaked s = [] /\ dup_closes (cls s) = 0.
Proof. vm_compute. repeat split; reflexivity. Qed.

(* the very first epoll_create1 fails: nothing created, nothing closed *)
Example ex_client_first_epoll_fails :
  client_summary 2 (Some (mkFault SEpoll 0)) = (Failed, 0, 0, 0, 0, 0).
Proof. vm_compute. reflexivity. Qed.

(* the epoll_ctl ADD of the last loop's eventfd fails: its poller is closed by OpenPoller, the
   other by the clean-up *)
Example ex_client_add_fails :
  client_summary 2 (Some (mkFault SAdd 1)) = (Failed, 0, 2, 2, 4, 0).
Proof. vm_compute. reflexivity. Qed.

(* a fault that is never reached does not fail the start; no loops at all: an empty start *)
Example ex_client_fault_not_reached :
  client_summary 2 (Some (mkFault SEfd 2)) = (Started, 0, 2, 2, 4, 2).
Proof. vm_compute. reflexivity. Qed.

Example ex_client_no_loops :
  client_summary 0 (Some (mkFault SEpoll 0)) = (Started, 0, 0, 0, 0, 0).
Proof. vm_compute. reflexivity. Qed.

(* a client creates no listener: a socket(2) fault is never reached *)
Example ex_client_sock_fault_not_reached :
  client_summary 2 (Some (mkFault SSock 0)) = (Started, 0, 2, 2, 4, 2).
Proof. vm_compute. reflexivity. Qed.

(* nor are listener options applied: an SOpt fault is never reached either *)
Example ex_client_opt_fault_not_reached :
  client_summary 2 (Some (mkFault SOpt 0)) = (Started, 0, 2, 2, 4, 2).
Proof. vm_compute. reflexivity. Qed.

Print Assumptions client_no_leak.
Print Assumptions client_closes_once.
Print Assumptions client_no_dup_closes.
Print Assumptions client_closes_created.
Print Assumptions client_failed_start_no_goroutine.
Print Assumptions client_outcome.
