//go:build poll_opt

//verif:target pkg/netpoll/syscall_epoll_linux.go

// Verification overlay of pkg/netpoll/syscall_epoll_linux.go (poll_opt build).
package netpoll

import (
	"golang.org/x/sys/unix"

	"github.com/panjf2000/gnet/v2/pkg/vunix"
)

func epollCtl(epfd int, op int, fd int, event *epollevent) error {
	if event == nil {
		return vunix.EpollCtl(epfd, op, fd, nil)
	}
	var d uint64
	for k := 0; k < 8; k++ {
		d |= uint64(event.data[k]) << (8 * uint(k))
	}
	ev := unix.EpollEvent{Events: event.events, Fd: int32(uint32(d)), Pad: int32(uint32(d >> 32))}
	return vunix.EpollCtl(epfd, op, fd, &ev)
}
