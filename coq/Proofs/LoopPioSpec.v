(* What the declarations of Model/LoopPio.v mean for the model, and the tactic the
   generated obligation `processIO_is_model` (GenLoop.v) is closed with. *)
From GV Require Export Model.LoopPio.
From Coq Require Import Bool.
Open Scope string_scope.
Open Scope list_scope.
Open Scope Z_scope.

(* the error value a model result stands for *)
Definition res_name (r : res) : string :=
  match r with
  | RNil => "nil"
  | RErr => "other"
  | RShutdown => "ErrEngineShutdown"
  | RAccept => "ErrAcceptSocket"
  end.

Definition stops (l : list string) (r : res) : bool := existsb (String.eqb (res_name r)) l.

(* Polling's event loop returns exactly on the declared sentinels of a callback ... *)
Lemma events_stop_on_sentinels fuel fd ev rest dc w :
  halt w = false -> (fd =? l_efd (st w)) = false ->
  events fuel (AInt fd :: AInt ev :: rest) dc w =
    let '(r, w1) := dispatch fuel fd ev w in
    if stops polling_callback_sentinels r then (r, dc, w1) else events fuel rest dc w1.
Proof.
  intros Hh He. cbn [events]. rewrite Hh, He.
  destruct (dispatch fuel fd ev w) as [r w1]. destruct r; reflexivity.
Qed.

(* ... and the two task drains exactly on the declared sentinel of a task *)
Lemma drain_urgent_stop_on_sentinels f t rest w :
  halt w = false -> l_urgent (st w) = t :: rest ->
  drain_urgent (S f) w =
    let '(r, w2) := run_task f t (with_st w (set_queues (st w) rest (l_low (st w)) (l_flag (st w)))) in
    if stops polling_task_sentinels r then (r, w2) else drain_urgent f w2.
Proof.
  intros Hh Hq. cbn [drain_urgent]. rewrite Hh, Hq.
  destruct (run_task f t _) as [r w2]. destruct r; reflexivity.
Qed.

Lemma drain_low_stop_on_sentinels f k t rest w :
  halt w = false -> (k <=? 0) = false -> l_low (st w) = t :: rest ->
  drain_low (S f) k w =
    let '(r, w2) := run_task f t (with_st w (set_queues (st w) (l_urgent (st w)) rest (l_flag (st w)))) in
    if stops polling_task_sentinels r then (r, w2) else drain_low f (k - 1) w2.
Proof.
  intros Hh Hk Hq. cbn [drain_low]. rewrite Hh, Hk, Hq.
  destruct (run_task f t _) as [r w2]. destruct r; reflexivity.
Qed.

(* el.accept classifies accept4 failures by the declared list *)
Lemma el_accept_error_class fuel lfd w e w1 :
  sys "accept" [AInt lfd] w = (KErr e, w1) ->
  el_accept fuel lfd false w = (if existsb (sym_eqb e) accept_tolerated then RNil else RAccept, w1).
Proof.
  intros H. unfold el_accept. rewrite H. unfold accept_tolerated, is_eagain. cbn [existsb].
  destruct (sym_eqb e "eagain"), (sym_eqb e "eintr"), (sym_eqb e "econnreset"), (sym_eqb e "econnaborted"); reflexivity.
Qed.

(* the queue each asynchronous request of the model goes to is the one the declared priority selects *)
Lemma async_request_priorities s cid d segs cb :
  apply_async s ("async", [ASym "write"; AInt cid; ABytes d; cb])
    = Some (set_flag (enqueue s (is_low_of "conn.AsyncWrite") (TAsyncWrite cid d (flag_of cb))) true) /\
  apply_async s ("async", ASym "writev" :: AInt cid :: cb :: segs)
    = Some (set_flag (enqueue s (is_low_of "conn.AsyncWritev") (TAsyncWritev cid (segs_of segs) (flag_of cb))) true) /\
  apply_async s ("async", [ASym "wake"; AInt cid; cb])
    = Some (set_flag (enqueue s (is_low_of "conn.Wake") (TWake cid (flag_of cb))) true) /\
  apply_async s ("async", [ASym "close"; AInt cid; cb])
    = Some (set_flag (enqueue s (is_low_of "conn.Close") (TClose cid (flag_of cb))) true) /\
  apply_async s ("async", [ASym "exec"; AInt cid])
    = Some (set_flag (enqueue s (is_low_of "eventloop.Execute") TExec) true).
Proof. repeat split; reflexivity. Qed.

(* closing `pio_run fuel <generated program> cid ev w = process_io fuel cid ev w`:
   both sides are the same cascade of tests on `has ev <mask>` and `c_opened`; the
   masks of the program are literals, the model's are sums of EV_* constants *)
Ltac pio_case :=
  match goal with
  | |- context [if has ?e ?m then _ else _] => destruct (has e m) eqn:?
  | |- context [has ?e ?m && _] => destruct (has e m) eqn:?
  | |- context [negb (has ?e ?m)] => destruct (has e m) eqn:?
  | |- context [c_opened ?c] => destruct (c_opened c) eqn:?
  | |- context [el_write ?f ?c ?z ?x] => destruct (el_write f c z x) as [[] ?] eqn:?
  | |- context [el_read ?f ?c ?z ?x] => destruct (el_read f c z x) as [[] ?] eqn:?
  | |- context [el_close ?f ?c ?z ?x] => destruct (el_close f c z x) as [[] ?] eqn:?
  end.

Ltac pio_equiv :=
  unfold pio_run, process_io;
  cbv [EV_IN EV_PRI EV_OUT EV_ERR EV_HUP EV_RDHUP Z.add Pos.add Pos.succ Pos.add_carry];
  cbn [pstmts_run pstmt_run pcond_eval pcall_run];
  repeat (pio_case; cbn [pstmts_run pstmt_run pcond_eval pcall_run andb negb]; try congruence; try reflexivity).
