(* C08 UDP datagram fidelity: the history of every run of the event-loop model satisfies
   the datagram checker.  Invariant: outside a datagram callback the checker tracks
   nothing; inside one (mode UCb c d) its unread payload is c_in ++ c_buf of the datagram
   identity c, which is a never-opened datagram connection with a remote address, and d
   is the number of callbacks of other connections nested in it. *)
From Coq Require Import Lia ZArith ZifyBool.
From GV Require Import Lib.Trace Model.Loop Spec.LoopSpec Proofs.LoopDataLib.
Open Scope string_scope.
Open Scope list_scope.
Open Scope Z_scope.

Definition ustep (u : unit) (e : ev) : option unit := Some u.

(* ------------------------------------------------------------------ *)
(* the checker step by kind of event *)

Lemma udp_step_noncb : forall ls x name args, String.eqb name "cb" = false ->
  udp_step ls x (EOut (name, args)) =
  match u_cur x, u_depth x with Some _, S _ => Some x | _, _ => udp_step0 ls x (EOut (name, args)) end.
Proof.
  intros ls x name args H. unfold udp_step. destruct (u_cur x); [|reflexivity].
  destruct (u_depth x); try reflexivity; crack_goal ltac:(first [reflexivity | (cbn in H; discriminate H)]).
Qed.

Lemma udp_step_cb : forall ls x args,
  udp_step ls x (EOut ("cb", args)) =
  match u_cur x, u_depth x with
  | Some _, O => Some (mkU0 (u_pending x) (u_cur x) (u_seen x) (u_want_send x) 1)
  | Some _, S d => Some (mkU0 (u_pending x) (u_cur x) (u_seen x) (u_want_send x) (S (S d)))
  | None, _ => udp_step0 ls x (EOut ("cb", args))
  end.
Proof. intros. unfold udp_step. destruct (u_cur x); [|reflexivity]. destruct (u_depth x); reflexivity. Qed.

Lemma udp_step_in : forall ls x name args, String.eqb name "hret" = false ->
  udp_step ls x (EIn (name, args)) =
  match u_cur x, u_depth x with Some _, S _ => Some x | _, _ => udp_step0 ls x (EIn (name, args)) end.
Proof.
  intros ls x name args H. unfold udp_step. destruct (u_cur x); [|reflexivity].
  destruct (u_depth x); try reflexivity; crack_goal ltac:(first [reflexivity | (cbn in H; discriminate H)]).
Qed.

Lemma udp_step_hret : forall ls x args,
  udp_step ls x (EIn ("hret", args)) =
  match u_cur x, u_depth x with
  | Some _, S d => Some (mkU0 (u_pending x) (u_cur x) (u_seen x) (u_want_send x) d)
  | _, _ => udp_step0 ls x (EIn ("hret", args))
  end.
Proof. intros. unfold udp_step. destruct (u_cur x); [|reflexivity]. destruct (u_depth x); reflexivity. Qed.

(* input lines other than kernel results of recvfrom, `h` and `hret` do not move the checker *)
Definition plain_in (l : line) : Prop :=
  fst l <> "h" /\ fst l <> "hret" /\
  (fst l = "r" -> match snd l with ASym nm :: _ => nm <> "recvfrom" | _ => True end).

Lemma udp_step0_plain : forall ls x l, plain_in l -> udp_step0 ls x (EIn l) = Some x.
Proof.
  intros ls x [name args] (H1 & H2 & H3). cbn [fst snd] in *. unfold udp_step0.
  crack_goal ltac:(first [reflexivity | congruence]).
  all: destruct args as [|[?|?|nm] [|[n|?|?] [|[?|d|?] src]]]; try reflexivity.
  all: try (specialize (H3 eq_refl); cbn in H3).
  all: crack_goal ltac:(first [reflexivity | congruence]).
Qed.

Lemma udp_step_plain : forall ls x l, plain_in l -> udp_step ls x (EIn l) = Some x.
Proof.
  intros ls x [name args] H. pose proof H as (H1 & H2 & H3). cbn [fst] in *.
  rewrite udp_step_in by (apply String.eqb_neq; exact H2).
  rewrite udp_step0_plain by exact H. destruct (u_cur x), (u_depth x); reflexivity.
Qed.

Lemma apply_async_plain : forall s l s', apply_async s l = Some s' -> plain_in l.
Proof.
  intros s [name args] s' E. unfold apply_async in E. unfold plain_in. cbn [fst snd].
  crack_hyp E ltac:(discriminate E); repeat split; discriminate.
Qed.

(* ------------------------------------------------------------------ *)
(* the relation *)

Section WithListeners.
Variable ls : list Z.

Notation UINV := (Inv ustep (udp_step ls) tt (mkU None None [] None)).

Inductive umode := UTop | UCb (c : Z) (d : nat) | UDead.

Definition msem (m : umode) (x : udpst) (s : lstate) : Prop :=
  match m with
  | UTop => u_cur x = None
  | UCb c d => u_cur x = Some (c, c_in (getc s c) ++ c_buf (getc s c)) /\ u_depth x = d /\
               c_udp (getc s c) = true /\ c_remote (getc s c) = true /\
               c_opened (getc s c) = false /\ c < l_next s
  | UDead => False
  end.

Record RU (m : umode) (wnt : option (list Z)) (u : unit) (x : udpst) (s : lstate) : Prop := mkRU {
  ru_pend : u_pending x = None;
  ru_want : u_want_send x = wnt;
  ru_seen : forall c, zmem c (u_seen x) = true -> c < l_next s;
  ru_mode : msem m x s
}.

Lemma RU_frame : forall m wnt u x s s',
  RU m wnt u x s -> (forall c, c < l_next s -> getc s' c = getc s c) -> l_next s <= l_next s' ->
  RU m wnt u x s'.
Proof.
  intros m wnt u x s s' [R1 R2 R3 R4] Hc Hn. constructor; auto.
  - intros c H. apply R3 in H. lia.
  - destruct m as [|c d|]; cbn [msem] in *; auto.
    destruct R4 as (A & B & C & D & E & F). rewrite (Hc _ F). repeat split; auto. lia.
Qed.

Lemma RU_enq_any : forall m wnt h x s b t, RU m wnt h x s -> RU m wnt h x (enqueue s b t).
Proof. intros m wnt h x s b t HR. eapply RU_frame; [exact HR| |]; intros; rewrite ?getc_enqueue, ?l_next_enqueue; auto; lia. Qed.

Lemma RU_enq : forall m wnt, enq_ok (RU m wnt).
Proof. intros m wnt h x s b t HR _. apply RU_enq_any. exact HR. Qed.

Lemma RU_flag : forall m wnt, flag_ok (RU m wnt).
Proof. intros m wnt h x s f HR. eapply RU_frame; [exact HR| |]; intros; auto; cbn; lia. Qed.

Lemma RU_fresh : forall m wnt u x s c,
  RU m wnt u x s -> RU m wnt u x (set_next (setc s (l_next s) c) (l_next s + 1)).
Proof.
  intros m wnt u x s c HR. eapply RU_frame; [exact HR| |]; cbn [set_next l_next]; [|lia].
  intros c0 H. rewrite getc_set_next, getc_setc. destruct (Z.eqb_spec c0 (l_next s)); [lia|reflexivity].
Qed.

Lemma RU_in_ign : forall m wnt, in_ign ustep (udp_step ls) plain_in (RU m wnt).
Proof.
  intros m wnt h x s l h' x' Hp HR E1 E2. inversion E1. rewrite (udp_step_plain _ _ _ Hp) in E2.
  inversion E2. subst. exact HR.
Qed.

(* every input line is accepted while no sendto is owed *)
Lemma udp_step_in_some : forall x l, u_want_send x = None -> udp_step ls x (EIn l) <> None.
Proof.
  intros x [name args] Hw.
  destruct (String.eqb_spec name "hret") as [->|N].
  - rewrite udp_step_hret. destruct (u_cur x), (u_depth x); try discriminate;
      cbn [udp_step0]; rewrite Hw; discriminate.
  - rewrite udp_step_in by (apply String.eqb_neq; exact N).
    destruct (u_cur x) as [p|]; [destruct (u_depth x); [|discriminate]|].
    + unfold udp_step0. crack_goal ltac:(first [discriminate | congruence]).
      all: repeat match goal with
        | |- context [match ?a with [] => _ | _ :: _ => _ end] => is_var a; destruct a; try discriminate
        | |- context [match ?a with AInt _ => _ | ABytes _ => _ | ASym _ => _ end] => is_var a; destruct a; try discriminate
        end.
      all: crack_goal ltac:(first [discriminate | congruence]).
      all: try (destruct (0 <=? _); discriminate).
      all: try (destruct (u_cur x); discriminate).
    + unfold udp_step0. crack_goal ltac:(first [discriminate | congruence]).
      all: repeat match goal with
        | |- context [match ?a with [] => _ | _ :: _ => _ end] => is_var a; destruct a; try discriminate
        | |- context [match ?a with AInt _ => _ | ABytes _ => _ | ASym _ => _ end] => is_var a; destruct a; try discriminate
        end.
      all: crack_goal ltac:(first [discriminate | congruence]).
      all: try (destruct (0 <=? _); discriminate).
      all: try (destruct (u_cur x); discriminate).
Qed.

Lemma RU_pull_ok : forall m, pull_ok ustep (udp_step ls) (RU m None).
Proof.
  intros m. split.
  - intros h x s l HR. apply udp_step_in_some. exact (ru_want _ _ _ _ _ HR).
  - intros h x s l s' h' x' HR Ea _ Es.
    rewrite (udp_step_plain _ _ _ (apply_async_plain _ _ _ Ea)) in Es. inversion Es; subst x'.
    destruct h, h'.
    apply apply_async_cases in Ea. destruct Ea as [(b & t & Ht & ->)|(b & c & cb & Hc & ->)].
    + apply RU_flag. apply RU_enq; assumption.
    + apply RU_flag. apply RU_enq_any. apply RU_fresh. exact HR.
Qed.

(* ------------------------------------------------------------------ *)
(* primitives *)

Lemma udp_out_ign : forall l, String.eqb (fst l) "cb" = false -> is_desync (EOut l) = false ->
  (forall x, udp_step0 ls x (EOut l) = Some x) -> out_ign ustep (udp_step ls) l.
Proof.
  intros [name args] Hcb Hd H0. split; [exact Hd|]. intros h x. split; [reflexivity|].
  cbn [fst] in Hcb. rewrite udp_step_noncb by exact Hcb. rewrite H0.
  destruct (u_cur x), (u_depth x); reflexivity.
Qed.

Ltac uoign := apply udp_out_ign; [reflexivity|reflexivity|intros; reflexivity].
Ltac pin := unfold plain_in; cbn [fst snd]; repeat split; try discriminate; intros; discriminate.

Lemma U_emit : forall m wnt l w, out_ign ustep (udp_step ls) l ->
  UINV (RU m wnt) w -> UINV (RU m wnt) (emit l w).
Proof. intros. apply Inv_emit_ign; assumption. Qed.

Lemma U_desync : forall R R' what w, UINV R w -> UINV R' (desync what w).
Proof. intros. apply Inv_dead. eapply Inv_desync. eassumption. Qed.

Lemma U_dead : forall R w, UINV RF w -> UINV R w.
Proof. intros. apply Inv_dead. assumption. Qed.

Ltac dsync := eapply U_desync; eassumption.

Lemma U_sys : forall m name args w k w',
  name <> "recvfrom" -> name <> "sendto" ->
  UINV (RU m None) w -> sys name args w = (k, w') -> UINV (RU m None) w'.
Proof.
  intros m name args w k w' N1 N2 HI E.
  eapply (Inv_sys ustep (udp_step ls) tt _ plain_in); eauto using RU_pull_ok, RU_in_ign.
  - intros n rest. unfold plain_in. cbn [fst snd]. repeat split; try discriminate. intros _. exact N1.
  - apply udp_out_ign; [reflexivity|reflexivity|]. intros x. cbn [obs udp_step0].
    destruct args as [|[fd|?|?] [|[?|d|?] [|? [|]]]]; try reflexivity.
    all: revert N2; crack_goal ltac:(first [reflexivity | congruence]); intros; try reflexivity; congruence.
Qed.

Lemma U_epctl : forall m op fd rw et w r w',
  UINV (RU m None) w -> epctl op fd rw et w = (r, w') -> UINV (RU m None) w'.
Proof.
  intros. eapply (Inv_epctl ustep (udp_step ls) tt _ plain_in); eauto using RU_pull_ok, RU_in_ign.
  - intros; pin.
  - uoign.
Qed.

Lemma U_trigger : forall m b t w r w', is_reg_task t = false ->
  UINV (RU m None) w -> trigger b t w = (r, w') -> UINV (RU m None) w'.
Proof.
  intros. eapply (Inv_trigger ustep (udp_step ls) tt _ plain_in);
    eauto using RU_pull_ok, RU_in_ign, RU_enq, RU_flag; intros; try pin; uoign.
Qed.

Lemma U_efd_write : forall m fuel w r w',
  UINV (RU m None) w -> efd_write fuel w = (r, w') -> UINV (RU m None) w'.
Proof.
  intros. eapply (Inv_efd_write ustep (udp_step ls) tt _ plain_in);
    eauto using RU_pull_ok, RU_in_ign; intros; try pin; uoign.
Qed.

Lemma U_sys_wr : forall m cid fd src exact w k w',
  UINV (RU m None) w -> sys_wr cid fd src exact w = (k, w') -> UINV (RU m None) w'.
Proof.
  intros. eapply (Inv_sys_wr_ign ustep (udp_step ls) tt _ plain_in);
    eauto using RU_pull_ok, RU_in_ign; intros; try pin; uoign.
Qed.

Lemma U_pull_plain : forall m picks w l w',
  UINV (RU m None) w -> pull_gen picks w = (Some l, w') -> plain_in l -> UINV (RU m None) w'.
Proof.
  intros m picks w l w' HI E Hp.
  pose proof (Inv_pull_gen ustep (udp_step ls) tt _ _ picks w _ w' (RU_pull_ok m) HI E) as HA.
  cbn [after_pull] in HA. eapply Inv_after_in; [apply RU_in_ign|exact Hp|exact HA].
Qed.

Lemma U_pull_none : forall m R picks w w',
  UINV (RU m None) w -> pull_gen picks w = (None, w') -> UINV R w'.
Proof.
  intros m R picks w w' HI E. apply Inv_dead.
  exact (Inv_pull_gen ustep (udp_step ls) tt _ _ picks w _ w' (RU_pull_ok m) HI E).
Qed.

(* ------------------------------------------------------------------ *)
(* modes *)

Definition push (m : umode) : umode := match m with UCb c d => UCb c (S d) | _ => m end.
Definition pop (m : umode) : umode :=
  match m with UCb c (S d) => UCb c d | UCb c O => UTop | _ => m end.
(* callbacks nested in a datagram callback belong to other connections *)
Definition tcond (m : umode) (t : Z) : Prop := match m with UCb c (S _) => t <> c | _ => True end.

Lemma U_from_dead : forall wnt R w, UINV (RU UDead wnt) w -> UINV R w.
Proof. intros wnt R w HI. eapply Inv_weaken; [|exact HI]. intros h x _ HR. destruct (ru_mode _ _ _ _ _ HR). Qed.

Lemma U_absurd : forall m wnt wnt' w,
  (forall u x, RU m wnt u x (st w) -> False) -> UINV (RU m wnt) w -> UINV (RU UDead wnt') w.
Proof. intros m wnt wnt' w Hf HI. eapply Inv_weaken; [|exact HI]. intros h x _ HR. exfalso. eapply Hf; eauto. Qed.

Lemma RU_setc_other : forall m wnt u x s t c',
  (forall c d, m = UCb c d -> t <> c) -> RU m wnt u x s -> RU m wnt u x (setc s t c').
Proof.
  intros m wnt u x s t c' Hne [R1 R2 R3 R4]. constructor; auto.
  destruct m as [|c d|]; cbn [msem] in *; auto. cbn [setc l_next]. rewrite getc_setc.
  destruct (Z.eqb_spec c t) as [->|N]; [exfalso; eapply Hne; eauto|exact R4].
Qed.

Lemma RU_setc_same : forall m wnt u x s t c',
  c_in c' = c_in (getc s t) -> c_buf c' = c_buf (getc s t) -> c_udp c' = c_udp (getc s t) ->
  c_remote c' = c_remote (getc s t) -> c_opened c' = c_opened (getc s t) ->
  RU m wnt u x s -> RU m wnt u x (setc s t c').
Proof.
  intros m wnt u x s t c' Hi Hb Hu Hr Ho [R1 R2 R3 R4]. constructor; auto.
  destruct m as [|c d|]; cbn [msem] in *; auto. cbn [setc l_next]. rewrite getc_setc.
  destruct (Z.eqb_spec c t) as [->|N]; [|exact R4]. rewrite Hi, Hb, Hu, Hr, Ho. exact R4.
Qed.

Lemma U_wsetc_same : forall m wnt w t c',
  c_in c' = c_in (wc w t) -> c_buf c' = c_buf (wc w t) -> c_udp c' = c_udp (wc w t) ->
  c_remote c' = c_remote (wc w t) -> c_opened c' = c_opened (wc w t) ->
  UINV (RU m wnt) w -> UINV (RU m wnt) (wsetc w t c').
Proof.
  intros m wnt w t c' Hi Hb Hu Hr Ho HI. eapply Inv_wsetc; [exact HI|].
  intros h x _ HR. apply RU_setc_same; auto.
Qed.

Lemma U_with_st : forall m wnt w s',
  (forall c, c < l_next (st w) -> getc s' c = getc (st w) c) -> l_next (st w) <= l_next s' ->
  UINV (RU m wnt) w -> UINV (RU m wnt) (with_st w s').
Proof. intros m wnt w s' Hc Hn HI. eapply Inv_with_st; [exact HI|]. intros h x _ HR. eapply RU_frame; eauto. Qed.

(* a callback of another connection is announced *)
Lemma udp_step0_cb : forall x k cid rest, String.eqb k "udp" = false -> u_pending x = None ->
  udp_step0 ls x (EOut ("cb", ASym k :: AInt cid :: rest)) = Some x.
Proof.
  intros x k cid rest Hk Hp. unfold udp_step0. rewrite Hp.
  crack_goal ltac:(first [reflexivity | (cbn in Hk; discriminate Hk)]). all: reflexivity.
Qed.

Lemma RU_cb : forall m u x s k cid rest, String.eqb k "udp" = false ->
  RU m None u x s ->
  exists x', udp_step ls x (EOut (obs "cb" (ASym k :: AInt cid :: rest))) = Some x' /\ RU (push m) None u x' s.
Proof.
  intros m u x s k cid rest Hk [R1 R2 R3 R4]. unfold obs. rewrite udp_step_cb.
  destruct m as [|c d|]; cbn [msem push] in *; [| |destruct R4].
  - rewrite R4. rewrite udp_step0_cb by assumption. exists x. split; [reflexivity|]. constructor; auto.
  - destruct R4 as (A & B & C). rewrite A, B.
    destruct d; eexists; (split; [reflexivity|]); constructor; cbn [u_pending u_want_send u_seen u_cur u_depth msem]; auto.
Qed.

Lemma U_cb : forall m k cid rest w, String.eqb k "udp" = false ->
  UINV (RU m None) w -> UINV (RU (push m) None) (emit (obs "cb" (ASym k :: AInt cid :: rest)) w).
Proof.
  intros m k cid rest w Hk HI. eapply Inv_emit; [exact HI|reflexivity|].
  intros [] x _ HR. cbn [ustep]. apply RU_cb; assumption.
Qed.

(* handler-visible values *)
Definition consuming (call : string) : bool :=
  sym_eqb call "read" || sym_eqb call "next" || sym_eqb call "writeto".
Definition checked (call : string) : bool :=
  consuming call || sym_eqb call "discard" || sym_eqb call "peek" || sym_eqb call "inbuf".

Lemma udp_hr_other : forall x cid call vals, checked call = false ->
  udp_step0 ls x (EOut ("hr", AInt cid :: ASym call :: vals)) = Some x.
Proof.
  intros x cid call vals Hc. unfold checked, consuming in Hc.
  apply orb_false_elim in Hc. destruct Hc as [Hc H4]. apply orb_false_elim in Hc. destruct Hc as [Hc H3].
  apply orb_false_elim in Hc. destruct Hc as [Hc H2].
  cbn [udp_step0]. destruct (u_cur x) as [[c rest]|]; [|reflexivity].
  destruct (negb (c =? cid)); [reflexivity|]. rewrite Hc, H2, H3, H4. reflexivity.
Qed.

Lemma udp_hr_skip : forall m u x s cid call vals,
  RU m None u x s -> (forall c, m = UCb c O -> cid <> c \/ checked call = false) ->
  udp_step ls x (EOut ("hr", AInt cid :: ASym call :: vals)) = Some x.
Proof.
  intros m u x s cid call vals [R1 R2 R3 R4] Hc. rewrite udp_step_noncb by reflexivity.
  destruct m as [|c d|]; cbn [msem] in *; [| |destruct R4].
  - rewrite R4. cbn [udp_step0]. rewrite R4. reflexivity.
  - destruct R4 as (A & B & _). rewrite A, B. destruct d; [|reflexivity].
    destruct (Hc c eq_refl) as [N|Hk]; [|apply udp_hr_other; exact Hk].
    cbn [udp_step0]. rewrite A. replace (c =? cid) with false by lia. reflexivity.
Qed.

Lemma U_hr_skip : forall m cid call vals w,
  (forall c, m = UCb c O -> cid <> c \/ checked call = false) ->
  UINV (RU m None) w -> UINV (RU m None) (emit (obs "hr" (AInt cid :: ASym call :: vals)) w).
Proof.
  intros m cid call vals w Hc HI. eapply Inv_emit; [exact HI|reflexivity|].
  intros [] x _ HR. cbn [ustep]. exists x. split; [|exact HR]. eapply udp_hr_skip; eauto.
Qed.

Lemma tcond_ne : forall m t, tcond m t -> forall c d, m = UCb c (S d) -> t <> c.
Proof. intros m t H c d ->. exact H. Qed.

(* the datagram identity consumes: the checker's unread payload moves with it *)
Lemma RU_consume : forall c u x s c' rest',
  RU (UCb c O) None u x s ->
  c_udp c' = c_udp (getc s c) -> c_remote c' = c_remote (getc s c) -> c_opened c' = c_opened (getc s c) ->
  rest' = c_in c' ++ c_buf c' ->
  RU (UCb c O) None u (mkU None (Some (c, rest')) (u_seen x) None) (setc s c c').
Proof.
  intros c u x s c' rest' [R1 R2 R3 R4] Hu Hr Ho Hrest. cbn [msem] in R4.
  destruct R4 as (A & B & C & D & E & F).
  constructor; cbn [mkU u_pending u_want_send u_seen u_cur u_depth msem setc l_next]; auto.
  rewrite getc_setc, Z.eqb_refl. rewrite Hu, Hr, Ho, Hrest. auto 10.
Qed.

Lemma U_hr_consume : forall m t call b vals w c',
  consuming call = true ->
  c_udp c' = c_udp (wc w t) -> c_remote c' = c_remote (wc w t) -> c_opened c' = c_opened (wc w t) ->
  is_prefix b (c_in (wc w t) ++ c_buf (wc w t)) = true ->
  c_in c' ++ c_buf c' = zdrop (zlen b) (c_in (wc w t) ++ c_buf (wc w t)) ->
  tcond m t ->
  UINV (RU m None) w ->
  UINV (RU m None) (emit (obs "hr" (AInt t :: ASym call :: ABytes b :: vals)) (wsetc w t c')).
Proof.
  intros m t call b vals w c' Hc Hu Hr Ho Hp Hd Ht HI.
  eapply Inv_wsetc_emit; [exact HI|reflexivity|].
  intros [] x _ HR. cbn [ustep]. unfold wc in *.
  assert (Hother : (forall c d, m = UCb c d -> t <> c) ->
     exists x', udp_step ls x (EOut (obs "hr" (AInt t :: ASym call :: ABytes b :: vals))) = Some x' /\
                RU m None tt x' (setc (st w) t c')).
  { intros Hne. exists x. split; [|apply RU_setc_other; assumption].
    eapply udp_hr_skip; [exact HR|]. intros c E. left. eapply Hne; eauto. }
  destruct m as [|c d|]; [apply Hother; discriminate| |destruct (ru_mode _ _ _ _ _ HR)].
  destruct d as [|d]; [|apply Hother; intros c0 d0 E; inversion E; subst; exact Ht].
  destruct (Z.eq_dec t c) as [->|N]; [|apply Hother; intros c0 d0 E; inversion E; subst; exact N].
  pose proof (ru_mode _ _ _ _ _ HR) as (A & B & _). unfold obs.
  rewrite udp_step_noncb by reflexivity. rewrite A, B. cbn [udp_step0]. rewrite A, Z.eqb_refl. cbn [negb].
  unfold consuming in Hc. rewrite Hc, Hp. eexists. split; [reflexivity|].
  apply RU_consume; auto.
Qed.

Lemma U_hr_consume_nil : forall m t call vals w,
  consuming call = true ->
  UINV (RU m None) w ->
  UINV (RU m None) (emit (obs "hr" (AInt t :: ASym call :: ABytes [] :: vals)) w).
Proof.
  intros m t call vals w Hc HI. eapply Inv_emit; [exact HI|reflexivity|].
  intros [] x _ HR. cbn [ustep]. unfold obs. rewrite udp_step_noncb by reflexivity.
  pose proof HR as [R1 R2 R3 R4].
  destruct m as [|c d|]; cbn [msem] in R4; [| |destruct R4].
  - rewrite R4. cbn [udp_step0]. rewrite R4. exists x. auto.
  - destruct R4 as (A & B & C & D & E & F). rewrite A, B. destruct d; [|exists x; auto].
    cbn [udp_step0]. rewrite A. destruct (negb (c =? t)); [exists x; auto|].
    unfold consuming in Hc. rewrite Hc, is_prefix_nil. eexists. split; [reflexivity|].
    change (zlen (@nil Z)) with 0. rewrite zdrop_neg by lia.
    constructor; cbn [mkU u_pending u_want_send u_seen u_cur u_depth msem]; auto 10.
Qed.

Lemma U_hr_discard : forall m t n w c',
  c_udp c' = c_udp (wc w t) -> c_remote c' = c_remote (wc w t) -> c_opened c' = c_opened (wc w t) ->
  0 <= n <= zlen (c_in (wc w t) ++ c_buf (wc w t)) ->
  c_in c' ++ c_buf c' = zdrop n (c_in (wc w t) ++ c_buf (wc w t)) ->
  tcond m t ->
  UINV (RU m None) w ->
  UINV (RU m None) (emit (obs "hr" [AInt t; ASym "discard"; AInt n]) (wsetc w t c')).
Proof.
  intros m t n w c' Hu Hr Ho Hn Hd Ht HI.
  eapply Inv_wsetc_emit; [exact HI|reflexivity|].
  intros [] x _ HR. cbn [ustep]. unfold wc in *.
  assert (Hother : (forall c d, m = UCb c d -> t <> c) ->
     exists x', udp_step ls x (EOut (obs "hr" [AInt t; ASym "discard"; AInt n])) = Some x' /\
                RU m None tt x' (setc (st w) t c')).
  { intros Hne. exists x. split; [|apply RU_setc_other; assumption].
    eapply udp_hr_skip; [exact HR|]. intros c E. left. eapply Hne; eauto. }
  destruct m as [|c d|]; [apply Hother; discriminate| |destruct (ru_mode _ _ _ _ _ HR)].
  destruct d as [|d]; [|apply Hother; intros c0 d0 E; inversion E; subst; exact Ht].
  destruct (Z.eq_dec t c) as [->|N]; [|apply Hother; intros c0 d0 E; inversion E; subst; exact N].
  pose proof (ru_mode _ _ _ _ _ HR) as (A & B & _). unfold obs.
  rewrite udp_step_noncb by reflexivity. rewrite A, B. cbn [udp_step0]. rewrite A, Z.eqb_refl. cbn.
  replace ((0 <=? n) && (n <=? zlen (c_in (getc (st w) c) ++ c_buf (getc (st w) c)))) with true by lia.
  eexists. split; [reflexivity|]. apply RU_consume; auto.
Qed.

Lemma U_hr_peek : forall m t b vals w,
  is_prefix b (c_in (wc w t) ++ c_buf (wc w t)) = true ->
  UINV (RU m None) w ->
  UINV (RU m None) (emit (obs "hr" (AInt t :: ASym "peek" :: ABytes b :: vals)) w).
Proof.
  intros m t b vals w Hp HI. eapply Inv_emit; [exact HI|reflexivity|].
  intros [] x _ HR. cbn [ustep]. exists x. split; [|exact HR]. unfold obs, wc in *.
  rewrite udp_step_noncb by reflexivity. pose proof HR as [R1 R2 R3 R4].
  destruct m as [|c d|]; cbn [msem] in R4; [| |destruct R4].
  - rewrite R4. cbn [udp_step0]. rewrite R4. reflexivity.
  - destruct R4 as (A & B & _). rewrite A, B. destruct d; [|reflexivity].
    cbn [udp_step0]. rewrite A. destruct (Z.eqb_spec c t) as [->|N]; cbn [negb]; [|reflexivity].
    cbn. rewrite Hp. reflexivity.
Qed.

Lemma U_hr_inbuf : forall m t w,
  UINV (RU m None) w ->
  UINV (RU m None) (emit (obs "hr" [AInt t; ASym "inbuf"; AInt (zlen (c_in (wc w t)) + zlen (c_buf (wc w t)))]) w).
Proof.
  intros m t w HI. eapply Inv_emit; [exact HI|reflexivity|].
  intros [] x _ HR. cbn [ustep]. exists x. split; [|exact HR]. unfold obs, wc in *.
  rewrite udp_step_noncb by reflexivity. pose proof HR as [R1 R2 R3 R4].
  destruct m as [|c d|]; cbn [msem] in R4; [| |destruct R4].
  - rewrite R4. cbn [udp_step0]. rewrite R4. reflexivity.
  - destruct R4 as (A & B & _). rewrite A, B. destruct d; [|reflexivity].
    cbn [udp_step0]. rewrite A. destruct (Z.eqb_spec c t) as [->|N]; cbn [negb]; [|reflexivity].
    cbn. rewrite zlen_app, Z.eqb_refl. reflexivity.
Qed.

(* ------------------------------------------------------------------ *)
(* sendto *)

Lemma U_sendto_none : forall m args w k w',
  UINV (RU m None) w -> sys "sendto" args w = (k, w') -> UINV (RU m None) w'.
Proof.
  intros m args w k w' HI E. unfold sys in E.
  eapply (Inv_sysret ustep (udp_step ls) tt _ plain_in); [apply RU_pull_ok|apply RU_in_ign| | |exact E].
  - intros; pin.
  - eapply Inv_emit; [exact HI|reflexivity|].
    intros [] x _ HR. cbn [ustep]. exists x. split; [|exact HR]. unfold obs.
    rewrite udp_step_noncb by reflexivity.
    assert (H0 : udp_step0 ls x (EOut ("sys", ASym "sendto" :: args)) = Some x).
    { cbn [udp_step0]. rewrite (ru_want _ _ _ _ _ HR).
      destruct args as [|[fd|?|?] [|[?|d|?] [|? [|]]]]; reflexivity. }
    rewrite H0. destruct (u_cur x), (u_depth x); reflexivity.
Qed.

Lemma U_sendto_want : forall c d fd a w k w',
  UINV (RU (UCb c O) (Some d)) w -> sys "sendto" [AInt fd; ABytes d; a] w = (k, w') ->
  UINV (RU (UCb c O) None) w'.
Proof.
  intros c d fd a w k w' HI E. unfold sys in E.
  eapply (Inv_sysret ustep (udp_step ls) tt _ plain_in); [apply RU_pull_ok|apply RU_in_ign| | |exact E].
  - intros; pin.
  - eapply Inv_emit; [exact HI|reflexivity|].
    intros [] x _ HR. cbn [ustep]. unfold obs. rewrite udp_step_noncb by reflexivity.
    pose proof HR as [R1 R2 R3 R4]. cbn [msem] in R4. destruct R4 as (A & B & C & D & E0 & F).
    rewrite A, B. cbn [udp_step0]. rewrite R2, is_prefix_refl. cbn [andb].
    eexists. split; [reflexivity|].
    constructor; cbn [mkU u_pending u_want_send u_seen u_cur u_depth msem]; auto 10.
Qed.

(* ------------------------------------------------------------------ *)
(* the mutually recursive procedures *)

Definition hcond (m : umode) (t : Z) : Prop :=
  match m with UCb c O => t = c | UCb c (S _) => t <> c | _ => True end.

Definition wcond (m : umode) (wnt : option (list Z)) (cid : Z) (call : string) (args : list arg) : Prop :=
  wnt = None \/ exists d, wnt = Some d /\ m = UCb cid O /\ call = "write" /\ args = [ABytes d].

Record MBU (f : nat) : Prop := mkMBU {
  mu_close : forall cid e w r w' m, UINV (RU m None) w -> el_close f cid e w = (r, w') -> UINV (RU m None) w';
  mu_drain : forall cid w m, UINV (RU m None) w -> UINV (RU m None) (close_drain f cid w);
  mu_write : forall cid d w r w' m, UINV (RU m None) w -> conn_write f cid d w = (r, w') -> UINV (RU m None) w';
  mu_wloop : forall cid d n w r w' m, UINV (RU m None) w -> conn_write_loop f cid d n w = (r, w') -> UINV (RU m None) w';
  mu_wvloop : forall cid sg n w r w' m, UINV (RU m None) w -> conn_writev_loop f cid sg n w = (r, w') -> UINV (RU m None) w';
  mu_writev : forall cid sg w r w' m, UINV (RU m None) w -> conn_writev f cid sg w = (r, w') -> UINV (RU m None) w';
  mu_elwrite : forall cid sent w r w' m, UINV (RU m None) w -> el_write f cid sent w = (r, w') -> UINV (RU m None) w';
  mu_handler : forall cid w r w' m, hcond m cid -> UINV (RU m None) w -> handler f cid w = (r, w') ->
      UINV (RU (pop m) None) w';
  mu_hcall : forall cid call args w m wnt, tcond m cid -> wcond m wnt cid call args ->
      UINV (RU m wnt) w -> UINV (RU m None) (hcall f cid call args w)
}.

(* changing c_out only *)
Lemma U_set_out : forall m wnt w t o,
  UINV (RU m wnt) w -> UINV (RU m wnt) (wsetc w t (c_set_out (wc w t) o)).
Proof. intros. apply U_wsetc_same; auto. Qed.

(* a mode in which the target t is certainly not the datagram identity *)
Lemma U_split_target : forall m w t, c_opened (wc w t) = true -> UINV (RU m None) w ->
  exists m', UINV (RU m' None) w /\ (forall c d, m' = UCb c d -> t <> c) /\
             (forall w'', UINV (RU m' None) w'' -> UINV (RU m None) w'') /\
             (forall w'', UINV (RU (pop (push m')) None) w'' -> UINV (RU m None) w'').
Proof.
  intros m w t Ho HI. destruct m as [|c d|].
  - exists UTop. repeat split; auto; discriminate.
  - destruct (Z.eq_dec t c) as [->|N].
    + exists UDead. repeat split; try discriminate; try (intros; eapply U_from_dead; eassumption).
      eapply U_absurd; [|exact HI]. intros u x HR. pose proof (ru_mode _ _ _ _ _ HR) as (_ & _ & _ & _ & E & _).
      unfold wc in Ho. congruence.
    + exists (UCb c d). repeat split; auto. intros c0 d0 E. inversion E; subst. exact N.
  - exists UDead. repeat split; auto; discriminate.
Qed.

Lemma el_close_S : forall f, MBU f -> forall cid e w r w' m,
  UINV (RU m None) w -> el_close (S f) cid e w = (r, w') -> UINV (RU m None) w'.
Proof.
  intros f M cid e w r w' m HI E. cbn [el_close] in E.
  destruct (c_opened (wc w cid)) eqn:Eo; cbn [negb orb] in E; [|inversion E; subst; exact HI].
  destruct (alookup (c_fd (wc w cid)) (l_reg (st w))) as [rc|] eqn:Er; [|inversion E; subst; exact HI].
  destruct (U_split_target _ _ _ Eo HI) as (m' & HI' & Hne & _ & Hback). apply Hback. clear Hback HI.
  set (w2 := emit _ (with_st w _)) in E.
  assert (H2 : UINV (RU (push m') None) w2).
  { subst w2. apply U_cb; [reflexivity|]. apply U_with_st; auto; cbn; lia. }
  clearbody w2.
  destruct (handler f cid w2) as [[act rep] w3] eqn:Eh.
  assert (Hh : hcond (push m') cid).
  { destruct m' as [|c d|]; cbn; auto. eapply Hne; eauto. }
  pose proof (mu_handler _ M _ _ _ _ _ Hh H2 Eh) as H3.
  pose proof (mu_drain _ M cid _ _ H3) as H4.
  set (w4 := close_drain f cid w3) in *. clearbody w4.
  assert (Hpp : forall c d, pop (push m') = UCb c d -> cid <> c).
  { destruct m' as [|c d|]; cbn; try discriminate. intros c0 d0 E0. inversion E0; subst. eapply Hne; eauto. }
  assert (H5 : UINV (RU (pop (push m')) None) (wsetc w4 cid (c_release (wc w4 cid)))).
  { eapply Inv_wsetc; [exact H4|]. intros h x _ HR. apply RU_setc_other; auto. }
  destruct (epctl "del" _ false false _) as [r0 w6] eqn:E6.
  pose proof (U_epctl _ _ _ _ _ _ _ _ H5 E6) as H6.
  destruct (sys "close" _ w6) as [k1 w7] eqn:E7.
  assert (H7 : UINV (RU (pop (push m')) None) w7) by (eapply U_sys; [| |exact H6|exact E7]; discriminate).
  destruct (match r0 with RNil => _ | _ => true end); [inversion E; subst; exact H7|].
  destruct act; [inversion E; subst; exact H7| |inversion E; subst; exact H7].
  eapply (mu_close _ M); eauto.
Qed.

Lemma close_drain_S : forall f, MBU f -> forall cid w m,
  UINV (RU m None) w -> UINV (RU m None) (close_drain (S f) cid w).
Proof.
  intros f M cid w m HI. cbn [close_drain].
  destruct (c_out (wc w cid)) as [|b0 l0] eqn:Eout; [exact HI|]. rewrite <- Eout.
  destruct (sys_wr cid _ _ false w) as [k w1] eqn:Es.
  pose proof (U_sys_wr _ _ _ _ _ _ _ _ HI Es) as H1.
  destruct k; try exact H1. apply (mu_drain _ M). apply U_set_out. exact H1.
Qed.

Lemma conn_write_loop_S : forall f, MBU f -> forall cid d n w r w' m,
  UINV (RU m None) w -> conn_write_loop (S f) cid d n w = (r, w') -> UINV (RU m None) w'.
Proof.
  intros f M cid d n w r w' m HI E. cbn [conn_write_loop] in E.
  destruct (sys_wr cid _ d true w) as [k w1] eqn:Es.
  pose proof (U_sys_wr _ _ _ _ _ _ _ _ HI Es) as H1.
  destruct k as [sent extra|e|].
  - destruct (zdrop sent d) as [|b0 l0] eqn:Ed; [inversion E; subst; exact H1|]. rewrite <- Ed in E.
    destruct (l_et (st w)).
    + eapply (mu_wloop _ M); eauto.
    + destruct (epctl "mod" _ true false _) as [r3 w3] eqn:E3. inversion E; subst.
      eapply U_epctl; [|exact E3]. apply U_set_out. exact H1.
  - destruct (is_eagain e); [|inversion E; subst; exact H1].
    pose proof (U_set_out _ _ _ cid (c_out (wc w1 cid) ++ d) H1) as H2.
    destruct (l_et (st w)); [inversion E; subst; exact H2|].
    destruct (epctl "mod" _ true false _) as [r3 w3] eqn:E3. inversion E; subst.
    eapply U_epctl; eauto.
  - inversion E; subst; exact H1.
Qed.

Lemma conn_writev_loop_S : forall f, MBU f -> forall cid sg n w r w' m,
  UINV (RU m None) w -> conn_writev_loop (S f) cid sg n w = (r, w') -> UINV (RU m None) w'.
Proof.
  intros f M cid sg n w r w' m HI E. cbn [conn_writev_loop] in E.
  destruct (sys_wr cid _ _ true w) as [k w1] eqn:Es.
  pose proof (U_sys_wr _ _ _ _ _ _ _ _ HI Es) as H1.
  destruct k as [sent extra|e|].
  - destruct (List.concat (drop_sent sent sg)) as [|b0 l0] eqn:Ed; [inversion E; subst; exact H1|]. rewrite <- Ed in E.
    destruct (l_et (st w)).
    + eapply (mu_wvloop _ M); eauto.
    + destruct (epctl "mod" _ true false _) as [r3 w3] eqn:E3. inversion E; subst.
      eapply U_epctl; [|exact E3]. apply U_set_out. exact H1.
  - destruct (is_eagain e); [|inversion E; subst; exact H1].
    pose proof (U_set_out _ _ _ cid (c_out (wc w1 cid) ++ List.concat sg) H1) as H2.
    destruct (l_et (st w)); [inversion E; subst; exact H2|].
    destruct (epctl "mod" _ true false _) as [r3 w3] eqn:E3. inversion E; subst.
    eapply U_epctl; eauto.
  - inversion E; subst; exact H1.
Qed.

Lemma conn_write_S : forall f, MBU f -> forall cid d w r w' m,
  UINV (RU m None) w -> conn_write (S f) cid d w = (r, w') -> UINV (RU m None) w'.
Proof.
  intros f M cid d w r w' m HI E. cbn [conn_write] in E.
  destruct (negb (c_opened (wc w cid))); [inversion E; subst; exact HI|].
  assert (H1 : UINV (RU m None) (ghost "sub" cid d w)) by (apply U_emit; [uoign|exact HI]).
  destruct (c_out (wc w cid)) as [|b0 l0] eqn:Eout.
  - destruct (conn_write_loop f cid d (zlen d) _) as [[rn ok] w1] eqn:El.
    pose proof (mu_wloop _ M _ _ _ _ _ _ _ H1 El) as H2.
    destruct ok; [inversion E; subst; exact H2|].
    destruct (el_close f cid false w1) as [r2 w2] eqn:Ec. inversion E; subst.
    eapply (mu_close _ M); eauto.
  - inversion E; subst. apply U_wsetc_same; rewrite ?wc_ghost; auto.
Qed.

Lemma conn_writev_S : forall f, MBU f -> forall cid sg w r w' m,
  UINV (RU m None) w -> conn_writev (S f) cid sg w = (r, w') -> UINV (RU m None) w'.
Proof.
  intros f M cid sg w r w' m HI E. cbn [conn_writev] in E.
  destruct (negb (c_opened (wc w cid))); [inversion E; subst; exact HI|].
  assert (H1 : UINV (RU m None) (ghost "sub" cid (List.concat sg) w)) by (apply U_emit; [uoign|exact HI]).
  destruct (c_out (wc w cid)) as [|b0 l0] eqn:Eout.
  - destruct sg as [|s0 sg']; [inversion E; subst; exact H1|].
    destruct (conn_writev_loop f cid _ _ _) as [[rn ok] w1] eqn:El.
    pose proof (mu_wvloop _ M _ _ _ _ _ _ _ H1 El) as H2.
    destruct ok; [inversion E; subst; exact H2|].
    destruct (el_close f cid false w1) as [r2 w2] eqn:Ec. inversion E; subst.
    eapply (mu_close _ M); eauto.
  - inversion E; subst. apply U_wsetc_same; rewrite ?wc_ghost; auto.
Qed.

Lemma el_write_S : forall f, MBU f -> forall cid sent w r w' m,
  UINV (RU m None) w -> el_write (S f) cid sent w = (r, w') -> UINV (RU m None) w'.
Proof.
  intros f M cid sent w r w' m HI E. cbn [el_write] in E.
  destruct (negb (c_opened (wc w cid))); [inversion E; subst; exact HI|].
  destruct (c_out (wc w cid)) as [|b0 l0] eqn:Eout; [inversion E; subst; exact HI|]. rewrite <- Eout in E.
  destruct (sys_wr cid _ _ false w) as [k w1] eqn:Es.
  pose proof (U_sys_wr _ _ _ _ _ _ _ _ HI Es) as H1.
  destruct k as [n extra|e|].
  - pose proof (U_set_out _ _ _ cid (zdrop n (c_out (wc w1 cid))) H1) as H2.
    destruct (zdrop n (c_out (wc w1 cid))) as [|b1 l1] eqn:Ed.
    + destruct (l_et (st w)); [inversion E; subst; exact H2|]. eapply U_epctl; eauto.
    + rewrite <- Ed in *. destruct (l_et (st w)); [|inversion E; subst; exact H2].
      destruct (_ <? _).
      * eapply (mu_elwrite _ M); eauto.
      * eapply U_trigger; [| |exact E]; [reflexivity|]. apply U_emit; [uoign|exact H2].
  - destruct (is_eagain e); [inversion E; subst; exact H1|]. eapply (mu_close _ M); eauto.
  - inversion E; subst; exact H1.
Qed.

(* what a handler line does to the checker *)
Definition want_of (m : umode) (call : string) (args : list arg) : option (list Z) :=
  match m with
  | UCb _ O => if String.eqb call "write" then match args with [ABytes d] => Some d | _ => None end else None
  | _ => None
  end.

Lemma udp_step0_h : forall x call args,
  udp_step0 ls x (EIn ("h", ASym call :: args)) =
  match (if String.eqb call "write" then match args with [ABytes d] => Some d | _ => None end else None) with
  | Some d => match u_cur x with
              | Some _ => Some (mkU (u_pending x) (u_cur x) (u_seen x) (Some d))
              | None => Some x end
  | None => Some x
  end.
Proof.
  intros x call args. unfold udp_step0.
  destruct args as [|[?|d|?] [|]]; crack_goal ltac:(reflexivity); try reflexivity.
Qed.

Lemma RU_hline : forall m u x s call args x',
  RU m None u x s -> udp_step ls x (EIn ("h", ASym call :: args)) = Some x' ->
  RU m (want_of m call args) u x' s.
Proof.
  intros m u x s call args x' HR E. rewrite udp_step_in in E by reflexivity.
  pose proof HR as [R1 R2 R3 R4].
  destruct m as [|c d|]; cbn [msem want_of] in *; [| |destruct R4].
  - rewrite R4 in E. rewrite udp_step0_h in E. rewrite R4 in E.
    destruct (if String.eqb call "write" then _ else _); inversion E; subst; exact HR.
  - destruct R4 as (A & B & C & D & E0 & F). rewrite A, B in E. destruct d; [|inversion E; subst; exact HR].
    rewrite udp_step0_h in E. rewrite A in E.
    destruct (if String.eqb call "write" then _ else _) as [dd|]; inversion E; subst; [|exact HR].
    constructor; cbn [mkU u_pending u_want_send u_seen u_cur u_depth msem]; auto 10.
Qed.

Lemma RU_hret : forall m u x s args x',
  RU m None u x s -> udp_step ls x (EIn ("hret", args)) = Some x' -> RU (pop m) None u x' s.
Proof.
  intros m u x s args x' HR E. rewrite udp_step_hret in E. pose proof HR as [R1 R2 R3 R4].
  destruct m as [|c d|]; cbn [msem pop] in *; [| |destruct R4].
  - rewrite R4 in E. cbn [udp_step0] in E. rewrite R2 in E. inversion E; subst.
    constructor; cbn [mkU u_pending u_want_send u_seen u_cur u_depth msem]; auto.
  - destruct R4 as (A & B & C & D & E0 & F). rewrite A, B in E. destruct d.
    + cbn [udp_step0] in E. rewrite R2 in E. inversion E; subst.
      constructor; cbn [mkU u_pending u_want_send u_seen u_cur u_depth msem]; auto.
    + inversion E; subst. constructor; cbn [u_pending u_want_send u_seen u_cur u_depth msem]; auto 10.
Qed.

Lemma handler_S : forall f, MBU f -> forall cid w r w' m, hcond m cid ->
  UINV (RU m None) w -> handler (S f) cid w = (r, w') -> UINV (RU (pop m) None) w'.
Proof.
  intros f M cid w r w' m Hc HI E. rewrite handler_eq in E.
  destruct (pull w) as [[[name args]|] w1] eqn:Ep.
  2:{ inversion E; subst. eapply U_pull_none; eauto. }
  pose proof (Inv_pull ustep (udp_step ls) tt _ _ w _ w1 (RU_pull_ok m) HI Ep) as HA. cbn [after_pull] in HA.
  destruct (String.eqb_spec name "hret") as [->|Nh].
  { assert (H1 : UINV (RU (pop m) None) w1).
    { eapply Inv_weaken; [|exact HA]. intros h' x' _ (h & x & HR & _ & _ & Es). destruct h, h'. eapply RU_hret; eauto. }
    destruct args; inversion E; subst; [dsync|exact H1]. }
  destruct (String.eqb_spec name "h") as [->|N2]; [|inversion E; subst; dsync].
  destruct args as [|[?|?|call] args']; try (inversion E; subst; dsync).
  assert (H1 : UINV (RU m (want_of m call args')) w1).
  { eapply Inv_weaken; [|exact HA]. intros h' x' _ (h & x & HR & _ & _ & Es). destruct h, h'. eapply RU_hline; eauto. }
  eapply (mu_handler _ M); [exact Hc| |exact E].
  eapply (mu_hcall _ M); [| |exact H1].
  - destruct m as [|c [|d]|]; cbn in *; auto.
  - unfold wcond. destruct m as [|c [|d]|]; cbn [want_of]; auto. cbn in Hc. subst c.
    destruct (String.eqb_spec call "write") as [->|]; [|auto].
    destruct args' as [|[?|d|?] [|]]; auto. right. exists d. auto.
Qed.

Ltac chain_next :=
  match goal with |- context [if sym_eqb ?c ?lit then _ else _] =>
    let E := fresh "Ec" in destruct (sym_eqb c lit) eqn:E;
    [apply String.eqb_eq in E; subst c|] end.
Ltac hrs := apply U_hr_skip; [intros; right; reflexivity|].

(* the Write of the datagram callback: exactly one sendto of the bytes just announced *)
Lemma hcall_write_want : forall f, MBU f -> forall c d w,
  UINV (RU (UCb c O) (Some d)) w -> UINV (RU (UCb c O) None) (hcall (S f) c "write" [ABytes d] w).
Proof.
  intros f M c d w HI. cbn [hcall]. cbn [sym_eqb String.eqb Ascii.eqb Bool.eqb].
  assert (Hdead : (c_udp (wc w c) = false \/ c_remote (wc w c) = false) -> UINV (RU UDead None) w).
  { intros Hor. eapply U_absurd; [|exact HI]. intros u x HR.
    pose proof (ru_mode _ _ _ _ _ HR) as (_ & _ & A & B & _). unfold wc in Hor. destruct Hor; congruence. }
  destruct (c_udp (wc w c)) eqn:Eu.
  - destruct (c_remote (wc w c)) eqn:Er; cbn [negb andb].
    + destruct (sys "sendto" _ w) as [k w1] eqn:Es.
      pose proof (U_sendto_want _ _ _ _ _ _ _ HI Es) as H1.
      destruct k; hrs; exact H1.
    + pose proof (Hdead (or_intror eq_refl)) as HD.
      eapply U_from_dead with (wnt := None). destruct (negb (c_opened (wc w c))).
      * hrs. exact HD.
      * destruct (sys "sendto" _ w) as [k w1] eqn:Es.
        pose proof (U_sendto_none _ _ _ _ _ HD Es) as H1. destruct k; hrs; exact H1.
  - pose proof (Hdead (or_introl eq_refl)) as HD. eapply U_from_dead with (wnt := None).
    destruct (conn_write f c d w) as [[n ok] w1] eqn:Ew.
    hrs. eapply (mu_write _ M); eauto.
Qed.

Lemma hcall_S : forall f, MBU f -> forall cid call args w m wnt, tcond m cid -> wcond m wnt cid call args ->
  UINV (RU m wnt) w -> UINV (RU m None) (hcall (S f) cid call args w).
Proof.
  intros f M cid call args w m wnt Ht Hw HI.
  destruct Hw as [->|(d & -> & -> & -> & ->)]; [|apply hcall_write_want; assumption].
  cbn [hcall].
  chain_next.
  { destruct args as [|[n|?|?] [|]]; try dsync.
    destruct (c_in (wc w cid)) as [|a0 l0] eqn:Ein.
    - apply U_hr_consume; auto; cbn [c_set_buf c_in c_buf c_udp c_remote c_opened]; rewrite ?Ein; cbn [app].
      + apply is_prefix_ztake.
      + rewrite zdrop_zlen_ztake. reflexivity.
    - rewrite <- Ein. destruct (zlen (ztake n (c_in (wc w cid))) =? n) eqn:En.
      + apply U_hr_consume; auto; cbn [c_set_in c_in c_buf].
        * rewrite (read_take_in n _ (c_buf (wc w cid))) by lia. apply is_prefix_ztake.
        * rewrite (read_take_in n _ (c_buf (wc w cid))) by lia. rewrite zdrop_zlen_ztake.
          apply read_drop_in. lia.
      + apply U_hr_consume; auto; cbn [c_set_in c_set_buf c_in c_buf].
        * rewrite read_take. apply is_prefix_ztake.
        * rewrite read_take, zdrop_zlen_ztake. apply read_drop. }
  chain_next.
  { destruct args as [|[n|?|?] [|]]; try dsync.
    destruct (n >? _) eqn:Egt.
    - apply U_hr_consume_nil; [reflexivity|exact HI].
    - set (k := if n <=? 0 then _ else n).
      apply U_hr_consume; auto; cbn [c_set_in c_set_buf c_in c_buf].
      + apply is_prefix_ztake.
      + rewrite zdrop_zlen_ztake, zdrop_app.
        destruct (k - zlen (c_in (wc w cid)) >? 0) eqn:Em; [reflexivity|].
        rewrite (zdrop_neg _ (k - _)) by lia. reflexivity. }
  chain_next.
  { destruct args as [|[n|?|?] [|]]; try dsync.
    destruct (n >? _) eqn:Egt.
    - apply U_hr_peek; [apply is_prefix_nil|exact HI].
    - apply U_hr_peek; [apply is_prefix_ztake|exact HI]. }
  chain_next.
  { destruct args as [|[n|?|?] [|]]; try dsync.
    pose proof (zlen_nonneg _ (c_in (wc w cid))) as P1. pose proof (zlen_nonneg _ (c_buf (wc w cid))) as P2.
    destruct (_ || _) eqn:Eall.
    - apply U_hr_discard; auto; cbn [c_set_in c_set_buf c_in c_buf app].
      + rewrite zlen_app. lia.
      + rewrite zdrop_all; [reflexivity|]. rewrite zlen_app. lia.
    - destruct (c_in (wc w cid)) as [|a0 l0] eqn:Ein.
      + apply U_hr_discard; auto; cbn [c_set_in c_set_buf c_in c_buf]; rewrite ?Ein; cbn [app].
        * change (zlen (@nil Z)) with 0 in Eall. lia.
        * reflexivity.
      + rewrite <- Ein in *. destruct (n <? zlen (c_in (wc w cid))) eqn:Elt.
        * apply U_hr_discard; auto; cbn [c_set_in c_set_buf c_in c_buf app].
          { rewrite zlen_app. lia. }
          { rewrite zdrop_app. rewrite (zdrop_neg _ (n - _)) by lia. reflexivity. }
        * apply U_hr_discard; auto; cbn [c_set_in c_set_buf c_in c_buf app].
          { rewrite zlen_app. lia. }
          { rewrite zdrop_app. rewrite (zdrop_all _ n (c_in _)) by lia. reflexivity. } }
  chain_next.
  { (* writeto: everything / part of the ring / the ring and part of the read buffer *)
    set (lim := match args with AInt n :: _ => n | _ => -1 end).
    pose proof (zlen_nonneg _ (c_in (wc w cid))) as P1. pose proof (zlen_nonneg _ (c_buf (wc w cid))) as P2.
    destruct (_ || _) eqn:Eall.
    - apply U_hr_consume; auto; cbn [c_set_in c_set_buf c_in c_buf app].
      + apply is_prefix_refl.
      + rewrite zdrop_all by lia. reflexivity.
    - destruct (lim <? zlen (c_in (wc w cid))) eqn:Elt.
      + assert (El : zlen (ztake lim (c_in (wc w cid))) = lim) by (rewrite zlen_ztake; lia).
        apply U_hr_consume; auto; cbn [c_set_in c_set_buf c_in c_buf app].
        * rewrite (read_take_in lim _ (c_buf (wc w cid)) El). apply is_prefix_ztake.
        * rewrite El. apply read_drop_in. exact El.
      + assert (Et : c_in (wc w cid) ++ ztake (lim - zlen (c_in (wc w cid))) (c_buf (wc w cid)) =
                     ztake lim (c_in (wc w cid) ++ c_buf (wc w cid))).
        { rewrite ztake_app, (ztake_all _ lim (c_in _)) by lia. reflexivity. }
        apply U_hr_consume; auto; cbn [c_set_in c_set_buf c_in c_buf app].
        * rewrite Et. apply is_prefix_ztake.
        * rewrite Et, zdrop_zlen_ztake, zdrop_app, (zdrop_all _ lim (c_in _)) by lia. reflexivity. }
  chain_next.
  { apply U_hr_inbuf. exact HI. }
  chain_next.
  { hrs. exact HI. }
  chain_next.
  { (* write *)
    destruct args as [|[?|d|?] [|]]; try dsync.
    destruct (c_udp (wc w cid)).
    - destruct (_ && _); [hrs; exact HI|].
      destruct (sys "sendto" _ w) as [k w1] eqn:Es.
      pose proof (U_sendto_none _ _ _ _ _ HI Es) as H1.
      destruct k; hrs; exact H1.
    - destruct (conn_write f cid d w) as [[n ok] w1] eqn:Ew.
      hrs. eapply (mu_write _ M); eauto. }
  chain_next.
  { destruct (c_udp (wc w cid)); [hrs; exact HI|].
    destruct (conn_writev f cid (segs_of args) w) as [[n ok] w1] eqn:Ew.
    hrs. eapply (mu_writev _ M); eauto. }
  chain_next.
  { (* flush *)
    destruct (c_udp (wc w cid)); [hrs; exact HI|].
    destruct (negb _); [hrs; exact HI|].
    destruct (el_write f cid 0 w) as [r w1] eqn:Ew.
    pose proof (mu_elwrite _ M _ _ _ _ _ _ HI Ew) as H1.
    destruct r; try (hrs; exact H1).
    destruct (_ && _); [|hrs; exact H1].
    destruct (epctl "mod" _ true false w1) as [r2 w2] eqn:Ee.
    hrs. eapply U_epctl; eauto. }
  chain_next.
  { destruct args as [|[?|d|?] [|]]; try dsync.
    hrs. apply U_wsetc_same; rewrite ?wc_ghost; auto. apply U_emit; [uoign|exact HI]. }
  chain_next.
  { (* asyncwrite *)
    destruct args as [|[?|d|?] [|cb [|]]]; try dsync.
    destruct (c_udp (wc w cid)).
    - set (w0 := if negb (c_remote (wc w cid)) && negb (c_opened (wc w cid)) then _ else w).
      assert (H0 : UINV (RU m None) w0).
      { subst w0. destruct (_ && _); [apply U_emit; [uoign|exact HI]|exact HI]. }
      destruct (sys "sendto" _ w0) as [k w1] eqn:Es.
      pose proof (U_sendto_none _ _ _ _ _ H0 Es) as H1.
      hrs. destruct (flag_of cb); [apply U_emit; [uoign|exact H1]|exact H1].
    - destruct (trigger false _ w) as [r w1] eqn:Et.
      hrs. eapply U_trigger; [|exact HI|exact Et]; reflexivity. }
  chain_next.
  { destruct args as [|cb segs]; try dsync.
    destruct (c_udp (wc w cid)); [hrs; exact HI|].
    destruct (trigger false _ w) as [r w1] eqn:Et.
    hrs. eapply U_trigger; [|exact HI|exact Et]; reflexivity. }
  chain_next.
  { destruct args as [|cb [|]]; try dsync.
    destruct (trigger true _ w) as [r w1] eqn:Et.
    hrs. eapply U_trigger; [|exact HI|exact Et]; reflexivity. }
  chain_next.
  { destruct args as [|cb [|]]; try dsync.
    destruct (trigger true _ w) as [r w1] eqn:Et.
    hrs. eapply U_trigger; [|exact HI|exact Et]; reflexivity. }
  chain_next.
  { destruct (el_close f _ true w) as [r w1] eqn:Ecl.
    hrs. eapply (mu_close _ M); eauto. }
  chain_next.
  { destruct args as [|[t|?|?] [|[?|?|call'] args']]; try dsync.
    destruct (c_opened (wc w t)) eqn:Eo; [|dsync].
    destruct (U_split_target _ _ _ Eo HI) as (m' & HI' & Hne & Hback & _). apply Hback.
    eapply (mu_hcall _ M); [| |exact HI'].
    - destruct m' as [|c [|dd]|]; cbn; auto. eapply Hne; eauto.
    - left. reflexivity. }
  dsync.
Qed.

Lemma MBU_all : forall f, MBU f.
Proof.
  induction f as [|f IH].
  - constructor; intros; cbn in *;
      try match goal with E : (_, _) = (_, _) |- _ => inversion E; subst end; dsync.
  - constructor.
    + apply el_close_S; exact IH.
    + apply close_drain_S; exact IH.
    + apply conn_write_S; exact IH.
    + apply conn_write_loop_S; exact IH.
    + apply conn_writev_loop_S; exact IH.
    + apply conn_writev_S; exact IH.
    + apply el_write_S; exact IH.
    + apply handler_S; exact IH.
    + apply hcall_S; exact IH.
Qed.

End WithListeners.
