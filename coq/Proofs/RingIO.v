(* C09 proofs, part 3: WriteTo (scripted writer) and ReadFrom (scripted reader). *)
From Coq Require Import Lia ZArith ZifyBool List Bool.
From GV Require Import Lib.Trace Model.Arith Model.Ring Spec.Fifo Spec.RingSpec Proofs.FifoLemmas Proofs.ArithProofs
  Proofs.RingBase Proofs.RingOps.
Import ListNotations.
Open Scope Z_scope.

(* ---- the scripted writer respects io.Writer: it accepts a prefix ---- *)
Lemma writer_write_spec sc p acc e rest : writer_write sc p = (acc, e, rest) ->
  exists m, 0 <= m <= zlen p /\ acc = ztake m p /\ zlen acc = m.
Proof.
  unfold writer_write. destruct sc as [|[k e'] sc'].
  - intros H. injection H as <- <- <-. exists (zlen p). pose proof (zlen_nonneg p).
    splits; try lia. symmetry. apply ztake_all. lia.
  - intros H. injection H as <- <- <-. pose proof (zlen_nonneg p).
    exists (Z.min (zlen p) (Z.max 0 k)). splits; try lia; try reflexivity. zl.
Qed.

Definition wt_post (rb rb' : ring) (o : wt_out) : Prop :=
  ring_inv rb' /\
  0 <= wt_n o <= zlen (content rb) /\
  wt_recv o = ztake (wt_n o) (content rb) /\
  content rb' = zdrop (wt_n o) (content rb) /\
  (wt_err o = ENil -> content rb' = []).

(* the common tail of every WriteTo shape: err / short / nil *)
Lemma wt_tail rb rb' e m acc :
  ring_inv rb' -> 0 <= m <= zlen (content rb) -> acc = ztake m (content rb) ->
  content rb' = zdrop m (content rb) ->
  exists o,
    (if negb (is_nil e) then Ret (rb', mkWtOut m e acc) else
     if negb (is_empty rb') then Ret (rb', mkWtOut m EShort acc) else
     Ret (rb', mkWtOut m ENil acc)) = Ret (rb', o) /\ wt_post rb rb' o.
Proof.
  intros Hi Hm Hacc Hc.
  destruct e; cbn [is_nil negb].
  2-5: eexists; split; [reflexivity|]; unfold wt_post; cbn [wt_n wt_err wt_recv]; splits; trivial; try lia; discriminate.
  destruct (is_empty rb') eqn:E; cbn [negb].
  - eexists; split; [reflexivity|]. unfold wt_post; cbn [wt_n wt_err wt_recv]. splits; trivial; try lia.
    intros _. apply content_nil_iff; assumption.
  - eexists; split; [reflexivity|]. unfold wt_post; cbn [wt_n wt_err wt_recv]. splits; trivial; try lia. discriminate.
Qed.

Lemma WriteTo_spec rb sc : ring_inv rb ->
  exists rb' o, WriteTo rb sc = Ret (rb', o) /\ wt_post rb rb' o /\
    (content rb = [] -> wt_err o = EEmpty /\ wt_n o = 0).
Proof.
  intros Hi. unfold WriteTo. destruct (is_empty rb) eqn:E.
  - assert (Hc : content rb = []) by (unfold content; rewrite E; reflexivity).
    eexists _, _. split; [reflexivity|]. unfold wt_post; cbn [wt_n wt_err wt_recv]. rewrite Hc.
    splits; trivial; try (cbn; lia); try discriminate; auto.
  - destruct (nonempty_bounds rb Hi E) as (Hr & Hw & Hl).
    destruct (buffered_nonempty rb Hi E) as (Hb & Hbpos).
    pose proof (buffered_content rb Hi) as Hbc.
    assert (Hne : content rb = [] -> False).
    { intros Hc. rewrite Hc in Hbc. cbn in Hbc. lia. }
    assert (Hall : ztake (Buffered rb) (content rb) = content rb) by (apply ztake_all; lia).
    destruct (front_slices rb (Buffered rb) Hi E ltac:(lia)) as (F1 & F2 & F3).
    rewrite Hall in F1, F2, F3.
    rewrite Z.gtb_ltb. destruct (Z.ltb_spec (r rb) (w rb)) as [Hlt|Hge].
    + (* contiguous *)
      rewrite Hb in F1. replace (r rb + (w rb - r rb)) with (r rb + (w rb - r rb)) in F1 by lia.
      rewrite F1 by lia. cbn [obind].
      destruct (writer_write sc (content rb)) as [[acc e] rest] eqn:W.
      destruct (writer_write_spec _ _ _ _ _ W) as (m & Hm & Hacc & Hzl). rewrite Hzl.
      rewrite (adv_alt rb m (r rb + m) Hi E) by (try lia; rewrite Z.mod_small; lia).
      destruct (adv_spec rb m Hi E ltac:(lia)) as (Ai & Ac & _).
      destruct (wt_tail rb (adv rb m) e m acc Ai ltac:(lia) Hacc Ac) as (o & Ho & Hpost).
      exists (adv rb m), o. splits; trivial. intros Hc. destruct (Hne Hc).
    + rewrite Hb in F2, F3.
      destruct (Z.leb_spec (r rb + (size rb - r rb + w rb)) (size rb)) as [Hfit|Hout].
      * (* w = 0: one segment up to the end *)
        rewrite F2 by lia. cbn [obind].
        destruct (writer_write sc (content rb)) as [[acc e] rest] eqn:W.
        destruct (writer_write_spec _ _ _ _ _ W) as (m & Hm & Hacc & Hzl). rewrite Hzl.
        rewrite gorem_ok by lia. cbn [obind].
        assert (Hadv : (if m =? size rb - r rb + w rb
                        then Reset (set_r rb ((r rb + m) mod size rb)) else set_r rb ((r rb + m) mod size rb)) = adv rb m).
        { unfold adv. rewrite Hb. destruct (m =? size rb - r rb + w rb); reflexivity. }
        rewrite Hadv.
        destruct (adv_spec rb m Hi E ltac:(lia)) as (Ai & Ac & _).
        destruct (wt_tail rb (adv rb m) e m acc Ai ltac:(lia) Hacc Ac) as (o & Ho & Hpost).
        exists (adv rb m), o. splits; trivial. intros Hc. destruct (Hne Hc).
      * (* two segments *)
        destruct (F3 ltac:(lia) ltac:(lia)) as (S1 & S2 & S3).
        rewrite S1. cbn [obind].
        destruct (writer_write sc (zdrop (r rb) (buf rb))) as [[acc1 e1] rest1] eqn:W1.
        destruct (writer_write_spec _ _ _ _ _ W1) as (m1 & Hm1 & Hacc1 & Hzl1). rewrite Hzl1.
        assert (Hp1l : zlen (zdrop (r rb) (buf rb)) = size rb - r rb) by zl.
        rewrite gorem_ok by lia. cbn [obind].
        destruct (adv_spec rb m1 Hi E ltac:(lia)) as (Ai & Ac & Ab & As).
        assert (Hadv : set_r rb ((r rb + m1) mod size rb) = adv rb m1).
        { unfold adv. destruct (Z.eqb_spec m1 (Buffered rb)); [lia|reflexivity]. }
        rewrite Hadv.
        assert (Hacc1' : acc1 = ztake m1 (content rb)).
        { rewrite Hacc1. apply front_wrap1; trivial; lia. }
        destruct e1; cbn [is_nil negb].
        2-5: eexists _, _; split; [reflexivity|]; unfold wt_post; cbn [wt_n wt_err wt_recv];
             splits; trivial; try lia; try discriminate; intros Hc; destruct (Hne Hc).
        destruct (Z.ltb_spec m1 (size rb - r rb)) as [Hshort|Hfull1].
        -- eexists _, _; split; [reflexivity|]; unfold wt_post; cbn [wt_n wt_err wt_recv];
             splits; trivial; try lia; try discriminate; intros Hc; destruct (Hne Hc).
        -- assert (Hm1eq : m1 = size rb - r rb) by lia.
           (* the buffer after the first segment: r = 0, contiguous up to w *)
           set (rb1 := adv rb m1) in *.
           assert (Hrb1 : rb1 = set_r rb 0).
           { subst rb1. rewrite <- Hadv. rewrite Hm1eq. replace (r rb + (size rb - r rb)) with (size rb) by lia.
             rewrite Z.mod_same by lia. reflexivity. }
           assert (E1 : is_empty rb1 = false) by (rewrite Hrb1; exact E).
           assert (Hr1 : r rb1 = 0) by (rewrite Hrb1; reflexivity).
           assert (Hw1 : w rb1 = w rb) by (rewrite Hrb1; reflexivity).
           destruct (buffered_nonempty rb1 Ai E1) as (Hb1 & _).
           rewrite Hr1, Hw1 in Hb1. destruct (Z.ltb_spec 0 (w rb)) as [Hwpos|]; [|lia].
           rewrite Z.sub_0_r in Hb1.
           destruct (front_slices rb1 (Buffered rb1) Ai E1 ltac:(lia)) as (G1 & _ & _).
           rewrite Hr1, Hw1, Hb1, Ab in G1. specialize (G1 Hwpos).
           pose proof (buffered_content rb1 Ai) as Hbc1.
           rewrite (ztake_all (w rb) (content rb1)) in G1 by lia.
           replace (size rb - r rb + w rb - (size rb - r rb)) with (0 + w rb) by lia.
           rewrite Ab. rewrite G1. cbn [obind].
           destruct (writer_write rest1 (content rb1)) as [[acc2 e2] rest2] eqn:W2.
           destruct (writer_write_spec _ _ _ _ _ W2) as (m2 & Hm2 & Hacc2 & Hzl2). rewrite Hzl2.
           rewrite (adv_alt rb1 m2 m2 Ai E1) by (try lia; rewrite Hr1, As, Z.add_0_l, Z.mod_small; lia).
           destruct (adv_spec rb1 m2 Ai E1 ltac:(lia)) as (Ai2 & Ac2 & _).
           assert (Hacc : acc1 ++ acc2 = ztake (m1 + m2) (content rb)).
           { rewrite Hacc1', Hacc2, Ac. apply ztake_add; lia. }
           assert (Hcc : content (adv rb1 m2) = zdrop (m1 + m2) (content rb)).
           { rewrite Ac2, Ac. apply zdrop_add; lia. }
           assert (Hrange : 0 <= m1 + m2 <= zlen (content rb)).
           { rewrite Ac in Hm2. zlen_norm_in Hm2. lia. }
           destruct (wt_tail rb (adv rb1 m2) e2 (m1 + m2) (acc1 ++ acc2) Ai2 Hrange Hacc Hcc) as (o & Ho & Hpost).
           exists (adv rb1 m2), o. splits; trivial. intros Hc. destruct (Hne Hc).
Qed.

(* ---- ReadFrom ---- *)
(* the scripted reader respects io.Reader: it delivers a prefix of its source, at most len(p) bytes *)
Lemma reader_read_spec src resp plen d src' e : reader_read src resp plen = (d, src', e) -> 0 <= plen ->
  exists k, 0 <= k <= zlen src /\ k <= plen /\ d = ztake k src /\ src' = zdrop k src /\ zlen d = k.
Proof.
  unfold reader_read. intros H Hp. injection H as <- <- <-.
  set (k0 := Z.min plen (Z.max 0 (fst resp))). pose proof (zlen_nonneg src).
  exists (Z.min k0 (zlen src)). assert (0 <= k0) by (subst k0; lia). splits; try lia.
  - destruct (Z_le_gt_dec k0 (zlen src)).
    + rewrite Z.min_l by lia. reflexivity.
    + rewrite Z.min_r by lia. rewrite !ztake_all; trivial; lia.
  - destruct (Z_le_gt_dec k0 (zlen src)).
    + rewrite Z.min_l by lia. reflexivity.
    + rewrite Z.min_r by lia. rewrite !zdrop_all; trivial; lia.
  - zl.
Qed.

Lemma put_any rb d : ring_inv rb -> 0 < size rb -> (0 < zlen d -> fits rb (zlen d)) ->
  ring_inv (put1 rb d) /\ content (put1 rb d) = content rb ++ d.
Proof.
  intros Hi Hs Hf. pose proof (zlen_nonneg d).
  destruct (Z.eq_dec (zlen d) 0) as [H0|H0].
  - rewrite (zlen_zero_nil d H0). rewrite put1_nil by assumption. rewrite app_nil_r. split; trivial.
  - apply put1_spec; trivial; try lia. apply Hf. lia.
Qed.

Definition rf_pre (second : bool) (rb : ring) : Prop :=
  ring_inv rb /\ (second = true -> w rb = 0 /\ 0 < size rb).

Definition rf_post (src : list Z) (rb : ring) (n : Z) (rb' : ring) (src' : list Z) (n' : Z) : Prop :=
  ring_inv rb' /\ exists k, 0 <= k <= zlen src /\ n' = n + k /\ src' = zdrop k src /\
                            content rb' = content rb ++ ztake k src.

Definition rf_res_ok (src : list Z) (rb : ring) (n : Z) (res : rf_res) : Prop :=
  match res with
  | RFDone rb' src' n' _ _ => rf_post src rb n rb' src' n'
  | RFCont rb' src' n' sec _ => rf_post src rb n rb' src' n' /\ rf_pre sec rb'
  end.

Lemma rf_once_spec second resp src rb n off : rf_pre second rb ->
  exists res, rf_once second resp src rb n off = Ret res /\ rf_res_ok src rb n res.
Proof.
  intros (Hi & Hsec). unfold rf_once. destruct second.
  - (* second Read of the iteration: into buf[:r], w = 0 *)
    destruct (Hsec eq_refl) as (Hw0 & Hsz).
    assert (Hbounds : 0 <= r rb < size rb /\ zlen (buf rb) = size rb).
    { destruct (is_empty rb) eqn:E; [|destruct (nonempty_bounds rb Hi E); lia].
      inv_destr Hi. destruct (Hemp E) as [-> _]. lia. }
    destruct Hbounds as (Hr & Hl).
    destruct (reader_read src resp (r rb)) as [[d src'] e] eqn:R.
    destruct (reader_read_spec _ _ _ _ _ _ R ltac:(lia)) as (k & Hk & Hkp & Hd & Hsrc & Hzl).
    rewrite copy_at_ok by lia. cbn [obind]. rewrite Hzl. rewrite gorem_ok by lia. cbn [obind].
    assert (Hst : set_w (set_buf rb (ztake 0 (buf rb) ++ d ++ zdrop (0 + k) (buf rb))) ((w rb + k) mod size rb) = put1 rb d).
    { unfold put1, set_w, set_buf; cbn [buf size r w is_empty]. rewrite Hw0, Hzl.
      destruct (Z.ltb_spec 0 k); [|reflexivity].
      destruct (is_empty rb) eqn:E; [|reflexivity]. inv_destr Hi. destruct (Hemp E). lia. }
    rewrite Hst.
    destruct (put_any rb d Hi Hsz) as (Pi & Pc).
    { intros Hpos. right. lia. }
    assert (Hpost : rf_post src rb n (put1 rb d) src' (n + k)).
    { split; [exact Pi|]. exists k. splits; trivial; try lia. rewrite Pc, Hd. reflexivity. }
    assert (Hpre : rf_pre false (put1 rb d)) by (split; [exact Pi|discriminate]).
    destruct e; eexists; (split; [reflexivity|]); cbn [rf_res_ok]; auto.
  - (* first Read of the iteration *)
    pose proof (available_eq rb Hi) as Hav. pose proof (accounting rb Hi) as (_ & Hb0 & Ha0 & _).
    assert (Hg : exists rb1, (if Available rb <? MinRead then grow rb (Buffered rb + MinRead) else Ret rb) = Ret rb1 /\
                   ring_inv rb1 /\ content rb1 = content rb /\ MinRead <= Available rb1).
    { unfold MinRead. destruct (Z.ltb_spec (Available rb) 512) as [Hlt|Hge].
      - destruct (grow_spec rb (Buffered rb + 512) Hi ltac:(lia) ltac:(lia)) as (rb1 & G & I1 & C1 & S1 & S2).
        exists rb1. splits; trivial.
        rewrite (available_eq rb1 I1), (buffered_content rb1 I1), C1, <- (buffered_content rb Hi). lia.
      - exists rb. splits; trivial. }
    destruct Hg as (rb1 & G & I1 & C1 & Hroom). rewrite G. cbn [obind].
    unfold rf_res_ok, rf_post. rewrite <- C1.
    clear G Hav Hb0 Ha0 C1 Hi Hsec rb. rename rb1 into rb, I1 into Hi. unfold MinRead in Hroom.
    pose proof (size_nonneg rb Hi) as Hs.
    pose proof (available_eq rb Hi) as Hav. pose proof (accounting rb Hi) as (_ & Hb0 & Ha0 & _).
    assert (Hsz : 0 < size rb) by lia.
    assert (Hbounds : 0 <= r rb < size rb /\ 0 <= w rb < size rb /\ zlen (buf rb) = size rb).
    { destruct (is_empty rb) eqn:E; [|apply nonempty_bounds; assumption].
      inv_destr Hi. destruct (Hemp E) as [-> ->]. lia. }
    destruct Hbounds as (Hr & Hw & Hl).
    assert (Hfull : r rb = w rb -> is_empty rb = true).
    { intros Hrw. destruct (is_empty rb) eqn:E; [reflexivity|].
      unfold Available in Hroom. rewrite E in Hroom. destruct (Z.eqb_spec (r rb) (w rb)); lia. }
    rewrite Z.geb_leb. destruct (Z.leb_spec (r rb) (w rb)) as [Hrw|Hwr].
    + (* into buf[w:] *)
      destruct (reader_read src resp (zlen (buf rb) - w rb)) as [[d src'] e] eqn:R.
      destruct (reader_read_spec _ _ _ _ _ _ R ltac:(lia)) as (k & Hk & Hkp & Hd & Hsrc & Hzl).
      rewrite copy_at_ok by lia. cbn [obind]. rewrite Hzl. rewrite gorem_ok by lia. cbn [obind].
      assert (Hst : set_w (if k >? 0 then set_nonempty (set_buf rb (ztake (w rb) (buf rb) ++ d ++ zdrop (w rb + k) (buf rb)))
                           else set_buf rb (ztake (w rb) (buf rb) ++ d ++ zdrop (w rb + k) (buf rb)))
                          ((w rb + k) mod size rb) = put1 rb d).
      { unfold put1, set_w, set_nonempty, set_buf. rewrite Hzl, Z.gtb_ltb.
        destruct (Z.ltb_spec 0 k); reflexivity. }
      rewrite Hst.
      destruct (put_any rb d Hi Hsz) as (Pi & Pc).
      { intros Hpos. left. splits; trivial; lia. }
      assert (Hpost : ring_inv (put1 rb d) /\
                      exists k0, 0 <= k0 <= zlen src /\ n + k = n + k0 /\ src' = zdrop k0 src /\
                                 content (put1 rb d) = content rb ++ ztake k0 src).
      { split; [exact Pi|]. exists k. splits; trivial; try lia. rewrite Pc, Hd. reflexivity. }
      assert (Hpre : rf_pre (w (put1 rb d) =? 0) (put1 rb d)).
      { split; [exact Pi|]. intros Hw0. apply Z.eqb_eq in Hw0. split; [exact Hw0|]. exact Hsz. }
      destruct e; eexists; (split; [reflexivity|]); cbn beta iota; first [exact Hpost | exact (conj Hpost Hpre)].
    + (* into buf[w:r] *)
      destruct (reader_read src resp (r rb - w rb)) as [[d src'] e] eqn:R.
      destruct (reader_read_spec _ _ _ _ _ _ R ltac:(lia)) as (k & Hk & Hkp & Hd & Hsrc & Hzl).
      rewrite copy_at_ok by lia. cbn [obind]. rewrite Hzl. rewrite gorem_ok by lia. cbn [obind].
      assert (Hst : set_w (if k >? 0 then set_nonempty (set_buf rb (ztake (w rb) (buf rb) ++ d ++ zdrop (w rb + k) (buf rb)))
                           else set_buf rb (ztake (w rb) (buf rb) ++ d ++ zdrop (w rb + k) (buf rb)))
                          ((w rb + k) mod size rb) = put1 rb d).
      { unfold put1, set_w, set_nonempty, set_buf. rewrite Hzl, Z.gtb_ltb.
        destruct (Z.ltb_spec 0 k); reflexivity. }
      rewrite Hst.
      destruct (put_any rb d Hi Hsz) as (Pi & Pc).
      { intros Hpos. right. lia. }
      assert (Hpost : ring_inv (put1 rb d) /\
                      exists k0, 0 <= k0 <= zlen src /\ n + k = n + k0 /\ src' = zdrop k0 src /\
                                 content (put1 rb d) = content rb ++ ztake k0 src).
      { split; [exact Pi|]. exists k. splits; trivial; try lia. rewrite Pc, Hd. reflexivity. }
      assert (Hpre : rf_pre false (put1 rb d)) by (split; [exact Pi|discriminate]).
      destruct e; eexists; (split; [reflexivity|]); cbn beta iota; first [exact Hpost | exact (conj Hpost Hpre)].
Qed.

Lemma rf_post_trans src rb n rb1 src1 n1 rb2 src2 n2 :
  rf_post src rb n rb1 src1 n1 -> rf_post src1 rb1 n1 rb2 src2 n2 -> rf_post src rb n rb2 src2 n2.
Proof.
  intros (I1 & k1 & Hk1 & Hn1 & Hs1 & Hc1) (I2 & k2 & Hk2 & Hn2 & Hs2 & Hc2).
  split; [exact I2|]. exists (k1 + k2). subst src1.
  assert (zlen (zdrop k1 src) = zlen src - k1) by zl.
  splits; try lia.
  - rewrite Hs2. apply zdrop_add; lia.
  - rewrite Hc2, Hc1, <- app_assoc. f_equal. apply ztake_add; lia.
Qed.

Lemma rf_loop_spec script : forall second src rb n off, rf_pre second rb ->
  exists rb' o, rf_loop script second src rb n off = Ret (rb', o) /\
    rf_post src rb n rb' (rf_src o) (rf_n o).
Proof.
  induction script as [|resp rest IH]; intros second src rb n off Hpre; cbn [rf_loop].
  - destruct (rf_once_spec second (0, EEof) src rb n off Hpre) as (res & Ho & Hok).
    rewrite Ho. destruct res; cbn [rf_res_ok] in Hok.
    + eexists _, _. split; [reflexivity|]. exact Hok.
    + eexists _, _. split; [reflexivity|]. apply Hok.
  - destruct (rf_once_spec second resp src rb n off Hpre) as (res & Ho & Hok).
    rewrite Ho. destruct res; cbn [rf_res_ok] in Hok.
    + eexists _, _. split; [reflexivity|]. exact Hok.
    + destruct Hok as (Hpost & Hpre').
      destruct (IH second0 src0 rb0 n0 offered Hpre') as (rb' & o & Hl & Hp).
      exists rb', o. split; [exact Hl|]. eapply rf_post_trans; eassumption.
Qed.

Lemma ReadFrom_spec rb src script : ring_inv rb ->
  exists rb' o, ReadFrom rb src script = Ret (rb', o) /\ ring_inv rb' /\
    exists k, 0 <= k <= zlen src /\ rf_n o = k /\ rf_src o = zdrop k src /\
              content rb' = content rb ++ ztake k src.
Proof.
  intros Hi. unfold ReadFrom.
  destruct (rf_loop_spec script false src rb 0 [] ltac:(split; [exact Hi|discriminate])) as (rb' & o & Hl & Hinv & k & Hk & Hn & Hs & Hc).
  exists rb', o. splits; trivial. exists k. splits; trivial; lia.
Qed.
