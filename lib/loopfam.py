"""Shared description of the event-loop model family (C01, C02, C04, C07, C08, C18)."""

LOOP_SWAP = ["eventloop_unix.go", "connection_unix.go", "connection_linux.go", "acceptor_unix.go",
             "listener_unix.go", "client_unix.go", "pkg/netpoll/poller_epoll_default.go", "pkg/io/io_linux.go",
             "pkg/socket/sock_cloexec.go", "pkg/socket/fd_unix.go"]


LOOP_SWAP_OPT = [f if f != "pkg/netpoll/poller_epoll_default.go" else "pkg/netpoll/poller_epoll_ultimate.go" for f in LOOP_SWAP]


def drv(focus, n=None, tags="verif"):
    """one drv-loop run: focus = stream | fault | udp | client | stale; tags may add gc_opt (matrix registry)"""
    args = ["-focus", focus]
    if n:
        args += ["-n", str(n)]
    variant = focus + ("-gcopt" if "gc_opt" in tags else "") + ("-pollopt" if "poll_opt" in tags else "")
    return dict(cmd="drv-loop", family="loop", variant=variant,
                unix_swap=(LOOP_SWAP_OPT if "poll_opt" in tags else LOOP_SWAP), shrink=False,
                args=args, tags=tags, netns=True, confirm=True, timeout=dict(quick=600, thorough=3000))


# translator run on every check: processIO as a program of Model/LoopPio.v (obligation: = Model.process_io),
# Polling's sentinel errors, accept errno classes, errno sites, iovMax and the poller constants
GENS = [dict(tool="genloop", out="GenLoop.v", args=["{repo}"])]


def startfault(n=60, tags="verif"):
    """engine / client starts in which one descriptor-creating or registering system call fails; whatever the
    framework created must be closed again when Run / Start returns.  Server starts are also replayed by the model of
    the start sequence (Model/Start.v, family loopstart: outcome, descriptors created per kind, closes, leftovers,
    stray closes; `run` for servers, `run_client` for clients); the stop-race cases are judged by the direct oracles only"""
    return dict(cmd="drv-loop", variant="startfault" + ("-pollopt" if "poll_opt" in tags else ""), family="loopstart",
                unix_swap=(LOOP_SWAP_OPT if "poll_opt" in tags else LOOP_SWAP), shrink=False, netns=True, confirm=True,
                args=["-focus", "startfault", "-n", str(n)], tags=tags, sites=["^fd-leak$", "^fd-not-owned$", "^engine-start$", "^hang$"],
                timeout=dict(quick=600, thorough=3000))


RULE = ("each case starts the real engine (1 loop -- or 2-4 loops in the `multi` runs, where loop 0 is modelled and the others are judged by the direct oracles only --; server, or gnet.Client dialling the harness in the `client` runs; LT / ET / ET+chunk; tcp or unix; reactor or reuse-port; "
        "read-buffer 1-64 KiB; optional 4 KiB SO_SNDBUF) from the current tree with x/sys/unix swapped for the "
        "vunix shim, runs 4-30 seeded steps (peer connect / send of sizes around the read-buffer size / receive / "
        "half-close / close / reset, AsyncWrite(v) / Wake / Close / CloseWithCallback from another goroutine, "
        "CountConnections) with a scripted handler doing 0-4 random API calls per callback, stops the engine, and "
        "logs every loop-thread system call with its result, every callback and every value the handler saw; the "
        "extracted model replays the inputs and must predict all outputs and accept the history with every checker. "
        "A case is non-trivial when it reached back-pressure (EAGAIN on read/write), an asynchronous callback, a datagram callback, an injected fault or is a named scenario; distinct by hash of its input lines.")

TRUSTED = ["translator harness/cmd/genloop (go/ast subset of conn.processIO -> Model/LoopPio.v statement language; syntactic tables for Polling sentinels, accept errno classes, errno sites; constants evaluated by linking the current pkg/netpoll)",
           "harness/shim/vunix + lib/vcheck.unix_swap (import swap of golang.org/x/sys/unix in the listed files) and genvunix",
           "Model/Loop.v is hand-written from connection_unix.go, connection_linux.go, eventloop_unix.go, acceptor_unix.go, "
           "poller_epoll_default.go (Trigger/Polling task part); inbound/outbound buffers as FIFO lists (C09-C11), registry as a map (C14), "
           "task queues as sequential lists (C13; C03 for the wake-up protocol)",
           "ghost markers (g sub/hand/del/fail/eagain/rearm-read/rearm-write/pending/count/udpconn/staleudp/regcb) are emitted by the model itself; their meaning is part of the specification"]

ASSUME = ["kernel: read/write/writev/accept/epoll/eventfd results are inputs of the model (any result sequence); the monitors in the model "
          "(desync kernel-contract-*) state the only constraints: read returns <= buffer size bytes, write accepts <= what was offered, "
          "a new descriptor is not one still registered",
          "the peer byte stream equals the concatenation of read(2) results (TCP/Unix stream semantics)",
          "one event loop is modelled; loops share nothing but the engine (C05), so multi-loop runs are independent copies",
          "the poll_opt build is covered by the dispatch variant of the model (attachment dispatch) and its own driver runs; gc_opt changes only the registry (C14) and is run against the same model; kqueue and Windows are not modelled; poll_opt stores raw attachment pointers in the kernel (memory safety of that is outside any model)"]
