(* C02 -- outbound stream integrity and ordering.  Statements only; proofs in Proofs/LoopData.v and Proofs/LoopProgress.v. *)
From GV Require Import Lib.Trace Model.Loop Spec.LoopSpec Proofs.LoopData Proofs.LoopProgress.
From GV Require Import Model.Elastic Spec.ElasticSpec Proofs.LoopBufferLink.
From GV Require Model.Ring Model.LList.
Open Scope Z_scope.

(* For every input stream: the bytes the kernel accepts from a connection are always the
   front of the bytes submitted by its write operations (OnOpen reply, Write, Writev,
   ReadFrom, asynchronous writes when they are carried out) and not handed over yet --
   in submission order, nothing lost, duplicated or interleaved, however short the kernel's
   writes are and whenever it says EAGAIN; OutboundBuffered is the length of that rest. *)
Theorem C02_outbound_integrity : forall i t, run_history i = Some t -> outbound_ok t = true.
Proof. exact outbound_holds. Qed.
Print Assumptions C02_outbound_integrity.

(* Progress ("accepted output is eventually sent" as far as the loop is responsible for it): for
   every input stream, whenever the loop goes back to waiting, every registered stream connection
   that still has accepted bytes buffered has somebody who will send them: level-triggered, its
   current epoll registration asks for writability; edge-triggered, its last write attempt ended
   in EAGAIN (the kernel owes an edge) or a write task has been queued for it since.  Outside:
   ReadFrom not followed by Flush, and connections already doomed by a fatal result. *)
Theorem C02_outbound_progress : forall i t, run_history i = Some t -> out_progress_ok (is_et i) t = true.
Proof. exact out_progress_holds. Qed.
Print Assumptions C02_outbound_progress.

(* What licenses the FIFO list [c_out] of Model/Loop.v.  In gnet the outboundBuffer is an
   elastic.Buffer (ring + linked list); Model/Loop.v holds it as a plain byte list and works on
   it with ++, List.concat, zdrop, zlen, firstn iov_max and `match .. with [] => ..`.  For every
   method the Go code calls on it (Write, Writev in conn.write / writev / open; Peek(-1) /
   Peek(0) and Discard(n) in the flush loops of eventloop.write and eventloop.close;
   IsEmpty, Buffered; ReadFrom; Reset, Release), executed on the buffer model of C10
   (Model/Elastic.v over the models of C09 and C11): if the representation invariant holds and
   the abstract content (bcontent = ring part ++ list part) is the list L the loop model holds,
   then the method does not panic, returns what the loop model computes from L, keeps the
   invariant and leaves the content the loop model stores.  [b] ranges over ALL states
   satisfying the invariant (any split between ring and list), [c] is the capacity the pool
   would hand back, the ReadFrom reader is any script with counts >= 0.  What Peek exposes --
   also after iov[:iovMax] -- is a prefix [ztake off L] of L, which is what sys_wr of the loop
   model offers to the kernel; it is all of L when len L <= MaxInt32.
   Each clause is an instance of a per-method theorem of Properties/C10.v (Proofs/LoopBufferLink.v). *)
Theorem C02_outbound_buffer_link :
  (forall b L c p, binv b -> bcontent b = L -> 0 <= c -> Loop.zlen p <= 2^62 ->
     exists b', BWrite b c p = Ret (b', (Loop.zlen p, XNil)) /\ binv b' /\ bcontent b' = (L ++ p)%list) /\
  (forall b L c bs, binv b -> bcontent b = L -> 0 <= c -> Forall (fun x => Loop.zlen x <= 2^62) bs ->
     exists b', BWritev b c bs = Ret (b', (Loop.zlen (List.concat bs), XNil)) /\ binv b' /\
       bcontent b' = (L ++ List.concat bs)%list) /\
  (forall b L n, binv b -> bcontent b = L ->
     exists e segs, BPeek b n = Ret (e, segs) /\
       (forall k : nat, exists off, 0 <= off <= Loop.zlen L /\ List.concat (firstn k segs) = Loop.ztake off L) /\
       (exists off, 0 <= off <= Loop.zlen L /\ List.concat segs = Loop.ztake off L) /\
       (n <= 0 -> e = XNil /\ List.concat segs = Loop.ztake LList.MaxInt32 L /\
                  (Loop.zlen L <= LList.MaxInt32 -> List.concat segs = L)) /\
       (0 < n <= Loop.zlen L -> n <> LList.MaxInt32 -> e = XNil /\ List.concat segs = Loop.ztake n L)) /\
  (forall b L n, binv b -> bcontent b = L ->
     exists b' e, BDiscard b n = Ret (b', (Z.max 0 (Z.min n (Loop.zlen L)), e)) /\ binv b' /\
       bcontent b' = Loop.zdrop n L /\
       (0 <= n <= Loop.zlen L -> Z.max 0 (Z.min n (Loop.zlen L)) = n) /\
       (0 < n -> e = XNil)) /\
  (forall b L pk n, binv b -> bcontent b = L -> pk <= 0 -> 0 <= n <= Loop.zlen L ->
     exists segs b' e, BPeek b pk = Ret (XNil, segs) /\
       (exists off, 0 <= off <= Loop.zlen L /\ List.concat (firstn Loop.iov_max segs) = Loop.ztake off L) /\
       (Loop.zlen L <= LList.MaxInt32 -> List.concat segs = L) /\
       (L <> [] -> segs <> []) /\
       BDiscard b n = Ret (b', (n, e)) /\ binv b' /\ bcontent b' = Loop.zdrop n L) /\
  (forall b L, binv b -> bcontent b = L ->
     BBuffered b = Loop.zlen L /\
     BIsEmpty b = match L with [] => true | _ :: _ => false end /\
     (BIsEmpty b = true <-> L = [])) /\
  (forall b L c src sc, binv b -> bcontent b = L -> 0 <= c -> script_ok sc ->
     exists b' k e, BReadFrom b c src sc = Ret (b', (k, e, Loop.zlen src - k)) /\ binv b' /\
       0 <= k <= Loop.zlen src /\ Loop.zlen (Loop.ztake k src) = k /\
       bcontent b' = (L ++ Loop.ztake k src)%list) /\
  (forall b m, binv b ->
     binv (BReset b m) /\ bcontent (BReset b m) = [] /\ binv (BRelease b) /\ bcontent (BRelease b) = []) /\
  (forall m, binv (mkB m None LList.empty_buffer) /\ bcontent (mkB m None LList.empty_buffer) = []).
Proof. exact outbound_buffer_link. Qed.
Print Assumptions C02_outbound_buffer_link.
