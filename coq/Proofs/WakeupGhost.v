(* Ghost bookkeeping of the wake-up model: which requests were begun, linked,
   taken and executed.  Two invariants over projections of the state:
     GT  (issue side)  ids are issue numbers, every begun request is linked or still
                       before its link in its producer's Trigger call, the urgent queue's
                       link order respects each producer's issue order, high priority
                       never goes to the low-priority queue;
     GQ  (queue side)  the FIFO master equation  linked = executed ++ held ++ queued  per
                       queue, nothing is executed twice, callbacks and OnTraffic follow
                       executions.
   One lemma per primitive operation; the step lemma is in WakeupOnce.v. *)
From GV Require Import Lib.Trace Lib.Interleave Model.Wakeup Proofs.WakeupBase.
From Coq Require Import Lia Arith Permutation.
Open Scope list_scope.

Definition qid_eqb (a b : qid) : bool := match a, b with QU, QU | QL, QL => true | _, _ => false end.

Definition execq (q : qid) (g : ghost) : list task :=
  map snd (filter (fun e => qid_eqb (fst e) q) (g_exec g)).

Definition heldl (q : qid) (s : wstate) : list task :=
  match c_pc (con s) with
  | CDec q' => if qid_eqb q q' then [c_held (con s)] else []
  | _ => []
  end.

Definition linked (g : ghost) : list task := g_linkU g ++ g_linkL g.
Definition ids (l : list task) : list nat := map tk_id l.
Definition in_pre (p : tpc) : bool := match p with TLen | TEnq _ => true | _ => false end.
Definition in_post (p : tpc) : bool := match p with TCnt _ | TCas | TWr | TRd => true | _ => false end.
Definition pc0 (sp : tspec) : tpc := if sp_high sp then TEnq QU else TLen.
Definition cbf (e : qid * task) : list nat := if sp_cb (tk_spec (snd e)) then [tk_id (snd e)] else [].
Definition eid (e : qid * task) : nat := tk_id (snd e).

(* ---- list helpers ---- *)
Lemma map_inj_in : forall (A B : Type) (f : A -> B) (l : list A) a b,
  NoDup (map f l) -> In a l -> In b l -> f a = f b -> a = b.
Proof.
  intros A B f l; induction l as [|x r IH]; intros a b Hnd Ha Hb E; [destruct Ha|].
  cbn in Hnd. inversion Hnd as [|? ? Hx Hr]; subst.
  destruct Ha as [Ha|Ha], Hb as [Hb|Hb]; subst.
  - reflexivity.
  - exfalso. apply Hx. rewrite E. apply in_map. exact Hb.
  - exfalso. apply Hx. rewrite <- E. apply in_map. exact Ha.
  - apply IH; assumption.
Qed.

Lemma nodup_map_app_disj : forall (A B : Type) (f : A -> B) (l1 l2 : list A) a b,
  NoDup (map f (l1 ++ l2)) -> In a l1 -> In b l2 -> f a <> f b.
Proof.
  intros A B f l1; induction l1 as [|x r IH]; intros l2 a b Hnd Ha Hb E; [destruct Ha|].
  cbn in Hnd. inversion Hnd as [|? ? Hx Hr]; subst.
  destruct Ha as [Ha|Ha]; subst.
  - apply Hx. rewrite E. apply in_map. apply in_or_app. right. exact Hb.
  - eapply IH; eauto.
Qed.

Lemma nodup_snoc : forall (A : Type) (l : list A) x, NoDup (l ++ [x]) <-> NoDup l /\ ~ In x l.
Proof.
  intros A l x. split.
  - intro H. apply NoDup_remove in H. rewrite app_nil_r in H. exact H.
  - intros [H1 H2]. apply NoDup_rev in H1.
    rewrite <- (rev_involutive (l ++ [x])). apply NoDup_rev. rewrite rev_app_distr. cbn.
    constructor; [|exact H1]. rewrite <- in_rev. exact H2.
Qed.

Lemma snoc_split2 : forall (A : Type) (l : list A) x l1 a l2 b l3,
  l ++ [x] = l1 ++ a :: l2 ++ b :: l3 ->
  (l3 = [] /\ b = x /\ l = l1 ++ a :: l2) \/ (exists l3', l3 = l3' ++ [x] /\ l = l1 ++ a :: l2 ++ b :: l3').
Proof.
  intros A l x l1 a l2 b l3 H.
  destruct (exists_last (l := b :: l3)) as [m [z Hm]]; [discriminate|].
  destruct l3 as [|c l3'].
  - left. assert (E : l1 ++ a :: l2 ++ [b] = (l1 ++ a :: l2) ++ [b]) by (rewrite <- app_assoc; reflexivity).
    rewrite E in H. apply app_inj_tail in H. destruct H as [H1 H2]. auto.
  - right. destruct (exists_last (l := c :: l3')) as [m' [z' Hm']]; [discriminate|].
    rewrite Hm' in H.
    assert (E : l1 ++ a :: l2 ++ b :: m' ++ [z'] = (l1 ++ a :: l2 ++ b :: m') ++ [z']).
    { rewrite <- app_assoc. cbn. rewrite <- app_assoc. reflexivity. }
    rewrite E in H. apply app_inj_tail in H. destruct H as [H1 H2]. subst z'.
    exists m'. split; [exact Hm'|exact H1].
Qed.

Lemma nodup_app_left : forall (A : Type) (l1 l2 : list A), NoDup (l1 ++ l2) -> NoDup l1.
Proof.
  intros A l1; induction l1 as [|x r IH]; intros l2 H; [constructor|].
  cbn in H. inversion H as [|? ? Hx Hr]; subst. constructor.
  - intro Hin. apply Hx. apply in_or_app. left. exact Hin.
  - eapply IH; eauto.
Qed.

Lemma nodup_app_right : forall (A : Type) (l1 l2 : list A), NoDup (l1 ++ l2) -> NoDup l2.
Proof.
  intros A l1; induction l1 as [|x r IH]; intros l2 H; [exact H|].
  cbn in H. inversion H; subst. eapply IH; eauto.
Qed.

Lemma zmem_in : forall c l, zmem c l = true <-> In c l.
Proof.
  intros c l. unfold zmem. rewrite existsb_exists. split.
  - intros [x [H1 H2]]. apply Z.eqb_eq in H2. subst. exact H1.
  - intro H. exists c. split; [exact H|apply Z.eqb_refl].
Qed.

(* ---- the issue side ---- *)
Record GT (g : ghost) (ths : list trig) : Prop := mkGT {
  gt_bnd : NoDup (ids (g_begun g));
  gt_blt : forall x, In x (g_begun g) -> (tk_id x < g_next g)%nat;
  gt_lb : forall x, In x (linked g) -> In x (g_begun g);
  gt_lnd : NoDup (ids (linked g));
  gt_thr : forall t, t_pc (get_trig ths t) <> TIdle ->
     In (t_task (get_trig ths t)) (g_begun g) /\ tk_prod (t_task (get_trig ths t)) = t /\
     (in_pre (t_pc (get_trig ths t)) = true ->
        ~ In (t_task (get_trig ths t)) (linked g) /\
        forall x, In x (linked g) -> tk_prod x = t -> (tk_id x < tk_id (t_task (get_trig ths t)))%nat) /\
     (in_post (t_pc (get_trig ths t)) = true -> In (t_task (get_trig ths t)) (linked g)) /\
     ((t_pc (get_trig ths t) = TLen \/ t_pc (get_trig ths t) = TEnq QL) ->
        sp_high (tk_spec (t_task (get_trig ths t))) = false);
  gt_cov : forall x, In x (g_begun g) -> In x (linked g) \/
     (in_pre (t_pc (get_trig ths (tk_prod x))) = true /\ t_task (get_trig ths (tk_prod x)) = x);
  gt_low : forall x, In x (g_linkL g) -> sp_high (tk_spec x) = false;
  gt_sorted : forall l1 a l2 b l3, g_linkU g = l1 ++ a :: l2 ++ b :: l3 -> tk_prod a = tk_prod b ->
     (tk_id a < tk_id b)%nat;
  gt_acc : forall i, In i (g_acc g) -> In i (ids (linked g))
}.

Lemma GT_init : GT (mkGh O [] [] [] [] [] [] [] [] false false) [].
Proof.
  constructor; cbn.
  - constructor.
  - intros x [].
  - intros x [].
  - constructor.
  - intros t0 H. exfalso. apply H. destruct t0; reflexivity.
  - intros x [].
  - intros x [].
  - intros l1 a l2 b l3 H. destruct l1; discriminate.
  - intros i [].
Qed.

(* GT only reads next, begun, linkU, linkL, acc *)
Lemma GT_ext : forall g g' ths,
  g_next g' = g_next g -> g_begun g' = g_begun g -> g_linkU g' = g_linkU g -> g_linkL g' = g_linkL g ->
  g_acc g' = g_acc g -> GT g ths -> GT g' ths.
Proof.
  intros g g' ths A B C D E [H1 H2 H3 H4 H5 H6 H7 H8 H9].
  constructor; unfold linked in *; rewrite ?A, ?B, ?C, ?D, ?E; assumption.
Qed.

Lemma GT_begin : forall g ths t sp, GT g ths -> t_pc (get_trig ths t) = TIdle ->
  GT (gh_begin g (mkTask (g_next g) t sp)) (put_trig ths t (mkTrig (pc0 sp) (mkTask (g_next g) t sp))).
Proof.
  intros g ths t sp [H1 H2 H3 H4 H5 H6 H7 H8 H9] Hidle.
  set (x := mkTask (g_next g) t sp).
  assert (Hfresh : forall y, In y (g_begun g) -> tk_id y <> g_next g).
  { intros y Hy E. specialize (H2 y Hy). lia. }
  constructor; cbn [gh_begin g_begun g_next g_linkU g_linkL g_acc linked]; unfold linked in *.
  - cbn. constructor; [|exact H1]. intro Hin. apply in_map_iff in Hin. destruct Hin as [y [E Hy]].
    apply (Hfresh y Hy). exact E.
  - intros y [Hy|Hy]; [subst y; cbn; lia|specialize (H2 y Hy); lia].
  - intros y Hy. right. apply H3. exact Hy.
  - exact H4.
  - intros t0 Hpc. destruct (Nat.eq_dec t0 t) as [->|Hne].
    + rewrite get_put_same in *. cbn [t_pc t_task]. splits.
      * left. reflexivity.
      * reflexivity.
      * intros _. split.
        -- intro Hin. apply H3 in Hin. apply (Hfresh x Hin). reflexivity.
        -- intros y Hy _. apply H3 in Hy. specialize (H2 y Hy). cbn. exact H2.
      * unfold pc0. destruct (sp_high sp); discriminate.
      * unfold x, pc0; cbn [tk_spec]. destruct (sp_high sp) eqn:Eh; intros [X|X]; try discriminate; reflexivity.
    + rewrite get_put_other in * by congruence.
      destruct (H5 t0 Hpc) as (A & B & C & D & E). splits; auto. right. exact A.
  - intros y [Hy|Hy].
    + subst y. right. cbn [tk_prod]. rewrite get_put_same. cbn. unfold pc0. destruct (sp_high sp); auto.
    + destruct (H6 y Hy) as [L|[P Q]]; [left; exact L|].
      destruct (Nat.eq_dec (tk_prod y) t) as [E|Hne].
      * exfalso. rewrite E in P. rewrite Hidle in P. discriminate.
      * right. rewrite get_put_other by congruence. auto.
  - exact H7.
  - exact H8.
  - exact H9.
Qed.

Lemma GT_len : forall g ths t x q, GT g ths -> get_trig ths t = mkTrig TLen x ->
  (q = QL -> True) -> GT g (put_trig ths t (mkTrig (TEnq q) x)).
Proof.
  intros g ths t x q [H1 H2 H3 H4 H5 H6 H7 H8 H9] Eth _.
  assert (Ht : t_pc (get_trig ths t) <> TIdle) by (rewrite Eth; discriminate).
  destruct (H5 t Ht) as (A & B & C & D & E). rewrite Eth in A, B, C, D, E. cbn [t_pc t_task] in *.
  constructor; try assumption.
  - intros t0 Hpc. destruct (Nat.eq_dec t0 t) as [->|Hne].
    + rewrite get_put_same in *. cbn [t_pc t_task]. splits; auto; try discriminate.
    + rewrite get_put_other in * by congruence. apply H5. exact Hpc.
  - intros y Hy. destruct (H6 y Hy) as [L|[P Q]]; [left; exact L|].
    destruct (Nat.eq_dec (tk_prod y) t) as [Ey|Hne].
    + right. rewrite Ey in *. rewrite get_put_same. rewrite Eth in Q. cbn in *. auto.
    + right. rewrite get_put_other by congruence. auto.
Qed.

Lemma in_linked_link : forall g q x y, In y (linked (gh_link g q x)) <-> In y (linked g) \/ y = x.
Proof.
  intros g q x y. unfold linked. destruct q; cbn; rewrite !in_app_iff; cbn; intuition congruence.
Qed.

Lemma perm_linked_link : forall g q x, Permutation (linked (gh_link g q x)) (x :: linked g).
Proof.
  intros g q x. unfold linked. destruct q; cbn.
  - rewrite <- app_assoc. cbn. symmetry. apply Permutation_middle.
  - rewrite app_assoc. symmetry. apply Permutation_cons_append.
Qed.

Lemma GT_link : forall g ths t x q, GT g ths -> get_trig ths t = mkTrig (TEnq q) x ->
  GT (gh_link g q x) (put_trig ths t (mkTrig (TCnt q) x)).
Proof.
  intros g ths t x q [H1 H2 H3 H4 H5 H6 H7 H8 H9] Eth.
  assert (Ht : t_pc (get_trig ths t) <> TIdle) by (rewrite Eth; discriminate).
  destruct (H5 t Ht) as (A & B & C & D & E). rewrite Eth in A, B, C, D, E. cbn [t_pc t_task] in *.
  destruct (C eq_refl) as [Cn Co].
  assert (Gb : g_begun (gh_link g q x) = g_begun g) by (destruct q; reflexivity).
  assert (Gn : g_next (gh_link g q x) = g_next g) by (destruct q; reflexivity).
  assert (Ga : g_acc (gh_link g q x) = g_acc g) by (destruct q; reflexivity).
  constructor; rewrite ?Gb, ?Gn, ?Ga.
  - exact H1.
  - exact H2.
  - intros y Hy. apply in_linked_link in Hy. destruct Hy as [Hy|Hy]; [apply H3; exact Hy|subst; exact A].
  - unfold ids. eapply Permutation_NoDup; [apply Permutation_map; symmetry; apply perm_linked_link|].
    cbn. constructor; [|exact H4].
    intro Hin. apply in_map_iff in Hin. destruct Hin as [y [Ey Hy]].
    assert (y = x) by (eapply (map_inj_in _ _ tk_id (g_begun g)); eauto). subst y. contradiction.
  - intros t0 Hpc. destruct (Nat.eq_dec t0 t) as [->|Hne].
    + rewrite get_put_same in *. cbn [t_pc t_task]. splits; auto.
      * discriminate.
      * intros _. apply in_linked_link. right. reflexivity.
      * intros [X|X]; discriminate.
    + rewrite get_put_other in * by congruence.
      destruct (H5 t0 Hpc) as (A0 & B0 & C0 & D0 & E0). splits; auto.
      * intro P. destruct (C0 P) as [Cn0 Co0]. split.
        -- intro Hin. apply in_linked_link in Hin. destruct Hin as [Hin|Hin]; [contradiction|].
           rewrite Hin in B0. congruence.
        -- intros y Hy Ey. apply in_linked_link in Hy. destruct Hy as [Hy|Hy]; [apply Co0; assumption|].
           subst y. congruence.
      * intro P. apply in_linked_link. left. apply D0. exact P.
  - intros y Hy. destruct (H6 y Hy) as [L|[P Q]].
    + left. apply in_linked_link. left. exact L.
    + destruct (Nat.eq_dec (tk_prod y) t) as [Ey|Hne].
      * left. rewrite Ey in Q. rewrite Eth in Q. cbn in Q. subst y. apply in_linked_link. right. reflexivity.
      * right. rewrite get_put_other by congruence. auto.
  - intros y Hy. destruct q; cbn in Hy; [apply H7; exact Hy|].
    apply in_app_iff in Hy. destruct Hy as [Hy|[Hy|[]]]; [apply H7; exact Hy|]. subst y. apply E. right. reflexivity.
  - intros l1 a l2 b l3 Hl Hp. destruct q; cbn in Hl; [|eapply H8; eassumption].
    apply snoc_split2 in Hl. destruct Hl as [(_ & Eb & El)|[l3' (_ & El)]]; [|eapply H8; eassumption].
    subst b. apply Co; [|congruence].
    unfold linked. apply in_or_app. left. rewrite El. apply in_or_app. right. left. reflexivity.
  - intros i Hi. specialize (H9 i Hi). unfold ids in *. apply in_map_iff in H9. destruct H9 as [y [Ey Hy]].
    apply in_map_iff. exists y. split; [exact Ey|]. apply in_linked_link. left. exact Hy.
Qed.

Lemma GT_post : forall g ths t p x p', GT g ths -> get_trig ths t = mkTrig p x ->
  in_post p = true -> in_post p' = true -> GT g (put_trig ths t (mkTrig p' x)).
Proof.
  intros g ths t p x p' [H1 H2 H3 H4 H5 H6 H7 H8 H9] Eth Pp Pp'.
  assert (Ht : t_pc (get_trig ths t) <> TIdle) by (rewrite Eth; destruct p; cbn in *; congruence).
  destruct (H5 t Ht) as (A & B & C & D & E). rewrite Eth in A, B, C, D, E. cbn [t_pc t_task] in *.
  constructor; try assumption.
  - intros t0 Hpc. destruct (Nat.eq_dec t0 t) as [->|Hne].
    + rewrite get_put_same in *. cbn [t_pc t_task]. splits; auto.
      * intro X. destruct p'; cbn in *; discriminate.
      * intros [X|X]; subst p'; discriminate.
    + rewrite get_put_other in * by congruence. apply H5. exact Hpc.
  - intros y Hy. destruct (H6 y Hy) as [L|[P Q]]; [left; exact L|].
    destruct (Nat.eq_dec (tk_prod y) t) as [Ey|Hne].
    + exfalso. rewrite Ey, Eth in P. cbn in P. destruct p; cbn in *; discriminate.
    + right. rewrite get_put_other by congruence. auto.
Qed.

Lemma GT_ret : forall g ths t p x ok, GT g ths -> get_trig ths t = mkTrig p x ->
  in_post p = true -> GT (gh_ret g (tk_id x) ok) (put_trig ths t idle_trig).
Proof.
  intros g ths t p x ok [H1 H2 H3 H4 H5 H6 H7 H8 H9] Eth Pp.
  assert (Ht : t_pc (get_trig ths t) <> TIdle) by (rewrite Eth; destruct p; cbn in *; congruence).
  destruct (H5 t Ht) as (A & B & C & D & E). rewrite Eth in A, B, C, D, E. cbn [t_pc t_task] in *.
  constructor; cbn [gh_ret g_begun g_next g_linkU g_linkL g_acc linked]; unfold linked in *; try assumption.
  - intros t0 Hpc. destruct (Nat.eq_dec t0 t) as [->|Hne].
    + rewrite get_put_same in Hpc. cbn in Hpc. congruence.
    + rewrite get_put_other in * by congruence. apply H5. exact Hpc.
  - intros y Hy. destruct (H6 y Hy) as [L|[P Q]]; [left; exact L|].
    destruct (Nat.eq_dec (tk_prod y) t) as [Ey|Hne].
    + exfalso. rewrite Ey, Eth in P. cbn in P. destruct p; cbn in *; discriminate.
    + right. rewrite get_put_other by congruence. auto.
  - intros i Hi. destruct ok; [|apply H9; exact Hi].
    apply in_app_iff in Hi. destruct Hi as [Hi|[Hi|[]]]; [apply H9; exact Hi|].
    subst i. unfold ids. apply in_map. apply D. exact Pp.
Qed.

(* ---- the queue side ---- *)
Record GQ (g : ghost) (iu il hu hl : list task) (cl : list Z) : Prop := mkGQ {
  gq_MU : g_linkU g = execq QU g ++ hu ++ iu;
  gq_ML : g_linkL g = execq QL g ++ hl ++ il;
  gq_end : NoDup (map eid (g_exec g));
  gq_cb : g_cb g = flat_map cbf (g_exec g);
  gq_trnd : NoDup (map fst (g_traffic g));
  gq_trin : forall i c, In (i, c) (g_traffic g) ->
     exists q x, In (q, x) (g_exec g) /\ tk_id x = i /\ sp_kind (tk_spec x) = KWake c;
  gq_trcov : forall q x c, In (q, x) (g_exec g) -> sp_kind (tk_spec x) = KWake c -> ~ In c cl ->
     In (tk_id x, c) (g_traffic g)
}.

Lemma GQ_init : GQ (mkGh O [] [] [] [] [] [] [] [] false false) [] [] [] [] [].
Proof. constructor; cbn; try reflexivity; try constructor; intros; contradiction. Qed.

(* GQ only reads linkU, linkL, exec, cb, traffic *)
Lemma GQ_ext : forall g g' iu il hu hl cl,
  g_linkU g' = g_linkU g -> g_linkL g' = g_linkL g -> g_exec g' = g_exec g -> g_cb g' = g_cb g ->
  g_traffic g' = g_traffic g -> GQ g iu il hu hl cl -> GQ g' iu il hu hl cl.
Proof.
  intros g g' iu il hu hl cl A B C D E [H1 H2 H3 H4 H5 H6 H7].
  constructor; unfold execq in *; rewrite ?A, ?B, ?C, ?D, ?E; assumption.
Qed.

Lemma GQ_link : forall g iu il hu hl cl q x, GQ g iu il hu hl cl ->
  GQ (gh_link g q x) (match q with QU => iu ++ [x] | QL => iu end) (match q with QU => il | QL => il ++ [x] end) hu hl cl.
Proof.
  intros g iu il hu hl cl q x [H1 H2 H3 H4 H5 H6 H7].
  destruct q; constructor; unfold execq in *; cbn [gh_link g_linkU g_linkL g_exec g_cb g_traffic]; try assumption.
  - rewrite H1. rewrite <- !app_assoc. reflexivity.
  - rewrite H2. rewrite <- !app_assoc. reflexivity.
Qed.

Lemma GQ_unlink : forall g iu il cl q x r, GQ g iu il [] [] cl ->
  match q with QU => iu | QL => il end = x :: r ->
  GQ g (match q with QU => r | QL => iu end) (match q with QU => il | QL => r end)
       (match q with QU => [x] | QL => [] end) (match q with QU => [] | QL => [x] end) cl.
Proof.
  intros g iu il cl q x r [H1 H2 H3 H4 H5 H6 H7] E.
  destruct q; subst; constructor; try assumption.
Qed.

Lemma execq_snoc : forall g q q' x a b,
  execq q' (gh_exec g q x a b) = execq q' g ++ (if qid_eqb q q' then [x] else []).
Proof.
  intros. unfold execq. cbn [gh_exec g_exec]. rewrite filter_app, map_app. cbn.
  destruct q, q'; cbn; reflexivity.
Qed.

Lemma in_execq : forall g q x, In (q, x) (g_exec g) -> In x (execq q g).
Proof.
  intros g q x H. unfold execq. apply in_map_iff. exists (q, x). split; [reflexivity|].
  apply filter_In. split; [exact H|]. destruct q; reflexivity.
Qed.

(* the task held by the loop (just dequeued from q) is executed *)
Lemma GQ_exec : forall g iu il cl q x,
  GQ g iu il (match q with QU => [x] | QL => [] end) (match q with QU => [] | QL => [x] end) cl ->
  NoDup (ids (linked g)) ->
  forall cl' trs,
  (match sp_kind (tk_spec x) with
   | KPlain => cl' = cl /\ trs = []
   | KWake c => cl' = cl /\ trs = (if zmem c cl then [] else [(tk_id x, c)])
   | KClose c => cl' = c :: cl /\ trs = []
   end) ->
  GQ (gh_exec g q x (if sp_cb (tk_spec x) then [tk_id x] else []) trs) iu il [] [] cl'.
Proof.
  intros g iu il cl q x [H1 H2 H3 H4 H5 H6 H7] Hnd cl' trs Hk.
  assert (Hfresh : ~ In (tk_id x) (map eid (g_exec g))).
  { intro Hin. apply in_map_iff in Hin. destruct Hin as [[q' y] [Ey Hy]]. unfold eid in Ey; cbn in Ey.
    pose proof (in_execq _ _ _ Hy) as Hq. unfold linked, ids in Hnd.
    destruct q, q'.
    - rewrite H1 in Hnd. rewrite map_app in Hnd. apply nodup_app_left in Hnd.
      cbn [app] in Hnd.
      apply (nodup_map_app_disj _ _ tk_id (execq QU g) (x :: iu) y x Hnd Hq); [left; reflexivity|exact Ey].
    - apply (nodup_map_app_disj _ _ tk_id _ _ x y Hnd); [rewrite H1; apply in_or_app; right; left; reflexivity
                                                         |rewrite H2; apply in_or_app; left; exact Hq|congruence].
    - apply (nodup_map_app_disj _ _ tk_id _ _ y x Hnd); [rewrite H1; apply in_or_app; left; exact Hq
                                                         |rewrite H2; apply in_or_app; right; left; reflexivity|exact Ey].
    - rewrite H2 in Hnd. rewrite map_app in Hnd. apply nodup_app_right in Hnd.
      cbn [app] in Hnd.
      apply (nodup_map_app_disj _ _ tk_id (execq QL g) (x :: il) y x Hnd Hq); [left; reflexivity|exact Ey]. }
  assert (Htr : ~ In (tk_id x) (map fst (g_traffic g))).
  { intro Hin. apply in_map_iff in Hin. destruct Hin as [[i c] [Ei Hi]]. cbn in Ei. subst i.
    destruct (H6 _ _ Hi) as (q' & y & Hy & Ey & _). apply Hfresh. apply in_map_iff. exists (q', y). auto. }
  constructor; rewrite ?execq_snoc; cbn [gh_exec g_linkU g_linkL g_exec g_cb g_traffic].
  - rewrite H1. destruct q; cbn; rewrite <- ?app_assoc; cbn; rewrite ?app_nil_r; reflexivity.
  - rewrite H2. destruct q; cbn; rewrite <- ?app_assoc; cbn; rewrite ?app_nil_r; reflexivity.
  - rewrite map_app. cbn. apply nodup_snoc. split; [exact H3|exact Hfresh].
  - rewrite flat_map_app. cbn. rewrite app_nil_r. rewrite H4. reflexivity.
  - destruct (sp_kind (tk_spec x)) as [|c|c]; destruct Hk as [_ ->]; rewrite ?app_nil_r; try exact H5.
    destruct (zmem c cl); rewrite ?app_nil_r; [exact H5|].
    rewrite map_app. cbn. apply nodup_snoc. split; [exact H5|exact Htr].
  - intros i c Hin. apply in_app_iff in Hin. destruct Hin as [Hin|Hin].
    + destruct (H6 _ _ Hin) as (q' & y & Hy & Ey & Ky). exists q', y. split; [apply in_or_app; left; exact Hy|auto].
    + destruct (sp_kind (tk_spec x)) as [|c0|c0] eqn:Ek; destruct Hk as [_ ->]; try destruct Hin.
      destruct (zmem c0 cl); [destruct Hin|]. destruct Hin as [Hin|[]]. inversion Hin; subst.
      exists q, x. split; [apply in_or_app; right; left; reflexivity|auto].
  - intros q' y c Hin Ky Hc. apply in_app_iff in Hin. destruct Hin as [Hin|[Hin|[]]].
    + apply in_or_app. left. apply (H7 q' y c Hin Ky).
      destruct (sp_kind (tk_spec x)) as [|c0|c0]; destruct Hk as [-> _]; try exact Hc.
      intro X. apply Hc. right. exact X.
    + inversion Hin; subst q' y. rewrite Ky in Hk. destruct Hk as [-> ->].
      apply in_or_app. right. destruct (zmem c cl) eqn:Ez; [apply zmem_in in Ez; contradiction|left; reflexivity].
Qed.
