(* C10 proofs, part 2: the list part of the mixed buffer, seen through the
   interface proved in C11: the one-step refinement [bstep_refines] (every
   operation of linkedlist.Buffer is a [fifo_step] on [concat segs] and keeps
   the invariant) read through byte values ([fifo_step_map]).  One lemma per
   method the elastic buffer calls, stated on [lcontent] with the list
   primitives of Spec/Fifo.v. *)
From Coq Require Import Lia ZArith ZifyBool List Bool.
From GV Require Import Lib.Trace Spec.Fifo Proofs.FifoLemmas Model.Elastic Spec.ElasticSpec.
From GV Require Model.LList Spec.LListSpec Proofs.LListProofs.
Import ListNotations.
Open Scope Z_scope.

Notation linv := LListSpec.inv.

(* LList.v has its own (extensionally equal) Z-indexed list primitives *)
Lemma lz_len {A} (l : list A) : LList.zlen l = zlen l.
Proof. reflexivity. Qed.
Lemma lz_take {A} n (l : list A) : LList.ztake n l = ztake n l.
Proof. apply LListProofs.ztake_firstn. Qed.
Lemma lz_drop {A} n (l : list A) : LList.zdrop n l = zdrop n l.
Proof. apply LListProofs.zdrop_skipn. Qed.

Lemma unlit_lits p : map unlit (map LList.Lit p) = p.
Proof. apply (LListProofs.lits_deref [] p). Qed.

(* one step of the list, on byte values *)
Lemma L_step l bo : linv l -> LListSpec.bop_ok bo ->
  LListSpec.fifo_step unlit (lcontent l) bo (LList.map_out unlit (snd (LList.bstep l bo)))
                      (lcontent (fst (LList.bstep l bo))) /\
  linv (fst (LList.bstep l bo)).
Proof.
  intros Hi Hok. destruct (LListProofs.bstep_refines l bo Hi Hok) as (Hs & Hi'). split; [|exact Hi'].
  apply LListProofs.fifo_step_map. exact Hs.
Qed.

Lemma L_empty : linv LList.empty_buffer /\ lcontent LList.empty_buffer = [].
Proof. split; [apply LListProofs.inv_empty|reflexivity]. Qed.

Lemma L_Reset l : linv (LList.Reset l) /\ lcontent (LList.Reset l) = [].
Proof. exact L_empty. Qed.

Lemma L_Buffered l : linv l -> LList.Buffered l = zlen (lcontent l).
Proof. intros (_ & Hb & _). unfold LList.Buffered, lcontent. rewrite Hb, lz_len. unfold zlen. rewrite map_length. reflexivity. Qed.

Lemma L_IsEmpty l : linv l -> LList.IsEmpty l = fifo_is_empty (lcontent l).
Proof.
  intros Hi. pose proof (LListProofs.inv_isempty_iff l Hi) as Hiff. rewrite (L_Buffered l Hi) in Hiff.
  destruct (LList.IsEmpty l) eqn:E.
  - destruct Hiff as (H1 & _). specialize (H1 eq_refl). rewrite (zlen_zero_nil _ H1). reflexivity.
  - destruct (lcontent l) eqn:C; [|reflexivity]. destruct Hiff as (_ & H2). discriminate (H2 eq_refl).
Qed.

Lemma L_PushBack l p : linv l -> linv (LList.PushBack l p) /\ lcontent (LList.PushBack l p) = (lcontent l ++ p)%list.
Proof.
  intros Hi. destruct (L_step l (LList.BPushBack p) Hi I) as (Hs & Hi'). cbn [LList.bstep fst snd LList.map_out] in *.
  split; [exact Hi'|]. inversion Hs; subst. unfold LListSpec.lits. rewrite unlit_lits. reflexivity.
Qed.

Lemma L_Read l n : linv l -> 0 <= n ->
  exists bs l' e, LList.Read l n = ((zlen (ztake n (lcontent l)), e, bs), l') /\ linv l' /\
    map unlit bs = ztake n (lcontent l) /\ lcontent l' = zdrop n (lcontent l) /\
    e = (if (0 <? n) && (zlen (lcontent l) =? 0) then LList.EEOF else LList.ENil).
Proof.
  intros Hi Hn. destruct (L_step l (LList.BRead n) Hi Hn) as (Hs & Hi'). cbn [LList.bstep] in *.
  destruct (LList.Read l n) as [[[cnt e] bs] l'] eqn:E. cbn [fst snd LList.map_out] in *.
  inversion Hs; subst. change (@LList.zlen) with (@zlen) in *; rewrite ?lz_take, ?lz_drop in *.
  exists bs, l', (if (0 <? n) && (zlen (lcontent l) =? 0) then LList.EEOF else LList.ENil). splits; auto.
Qed.

Lemma L_Discard l n : linv l ->
  exists l', LList.Discard l n = (zlen (ztake n (lcontent l)), l') /\ linv l' /\ lcontent l' = zdrop n (lcontent l).
Proof.
  intros Hi. destruct (L_step l (LList.BDiscard n) Hi I) as (Hs & Hi'). cbn [LList.bstep] in *.
  destruct (LList.Discard l n) as [d l'] eqn:E. cbn [fst snd LList.map_out] in *.
  inversion Hs; subst. change (@LList.zlen) with (@zlen) in *; rewrite ?lz_take, ?lz_drop in *. exists l'. auto.
Qed.

(* PeekWithBytes with the two ring segments in front *)
Lemma L_PeekWithBytes l n h t : linv l ->
  exists e bss, LList.PeekWithBytes l n [lits h; lits t] = Ret (e, bss) /\
    ((n <= 0 \/ n = LList.MaxInt32) -> e = LList.ENil /\
        List.concat (map (map unlit) bss) = ztake LList.MaxInt32 ((h ++ t) ++ lcontent l)) /\
    (0 < n <= zlen (h ++ t) + zlen (lcontent l) -> n <> LList.MaxInt32 -> e = LList.ENil /\
        List.concat (map (map unlit) bss) = ztake n ((h ++ t) ++ lcontent l)) /\
    (zlen (h ++ t) + zlen (lcontent l) < n -> n <> LList.MaxInt32 -> e = LList.EShortBuf /\ bss = []).
Proof.
  intros Hi. destruct (L_step l (LList.BPeekB n [h; t]) Hi I) as (Hs & _). cbn [LList.bstep fst snd] in *.
  change (map (map LList.Lit) [h; t]) with [lits h; lits t] in Hs.
  destruct (LList.PeekWithBytes l n [lits h; lits t]) as [[e bss]|] eqn:E; cbn [LList.map_out] in Hs.
  2:{ inversion Hs. }
  exists e, bss. split; [reflexivity|].
  assert (Hl : LListSpec.lits unlit (List.concat [h; t]) = (h ++ t)%list).
  { unfold LListSpec.lits. rewrite unlit_lits. cbn [List.concat]. rewrite app_nil_r. reflexivity. }
  assert (Hz : LList.zlen (List.concat [h; t]) = zlen (h ++ t)).
  { cbn [List.concat]. rewrite app_nil_r. reflexivity. }
  pose proof (zlen_nonneg (h ++ t)). pose proof (zlen_nonneg (lcontent l)).
  inversion Hs; subst; change (@LList.zlen) with (@zlen) in *; rewrite ?lz_take, ?Hl, ?Hz in *;
    (splits; intros; try lia; try (split; [reflexivity|]); try assumption).
  all: try match goal with
    | H : [] = map _ ?b |- ?b = [] => symmetry in H; apply map_eq_nil in H; exact H
    | H : map _ ?b = [] |- ?b = [] => apply map_eq_nil in H; exact H
    end.
Qed.

(* what the scripted reader hands out is a prefix of its source *)
Lemma reader_run_prefix : forall sc src, LListSpec.script_ok sc ->
  fst (LListSpec.reader_run sc src) = ztake (zlen (fst (LListSpec.reader_run sc src))) src.
Proof.
  induction sc as [|[k e] rest IH]; intros src Hok; cbn [LListSpec.reader_run].
  - cbn [fst]. rewrite ztake_nonpos by (rewrite zlen_nil; lia). reflexivity.
  - apply LListProofs.script_ok_cons in Hok. destruct Hok as (Hk & Hrest).
    rewrite lz_len, lz_take, lz_drop.
    set (m := Z.min k (Z.min LList.minRead (zlen src))).
    assert (Hm : 0 <= m <= zlen src) by (pose proof (zlen_nonneg src); unfold m, LList.minRead; lia).
    assert (Hlen : zlen (ztake m src) = m) by zl.
    destruct e; cbn [fst]; try (rewrite Hlen; reflexivity).
    specialize (IH (zdrop m src) Hrest).
    destruct (LListSpec.reader_run rest (zdrop m src)) as [d' e'] eqn:Er. cbn [fst] in *.
    rewrite zlen_app, Hlen. rewrite IH at 1. apply ztake_add; [lia|apply zlen_nonneg].
Qed.

Lemma lscript_ok sc : script_ok sc -> LListSpec.script_ok (lscript_of sc).
Proof.
  unfold script_ok, LListSpec.script_ok, lscript_of. intros H. apply Forall_map.
  eapply Forall_impl; [|exact H]. intros [k e] Hk. exact Hk.
Qed.

Lemma L_ReadFrom l src sc : linv l -> LListSpec.script_ok sc ->
  exists l' k e, LList.ReadFrom l src sc = (Ret (k, e), l') /\ linv l' /\
    0 <= k <= zlen src /\ lcontent l' = (lcontent l ++ ztake k src)%list.
Proof.
  intros Hi Hok. destruct (L_step l (LList.BReadFrom src sc) Hi Hok) as (Hs & Hi'). cbn [LList.bstep] in *.
  destruct (LList.ReadFrom l src sc) as [r l'] eqn:E. cbn [fst snd LList.map_out] in *.
  inversion Hs; subst. change (@LList.zlen) with (@zlen) in *.
  exists l', (zlen (fst (LListSpec.reader_run sc src))), (snd (LListSpec.reader_run sc src)).
  match goal with H : _ = lcontent l' |- _ => rewrite <- H end.
  unfold LListSpec.lits. rewrite unlit_lits.
  pose proof (reader_run_prefix sc src Hok) as Hp.
  splits; auto.
  - apply zlen_nonneg.
  - rewrite Hp. zl.
  - rewrite <- Hp. reflexivity.
Qed.

Lemma L_WriteTo l sc : linv l -> LListSpec.script_ok sc ->
  exists l' k e bs, LList.WriteTo l sc = (Ret (k, e, bs), l') /\ linv l' /\
    map unlit bs = ztake k (lcontent l) /\ lcontent l' = zdrop k (lcontent l) /\
    0 <= k <= zlen (lcontent l) /\ (e = LList.ENil -> k = zlen (lcontent l)).
Proof.
  intros Hi Hok. destruct (L_step l (LList.BWriteTo sc) Hi Hok) as (Hs & Hi'). cbn [LList.bstep] in *.
  destruct (LList.WriteTo l sc) as [r l'] eqn:E. cbn [fst snd] in *.
  destruct r as [[[k e] bs]|]; cbn [LList.map_out] in Hs; [|inversion Hs].
  inversion Hs; subst. change (@LList.zlen) with (@zlen) in *; rewrite ?lz_take, ?lz_drop in *.
  exists l', k, e, bs. splits; auto; lia.
Qed.

Lemma of_lerr_nil e : of_lerr e = XNil -> e = LList.ENil.
Proof. destruct e; cbn; congruence. Qed.

(* push_all / total_len of Writev *)
Lemma push_all_ok : forall bs l, linv l ->
  linv (push_all l bs) /\ lcontent (push_all l bs) = (lcontent l ++ List.concat bs)%list.
Proof.
  induction bs as [|x r IH]; intros l Hi; cbn [push_all fold_left List.concat].
  - rewrite app_nil_r. auto.
  - destruct (L_PushBack l x Hi) as (Hi1 & Hc1). destruct (IH _ Hi1) as (Hi2 & Hc2).
    unfold push_all in *. split; [exact Hi2|]. rewrite Hc2, Hc1, app_assoc. reflexivity.
Qed.

Lemma total_len_acc : forall (bs : list (list Z)) a,
  fold_left (fun a x => a + zlen x) bs a = a + zlen (List.concat bs).
Proof.
  induction bs as [|x r IH]; intros a; cbn [fold_left List.concat].
  - rewrite zlen_nil. lia.
  - rewrite IH, zlen_app. lia.
Qed.

Lemma total_len_ok bs : total_len bs = zlen (List.concat bs).
Proof. unfold total_len. rewrite total_len_acc. lia. Qed.
