_VATOMIC = [["sync/atomic", "atomic \"github.com/panjf2000/gnet/v2/pkg/vatomic\""]]
_VSYS = [["golang.org/x/sys/unix", "unix \"github.com/panjf2000/gnet/v2/pkg/vsys\""]]

import os as _os, sys as _sys
_sys.path.insert(0, _os.path.dirname(_os.path.dirname(_os.path.abspath(__file__))))
from loopfam import drv as _loopdrv, GENS as _GENS

# "High-priority requests issued by one goroutine are carried out in issue order" also depends on WHICH priority the
# request functions of connection_unix.go ask for: the generated table trigger_priorities_as_modelled (genloop) pins
# them, and the real engine is run once through the async-flood scenario (1500 AsyncWrite, then AsyncWritev, then
# AsyncWrite behind the backlog) with the issue-order oracle (added after a seeded change lowered AsyncWritev's priority)
_FLOOD = _loopdrv("scenario:async-flood", n=1)
_FLOOD["sites"] = ["^outbound-async-order$", "^async-callback$", "^loop-stuck$", "^engine-start$"]

# the connection-level half of "carried out exactly once, callback exactly once": the real engine's request
# functions (AsyncWrite, AsyncWritev, Wake, Close, CloseWithCallback, from callbacks and from other goroutines, on
# open, closing and already closed connections) under the stream and client runs of the loop driver, judged by the
# callback oracles (twice / never) and the model of the loop
_REQS = _loopdrv("stream", n=40)
_REQS["sites"] = ["^outbound-async-order$", "^async-callback$", "^loop-stuck$", "^engine-start$"]
_REQC = _loopdrv("client", n=20)
_REQC["sites"] = list(_REQS["sites"])

PROP = dict(
    gens=_GENS,
    drivers=[_FLOOD, _REQS, _REQC,
        dict(cmd="drv-wakeup", family="wakeup", shrink=False,
             unix_swap=["pkg/netpoll/poller_epoll_default.go"],
             swaps=[["pkg/netpoll/poller_epoll_default.go", _VATOMIC],
                    ["pkg/queue/lock_free_queue.go", _VATOMIC]]),
        dict(cmd="drv-wakeup", family="wakeup", variant="opt", tags="verif poll_opt", shrink=False,
             unix_swap=["pkg/netpoll/poller_epoll_ultimate.go"],
             swaps=[["pkg/netpoll/poller_epoll_ultimate.go", _VATOMIC],
                    ["pkg/queue/lock_free_queue.go", _VATOMIC],
                    ["pkg/netpoll/syscall_epoll_generic_linux.go", _VSYS]]),
    ],
    rule="a case is one schedule of the REAL poller (OpenPoller, Trigger, Polling, lock_free_queue.go of the current "
         "tree; both build variants) under the cooperative scheduler: thread 0 runs Polling, 1..4 producers issue 1..6 "
         "requests each (high/low priority, wake/close/plain, with or without callback, some bodies and I/O callbacks "
         "re-triggering), threshold 0/1/2/3/1024 set through an export file, MaxAsyncTasksAtOneTime read from the code; "
         "one granted step = one atomic operation or one eventfd/epoll system call; epoll_wait is always issued with "
         "timeout 0 against the real epoll/eventfd, a -1 wait that finds nothing parks the loop until an eventfd write; "
         "schedules: seeded random with stickiness, PCT-style priorities (depth 1..4), every schedule with <= 2 (thorough: 3) "
         "preemptions for four small configurations, >256 queued low-priority requests (batch limit), eventfd counter "
         "preloaded to its maximum (EAGAIN), I/O events in the same batch as the wake-up; the model replays the schedule "
         "and must predict every observation (operation class, location class, value, CAS outcome, system-call result, "
         "delivered events, executed request ids in order, callbacks, OnTraffic); queue-internal atomic operations that "
         "are not linearization points are stutter steps; direct oracle at every quiescent point (confirmed by a real "
         "epoll_wait returning 0): every accepted request ran exactly once, callbacks once, high-priority per-producer "
         "order; plus unmanaged stress: 8 real goroutines x 2500 (thorough 20000) Trigger calls against a real blocking "
         "Polling loop; non-trivial = lost CAS, re-check CAS/write, EAGAIN, low queue, nested trigger, I/O event, "
         "negative length, batch limit occurred; distinct by hash of the op lines",
    trusted=["shims harness/export/vatomic, harness/export/vsched, harness/shim/vunix (eventfd read/write, epoll_wait of the "
             "default poller), harness/export/vsys (SYS_EPOLL_WAIT of the poll_opt poller), overlaid as packages of the gnet "
             "module; import swaps of sync/atomic and golang.org/x/sys/unix in scratch copies of poller_epoll_*.go, "
             "lock_free_queue.go, syscall_epoll_generic_linux.go",
             "harness/export/netpoll_wakeup*_export.go (addresses of wakeupCall and of the queues, the eventfd, setter of "
             "highPriorityEventsThreshold) and queue_lfq_export.go",
             "drv-wakeup's classification of the lock-free queue's atomic operations into link / count / unlink / decount / "
             "empty / internal (the queue itself is C13's subject)"],
    assumptions=["sync/atomic is sequentially consistent; an interleaving of single atomic operations and system calls is the unit of concurrency",
                 "the two task queues behave as the atomic-queue specification with the length counter lagging as in C13_length_lag (single dequeuer)",
                 "Linux eventfd/epoll semantics as modelled: a write raises a fresh edge for an EPOLLET registration even when the counter is already non-zero, "
                 "a reported edge is reported once, a pending edge is not reported when the counter has been reset to 0, the ready list fits the event buffer; "
                 "an eventfd write fails only with EAGAIN (hypothesis g_fault = false)",
                 "the int32 length counters do not leave the int32 range (hypothesis g_ovf = false)",
                 "the engine keeps running: the loop does not exit (shutdown, callback errors) while requests are outstanding",
                 "weak fairness of the Go scheduler and the kernel is assumed for 'eventually executed'; what is proved is quiescence-or-progress",
                 "user callbacks and task bodies terminate"],
)
