(* C01 -- inbound stream integrity.  Statements only; proofs in Proofs/LoopData.v and Proofs/LoopProgress.v. *)
From GV Require Import Lib.Trace Model.Loop Spec.LoopSpec Proofs.LoopData Proofs.LoopProgress.
From GV Require Import Model.Elastic Spec.ElasticSpec Proofs.LoopBufferLink.
From GV Require Model.Ring Model.LList.
Open Scope Z_scope.

(* For every input stream: what Read/Next/Peek/WriteTo hand to the handler is always the
   front of the bytes the kernel delivered for that connection and that were not consumed
   yet (no loss, duplication, reordering or alteration, whatever the segmentation and
   whatever the handler consumes); Discard advances by what it reports; InboundBuffered
   is the length of the unconsumed rest; every delivery is offered to OnTraffic at once
   (so all data precedes the OnClose caused by end of stream). *)
Theorem C01_inbound_integrity : forall i t, run_history i = Some t -> inbound_ok t = true.
Proof. exact inbound_holds. Qed.
Print Assumptions C01_inbound_integrity.

(* Progress ("a peer that keeps sending is never left with readable data that is not handed to
   OnTraffic"), edge-triggered mode, where no new event announces data a read left behind: for
   every input stream, a read that filled the buffer it was given is followed -- before the loop
   goes back to waiting -- by another read, a queued read task, or the close of that connection.
   (Level-triggered: the kernel reports the descriptor again; nothing to prove on the loop side.) *)
Theorem C01_inbound_progress : forall i t, run_history i = Some t -> in_progress_ok (is_et i) t = true.
Proof. exact in_progress_holds. Qed.
Print Assumptions C01_inbound_progress.

(* What licenses the FIFO list [c_in] of Model/Loop.v.  In gnet the inboundBuffer is an
   elastic.RingBuffer; Model/Loop.v holds it as a plain byte list and works on it with ++,
   ztake, zdrop, zlen and `match .. with [] => ..`.  For every method the Go code calls on it
   (Write of the leftover read window in eventloop.read; Peek, Discard, Read, WriteTo,
   Buffered, IsEmpty, Reset, Done in connection_unix.go), executed on the buffer model of C10
   (Model/Elastic.v over the ring model of C09): if the representation invariant holds and the
   abstract content (rcontent) is the list L the loop model holds, then the method does not
   panic, returns what the loop model computes from L, keeps the invariant and leaves the
   content the loop model stores.  [e] ranges over ALL states of the elastic ring buffer
   (no ring / any ring satisfying C09's invariant), [c] is the capacity the pool would hand
   back, the WriteTo writer is arbitrary (any script).  The last clause is the list identity
   behind conn.Read / Next / Peek across the ring and the read window c.buffer.
   Each clause is an instance of C10_elastic_ring_step (Proofs/LoopBufferLink.v). *)
Theorem C01_inbound_buffer_link :
  (forall e L c p, ering_inv e -> rcontent e = L -> 0 <= c -> Loop.zlen p <= 2^62 ->
     exists e', RWrite e c p = Ret (e', (Loop.zlen p, XNil)) /\ ering_inv e' /\ rcontent e' = (L ++ p)%list) /\
  (forall e L n, ering_inv e -> rcontent e = L ->
     exists h t, RPeek e n = Ret (h, t) /\
       (h ++ t)%list = (if n <=? 0 then L else Loop.ztake n L) /\
       (0 < n -> (h ++ t)%list = Loop.ztake n L)) /\
  (forall e L n, ering_inv e -> rcontent e = L ->
     exists e' er, RDiscard e n = Ret (e', (Loop.zlen (Loop.ztake n L), er)) /\ ering_inv e' /\
       rcontent e' = Loop.zdrop n L /\
       (0 <= n <= Loop.zlen L -> Loop.zlen (Loop.ztake n L) = n) /\
       (L <> [] -> er = XNil)) /\
  (forall e L k, ering_inv e -> rcontent e = L -> 0 <= k ->
     exists e' er, RRead e k = Ret (e', (Loop.ztake k L, Z.min k (Loop.zlen L), er)) /\ ering_inv e' /\
       rcontent e' = Loop.zdrop k L /\
       Loop.ztake k L = Loop.ztake (Z.min k (Loop.zlen L)) L /\
       L = (Loop.ztake k L ++ rcontent e')%list /\
       (L <> [] -> er = XNil)) /\
  (forall e L sc, ering_inv e -> rcontent e = L ->
     exists e' o, RWriteTo e sc = Ret (e', o) /\ ering_inv e' /\
       0 <= Ring.wt_n o <= Loop.zlen L /\
       Ring.wt_recv o = Loop.ztake (Ring.wt_n o) L /\
       rcontent e' = Loop.zdrop (Ring.wt_n o) L /\
       (of_rerr (Ring.wt_err o) = XNil -> Ring.wt_n o = Loop.zlen L /\ Ring.wt_recv o = L /\ rcontent e' = []) /\
       (L = [] -> of_rerr (Ring.wt_err o) = XEmpty)) /\
  (forall e L, ering_inv e -> rcontent e = L ->
     RBuffered e = Loop.zlen L /\
     RIsEmpty e = match L with [] => true | _ :: _ => false end /\
     (RIsEmpty e = true <-> L = [])) /\
  (forall e, ering_inv e ->
     ering_inv (RReset e) /\ rcontent (RReset e) = [] /\
     ering_inv (RDone e) /\ rcontent (RDone e) = [] /\
     ering_inv (RDone (RReset e)) /\ rcontent (RDone (RReset e)) = []) /\
  (ering_inv None /\ rcontent None = []) /\
  (forall (L B : list Z) n, 0 <= n ->
     Loop.ztake n (L ++ B)%list = (Loop.ztake n L ++ Loop.ztake (n - Loop.zlen (Loop.ztake n L)) B)%list).
Proof. exact inbound_buffer_link. Qed.
Print Assumptions C01_inbound_buffer_link.

From GV Require Proofs.LoopDataExamples.
(* Non-vacuity: a concrete input (back-pressure, leftover, partial consumption, a datagram) has a history,
   the checker accepts it, and it is not trivially true (dropping one delivery marker makes it reject). *)
Example C01_nonvacuous :
  (exists t, run_history LoopDataExamples.ex_input = Some t /\ List.length t = 72%nat) /\
  inbound_ok LoopDataExamples.ex_history = true /\
  inbound_ok (LoopDataExamples.drop_first (LoopDataExamples.is_out "g" "del") LoopDataExamples.ex_history) = false.
Proof.
  split; [exact LoopDataExamples.ex_runs|]. split; [exact (proj1 LoopDataExamples.ex_checkers)|exact LoopDataExamples.ex_inbound_rejects].
Qed.
Print Assumptions C01_nonvacuous.
