//go:build verif

//verif:target pkg/vsys/vsys.go

// Package vsys stands in for golang.org/x/sys/unix in
// pkg/netpoll/syscall_epoll_generic_linux.go (poll_opt build), whose
// epollWait issues SYS_EPOLL_WAIT through Syscall6 / RawSyscall6 directly.
// The epoll_wait system call goes through a hook; everything else is passed
// to x/sys/unix unchanged.
package vsys

import (
	"sync/atomic"
	"unsafe"

	"golang.org/x/sys/unix"
)

type Errno = unix.Errno

const (
	SYS_EPOLL_WAIT  = unix.SYS_EPOLL_WAIT
	SYS_EPOLL_PWAIT = unix.SYS_EPOLL_PWAIT
	SYS_EPOLL_CTL   = unix.SYS_EPOLL_CTL
	EINTR           = unix.EINTR
	EAGAIN          = unix.EAGAIN
	EINVAL          = unix.EINVAL
	ENOENT          = unix.ENOENT
)

// WaitHook intercepts epoll_wait: events points to max epoll_event records;
// real performs the system call with the given timeout.
type WaitHook func(epfd int, events unsafe.Pointer, max int, msec int, real func(msec int) (int, Errno)) (int, Errno)

type box struct{ h WaitHook }

var hook atomic.Value

func SetWaitHook(h WaitHook) { hook.Store(box{h}) }

func get() WaitHook {
	if v := hook.Load(); v != nil {
		return v.(box).h
	}
	return nil
}

func wait(raw bool, trap, a1, a2, a3, a4, a5, a6 uintptr) (r1, r2 uintptr, err Errno) {
	h := get()
	real := func(msec int) (int, Errno) {
		var n uintptr
		var e Errno
		if msec == 0 {
			n, _, e = unix.RawSyscall6(trap, a1, a2, a3, 0, a5, a6)
		} else {
			n, _, e = unix.Syscall6(trap, a1, a2, a3, uintptr(msec), a5, a6)
		}
		return int(n), e
	}
	if h == nil {
		if raw {
			return unix.RawSyscall6(trap, a1, a2, a3, a4, a5, a6)
		}
		return unix.Syscall6(trap, a1, a2, a3, a4, a5, a6)
	}
	n, e := h(int(a1), unsafe.Pointer(a2), int(a3), int(int32(a4)), real)
	return uintptr(n), 0, e
}

func Syscall6(trap, a1, a2, a3, a4, a5, a6 uintptr) (r1, r2 uintptr, err Errno) {
	if trap == unix.SYS_EPOLL_WAIT {
		return wait(false, trap, a1, a2, a3, a4, a5, a6)
	}
	return unix.Syscall6(trap, a1, a2, a3, a4, a5, a6)
}

func RawSyscall6(trap, a1, a2, a3, a4, a5, a6 uintptr) (r1, r2 uintptr, err Errno) {
	if trap == unix.SYS_EPOLL_WAIT {
		return wait(true, trap, a1, a2, a3, a4, a5, a6)
	}
	return unix.RawSyscall6(trap, a1, a2, a3, a4, a5, a6)
}

func Syscall(trap, a1, a2, a3 uintptr) (r1, r2 uintptr, err Errno) {
	return unix.Syscall(trap, a1, a2, a3)
}

func RawSyscall(trap, a1, a2, a3 uintptr) (r1, r2 uintptr, err Errno) {
	return unix.RawSyscall(trap, a1, a2, a3)
}
