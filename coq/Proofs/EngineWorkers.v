(* Registrations: every worker-pool goroutine of Register / Enroll delivers at most
   one RegisteredResult, exactly the ones recorded in the history, and has delivered
   one exactly when it is done.  What a worker that is still waiting waits for. *)
From GV Require Import Lib.Trace Lib.Interleave Model.Engine Proofs.EngineBase Proofs.EngineInv Proofs.EngineHist.
From Coq Require Import Lia List Bool Arith ZArith.
Import ListNotations.
Open Scope list_scope.
Open Scope Z_scope.

Definition worker_ok (h : list evt) (k : nat) (w : worker) : Prop :=
  count_results k h = w_res w /\ (w_res w = 0 \/ w_res w = 1) /\ (w_res w = 1 <-> w_pc w = WDone).

Definition Inv_w (s : estate) : Prop :=
  (forall k w, nth_error (e_workers s) k = Some w -> worker_ok (e_hist s) k w) /\
  (forall k, nth_error (e_workers s) k = None -> count_results k (e_hist s) = 0).

Lemma count_results_rev : forall w evs, count_results w (rev evs) = count_results w evs.
Proof.
  induction evs as [|[t k] r IH]; cbn [rev]; [reflexivity|].
  rewrite count_results_app, IH. cbn [count_results]. destruct t; try lia. destruct k; try lia.
Qed.

Lemma count_results_none : forall w evs,
  Forall (fun e : evt => match e with (TW k, KResult _) => k <> w | _ => True end) evs -> count_results w evs = 0.
Proof.
  intros w evs H. induction H as [|[t k] r Hk _ IH]; cbn; [reflexivity|].
  destruct t; auto. destruct k; auto. destruct (Nat.eqb_spec k0 w); [contradiction|]. lia.
Qed.

(* steps of a thread other than worker k: the workers list is only extended, or its
   w_opened flags change; none of its events is a result of worker k *)
Definition workers_ext (ws ws' : list worker) : Prop :=
  (forall k w, nth_error ws k = Some w -> exists w', nth_error ws' k = Some w' /\ w_pc w' = w_pc w /\ w_res w' = w_res w) /\
  (forall k w', nth_error ws k = None -> nth_error ws' k = Some w' -> w_res w' = 0 /\ w_pc w' <> WDone).

Lemma workers_ext_refl : forall ws, workers_ext ws ws.
Proof. intros ws. split; [eauto|]. intros k w' H1 H2. congruence. Qed.

Lemma workers_ext_app : forall ws w, w_res w = 0 -> w_pc w <> WDone -> workers_ext ws (ws ++ [w]).
Proof.
  intros ws w Hr Hp. split.
  - intros k w0 Hk. exists w0. rewrite nth_error_app1; [auto|]. apply nth_error_Some. congruence.
  - intros k w' Hn Hs. apply nth_error_None in Hn.
    rewrite nth_error_app2 in Hs by lia. destruct (k - List.length ws)%nat as [|m]; cbn in Hs.
    + injection Hs as <-. auto.
    + destruct m; discriminate.
Qed.

Lemma workers_ext_signal : forall ws k, workers_ext ws (upd k (fun w => mkWk (w_pc w) (w_loop w) true (w_res w)) ws).
Proof.
  intros ws k. split.
  - intros j w Hj. rewrite nth_error_upd. destruct (Nat.eqb k j); rewrite Hj; cbn; eauto.
  - intros j w' Hn Hs. rewrite nth_error_upd in Hs. destruct (Nat.eqb k j); rewrite Hn in Hs; discriminate.
Qed.

Lemma Inv_w_ext : forall s s' evs,
  Inv_w s -> workers_ext (e_workers s) (e_workers s') -> e_hist s' = e_hist s ->
  Forall (fun e : evt => match e with (TW _, KResult _) => False | _ => True end) evs ->
  Inv_w (push evs s').
Proof.
  intros s s' evs [H1 H2] [E1 E2] EH He.
  assert (Hz : forall k, count_results k evs = 0).
  { intros k. apply count_results_none. eapply Forall_impl; [|exact He]. intros [t kd]; destruct t; auto. destruct kd; auto; contradiction. }
  assert (Hh : forall k, count_results k (e_hist (push evs s')) = count_results k (e_hist s)).
  { intros k. rewrite hist_push, EH, count_results_app, count_results_rev, Hz. lia. }
  split; cbn [push set_hist e_workers].
  - intros k w' Hk. unfold worker_ok. rewrite Hh.
    destruct (nth_error (e_workers s) k) as [w|] eqn:Ew.
    + destruct (E1 k w Ew) as [w'' [Hk' [Ep Er]]]. rewrite Hk in Hk'. injection Hk' as <-.
      destruct (H1 k w Ew) as [A [B C]]. rewrite Ep, Er. auto.
    + destruct (E2 k w' Ew Hk) as [Er Ep]. rewrite (H2 k Ew), Er. splits; auto. split; [lia|congruence].
  - intros k Hk. rewrite Hh. apply H2.
    destruct (nth_error (e_workers s) k) as [w|] eqn:Ew; [|reflexivity].
    destruct (E1 k w Ew) as [w' [Hk' _]]. congruence.
Qed.

Ltac wframe := first [apply workers_ext_refl | apply workers_ext_signal | (apply workers_ext_app; [reflexivity|discriminate])].

Lemma Inv_w_init : forall cfg nu, Inv_w (einit cfg nu).
Proof. intros. split; cbn; intros k; [destruct k; discriminate|reflexivity]. Qed.

Lemma Inv_w_worker : forall s k w w' evs s',
  Inv_w s -> nth_error (e_workers s) k = Some w ->
  e_workers s' = upd k (fun _ => w') (e_workers s) -> e_hist s' = e_hist s ->
  ((evs = [] /\ w_res w' = w_res w /\ w_pc w <> WDone /\ w_pc w' <> WDone) \/
   (exists b, evs = [(TW k, KResult b)] /\ w_pc w <> WDone /\ w_pc w' = WDone /\ w_res w' = w_res w + 1)) ->
  Inv_w (push evs s').
Proof.
  intros s k w w' evs s' [H1 H2] Ew EW EH Hc.
  destruct (H1 k w Ew) as [A [B C]].
  assert (Hcnt : forall j, count_results j (e_hist (push evs s')) =
                 count_results j evs + count_results j (e_hist s)).
  { intros j. rewrite hist_push, EH, count_results_app, count_results_rev. reflexivity. }
  split; cbn [push set_hist e_workers]; rewrite EW.
  - intros j wj Hj. unfold worker_ok. rewrite Hcnt. rewrite nth_error_upd in Hj.
    destruct (Nat.eqb_spec k j) as [Ekj|Hkj].
    + subst j. rewrite Ew in Hj. cbn in Hj. injection Hj as <-.
      destruct Hc as [[-> [Er [Hp Hp']]]|[b [-> [Hp [Hp' Er]]]]]; cbn [count_results].
      * rewrite Er, A. splits; auto. split; [intros X; apply C in X; congruence|congruence].
      * rewrite Nat.eqb_refl, Er, A.
        assert (w_res w = 0) as -> by (destruct B as [B|B]; [exact B|apply C in B; congruence]).
        splits; auto. split; auto.
    + destruct (H1 j wj Hj) as [A' [B' C']].
      destruct Hc as [[-> _]|[b [-> _]]]; cbn [count_results].
      * rewrite A'. splits; auto.
      * destruct (Nat.eqb_spec k j); [congruence|]. rewrite A'. splits; auto.
  - intros j Hj. rewrite Hcnt. rewrite nth_error_upd in Hj. destruct (Nat.eqb_spec k j) as [Ekj|Hkj].
    + subst j. rewrite Ew in Hj. discriminate.
    + rewrite (H2 j Hj). destruct Hc as [[-> _]|[b [-> _]]]; cbn [count_results]; [reflexivity|].
      destruct (Nat.eqb_spec k j); [congruence|reflexivity].
Qed.

Lemma Inv_w_step : forall s t c s' evs, Inv_pc s -> Inv_w s -> estep_opt s t c = Some (s', evs) -> Inv_w (push evs s').
Proof.
  intros s t c s' evs HI HW H. destruct t; cbn in H.
  - (* Run caller *)
    unfold rstep in H. destruct (e_r s); destruct c; try discriminate H; cbv beta iota in H; step_cases H.
    all: eapply Inv_w_ext; [exact HW|frame_fin; wframe|frame_fin|repeat constructor].
  - pose proof (lstep_events _ _ _ _ _ H) as He. unfold lstep in H. destruct (get_loop s i); [|discriminate]. step_cases H.
    all: (eapply Inv_w_ext; [exact HW|frame_fin; wframe|frame_fin|]).
    all: eapply Forall_impl; [|exact He]; intros [tt kk] [_ Hk]; cbn in Hk; destruct tt; auto; destruct kk; auto; discriminate.
  - pose proof (astep_events _ _ _ _ (ip_ing_conns _ HI) H) as He. unfold astep in H. step_cases H.
    all: try subst.
    all: eapply Inv_w_ext; [exact HW|frame_fin; wframe|frame_fin|constructor].
  - pose proof (tstep_events _ _ _ _ H) as He. unfold tstep in H. step_cases H.
    all: eapply Inv_w_ext; [exact HW|frame_fin; wframe|frame_fin|repeat constructor].
  - pose proof (ustep_events _ _ _ _ _ H) as He. unfold ustep in H. destruct (get_user s g); [|discriminate].
    destruct u as [|ex pk|op].
    + destruct c; try discriminate H. unfold do_call in H. destruct c; step_cases H.
      all: eapply Inv_w_ext; [exact HW|unfold new_worker; frame_fin; wframe|frame_fin|repeat constructor].
    + destruct c; try discriminate H; step_cases H.
      all: eapply Inv_w_ext; [exact HW|frame_fin; wframe|frame_fin|repeat constructor].
    + step_cases H. eapply Inv_w_ext; [exact HW|frame_fin; wframe|frame_fin|repeat constructor].
  - (* the worker itself *)
    unfold wstep in H.
    destruct (nth_error (e_workers s) k) as [w|] eqn:Ew; [|discriminate H].
    step_cases H.
    all: eapply Inv_w_worker; [exact HW|exact Ew|frame_fin|frame_fin|]; cbn [w_pc w_res].
    all: first [left; splits; [reflexivity|reflexivity|congruence|congruence]
               |right; eexists; splits; [reflexivity|congruence|reflexivity|reflexivity]].
Qed.

Theorem inv_w_reachable : forall s, ereachable s -> Inv_w s.
Proof.
  intros s Hr. assert (Inv_pc s /\ Inv_w s) as [_ H]; [|exact H].
  revert s Hr. apply engine_invariant.
  - intros. split; [apply Inv_pc_init|apply Inv_w_init].
  - intros s t c s' evs Hr [HP HW] H. split.
    + apply (inv_pc_reachable _ (ereachable_step _ _ _ _ _ Hr H)).
    + eapply Inv_w_step; eauto.
Qed.
