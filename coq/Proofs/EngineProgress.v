(* Shutdown makes progress: the engine's own steps decrease a measure, any other
   step increases it by at most one, and as long as Run has not returned after a
   request some engine step is enabled. *)
From GV Require Import Lib.Trace Lib.Interleave Model.Engine Proofs.EngineBase Proofs.EngineInv Proofs.EngineHist.
From Coq Require Import Lia List Bool Arith.
Import ListNotations.
Open Scope list_scope.

Lemma measure_eq : forall s,
  measure s = (r_measure s + lsum loop_measure (e_loops s) + loop_measure (e_ing s) + t_measure s)%nat.
Proof. reflexivity. Qed.

Lemma lsum_map_ext : forall f g l, Forall (fun x => f (g x) = f x) l -> lsum f (map g l) = lsum f l.
Proof.
  unfold lsum. intros f g l H. induction H as [|x r Hx _ IH]; cbn; [reflexivity|]. rewrite Hx, IH. reflexivity.
Qed.

Lemma lsum_upd_same : forall f g l n, (forall x, f (g x) = f x) -> lsum f (upd n g l) = lsum f l.
Proof.
  intros f g l n H. destruct (nth_error l n) as [x|] eqn:E.
  - pose proof (lsum_upd f g l n x E). rewrite H in H0. lia.
  - rewrite upd_none; auto.
Qed.

Lemma loop_measure_enq : forall l t, loop_measure (enq_loop l t) = loop_measure l.
Proof. reflexivity. Qed.

Lemma loop_measure_pclosed : forall l b, loop_measure (l_set_pclosed l b) = loop_measure l.
Proof. reflexivity. Qed.

(* measure of the state after replacing loop i *)
Lemma measure_put : forall s i l l',
  get_loop s i = Some l ->
  (lsum loop_measure (upd i (fun _ => l') (e_loops s)) + loop_measure l = lsum loop_measure (e_loops s) + loop_measure l')%nat.
Proof. intros s i l l' H. unfold get_loop in H. exact (lsum_upd loop_measure (fun _ => l') _ _ _ H). Qed.

(* ------------------------------------------------------------------ *)
(* the engine's own steps decrease the measure *)

Lemma rstep_decreases : forall s s' evs, Inv_pc s -> rstep s CNone = Some (s', evs) ->
  (measure s' < measure s)%nat.
Proof.
  intros s s' evs HI H. unfold rstep in H.
  destruct (e_r s) eqn:Er; try discriminate H; cbv beta iota in H; step_cases H.
  all: rewrite !measure_eq; unfold r_measure, t_measure; rewrite Er.
  - (* OnBoot returned Shutdown *) cbn. lia.
  - (* start *)
    pose proof (unstarted_at _ HI) as Hu. rewrite Er in Hu. specialize (Hu eq_refl).
    destruct (ip_unstarted _ HI Hu) as [Hl [Hi [Ht _]]].
    pose proof (ip_quiet _ HI) as Hq. pose proof (ip_ing_conns _ HI) as Hic.
    assert (HL : lsum loop_measure (map (fun l => l_set_pc l LPoll) (e_loops s)) = lsum loop_measure (e_loops s)).
    { apply lsum_map_ext. rewrite Forall_forall in *. intros l Hin. specialize (Hl l Hin). specialize (Hq l Hin).
      unfold loop_measure; cbn. rewrite Hl. rewrite Hq; auto. }
    assert (HG : loop_measure (l_set_pc (e_ing s) LPoll) = loop_measure (e_ing s)).
    { unfold loop_measure; cbn. rewrite Hi, Hic. reflexivity. }
    destruct (c_ticker (e_cfg s)); destruct (c_reactor (e_cfg s)); cbn [e_r e_loops e_ing e_t set_r set_started set_t set_ing set_loops];
      rewrite ?map_length, ?HL, ?HG, ?Ht; lia.
  - destruct (c_client (e_cfg s)); cbn; lia.
  - cbn. lia.
  - cbn. lia.
  - (* notify loop k *)
    apply Nat.ltb_lt in E. cbn [e_r e_loops e_ing e_t set_r trigger set_loops].
    rewrite upd_length, lsum_upd_same by (intros; apply loop_measure_enq). lia.
  - (* notify main reactor *)
    destruct (c_reactor (e_cfg s)); cbn [e_r e_loops e_ing e_t set_r trigger_ing set_ing]; rewrite ?loop_measure_enq; lia.
  - cbn. lia.
  - cbn [e_r e_loops e_ing e_t set_r set_ing set_loops].
    rewrite lsum_map_eq by (intros; apply loop_measure_pclosed). rewrite loop_measure_pclosed. lia.
  - cbn. lia.
  - cbn. lia.
Qed.

Lemma loop_common_decreases : forall t l l' evs off, loop_common t l CNone = Some (l', evs, off) ->
  (loop_measure l' < loop_measure l)%nat.
Proof.
  intros t l l' evs off H. unfold loop_common in H. step_cases H; unfold loop_measure; cbn;
    repeat match goal with E : l_pc _ = _ |- _ => rewrite E end;
    repeat match goal with E : l_conns _ = _ |- _ => rewrite E end; cbn; lia.
Qed.

Lemma measure_cancel_if : forall b s, measure (cancel_if b s) = measure s.
Proof. intros [|] s; reflexivity. Qed.

Lemma lstep_decreases : forall i s c s' evs, lstep i s c = Some (s', evs) -> is_progress s (TL i) c = true ->
  (measure s' < measure s)%nat.
Proof.
  intros i s c s' evs H Hp. unfold lstep in H. cbn in Hp.
  destruct (get_loop s i) as [l|] eqn:Hl; [|discriminate H].
  destruct c; try discriminate Hp.
  - (* internal step *)
    destruct (l_pc l) eqn:Epc; cbv beta iota in H.
    all: destruct (loop_common (TL i) l CNone) as [[[l' e'] off]|] eqn:E; [|discriminate H].
    all: injection H as <- <-.
    all: apply loop_common_decreases in E.
    all: pose proof (measure_put s i l l' Hl) as Hm.
    all: destruct off; rewrite !measure_eq; unfold r_measure, t_measure; cbn [e_r e_loops e_ing e_t set_cancel set_loops];
         rewrite upd_length; lia.
  - (* the exit task *)
    destruct (nth_error (l_q l) k) as [tk|] eqn:En; [|discriminate Hp]. destruct tk; try discriminate Hp.
    destruct (l_pc l) eqn:Epc; cbv beta iota in H; try rewrite En in H.
    all: try (unfold loop_common in H; rewrite Epc in H; discriminate H).
    injection H as <- <-.
    pose proof (measure_put s i l (l_set_pc (l_set_q l (remove_nth k (l_q l))) LClosing) Hl) as Hm.
    rewrite !measure_eq; unfold r_measure, t_measure; cbn [e_r e_loops e_ing e_t set_loops]. rewrite upd_length.
    unfold loop_measure in Hm at 1 3. cbn in Hm. rewrite Epc in Hm. lia.
Qed.

Lemma astep_decreases : forall s c s' evs, astep s c = Some (s', evs) -> is_progress s TA c = true ->
  (measure s' < measure s)%nat.
Proof.
  intros s c s' evs H Hp. unfold astep in H. cbn in Hp. destruct c; try discriminate Hp.
  - destruct (l_pc (e_ing s)) eqn:Epc; cbv beta iota in H.
    all: destruct (loop_common TA (e_ing s) CNone) as [[[l' e'] off]|] eqn:E; [|discriminate H].
    all: injection H as <- <-.
    all: apply loop_common_decreases in E.
    all: destruct off; rewrite !measure_eq; unfold r_measure, t_measure; cbn [e_r e_loops e_ing e_t set_cancel set_ing]; lia.
  - destruct (l_pc (e_ing s)) eqn:Epc; cbv beta iota in H.
    all: try (unfold loop_common in H; rewrite Epc in H; discriminate H).
    destruct (nth_error (l_q (e_ing s)) k) as [tk|] eqn:En; [|discriminate H]. destruct tk; try discriminate H.
    injection H as <- <-.
    rewrite !measure_eq; unfold r_measure, t_measure; cbn [e_r e_loops e_ing e_t set_ing].
    unfold loop_measure. cbn. rewrite Epc. lia.
Qed.

Lemma tstep_decreases : forall s s' evs, tstep s CNone = Some (s', evs) -> (measure s' < measure s)%nat.
Proof.
  intros s s' evs H. unfold tstep in H. step_cases H.
  rewrite !measure_eq; unfold r_measure, t_measure; cbn [e_r e_loops e_ing e_t set_t].
  match goal with E : e_t s = TRun |- _ => rewrite E end. lia.
Qed.

Theorem progress_decreases : forall s t c s' evs, Inv_pc s ->
  estep_opt s t c = Some (s', evs) -> is_progress s t c = true -> (measure (push evs s') < measure s)%nat.
Proof.
  intros s t c s' evs HI H Hp.
  change (measure (push evs s')) with (measure s').
  destruct t; cbn in H.
  - destruct c; try discriminate Hp. eapply rstep_decreases; eauto.
  - eapply lstep_decreases; eauto.
  - eapply astep_decreases; eauto.
  - destruct c; try discriminate Hp. eapply tstep_decreases; eauto.
  - discriminate Hp.
  - discriminate Hp.
Qed.
