import os, sys
sys.path.insert(0, os.path.dirname(os.path.dirname(os.path.abspath(__file__))))
from loopfam import drv, startfault, RULE, TRUSTED, ASSUME, GENS

PROP = dict(gens=GENS, drivers=[drv("stream", n=60), drv("fault", n=60), drv("client", n=40), drv("multi", n=30), drv("stale", n=20), drv("fault", n=40, tags="verif poll_opt"), startfault(80), startfault(56, tags="verif poll_opt")], sites=['^loop-stuck$', '^fd-', '^engine-start$'], rule=RULE, trusted=TRUSTED, assumptions=ASSUME)
