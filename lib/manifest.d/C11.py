CHECK = dict(
    engine="llist", design_ref="4 / C11, Appendix A.2",
    text="Full proof. linked_list_buffer.go is transcribed method by method into an executable Gallina model "
         "(node list + size/bytes counters, pop/pushFront/pushBack, Read with re-slice-and-pushFront, Peek/PeekWithBytes "
         "with the MaxInt32 convention and ErrShortBuffer guard, Discard, ReadFrom over a reader script with 512-byte "
         "nodes, WriteTo over a writer script, Append aliasing the caller's memory via symbolic bytes). Proved for every "
         "finite operation list, all sizes and all contract-respecting reader/writer scripts: refinement to a FIFO byte "
         "list (content = concat segs) on symbolic bytes and on byte values with caller memory; Read/Peek/Pop/Discard/"
         "WriteTo/push spelled out on the queue; bytes = sum of lengths, size = number of nodes; IsEmpty <-> Buffered = 0 "
         "(no empty node); caller writes to buffers passed to PushBack/PushFront never change any later answer "
         "(simulation); ReadFrom stores and counts every byte the reader returned incl. with EOF/error; no panic. "
         "Tied to /repo by differential execution of the real linkedlist.Buffer against the extracted model after every "
         "operation (return values, Peek(-1) node contents, Buffered/Len/IsEmpty) plus a reference-FIFO oracle.",
    note="Three defects of the pinned tree were reproduced as _refuted witnesses, replayed and fixed in /repo "
         "(ReadFrom dropping bytes returned with EOF/error, empty node after a (0,nil) read, WriteTo losing the rest of "
         "a node on writer error); replays are kept in corpus/C11. Assumes pool memory is referenced by the buffer "
         "alone (C12) and the head/tail/next pointer structure behaves as a list (covered by the differential runs only). "
         "PeekWithBytes: its ErrShortBuffer guard compared n with the list alone; found and fixed under C10 (/repo 3230e49), "
         "model, spec and proof follow the fixed code (the given slices count towards n).",
    technique="Coq proof (refinement to a FIFO byte list, induction over operation lists, store simulation) + differential traces",
)
ENGINE = dict(name="llist", path="coq/Model/LList.v", serves_properties=["C11"],
              kind_free_text="Gallina model of pkg/buffer/linkedlist (symbolic bytes for Append aliasing, reader/writer scripts) + FIFO spec Spec/LListSpec.v + drv-llist")
