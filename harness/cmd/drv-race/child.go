package main

import (
	"context"
	"encoding/json"
	"fmt"
	"io"
	"net"
	"os"
	"path/filepath"
	"runtime"
	"strconv"
	"sync"
	"sync/atomic"
	"time"

	gnet "github.com/panjf2000/gnet/v2"

	"verifharness/tr"
)

func goid() int64 {
	var b [64]byte
	n := runtime.Stack(b[:], false)
	// "goroutine 123 [running]:"
	s := string(b[:n])
	const p = "goroutine "
	i := len(p)
	j := i
	for j < len(s) && s[j] >= '0' && s[j] <= '9' {
		j++
	}
	v, _ := strconv.ParseInt(s[i:j], 10, 64)
	return v
}

func freePort(network string) int {
	if network == "udp" {
		pc, err := net.ListenPacket("udp", "127.0.0.1:0")
		if err != nil {
			return 0
		}
		defer pc.Close()
		return pc.LocalAddr().(*net.UDPAddr).Port
	}
	l, err := net.Listen("tcp", "127.0.0.1:0")
	if err != nil {
		return 0
	}
	defer l.Close()
	return l.Addr().(*net.TCPAddr).Port
}

func lbOf(i int) gnet.LoadBalancing {
	switch i {
	case 1:
		return gnet.LeastConnections
	case 2:
		return gnet.SourceAddrHash
	}
	return gnet.RoundRobin
}

type addrs struct {
	unixPath string
	tcp, udp string
	list     []string
}

func mkAddrs(dir string) addrs {
	a := addrs{unixPath: filepath.Join(dir, "s.sock")}
	a.tcp = fmt.Sprintf("127.0.0.1:%d", freePort("tcp"))
	a.udp = fmt.Sprintf("127.0.0.1:%d", freePort("udp"))
	a.list = []string{"unix://" + a.unixPath, "tcp://" + a.tcp, "udp://" + a.udp}
	return a
}

func options(c cell, ticker bool) []gnet.Option {
	return []gnet.Option{gnet.WithMulticore(true), gnet.WithNumEventLoop(c.Loops), gnet.WithReusePort(c.ReusePort),
		gnet.WithEdgeTriggeredIO(c.ET), gnet.WithLoadBalancing(lbOf(c.LB)), gnet.WithTicker(ticker),
		gnet.WithReuseAddr(true)}
}

// ---------------------------------------------------------------- monitor (confine)

// monitor assigns a global sequence number to every callback bracket and keeps
// its own verdict (the direct oracle); it is only used in the confinement
// scenarios, never under the race detector's storm.
type monitor struct {
	mu      sync.Mutex
	loops   map[any]int
	conns   map[any]int
	owner   map[int]int64
	active  map[int]map[int64]int
	connLp  map[int]int
	events  []event
	foreign int
	overlap int
	migr    int
	counts  map[string]int
	detail  string
	maxEv   int
}

func newMonitor() *monitor {
	return &monitor{loops: map[any]int{}, conns: map[any]int{}, owner: map[int]int64{}, active: map[int]map[int64]int{},
		connLp: map[int]int{}, counts: map[string]int{}, maxEv: 6000}
}

type token struct {
	loop, conn int
	gid        int64
	ok         bool
}

func (m *monitor) begin(kind string, loopKey, connKey any) token {
	g := goid()
	m.mu.Lock()
	defer m.mu.Unlock()
	m.counts[kind]++
	if len(m.events) >= m.maxEv {
		return token{}
	}
	lp, ok := m.loops[loopKey]
	if !ok {
		lp = len(m.loops)
		m.loops[loopKey] = lp
		m.counts["loops"] = len(m.loops)
	}
	cn := -1
	if connKey != nil {
		if v, ok := m.conns[connKey]; ok {
			cn = v
		} else {
			cn = len(m.conns)
			m.conns[connKey] = cn
		}
	}
	if o, ok := m.owner[lp]; !ok {
		m.owner[lp] = g
	} else if o != g {
		m.foreign++
		if m.detail == "" {
			m.detail = fmt.Sprintf("%s of loop %d on goroutine %d, loop goroutine is %d", kind, lp, g, o)
		}
	}
	act := m.active[lp]
	if act == nil {
		act = map[int64]int{}
		m.active[lp] = act
	}
	nested := false
	for og, d := range act {
		if d > 0 && og != g {
			m.overlap++
			if m.detail == "" {
				m.detail = fmt.Sprintf("%s of loop %d started on goroutine %d while goroutine %d is inside a callback of that loop", kind, lp, g, og)
			}
		}
		if d > 0 && og == g {
			nested = true
		}
	}
	if nested {
		m.counts["nested"]++
	}
	for olp, oact := range m.active {
		if olp != lp {
			for _, d := range oact {
				if d > 0 {
					m.counts["cross-loop-overlap"]++
				}
			}
		}
	}
	act[g]++
	if cn >= 0 {
		if l0, ok := m.connLp[cn]; !ok {
			m.connLp[cn] = lp
		} else if l0 != lp {
			m.migr++
			if m.detail == "" {
				m.detail = fmt.Sprintf("connection %d served by loop %d and loop %d", cn, l0, lp)
			}
		}
	}
	m.events = append(m.events, event{"b", lp, g, cn})
	return token{lp, cn, g, true}
}

func (m *monitor) end(t token) {
	if !t.ok {
		return
	}
	m.mu.Lock()
	defer m.mu.Unlock()
	if m.active[t.loop][t.gid] > 0 {
		m.active[t.loop][t.gid]--
	}
	m.events = append(m.events, event{"e", t.loop, t.gid, t.conn})
}

// ---------------------------------------------------------------- child entry

func childMain(cfg, resPath string) {
	var c cell
	if err := json.Unmarshal([]byte(cfg), &c); err != nil {
		fmt.Fprintln(os.Stderr, "bad cell:", err)
		os.Exit(2)
	}
	var r childResult
	func() {
		defer func() {
			if p := recover(); p != nil {
				r.Err = fmt.Sprint("panic: ", p)
			}
		}()
		switch c.Scenario {
		case "confine":
			r = confine(c)
		case "udpcb":
			r = udpCallback(c)
		case "storm":
			r = storm(c)
		case "ccstart":
			r = ccStart(c)
		default:
			r.Err = "unknown scenario " + c.Scenario
		}
	}()
	b, _ := json.Marshal(r)
	_ = os.WriteFile(resPath, b, 0o644)
}

// ---------------------------------------------------------------- confine

type confSrv struct {
	gnet.BuiltinEventEngine
	m     *monitor
	eng   atomic.Value
	conns sync.Map // int -> gnet.Conn (stream connections)
	nconn atomic.Int64
	boot  chan struct{}
}

func (s *confSrv) OnBoot(eng gnet.Engine) gnet.Action {
	s.eng.Store(eng)
	close(s.boot)
	return gnet.None
}

func streamKey(c gnet.Conn) any {
	if c == nil {
		return nil
	}
	if _, isUDP := c.LocalAddr().(*net.UDPAddr); isUDP {
		return nil // a server-side datagram Conn lives for one OnTraffic only
	}
	return c
}

func (s *confSrv) OnOpen(c gnet.Conn) ([]byte, gnet.Action) {
	t := s.m.begin("open", c.EventLoop(), c)
	defer s.m.end(t)
	s.conns.Store(int(s.nconn.Add(1)), c)
	return nil, gnet.None
}

func (s *confSrv) OnClose(c gnet.Conn, _ error) gnet.Action {
	t := s.m.begin("close", c.EventLoop(), c)
	defer s.m.end(t)
	return gnet.None
}

func (s *confSrv) OnTraffic(c gnet.Conn) gnet.Action {
	t := s.m.begin("traffic", c.EventLoop(), streamKey(c))
	defer s.m.end(t)
	buf, _ := c.Next(-1)
	if len(buf) > 0 {
		out := append([]byte(nil), buf...)
		if out[0] == 'X' { // the client asks to be closed from inside the handler: nested OnClose
			_ = c.EventLoop().Close(c)
			return gnet.None
		}
		_, _ = c.Write(out)
	}
	return gnet.None
}

func (s *confSrv) OnTick() (time.Duration, gnet.Action) { return 5 * time.Millisecond, gnet.None }

func echoClient(network, addr string, rnd *tr.Rand, rounds int, closeByServer bool, wg *sync.WaitGroup) {
	defer wg.Done()
	c, err := net.DialTimeout(network, addr, 2*time.Second)
	if err != nil {
		return
	}
	defer c.Close()
	buf := make([]byte, 4096)
	for i := 0; i < rounds; i++ {
		msg := append([]byte{'m'}, rnd.Bytes(1+rnd.Intn(200))...)
		if _, err := c.Write(msg); err != nil {
			return
		}
		_ = c.SetReadDeadline(time.Now().Add(2 * time.Second))
		got := 0
		for got < len(msg) {
			n, err := c.Read(buf)
			if err != nil {
				return
			}
			got += n
		}
	}
	if closeByServer {
		_, _ = c.Write([]byte("X"))
		_ = c.SetReadDeadline(time.Now().Add(2 * time.Second))
		_, _ = io.Copy(io.Discard, c)
	}
}

func confine(c cell) childResult {
	m := newMonitor()
	s := &confSrv{m: m, boot: make(chan struct{})}
	a := mkAddrs(c.Dir)
	runErr := make(chan error, 1)
	go func() { runErr <- gnet.Rotate(s, a.list, options(c, true)...) }()
	select {
	case <-s.boot:
	case err := <-runErr:
		return childResult{Err: fmt.Sprint("engine did not start: ", err)}
	case <-time.After(10 * time.Second):
		return childResult{Err: "engine did not boot"}
	}
	time.Sleep(50 * time.Millisecond)
	rnd := tr.NewRand(c.Seed)
	var wg sync.WaitGroup
	for i := 0; i < 10; i++ {
		wg.Add(1)
		r := tr.NewRand(rnd.U64())
		if i%2 == 0 {
			go echoClient("tcp", a.tcp, r, 3+r.Intn(3), i%4 == 0, &wg)
		} else {
			go echoClient("unix", a.unixPath, r, 3+r.Intn(3), i%3 == 0, &wg)
		}
	}
	// datagrams
	wg.Add(1)
	go func() {
		defer wg.Done()
		uc, err := net.Dial("udp", a.udp)
		if err != nil {
			return
		}
		defer uc.Close()
		b := make([]byte, 2048)
		for i := 0; i < 6; i++ {
			_, _ = uc.Write([]byte("mdgram"))
			_ = uc.SetReadDeadline(time.Now().Add(300 * time.Millisecond))
			_, _ = uc.Read(b)
		}
	}()
	// user goroutines using the asynchronous API: their callbacks must come back on the loop
	stop := make(chan struct{})
	var uw sync.WaitGroup
	for u := 0; u < 3; u++ {
		uw.Add(1)
		r := tr.NewRand(rnd.U64())
		go func() {
			defer uw.Done()
			for k := 0; ; k++ {
				select {
				case <-stop:
					return
				default:
				}
				var pick gnet.Conn
				n := int(s.nconn.Load())
				if n > 0 {
					if v, ok := s.conns.Load(1 + r.Intn(n)); ok {
						pick = v.(gnet.Conn)
					}
				}
				if pick == nil {
					time.Sleep(time.Millisecond)
					continue
				}
				el := pick.EventLoop()
				cb := func(kind string) gnet.AsyncCallback {
					return func(cc gnet.Conn, _ error) error {
						var key any = cc
						if cc == nil {
							key = nil
						}
						t := m.begin(kind, el, key)
						m.end(t)
						return nil
					}
				}
				switch r.Intn(5) {
				case 0:
					_ = pick.AsyncWrite([]byte("async"), cb("acb-write"))
				case 1:
					_ = pick.AsyncWritev([][]byte{[]byte("a"), []byte("b")}, cb("acb-writev"))
				case 2:
					_ = pick.Wake(cb("acb-wake"))
				case 3:
					_ = el.Execute(context.Background(), gnet.RunnableFunc(func(context.Context) error {
						t := m.begin("exec", el, nil)
						m.end(t)
						return nil
					}))
				case 4:
					if k%7 == 6 {
						_ = pick.CloseWithCallback(cb("acb-close"))
					}
				}
				time.Sleep(time.Duration(200+r.Intn(800)) * time.Microsecond)
			}
		}()
	}
	wg.Wait()
	time.Sleep(30 * time.Millisecond)
	close(stop)
	uw.Wait()
	time.Sleep(30 * time.Millisecond)
	eng := s.eng.Load().(gnet.Engine)
	ctx, cancel := context.WithTimeout(context.Background(), 10*time.Second)
	_ = eng.Stop(ctx)
	cancel()
	select {
	case <-runErr:
	case <-time.After(10 * time.Second):
		return childResult{Err: "engine did not stop"}
	}
	m.mu.Lock()
	defer m.mu.Unlock()
	return childResult{Events: m.events, Foreign: m.foreign, Overlaps: m.overlap, Migrations: m.migr, Counts: m.counts, Detail: m.detail}
}

// ---------------------------------------------------------------- udpcb

// AsyncWrite on a datagram connection from a goroutine other than the loop: gnet
// sends synchronously and invokes the callback right there.
type udpSrv struct {
	gnet.BuiltinEventEngine
	m    *monitor
	eng  atomic.Value
	boot chan struct{}
}

func (s *udpSrv) OnBoot(eng gnet.Engine) gnet.Action {
	s.eng.Store(eng)
	close(s.boot)
	return gnet.None
}

func (s *udpSrv) OnTraffic(c gnet.Conn) gnet.Action {
	el := c.EventLoop()
	t := s.m.begin("traffic", el, nil)
	_, _ = c.Next(-1)
	// close the loop's own bracket first: the question here is only WHICH goroutine
	// runs the callback, not whether it overlaps the handler that waits for it
	s.m.end(t)
	done := make(chan struct{})
	go func() {
		defer close(done)
		_ = c.AsyncWrite([]byte("reply"), func(gnet.Conn, error) error {
			t := s.m.begin("acb-write-udp", el, nil)
			s.m.end(t)
			return nil
		})
	}()
	<-done // the handler has not returned: c is still valid while the other goroutine uses it
	return gnet.None
}

func udpCallback(c cell) childResult {
	m := newMonitor()
	s := &udpSrv{m: m, boot: make(chan struct{})}
	udp := fmt.Sprintf("127.0.0.1:%d", freePort("udp"))
	runErr := make(chan error, 1)
	go func() { runErr <- gnet.Run(s, "udp://"+udp, gnet.WithMulticore(true), gnet.WithNumEventLoop(c.Loops)) }()
	select {
	case <-s.boot:
	case err := <-runErr:
		return childResult{Err: fmt.Sprint("engine did not start: ", err)}
	case <-time.After(10 * time.Second):
		return childResult{Err: "engine did not boot"}
	}
	time.Sleep(50 * time.Millisecond)
	uc, err := net.Dial("udp", udp)
	if err != nil {
		return childResult{Err: err.Error()}
	}
	b := make([]byte, 2048)
	for i := 0; i < 4; i++ {
		_, _ = uc.Write([]byte("ping"))
		_ = uc.SetReadDeadline(time.Now().Add(500 * time.Millisecond))
		_, _ = uc.Read(b)
	}
	uc.Close()
	eng := s.eng.Load().(gnet.Engine)
	ctx, cancel := context.WithTimeout(context.Background(), 10*time.Second)
	_ = eng.Stop(ctx)
	cancel()
	<-runErr
	m.mu.Lock()
	defer m.mu.Unlock()
	return childResult{Events: m.events, Foreign: m.foreign, Overlaps: m.overlap, Migrations: m.migr, Counts: m.counts, Detail: m.detail}
}
