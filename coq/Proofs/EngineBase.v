(* Basic lemmas about the helpers of Model/Engine.v and the case-analysis tactic
   used by the invariant proofs. *)
From GV Require Import Lib.Trace Lib.Interleave Model.Engine.
From Coq Require Import Lia List Bool Arith.
Import ListNotations.
Open Scope list_scope.

(* ------------------------------------------------------------------ *)
(* upd / nth_error *)

Lemma upd_length : forall A (f : A -> A) l n, List.length (upd n f l) = List.length l.
Proof. induction l as [|x r IH]; intros [|n]; cbn; auto. Qed.

Lemma nth_error_upd_same : forall A (f : A -> A) l n x,
  nth_error l n = Some x -> nth_error (upd n f l) n = Some (f x).
Proof.
  induction l as [|y r IH]; intros [|n] x H; cbn in *; try discriminate.
  - inversion H; reflexivity.
  - apply IH; exact H.
Qed.

Lemma nth_error_upd_other : forall A (f : A -> A) l n m,
  n <> m -> nth_error (upd n f l) m = nth_error l m.
Proof.
  induction l as [|y r IH]; intros [|n] [|m] H; cbn; auto; try congruence.
Qed.

Lemma nth_error_upd : forall A (f : A -> A) l n m,
  nth_error (upd n f l) m =
  if Nat.eqb n m then option_map f (nth_error l m) else nth_error l m.
Proof.
  intros A f l n m. destruct (Nat.eqb n m) eqn:E.
  - apply Nat.eqb_eq in E; subst m. destruct (nth_error l n) eqn:E1.
    + cbn. apply nth_error_upd_same; exact E1.
    + cbn. apply nth_error_None. rewrite upd_length. apply nth_error_None; exact E1.
  - apply Nat.eqb_neq in E. apply nth_error_upd_other; exact E.
Qed.

Lemma upd_none : forall A (f : A -> A) l n, nth_error l n = None -> upd n f l = l.
Proof.
  induction l as [|y r IH]; intros [|n] H; cbn in *; auto; try discriminate.
  f_equal. apply IH; exact H.
Qed.

Lemma Forall_upd : forall A (P : A -> Prop) (f : A -> A) l n,
  Forall P l -> (forall x, nth_error l n = Some x -> P (f x)) -> Forall P (upd n f l).
Proof.
  induction l as [|y r IH]; intros [|n] HF Hf; cbn; auto.
  - inversion HF; subst. constructor; auto.
  - inversion HF; subst. constructor; auto.
Qed.

Lemma Forall_nth_error : forall A (P : A -> Prop) l n x,
  Forall P l -> nth_error l n = Some x -> P x.
Proof.
  intros A P l n x HF H. rewrite Forall_forall in HF. apply HF. eapply nth_error_In; eauto.
Qed.

Lemma Forall_map_set : forall A (P : A -> Prop) (f : A -> A) l,
  (forall x, In x l -> P (f x)) -> Forall P (map f l).
Proof.
  intros. rewrite Forall_forall. intros y Hy. apply in_map_iff in Hy. destruct Hy as [x [<- Hx]]. auto.
Qed.

Lemma forallb_Forall : forall A (p : A -> bool) l, forallb p l = true <-> Forall (fun x => p x = true) l.
Proof.
  intros. rewrite forallb_forall, Forall_forall. tauto.
Qed.

(* ------------------------------------------------------------------ *)
(* sums over the loops *)

Definition lsum (f : loop -> nat) (l : list loop) : nat := fold_right (fun x a => f x + a)%nat O l.

Lemma lsum_upd : forall f g l n x,
  nth_error l n = Some x -> (lsum f (upd n g l) + f x = lsum f l + f (g x))%nat.
Proof.
  unfold lsum. induction l as [|y r IH]; intros [|n] x H; cbn in *; try discriminate.
  - inversion H; subst. lia.
  - specialize (IH _ _ H). lia.
Qed.

Lemma lsum_map_eq : forall f g l, (forall x, f (g x) = f x) -> lsum f (map g l) = lsum f l.
Proof. unfold lsum. induction l as [|y r IH]; intros H; cbn; [reflexivity|]. rewrite H, IH; auto. Qed.

Lemma measure_unfold : forall s,
  measure s = (r_measure s + lsum loop_measure (e_loops s) + loop_measure (e_ing s) + t_measure s)%nat.
Proof. reflexivity. Qed.

(* ------------------------------------------------------------------ *)
(* history *)

Lemma count_kind_app : forall p a b, count_kind p (a ++ b) = (count_kind p a + count_kind p b)%Z.
Proof.
  induction a as [|[t k] r IH]; intros; cbn [count_kind app]; [lia|]. rewrite IH. lia.
Qed.

Lemma count_kind_nonneg : forall p h, (0 <= count_kind p h)%Z.
Proof. induction h as [|[t k] r IH]; cbn; [lia|]. destruct (p k); lia. Qed.

Lemma count_results_app : forall w a b, count_results w (a ++ b) = (count_results w a + count_results w b)%Z.
Proof.
  induction a as [|[t k] r IH]; intros; cbn [count_results app]; [lia|].
  destruct t; try apply IH. destruct k; try apply IH. rewrite IH. lia.
Qed.

Lemma hist_push : forall evs s, e_hist (push evs s) = rev evs ++ e_hist s.
Proof. reflexivity. Qed.

(* ------------------------------------------------------------------ *)
(* reachability *)

Lemma ereachable_init : forall cfg nu, ereachable (einit cfg nu).
Proof. intros. apply reach_init. exists cfg, nu. reflexivity. Qed.

Lemma ereachable_step : forall s t c s' evs,
  ereachable s -> estep_opt s t c = Some (s', evs) -> ereachable (push evs s').
Proof.
  intros s t c s' evs Hr H. eapply reach_step with (l := ((t, c), evs)); [exact Hr|].
  unfold fun_step, estep; cbn. rewrite H. reflexivity.
Qed.

(* the invariant rule specialised to the engine: stuttering steps are trivial *)
Theorem engine_invariant : forall Inv : estate -> Prop,
  (forall cfg nu, Inv (einit cfg nu)) ->
  (forall s t c s' evs, ereachable s -> Inv s -> estep_opt s t c = Some (s', evs) -> Inv (push evs s')) ->
  forall s, ereachable s -> Inv s.
Proof.
  intros Inv Hi Hs s Hr. unfold ereachable in Hr.
  eapply invariant_rule with (Inv := Inv) in Hr; eauto.
  - intros s0 [cfg [nu ->]]. apply Hi.
  - intros s0 [[t c] o] s1 Hr0 HI Hstep. unfold fun_step, estep in Hstep; cbn in Hstep.
    destruct (estep_opt s0 t c) as [[s2 evs]|] eqn:E.
    + inversion Hstep; subst. eapply Hs; eauto.
    + inversion Hstep; subst. exact HI.
Qed.

(* ------------------------------------------------------------------ *)
(* tactics *)

(* split the hypothesis H : <nest of matches> = Some (s', evs) into its cases *)
Ltac step_cases H :=
  repeat (first
    [ discriminate H
    | match type of H with
      | (let '(_, _) := ?x in _) = Some _ => let E := fresh "E" in destruct x eqn:E
      | (match ?x with _ => _ end) = Some _ => let E := fresh "E" in destruct x eqn:E
      | (if ?x then _ else _) = Some _ => let E := fresh "E" in destruct x eqn:E
      end ]);
  try discriminate H;
  try (injection H as <- <-).

Ltac splits := repeat match goal with |- _ /\ _ => split end.

Lemma Forall_upd_nth : forall A (P : A -> Prop) (f : A -> A) l n,
  Forall P l -> (forall x, nth_error l n = Some x -> P x -> P (f x)) -> Forall P (upd n f l).
Proof.
  induction l as [|y r IH]; intros [|n] HF Hf; cbn; auto.
  - inversion HF; subst. constructor; auto.
  - inversion HF; subst. constructor; auto.
Qed.

Lemma Forall_map_impl : forall A (P Q : A -> Prop) (f : A -> A) l,
  Forall P l -> (forall x, P x -> Q (f x)) -> Forall Q (map f l).
Proof.
  intros A P Q f l HF H. apply Forall_map. eapply Forall_impl; [|exact HF]. exact H.
Qed.

Lemma Forall_all_nth : forall A (P : A -> Prop) l,
  (forall i x, nth_error l i = Some x -> P x) -> Forall P l.
Proof.
  intros A P l H. apply Forall_forall. intros x Hx. apply In_nth_error in Hx. destruct Hx as [i Hi]. eauto.
Qed.

Lemma has_shut_app : forall q t, has_shut (q ++ [t]) = has_shut q || match t with TShut => true | _ => false end.
Proof. intros. unfold has_shut. rewrite existsb_app. cbn. rewrite orb_false_r. reflexivity. Qed.

Lemma has_shut_remove : forall q k t, nth_error q k = Some t ->
  has_shut q = true -> (match t with TShut => False | _ => True end) -> has_shut (remove_nth k q) = true.
Proof.
  induction q as [|x r IH]; intros [|k] t Hn Hs Ht; cbn in *; try discriminate.
  - inversion Hn; subst. destruct t; cbn in Hs; try contradiction; exact Hs.
  - destruct x; cbn in *; auto; eapply IH; eauto.
Qed.
