package main

// Integration part of C17: real gnet servers (tcp4, tcp6, tcp6 with zone, dual
// stack wildcard, port 0, unix, udp4, udp6).  Inside every OnOpen / OnTraffic /
// OnClose the handler compares c.RemoteAddr() / c.LocalAddr() with (a) the
// values it saw when the connection was opened and (b) the view the peer
// reports in-band (conn.LocalAddr()/RemoteAddr() of the client's net.Conn),
// while several hundred other connections are opened and closed on several
// event loops.  Any difference is a direct-oracle failure.

import (
	"bufio"
	"bytes"
	"context"
	"encoding/hex"
	"fmt"
	"net"
	"os"
	"path/filepath"
	"strconv"
	"strings"
	"sync"
	"sync/atomic"
	"time"

	"golang.org/x/sys/unix"

	gnet "github.com/panjf2000/gnet/v2"
	"github.com/panjf2000/gnet/v2/pkg/logging"

	"verifharness/tr"
)

type nopLogger struct{}

func (nopLogger) Debugf(string, ...interface{}) {}
func (nopLogger) Infof(string, ...interface{})  {}
func (nopLogger) Warnf(string, ...interface{})  {}
func (nopLogger) Errorf(string, ...interface{}) {}
func (nopLogger) Fatalf(string, ...interface{}) {}

var _ logging.Logger = nopLogger{}

// canon renders an address in a canonical form that ignores the 4/16-byte
// representation of an IPv4 address (net.IP.Equal) and nothing else.
func canon(a net.Addr) string {
	switch v := a.(type) {
	case nil:
		return "nil"
	case *net.TCPAddr:
		if v == nil {
			return "nil"
		}
		return "inet|" + hex.EncodeToString(v.IP.To16()) + "|" + strconv.Itoa(v.Port) + "|" + hex.EncodeToString([]byte(v.Zone))
	case *net.UDPAddr:
		if v == nil {
			return "nil"
		}
		return "inet|" + hex.EncodeToString(v.IP.To16()) + "|" + strconv.Itoa(v.Port) + "|" + hex.EncodeToString([]byte(v.Zone))
	case *net.UnixAddr:
		if v == nil {
			return "nil"
		}
		return "unix|" + hex.EncodeToString([]byte(v.Name))
	}
	return fmt.Sprintf("other|%T", a)
}

type collector struct {
	mu     sync.Mutex
	fails  map[string]string // sig -> first detail
	order  []string
	checks map[string]int
	infra  []string
}

func newCollector() *collector {
	return &collector{fails: map[string]string{}, checks: map[string]int{}}
}

func (c *collector) fail(sig, detail string) {
	c.mu.Lock()
	if _, ok := c.fails[sig]; !ok {
		c.fails[sig] = detail
		c.order = append(c.order, sig)
	}
	c.mu.Unlock()
}

func (c *collector) check(k string) {
	c.mu.Lock()
	c.checks[k]++
	c.mu.Unlock()
}

func (c *collector) infraErr(format string, a ...interface{}) {
	c.mu.Lock()
	if len(c.infra) < 5 {
		c.infra = append(c.infra, fmt.Sprintf(format, a...))
	}
	c.mu.Unlock()
}

type cctx struct {
	remote, local string
	buf           []byte
}

type scenario struct {
	name      string
	addr      string   // gnet address
	dialNet   string   // network for net.Dial
	dialAddr  string   // address for net.Dial ("" = derived)
	wildcard  bool     // listener bound to the unspecified address: client's RemoteAddr is not the listener address
	wantLocal func(l string) bool
	opts      []gnet.Option
	udp       bool
	unixDir   string
	port0     bool
	conns     int
}

type server struct {
	gnet.BuiltinEventEngine
	sc     *scenario
	col    *collector
	eng    gnet.Engine
	booted chan struct{}
	open   int64
	closed int64
}

func (s *server) OnBoot(e gnet.Engine) gnet.Action {
	s.eng = e
	close(s.booted)
	return gnet.None
}

func (s *server) stable(where string, c gnet.Conn, x *cctx) {
	r, l := canon(c.RemoteAddr()), canon(c.LocalAddr())
	s.col.check(s.sc.name + "/" + where)
	if r != x.remote {
		s.col.fail(s.sc.name+" "+where+" remote-changed-during-life", x.remote+" -> "+r)
	}
	if l != x.local {
		s.col.fail(s.sc.name+" "+where+" local-changed-during-life", x.local+" -> "+l)
	}
}

func (s *server) OnOpen(c gnet.Conn) ([]byte, gnet.Action) {
	atomic.AddInt64(&s.open, 1)
	x := &cctx{remote: canon(c.RemoteAddr()), local: canon(c.LocalAddr())}
	c.SetContext(x)
	s.col.check(s.sc.name + "/OnOpen")
	if !s.sc.wantLocal(x.local) {
		s.col.fail(s.sc.name+" OnOpen local-is-not-listener-address", x.local)
	}
	return nil, gnet.None
}

func (s *server) OnClose(c gnet.Conn, _ error) gnet.Action {
	if x, ok := c.Context().(*cctx); ok {
		s.stable("OnClose", c, x)
	} else {
		s.col.fail(s.sc.name+" OnClose no-context", "")
	}
	atomic.AddInt64(&s.closed, 1)
	return gnet.None
}

func (s *server) OnTraffic(c gnet.Conn) gnet.Action {
	if s.sc.udp {
		return s.onDatagram(c)
	}
	x, ok := c.Context().(*cctx)
	if !ok {
		s.col.fail(s.sc.name+" OnTraffic no-context", "")
		return gnet.Close
	}
	s.stable("OnTraffic", c, x)
	data, _ := c.Next(-1)
	x.buf = append(x.buf, data...)
	act := gnet.None
	for {
		i := bytes.IndexByte(x.buf, '\n')
		if i < 0 {
			break
		}
		line := string(x.buf[:i])
		x.buf = x.buf[i+1:]
		f := strings.Fields(line)
		if len(f) == 1 && f[0] == "bye" {
			act = gnet.Close
			continue
		}
		if len(f) != 2 {
			s.col.fail(s.sc.name+" OnTraffic bad-line", line)
			continue
		}
		// f[0] = client's LocalAddr, f[1] = client's RemoteAddr
		if x.remote != f[0] {
			s.col.fail(s.sc.name+" OnTraffic RemoteAddr-is-not-peer-address", "gnet "+x.remote+" peer "+f[0])
		}
		if !s.sc.wildcard && !s.sc.port0 && x.local != f[1] {
			s.col.fail(s.sc.name+" OnTraffic LocalAddr-is-not-what-peer-dialled", "gnet "+x.local+" peer "+f[1])
		}
		if s.sc.port0 {
			// the peer dialled the really bound port
			if x.local != f[1] {
				s.col.fail(s.sc.name+" OnTraffic LocalAddr-port0-not-bound-port", "gnet "+x.local+" peer "+f[1])
			}
		}
		_, _ = c.Write([]byte("ok\n"))
	}
	return act
}

func (s *server) onDatagram(c gnet.Conn) gnet.Action {
	data, _ := c.Next(-1)
	r, l := canon(c.RemoteAddr()), canon(c.LocalAddr())
	s.col.check(s.sc.name + "/OnTraffic")
	f := strings.Fields(string(data))
	if len(f) != 2 {
		s.col.fail(s.sc.name+" udp bad-datagram", string(data))
		return gnet.None
	}
	if r != f[0] {
		s.col.fail(s.sc.name+" udp RemoteAddr-is-not-datagram-source", "gnet "+r+" peer "+f[0])
	}
	if !s.sc.wantLocal(l) {
		s.col.fail(s.sc.name+" udp local-is-not-listener-address", l)
	}
	_, _ = c.Write(data)
	return gnet.None
}

func freePort(network string, host string) int {
	if strings.HasPrefix(network, "udp") {
		pc, err := net.ListenPacket(network, net.JoinHostPort(host, "0"))
		if err != nil {
			return 0
		}
		defer pc.Close()
		return pc.LocalAddr().(*net.UDPAddr).Port
	}
	ln, err := net.Listen(network, net.JoinHostPort(host, "0"))
	if err != nil {
		return 0
	}
	defer ln.Close()
	return ln.Addr().(*net.TCPAddr).Port
}

func ping(conn net.Conn, rd *bufio.Reader) error {
	_ = conn.SetDeadline(time.Now().Add(20 * time.Second))
	if _, err := fmt.Fprintf(conn, "%s %s\n", canon(conn.LocalAddr()), canon(conn.RemoteAddr())); err != nil {
		return err
	}
	s, err := rd.ReadString('\n')
	if err != nil {
		return err
	}
	if s != "ok\n" {
		return fmt.Errorf("unexpected reply %q", s)
	}
	return nil
}

func (sc *scenario) dial(i int) (net.Conn, error) {
	if sc.dialNet == "unix" {
		raddr := &net.UnixAddr{Name: sc.dialAddr, Net: "unix"}
		var laddr *net.UnixAddr
		switch i % 3 {
		case 1:
			laddr = &net.UnixAddr{Name: filepath.Join(sc.unixDir, fmt.Sprintf("c%d.sock", i)), Net: "unix"}
		case 2:
			laddr = &net.UnixAddr{Name: fmt.Sprintf("@verif-c17-%d-%d", os.Getpid(), i), Net: "unix"}
		}
		return net.DialUnix("unix", laddr, raddr)
	}
	d := net.Dialer{Timeout: 20 * time.Second}
	return d.Dial(sc.dialNet, sc.dialAddr)
}

func runStream(sc *scenario, col *collector, rnd *tr.Rand) {
	srv := &server{sc: sc, col: col, booted: make(chan struct{})}
	done := make(chan error, 1)
	go func() { done <- gnet.Run(srv, sc.addr, sc.opts...) }()
	select {
	case <-srv.booted:
	case err := <-done:
		col.infraErr("%s: server did not start: %v", sc.name, err)
		return
	case <-time.After(20 * time.Second):
		col.infraErr("%s: server boot timeout", sc.name)
		return
	}
	defer func() {
		ctx, cancel := context.WithTimeout(context.Background(), 20*time.Second)
		defer cancel()
		_ = srv.eng.Stop(ctx)
		select {
		case <-done:
		case <-time.After(20 * time.Second):
			col.infraErr("%s: server did not stop", sc.name)
		}
	}()
	if sc.port0 {
		// find the really bound port through a dup of the listener
		fd, err := srv.eng.Dup()
		if err != nil {
			col.infraErr("%s: Dup: %v", sc.name, err)
			return
		}
		sa, err := unix.Getsockname(fd)
		_ = unix.Close(fd)
		if err != nil {
			col.infraErr("%s: getsockname: %v", sc.name, err)
			return
		}
		sc.dialAddr = net.JoinHostPort("127.0.0.1", strconv.Itoa(sa.(*unix.SockaddrInet4).Port))
	}
	type lived struct {
		c  net.Conn
		rd *bufio.Reader
	}
	var long []lived
	for i := 0; i < 12; i++ {
		c, err := sc.dial(1000000 + 3*i + i%3)
		if err != nil {
			col.infraErr("%s: dial: %v", sc.name, err)
			return
		}
		l := lived{c, bufio.NewReader(c)}
		if err := ping(l.c, l.rd); err != nil {
			col.infraErr("%s: ping: %v", sc.name, err)
		}
		long = append(long, l)
	}
	var wg sync.WaitGroup
	var idx int64
	workers := 6
	seeds := make([]uint64, workers)
	for k := range seeds {
		seeds[k] = rnd.U64()
	}
	for k := 0; k < workers; k++ {
		wg.Add(1)
		go func(k int) {
			defer wg.Done()
			r := tr.NewRand(seeds[k])
			for {
				i := int(atomic.AddInt64(&idx, 1))
				if i > sc.conns {
					return
				}
				c, err := sc.dial(i)
				if err != nil {
					col.infraErr("%s: dial %d: %v", sc.name, i, err)
					continue
				}
				rd := bufio.NewReader(c)
				for n := 1 + r.Intn(3); n > 0; n-- {
					if err := ping(c, rd); err != nil {
						col.infraErr("%s: ping %d: %v", sc.name, i, err)
						break
					}
				}
				if r.Chance(30) {
					// let the server close it
					_, _ = c.Write([]byte("bye\n"))
					_ = c.SetReadDeadline(time.Now().Add(10 * time.Second))
					_, _ = rd.ReadByte()
				}
				_ = c.Close()
			}
		}(k)
	}
	// the long-lived connections keep reporting while the churn is going on
	stop := make(chan struct{})
	var lw sync.WaitGroup
	for _, l := range long {
		lw.Add(1)
		go func(l lived) {
			defer lw.Done()
			for {
				select {
				case <-stop:
					return
				default:
				}
				if err := ping(l.c, l.rd); err != nil {
					col.infraErr("%s: long ping: %v", sc.name, err)
					return
				}
				time.Sleep(2 * time.Millisecond)
			}
		}(l)
	}
	wg.Wait()
	close(stop)
	lw.Wait()
	for _, l := range long {
		if err := ping(l.c, l.rd); err != nil {
			col.infraErr("%s: final ping: %v", sc.name, err)
		}
		_ = l.c.Close()
	}
	// every connection must have been seen open and closed
	deadline := time.Now().Add(20 * time.Second)
	for time.Now().Before(deadline) {
		if atomic.LoadInt64(&srv.closed) >= atomic.LoadInt64(&srv.open) && atomic.LoadInt64(&srv.open) >= int64(sc.conns+len(long)) {
			break
		}
		time.Sleep(5 * time.Millisecond)
	}
	if o, c := atomic.LoadInt64(&srv.open), atomic.LoadInt64(&srv.closed); o != c || o < int64(sc.conns+len(long)) {
		col.infraErr("%s: opened %d closed %d of %d", sc.name, o, c, sc.conns+len(long))
	}
}

func runUDP(sc *scenario, col *collector) {
	srv := &server{sc: sc, col: col, booted: make(chan struct{})}
	done := make(chan error, 1)
	go func() { done <- gnet.Run(srv, sc.addr, sc.opts...) }()
	select {
	case <-srv.booted:
	case err := <-done:
		col.infraErr("%s: server did not start: %v", sc.name, err)
		return
	case <-time.After(20 * time.Second):
		col.infraErr("%s: server boot timeout", sc.name)
		return
	}
	defer func() {
		ctx, cancel := context.WithTimeout(context.Background(), 20*time.Second)
		defer cancel()
		_ = srv.eng.Stop(ctx)
		select {
		case <-done:
		case <-time.After(20 * time.Second):
			col.infraErr("%s: server did not stop", sc.name)
		}
	}()
	if sc.port0 {
		fd, err := srv.eng.Dup()
		if err != nil {
			col.infraErr("%s: Dup: %v", sc.name, err)
			return
		}
		sa, err := unix.Getsockname(fd)
		_ = unix.Close(fd)
		if err != nil {
			col.infraErr("%s: getsockname: %v", sc.name, err)
			return
		}
		port := sa.(*unix.SockaddrInet4).Port
		sc.dialAddr = net.JoinHostPort("127.0.0.1", strconv.Itoa(port))
		sc.wantLocal = inetWant(net.IP{127, 0, 0, 1}, port, "")
	}
	var wg sync.WaitGroup
	var replies int64
	for k := 0; k < 8; k++ {
		wg.Add(1)
		go func(k int) {
			defer wg.Done()
			c, err := net.Dial(sc.dialNet, sc.dialAddr)
			if err != nil {
				col.infraErr("%s: dial: %v", sc.name, err)
				return
			}
			defer c.Close()
			msg := []byte(canon(c.LocalAddr()) + " " + canon(c.RemoteAddr()))
			buf := make([]byte, 2048)
			for n := 0; n < sc.conns/8; n++ {
				for try := 0; try < 5; try++ {
					_, _ = c.Write(msg)
					_ = c.SetReadDeadline(time.Now().Add(500 * time.Millisecond))
					m, err := c.Read(buf)
					if err == nil {
						if !bytes.Equal(buf[:m], msg) {
							col.fail(sc.name+" udp echo-differs", string(buf[:m]))
						}
						atomic.AddInt64(&replies, 1)
						break
					}
				}
			}
		}(k)
	}
	wg.Wait()
	if replies == 0 {
		col.infraErr("%s: no datagram was echoed", sc.name)
	}
}

func inetWant(ip net.IP, port int, zone string) func(string) bool {
	exp := canon(&net.TCPAddr{IP: ip, Port: port, Zone: zone})
	return func(l string) bool { return l == exp }
}

func linkLocal() (net.IP, string) {
	for _, ifi := range ifaces {
		if ifi.Flags&net.FlagUp == 0 || ifi.Flags&net.FlagLoopback != 0 {
			continue
		}
		as, _ := ifi.Addrs()
		for _, a := range as {
			if n, ok := a.(*net.IPNet); ok && n.IP.To4() == nil && n.IP.IsLinkLocalUnicast() {
				return n.IP, ifi.Name
			}
		}
	}
	return nil, ""
}

var scenarioNames = []string{"tcp4-reactors", "tcp4-reuseport-et", "tcp6-loopback", "tcp6-linklocal-zone",
	"tcp-wildcard-dualstack", "tcp4-port0", "unix", "udp4", "udp6", "udp4-port0"}

// buildScenario returns nil when the machine cannot run it (no IPv6, no link-local address).
func buildScenario(name string, conns int, dir string) *scenario {
	quiet := gnet.WithLogger(nopLogger{})
	switch name {
	case "tcp4-reactors":
		p := freePort("tcp4", "127.0.0.1")
		return &scenario{name: name, addr: fmt.Sprintf("tcp://127.0.0.1:%d", p), dialNet: "tcp4", dialAddr: fmt.Sprintf("127.0.0.1:%d", p),
			wantLocal: inetWant(net.IP{127, 0, 0, 1}, p, ""), opts: []gnet.Option{quiet, gnet.WithNumEventLoop(4)}, conns: conns}
	case "tcp4-reuseport-et":
		p := freePort("tcp4", "127.0.0.1")
		return &scenario{name: name, addr: fmt.Sprintf("tcp4://127.0.0.1:%d", p), dialNet: "tcp4", dialAddr: fmt.Sprintf("127.0.0.1:%d", p),
			wantLocal: inetWant(net.IP{127, 0, 0, 1}, p, ""), opts: []gnet.Option{quiet, gnet.WithNumEventLoop(4), gnet.WithReusePort(true), gnet.WithEdgeTriggeredIO(true)}, conns: conns}
	case "tcp6-loopback":
		p := freePort("tcp6", "::1")
		if p == 0 {
			return nil
		}
		return &scenario{name: name, addr: fmt.Sprintf("tcp://[::1]:%d", p), dialNet: "tcp6", dialAddr: fmt.Sprintf("[::1]:%d", p),
			wantLocal: inetWant(net.IPv6loopback, p, ""), opts: []gnet.Option{quiet, gnet.WithNumEventLoop(3), gnet.WithLoadBalancing(gnet.LeastConnections)}, conns: conns}
	case "tcp6-linklocal-zone":
		ll, zone := linkLocal()
		if ll == nil {
			return nil
		}
		p := freePort("tcp6", ll.String()+"%"+zone)
		if p == 0 {
			return nil
		}
		hp := fmt.Sprintf("[%s%%%s]:%d", ll, zone, p)
		return &scenario{name: name, addr: "tcp6://" + hp, dialNet: "tcp6", dialAddr: hp,
			wantLocal: inetWant(ll, p, zone), opts: []gnet.Option{quiet, gnet.WithNumEventLoop(4), gnet.WithLoadBalancing(gnet.SourceAddrHash)}, conns: conns}
	case "tcp-wildcard-dualstack":
		wp := freePort("tcp4", "127.0.0.1")
		return &scenario{name: name, addr: fmt.Sprintf("tcp://:%d", wp), dialNet: "tcp4", dialAddr: fmt.Sprintf("127.0.0.1:%d", wp), wildcard: true,
			wantLocal: func(l string) bool {
				return l == canon(&net.TCPAddr{Port: wp}) || l == canon(&net.TCPAddr{IP: net.IPv6zero, Port: wp}) || l == canon(&net.TCPAddr{IP: net.IPv4zero, Port: wp})
			}, opts: []gnet.Option{quiet, gnet.WithNumEventLoop(2)}, conns: conns / 3}
	case "tcp4-port0":
		return &scenario{name: name, addr: "tcp://127.0.0.1:0", dialNet: "tcp4", port0: true,
			wantLocal: func(l string) bool { return strings.HasPrefix(l, "inet|"+hex.EncodeToString(net.IP{127, 0, 0, 1}.To16())+"|") },
			opts:      []gnet.Option{quiet, gnet.WithNumEventLoop(2)}, conns: conns / 10}
	case "unix":
		sub, err := os.MkdirTemp(dir, "u")
		if err != nil {
			return nil
		}
		sock := filepath.Join(sub, "srv.sock")
		return &scenario{name: name, addr: "unix://" + sock, dialNet: "unix", dialAddr: sock, unixDir: sub,
			wantLocal: func(l string) bool { return l == canon(&net.UnixAddr{Name: sock, Net: "unix"}) },
			opts:      []gnet.Option{quiet, gnet.WithNumEventLoop(4)}, conns: conns}
	case "udp4":
		p := freePort("udp4", "127.0.0.1")
		return &scenario{name: name, udp: true, addr: fmt.Sprintf("udp://127.0.0.1:%d", p), dialNet: "udp4", dialAddr: fmt.Sprintf("127.0.0.1:%d", p),
			wantLocal: inetWant(net.IP{127, 0, 0, 1}, p, ""), opts: []gnet.Option{quiet, gnet.WithNumEventLoop(3)}, conns: conns}
	case "udp6":
		p := freePort("udp6", "::1")
		if p == 0 {
			return nil
		}
		return &scenario{name: name, udp: true, addr: fmt.Sprintf("udp6://[::1]:%d", p), dialNet: "udp6", dialAddr: fmt.Sprintf("[::1]:%d", p),
			wantLocal: inetWant(net.IPv6loopback, p, ""), opts: []gnet.Option{quiet, gnet.WithNumEventLoop(3)}, conns: conns}
	case "udp4-port0":
		// a single loop: with SO_REUSEPORT every loop would bind its own ephemeral port
		return &scenario{name: name, udp: true, port0: true, addr: "udp://127.0.0.1:0", dialNet: "udp4",
			wantLocal: func(l string) bool { return true }, opts: []gnet.Option{quiet, gnet.WithNumEventLoop(1)}, conns: conns / 4}
	}
	return nil
}

// runScenario runs one live-server scenario and reports into the current trace case.
func runScenario(name string, conns int, rnd *tr.Rand) {
	dir, err := os.MkdirTemp("/var/tmp", "verif-c17-")
	if err != nil {
		dir = os.TempDir()
	} else {
		defer os.RemoveAll(dir)
	}
	col := newCollector()
	ran := false
	for attempt := 0; attempt < 2; attempt++ {
		sc := buildScenario(name, conns, dir)
		if sc == nil {
			break
		}
		ran = true
		col.infra = nil
		if sc.udp {
			runUDP(sc, col)
		} else {
			runStream(sc, col, rnd)
		}
		if len(col.infra) == 0 {
			break
		}
	}
	if !ran {
		w.Hist("int-skipped-" + name)
		return
	}
	w.Tag("integration-" + name)
	for k, n := range col.checks {
		w.Stats.Hist["int-"+k] += n
	}
	for _, sig := range col.order {
		w.Fail("integration", sig, col.fails[sig])
	}
	for _, e := range col.infra {
		w.Fail("integration-infra", name, e)
	}
}

func integrationConns(tier string) int {
	if tier == "thorough" {
		return 3000
	}
	return 300
}

// integration: one case per scenario; the op line `int <scenario>` makes the case replayable.
func integration(seed uint64, tier string) {
	rnd := tr.NewRand(seed ^ 0xC17)
	for _, name := range scenarioNames {
		cid++
		w.Case(fmt.Sprintf("int%d-%s", cid, name), "sockaddr", "integration="+name)
		w.Op(tr.L("int", name))
		runScenario(name, integrationConns(tier), rnd)
		w.End()
	}
}
