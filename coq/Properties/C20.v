(* C20 — power-of-two and index arithmetic is exact over the whole int range.
   Statements only; proofs live in Proofs/ArithProofs.v. *)
From GV Require Import Lib.Trace Model.Arith Proofs.ArithProofs.
Open Scope Z_scope.

Theorem C20_is_pow2 : forall n, int64 n ->
  exists b, IsPowerOfTwo n = Ret b /\ (b = true <-> exists k, 0 <= k /\ n = 2^k).
Proof. exact is_pow2_spec. Qed.
Print Assumptions C20_is_pow2.

Theorem C20_ceil : forall n, int64 n ->
  (n > 2^62 -> CeilToPowerOfTwo n = Panic) /\
  (n <= 2^62 -> exists r, CeilToPowerOfTwo n = Ret r /\
     exists k, 0 <= k /\ r = 2^k /\ Z.max n 2 <= r /\
               forall j, 0 <= j -> Z.max n 2 <= 2^j -> r <= 2^j).
Proof. exact ceil_spec. Qed.
Print Assumptions C20_ceil.

Theorem C20_floor : forall n, int64 n ->
  (n <= 2 -> FloorToPowerOfTwo n = Ret n) /\
  (2 < n -> FloorToPowerOfTwo n = Ret (2^(Z.log2 n))).
Proof. exact floor_spec. Qed.
Print Assumptions C20_floor.

Theorem C20_floor_largest : forall n, int64 n -> 2 < n ->
  exists r, FloorToPowerOfTwo n = Ret r /\ (exists k, 0 <= k /\ r = 2^k) /\ r <= n /\
            forall j, 0 <= j -> 2^j <= n -> 2^j <= r.
Proof. exact floor_is_largest. Qed.
Print Assumptions C20_floor_largest.

Theorem C20_closest : forall n, 1 <= n <= 2^62 ->
  exists r, ClosestPowerOfTwo n = Ret r /\
    (exists k, 0 <= k /\ r = 2^k) /\
    forall j, 0 <= j -> Z.abs (n - r) <= Z.abs (n - 2^j) /\
                        (Z.abs (n - r) = Z.abs (n - 2^j) -> 2^j <= r).
Proof. exact closest_spec. Qed.
Print Assumptions C20_closest.

Theorem C20_closest_panics_above : forall n, int64 n -> 2^62 < n -> ClosestPowerOfTwo n = Panic.
Proof. exact closest_panics_above. Qed.
Print Assumptions C20_closest_panics_above.

Theorem C20_bs_index : forall n, 1 <= n <= 2147483647 ->
  exists i, bs_index n = Ret i /\ 0 <= i <= 31 /\ n <= 2^i /\
            forall j, 0 <= j -> n <= 2^j -> i <= j.
Proof. exact bs_index_spec. Qed.
Print Assumptions C20_bs_index.

Theorem C20_gfd_roundtrip : forall fd el row col seq,
  int64 fd -> 0 <= el < 256 -> 0 <= row < 256 -> 0 <= col < 65536 -> 0 <= seq < 4294967296 ->
  let g := new_gfd fd el row col seq in
  gfd_fd g = fd /\ gfd_el g = el /\ gfd_row g = row /\ gfd_col g = col /\ gfd_seq g = seq /\
  List.length g = 16%nat.
Proof. exact gfd_roundtrip. Qed.
Print Assumptions C20_gfd_roundtrip.

Theorem C20_gfd_update : forall fd el row col seq row2 col2,
  int64 fd -> 0 <= el < 256 -> 0 <= row < 256 -> 0 <= col < 65536 -> 0 <= seq < 4294967296 ->
  0 <= row2 < 256 -> 0 <= col2 < 65536 ->
  gfd_update (new_gfd fd el row col seq) row2 col2 = new_gfd fd el row2 col2 seq.
Proof. exact gfd_update_roundtrip. Qed.
Print Assumptions C20_gfd_update.

(* non-vacuity: concrete instances, evaluated by the kernel *)
Example C20_ex_floor : FloorToPowerOfTwo (2^40 + 12345) = Ret (2^40).
Proof. vm_compute. reflexivity. Qed.
Example C20_ex_ceil : CeilToPowerOfTwo (2^61 + 1) = Ret (2^62) /\ CeilToPowerOfTwo (2^62 + 1) = Panic.
Proof. split; vm_compute; reflexivity. Qed.
Example C20_ex_closest : ClosestPowerOfTwo 3 = Ret 4 /\ ClosestPowerOfTwo 5 = Ret 4 /\ ClosestPowerOfTwo 6 = Ret 8.
Proof. repeat split; vm_compute; reflexivity. Qed.
