(* Proofs about Model/SockAddr.v (property C17). *)
From Coq Require Import Lia ZArith ZifyBool List Bool.
From GV Require Import Lib.Trace Model.SockAddr.
Import ListNotations.
Close Scope string_scope.
Open Scope list_scope.
Open Scope Z_scope.

Ltac splits := repeat match goal with |- _ /\ _ => split end.

(* ------------------------------------------------------------------ *)
(* basic list facts                                                     *)

Lemma zlen_nonneg : forall l, 0 <= zlen l.
Proof. intros; unfold zlen; lia. Qed.

Lemma zlen_app : forall a b, zlen (a ++ b) = zlen a + zlen b.
Proof. intros; unfold zlen; rewrite app_length; lia. Qed.

Lemma zlen_cons : forall x l, zlen (x :: l) = 1 + zlen l.
Proof. intros; unfold zlen; cbn [List.length]; lia. Qed.

Lemma zlen_nil : zlen [] = 0.
Proof. reflexivity. Qed.

Lemma bytes_eqb_refl : forall a, bytes_eqb a a = true.
Proof. induction a as [|x a IH]; cbn; [reflexivity|]. rewrite Z.eqb_refl, IH; reflexivity. Qed.

Lemma bytes_eqb_eq : forall a b, bytes_eqb a b = true <-> a = b.
Proof.
  induction a as [|x a IH]; destruct b as [|y b]; cbn; split; intros H; try reflexivity; try discriminate.
  - apply andb_true_iff in H as [H1 H2]. apply Z.eqb_eq in H1. apply IH in H2. subst; reflexivity.
  - inversion H; subst. rewrite Z.eqb_refl. cbn. apply IH; reflexivity.
Qed.

Lemma bytes_eqb_neq : forall a b, bytes_eqb a b = false <-> a <> b.
Proof.
  intros a b; split; intros H.
  - intros E. apply bytes_eqb_eq in E. congruence.
  - destruct (bytes_eqb a b) eqn:E; [|reflexivity]. apply bytes_eqb_eq in E. contradiction.
Qed.

Lemma is_empty_true : forall l, is_empty l = true <-> l = [].
Proof. destruct l; cbn; split; intros; try reflexivity; discriminate. Qed.

Lemma is_empty_false : forall l, is_empty l = false <-> l <> [].
Proof. destruct l; cbn; split; intros H; try reflexivity; try discriminate; congruence. Qed.

Lemma copy_arr_exact : forall n l, List.length l = n -> copy_arr n l = l.
Proof.
  intros n l H. unfold copy_arr. rewrite firstn_app, H, Nat.sub_diag. cbn [firstn].
  rewrite app_nil_r. rewrite <- H. apply firstn_all.
Qed.

Lemma copy_arr_length : forall n l, List.length (copy_arr n l) = n.
Proof.
  intros n l. unfold copy_arr. rewrite firstn_length, app_length, repeat_length. lia.
Qed.

Lemma set_nth_app : forall pre x suf v, set_nth (pre ++ x :: suf) (List.length pre) v = pre ++ v :: suf.
Proof. induction pre as [|p pre IH]; intros; cbn; [reflexivity|]. rewrite IH; reflexivity. Qed.

Lemma zset_app : forall pre x suf v, zset (pre ++ x :: suf) (zlen pre) v = pre ++ v :: suf.
Proof. intros. unfold zset, zlen. rewrite Nat2Z.id. apply set_nth_app. Qed.

Lemma zdrop_app_len : forall a b, zdrop (zlen a) (a ++ b) = b.
Proof.
  intros. unfold zdrop, zlen. rewrite Nat2Z.id. rewrite skipn_app, Nat.sub_diag, skipn_all. reflexivity.
Qed.

Lemma zdrop_0 : forall l, zdrop 0 l = l.
Proof. reflexivity. Qed.

(* ------------------------------------------------------------------ *)
(* net.IP.To4 / To16 / Equal                                            *)

Lemma to4_len4 : forall ip, zlen ip = 4 -> to4 ip = Some ip.
Proof. intros ip H. unfold to4. rewrite H. reflexivity. Qed.

Lemma to16_len4 : forall ip, zlen ip = 4 -> to16 ip = Some (v4_prefix ++ ip).
Proof. intros ip H. unfold to16. rewrite H. reflexivity. Qed.

Lemma to16_len16 : forall ip, zlen ip = 16 -> to16 ip = Some ip.
Proof. intros ip H. unfold to16. rewrite H. reflexivity. Qed.

Lemma to4_mapped : forall ip4, zlen ip4 = 4 -> to4 (v4_prefix ++ ip4) = Some ip4.
Proof.
  intros ip4 H. unfold to4. rewrite zlen_app, H. cbn.
  reflexivity.
Qed.

Lemma to4_invalid : forall ip, zlen ip <> 4 -> zlen ip <> 16 -> to4 ip = None.
Proof.
  intros ip H4 H16. unfold to4.
  destruct (Z.eqb_spec (zlen ip) 4); [contradiction|].
  destruct (Z.eqb_spec (zlen ip) 16); [contradiction|]. reflexivity.
Qed.

Lemma to16_invalid : forall ip, zlen ip <> 4 -> zlen ip <> 16 -> to16 ip = None.
Proof.
  intros ip H4 H16. unfold to16.
  destruct (Z.eqb_spec (zlen ip) 4); [contradiction|].
  destruct (Z.eqb_spec (zlen ip) 16); [contradiction|]. reflexivity.
Qed.

Lemma len16_destruct : forall ip : bytes, zlen ip = 16 ->
  exists a0 a1 a2 a3 a4 a5 a6 a7 a8 a9 a10 a11 a12 a13 a14 a15,
    ip = [a0;a1;a2;a3;a4;a5;a6;a7;a8;a9;a10;a11;a12;a13;a14;a15].
Proof.
  intros ip H. unfold zlen in H.
  do 16 (destruct ip as [|? ip]; [cbn in H; lia|]).
  destruct ip; [|cbn in H; lia].
  do 16 eexists; reflexivity.
Qed.

(* what To4 returns: the address itself (4 bytes) or the tail of a v4-mapped one *)
Lemma to4_some : forall ip r, to4 ip = Some r ->
  (zlen ip = 4 /\ r = ip) \/ (zlen ip = 16 /\ ip = v4_prefix ++ r /\ zlen r = 4).
Proof.
  intros ip r H. unfold to4 in H.
  destruct (Z.eqb_spec (zlen ip) 4) as [E4|N4].
  - inversion H; subst; left; split; [assumption|reflexivity].
  - destruct (Z.eqb_spec (zlen ip) 16) as [E16|N16]; [|cbn in H; discriminate].
    right. destruct (len16_destruct ip E16) as
      (a0&a1&a2&a3&a4&a5&a6&a7&a8&a9&a10&a11&a12&a13&a14&a15&->).
    unfold ztake, zdrop, znth, all_zero in H.
    change (Z.to_nat 10) with 10%nat in H. change (Z.to_nat 11) with 11%nat in H.
    change (Z.to_nat 12) with 12%nat in H.
    cbn [firstn skipn nth forallb] in H.
    destruct (a0 =? 0) eqn:Z0; [|discriminate].
    destruct (a1 =? 0) eqn:Z1; [|discriminate].
    destruct (a2 =? 0) eqn:Z2; [|discriminate].
    destruct (a3 =? 0) eqn:Z3; [|discriminate].
    destruct (a4 =? 0) eqn:Z4; [|discriminate].
    destruct (a5 =? 0) eqn:Z5; [|discriminate].
    destruct (a6 =? 0) eqn:Z6; [|discriminate].
    destruct (a7 =? 0) eqn:Z7; [|discriminate].
    destruct (a8 =? 0) eqn:Z8; [|discriminate].
    destruct (a9 =? 0) eqn:Z9; [|discriminate].
    cbn in H.
    destruct (a10 =? 255) eqn:Z10; [|discriminate].
    destruct (a11 =? 255) eqn:Z11; [|discriminate].
    cbn in H. inversion H; subst r.
    apply Z.eqb_eq in Z0, Z1, Z2, Z3, Z4, Z5, Z6, Z7, Z8, Z9, Z10, Z11. subst.
    splits; reflexivity.
Qed.

Lemma ip_equal_refl : forall ip, ip_equal ip ip = true.
Proof. intros. unfold ip_equal. rewrite Z.eqb_refl. apply bytes_eqb_refl. Qed.

Lemma ztake12_mapped : forall l, ztake 12 (v4_prefix ++ l) = v4_prefix.
Proof. reflexivity. Qed.
Lemma zdrop12_mapped : forall l, zdrop 12 (v4_prefix ++ l) = l.
Proof. reflexivity. Qed.

Lemma ip_equal_4_mapped : forall ip4, zlen ip4 = 4 -> ip_equal ip4 (v4_prefix ++ ip4) = true.
Proof.
  intros ip4 H. unfold ip_equal. rewrite ztake12_mapped, zdrop12_mapped, !bytes_eqb_refl.
  rewrite zlen_app, H. reflexivity.
Qed.

Lemma ip_equal_mapped_4 : forall ip4, zlen ip4 = 4 -> ip_equal (v4_prefix ++ ip4) ip4 = true.
Proof.
  intros ip4 H. unfold ip_equal. rewrite ztake12_mapped, zdrop12_mapped, !bytes_eqb_refl.
  rewrite zlen_app, H. reflexivity.
Qed.
