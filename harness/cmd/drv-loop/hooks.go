package main

import (
	"bytes"
	"fmt"
	"net"
	"runtime"
	"strconv"
	"sync"
	"time"

	"golang.org/x/sys/unix"

	"github.com/panjf2000/gnet/v2/pkg/vunix"

	"verifharness/tr"
)

// ---------------------------------------------------------------- goroutine ids

func goid() int64 {
	var buf [64]byte
	n := runtime.Stack(buf[:], false)
	// "goroutine 123 [running]:"
	b := buf[len("goroutine "):n]
	i := bytes.IndexByte(b, ' ')
	id, _ := strconv.ParseInt(string(b[:i]), 10, 64)
	return id
}

// ---------------------------------------------------------------- the recorder

type entry struct {
	tag  string // op | obs | fail
	line tr.Line
}

// inject describes a scripted kernel result for the k-th call of a kind on the loop thread
type inject struct {
	name  string // read | wr | close | epctl-add | epctl-mod | epctl-del | accept | recvfrom | sendto
	index int    // k-th matching call (0-based) within the case
	kind  string // errno name, or "short" (transfer at most `limit` bytes)
	limit int
	cid   int // restrict to this connection's fd (-1 = any)
}

type recorder struct {
	mu   sync.Mutex
	cond *sync.Cond
	log  []entry

	// thread identification
	epfds    []int // pollers in creation order
	efds     []int
	loopEpfd int
	loopEfd  int
	accEpfd  int
	loopG    int64
	reactor  bool
	sockets  []int
	accG     int64

	idle    bool
	wakeSeq int
	exited  bool

	// connection numbering: gid = global identity of a connection in this case (harness bookkeeping,
	// oracles); mcid = its number in the modelled loop (loop 0), mirroring Model/Loop.v's accept order,
	// -1 for connections served by the other loops of a multi-loop engine (oracle-only)
	nextCid       int // next model cid
	nextGid       int
	batchFds      map[int]bool // descriptors reported by the loop's current epoll_wait batch
	closedInBatch map[int]bool // ... and closed by the framework since that batch was fetched
	userFds       []int        // descriptors handed to the user by Conn.Dup: the framework must never touch them
	injectedAcc   []string     // faults injected into the main reactor's accept4 calls
	acceptFatal   bool         // a fatal accept error was injected: the engine is expected to shut down
	startFault    *inject      // focus startfault: a system call of the start sequence that is made to fail (any thread)
	startFaultHit bool
	shutdownAsked bool        // a callback returned Shutdown: the engine is expected to stop
	fdCid         map[int]int // fd -> gid
	gidM          map[int]int // gid -> mcid
	nloops        int
	accCount      int            // accepts seen on the acceptor thread (round-robin target = accCount % nloops)
	otherG        map[int64]bool // goroutines of loops 1..n-1
	idleG         map[int64]bool // loop goroutine -> inside a blocking epoll_wait

	// descriptor ledger (C07): descriptors created by the framework and not yet closed
	owned     map[int]string
	ledgerOn  bool
	poke      string // the harness is calling a method of a connection handle in this situation (e.g. stale-handle)
	efdWrites int    // writes to a wake-up descriptor (any thread): a task has been queued for a loop
	nCloses   int    // close(2) calls on descriptors the framework owned (any thread)
	nStray    int    // close(2) calls on descriptor numbers it did not own at that point
	canaries  map[int]*net.UDPConn

	// per-connection ground truth for the oracles
	delivered map[int][]byte // cid -> bytes the kernel returned to read(2)
	handed    map[int]int    // cid -> bytes the kernel accepted from write/writev
	handedB   map[int][]byte

	injects    []inject
	faulted    map[int]string // cid -> fatal fault injected on its behalf
	closing    map[int]bool   // cid -> its OnClose has started
	counters   map[string]int
	injected   []string
	shutdown   bool
	stopLogged bool
	dialUDP    bool
	overflow   bool
	curCallBy  map[int64]string // per goroutine: handler API call in progress (for oracle signatures)
	ptr2fd     map[uint64]int   // poll_opt: epoll data (attachment pointer) -> descriptor it was registered for
	suppressBy map[int64]bool   // goroutines whose system calls are, for the moment, the harness's own extra actions and not part of the trace (per goroutine: loops run concurrently)
	acceptGate chan struct{}    // when set, the loop thread waits here before accept(2)
	client     bool
}

func newRecorder() *recorder {
	r := &recorder{suppressBy: map[int64]bool{}, curCallBy: map[int64]string{}, ptr2fd: map[uint64]int{}, gidM: map[int]int{}, otherG: map[int64]bool{}, idleG: map[int64]bool{}, nloops: 1, fdCid: map[int]int{}, owned: map[int]string{}, delivered: map[int][]byte{},
		handed: map[int]int{}, handedB: map[int][]byte{}, faulted: map[int]string{}, closing: map[int]bool{}, counters: map[string]int{}, canaries: map[int]*net.UDPConn{},
		loopEpfd: -1, loopEfd: -1, accEpfd: -1}
	r.cond = sync.NewCond(&r.mu)
	return r
}

// add appends to the log; a loop that spins produces events without end: the log is capped and the
// case is then reported as wedged (the driver's idle detection normally fires long before)
func (r *recorder) add(tag string, l tr.Line) {
	if len(r.log) >= 400000 {
		if !r.overflow {
			r.overflow = true
			r.log = append(r.log, entry{"fail", tr.L("loop-stuck", "log-overflow", "#", "more than 400000 events in one case: the loop is spinning")})
		}
		return
	}
	r.log = append(r.log, entry{tag, l})
}

// Op/Obs/Fail from harness code (takes the lock)
func (r *recorder) Op(l tr.Line)  { r.mu.Lock(); r.add("op", l); r.mu.Unlock() }
func (r *recorder) Obs(l tr.Line) { r.mu.Lock(); r.add("obs", l); r.mu.Unlock() }
func (r *recorder) Fail(site, sig, detail string) {
	r.mu.Lock()
	r.failLocked(site, sig, detail)
	r.mu.Unlock()
}
func (r *recorder) failLocked(site, sig, detail string) {
	r.add("fail", tr.L(site, sig, "#", detail))
}

func errnoName(err error) string {
	if err == nil {
		return "nil"
	}
	if e, ok := err.(unix.Errno); ok {
		switch e {
		case unix.EAGAIN:
			return "eagain"
		case unix.EINTR:
			return "eintr"
		case unix.ECONNRESET:
			return "econnreset"
		case unix.ECONNABORTED:
			return "econnaborted"
		case unix.EPIPE:
			return "epipe"
		case unix.EBADF:
			return "ebadf"
		case unix.EINVAL:
			return "einval"
		case unix.ENOMEM:
			return "enomem"
		case unix.ETIMEDOUT:
			return "etimedout"
		case unix.ENOENT:
			return "enoent"
		case unix.EEXIST:
			return "eexist"
		case unix.EMFILE:
			return "emfile"
		case unix.ENOTCONN:
			return "enotconn"
		}
		return "errno" + strconv.Itoa(int(e))
	}
	return "err"
}

func errnoOf(name string) unix.Errno {
	switch name {
	case "eagain":
		return unix.EAGAIN
	case "eintr":
		return unix.EINTR
	case "econnreset":
		return unix.ECONNRESET
	case "econnaborted":
		return unix.ECONNABORTED
	case "epipe":
		return unix.EPIPE
	case "ebadf":
		return unix.EBADF
	case "einval":
		return unix.EINVAL
	case "enomem":
		return unix.ENOMEM
	case "etimedout":
		return unix.ETIMEDOUT
	case "emfile":
		return unix.EMFILE
	}
	return unix.EIO
}

func saString(sa unix.Sockaddr) string {
	switch a := sa.(type) {
	case *unix.SockaddrInet4:
		return net.JoinHostPort(net.IP(a.Addr[:]).String(), strconv.Itoa(a.Port))
	case *unix.SockaddrInet6:
		host := net.IP(a.Addr[:]).String()
		if a.ZoneId != 0 {
			// a scoped address: the zone is part of it (named after the interface, as package net prints it)
			if ifi, err := net.InterfaceByIndex(int(a.ZoneId)); err == nil {
				host += "%" + ifi.Name
			} else {
				host += "%" + strconv.Itoa(int(a.ZoneId))
			}
		}
		return net.JoinHostPort(host, strconv.Itoa(a.Port))
	case *unix.SockaddrUnix:
		if a.Name == "" {
			return "unix:"
		}
		return "unix:" + a.Name
	}
	return "noaddr"
}

func concatIov(iov [][]byte) []byte {
	var b []byte
	for _, s := range iov {
		b = append(b, s...)
	}
	return b
}

// newConn registers a connection's descriptor (lock held): a fresh gid, and a model cid when the
// connection belongs to the modelled loop
func (r *recorder) newConn(fd int, modelled bool) int {
	gid := r.nextGid
	r.nextGid++
	r.fdCid[fd] = gid
	if modelled {
		r.gidM[gid] = r.nextCid
		r.nextCid++
	} else {
		r.gidM[gid] = -1
	}
	return gid
}

func (r *recorder) allIdle() bool {
	if r.exited || r.shutdown {
		return true // the loop is exiting (or gone): it will not come back to a blocking wait
	}
	if !r.idle {
		return false
	}
	for g := range r.otherG {
		if !r.idleG[g] {
			return false
		}
	}
	return true
}

func (r *recorder) onLoop(g int64) bool { return r.loopG != 0 && g == r.loopG }

// ledger: is fd currently owned by the framework?
func (r *recorder) checkOwned(c *vunix.Call, fd int, g int64) {
	if !r.ledgerOn || fd < 0 {
		return
	}
	if _, ok := r.owned[fd]; !ok {
		who := "ext"
		if r.onLoop(g) {
			who = "loop"
		} else if g == r.accG {
			who = "acceptor"
		}
		name := c.Name
		if name == "epoll_ctl" {
			name += map[int]string{unix.EPOLL_CTL_ADD: "-add", unix.EPOLL_CTL_MOD: "-mod", unix.EPOLL_CTL_DEL: "-del"}[c.Arg]
		}
		if who == "loop" && r.curCallBy[g] != "" && (name == "sendto" || name == "send") {
			name += "@" + r.curCallBy[g]
		}
		if who == "ext" && r.poke != "" {
			name += "@" + r.poke
		}
		if who == "loop" && name == "epoll_ctl-del" && r.batchFds[fd] && r.closedInBatch[fd] {
			// the reactor's stale-event branch: the descriptor had an event in the batch being
			// processed and was closed (by another connection's callback) earlier in that batch
			name += "@stale-event"
		}
		r.failLocked("fd-not-owned", fmt.Sprintf("%s:%s", who, name),
			fmt.Sprintf("%s on descriptor %d which the framework does not own at this point", c.Name, fd))
	}
}

func (r *recorder) Before(c *vunix.Call) {
	g := goid()
	r.mu.Lock()
	defer r.mu.Unlock()
	// learn thread identities from the poller a goroutine waits on
	if c.Name == "epoll_wait" {
		if c.Fd == r.loopEpfd && r.loopG == 0 {
			r.loopG = g
		} else if c.Fd == r.accEpfd && r.accG == 0 {
			r.accG = g
		} else if c.Fd != r.loopEpfd && c.Fd != r.accEpfd && !r.otherG[g] {
			for i, e := range r.epfds {
				if e == c.Fd && i > 0 && i < r.nloops {
					r.otherG[g] = true
				}
			}
		}
		if c.Arg < 0 && (g == r.loopG || r.otherG[g]) {
			r.idleG[g] = true
			r.cond.Broadcast()
		}
	}
	// ---- descriptor ledger: every call names a descriptor the framework must own
	switch c.Name {
	case "read", "write", "writev", "readv", "close", "accept4", "accept", "recvfrom", "sendto", "send", "epoll_wait":
		r.checkOwned(c, c.Fd, g)
	case "epoll_ctl":
		r.checkOwned(c, c.Fd, g)
		r.checkOwned(c, c.Arg2, g)
	case "fcntl":
		if c.Arg == unix.F_DUPFD_CLOEXEC && r.poke != "" {
			// Conn.Dup duplicates the connection's descriptor, which the framework must own (Enroll / Dial / Register
			// duplicate the CALLER's descriptor: those are not looked at)
			r.checkOwned(c, c.Fd, g)
		}
	}
	if sf := r.startFault; sf != nil && !r.startFaultHit && c.Name == sf.name && (c.Name != "epoll_ctl" || c.Arg == unix.EPOLL_CTL_ADD) {
		k := r.counters["start:"+sf.name]
		r.counters["start:"+sf.name] = k + 1
		if k == sf.index {
			c.Skip, c.Ret, c.Err = true, -1, errnoOf(sf.kind)
			r.startFaultHit = true
		}
	}
	if r.otherG[g] && c.Name == "epoll_wait" {
		return
	}
	if g == r.accG && g != 0 && (c.Name == "accept4" || c.Name == "accept") && !r.suppressBy[g] {
		// the main reactor (not modelled: its effect on the loop is the `accepted` line): transient
		// accept4 failures; the pending connection stays queued, so a correct acceptor takes it at once
		k := r.counters["accept0"]
		r.counters["accept0"] = k + 1
		for _, in := range r.injects {
			if in.name == "accept0" && in.index == k {
				if in.kind == "emfile" {
					r.acceptFatal = true // the main reactor gives up: the engine shuts down
				}
				c.Skip, c.Ret, c.Err = true, -1, errnoOf(in.kind)
				r.injectedAcc = append(r.injectedAcc, fmt.Sprintf("accept0#%d %s", k, in.kind))
			}
		}
	}
	if !r.onLoop(g) || r.suppressBy[g] {
		return
	}
	// ---- loop thread: observation + optional injection
	switch c.Name {
	case "epoll_wait":
		if c.Arg < 0 {
			r.idle = true
			r.cond.Broadcast()
		}
		r.maybeInject(c, "wait")
		return
	case "read":
		if c.Fd == r.loopEfd {
			r.add("obs", tr.L("sys", "read", tr.I(c.Fd)))
		} else {
			r.add("obs", tr.L("sys", "read", tr.I(c.Fd), tr.I(len(c.Buf))))
			r.maybeInject(c, "read")
		}
	case "write":
		if c.Fd == r.loopEfd {
			r.add("obs", tr.L("sys", "write", tr.I(c.Fd)))
		} else {
			r.add("obs", tr.L("sys", "wr", tr.I(c.Fd)))
			r.maybeInject(c, "wr")
		}
	case "writev":
		r.add("obs", tr.L("sys", "wr", tr.I(c.Fd)))
		r.maybeInject(c, "wr")
	case "close":
		r.add("obs", tr.L("sys", "close", tr.I(c.Fd)))
		r.maybeInject(c, "close")
	case "epoll_ctl":
		op := map[int]string{unix.EPOLL_CTL_ADD: "add", unix.EPOLL_CTL_MOD: "mod", unix.EPOLL_CTL_DEL: "del"}[c.Arg]
		r.add("obs", tr.L("sys", "epctl", op, tr.I(c.Arg2), tr.B(c.Events&unix.EPOLLOUT != 0), tr.B(c.Events&unix.EPOLLET != 0)))
		r.maybeInject(c, "epctl-"+op)
	case "accept4", "accept":
		if g := r.acceptGate; g != nil {
			r.mu.Unlock()
			select {
			case <-g:
			case <-time.After(2 * time.Second):
			}
			r.mu.Lock()
		}
		r.add("obs", tr.L("sys", "accept", tr.I(c.Fd)))
		r.maybeInject(c, "accept")
	case "recvfrom":
		r.add("obs", tr.L("sys", "recvfrom", tr.I(c.Fd), tr.I(len(c.Buf))))
		r.maybeInject(c, "recvfrom")
	case "sendto", "send":
		r.add("obs", tr.L("sys", "sendto", tr.I(c.Fd), tr.X(c.Buf), tr.B(c.Sa != nil)))
		r.maybeInject(c, "sendto")
	}
}

// maybeInject consults the fault script (lock held)
func (r *recorder) maybeInject(c *vunix.Call, name string) {
	k := r.counters[name]
	r.counters[name] = k + 1
	for _, in := range r.injects {
		if in.name != name || in.index != k {
			continue
		}
		if in.cid >= 0 {
			fd := c.Fd
			if c.Name == "epoll_ctl" {
				fd = c.Arg2
			}
			if cid, ok := r.fdCid[fd]; !ok || r.gidM[cid] != in.cid {
				continue
			}
		}
		if in.kind == "eagain" && name == "wr" && len(c.Buf) == 0 && len(concatIov(c.Iov)) == 0 {
			continue // the kernel never answers a zero-length write with EAGAIN: not a coherent fault
		}
		if in.kind == "short" {
			// shorten the transfer the real call may perform
			if c.Buf != nil && len(c.Buf) > in.limit && in.limit > 0 {
				c.Buf = c.Buf[:in.limit]
			} else if c.Iov != nil && in.limit > 0 {
				var iov [][]byte
				left := in.limit
				for _, s := range c.Iov {
					if left == 0 {
						break
					}
					if len(s) > left {
						s = s[:left]
					}
					iov = append(iov, s)
					left -= len(s)
				}
				c.Iov = iov
			}
			r.injected = append(r.injected, fmt.Sprintf("%s#%d short %d", name, k, in.limit))
			return
		}
		fd := c.Fd
		if c.Name == "epoll_ctl" {
			fd = c.Arg2
		}
		if name == "close" || name == "epctl-del" || name == "recvfrom" {
			// (recvfrom: the datagram is consumed and the call reports an error, as when the kernel hands back a
			// pending socket error instead of data; leaving it queued would stall an edge-triggered listener)
			// close(2) releases the descriptor even when it reports an error; and a registration whose
			// EPOLL_CTL_DEL "failed" must still be gone from the kernel's point of view: a DEL of a registered
			// descriptor cannot fail in reality, and leaving the entry behind would make the kernel report a
			// closed descriptor for ever once the user holds a Dup of the socket (an artefact of the injection,
			// not behaviour of the code under test)
			c.Post = errnoOf(in.kind)
		} else {
			c.Skip = true
			c.Ret = -1
			c.Err = errnoOf(in.kind)
		}
		if name == "accept" && in.kind != "eintr" && in.kind != "econnaborted" && in.kind != "econnreset" && in.kind != "eagain" {
			r.acceptFatal = true
		}
		transient := in.kind == "eagain" || in.kind == "eintr"
		if !transient {
			if cid, ok := r.fdCid[fd]; ok && !r.closing[cid] {
				r.faulted[cid] = name + ":" + in.kind
			}
			if name == "read" || name == "wr" || name == "epctl-mod" || name == "epctl-add" {
				// coherent fault: a socket that reports a fatal error is dead for the kernel too
				_ = unix.Shutdown(fd, unix.SHUT_RDWR)
			}
		}
		r.injected = append(r.injected, fmt.Sprintf("%s#%d %s", name, k, in.kind))
		return
	}
}

func (r *recorder) After(c *vunix.Call) {
	g := goid()
	r.mu.Lock()
	defer r.mu.Unlock()
	// ---- ledger updates (all threads)
	switch c.Name {
	case "write":
		for _, e := range r.efds {
			if e == c.Fd {
				r.efdWrites++
			}
		}
	case "epoll_create1":
		if c.Err == nil {
			r.owned[c.Ret] = "epoll"
			r.epfds = append(r.epfds, c.Ret)
		}
	case "eventfd":
		if c.Err == nil {
			r.owned[c.Ret] = "eventfd"
			r.efds = append(r.efds, c.Ret)
			if len(r.efds) == 1 && len(r.epfds) >= 1 {
				r.loopEpfd, r.loopEfd = r.epfds[0], r.efds[0]
			} else if r.reactor && len(r.efds) == r.nloops+1 && len(r.epfds) >= r.nloops+1 {
				r.accEpfd = r.epfds[r.nloops]
			}
		}
	case "socket":
		if c.Err == nil {
			r.owned[c.Ret] = "socket"
			r.sockets = append(r.sockets, c.Ret)
		}
	case "accept4", "accept":
		if c.Err == nil {
			r.owned[c.Ret] = "accepted"
		}
	case "fcntl":
		if c.Err == nil && c.Arg == unix.F_DUPFD_CLOEXEC {
			r.owned[c.Ret] = "dup"
			if r.client && !r.onLoop(g) {
				// Client.Dial/Enroll: the dup'ed socket travels to the loop in a register task
				r.newConn(c.Ret, true)
				r.add("op", tr.L("dial", tr.I(c.Ret), tr.B(r.dialUDP)))
			}
		}
	case "close":
		if !c.Skip {
			if _, ok := r.owned[c.Fd]; ok {
				r.nCloses++
			} else if c.Fd >= 0 {
				r.nStray++
			}
			delete(r.owned, c.Fd)
		}
		if r.closedInBatch != nil {
			r.closedInBatch[c.Fd] = true
		}
	case "epoll_ctl":
		if pollOpt && c.Err == nil && c.Arg != unix.EPOLL_CTL_DEL {
			r.ptr2fd[c.Data] = c.Arg2
		}
	}
	if g == r.accG && (c.Name == "accept4" || c.Name == "accept") && c.Err == nil {
		// the main reactor hands the socket to loop accCount % nloops (round-robin)
		mine := r.accCount%r.nloops == 0
		r.accCount++
		r.newConn(c.Ret, mine)
		if mine {
			r.add("op", tr.L("accepted", tr.I(c.Ret)))
		}
		return
	}
	if r.otherG[g] {
		// a loop that is not modelled: only the ground truth for the oracles
		switch c.Name {
		case "epoll_wait":
			r.idleG[g] = false
			if c.Ret > 0 {
				r.wakeSeq++
			}
		case "accept4", "accept":
			if c.Err == nil {
				r.newConn(c.Ret, false)
			}
		case "read":
			if c.Err == nil && c.Ret > 0 {
				if gid, ok := r.fdCid[c.Fd]; ok {
					r.delivered[gid] = append(r.delivered[gid], c.Buf[:c.Ret]...)
				}
			}
		case "write", "writev":
			if c.Err == nil && c.Ret > 0 {
				off := c.Buf
				if c.Name == "writev" {
					off = concatIov(c.Iov)
				}
				if gid, ok := r.fdCid[c.Fd]; ok {
					r.handed[gid] += c.Ret
					r.handedB[gid] = append(r.handedB[gid], off[:c.Ret]...)
				}
			}
		}
		return
	}
	if !r.onLoop(g) || r.suppressBy[g] {
		return
	}
	ret := func(name string, n int, err error, extra ...string) {
		if err != nil {
			r.add("op", tr.L("r", name, "-1", errnoName(err)))
		} else {
			r.add("op", tr.L("r", append([]string{name, tr.I(n)}, extra...)...))
		}
	}
	switch c.Name {
	case "epoll_wait":
		r.idle = false
		r.idleG[g] = false
		if c.Ret > 0 {
			r.wakeSeq++
			args := []string{}
			r.batchFds, r.closedInBatch = map[int]bool{}, map[int]bool{}
			for i := 0; i < c.Ret; i++ {
				// fault "evmask": an event that carries a hang-up / error condition is handed to the loop without
				// its readable/writable bits (the kernel reports such events for a socket that is broken and has
				// nothing left to read or write; loopback tests practically never see them)
				if ev := c.EvList[i].Events; !pollOpt && ev&(unix.EPOLLHUP|unix.EPOLLERR|unix.EPOLLRDHUP) != 0 {
					if _, isConn := r.fdCid[int(c.EvList[i].Fd)]; isConn {
						for _, in := range r.injects {
							if in.name != "evmask" {
								continue
							}
							k := r.counters["evmask"]
							r.counters["evmask"] = k + 1
							if k == in.index {
								if in.kind == "hup-only" {
									ev &^= unix.EPOLLIN | unix.EPOLLOUT | unix.EPOLLPRI
								} else if ev&unix.EPOLLRDHUP != 0 { // rdhup-no-in
									ev &^= unix.EPOLLIN | unix.EPOLLPRI
								}
								c.EvList[i].Events = ev
								// coherent with what the loop is told: the connection IS broken from now on (a write
								// issued later, e.g. from OnClose, fails instead of reaching a peer that is still there)
								_ = unix.Shutdown(int(c.EvList[i].Fd), unix.SHUT_RDWR)
								r.injected = append(r.injected, fmt.Sprintf("evmask#%d %s", k, in.kind))
							}
						}
					}
				}
				fd := int(c.EvList[i].Fd)
				if pollOpt { // the event carries the attachment pointer, not the descriptor
					d := uint64(uint32(c.EvList[i].Fd)) | uint64(uint32(c.EvList[i].Pad))<<32
					if f, ok := r.ptr2fd[d]; ok {
						fd = f
					} else {
						fd = -2
					}
				}
				r.batchFds[fd] = true
				args = append(args, tr.I(fd), tr.I(int(c.EvList[i].Events)))
				// C07 "polls only descriptors it owns": an event for a number the framework has already
				// closed means its registration outlived the descriptor
				if _, ok := r.owned[fd]; !ok && fd >= 0 && r.ledgerOn {
					r.failLocked("fd-not-owned", "loop:epoll_wait-event", fmt.Sprintf("epoll_wait reported descriptor %d, which the framework does not own at this point", fd))
				}
			}
			r.add("op", tr.L("wait", args...))
		}
	case "read":
		if c.Fd == r.loopEfd {
			ret("read", c.Ret, c.Err)
		} else if c.Err != nil || c.Ret <= 0 {
			ret("read", c.Ret, c.Err)
		} else {
			ret("read", c.Ret, nil, tr.X(c.Buf[:c.Ret]))
			if cid, ok := r.fdCid[c.Fd]; ok {
				r.delivered[cid] = append(r.delivered[cid], c.Buf[:c.Ret]...)
			}
		}
	case "write", "writev":
		if c.Name == "write" && c.Fd == r.loopEfd {
			ret("write", c.Ret, c.Err)
			break
		}
		off := c.Buf
		if c.Name == "writev" {
			off = concatIov(c.Iov)
		}
		if c.Err != nil {
			r.add("op", tr.L("r", "wr", tr.I(len(off)), "-1", errnoName(c.Err)))
		} else {
			r.add("op", tr.L("r", "wr", tr.I(len(off)), tr.I(c.Ret)))
			if cid, ok := r.fdCid[c.Fd]; ok && c.Ret > 0 {
				r.handed[cid] += c.Ret
				r.handedB[cid] = append(r.handedB[cid], off[:c.Ret]...)
			}
		}
		r.add("obs", tr.L("wdata", tr.X(off)))
	case "close":
		ret("close", 0, c.Err)
	case "epoll_ctl":
		ret("epctl", 0, c.Err)
	case "accept4", "accept":
		if c.Err == nil {
			r.newConn(c.Ret, true)
		}
		ret("accept", c.Ret, c.Err)
	case "recvfrom":
		if c.Err != nil {
			ret("recvfrom", -1, c.Err)
		} else {
			ret("recvfrom", c.Ret, nil, tr.X(c.Buf[:c.Ret]), saString(c.Sa))
		}
	case "sendto", "send":
		ret("sendto", 0, c.Err)
	}
}

// waitQuiet blocks until the loop thread sits in a blocking epoll_wait and has
// not been woken for `settle`; gives up after `max`.
func (r *recorder) waitQuiet(settle, max time.Duration) bool {
	deadline := time.Now().Add(max)
	for {
		r.mu.Lock()
		seq := r.wakeSeq
		idle := r.allIdle()
		r.mu.Unlock()
		if idle {
			time.Sleep(settle)
			r.mu.Lock()
			ok := r.allIdle() && r.wakeSeq == seq
			r.mu.Unlock()
			if ok {
				return true
			}
		} else {
			time.Sleep(50 * time.Microsecond)
		}
		if time.Now().After(deadline) {
			return false
		}
	}
}

// waitWoken waits until the loop has been woken at least once since seq0 and is quiet again.
func (r *recorder) waitWoken(seq0 int, settle, max time.Duration) bool {
	deadline := time.Now().Add(max)
	for {
		r.mu.Lock()
		woke := r.wakeSeq > seq0 || r.exited
		r.mu.Unlock()
		if woke {
			return r.waitQuiet(settle, max)
		}
		if time.Now().After(deadline) {
			return false
		}
		time.Sleep(50 * time.Microsecond)
	}
}

func (r *recorder) seq() int {
	r.mu.Lock()
	defer r.mu.Unlock()
	return r.wakeSeq
}
