package main

// Part of focus "startfault" (oracle only, no model trace): a Client that is stopped while an
// Enroll / Dial is IN FLIGHT.  The only event loop is parked inside a callback, so the register task
// of the new connection waits in the loop's queue while Client.Stop runs its first half (shutdown
// flag, OnShutdown, the exit task).  Whatever order the two requests end up in, the duplicated
// descriptor has exactly one owner at any time: nobody closes it while the loop still is to register
// it, it is closed exactly once, and nothing of the framework is open after Stop has returned (C07).
// If Enroll reports success the connection got its OnOpen, and every OnOpen is followed by one
// OnClose before Stop returns (C04).

import (
	"fmt"
	"net"
	"os"
	"runtime"
	"strings"
	"sync"
	"sync/atomic"
	"time"

	gnet "github.com/panjf2000/gnet/v2"
	"github.com/panjf2000/gnet/v2/pkg/vunix"

	"verifharness/tr"
)

type raceHandler struct {
	gnet.BuiltinEventEngine
	parkOnce   sync.Once
	parked     chan struct{}
	release    chan struct{}
	opens      atomic.Int32
	closes     atomic.Int32
	shutdowns  atomic.Int32
	shutdownCb func()
}

func (h *raceHandler) OnOpen(gnet.Conn) ([]byte, gnet.Action) { h.opens.Add(1); return nil, gnet.None }
func (h *raceHandler) OnClose(gnet.Conn, error) gnet.Action   { h.closes.Add(1); return gnet.None }
func (h *raceHandler) OnTraffic(c gnet.Conn) gnet.Action {
	_, _ = c.Discard(-1)
	h.parkOnce.Do(func() {
		close(h.parked)
		<-h.release
	})
	return gnet.None
}
func (h *raceHandler) OnShutdown(gnet.Engine) {
	if h.shutdowns.Add(1) == 1 && h.shutdownCb != nil {
		h.shutdownCb()
	}
}

// flushFails copies the failures the descriptor ledger recorded into the trace
func flushFails(w *tr.Writer, rec *recorder) {
	rec.mu.Lock()
	defer rec.mu.Unlock()
	for _, e := range rec.log {
		if e.tag == "fail" && len(e.line.Args) >= 2 {
			w.Fail(e.line.Name, e.line.Args[0], strings.Join(e.line.Args[2:], " "))
		}
	}
	rec.log = nil
}

func runStopRace(w *tr.Writer, seed uint64, idx int) {
	rnd := tr.NewRand(seed*1000211 + uint64(idx))
	proto := rnd.PickS([]string{"tcp", "tcp", "unix"})
	variant := rnd.PickS([]string{"enroll-then-stop", "enroll-in-onshutdown", "dial-then-stop"})
	victims := rnd.Chance(50)

	rec := newRecorder()
	rec.ledgerOn = true
	vunix.SetHooks(rec)
	defer vunix.SetHooks(nil)

	w.Case(fmt.Sprintf("SR%d", idx), "loopstart", "proto="+proto, "variant="+variant, "victims="+tr.B(victims),
		"focus=startfault", "seed="+tr.U64(seed), "idx="+tr.I(idx))
	defer w.End()

	var ln net.Listener
	var err error
	if proto == "unix" {
		pcount++
		p := fmt.Sprintf("/var/tmp/vloop-sr-%d-%d.sock", os.Getpid(), pcount)
		os.Remove(p)
		defer os.Remove(p)
		ln, err = net.Listen("unix", p)
	} else {
		ln, err = net.Listen("tcp", "127.0.0.1:0")
	}
	if err != nil {
		w.Hist("stoprace-no-listener")
		return
	}
	defer ln.Close()
	var srvConns []net.Conn
	var srvMu sync.Mutex
	go func() {
		for {
			c, err := ln.Accept()
			if err != nil {
				return
			}
			srvMu.Lock()
			srvConns = append(srvConns, c)
			srvMu.Unlock()
		}
	}()
	defer func() {
		srvMu.Lock()
		for _, c := range srvConns {
			c.Close()
		}
		srvMu.Unlock()
	}()

	h := &raceHandler{parked: make(chan struct{}), release: make(chan struct{})}
	cli, err := gnet.NewClient(h, gnet.WithNumEventLoop(1))
	if err != nil {
		w.Fail("engine-start", "client-new", err.Error())
		return
	}
	if err = cli.Start(); err != nil {
		w.Fail("engine-start", "client-start", err.Error())
		return
	}
	first, err := cli.Dial(ln.Addr().Network(), ln.Addr().String())
	if err != nil {
		w.Fail("client-dial", "error", err.Error())
		_ = cli.Stop()
		return
	}
	_ = first
	// the peer says something: the loop parks inside OnTraffic
	var pc net.Conn
	for t0 := time.Now(); pc == nil && time.Since(t0) < 2*time.Second; time.Sleep(time.Millisecond) {
		srvMu.Lock()
		if len(srvConns) > 0 {
			pc = srvConns[0]
		}
		srvMu.Unlock()
	}
	if pc == nil {
		w.Hist("stoprace-no-peer")
		close(h.release)
		_ = cli.Stop()
		return
	}
	pc.Write([]byte("park"))
	select {
	case <-h.parked:
	case <-time.After(2 * time.Second):
		w.Hist("stoprace-not-parked")
		close(h.release)
		_ = cli.Stop()
		return
	}

	efdWrites := func() int { rec.mu.Lock(); defer rec.mu.Unlock(); return rec.efdWrites }
	type res struct {
		c   gnet.Conn
		err error
	}
	enrolled := make(chan res, 1)
	triggered := false
	enroll := func() {
		base := efdWrites()
		go func() {
			var r res
			if variant == "dial-then-stop" {
				r.c, r.err = cli.Dial(ln.Addr().Network(), ln.Addr().String())
			} else {
				var nc net.Conn
				if nc, r.err = net.Dial(ln.Addr().Network(), ln.Addr().String()); r.err == nil {
					r.c, r.err = cli.Enroll(nc)
				}
			}
			enrolled <- r
		}()
		// the register task is in the loop's queue once the wake-up descriptor has been written
		for t0 := time.Now(); time.Since(t0) < time.Second; time.Sleep(200 * time.Microsecond) {
			if efdWrites() > base {
				triggered = true
				break
			}
		}
		time.Sleep(time.Millisecond)
	}
	inShutdown := make(chan struct{})
	h.shutdownCb = func() {
		if variant == "enroll-in-onshutdown" {
			enroll()
		}
		close(inShutdown)
	}
	if variant != "enroll-in-onshutdown" {
		enroll()
	}
	stopped := make(chan error, 1)
	go func() { stopped <- cli.Stop() }()
	select {
	case <-inShutdown:
	case <-time.After(3 * time.Second):
	}
	time.Sleep(time.Duration(rnd.Pick([]int{0, 1, 5})) * time.Millisecond)
	// somebody else's descriptors, opened while the request is in flight: they get the lowest free numbers
	var mine []*os.File
	if victims {
		for i := 0; i < 8; i++ {
			if f, e := os.Open("/dev/null"); e == nil {
				mine = append(mine, f)
			}
		}
	}
	close(h.release)
	select {
	case <-stopped:
	case <-time.After(5 * time.Second):
		w.Fail("engine-start", "stop-did-not-return", "Client.Stop did not return within 5 s ("+variant+")")
		if os.Getenv("VERIF_STALL_DUMP") != "" {
			buf := make([]byte, 1<<20)
			n := runtime.Stack(buf, true)
			os.WriteFile(fmt.Sprintf("%s/stall-%d-%d.txt", os.Getenv("VERIF_STALL_DUMP"), os.Getpid(), idx), buf[:n], 0o644)
		}
		return
	}
	for _, f := range mine {
		// the application's own descriptors are still its own
		if _, e := f.Stat(); e != nil {
			w.Fail("fd-not-owned", "stranger-closed", fmt.Sprintf("a descriptor opened by the application while a client request was in flight was closed by somebody else: %v", e))
		}
		f.Close()
	}
	if !triggered {
		// the request never reached the loop's queue in time: nothing can be said about it
		w.Hist("stoprace-not-reached")
		flushFails(w, rec)
		return
	}
	w.Hist("stoprace-" + variant)
	var r res
	select {
	case r = <-enrolled:
		if r.err == nil {
			w.Hist("stoprace-enroll-ok")
		} else {
			w.Hist("stoprace-enroll-refused")
		}
	case <-time.After(2 * time.Second):
		w.Fail("engine-start", "enroll-did-not-return", "Client.Enroll/Dial, queued before the stop request, had not returned 2 s after Client.Stop returned ("+variant+")")
		return
	}
	left := 0
	for try := 0; try < 50; try++ {
		buf := make([]byte, 1<<20)
		n := runtime.Stack(buf, true)
		left = strings.Count(string(buf[:n]), "netpoll.(*Poller).Polling")
		if left == 0 {
			break
		}
		time.Sleep(2 * time.Millisecond)
	}
	if left > 0 {
		w.Fail("fd-not-owned", "goroutine-left-polling", fmt.Sprintf("%d goroutine(s) of the framework are still inside Poller.Polling after Client.Stop returned", left))
	}
	o, c := h.opens.Load(), h.closes.Load()
	want := int32(1)
	if r.err == nil {
		want = 2
	}
	if o < want {
		w.Fail("lifecycle", "enroll-ok-without-open", fmt.Sprintf("Enroll/Dial returned a connection but OnOpen ran %d time(s) for %d connections", o, want))
	}
	if o != c {
		w.Fail("lifecycle", "open-without-close", fmt.Sprintf("%d OnOpen but %d OnClose by the time Client.Stop returned", o, c))
	}
	rec.mu.Lock()
	for fd, kindOf := range rec.owned {
		w.Fail("fd-leak", kindOf, fmt.Sprintf("descriptor %d (%s) still open after Client.Stop returned (%s, enroll err=%v)", fd, kindOf, variant, r.err))
	}
	rec.mu.Unlock()
	flushFails(w, rec)
	// the stopped client: a further Stop and a further Dial are refused and touch no descriptor -- the numbers of
	// the closed pollers are the application's by now
	var later []*os.File
	for i := 0; i < 6; i++ {
		if f, e := os.Open("/dev/null"); e == nil {
			later = append(later, f)
		}
	}
	_ = cli.Stop()
	dialed := make(chan error, 1)
	go func() { _, e := cli.Dial(ln.Addr().Network(), ln.Addr().String()); dialed <- e }()
	select {
	case e := <-dialed:
		if e == nil {
			w.Fail("lifecycle", "dial-on-stopped-client", "Client.Dial on a stopped client returned a connection")
		}
	case <-time.After(time.Second):
		w.Fail("engine-start", "dial-on-stopped-client-blocks", "Client.Dial on a stopped client had not returned after 1 s")
	}
	if n := h.shutdowns.Load(); n != 1 {
		w.Fail("lifecycle", "onshutdown-count", fmt.Sprintf("OnShutdown ran %d times for one client", n))
	}
	for _, f := range later {
		if _, e := f.Stat(); e != nil {
			w.Fail("fd-not-owned", "stranger-closed", fmt.Sprintf("a descriptor opened by the application after Client.Stop had returned was closed by a later call on the stopped client: %v", e))
		}
		f.Close()
	}
	rec.mu.Lock()
	for fd, kindOf := range rec.owned {
		w.Fail("fd-leak", kindOf, fmt.Sprintf("descriptor %d (%s) created by a call on the stopped client and left open", fd, kindOf))
	}
	rec.mu.Unlock()
	flushFails(w, rec)
	w.Hist("stoprace-stopped-client-calls")
}
