CHECK = dict(
    engine="sockaddr", design_ref="4 / C17",
    text="Proof on a Gallina transcription of pkg/socket/sockaddr.go (IPToSockaddr, SockaddrTo*Addr, UnixAddrToSockaddr, "
         "ip6ZoneToInt/String with itod/dtoi digit loops over a 32-byte buffer) and of the listen-side conversion: round "
         "trips for IPv4, IPv6, v4-in-v6 (up to IP.Equal), zones (names of the interface table, free decimal indices "
         "< 0xFFFFFF), Unix names, every port; nil results for invalid IP lengths and unsupported networks; never a "
         "panic on a non-nil address. Partial for numeric zones >= 0xFFFFFF (known finding, same limit as package net). "
         "The lifetime clause is proved on an address-store model and exercised by live servers under churn.",
    note="Assumes net.IP.To4/To16, the OS interface table (data), x/sys/unix sockaddr encoding and kernel truthfulness; "
         "the event-loop part of the lifetime clause belongs to the loop model (C01/C04) and C12.",
    technique="Coq proof (induction on decimal digits, list lemmas) + differential traces + live-server oracle",
)
ENGINE = dict(name="sockaddr", path="coq/Model/SockAddr.v", serves_properties=["C17"],
              kind_free_text="Gallina model of pkg/socket/sockaddr.go and sock_posix.go conversions + drv-sockaddr (conversion traces and live gnet servers)")
