CHECK = dict(
    engine="ring", design_ref="4 / C09",
    text="Full proof that the branch-by-branch Gallina model of ring.Buffer refines a FIFO byte list for every finite "
         "operation sequence, argument size, cursor position and contract-respecting reader/writer script (content, "
         "outputs, accounting, absence of panics), plus differential execution of the real ring.Buffer against the "
         "extracted model and a reference []byte FIFO oracle.",
    note="Model is hand-written and tied to /repo by differential traces only; pool-recycled buffer garbage is modelled "
         "as zeros (never observable once the invariant holds); int overflow is not modelled.",
    technique="Coq proof (invariant + refinement to a FIFO list, induction over op lists) + differential traces",
)
ENGINE = dict(name="ring", path="coq/Model/Ring.v", serves_properties=["C09"],
              kind_free_text="Gallina model of pkg/buffer/ring (incl. grow policy, scripted io.Reader/io.Writer) + drv-ring")
