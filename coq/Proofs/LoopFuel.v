(* C18, engine_survives: the recursion bound init_fuel never runs out.
   Measure: Mh w = 0 once the world is halted (nothing is logged any more), otherwise
   1 + weight of the remaining input (2 + #args per line) + number of queued tasks.
   Every procedure called with fuel >= Mh w + c (c a small constant per procedure,
   + #args for hcall) logs no fuel desync and does not increase the measure (hcall and
   trigger: by at most 1). *)
From GV Require Import Lib.Trace Model.Loop Spec.LoopSpec
  Proofs.LoopFaultBase Proofs.LoopFaultRel Proofs.LoopFaultProcs Proofs.LoopFaultTop.
From Coq Require Import Lia.
Open Scope string_scope.
Open Scope list_scope.
Open Scope Z_scope.

Definition lw (l : line) : nat := (2 + List.length (snd l))%nat.
Definition W (i : list line) : nat := fold_right (fun l a => (2 + List.length (snd l) + a)%nat) O i.
Definition ntasks (s : lstate) : nat := (List.length (l_urgent s) + List.length (l_low s))%nat.
Definition Mh (w : world) : Z := if halt w then 0 else 1 + Z.of_nat (W (inp w) + ntasks (st w)).
Definition FOK (w : world) : Prop := existsb is_fuel_desync (log w) = false.

Definition adv (d : Z) (w w' : world) : Prop := Mh w' = 0 \/ (0 < Mh w /\ Mh w' <= Mh w + d).
Definition need (c : Z) (fuel : nat) (w : world) : Prop := Mh w = 0 \/ Mh w + c <= Z.of_nat fuel.
Definition cons2 (w w' : world) : Prop :=
  Mh w' = 0 \/ (0 < Mh w /\ Mh w' + 2 <= Mh w /\ (List.length (inp w') < List.length (inp w))%nat).

Lemma Mh_nonneg : forall w, 0 <= Mh w.
Proof. intros w. unfold Mh. destruct (halt w); lia. Qed.

Lemma Mh_halt : forall w, halt w = true -> Mh w = 0.
Proof. intros w H. unfold Mh. rewrite H. reflexivity. Qed.

Lemma Mh_zero_halt : forall w, Mh w = 0 -> halt w = true.
Proof. intros w H. unfold Mh in H. destruct (halt w); [reflexivity|lia]. Qed.

Lemma Mh_emit : forall l w, Mh (emit l w) = Mh w.
Proof. intros. unfold emit, Mh. destruct (halt w) eqn:E; [rewrite E|]; reflexivity. Qed.

Lemma Mh_ghost : forall a b c w, Mh (ghost a b c w) = Mh w.
Proof. intros. apply Mh_emit. Qed.

Lemma Mh_wsetc : forall w cid c, Mh (wsetc w cid c) = Mh w.
Proof. reflexivity. Qed.

Lemma Mh_desync : forall what w, Mh (desync what w) = 0.
Proof. reflexivity. Qed.

Lemma Mh_set_reg : forall w r, Mh (with_st w (set_reg (st w) r)) = Mh w.
Proof. reflexivity. Qed.

Lemma FOK_emit : forall l w, is_fuel_desync (EOut l) = false -> FOK w -> FOK (emit l w).
Proof.
  intros l w Hl H. unfold emit, FOK in *. destruct (halt w); [exact H|].
  cbn [log existsb]. rewrite Hl, H. reflexivity.
Qed.

Lemma FOK_ghost : forall a b c w, FOK w -> FOK (ghost a b c w).
Proof. intros. apply FOK_emit; [reflexivity|assumption]. Qed.

Lemma FOK_wsetc : forall w cid c, FOK w -> FOK (wsetc w cid c).
Proof. intros w cid c H. exact H. Qed.

Lemma FOK_with_st : forall w s, FOK w -> FOK (with_st w s).
Proof. intros w s H. exact H. Qed.

Lemma FOK_desync : forall what w, sym_eqb what "fuel" = false -> FOK w -> FOK (desync what w).
Proof.
  intros what w Hw H. unfold desync, stop, FOK. cbn [log].
  change (FOK (emit (obs "desync" [ASym what]) w)). apply FOK_emit; [|exact H].
  cbn. exact Hw.
Qed.

(* the only way to reach a fuel desync with the invariant: already halted *)
Lemma FOK_desync_fuel : forall w, Mh w = 0 -> FOK w -> FOK (desync "fuel" w).
Proof.
  intros w Hm H. apply Mh_zero_halt in Hm. unfold desync, stop, emit, FOK. rewrite Hm. exact H.
Qed.

Global Hint Rewrite Mh_emit Mh_ghost Mh_wsetc Mh_desync : mh.

Ltac fok :=
  repeat first
    [ assumption
    | apply FOK_wsetc
    | apply FOK_ghost
    | apply FOK_emit; [reflexivity|]
    | apply FOK_desync; [reflexivity|] ].

(* ------------------------------------------------------------------ *)
(* input *)

Lemma ntasks_ext : forall s b t, ntasks (ext s b t) = S (ntasks s).
Proof.
  intros. unfold ext, set_flag, enqueue, ntasks.
  destruct (b && _); cbn [set_queues l_urgent l_low]; rewrite app_length; cbn [List.length]; lia.
Qed.

Lemma apply_async_ntasks : forall s l s', apply_async s l = Some s' -> ntasks s' = S (ntasks s).
Proof.
  intros s l s' H. apply apply_async_cases in H.
  destruct H as [[b [t [_ ->]]]|[b [cb [c [_ ->]]]]]; rewrite ntasks_ext; reflexivity.
Qed.

Lemma pull_from_fuel : forall picks i s lg s' lg' o r,
  pull_from picks s lg i = (s', lg', o, r) ->
  existsb is_fuel_desync lg = false ->
  existsb is_fuel_desync lg' = false /\
  (W r + ntasks s' + match o with Some l => lw l | None => 0 end <= W i + ntasks s)%nat /\
  match o with Some _ => (List.length r < List.length i)%nat | None => True end.
Proof.
  induction i as [|l i IH]; intros s lg s' lg' o r H Hf; cbn [pull_from] in H.
  - inversion H; subst. cbn. repeat split; auto; lia.
  - cbn [W fold_right List.length]. fold (W i).
    destruct (apply_async s l) as [s1|] eqn:Ha.
    + apply IH in H; [|cbn [existsb]; rewrite Hf; reflexivity].
      destruct H as [H1 [H2 H3]]. rewrite (apply_async_ntasks _ _ _ Ha) in H2.
      split; [exact H1|split; [lia|destruct o; auto; lia]].
    + destruct (negb picks && is_pick l).
      * apply IH in H; [|exact Hf]. destruct H as [H1 [H2 H3]].
        split; [exact H1|split; [lia|destruct o; auto; lia]].
      * inversion H; subst. cbn [existsb is_fuel_desync]. rewrite Hf. unfold lw.
        split; [reflexivity|split; lia].
Qed.

Lemma pull_gen_fuel : forall picks w o w',
  pull_gen picks w = (o, w') -> FOK w ->
  FOK w' /\
  match o with
  | None => Mh w' = 0
  | Some l => 0 < Mh w' /\ Mh w' + Z.of_nat (lw l) <= Mh w /\
              (List.length (inp w') < List.length (inp w))%nat
  end.
Proof.
  intros picks w o w' H Hf. unfold pull_gen in H.
  destruct (halt w) eqn:Hh.
  - inversion H; subst. split; [exact Hf|]. apply Mh_halt; exact Hh.
  - destruct (pull_from picks (st w) (log w) (inp w)) as [[[s1 lg1] o1] r1] eqn:Hp.
    destruct (pull_from_fuel _ _ _ _ _ _ _ _ Hp Hf) as [H1 [H2 H3]].
    destruct o1 as [l|]; inversion H; subst.
    + split; [exact H1|]. unfold Mh. rewrite Hh. cbn [halt inp st]. lia.
    + split; [exact H1|]. reflexivity.
Qed.

Lemma lw_ge2 : forall l, (2 <= lw l)%nat.
Proof. intros. unfold lw. lia. Qed.

Lemma sys_fuel : forall name args w k w',
  sys name args w = (k, w') -> FOK w -> FOK w' /\ cons2 w w'.
Proof.
  intros name args w k w' Hs Hf. unfold sys in Hs.
  set (w0 := emit (obs "sys" (ASym name :: args)) w) in *.
  assert (Hf0 : FOK w0) by (apply FOK_emit; [reflexivity|exact Hf]).
  assert (Hm0 : Mh w0 = Mh w /\ inp w0 = inp w).
  { split; [apply Mh_emit|]. unfold w0, emit. destruct (halt w); reflexivity. }
  destruct Hm0 as [Hm0 Hi0].
  destruct (sysret_cases _ _ _ _ Hs) as [o [w1 [Hp Hc]]].
  destruct (pull_gen_fuel _ _ _ _ Hp Hf0) as [Hf1 Hm1].
  destruct Hc as [[-> [-> ->]]|[[l [what [-> [-> [-> Hw]]]]]|[n [rest [-> [-> ->]]]]]].
  - split; [exact Hf1|left; exact Hm1].
  - split; [apply FOK_desync; assumption|left; reflexivity].
  - split; [exact Hf1|]. right. pose proof (lw_ge2 ("r", ASym name :: AInt n :: rest)).
    rewrite Hi0, Hm0 in *. lia.
Qed.

Lemma sys_wr_fuel : forall cid fd src exact w k w',
  sys_wr cid fd src exact w = (k, w') -> FOK w -> FOK w' /\ cons2 w w'.
Proof.
  intros cid fd src exact w k w' Hs Hf.
  set (w0 := emit (obs "sys" [ASym "wr"; AInt fd]) w) in *.
  assert (Hf0 : FOK w0) by (apply FOK_emit; [reflexivity|exact Hf]).
  assert (Hm0 : Mh w0 = Mh w /\ inp w0 = inp w).
  { split; [apply Mh_emit|]. unfold w0, emit. destruct (halt w); reflexivity. }
  destruct Hm0 as [Hm0 Hi0].
  destruct (sys_wr_cases _ _ _ _ _ _ _ Hs) as [o [w1 [Hp Hc]]]. fold w0 in Hp.
  destruct (pull_gen_fuel _ _ _ _ Hp Hf0) as [Hf1 Hm1].
  destruct Hc as [[-> [-> ->]]|[[l [what [-> [-> [-> Hw]]]]]|[off [n [rest [offered [-> Hc]]]]]]].
  - split; [exact Hf1|left; exact Hm1].
  - split; [apply FOK_desync; assumption|left; reflexivity].
  - cbv zeta in Hc.
    assert (Hinp : forall l ww, inp (emit l ww) = inp ww) by (intros; unfold emit; destruct (halt ww); reflexivity).
    pose proof (lw_ge2 ("r", ASym "wr" :: AInt off :: AInt n :: rest)) as Hlw.
    destruct Hc as [[_ [_ [_ ->]]]|[[_ [_ [_ ->]]]|[_ [_ [b ->]]]]]; unfold ghost;
      (split; [fok|right; rewrite ?Mh_emit, ?Hinp; rewrite Hi0, Hm0 in *; lia]).
Qed.

Lemma epctl_fuel : forall op fd rw et w r w',
  epctl op fd rw et w = (r, w') -> FOK w -> FOK w' /\ cons2 w w'.
Proof.
  intros op fd rw et w r w' He Hf. unfold epctl in He.
  destruct (sys "epctl" [ASym op; AInt fd; bool_arg rw; bool_arg et] w) as [k w1] eqn:Hs.
  destruct (sys_fuel _ _ _ _ _ Hs Hf). destruct k; inversion He; subst; auto.
Qed.

Definition lenfuel (fuel : nat) (w : world) : Prop := Mh w = 0 \/ (List.length (inp w) < fuel)%nat.

Lemma efd_write_fuel : forall fuel w r w',
  efd_write fuel w = (r, w') -> FOK w -> lenfuel fuel w -> FOK w' /\ adv 0 w w'.
Proof.
  induction fuel as [|f IH]; intros w r w' He Hf Hl; cbn [efd_write] in He.
  { inversion He; subst. destruct Hl as [Hl|Hl]; [|lia]. split; [apply FOK_desync_fuel; auto|left; reflexivity]. }
  destruct (sys "write" [AInt (l_efd (st w))] w) as [k w1] eqn:Hs.
  destruct (sys_fuel _ _ _ _ _ Hs Hf) as [Hf1 Hc1].
  pose proof (Mh_nonneg w) as Hn.
  assert (Hdone : FOK w1 /\ adv 0 w w1) by (split; [exact Hf1|unfold adv, cons2 in *; lia]).
  destruct k as [n extra|e|]; try (inversion He; subst; exact Hdone).
  destruct (is_eagain e); [|inversion He; subst; exact Hdone].
  destruct (sys "read" [AInt (l_efd (st w1))] w1) as [k2 w2] eqn:Hs2.
  destruct (sys_fuel _ _ _ _ _ Hs2 Hf1) as [Hf2 Hc2].
  destruct (IH _ _ _ He Hf2) as [Hf3 Ha3].
  { unfold lenfuel, cons2 in *. lia. }
  split; [exact Hf3|]. unfold adv, cons2 in *. lia.
Qed.

Lemma Mh_enqueue : forall w b t,
  Mh (with_st w (enqueue (st w) b t)) = if halt w then 0 else Mh w + 1.
Proof.
  intros. unfold Mh. cbn [with_st halt inp st]. destruct (halt w); [reflexivity|].
  assert (ntasks (enqueue (st w) b t) = S (ntasks (st w))).
  { unfold enqueue, ntasks. destruct (b && _); cbn [set_queues l_urgent l_low];
      rewrite app_length; cbn [List.length]; lia. }
  rewrite H. lia.
Qed.

Lemma trigger_fuel : forall b t w r w',
  trigger b t w = (r, w') -> FOK w -> FOK w' /\ adv 1 w w'.
Proof.
  intros b t w r w' Ht Hf. unfold trigger in Ht.
  pose proof (Mh_enqueue w b t) as He. pose proof (Mh_nonneg w) as Hn.
  destruct (l_flag (enqueue (st w) b t)).
  - inversion Ht; subst. split; [exact Hf|]. unfold adv. rewrite He.
    unfold Mh in *. destruct (halt w); lia.
  - set (w1 := with_st w (set_flag (enqueue (st w) b t) true)) in *.
    assert (Hm1 : Mh w1 = if halt w then 0 else Mh w + 1) by exact He.
    destruct (efd_write_fuel _ _ _ _ Ht) as [Hf2 Ha2]; [exact Hf| |].
    + unfold lenfuel. right. cbn [w1 with_st inp]. lia.
    + split; [exact Hf2|]. unfold adv in *. unfold Mh in Hm1, Hn |- *.
      destruct (halt w) eqn:Hh; [left|]; unfold Mh in Ha2; lia.
Qed.

(* ------------------------------------------------------------------ *)
(* the mutual block *)

Definition okp (c d : Z) (fuel : nat) (w w' : world) : Prop :=
  FOK w -> need c fuel w -> FOK w' /\ adv d w w'.

Definition F_close (f : nat) : Prop := forall cid e w r w', el_close f cid e w = (r, w') -> okp 1 0 f w w'.
Definition F_drain (f : nat) : Prop := forall cid w, okp 0 0 f w (close_drain f cid w).
Definition F_cw (f : nat) : Prop := forall cid d w r w', conn_write f cid d w = (r, w') -> okp 1 0 f w w'.
Definition F_cwl (f : nat) : Prop := forall cid d n w r w', conn_write_loop f cid d n w = (r, w') -> okp 0 (-2) f w w'.
Definition F_cwvl (f : nat) : Prop := forall cid sg n w r w', conn_writev_loop f cid sg n w = (r, w') -> okp 0 (-2) f w w'.
Definition F_cwv (f : nat) : Prop := forall cid sg w r w', conn_writev f cid sg w = (r, w') -> okp 1 0 f w w'.
Definition F_w (f : nat) : Prop := forall cid sent w r w', el_write f cid sent w = (r, w') -> okp 0 0 f w w'.
Definition F_h (f : nat) : Prop := forall cid w r w', handler f cid w = (r, w') -> okp 0 (-2) f w w'.
Definition F_hc (f : nat) : Prop := forall cid call args w,
  okp (2 + Z.of_nat (List.length args)) 1 f w (hcall f cid call args w).

Record FBlock (f : nat) : Prop := mkFBlock {
  f_close : F_close f; f_drain : F_drain f; f_cw : F_cw f; f_cwl : F_cwl f;
  f_cwvl : F_cwvl f; f_cwv : F_cwv f; f_w : F_w f; f_h : F_h f; f_hc : F_hc f
}.

Lemma need_O : forall c w, 0 <= c -> need c O w -> Mh w = 0.
Proof. intros c w Hc H. pose proof (Mh_nonneg w). unfold need in H. lia. Qed.

Ltac fuelO :=
  match goal with
  | Hf : FOK ?w, Hn : need ?c O ?w |- _ =>
      let Hz := fresh "Hz" in
      assert (Hz : Mh w = 0) by (apply (need_O c); [lia|exact Hn]);
      split; [apply FOK_desync_fuel; assumption|left; reflexivity]
  end.

Lemma fblock_O : FBlock O.
Proof.
  constructor.
  - intros cid e w r w' He Hf Hn. cbn in He. inversion He; subst. fuelO.
  - intros cid w Hf Hn. cbn. fuelO.
  - intros cid d w r w' He Hf Hn. cbn in He. inversion He; subst. fuelO.
  - intros cid d n w r w' He Hf Hn. cbn in He. inversion He; subst. fuelO.
  - intros cid d n w r w' He Hf Hn. cbn in He. inversion He; subst. fuelO.
  - intros cid d w r w' He Hf Hn. cbn in He. inversion He; subst. fuelO.
  - intros cid d w r w' He Hf Hn. cbn in He. inversion He; subst. fuelO.
  - intros cid w r w' He Hf Hn. cbn in He. inversion He; subst. fuelO.
  - intros cid call args w Hf Hn. cbn. fuelO.
Qed.

Ltac leaf :=
  split; [fok | unfold adv, need, cons2 in *; autorewrite with mh; lia].

Lemma fclose_step : forall f, F_h f -> F_drain f -> F_close f -> F_close (S f).
Proof.
  intros f Hh Hd Hc cid e w r w' He Hf Hn. cbn [el_close] in He.
  pose proof (Mh_nonneg w) as Hnn.
  match type of He with (if ?b then _ else _) = _ => destruct b end.
  { inversion He; subst. leaf. }
  match type of He with context [handler f cid ?ww] => set (w2 := ww) in * end.
  assert (Hm2 : Mh w2 = Mh w) by (unfold w2; rewrite Mh_emit; reflexivity).
  assert (Hf2 : FOK w2) by (unfold w2; fok).
  destruct (handler f cid w2) as [[act rep] w3] eqn:Hh3.
  destruct (Hh _ _ _ _ Hh3 Hf2) as [Hf3 Ha3]; [unfold need in *; lia|].
  destruct (Hd cid w3 Hf3) as [Hf4 Ha4]; [unfold need, adv in *; lia|].
  set (w4 := close_drain f cid w3) in *.
  destruct (epctl "del" (c_fd (wc w4 cid)) false false (wsetc w4 cid (c_release (wc w4 cid))))
    as [r0 w6] eqn:He6.
  destruct (epctl_fuel _ _ _ _ _ _ _ He6) as [Hf6 Hc6]; [fok|].
  unfold cons2 in Hc6. rewrite Mh_wsetc in Hc6.
  destruct (sys "close" [AInt (c_fd (wc w4 cid))] w6) as [k1 w7] eqn:He7.
  destruct (sys_fuel _ _ _ _ _ He7 Hf6) as [Hf7 Hc7].
  assert (Hfin : FOK w7 /\ adv 0 w w7) by (split; [exact Hf7|unfold adv, cons2 in *; lia]).
  match type of He with (if ?b then _ else _) = _ => destruct b end; [inversion He; subst; exact Hfin|].
  destruct act; try (inversion He; subst; exact Hfin).
  destruct (Hc _ _ _ _ _ He Hf7) as [Hf8 Ha8]; [unfold need, adv, cons2 in *; lia|].
  split; [exact Hf8|unfold adv, cons2 in *; lia].
Qed.

Lemma fdrain_step : forall f, F_drain f -> F_drain (S f).
Proof.
  intros f IH cid w Hf Hn. cbn [close_drain]. pose proof (Mh_nonneg w) as Hnn.
  destruct (c_out (wc w cid)) eqn:Ho; [leaf|]. rewrite <- Ho.
  destruct (sys_wr cid (c_fd (wc w cid)) (c_out (wc w cid)) false w) as [k w1] eqn:Hs.
  destruct (sys_wr_fuel _ _ _ _ _ _ _ Hs Hf) as [Hf1 Hc1].
  destruct k as [n extra|e|]; try leaf.
  match goal with |- _ /\ adv _ _ (close_drain f cid ?ww) =>
    destruct (IH cid ww) as [Hf2 Ha2]; [fok|unfold need, cons2 in *; autorewrite with mh; lia|] end.
  split; [exact Hf2|]. unfold adv, cons2 in *. autorewrite with mh in *. lia.
Qed.

Lemma fcwl_step : forall f, F_cwl f -> F_cwl (S f).
Proof.
  intros f IH cid d n w r w' He Hf Hn. cbn [conn_write_loop] in He. pose proof (Mh_nonneg w) as Hnn.
  destruct (sys_wr cid (c_fd (wc w cid)) d true w) as [k w1] eqn:Hs.
  destruct (sys_wr_fuel _ _ _ _ _ _ _ Hs Hf) as [Hf1 Hc1].
  assert (Hep : forall a b c dd ww rr w3, epctl a b c dd ww = (rr, w3) -> FOK ww -> Mh ww = Mh w1 ->
            FOK w3 /\ adv (-2) w w3).
  { intros a b c dd ww rr w3 E Hfw Hmw. destruct (epctl_fuel _ _ _ _ _ _ _ E Hfw) as [X Y].
    split; [exact X|unfold adv, cons2 in *; lia]. }
  destruct k as [sent extra|e|].
  - destruct (zdrop sent d) eqn:Hrest; [inversion He; subst; leaf|]. rewrite <- Hrest in *.
    destruct (l_et (st w)).
    + destruct (IH _ _ _ _ _ _ He Hf1) as [X Y]; [unfold need, cons2 in *; lia|].
      split; [exact X|unfold adv, cons2 in *; lia].
    + match type of He with (let '(_, _) := epctl ?a ?b ?c ?dd ?ww in _) = _ =>
        destruct (epctl a b c dd ww) as [rr w3] eqn:E3 end.
      inversion He; subst. eapply Hep; [exact E3|fok|reflexivity].
  - destruct (is_eagain e); [|inversion He; subst; leaf].
    destruct (l_et (st w)); [inversion He; subst; leaf|].
    match type of He with (let '(_, _) := epctl ?a ?b ?c ?dd ?ww in _) = _ =>
      destruct (epctl a b c dd ww) as [rr w3] eqn:E3 end.
    inversion He; subst. eapply Hep; [exact E3|fok|reflexivity].
  - inversion He; subst; leaf.
Qed.

Lemma fcwvl_step : forall f, F_cwvl f -> F_cwvl (S f).
Proof.
  intros f IH cid sg n w r w' He Hf Hn. cbn [conn_writev_loop] in He. pose proof (Mh_nonneg w) as Hnn.
  destruct (sys_wr cid (c_fd (wc w cid)) (List.concat (firstn iov_max sg)) true w) as [k w1] eqn:Hs.
  destruct (sys_wr_fuel _ _ _ _ _ _ _ Hs Hf) as [Hf1 Hc1].
  assert (Hep : forall a b c dd ww rr w3, epctl a b c dd ww = (rr, w3) -> FOK ww -> Mh ww = Mh w1 ->
            FOK w3 /\ adv (-2) w w3).
  { intros a b c dd ww rr w3 E Hfw Hmw. destruct (epctl_fuel _ _ _ _ _ _ _ E Hfw) as [X Y].
    split; [exact X|unfold adv, cons2 in *; lia]. }
  destruct k as [sent extra|e|].
  - destruct (List.concat (drop_sent sent sg)) eqn:Hrest; [inversion He; subst; leaf|]. rewrite <- Hrest in *.
    destruct (l_et (st w)).
    + destruct (IH _ _ _ _ _ _ He Hf1) as [X Y]; [unfold need, cons2 in *; lia|].
      split; [exact X|unfold adv, cons2 in *; lia].
    + match type of He with (let '(_, _) := epctl ?a ?b ?c ?dd ?ww in _) = _ =>
        destruct (epctl a b c dd ww) as [rr w3] eqn:E3 end.
      inversion He; subst. eapply Hep; [exact E3|fok|reflexivity].
  - destruct (is_eagain e); [|inversion He; subst; leaf].
    destruct (l_et (st w)); [inversion He; subst; leaf|].
    match type of He with (let '(_, _) := epctl ?a ?b ?c ?dd ?ww in _) = _ =>
      destruct (epctl a b c dd ww) as [rr w3] eqn:E3 end.
    inversion He; subst. eapply Hep; [exact E3|fok|reflexivity].
  - inversion He; subst; leaf.
Qed.

Lemma fcw_step : forall f, F_cwl f -> F_close f -> F_cw (S f).
Proof.
  intros f Hl Hc cid d w r w' He Hf Hn. cbn [conn_write] in He. pose proof (Mh_nonneg w) as Hnn.
  destruct (negb (c_opened (wc w cid))); [inversion He; subst; leaf|].
  destruct (c_out (wc w cid)); [|inversion He; subst; leaf].
  destruct (conn_write_loop f cid d (zlen d) (ghost "sub" cid d w)) as [[rn ok] w1] eqn:E1.
  destruct (Hl _ _ _ _ _ _ E1) as [Hf1 Ha1]; [fok|unfold need in *; autorewrite with mh; lia|].
  unfold adv in Ha1; rewrite Mh_ghost in Ha1.
  destruct ok; [inversion He; subst; split; [exact Hf1|unfold adv in *; autorewrite with mh in *; lia]|].
  destruct (el_close f cid false w1) as [r2 w2] eqn:E2. inversion He; subst.
  destruct (Hc _ _ _ _ _ E2 Hf1) as [Hf2 Ha2]; [unfold need, adv in *; autorewrite with mh in *; lia|].
  split; [exact Hf2|unfold adv in *; autorewrite with mh in *; lia].
Qed.

Lemma fcwv_step : forall f, F_cwvl f -> F_close f -> F_cwv (S f).
Proof.
  intros f Hl Hc cid sg w r w' He Hf Hn. cbn [conn_writev] in He. pose proof (Mh_nonneg w) as Hnn.
  destruct (negb (c_opened (wc w cid))); [inversion He; subst; leaf|].
  destruct (c_out (wc w cid)); [|inversion He; subst; leaf].
  destruct sg as [|s0 sg]; [inversion He; subst; leaf|].
  destruct (conn_writev_loop f cid (s0 :: sg) (zlen (List.concat (s0 :: sg)))
              (ghost "sub" cid (List.concat (s0 :: sg)) w)) as [[rn ok] w1] eqn:E1.
  destruct (Hl _ _ _ _ _ _ E1) as [Hf1 Ha1]; [fok|unfold need in *; autorewrite with mh; lia|].
  unfold adv in Ha1; rewrite Mh_ghost in Ha1.
  destruct ok; [inversion He; subst; split; [exact Hf1|unfold adv in *; autorewrite with mh in *; lia]|].
  destruct (el_close f cid false w1) as [r2 w2] eqn:E2. inversion He; subst.
  destruct (Hc _ _ _ _ _ E2 Hf1) as [Hf2 Ha2]; [unfold need, adv in *; autorewrite with mh in *; lia|].
  split; [exact Hf2|unfold adv in *; autorewrite with mh in *; lia].
Qed.

Lemma fw_step : forall f, F_w f -> F_close f -> F_w (S f).
Proof.
  intros f Hw Hc cid sent w r w' He Hf Hn. cbn [el_write] in He. pose proof (Mh_nonneg w) as Hnn.
  destruct (negb (c_opened (wc w cid))); [inversion He; subst; leaf|].
  destruct (c_out (wc w cid)) eqn:Hout; [inversion He; subst; leaf|]. rewrite <- Hout in *.
  destruct (sys_wr cid (c_fd (wc w cid)) (c_out (wc w cid)) false w) as [k w1] eqn:Hs.
  destruct (sys_wr_fuel _ _ _ _ _ _ _ Hs Hf) as [Hf1 Hc1].
  destruct k as [n extra|e|].
  - set (w2 := wsetc w1 cid (c_set_out (wc w1 cid) (zdrop n (c_out (wc w1 cid))))) in *.
    assert (Hm2 : Mh w2 = Mh w1) by reflexivity. assert (Hf2 : FOK w2) by (unfold w2; fok).
    assert (Hfin : FOK w2 /\ adv 0 w w2) by (split; [exact Hf2|unfold adv, cons2 in *; lia]).
    destruct (zdrop n (c_out (wc w1 cid))).
    + destruct (l_et (st w)); [inversion He; subst; exact Hfin|].
      destruct (epctl_fuel _ _ _ _ _ _ _ He Hf2) as [X Y]. split; [exact X|unfold adv, cons2 in *; lia].
    + destruct (l_et (st w)); [|inversion He; subst; exact Hfin].
      destruct (sent + n <? l_chunk (st w2)).
      * destruct (Hw _ _ _ _ _ He Hf2) as [X Y]; [unfold need, cons2 in *; lia|].
        split; [exact X|unfold adv, cons2 in *; lia].
      * destruct (trigger_fuel _ _ _ _ _ He) as [X Y]; [fok|].
        split; [exact X|unfold adv, cons2 in *; rewrite Mh_ghost in Y; lia].
  - destruct (is_eagain e); [inversion He; subst; leaf|].
    destruct (Hc _ _ _ _ _ He Hf1) as [X Y]; [unfold need, cons2 in *; lia|].
    split; [exact X|unfold adv, cons2 in *; lia].
  - inversion He; subst; leaf.
Qed.

Lemma fh_step : forall f, F_h f -> F_hc f -> F_h (S f).
Proof.
  intros f Hh Hhc cid w r w' He Hf Hn. pose proof (Mh_nonneg w) as Hnn.
  destruct (handler_cases _ _ _ _ _ He) as [o [w1 [Hp Hc]]].
  destruct (pull_gen_fuel _ _ _ _ Hp Hf) as [Hf1 Hm1].
  destruct Hc as [[-> ->]|[[a [rest [-> ->]]]|[[call [args [-> Hrec]]]|[l [-> ->]]]]].
  - split; [exact Hf1|left; exact Hm1].
  - split; [exact Hf1|]. unfold lw in Hm1. cbn [snd List.length] in Hm1. unfold adv. lia.
  - unfold lw in Hm1. cbn [snd List.length] in Hm1.
    destruct (Hhc cid call args w1 Hf1) as [Hf2 Ha2]; [unfold need in *; lia|].
    destruct (Hh _ _ _ _ Hrec Hf2) as [Hf3 Ha3]; [unfold need, adv in *; lia|].
    split; [exact Hf3|unfold adv in *; lia].
  - leaf.
Qed.

Ltac fdata :=
  repeat match goal with
  | |- _ /\ adv _ _ (if ?b then _ else _) => destruct b
  | |- _ /\ adv _ _ (match ?x with _ => _ end) => destruct x
  end; leaf.

Lemma fhc_step : forall f, F_cw f -> F_cwv f -> F_w f -> F_close f -> F_hc f -> F_hc (S f).
Proof.
  intros f Hcw Hcwv Hw Hc Hhc cid call args w Hf Hn. cbn [hcall]. pose proof (Mh_nonneg w) as Hnn.
  assert (Hn1 : need 1 f w) by (unfold need in *; lia).
  assert (Htr : forall b t r w1, trigger b t w = (r, w1) ->
            FOK (emit (obs "hr" [AInt cid; ASym call; ASym (match r with RNil => "nil" | _ => "err" end)]) w1) /\
            adv 1 w (emit (obs "hr" [AInt cid; ASym call; ASym (match r with RNil => "nil" | _ => "err" end)]) w1)).
  { intros b t r w1 E. destruct (trigger_fuel _ _ _ _ _ E Hf) as [X Y].
    split; [fok|unfold adv in *; autorewrite with mh; lia]. }
  destruct (sym_eqb call "read"); [fdata|].
  destruct (sym_eqb call "next"); [fdata|].
  destruct (sym_eqb call "peek"); [fdata|].
  destruct (sym_eqb call "discard"); [fdata|].
  destruct (sym_eqb call "writeto"); [fdata|].
  destruct (sym_eqb call "inbuf"); [fdata|].
  destruct (sym_eqb call "outbuf"); [fdata|].
  destruct (sym_eqb call "write").
  { destruct args as [|[z|d|s] [|a2 args]]; try leaf.
    destruct (c_udp (wc w cid)).
    - destruct (negb (c_remote (wc w cid)) && negb (c_opened (wc w cid))); [leaf|].
      destruct (sys "sendto" [AInt (c_fd (wc w cid)); ABytes d; bool_arg (c_remote (wc w cid))] w)
        as [k w1] eqn:Hs.
      destruct (sys_fuel _ _ _ _ _ Hs Hf) as [X Y]. destruct k; leaf.
    - destruct (conn_write f cid d w) as [[n ok] w1] eqn:E.
      destruct (Hcw _ _ _ _ _ E Hf Hn1) as [X Y]. leaf. }
  destruct (sym_eqb call "writev").
  { destruct (c_udp (wc w cid)); [leaf|].
    destruct (conn_writev f cid (segs_of args) w) as [[n ok] w1] eqn:E.
    destruct (Hcwv _ _ _ _ _ E Hf Hn1) as [X Y]. leaf. }
  destruct (sym_eqb call "flush").
  { destruct (c_udp (wc w cid)); [leaf|].
    destruct (negb (c_opened (wc w cid))); [leaf|].
    destruct (el_write f cid 0 w) as [r w1] eqn:E.
    destruct (Hw _ _ _ _ _ E Hf) as [X Y]; [unfold need in *; lia|].
    destruct r; try leaf.
    destruct (negb (l_et (st w1)) && c_opened (wc w1 cid) &&
              match c_out (wc w1 cid) with [] => false | _ :: _ => true end); [|leaf].
    destruct (epctl "mod" (c_fd (wc w1 cid)) true false w1) as [r2 w2] eqn:E2.
    destruct (epctl_fuel _ _ _ _ _ _ _ E2 X) as [X2 Y2]. leaf. }
  destruct (sym_eqb call "readfrom"); [fdata|].
  destruct (sym_eqb call "asyncwrite").
  { destruct args as [|[z|d|s] [|cb [|a3 args]]]; try leaf.
    destruct (c_udp (wc w cid)).
    - match goal with |- context [sys "sendto" ?a ?ww] =>
        destruct (sys "sendto" a ww) as [k w1] eqn:Hs;
        destruct (sys_fuel _ _ _ _ _ Hs) as [X Y];
          [destruct (negb (c_remote (wc w cid)) && negb (c_opened (wc w cid))); fok|] end.
      assert (Y' : cons2 w w1).
      { destruct (negb (c_remote (wc w cid)) && negb (c_opened (wc w cid)));
          unfold cons2 in *; autorewrite with mh in *; [|exact Y].
        assert (Hi : inp (ghost "staleudp" cid [] w) = inp w)
          by (unfold ghost, emit; destruct (halt w); reflexivity).
        rewrite Hi in Y. exact Y. }
      destruct (flag_of cb); leaf.
    - destruct (trigger false (TAsyncWrite cid d (flag_of cb)) w) as [r w1] eqn:E. eapply Htr; exact E. }
  destruct (sym_eqb call "asyncwritev").
  { destruct args as [|cb segs]; [leaf|].
    destruct (c_udp (wc w cid)); [leaf|].
    destruct (trigger false (TAsyncWritev cid (segs_of segs) (flag_of cb)) w) as [r w1] eqn:E.
    eapply Htr; exact E. }
  destruct (sym_eqb call "wake").
  { destruct args as [|cb [|a2 args]]; try leaf.
    destruct (trigger true (TWake cid (flag_of cb)) w) as [r w1] eqn:E. eapply Htr; exact E. }
  destruct (sym_eqb call "close").
  { destruct args as [|cb [|a2 args]]; try leaf.
    destruct (trigger true (TClose cid (flag_of cb)) w) as [r w1] eqn:E. eapply Htr; exact E. }
  destruct (sym_eqb call "elclose").
  { match goal with |- context [el_close f ?t true w] =>
      destruct (el_close f t true w) as [r w1] eqn:E;
      destruct (Hc _ _ _ _ _ E Hf Hn1) as [X Y] end.
    leaf. }
  destruct (sym_eqb call "on").
  { destruct args as [|[t|b1|s1] [|[z|b2|call'] args']]; try leaf.
    destruct (c_opened (wc w t)); [|leaf].
    destruct (Hhc t call' args' w Hf) as [X Y].
    - unfold need in *. cbn [List.length] in Hn. lia.
    - split; [exact X|exact Y]. }
  leaf.
Qed.

Theorem fblock : forall f, FBlock f.
Proof.
  induction f as [|f IH]; [exact fblock_O|]. destruct IH.
  constructor.
  - apply fclose_step; auto.
  - apply fdrain_step; auto.
  - apply fcw_step; auto.
  - apply fcwl_step; auto.
  - apply fcwvl_step; auto.
  - apply fcwv_step; auto.
  - apply fw_step; auto.
  - apply fh_step; auto.
  - apply fhc_step; auto.
Qed.

(* ------------------------------------------------------------------ *)
(* top-level procedures *)

Lemma fread : forall f cid recv w r w', el_read f cid recv w = (r, w') -> okp 1 0 f w w'.
Proof.
  induction f as [|f IH]; intros cid recv w r w' He Hf Hn; cbn [el_read] in He.
  { inversion He; subst. fuelO. }
  pose proof (Mh_nonneg w) as Hnn.
  match type of He with (if ?b then _ else _) = _ => destruct b end; [inversion He; subst; leaf|].
  destruct (sys "read" [AInt (c_fd (wc w cid)); AInt (l_bufcap (st w))] w) as [k w1] eqn:Hs.
  destruct (sys_fuel _ _ _ _ _ Hs Hf) as [Hf1 Hc1].
  assert (Hcl : forall e rr ww, el_close (S f) cid e (ghost "fail" cid [] w1) = (rr, ww) ->
            FOK ww /\ adv 0 w ww).
  { intros e rr ww E. destruct (f_close _ (fblock (S f)) _ _ _ _ _ E) as [X Y];
      [fok|unfold need, cons2 in *; autorewrite with mh; lia|].
    split; [exact X|unfold adv, cons2 in *; autorewrite with mh in *; lia]. }
  destruct k as [n extra|e|]; [|destruct (is_eagain e); [inversion He; subst; leaf|eapply Hcl; exact He]
                               |inversion He; subst; leaf].
  destruct (n =? 0); [eapply Hcl; exact He|].
  match type of He with (if ?b then _ else _) = _ => destruct b end; [inversion He; subst; leaf|].
  match type of He with context [handler (S f) cid ?ww] =>
    set (w3 := ww) in *; destruct (handler (S f) cid w3) as [[act rep] w4] eqn:Hh end.
  assert (Hm3 : Mh w3 = Mh w1) by (unfold w3; autorewrite with mh; reflexivity).
  destruct (f_h _ (fblock (S f)) _ _ _ _ Hh) as [Hf4 Ha4];
    [unfold w3; fok|unfold need, cons2 in *; lia|].
  assert (Hfin : FOK w4 /\ adv 0 w w4) by (split; [exact Hf4|unfold adv, cons2 in *; lia]).
  destruct act.
  - destruct (negb (c_opened (wc w4 cid))); [inversion He; subst; exact Hfin|].
    match type of He with context [wsetc w4 cid ?c5] => set (w5 := wsetc w4 cid c5) in * end.
    assert (Hm5 : Mh w5 = Mh w4) by reflexivity. assert (Hf5 : FOK w5) by exact Hf4.
    match type of He with (if ?b then _ else _) = _ => destruct b end.
    + destruct (IH _ _ _ _ _ He Hf5) as [X Y]; [unfold need, adv, cons2 in *; lia|].
      split; [exact X|unfold adv, cons2 in *; lia].
    + match type of He with (if ?b then _ else _) = _ => destruct b end;
        [|inversion He; subst; split; [exact Hf5|unfold adv, cons2 in *; lia]].
      destruct (trigger_fuel _ _ _ _ _ He) as [X Y]; [fok|].
      split; [exact X|unfold adv, cons2 in *; rewrite Mh_ghost in Y; lia].
  - destruct (f_close _ (fblock (S f)) _ _ _ _ _ He Hf4) as [X Y]; [unfold need, adv, cons2 in *; lia|].
    split; [exact X|unfold adv, cons2 in *; lia].
  - inversion He; subst; exact Hfin.
Qed.

Lemma fopen_loop : forall cid k data w ok w',
  open_loop cid k data w = (ok, w') -> FOK w -> lenfuel k w -> FOK w' /\ adv 0 w w'.
Proof.
  intros cid. induction k as [|k IH]; intros data w ok w' He Hf Hl; cbn [open_loop] in He.
  { inversion He; subst. destruct Hl as [Hl|Hl]; [|lia]. split; [apply FOK_desync_fuel; auto|left; reflexivity]. }
  pose proof (Mh_nonneg w) as Hnn.
  destruct data as [|b data].
  - destruct (sys_wr cid (c_fd (wc w cid)) [] true w) as [kk ww] eqn:Hs.
    destruct (sys_wr_fuel _ _ _ _ _ _ _ Hs Hf) as [X Y].
    assert (FOK ww /\ adv 0 w ww) by (split; [exact X|unfold adv, cons2 in *; lia]).
    destruct kk as [n extra|e|]; [| destruct (is_eagain e)|]; inversion He; subst; assumption.
  - destruct (sys_wr cid (c_fd (wc w cid)) (b :: data) true w) as [kk ww] eqn:Hs.
    destruct (sys_wr_fuel _ _ _ _ _ _ _ Hs Hf) as [X Y].
    assert (Hfin : FOK ww /\ adv 0 w ww) by (split; [exact X|unfold adv, cons2 in *; lia]).
    destruct kk as [n extra|e|].
    + destruct (zdrop n (b :: data)); [inversion He; subst; exact Hfin|].
      destruct (IH _ _ _ _ He X) as [X2 Y2]; [unfold lenfuel, cons2 in *; lia|].
      split; [exact X2|unfold adv, cons2 in *; lia].
    + destruct (is_eagain e); inversion He; subst; [|exact Hfin].
      split; [fok|unfold adv, cons2 in *; autorewrite with mh; lia].
    + inversion He; subst; exact Hfin.
Qed.

Lemma inp_emit : forall l w, inp (emit l w) = inp w.
Proof. intros. unfold emit. destruct (halt w); reflexivity. Qed.

Lemma fopen_rest : forall fuel cid w2 r w', open_rest fuel cid w2 = (r, w') -> okp 1 0 fuel w2 w'.
Proof.
  intros fuel cid w r w' He Hf Hn. unfold open_rest in He.
  pose proof (Mh_nonneg w) as Hnn.
  destruct (handler fuel cid w) as [[act reply] w3] eqn:Hh.
  destruct (f_h _ (fblock fuel) _ _ _ _ Hh Hf) as [Hf3 Ha3]; [unfold need in *; lia|].
  assert (Hfin3 : FOK w3 /\ adv 0 w w3) by (split; [exact Hf3|unfold adv in *; lia]).
  destruct (negb (c_opened (wc w3 cid))); [destruct act; inversion He; subst; exact Hfin3|].
  match type of He with (let '(_, _) := ?X in _) = _ => destruct X as [ok w4] eqn:Hrep end.
  assert (H4 : FOK w4 /\ adv 0 w3 w4).
  { pose proof (Mh_nonneg w3) as Hnn3.
    destruct reply as [data|]; [|inversion Hrep; subst; leaf].
    cbv zeta in Hrep.
    match type of Hrep with context [sys "sendto" _ ?ww] => set (w3' := ww) in * end.
    assert (Hm3' : Mh w3' = Mh w3 /\ FOK w3' /\ inp w3' = inp w3).
    { unfold w3'. destruct (c_udp (wc w3 cid)); [auto|].
      split; [autorewrite with mh; reflexivity|split; [fok|]]. unfold ghost. rewrite !inp_emit. reflexivity. }
    destruct Hm3' as [Hm3' [Hf3' Hi3']].
    destruct (c_udp (wc w3 cid) && negb (c_remote (wc w3 cid))).
    - destruct (sys "sendto" [AInt (c_fd (wc w3 cid)); ABytes data; bool_arg false] w3') as [k ww] eqn:Hs.
      destruct (sys_fuel _ _ _ _ _ Hs Hf3') as [X Y].
      destruct k; inversion Hrep; subst; (split; [exact X|unfold adv, cons2 in *; lia]).
    - destruct (match c_out (wc w3 cid) with [] => false | _ :: _ => true end).
      + inversion Hrep; subst. split; [fok|unfold adv; autorewrite with mh; lia].
      + destruct (fopen_loop _ _ _ _ _ _ Hrep Hf3') as [X Y]; [unfold lenfuel; right; lia|].
        split; [exact X|unfold adv in *; lia]. }
  destruct H4 as [Hf4 Ha4].
  assert (Hcl : forall e ww rr w9, FOK ww -> adv 0 w3 ww -> el_close fuel cid e ww = (rr, w9) ->
            FOK w9 /\ adv 0 w w9).
  { intros e ww rr w9 Hfw Haw E.
    destruct (f_close _ (fblock fuel) _ _ _ _ _ E Hfw) as [X Y]; [unfold need, adv in *; lia|].
    split; [exact X|unfold adv in *; lia]. }
  destruct (negb ok); [eapply Hcl; [exact Hf4|exact Ha4|exact He]|].
  match type of He with (let '(_, _) := ?X in _) = _ => destruct X as [r5 w5] eqn:H5e end.
  assert (H5 : FOK w5 /\ adv 0 w4 w5).
  { pose proof (Mh_nonneg w4). destruct (c_out (wc w4 cid)); [inversion H5e; subst; leaf|].
    destruct (l_et (st w4)); [inversion H5e; subst; leaf|].
    destruct (epctl_fuel _ _ _ _ _ _ _ H5e Hf4) as [X Y]. split; [exact X|unfold adv, cons2 in *; lia]. }
  destruct H5 as [Hf5 Ha5].
  assert (Ha35 : adv 0 w3 w5) by (unfold adv in *; lia).
  assert (Hfin5 : FOK w5 /\ adv 0 w w5) by (split; [exact Hf5|unfold adv in *; lia]).
  destruct r5; try (eapply Hcl; [exact Hf5|exact Ha35|exact He]).
  destruct act; try (inversion He; subst; exact Hfin5).
  eapply Hcl; [exact Hf5|exact Ha35|exact He].
Qed.

Lemma fopen : forall fuel cid w r w', el_open fuel cid w = (r, w') -> okp 1 0 fuel w w'.
Proof.
  intros fuel cid w r w' He Hf Hn. rewrite el_open_eq in He. pose proof (Mh_nonneg w) as Hnn.
  destruct (fopen_rest _ _ _ _ _ He) as [X Y]; [fok|unfold need in *; autorewrite with mh; lia|].
  split; [exact X|unfold adv in *; autorewrite with mh in *; lia].
Qed.

Lemma fregister : forall fuel cid w r w', el_register0 fuel cid w = (r, w') -> okp 1 0 fuel w w'.
Proof.
  intros fuel cid w r w' He Hf Hn. unfold el_register0 in He. pose proof (Mh_nonneg w) as Hnn.
  destruct (fd_in_use (st w) (c_fd (wc w cid))); [inversion He; subst; leaf|].
  destruct (epctl "add" (c_fd (wc w cid)) (l_et (st w)) (l_et (st w)) w) as [r1 w1] eqn:He1.
  destruct (epctl_fuel _ _ _ _ _ _ _ He1 Hf) as [Hf1 Hc1].
  assert (Hfail : forall k w2, sys "close" [AInt (c_fd (wc w cid))] w1 = (k, w2) ->
            FOK (wsetc w2 cid (c_release (wc w2 cid))) /\ adv 0 w (wsetc w2 cid (c_release (wc w2 cid)))).
  { intros k w2 Hs. destruct (sys_fuel _ _ _ _ _ Hs Hf1) as [X Y].
    split; [fok|unfold adv, cons2 in *; autorewrite with mh; lia]. }
  destruct r1.
  - set (w2 := with_st w1 (set_reg (st w1) (aset (c_fd (wc w cid)) cid (l_reg (st w1))))) in *.
    assert (Hm2 : Mh w2 = Mh w1) by reflexivity. assert (Hf2 : FOK w2) by exact Hf1.
    destruct (c_udp (wc w cid) && c_remote (wc w cid)).
    + inversion He; subst. split; [exact Hf2|unfold adv, cons2 in *; lia].
    + destruct (fopen _ _ _ _ _ He Hf2) as [X Y]; [unfold need, cons2 in *; lia|].
      split; [exact X|unfold adv, cons2 in *; lia].
  - destruct (sys "close" [AInt (c_fd (wc w cid))] w1) as [k w2] eqn:Hs. inversion He; subst. eapply Hfail; eauto.
  - destruct (sys "close" [AInt (c_fd (wc w cid))] w1) as [k w2] eqn:Hs. inversion He; subst. eapply Hfail; eauto.
  - destruct (sys "close" [AInt (c_fd (wc w cid))] w1) as [k w2] eqn:Hs. inversion He; subst. eapply Hfail; eauto.
Qed.

Lemma fwake : forall fuel cid w r w', el_wake fuel cid w = (r, w') -> okp 1 0 fuel w w'.
Proof.
  intros fuel cid w r w' He Hf Hn. unfold el_wake in He. pose proof (Mh_nonneg w) as Hnn.
  match type of He with (if ?b then _ else _) = _ => destruct b end; [inversion He; subst; leaf|].
  match type of He with context [handler fuel cid ?ww] =>
    set (w1 := ww) in *; destruct (handler fuel cid w1) as [[act rep] w2] eqn:Hh end.
  assert (Hm1 : Mh w1 = Mh w) by apply Mh_emit.
  destruct (f_h _ (fblock fuel) _ _ _ _ Hh) as [Hf2 Ha2]; [unfold w1; fok|unfold need in *; lia|].
  assert (Hfin : FOK w2 /\ adv 0 w w2) by (split; [exact Hf2|unfold adv in *; lia]).
  destruct act; try (inversion He; subst; exact Hfin).
  destruct (f_close _ (fblock fuel) _ _ _ _ _ He Hf2) as [X Y]; [unfold need, adv in *; lia|].
  split; [exact X|unfold adv in *; lia].
Qed.

(* sequencing *)
Lemma okp_seq : forall c fuel w w1 w2,
  FOK w1 /\ adv 0 w w1 -> need c fuel w -> (FOK w1 -> need c fuel w1 -> FOK w2 /\ adv 0 w1 w2) ->
  FOK w2 /\ adv 0 w w2.
Proof.
  intros c fuel w w1 w2 [Hf1 Ha1] Hn H. pose proof (Mh_nonneg w).
  destruct H as [X Y]; [exact Hf1|unfold need, adv in *; lia|].
  split; [exact X|unfold adv in *; lia].
Qed.

Lemma adv_refl : forall w, adv 0 w w.
Proof. intros w. pose proof (Mh_nonneg w). unfold adv. lia. Qed.

Lemma fprocess_io : forall fuel cid ev w r w', process_io fuel cid ev w = (r, w') -> okp 1 0 fuel w w'.
Proof.
  intros fuel cid ev w r w' He Hf Hn. unfold process_io in He. pose proof (Mh_nonneg w) as Hnn.
  match type of He with (if ?b then _ else _) = _ => destruct b end.
  { destruct (f_close _ (fblock fuel) _ _ _ _ _ He) as [X Y]; [fok|exact Hn|]. split; [exact X|exact Y]. }
  match type of He with (let '(_, _) := ?X in _) = _ => destruct X as [r1 w1] eqn:E1 end.
  assert (H1 : FOK w1 /\ adv 0 w w1).
  { destruct (has ev (EV_OUT + EV_ERR + EV_HUP)); [|inversion E1; subst; split; [exact Hf|apply adv_refl]].
    apply (f_w _ (fblock fuel) _ _ _ _ _ E1 Hf). unfold need in *; lia. }
  destruct r1; try (inversion He; subst; exact H1).
  match type of He with (let '(_, _) := ?X in _) = _ => destruct X as [r2 w2] eqn:E2 end.
  assert (H2 : FOK w2 /\ adv 0 w w2).
  { eapply okp_seq; [exact H1|exact Hn|]. intros Hf1 Hn1.
    destruct (has ev (EV_IN + EV_PRI + EV_ERR + EV_HUP)); [|inversion E2; subst; split; [exact Hf1|apply adv_refl]].
    apply (fread _ _ _ _ _ _ E2 Hf1 Hn1). }
  destruct r2; try (inversion He; subst; exact H2).
  destruct (has ev EV_RDHUP && c_opened (wc w2 cid)); [|inversion He; subst; exact H2].
  eapply okp_seq; [exact H2|exact Hn|]. intros Hf2 Hn2.
  destruct (negb (has ev EV_IN)).
  - apply (f_close _ (fblock fuel) _ _ _ _ _ He Hf2 Hn2).
  - destruct (fread _ _ _ _ _ _ He) as [X Y]; [fok|exact Hn2|]. split; [exact X|exact Y].
Qed.

Lemma Mh_new_conn : forall w c,
  Mh (with_st w (set_next (setc (st w) (l_next (st w)) c) (l_next (st w) + 1))) = Mh w.
Proof. reflexivity. Qed.

Lemma fread_udp : forall fuel fd lst w r w', el_read_udp fuel fd lst w = (r, w') -> okp 1 0 fuel w w'.
Proof.
  intros fuel fd lst w r w' He Hf Hn. unfold el_read_udp in He. pose proof (Mh_nonneg w) as Hnn.
  destruct (sys "recvfrom" [AInt fd; AInt (l_bufcap (st w))] w) as [k w1] eqn:Hs.
  destruct (sys_fuel _ _ _ _ _ Hs Hf) as [Hf1 Hc1].
  destruct k as [n extra|e|]; [|destruct (is_eagain e); inversion He; subst; leaf|inversion He; subst; leaf].
  cbv zeta in He.
  match type of He with (if ?b then _ else _) = _ => destruct b end; [inversion He; subst; leaf|].
  destruct lst.
  - match type of He with context [handler fuel ?cid ?ww] =>
      set (w3 := ww) in *; destruct (handler fuel cid w3) as [[act rep] w4] eqn:Hh end.
    assert (Hm3 : Mh w3 = Mh w1) by (unfold w3; rewrite Mh_emit; reflexivity).
    destruct (f_h _ (fblock fuel) _ _ _ _ Hh) as [Hf4 Ha4]; [unfold w3; fok|unfold need, cons2 in *; lia|].
    destruct act; inversion He; subst; (split; [fok|unfold adv, cons2 in *; autorewrite with mh; lia]).
  - destruct (alookup fd (l_reg (st w1))) as [cid|]; [|inversion He; subst; leaf].
    match type of He with context [handler fuel cid ?ww] =>
      set (w3 := ww) in *; destruct (handler fuel cid w3) as [[act rep] w4] eqn:Hh end.
    assert (Hm3 : Mh w3 = Mh w1) by (unfold w3; autorewrite with mh; reflexivity).
    destruct (f_h _ (fblock fuel) _ _ _ _ Hh) as [Hf4 Ha4]; [unfold w3; fok|unfold need, cons2 in *; lia|].
    destruct act; inversion He; subst; (split; [fok|unfold adv, cons2 in *; lia]).
Qed.

Lemma faccept : forall fuel lfd udp w r w', el_accept fuel lfd udp w = (r, w') -> okp 1 0 fuel w w'.
Proof.
  intros fuel lfd udp w r w' He Hf Hn. unfold el_accept in He. pose proof (Mh_nonneg w) as Hnn.
  destruct udp; [eapply fread_udp; eauto|].
  destruct (sys "accept" [AInt lfd] w) as [k w1] eqn:Hs.
  destruct (sys_fuel _ _ _ _ _ Hs Hf) as [Hf1 Hc1].
  destruct k as [nfd extra|e|].
  - destruct (fd_in_use (st w1) nfd); [inversion He; subst; leaf|].
    destruct (fregister _ _ _ _ _ He) as [X Y]; [exact Hf1|rewrite ?Mh_new_conn; unfold need, cons2 in *|].
    + change (Mh (with_st w1 _)) with (Mh w1). lia.
    + split; [exact X|]. unfold adv, cons2 in *. change (Mh (with_st w1 _)) with (Mh w1) in Y. lia.
  - match type of He with (if ?b then _ else _) = _ => destruct b end; inversion He; subst; leaf.
  - inversion He; subst; leaf.
Qed.

Lemma fdispatch : forall fuel fd ev w r w', dispatch fuel fd ev w = (r, w') -> okp 1 0 fuel w w'.
Proof.
  intros fuel fd ev w r w' He Hf Hn. unfold dispatch in He. pose proof (Mh_nonneg w) as Hnn.
  destruct (alookup fd (l_reg (st w))) as [cid|].
  - repeat match type of He with (if ?b then _ else _) = _ => destruct b end;
      first [solve [eapply fprocess_io; eauto] | solve [eapply fread_udp; eauto]].
  - destruct (alookup fd (l_listeners (st w))) as [udp|].
    + eapply faccept; eauto.
    + destruct (polopt (st w)); [inversion He; subst; leaf|].
      destruct (epctl_fuel _ _ _ _ _ _ _ He Hf) as [X Y]. split; [exact X|unfold adv, cons2 in *; lia].
Qed.

Lemma frun_task : forall fuel t w r w', run_task fuel t w = (r, w') -> okp 1 0 fuel w w'.
Proof.
  intros fuel t w r w' He Hf Hn. pose proof (Mh_nonneg w) as Hnn.
  destruct t; cbn [run_task] in He.
  - destruct (el_register0 fuel cid w) as [r1 w1] eqn:E. inversion He; subst.
    destruct (fregister _ _ _ _ _ E Hf Hn) as [X Y]. destruct cb; leaf.
  - destruct (negb (c_opened (wc w cid))); [inversion He; subst; destruct cb; leaf|].
    destruct (conn_write fuel cid data w) as [[n ok] w1] eqn:E. inversion He; subst.
    destruct (f_cw _ (fblock fuel) _ _ _ _ _ E Hf Hn) as [X Y]. destruct cb; leaf.
  - destruct (negb (c_opened (wc w cid))); [inversion He; subst; destruct cb; leaf|].
    destruct (conn_writev fuel cid segs w) as [[n ok] w1] eqn:E. inversion He; subst.
    destruct (f_cwv _ (fblock fuel) _ _ _ _ _ E Hf Hn) as [X Y]. destruct cb; leaf.
  - destruct (el_wake fuel cid w) as [r1 w1] eqn:E. inversion He; subst.
    destruct (fwake _ _ _ _ _ E Hf Hn) as [X Y]. destruct cb; leaf.
  - destruct (el_close fuel cid true w) as [r1 w1] eqn:E. inversion He; subst.
    destruct (f_close _ (fblock fuel) _ _ _ _ _ E Hf Hn) as [X Y]. destruct cb; leaf.
  - eapply fread; eauto.
  - apply (f_w _ (fblock fuel) _ _ _ _ _ He Hf). unfold need in *; lia.
  - inversion He; subst; leaf.
  - inversion He; subst; leaf.
Qed.

Lemma Mh_pop_urgent : forall w t rest, l_urgent (st w) = t :: rest ->
  Mh (with_st w (set_queues (st w) rest (l_low (st w)) (l_flag (st w)))) = if halt w then 0 else Mh w - 1.
Proof.
  intros w t rest Hu. unfold Mh, ntasks. cbn [with_st halt inp st set_queues l_urgent l_low].
  rewrite Hu. cbn [List.length]. destruct (halt w); lia.
Qed.

Lemma Mh_pop_low : forall w t rest, l_low (st w) = t :: rest ->
  Mh (with_st w (set_queues (st w) (l_urgent (st w)) rest (l_flag (st w)))) = if halt w then 0 else Mh w - 1.
Proof.
  intros w t rest Hu. unfold Mh, ntasks. cbn [with_st halt inp st set_queues l_urgent l_low].
  rewrite Hu. cbn [List.length]. destruct (halt w); lia.
Qed.

Lemma fdrain_urgent : forall fuel w r w', drain_urgent fuel w = (r, w') -> okp 1 0 fuel w w'.
Proof.
  induction fuel as [|f IH]; intros w r w' He Hf Hn; cbn [drain_urgent] in He.
  { inversion He; subst. fuelO. }
  pose proof (Mh_nonneg w) as Hnn.
  destruct (halt w) eqn:Hh; [inversion He; subst; leaf|].
  destruct (l_urgent (st w)) as [|t rest] eqn:Hu; [inversion He; subst; leaf|].
  pose proof (Mh_pop_urgent w t rest Hu) as Hm1. rewrite Hh in Hm1.
  destruct (run_task f t _) as [r1 w2] eqn:Hr in He.
  destruct (frun_task _ _ _ _ _ Hr) as [Hf2 Ha2]; [exact Hf|unfold need in *; lia|].
  assert (Hfin : FOK w2 /\ adv 0 w w2) by (split; [exact Hf2|unfold adv in *; lia]).
  destruct r1; try (destruct (IH _ _ _ He Hf2) as [X Y];
                    [unfold need, adv in *; lia|split; [exact X|unfold adv in *; lia]]).
  inversion He; subst; exact Hfin.
Qed.

Lemma fdrain_low : forall fuel k w r w', drain_low fuel k w = (r, w') -> okp 1 0 fuel w w'.
Proof.
  induction fuel as [|f IH]; intros k w r w' He Hf Hn; cbn [drain_low] in He.
  { inversion He; subst. fuelO. }
  pose proof (Mh_nonneg w) as Hnn.
  destruct (halt w) eqn:Hh; [inversion He; subst; leaf|].
  destruct (k <=? 0); [inversion He; subst; leaf|].
  destruct (l_low (st w)) as [|t rest] eqn:Hu; [inversion He; subst; leaf|].
  pose proof (Mh_pop_low w t rest Hu) as Hm1. rewrite Hh in Hm1.
  destruct (run_task f t _) as [r1 w2] eqn:Hr in He.
  destruct (frun_task _ _ _ _ _ Hr) as [Hf2 Ha2]; [exact Hf|unfold need in *; lia|].
  assert (Hfin : FOK w2 /\ adv 0 w w2) by (split; [exact Hf2|unfold adv in *; lia]).
  destruct r1; try (destruct (IH _ _ _ _ He Hf2) as [X Y];
                    [unfold need, adv in *; lia|split; [exact X|unfold adv in *; lia]]).
  inversion He; subst; exact Hfin.
Qed.

Lemma fchores : forall fuel w r w', chores fuel w = (r, w') -> okp 1 0 fuel w w'.
Proof.
  intros fuel w r w' He Hf Hn. unfold chores in He. pose proof (Mh_nonneg w) as Hnn.
  destruct (drain_urgent fuel w) as [r1 w1] eqn:E1.
  pose proof (fdrain_urgent _ _ _ _ E1 Hf Hn) as H1.
  assert (Hrest : forall rr ww,
    match drain_low fuel (l_maxlow (st w1)) w1 with
    | (RShutdown, w2) => (RShutdown, w2)
    | (_, w2) =>
      let s := set_flag (st w2) false in
      match l_urgent s, l_low s with
      | [], [] => (RNil, with_st w2 s)
      | _, _ =>
          let '(_, w3) := efd_write (S (List.length (inp w2))) (with_st w2 (set_flag s true)) in
          (RNil, w3)
      end
    end = (rr, ww) -> FOK ww /\ adv 0 w ww).
  { intros rr ww Hx. eapply okp_seq; [exact H1|exact Hn|]. intros Hf1 Hn1.
    destruct (drain_low fuel (l_maxlow (st w1)) w1) as [r2 w2] eqn:E2.
    pose proof (fdrain_low _ _ _ _ _ E2 Hf1 Hn1) as H2.
    assert (Hfin : forall rr ww,
      (let s := set_flag (st w2) false in
       match l_urgent s, l_low s with
       | [], [] => (RNil, with_st w2 s)
       | _, _ =>
          let '(_, w3) := efd_write (S (List.length (inp w2))) (with_st w2 (set_flag s true)) in
          (RNil, w3)
       end) = (rr, ww) -> FOK ww /\ adv 0 w1 ww).
    { intros rr0 ww0 Hy. cbv zeta in Hy. destruct H2 as [Hf2 Ha2].
      assert (Hsame : forall b, Mh (with_st w2 (set_flag (set_flag (st w2) false) b)) = Mh w2) by reflexivity.
      assert (Hs0 : Mh (with_st w2 (set_flag (st w2) false)) = Mh w2) by reflexivity.
      destruct (l_urgent (set_flag (st w2) false)), (l_low (set_flag (st w2) false));
        try (inversion Hy; subst; split; [exact Hf2|unfold adv in *; rewrite Hs0; lia]);
        (destruct (efd_write _ _) as [r3 w3] eqn:E3 in Hy; inversion Hy; subst;
         destruct (efd_write_fuel _ _ _ _ E3) as [X Y];
           [exact Hf2|unfold lenfuel; right; cbn [with_st inp]; lia|];
         split; [exact X|unfold adv in *; rewrite Hsame in Y; lia]). }
    destruct r2; try (eapply Hfin; exact Hx). inversion Hx; subst; exact H2. }
  destruct r1; try (eapply Hrest; exact He). inversion He; subst; exact H1.
Qed.

Lemma fevents : forall fuel n evs dc w r dc' w',
  (List.length evs <= n)%nat -> events fuel evs dc w = (r, dc', w') -> okp 1 0 fuel w w'.
Proof.
  intros fuel. induction n as [|n IH]; intros evs dc w r dc' w' Hl He Hf Hn; pose proof (Mh_nonneg w) as Hnn.
  - destruct evs; [|cbn in Hl; lia]. cbn in He. inversion He; subst; leaf.
  - destruct evs as [|[fd|b|s] [|[ev|b2|s2] rest]]; cbn [events] in He;
      try (inversion He; subst; leaf).
    destruct (halt w); [inversion He; subst; leaf|].
    cbn [List.length] in Hl.
    destruct (fd =? l_efd (st w)).
    + eapply IH; [|exact He|exact Hf|exact Hn]. lia.
    + destruct (dispatch fuel fd ev w) as [r1 w1] eqn:Hd.
      pose proof (fdispatch _ _ _ _ _ _ Hd Hf Hn) as H1.
      destruct r1; try (inversion He; subst; exact H1);
        (eapply okp_seq; [exact H1|exact Hn|]; intros Hf1 Hn1;
         eapply IH; [|exact He|exact Hf1|exact Hn1]; lia).
Qed.

Lemma fclose_conns : forall fuel w, okp 0 0 fuel w (close_conns fuel w).
Proof.
  induction fuel as [|f IH]; intros w Hf Hn.
  { cbn. fuelO. }
  pose proof (Mh_nonneg w) as Hnn.
  destruct (close_conns_cases f w) as [->|[o [w1 [Hp Hc]]]]; [leaf|].
  destruct (pull_gen_fuel _ _ _ _ Hp Hf) as [Hf1 Hm1].
  destruct Hc as [[-> ->]|[[cid [-> ->]]|[l [-> ->]]]].
  - split; [exact Hf1|left; exact Hm1].
  - unfold lw in Hm1. cbn [snd List.length] in Hm1.
    destruct (el_close f cid true w1) as [r w2] eqn:E. cbn [snd].
    destruct (f_close _ (fblock f) _ _ _ _ _ E Hf1) as [Hf2 Ha2]; [unfold need in *; lia|].
    destruct (IH w2 Hf2) as [X Y]; [unfold need, adv in *; lia|].
    split; [exact X|unfold adv in *; lia].
  - leaf.
Qed.

Lemma pend_fold_fuel : forall l w, FOK w -> FOK (fold_left pend_step l w) /\ Mh (fold_left pend_step l w) = Mh w.
Proof.
  induction l as [|fc l IH]; intros w H; [split; [exact H|reflexivity]|]. cbn [fold_left].
  assert (H1 : FOK (pend_step w fc) /\ Mh (pend_step w fc) = Mh w).
  { unfold pend_step. destruct (c_udp (wc w (snd fc))); [split; [exact H|reflexivity]|].
    split; [fok|apply Mh_emit]. }
  destruct H1 as [H1 H2]. destruct (IH _ H1) as [H3 H4]. split; [exact H3|lia].
Qed.

Lemma poll_head_fuel : forall w, FOK w -> FOK (poll_head w) /\ Mh (poll_head w) = Mh w.
Proof.
  intros w H. unfold poll_head.
  match goal with |- FOK (fold_left _ ?l ?ww) /\ _ =>
    destruct (pend_fold_fuel l ww) as [H1 H2]; [fok|] end.
  split; [exact H1|]. rewrite H2. apply Mh_emit.
Qed.

Lemma fpolling : forall fuel w, okp 0 0 fuel w (polling fuel w).
Proof.
  induction fuel as [|f IH]; intros w Hf Hn.
  { cbn. fuelO. }
  pose proof (Mh_nonneg w) as Hnn.
  destruct (polling_cases f w) as [o [w1 [Hp Hc]]].
  set (w0 := poll_head w) in *.
  destruct (poll_head_fuel w Hf) as [Hf0 Hm0]. fold w0 in Hf0, Hm0.
  destruct (pull_gen_fuel _ _ _ _ Hp Hf0) as [Hf1 Hm1].
  destruct Hc as [[-> ->]|[[evs [-> ->]]|[l [-> ->]]]].
  - split; [exact Hf1|left; exact Hm1].
  - unfold lw in Hm1. cbn [snd] in Hm1.
    assert (Hn1 : need 1 f w1) by (unfold need in *; lia).
    destruct (events f evs false w1) as [[r dc] w2] eqn:He.
    destruct (fevents f _ _ _ _ _ _ _ (le_n _) He Hf1 Hn1) as [Hf2 Ha2].
    assert (Hn2 : need 1 f w2) by (unfold need, adv in *; lia).
    assert (Hcc : forall ww, FOK ww -> adv 0 w1 ww -> FOK (close_conns f ww) /\ adv 0 w (close_conns f ww)).
    { intros ww Hfw Haw. destruct (fclose_conns f ww Hfw) as [X Y]; [unfold need, adv in *; lia|].
      split; [exact X|unfold adv in *; lia]. }
    assert (Hpp : forall ww, FOK ww -> adv 0 w1 ww -> FOK (polling f ww) /\ adv 0 w (polling f ww)).
    { intros ww Hfw Haw. destruct (IH ww Hfw) as [X Y]; [unfold need, adv in *; lia|].
      split; [exact X|unfold adv in *; lia]. }
    assert (Hch : FOK (match chores f w2 with
                       | (RShutdown, w3) => close_conns f w3
                       | (_, w3) => polling f w3 end) /\
                  adv 0 w (match chores f w2 with
                       | (RShutdown, w3) => close_conns f w3
                       | (_, w3) => polling f w3 end)).
    { destruct (chores f w2) as [r3 w3] eqn:Hc3.
      destruct (fchores _ _ _ _ Hc3 Hf2 Hn2) as [Hf3 Ha3].
      assert (adv 0 w1 w3) by (unfold adv in *; lia).
      destruct r3; auto. }
    destruct r; try (apply Hcc; assumption); (destruct dc; [exact Hch|apply Hpp; assumption]).
  - leaf.
Qed.

(* ------------------------------------------------------------------ *)

Lemma existsb_rev : forall {A} (f : A -> bool) l, existsb f (rev l) = existsb f l.
Proof.
  intros A f l. induction l as [|a l IH]; [reflexivity|].
  cbn [rev existsb]. rewrite existsb_app, IH. cbn [existsb]. rewrite Bool.orb_false_r. apply Bool.orb_comm.
Qed.

Lemma W_take_listeners : forall i ls r, take_listeners i = (ls, r) -> (W r <= W i)%nat.
Proof.
  induction i as [|l i IH]; intros ls r H; cbn [take_listeners] in H.
  - inversion H; subst. lia.
  - cbn [W fold_right]. fold (W i).
    repeat match type of H with
    | (let '(_, _) := ?x in _) = _ => destruct x as [ls' r'] eqn:E
    | context [match ?x with _ => _ end] => destruct x
    end;
    try (inversion H; subst; cbn [W fold_right]; fold (W i); lia).
    inversion H; subst. specialize (IH _ _ eq_refl). lia.
Qed.

(* any fuel above the weight of the input suffices *)
Theorem engine_survives_gen : forall i w F,
  init_world i = Some w -> (W i < F)%nat -> fuel_ok (rev (log (polling F w))) = true.
Proof.
  intros i w F Hi HF. unfold fuel_ok. rewrite existsb_rev.
  assert (Hw : FOK w /\ Mh w <= 1 + Z.of_nat (W i)).
  { unfold init_world in Hi. destruct i as [|[nm args] rest]; [discriminate|].
    cbn [W fold_right]. fold (W rest).
    repeat match type of Hi with
    | None = Some _ => discriminate Hi
    | (let '(_, _) := ?x in _) = _ => destruct x as [ls r'] eqn:E
    | context [match ?x with _ => _ end] => destruct x
    end.
    inversion Hi; subst. split; [reflexivity|].
    apply W_take_listeners in E. unfold Mh, ntasks.
    cbn [halt inp st l_urgent l_low List.length]. lia. }
  destruct Hw as [Hf Hm].
  destruct (fpolling F w Hf) as [X _]; [unfold need; lia|].
  unfold FOK in X. rewrite X. reflexivity.
Qed.

Theorem engine_survives : forall i t, run_history i = Some t -> fuel_ok t = true.
Proof.
  intros i t Hr. unfold run_history in Hr.
  destruct (init_world i) as [w0|] eqn:Hi; [|discriminate]. inversion Hr; subst t; clear Hr.
  apply (engine_survives_gen i w0 (init_fuel i) Hi).
  unfold init_fuel. fold (W i). lia.
Qed.
