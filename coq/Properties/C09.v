(* C09 — ring.Buffer is an unbounded FIFO byte queue.
   Statements only; proofs live in Proofs/Ring*.v.  The model (Model/Ring.v)
   transcribes pkg/buffer/ring/ring_buffer.go; [content] / [ring_inv]
   (Spec/RingSpec.v) are the abstraction function and representation invariant;
   [ring_op_spec] (Spec/RingSpec.v) says what each operation does to a FIFO
   byte list (Spec/Fifo.v) and what it returns. *)
From GV Require Import Lib.Trace Model.Ring Spec.Fifo Spec.RingSpec Proofs.RingProofs.
Open Scope Z_scope.

(* Every finite operation sequence on a buffer created by New(n), with arbitrary
   arguments and arbitrary scripted readers/writers, runs without panic, and its
   observable results are exactly those of the FIFO specification started empty;
   the final content is the specification's final content. *)
Theorem C09_ring_refines_fifo : forall n ops,
  -2^63 <= n <= 2^62 -> Forall op_wf ops ->
  exists rb0 rb outs, New n = Ret rb0 /\ run_ops rb0 ops = Ret (rb, outs) /\
    fifo_run fifo_empty ops outs (content rb).
Proof. exact ring_refines_fifo. Qed.
Print Assumptions C09_ring_refines_fifo.

(* The same from every state satisfying the representation invariant (every
   cursor position, wrapped, exactly full, any capacity), and the invariant is
   preserved. *)
Theorem C09_ring_refines_fifo_from_any_state : forall ops rb,
  ring_inv rb -> Forall op_wf ops ->
  exists rb' outs, run_ops rb ops = Ret (rb', outs) /\ ring_inv rb' /\
    fifo_run (content rb) ops outs (content rb').
Proof. exact run_ops_spec. Qed.
Print Assumptions C09_ring_refines_fifo_from_any_state.

(* One step, spelled out: no panic, invariant kept, FIFO behaviour. *)
Theorem C09_ring_step : forall rb o,
  ring_inv rb -> op_wf o ->
  exists rb' x, step rb o = Ret (rb', x) /\ ring_inv rb' /\ ring_op_spec (content rb) o x (content rb').
Proof. exact step_spec. Qed.
Print Assumptions C09_ring_step.

Theorem C09_ring_no_panic : forall n ops,
  -2^63 <= n <= 2^62 -> Forall op_wf ops ->
  obind (New n) (fun rb0 => run_ops rb0 ops) <> Panic.
Proof. exact ring_no_panic. Qed.
Print Assumptions C09_ring_no_panic.

(* Buffered / Available / Cap / Len / IsEmpty / IsFull agree with the content
   after every operation sequence. *)
Theorem C09_ring_accounting : forall n ops rb0 rb outs,
  -2^63 <= n <= 2^62 -> Forall op_wf ops ->
  New n = Ret rb0 -> run_ops rb0 ops = Ret (rb, outs) ->
  Buffered rb = fifo_len (content rb) /\
  Buffered rb + Available rb = Cap rb /\ 0 <= Buffered rb /\ 0 <= Available rb /\
  Len rb = Cap rb /\
  (IsEmpty rb = true <-> Buffered rb = 0) /\
  (IsFull rb = true <-> Buffered rb = Cap rb /\ 0 < Cap rb).
Proof. exact ring_accounting. Qed.
Print Assumptions C09_ring_accounting.

(* The explicit panic of New for sizes above 2^62 (math.CeilToPowerOfTwo) is
   outside the quantifier of the theorems above. *)
Theorem C09_new_panics_above : forall n, -2^63 <= n < 2^63 -> 2^62 < n -> New n = Panic.
Proof. exact New_panics_above. Qed.
Print Assumptions C09_new_panics_above.

(* ---- non-vacuity: the hypotheses hold on non-trivial runs (kernel-evaluated) ---- *)
Definition ex_ops : list op :=
  [ OWrite [1;2;3]; ORead 2; OWrite [4;5;6];            (* cap 4: wraps, exactly full *)
    OPeek 3; OIsFull; OWriteByte 7;                     (* two-segment peek; growth from full *)
    OWriteTo [(2, EErr)];                               (* writer fails after 2 bytes *)
    OReadFrom [8;9;10;11] [(1, ENil); (0, ENil); (2, EErr)];   (* short, (0,nil), error after partial *)
    ODiscard 1; OBytes; OBuffered; OAvailable; OCap ].

Example C09_ex_hyps : -2^63 <= 3 <= 2^62 /\ Forall op_wf ex_ops.
Proof. split; [cbv; split; discriminate|]. repeat constructor; cbv; discriminate. Qed.

Example C09_ex_run :
  omap snd (obind (New 3) (fun rb0 => run_ops rb0 ex_ops)) =
    Ret [ RWrite 3 ENil; RRead [1;2] 2 ENil; RWrite 3 ENil;
          RPeek [3;4] [5]; RBool true; RWriteByte ENil;
          RWriteTo (mkWtOut 2 EErr [3;4]);
          RReadFrom (mkRfOut 3 EErr [11] [512; 1026; 1026]);
          RDiscard 1 ENil; RBytes [6;7;8;9;10]; RInt 5; RInt 1025; RInt 1030 ] /\
  omap (fun x => content (fst x)) (obind (New 3) (fun rb0 => run_ops rb0 ex_ops)) = Ret [6;7;8;9;10].
Proof. split; vm_compute; reflexivity. Qed.

(* a wrapped, exactly full state satisfies the invariant of the from-any-state theorem *)
Example C09_ex_inv : ring_inv (mkRing [4;5;3;6] 4 2 2 false) /\ content (mkRing [4;5;3;6] 4 2 2 false) = [3;6;4;5].
Proof. split; [|reflexivity]. unfold ring_inv; cbn. repeat split; try discriminate; reflexivity. Qed.
