(* Extraction of the executable models. Only ExtrOcamlBasic is used: Z,
   positive, N, nat, string and ascii stay the extracted inductive types. *)
From Coq Require Extraction ExtrOcamlBasic.
From Coq Require Import ZArith.
From GV Require Import Lib.Trace Model.Arith.
Extraction Language OCaml.
Extraction "model.ml" Z.of_int Z.to_int run_arith.
