(* C08 -- UDP datagram fidelity.  Statements only; proofs in Proofs/LoopUdp.v. *)
From GV Require Import Lib.Trace Model.Loop Spec.LoopSpec Proofs.LoopUdp.
Open Scope Z_scope.

Theorem C08_udp_fidelity : forall i t, run_history i = Some t -> udp_ok (statics i) t = true.
Proof. exact udp_holds. Qed.
Print Assumptions C08_udp_fidelity.
