package main

import (
	"fmt"
	"os"
	"sort"
	"sync"

	"github.com/panjf2000/gnet/v2/pkg/buffer/ring"
	"github.com/panjf2000/gnet/v2/pkg/pool/byteslice"
	"github.com/panjf2000/gnet/v2/pkg/pool/ringbuffer"

	"verifharness/tr"
)

type span struct {
	lo, hi uintptr
	who    int
	keep   []byte // the memory stays reachable until the final comparison (no address reuse)
}

// storm: g goroutines hammer one Pool with unsynchronised Get/Put (real races
// inside sync.Pool).  Oracle only: every goroutine fills what it holds with its
// own byte and checks it before giving it back; at the end everything still
// held must be pairwise disjoint.
func storm(g, n int, seed uint64) {
	w.Op(tr.L("storm", tr.I(g), tr.I(n), tr.U64(seed)))
	w.Obs(tr.L("storm"))
	w.Tag("storm")
	pool := &byteslice.Pool{}
	rbp := &ringbuffer.Pool{}
	var mu sync.Mutex
	var donatedCap sync.Map // pointer -> the slice last Put with that pointer (kept alive: its address cannot be reused)
	var fails []string
	var all []span
	var wg sync.WaitGroup
	for gi := 0; gi < g; gi++ {
		wg.Add(1)
		go func(gi int) {
			defer wg.Done()
			rnd := tr.NewRand(seed*131 + uint64(gi))
			me := byte(gi + 1)
			var held [][]byte
			var rings []*ring.Buffer
			bad := func(s string) {
				mu.Lock()
				fails = append(fails, s)
				mu.Unlock()
			}
			check := func(b []byte) {
				for _, x := range b[:cap(b)] {
					if x != me {
						bad(fmt.Sprintf("foreign-byte cap=%d", cap(b)))
						return
					}
				}
			}
			for i := 0; i < n; i++ {
				switch {
				case len(held) < 8 && rnd.Chance(55):
					size := 1 + rnd.Intn(1<<uint(rnd.Intn(13)))
					b := pool.Get(size)
					if len(b) != size || cap(b) < size {
						bad(fmt.Sprintf("shape size=%d", size))
					}
					f := b[:cap(b)]
					if d, ok := donatedCap.LoadAndDelete(addr(b)); ok && cap(d.([]byte)) < cap(b) {
						dc := cap(d.([]byte))
						bad(fmt.Sprintf("beyond-donation cap=%d donated=%d", cap(b), dc))
						f = b[:dc:dc] // do not write outside the donated memory
						b = f
					}
					for j := range f {
						f[j] = me
					}
					held = append(held, b)
				case len(held) > 0:
					k := rnd.Intn(len(held))
					b := held[k]
					check(b)
					held = append(held[:k], held[k+1:]...)
					if rnd.Chance(30) && cap(b) > 3 { // donate a re-sliced tail with an odd capacity
						lo := 1 + rnd.Intn(cap(b)/2)
						if lo > len(b) {
							lo = len(b)
						}
						b = b[lo:]
					}
					donatedCap.Store(addr(b), b[:0:cap(b)])
					pool.Put(b)
				}
				if rnd.Chance(10) {
					if len(rings) < 3 {
						r := rbp.Get()
						if !r.IsEmpty() || r.Buffered() != 0 {
							bad("ring-nonempty")
						}
						_, _ = r.Write([]byte{me, me, me})
						rings = append(rings, r)
					} else {
						r := rings[0]
						rings = rings[1:]
						h, _ := r.Peek(-1)
						if len(h) != 3 || h[0] != me {
							bad("ring-foreign-content")
						}
						rbp.Put(r)
					}
				}
			}
			mu.Lock()
			for _, b := range held {
				check(b)
				all = append(all, span{addr(b), addr(b) + uintptr(cap(b)), gi, b})
			}
			mu.Unlock()
			for _, b := range held {
				_ = b
			}
		}(gi)
	}
	wg.Wait()
	sort.Slice(all, func(i, j int) bool { return all[i].lo < all[j].lo })
	for i := 1; i < len(all); i++ {
		if all[i].lo < all[i-1].hi {
			fails = append(fails, "held-overlap")
			if os.Getenv("DRV_POOL_DEBUG") != "" {
				fmt.Fprintf(os.Stderr, "overlap: %#x+%d (g%d) and %#x+%d (g%d)\n", all[i-1].lo, all[i-1].hi-all[i-1].lo, all[i-1].who, all[i].lo, all[i].hi-all[i].lo, all[i].who)
			}
		}
	}
	if len(fails) > 0 {
		sort.Strings(fails)
		w.Fail("storm", fails[0], fmt.Sprintf("%d violations under concurrent Get/Put", len(fails)))
	}
	w.Hist("storm")
}
