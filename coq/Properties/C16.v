From GV Require Import Lib.Trace Model.Addr.
Example C16_placeholder : parse_proto_addr [116;99;112;58;47;47;97] = POk s_tcp [97].
Proof. vm_compute. reflexivity. Qed.
