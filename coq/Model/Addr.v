(* Model for C16: gnet.parseProtoAddr (gnet.go) on top of a transcription of the
   Go 1.23.5 net/url.Parse code path restricted to the fields gnet reads
   (Scheme, Host, Path) and of path.Join / path.Clean; plus the option
   normalisation of createListeners / NewClient and determineEventLoops.

   Strings are byte lists (list Z, each element in [0,256)).  Go loops over a
   string index become structural recursion over the remaining suffix; a
   slice/index expression that the Go code performs WITHOUT a guard of its own
   (the second pass of url.unescape) has an explicit Panic branch.
   No proofs here. *)
From GV Require Export Lib.Trace Model.Arith.
Open Scope Z_scope.

Definition bytes := list Z.

(* ------------------------------------------------------------------ *)
(* byte classes *)

Definition is_lower (c : Z) : bool := (97 <=? c) && (c <=? 122).
Definition is_upper (c : Z) : bool := (65 <=? c) && (c <=? 90).
Definition is_alpha (c : Z) : bool := is_lower c || is_upper c.
Definition is_digit (c : Z) : bool := (48 <=? c) && (c <=? 57).
Definition is_alnum (c : Z) : bool := is_alpha c || is_digit c.

(* url.ishex / url.unhex *)
Definition ishex (c : Z) : bool :=
  is_digit c || ((97 <=? c) && (c <=? 102)) || ((65 <=? c) && (c <=? 70)).
Definition unhex (c : Z) : Z :=
  if is_digit c then c - 48
  else if (97 <=? c) && (c <=? 102) then c - 97 + 10
  else if (65 <=? c) && (c <=? 70) then c - 65 + 10
  else 0.

Definition mem (c : Z) (l : list Z) : bool := existsb (Z.eqb c) l.

Fixpoint bytes_eqb (a b : bytes) : bool :=
  match a, b with
  | [], [] => true
  | x :: a', y :: b' => (x =? y) && bytes_eqb a' b'
  | _, _ => false
  end.

Definition is_nil (a : bytes) : bool := match a with [] => true | _ => false end.

(* ------------------------------------------------------------------ *)
(* strings helpers (single-byte separators) *)

(* strings.Cut(s, sep): (before, after, found); not found = (s, "", false) *)
Fixpoint cut (sep : Z) (s : bytes) : bytes * bytes * bool :=
  match s with
  | [] => ([], [], false)
  | c :: t => if c =? sep then ([], t, true)
              else let '(b, a, f) := cut sep t in (c :: b, a, f)
  end.

(* strings.LastIndex(s, sep) = i  ~~>  Some (s[:i], s[i+1:]) ; -1 ~~> None *)
Fixpoint split_last (sep : Z) (s : bytes) : option (bytes * bytes) :=
  match s with
  | [] => None
  | c :: t => match split_last sep t with
              | Some (b, a) => Some (c :: b, a)
              | None => if c =? sep then Some ([], t) else None
              end
  end.

(* strings.Index(s, "%25") = z  ~~>  Some (s[:z], s[z:]) ; -1 ~~> None *)
Definition starts_pct25 (s : bytes) : bool :=
  match s with
  | a :: b :: c :: _ => (a =? 37) && (b =? 50) && (c =? 53)
  | _ => false
  end.

Fixpoint split_pct25 (s : bytes) : option (bytes * bytes) :=
  match s with
  | [] => None
  | c :: t =>
      if starts_pct25 s then Some ([], s)
      else match split_pct25 t with
           | Some (a, b) => Some (c :: a, b)
           | None => None
           end
  end.

Definition count (c : Z) (s : bytes) : Z :=
  fold_right (fun x n => if x =? c then n + 1 else n) 0 s.

Definition has_suffix1 (c : Z) (s : bytes) : bool :=
  match rev s with x :: _ => x =? c | [] => false end.

(* strings.ReplaceAll(s, "%", "%25") *)
Fixpoint escape_pct (s : bytes) : bytes :=
  match s with
  | [] => []
  | c :: t => if c =? 37 then 37 :: 50 :: 53 :: escape_pct t else c :: escape_pct t
  end.

(* strings.ToLower on an ASCII string *)
Definition lower (s : bytes) : bytes := map (fun c => if is_upper c then c + 32 else c) s.

(* ------------------------------------------------------------------ *)
(* net/url *)

Inductive enc := EncPath | EncHost | EncZone | EncUser | EncFragment.

Definition is_hostmode (m : enc) : bool :=
  match m with EncHost | EncZone => true | _ => false end.

(* url.shouldEscape(c, mode) for mode = encodeHost / encodeZone (the only modes
   in which url.Parse consults it on the fields gnet reads):
   alnum -> false; the host sub-delims list -> false; '-' '_' '.' '~' -> false;
   the reserved characters have no case for these modes in the inner switch
   and fall through to "everything else must be escaped". *)
Definition should_escape_host (c : Z) : bool :=
  if is_alnum c then false
  else if mem c [33; 36; 38; 39; 40; 41; 42; 43; 44; 59; 61; 58; 91; 93; 60; 62; 34] then false
  else if mem c [45; 95; 46; 126] then false
  else true.

(* first loop of url.unescape: validation *)
Fixpoint unesc_ok (m : enc) (s : bytes) : bool :=
  match s with
  | [] => true
  | c :: t =>
      if c =? 37 then
        match t with
        | h1 :: h2 :: t' =>
            if negb (ishex h1 && ishex h2) then false
            else if (match m with EncHost => true | _ => false end)
                    && (unhex h1 <? 8) && negb ((h1 =? 50) && (h2 =? 53)) then false
            else if (match m with EncZone => true | _ => false end)
                    && negb ((h1 =? 50) && (h2 =? 53))
                    && negb (Z.lor (Z.shiftl (unhex h1) 4) (unhex h2) =? 32)
                    && should_escape_host (Z.lor (Z.shiftl (unhex h1) 4) (unhex h2)) then false
            else unesc_ok m t'
        | _ => false            (* i+2 >= len(s) *)
        end
      else if c =? 43 then unesc_ok m t
      else if is_hostmode m && (c <? 128) && should_escape_host c then false
      else unesc_ok m t
  end.

(* second loop of url.unescape: s[i+1], s[i+2] are indexed without a guard *)
Fixpoint unesc_do (s : bytes) : outcome bytes :=
  match s with
  | [] => Ret []
  | c :: t =>
      if c =? 37 then
        match t with
        | h1 :: h2 :: t' =>
            obind (unesc_do t') (fun r => Ret (Z.lor (Z.shiftl (unhex h1) 4) (unhex h2) :: r))
        | _ => Panic
        end
      else obind (unesc_do t) (fun r => Ret (c :: r))
  end.

(* result of a url-level step: value, error, or Go panic *)
Inductive res (A : Type) := ROk (a : A) | RErr | RPanic.
Arguments ROk {A} a.
Arguments RErr {A}.
Arguments RPanic {A}.

Definition rbind {A B} (r : res A) (f : A -> res B) : res B :=
  match r with ROk a => f a | RErr => RErr | RPanic => RPanic end.

Definition unescape (m : enc) (s : bytes) : res bytes :=
  if unesc_ok m s then
    match unesc_do s with Ret r => ROk r | Panic => RPanic end
  else RErr.

(* url.getScheme: None = error "missing protocol scheme";
   Some None = no scheme (rest is the whole input);
   Some (Some (scheme, rest)) *)
Fixpoint scheme_scan (first : bool) (s : bytes) : option (option (bytes * bytes)) :=
  match s with
  | [] => Some None
  | c :: t =>
      if is_alpha c then
        match scheme_scan false t with
        | Some (Some (sch, rest)) => Some (Some (c :: sch, rest))
        | r => r
        end
      else if is_digit c || (c =? 43) || (c =? 45) || (c =? 46) then
        if first then Some None
        else match scheme_scan false t with
             | Some (Some (sch, rest)) => Some (Some (c :: sch, rest))
             | r => r
             end
      else if c =? 58 then
        if first then None else Some (Some ([], t))
      else Some None
  end.

Definition valid_optional_port (p : bytes) : bool :=
  match p with
  | [] => true
  | c :: t => (c =? 58) && forallb is_digit t
  end.

(* url.validUserinfo (range over runes: every byte >= 0x80 yields a rune
   outside the accepted set) *)
Definition valid_userinfo (s : bytes) : bool :=
  forallb (fun r => is_alnum r ||
     mem r [45; 46; 95; 58; 126; 33; 36; 38; 39; 40; 41; 42; 43; 44; 59; 61; 37; 64]) s.

Definition has_prefix1 (c : Z) (s : bytes) : bool :=
  match s with x :: _ => x =? c | [] => false end.

Definition parse_host (host : bytes) : res bytes :=
  let plain := unescape EncHost host in
  if has_prefix1 91 host then
    match split_last 93 host with
    | None => RErr                                   (* missing ']' in host *)
    | Some (before, colon_port) =>
        if negb (valid_optional_port colon_port) then RErr
        else match split_pct25 before with
             | Some (h1, zonepart) =>
                 rbind (unescape EncHost h1) (fun host1 =>
                 rbind (unescape EncZone zonepart) (fun host2 =>
                 rbind (unescape EncHost (93 :: colon_port)) (fun host3 =>
                 ROk (host1 ++ host2 ++ host3)%list)))
             | None => plain
             end
    end
  else
    match split_last 58 host with
    | Some (_, after) =>
        if negb (valid_optional_port (58 :: after)) then RErr else plain
    | None => plain
    end.

Definition contains (c : Z) (s : bytes) : bool := mem c s.

(* url.parseAuthority, host part only; the userinfo is validated and unescaped
   because those steps can fail *)
Definition parse_authority (authority : bytes) : res bytes :=
  match split_last 64 authority with
  | None => parse_host authority
  | Some (userinfo, hostpart) =>
      rbind (parse_host hostpart) (fun host =>
      if negb (valid_userinfo userinfo) then RErr
      else if negb (contains 58 userinfo) then
        rbind (unescape EncUser userinfo) (fun _ => ROk host)
      else
        let '(username, password, _) := cut 58 userinfo in
        rbind (unescape EncUser username) (fun _ =>
        rbind (unescape EncUser password) (fun _ => ROk host)))
  end.

Record url := mkurl { u_scheme : bytes; u_host : bytes; u_path : bytes }.

Definition is_ctl (b : Z) : bool := (b <? 32) || (b =? 127).

(* url.parse(rawURL, viaRequest = false) *)
Definition url_parse_nofrag (raw : bytes) : res url :=
  if existsb is_ctl raw then RErr
  else if bytes_eqb raw [42] then ROk (mkurl [] [] [42])
  else
    match scheme_scan true raw with
    | None => RErr
    | Some gs =>
        let '(scheme0, rest0) := match gs with Some (s, r) => (s, r) | None => ([], raw) end in
        let scheme := lower scheme0 in
        let rest1 :=
          if has_suffix1 63 rest0 && (count 63 rest0 =? 1) then removelast rest0
          else fst (fst (cut 63 rest0)) in
        let no_slash := negb (has_prefix1 47 rest1) in
        if no_slash && negb (is_nil scheme) then ROk (mkurl scheme [] [])       (* opaque *)
        else if no_slash && contains 58 (fst (fst (cut 47 rest1))) then RErr     (* first path segment ... colon *)
        else
          let finish (host rest : bytes) :=
            rbind (unescape EncPath rest) (fun p => ROk (mkurl scheme host p)) in
          match rest1 with
          | s1 :: s2 :: after =>
              (* (scheme != "" || !HasPrefix(rest, "///")) && HasPrefix(rest, "//") *)
              if (negb (is_nil scheme) || negb (has_prefix1 47 after)) && (s1 =? 47) && (s2 =? 47) then
                let '(authority, tail, found) := cut 47 after in
                let rest2 := if found then 47 :: tail else [] in
                rbind (parse_authority authority) (fun host => finish host rest2)
              else finish [] rest1
          | _ => finish [] rest1
          end
    end.

(* url.Parse *)
Definition url_parse (raw : bytes) : res url :=
  let '(u, frag, _) := cut 35 raw in
  rbind (url_parse_nofrag u) (fun url =>
  if is_nil frag then ROk url
  else rbind (unescape EncFragment frag) (fun _ => ROk url)).

(* ------------------------------------------------------------------ *)
(* path.Clean / path.Join.  The lazybuf is the written prefix kept in reverse
   (head = last byte written) together with its length w; dotdot as in the
   source.  `in_elem` = inside the inner "copy element" loop. *)

Record cstate := mkcs { c_out : bytes; c_w : Z; c_dotdot : Z }.

Definition cs_append (st : cstate) (c : Z) : cstate :=
  mkcs (c :: c_out st) (c_w st + 1) (c_dotdot st).

(* out.w--; for out.w > dotdot && out.index(out.w) != '/' { out.w-- } *)
Fixpoint backtrack (out : bytes) (w dotdot : Z) : bytes * Z :=
  match out with
  | [] => ([], w)
  | x :: r => let w1 := w - 1 in
              if (w1 >? dotdot) && negb (x =? 47) then backtrack r w1 dotdot else (r, w1)
  end.

Fixpoint clean_go (rooted in_elem : bool) (p : bytes) (st : cstate) {struct p} : cstate :=
  match p with
  | [] => st
  | c :: t =>
      if in_elem then
        (* for ; r < n && path[r] != '/'; r++ { out.append(path[r]) } *)
        if c =? 47 then clean_go rooted false t st          (* loop ends; the '/' is then skipped by case 1 *)
        else clean_go rooted true t (cs_append st c)
      else if c =? 47 then clean_go rooted false t st       (* empty path element *)
      else
        let dot_elem := (c =? 46) && match t with [] => true | d :: _ => d =? 47 end in
        let dotdot_elem := (c =? 46) && match t with
                                        | d :: [] => d =? 46
                                        | d :: e :: _ => (d =? 46) && (e =? 47)
                                        | [] => false
                                        end in
        if dot_elem then clean_go rooted false t st
        else if dotdot_elem then
          match t with
          | _ :: t2 =>
              if c_w st >? c_dotdot st then
                let '(o, w) := backtrack (c_out st) (c_w st) (c_dotdot st) in
                clean_go rooted false t2 (mkcs o w (c_dotdot st))
              else if negb rooted then
                let st1 := if c_w st >? 0 then cs_append st 47 else st in
                let st2 := cs_append (cs_append st1 46) 46 in
                clean_go rooted false t2 (mkcs (c_out st2) (c_w st2) (c_w st2))
              else clean_go rooted false t2 st
          | [] => st                                         (* unreachable: dotdot_elem implies t <> [] *)
          end
        else
          (* real path element: add slash if needed, then copy *)
          let st1 := if (rooted && negb (c_w st =? 1)) || (negb rooted && negb (c_w st =? 0))
                     then cs_append st 47 else st in
          clean_go rooted true t (cs_append st1 c)
  end.

Definition path_clean (p : bytes) : bytes :=
  match p with
  | [] => [46]
  | c :: t =>
      let rooted := c =? 47 in
      let st := if rooted then clean_go true false t (mkcs [47] 1 1)
                else clean_go false false p (mkcs [] 0 0) in
      if c_w st =? 0 then [46] else rev (c_out st)
  end.

(* path.Join(host, path) for exactly two elements *)
Definition path_join (a b : bytes) : bytes :=
  match a, b with
  | [], [] => []
  | _, [] => path_clean a
  | [], _ => path_clean b
  | _, _ => path_clean (a ++ 47 :: b)%list
  end.

(* ------------------------------------------------------------------ *)
(* gnet.parseProtoAddr *)

Inductive perr := EInvalid | EUnsupported | EUrl.

Inductive presult :=
| POk (scheme endpoint : bytes)
| PErr (e : perr)
| PPanic.

Definition s_tcp : bytes := [116; 99; 112].
Definition s_tcp4 : bytes := [116; 99; 112; 52].
Definition s_tcp6 : bytes := [116; 99; 112; 54].
Definition s_udp : bytes := [117; 100; 112].
Definition s_udp4 : bytes := [117; 100; 112; 52].
Definition s_udp6 : bytes := [117; 100; 112; 54].
Definition s_unix : bytes := [117; 110; 105; 120].

Definition inet_schemes : list bytes := [s_tcp; s_tcp4; s_tcp6; s_udp; s_udp4; s_udp6].

Definition is_inet_scheme (s : bytes) : bool := existsb (bytes_eqb s) inet_schemes.

Definition dispatch (u : url) : presult :=
  if is_nil (u_scheme u) then PErr EInvalid
  else if is_inet_scheme (u_scheme u) then
    if is_nil (u_host u) || negb (is_nil (u_path u)) then PErr EInvalid
    else POk (u_scheme u) (u_host u)
  else if bytes_eqb (u_scheme u) s_unix then
    let hp := path_join (u_host u) (u_path u) in
    if is_nil hp then PErr EInvalid else POk (u_scheme u) hp
  else PErr EUnsupported.

Definition parse_proto_addr (a : bytes) : presult :=
  match url_parse (escape_pct a) with
  | RErr => PErr EUrl
  | RPanic => PPanic
  | ROk u => dispatch u
  end.

(* ------------------------------------------------------------------ *)
(* option normalisation (createListeners in gnet.go, NewClient in client_unix.go) *)

Definition default_buffer_size : Z := 1024.        (* ring.DefaultBufferSize *)
Definition max_stream_buffer_cap : Z := 65536.     (* initial value of var gnet.MaxStreamBufferCap *)
Definition default_et_chunk : Z := 1048576.        (* 1 << 20 *)
Definition event_loop_index_max : Z := 256.        (* gfd.EventLoopIndexMax *)

(* switch { case c <= 0: Max; case c <= DefaultBufferSize: Default; default: Ceil(c) } *)
Definition norm_cap (maxcap c : Z) : outcome Z :=
  if c <=? 0 then Ret maxcap
  else if c <=? default_buffer_size then Ret default_buffer_size
  else CeilToPowerOfTwo c.

(* if chunk > 0 { et = true; chunk = Ceil(chunk) } else if et { chunk = 1<<20 } *)
Definition norm_chunk (chunk : Z) (et : bool) : outcome (Z * bool) :=
  if chunk >? 0 then obind (CeilToPowerOfTwo chunk) (fun c => Ret (c, true))
  else if et then Ret (default_et_chunk, et)
  else Ret (chunk, et).

(* order as in the source: chunk, then ReadBufferCap, then WriteBufferCap *)
Definition normalise (maxcap rbc wbc chunk : Z) (et : bool) : outcome (Z * Z * Z * bool) :=
  obind (norm_chunk chunk et) (fun ce =>
  obind (norm_cap maxcap rbc) (fun r =>
  obind (norm_cap maxcap wbc) (fun w =>
  Ret (r, w, fst ce, snd ce)))).

Definition determine_event_loops (numcpu : Z) (multicore : bool) (n : Z) : Z :=
  let num := 1 in
  let num := if multicore then numcpu else num in
  let num := if n >? 0 then n else num in
  let num := if num >? event_loop_index_max then event_loop_index_max else num in
  num.

(* ------------------------------------------------------------------ *)
(* trace runner: family "addr"
   op parse x<addr>                        -> obs r ok x<scheme> x<endpoint> | obs r err <class> | obs r panic
   op norm <who> <maxcap> <rbc> <wbc> <chunk> <et>
                                           -> obs norm <rbc'> <wbc'> <chunk'> <et'> | obs norm panic
   op loops <multicore> <numeventloop> <numcpu> -> obs loops <n> *)
Open Scope string_scope.

Definition addr_line (l : line) : list line :=
  match l with
  | ("parse", [ABytes a]) =>
      match parse_proto_addr a with
      | POk s ep => [obs "r" [ASym "ok"; ABytes s; ABytes ep]]
      | PErr EInvalid => [obs "r" [ASym "err"; ASym "invalid"]]
      | PErr EUnsupported => [obs "r" [ASym "err"; ASym "unsupported"]]
      | PErr EUrl => [obs "r" [ASym "err"; ASym "urlerr"]]
      | PPanic => [panic_line "r"]
      end
  | ("norm", [ASym _; AInt maxcap; AInt rbc; AInt wbc; AInt chunk; AInt et]) =>
      match normalise maxcap rbc wbc chunk (negb (et =? 0)%Z) with
      | Ret (r, w, c, e) => [obs "norm" [AInt r; AInt w; AInt c; bool_arg e]]
      | Panic => [panic_line "norm"]
      end
  | ("loops", [AInt mc; AInt n; AInt numcpu]) =>
      [obs "loops" [AInt (determine_event_loops numcpu (negb (mc =? 0)%Z) n)]]
  | _ => [obs "unknown" []]
  end.

Definition run_addr : runner := fun ls => flat_map addr_line ls.
