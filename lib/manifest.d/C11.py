CHECK = dict(
    engine="llist", design_ref="4 / C11",
    text="placeholder",
    note="placeholder",
    technique="Coq proof (refinement to a FIFO byte list, induction over operation lists) + differential traces",
)
ENGINE = dict(name="llist", path="coq/Model/LList.v", serves_properties=["C11"],
              kind_free_text="Gallina model of pkg/buffer/linkedlist (symbolic bytes for Append aliasing) + drv-llist")
