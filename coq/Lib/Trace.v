(* Generic trace-line vocabulary shared by every executable model and by the
   OCaml runner.  A trace line is a name and a list of arguments; the Go
   harness prints exactly this shape, one line per record. *)
From Coq Require Export List ZArith String Bool.
Export ListNotations.
Open Scope Z_scope.

Inductive arg :=
| AInt (z : Z)               (* decimal integer *)
| ABytes (bs : list Z)       (* x<hex>  : byte string, each element in [0,256) *)
| ASym (s : string).         (* bare word *)

Definition line := (string * list arg)%type.

(* Outcome of a model operation that can panic in Go. *)
Inductive outcome (A : Type) :=
| Ret (a : A)
| Panic.
Arguments Ret {A} a.
Arguments Panic {A}.

Definition obind {A B} (o : outcome A) (f : A -> outcome B) : outcome B :=
  match o with Ret a => f a | Panic => Panic end.

Definition bool_arg (b : bool) : arg := AInt (if b then 1 else 0).

Definition sym_eqb (a b : string) : bool := String.eqb a b.

(* A family's run function maps the input lines of a case to the predicted
   observation lines. *)
Definition runner := list line -> list line.

Definition obs (name : string) (args : list arg) : line := (name, args).

Definition panic_line (name : string) : line := (name, [ASym "panic"]).
