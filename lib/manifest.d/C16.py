CHECK = dict(
    engine="addr", design_ref="4 / C16",
    text="Proof on a Gallina transcription of parseProtoAddr over the Go 1.23.5 net/url.Parse / path.Join code path "
         "(Scheme, Host, Path only): total, never panics, error classes characterised exactly, endpoint exactly as written "
         "for every host[:port] url.Parse accepts literally (superset of reg-name | IPv4 | [IPv6%zone] with optional port; "
         "'%' anywhere, zones with '%', digits, '25'), unix endpoint = path.Clean(host ++ path); option normalisation "
         "(power of two >= request, 64 KiB default, 1 KiB minimum, least such) and event-loop clamp 1..256. "
         "Partial in one point: buffer-cap / chunk requests above 2^62 make NewClient / createListeners panic "
         "(no int power of two exists) - refuted witness, known finding, theorem with hypothesis request <= 2^62. "
         "Tied to /repo by differential execution of the real parseProtoAddr / NewClient / createListeners / "
         "determineEventLoops against the extracted model, a clause-by-clause direct oracle, and the gennorm translator "
         "(normalisation switches, determineEventLoops, constants, scheme tables regenerated from the source each run).",
    note="Stated limit: the theorems are about a hand transcription of the Go 1.23.5 net/url / path code; a disagreement "
         "with the real url.Parse is a correspondence failure that means the MODEL must be repaired (it is not a gnet "
         "violation). Index guards of the Go code are modelled by pattern matching on the remaining suffix; the one "
         "unguarded index (second pass of url.unescape) has an explicit Panic branch proved unreachable. "
         "Windows branch of parseProtoAddr is outside the model. gennorm and the Go harness are trusted.",
    technique="Coq proof (structural induction on byte lists, lia) + differential traces + go/ast translator obligations",
)
ENGINE = dict(name="addr", path="coq/Model/Addr.v", serves_properties=["C16"],
              kind_free_text="Gallina transcription of gnet.parseProtoAddr + net/url.Parse (Scheme/Host/Path) + path.Join/Clean "
                             "+ option normalisation + determineEventLoops; drv-addr driver; gennorm translator")
