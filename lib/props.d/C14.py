import os, sys
sys.path.insert(0, os.path.dirname(os.path.dirname(os.path.abspath(__file__))))
PROP = dict(
    drivers=[dict(cmd="drv-registry", family="registry", variant="map", tags="verif", search_thorough=False),
             dict(cmd="drv-registry", family="registry", variant="gcopt", tags="verif gc_opt", search_thorough=False),
             # the registry as the event loop uses it (added by the orchestrator after a missed seed: a failed
             # registration must not leave an entry behind): real engine runs incl. injected epoll_ctl(ADD) failures,
             # judged here only by the registry-related oracles
             dict(cmd="drv-loop", family="loop", variant="regfault", shrink=False, netns=True, args=["-focus", "fault", "-n", "25"],
                  sites=["^count-connections$", "^lifecycle$", "^loop-stuck$", "^engine-start$"],
                  unix_swap=__import__("loopfam").LOOP_SWAP, timeout=dict(quick=600, thorough=3000))],
    rule="a case is one registry driven by a generated op sequence (add / del first-middle-last-random by position / "
         "re-register the just-removed fd / iterate read-only, shutdown, remove-some, early stop / checkpoints that read "
         "getConn for every fd ever used, loadCount and each live conn's stored (row,column)); populations 0..8 (160 cases), "
         "10..300 (60 cases), one case crossing the 65536 row boundary (thorough: 7 more around 65536 and 131072, "
         "and 10-50x the small cases); both build variants (conn_map.go, conn_matrix.go with -tags gc_opt); "
         "non-trivial = tagged with a deletion shape / iteration pattern / boundary; distinct by hash of the op lines",
    trusted=["stdlib FMapPositive (PositiveMap) as the executable finite map of the model; Sorting.Mergesort only to sort the visit list for printing"],
    assumptions=["a connection object is an identity with an fd and a stored (row, column, fd) GFD; the GFD byte packing is C20",
                 "int32 counters do not wrap (population < 2^31); Go map iteration visits every entry present throughout the loop exactly once",
                 "API preconditions (sp_wf): a descriptor is registered only while unregistered, only registered connections are removed "
                 "(eventloop.register/close guard this with getConn and the kernel's descriptor uniqueness)",
                 "matrix theorems need COL > 1 (real value 65536) and population < ROW*COL (at capacity addConn drops silently: theorem C14_matrix_add_at_capacity_drops)"],
)
