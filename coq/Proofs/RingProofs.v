(* C09 proofs, part 4: every operation simulates its FIFO specification, and the
   theorems over arbitrary operation sequences. *)
From Coq Require Import Lia ZArith ZifyBool List Bool.
From GV Require Import Lib.Trace Model.Arith Model.Ring Spec.Fifo Spec.RingSpec Proofs.FifoLemmas Proofs.ArithProofs
  Proofs.RingBase Proofs.RingOps Proofs.RingIO.
Import ListNotations.
Open Scope Z_scope.

Lemma fifo_is_empty_content rb : ring_inv rb -> fifo_is_empty (content rb) = is_empty rb.
Proof.
  intros Hi. pose proof (content_nil_iff rb Hi) as [H1 H2].
  destruct (content rb) eqn:C; cbn [fifo_is_empty].
  - symmetry. apply H1. reflexivity.
  - destruct (is_empty rb); [|reflexivity]. discriminate (H2 eq_refl).
Qed.

(* one simulation step *)
Lemma step_spec rb o : ring_inv rb -> op_wf o ->
  exists rb' x, step rb o = Ret (rb', x) /\ ring_inv rb' /\ ring_op_spec (content rb) o x (content rb').
Proof.
  intros Hi Hwf. destruct o; cbn [step op_wf] in *.
  - destruct (Write_spec rb p Hi Hwf) as (rb' & H & I & C). rewrite H. cbn [omap].
    eexists _, _. splits; [reflexivity|exact I|]. cbn. splits; trivial.
  - unfold WriteString. destruct (Write_spec rb p Hi Hwf) as (rb' & H & I & C). rewrite H. cbn [omap].
    eexists _, _. splits; [reflexivity|exact I|]. cbn. splits; trivial.
  - destruct (WriteByte_spec rb c Hi) as (rb' & H & I & C). rewrite H. cbn [omap].
    eexists _, _. splits; [reflexivity|exact I|]. cbn. splits; trivial.
  - destruct (Read_spec rb n Hi Hwf) as (rb' & d & e & H & Hd & I & C & _ & _ & He). rewrite H. cbn [omap].
    eexists _, _. splits; [reflexivity|exact I|]. cbn [ring_op_spec]. unfold fifo_take.
    rewrite (fifo_is_empty_content rb Hi). splits; trivial. rewrite Hd, C. reflexivity.
  - destruct (ReadByte_spec rb Hi) as (rb' & b & e & H & I & C). rewrite H. cbn [omap].
    eexists _, _. splits; [reflexivity|exact I|]. cbn [ring_op_spec]. exact C.
  - destruct (Peek_spec rb n Hi) as (h & t & H & C). rewrite H. cbn [omap].
    eexists _, _. splits; [reflexivity|exact Hi|]. cbn [ring_op_spec]. split; trivial.
  - destruct (Discard_spec rb n Hi) as (rb' & H & I & C). rewrite H. cbn [omap].
    eexists _, _. splits; [reflexivity|exact I|]. cbn [ring_op_spec fifo_take fst snd]. splits; trivial.
  - rewrite (Bytes_spec rb Hi). cbn [omap].
    eexists _, _. splits; [reflexivity|exact Hi|]. cbn. split; trivial.
  - destruct (ReadFrom_spec rb src script Hi) as (rb' & o & H & I & k & Hk & Hn & Hs & C). rewrite H. cbn [omap].
    eexists _, _. splits; [reflexivity|exact I|]. cbn [ring_op_spec]. exists k. splits; trivial; lia.
  - destruct (WriteTo_spec rb script Hi) as (rb' & o & H & (I & Hn & Hr & C & He) & Hemp). rewrite H. cbn [omap].
    eexists _, _. splits; [reflexivity|exact I|]. cbn [ring_op_spec]. unfold fifo_take, fifo_len.
    splits; trivial; try lia.
    + rewrite Hr, C. reflexivity.
    + intros Hq. apply Hemp. exact Hq.
  - destruct (Reset_spec rb Hi) as (I & C).
    eexists _, _. splits; [reflexivity|exact I|]. cbn. exact C.
  - eexists _, _. splits; [reflexivity|exact Hi|]. cbn. split; [|reflexivity]. apply buffered_content. exact Hi.
  - eexists _, _. splits; [reflexivity|exact Hi|]. reflexivity.
  - eexists _, _. splits; [reflexivity|exact Hi|]. reflexivity.
  - eexists _, _. splits; [reflexivity|exact Hi|]. reflexivity.
  - eexists _, _. splits; [reflexivity|exact Hi|]. cbn. split; [|reflexivity].
    unfold IsEmpty. symmetry. apply fifo_is_empty_content. exact Hi.
  - eexists _, _. splits; [reflexivity|exact Hi|]. reflexivity.
Qed.

(* arbitrary finite operation sequences from any state satisfying the invariant *)
Lemma run_ops_spec ops : forall rb, ring_inv rb -> Forall op_wf ops ->
  exists rb' outs, run_ops rb ops = Ret (rb', outs) /\ ring_inv rb' /\
    fifo_run (content rb) ops outs (content rb').
Proof.
  induction ops as [|o ops IH]; intros rb Hi Hwf; cbn [run_ops].
  - exists rb, []. splits; trivial. constructor.
  - inversion Hwf as [|? ? Ho Hops]; subst.
    destruct (step_spec rb o Hi Ho) as (rb1 & x & Hs & I1 & S1). rewrite Hs. cbn [obind].
    destruct (IH rb1 I1 Hops) as (rb2 & xs & Hr & I2 & S2). rewrite Hr. cbn [obind].
    exists rb2, (x :: xs). splits; trivial. econstructor; eassumption.
Qed.

Definition int_range (n : Z) : Prop := -9223372036854775808 <= n <= 4611686018427387904.

Lemma int_range_int64 n : int_range n -> int64 n /\ n <= 4611686018427387904.
Proof. unfold int_range, int64. lia. Qed.

Theorem ring_refines_fifo : forall n ops, int_range n -> Forall op_wf ops ->
  exists rb0 rb outs, New n = Ret rb0 /\ run_ops rb0 ops = Ret (rb, outs) /\
    fifo_run fifo_empty ops outs (content rb).
Proof.
  intros n ops Hn Hwf. destruct (int_range_int64 n Hn) as (H64 & Hle).
  destruct (New_spec n H64 Hle) as (rb0 & HN & I0 & C0 & _).
  destruct (run_ops_spec ops rb0 I0 Hwf) as (rb & outs & HR & I & S).
  exists rb0, rb, outs. splits; trivial. rewrite C0 in S. exact S.
Qed.

Theorem ring_no_panic : forall n ops, int_range n -> Forall op_wf ops ->
  obind (New n) (fun rb0 => run_ops rb0 ops) <> Panic.
Proof.
  intros n ops Hn Hwf. destruct (ring_refines_fifo n ops Hn Hwf) as (rb0 & rb & outs & HN & HR & _).
  rewrite HN. cbn [obind]. rewrite HR. discriminate.
Qed.

Theorem ring_accounting : forall n ops rb0 rb outs, int_range n -> Forall op_wf ops ->
  New n = Ret rb0 -> run_ops rb0 ops = Ret (rb, outs) ->
  Buffered rb = fifo_len (content rb) /\
  Buffered rb + Available rb = Cap rb /\ 0 <= Buffered rb /\ 0 <= Available rb /\
  Len rb = Cap rb /\
  (IsEmpty rb = true <-> Buffered rb = 0) /\
  (IsFull rb = true <-> Buffered rb = Cap rb /\ 0 < Cap rb).
Proof.
  intros n ops rb0 rb outs Hn Hwf HN HR. destruct (int_range_int64 n Hn) as (H64 & Hle).
  destruct (New_spec n H64 Hle) as (rb0' & HN' & I0 & _). rewrite HN in HN'. injection HN' as <-.
  destruct (run_ops_spec ops rb0 I0 Hwf) as (rb' & outs' & HR' & I & _).
  rewrite HR in HR'. injection HR' as <- <-.
  split; [apply buffered_content; exact I|]. apply accounting. exact I.
Qed.

(* the explicit panic of New (math.CeilToPowerOfTwo) is outside [int_range] *)
Lemma New_panics_above n : int64 n -> 4611686018427387904 < n -> New n = Panic.
Proof.
  intros H64 Hgt. unfold New. destruct (Z.eqb_spec n 0); [lia|].
  destruct (ceil_spec n H64) as (Hp & _). rewrite Hp by lia. reflexivity.
Qed.
