CHECK = dict(
    engine="msqueue", design_ref="4 / C13, Appendix A.4",
    text="Full proof on an interleaving model of lock_free_queue.go (any number of threads, values and steps; one "
         "sync/atomic operation per step): chain_inv in every reachable state, linearizability with explicit "
         "linearization points (link CAS / head CAS / nil load of head.next validated by the head re-read) against the "
         "sequential FIFO specification, and the corollaries dequeued-at-most-once, never-invented, per-producer FIFO, "
         "empty-only-if-empty, drained-exactly-once, length_lag and length_quiescent; tied to the current source by "
         "step-by-step correspondence of the real queue (sync/atomic swapped for a scheduler-controlled shim) with the "
         "extracted model under random, PCT and bounded-preemption schedules, plus a direct linearizability oracle on "
         "managed and unmanaged (real goroutine) runs.",
    note="Assumes sequentially consistent sync/atomic, no node reuse while reachable (GC, no ABA), non-nil tasks, "
         "fewer than 2^31 queued tasks for the Length clause; the vatomic/vsched shims and the import swap are trusted; "
         "the memory model itself is not exercised by the cooperative scheduler.",
    technique="Coq proof (inductive invariant over a labelled transition system, history variable with linearization "
              "events, refinement to an atomic FIFO spec) + differential schedule traces + linearizability oracle",
)
ENGINE = dict(name="msqueue", path="coq/Model/MSQueue.v", serves_properties=["C13"],
              kind_free_text="Gallina interleaving model of pkg/queue/lock_free_queue.go (Michael-Scott queue) over "
                             "Lib/Interleave.v + Spec/AtomicQueue.v; drv-msqueue with vatomic/vsched shims")
