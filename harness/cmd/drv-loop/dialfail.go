package main

// Part of focus "startfault" (oracle only): requests that FAIL after the framework has duplicated the caller's
// descriptor.  A client whose TCP keep-alive period SetKeepAlive refuses (below one second) fails every Dial /
// Enroll after the duplication; an Enroll of a connection type the framework does not support fails likewise.
// Every such call returns an error -- and the duplicate is closed again: the ledger holds nothing of it (C07).

import (
	"fmt"
	"net"
	"os"
	"time"

	gnet "github.com/panjf2000/gnet/v2"
	"github.com/panjf2000/gnet/v2/pkg/vunix"

	"verifharness/tr"
)

func runDialFail(w *tr.Writer, seed uint64, idx int) {
	rnd := tr.NewRand(seed*1000303 + uint64(idx))
	proto := rnd.PickS([]string{"tcp", "tcp", "unix"})
	n := rnd.Range(1, 5)
	rec := newRecorder()
	rec.ledgerOn = true
	vunix.SetHooks(rec)
	defer vunix.SetHooks(nil)
	w.Case(fmt.Sprintf("DF%d", idx), "loopstart", "proto="+proto, "dials="+tr.I(n), "focus=startfault", "seed="+tr.U64(seed), "idx="+tr.I(idx))
	defer w.End()
	var ln net.Listener
	var err error
	if proto == "unix" {
		pcount++
		p := fmt.Sprintf("/var/tmp/vloop-df-%d-%d.sock", os.Getpid(), pcount)
		os.Remove(p)
		defer os.Remove(p)
		ln, err = net.Listen("unix", p)
	} else {
		ln, err = net.Listen("tcp", "127.0.0.1:0")
	}
	if err != nil {
		w.Hist("dialfail-no-listener")
		return
	}
	defer ln.Close()
	go func() {
		for {
			c, err := ln.Accept()
			if err != nil {
				return
			}
			c.Close()
		}
	}()
	h := &raceHandler{parked: make(chan struct{}), release: make(chan struct{})}
	close(h.release)
	opts := []gnet.Option{gnet.WithNumEventLoop(1)}
	if proto == "tcp" {
		opts = append(opts, gnet.WithTCPKeepAlive(500*time.Millisecond)) // refused by SetKeepAlive: every Dial fails
	}
	cli, err := gnet.NewClient(h, opts...)
	if err != nil {
		w.Fail("engine-start", "client-new", err.Error())
		return
	}
	if err = cli.Start(); err != nil {
		w.Fail("engine-start", "client-start", err.Error())
		return
	}
	failed := 0
	for i := 0; i < n; i++ {
		var e error
		if proto == "tcp" {
			if rnd.Chance(50) {
				_, e = cli.Dial("tcp", ln.Addr().String())
			} else if nc, de := net.Dial("tcp", ln.Addr().String()); de == nil {
				_, e = cli.Enroll(nc)
			} else {
				continue
			}
			if e == nil {
				w.Fail("lifecycle", "dial-option-failure-swallowed", "Dial / Enroll succeeded although the client's TCP keep-alive period cannot be applied")
			} else {
				failed++
			}
		} else {
			// a Unix-domain connection is fine: control group (the duplicate is owned by the loop until Stop)
			if _, e = cli.Dial("unix", ln.Addr().String()); e != nil {
				w.Fail("client-dial", "error", e.Error())
			}
		}
	}
	time.Sleep(2 * time.Millisecond)
	if proto == "tcp" {
		// the failing calls have returned: nothing they duplicated is still open
		rec.mu.Lock()
		for fd, kindOf := range rec.owned {
			if kindOf == "dup" {
				w.Fail("fd-leak", "dup", fmt.Sprintf("descriptor %d, duplicated by a Dial / Enroll that returned an error, is still open (%d failing calls)", fd, failed))
			}
		}
		rec.mu.Unlock()
	}
	stopped := make(chan error, 1)
	go func() { stopped <- cli.Stop() }()
	select {
	case <-stopped:
	case <-time.After(5 * time.Second):
		w.Fail("engine-start", "stop-did-not-return", "Client.Stop did not return within 5 s")
		return
	}
	rec.mu.Lock()
	for fd, kindOf := range rec.owned {
		w.Fail("fd-leak", kindOf, fmt.Sprintf("descriptor %d (%s) still open after Client.Stop returned", fd, kindOf))
	}
	rec.mu.Unlock()
	flushFails(w, rec)
	w.Hist("dialfail-" + proto)
}
