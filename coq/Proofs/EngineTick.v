(* A loop exits only after shutdown has been requested, and what that gives for OnTick.

   Inv_exit: in every reachable state a loop (event loop or main reactor) whose pc is
   LExited implies e_cancel (the loop's run function calls engine.shutdown when it returns,
   and rootCtx is never un-cancelled); the number of loops is the configured one.

   With it the side condition "the ticker's loop has not exited already" of
   tick_shutdown_requests (EngineExtra) is discharged.  What remains of that hypothesis is
   that the ticker's loop EXISTS: the model accepts every configuration as initial, also
   c_nloops = 0 without reactors, where the exit task of OnTick goes to a loop 0 that is not
   there (tick_shutdown_requests_full_refuted).  gnet never runs with zero event loops
   (determineEventLoops returns at least 1), hence the hypothesis on c_nloops below. *)
From GV Require Import Lib.Trace Lib.Interleave Model.Engine Proofs.EngineBase Proofs.EngineInv Proofs.EngineExtra.
From Coq Require Import Lia List Bool Arith ZArith.
Import ListNotations.
Open Scope list_scope.

Definition noexit (l : loop) : Prop := l_pc l <> LExited.

Record Inv_exit (s : estate) : Prop := mkInvExit {
  ie_live : e_cancel s = false -> Forall noexit (e_loops s) /\ noexit (e_ing s);
  ie_len : List.length (e_loops s) = c_nloops (e_cfg s);
}.

(* ------------------------------------------------------------------ *)
(* changes of the state and the invariant *)

Lemma ie_same : forall s s', Inv_exit s ->
  e_cancel s' = e_cancel s -> e_loops s' = e_loops s -> e_ing s' = e_ing s -> e_cfg s' = e_cfg s ->
  Inv_exit s'.
Proof. intros s s' [H1 H2] Hc Hl Hi Hg. constructor; rewrite ?Hc, ?Hl, ?Hi, ?Hg; assumption. Qed.

Lemma ie_push : forall evs s, Inv_exit s -> Inv_exit (push evs s).
Proof. intros. eapply ie_same; eauto. Qed.

Lemma ie_set_next : forall s n, Inv_exit s -> Inv_exit (set_next s n).
Proof. intros. eapply ie_same; eauto. Qed.
Lemma ie_set_workers : forall s w, Inv_exit s -> Inv_exit (set_workers s w).
Proof. intros. eapply ie_same; eauto. Qed.
Lemma ie_set_users : forall s u, Inv_exit s -> Inv_exit (set_users s u).
Proof. intros. eapply ie_same; eauto. Qed.
Lemma ie_set_inall : forall s b, Inv_exit s -> Inv_exit (set_inall s b).
Proof. intros. eapply ie_same; eauto. Qed.
Lemma ie_set_insd : forall s b, Inv_exit s -> Inv_exit (set_insd s b).
Proof. intros. eapply ie_same; eauto. Qed.
Lemma ie_set_r : forall s r, Inv_exit s -> Inv_exit (set_r s r).
Proof. intros. eapply ie_same; eauto. Qed.
Lemma ie_set_t : forall s t, Inv_exit s -> Inv_exit (set_t s t).
Proof. intros. eapply ie_same; eauto. Qed.
Lemma ie_set_alloc : forall s b, Inv_exit s -> Inv_exit (set_alloc s b).
Proof. intros. eapply ie_same; eauto. Qed.
Lemma ie_set_started : forall s b, Inv_exit s -> Inv_exit (set_started s b).
Proof. intros. eapply ie_same; eauto. Qed.
Lemma ie_put_user : forall s g u, Inv_exit s -> Inv_exit (put_user s g u).
Proof. intros. apply ie_set_users; assumption. Qed.
Lemma ie_new_worker : forall s li d, Inv_exit s -> Inv_exit (new_worker s li d).
Proof. intros. apply ie_set_workers; assumption. Qed.
Lemma ie_signal : forall s o, Inv_exit s -> Inv_exit (signal s o).
Proof. intros s [|k|g] H; cbn [signal]; auto using ie_set_workers, ie_set_users. Qed.

(* once cancelled, the loops are unconstrained *)
Lemma ie_cancelled : forall s s', Inv_exit s -> e_cancel s' = true ->
  List.length (e_loops s') = List.length (e_loops s) -> e_cfg s' = e_cfg s -> Inv_exit s'.
Proof.
  intros s s' [H1 H2] Hc Hl Hg. constructor.
  - rewrite Hc. discriminate.
  - rewrite Hl, Hg. exact H2.
Qed.

Lemma ie_set_cancel : forall s, Inv_exit s -> Inv_exit (set_cancel s true).
Proof. intros. eapply ie_cancelled; eauto. Qed.

Lemma ie_cancel_if : forall s b, Inv_exit s -> Inv_exit (cancel_if b s).
Proof. intros s [|] H; cbn [cancel_if]; auto using ie_set_cancel. Qed.

Lemma ie_upd : forall s i f, Inv_exit s ->
  (forall x, nth_error (e_loops s) i = Some x -> noexit x -> noexit (f x)) ->
  Inv_exit (set_loops s (upd i f (e_loops s))).
Proof.
  intros s i f [H1 H2] Hf. constructor; cbn.
  - intros Hc. destruct (H1 Hc) as [Ha Hb]. split; [|exact Hb]. apply Forall_upd_nth; assumption.
  - rewrite upd_length. exact H2.
Qed.

Lemma ie_map : forall s f, Inv_exit s -> (forall x, noexit x -> noexit (f x)) ->
  Inv_exit (set_loops s (map f (e_loops s))).
Proof.
  intros s f [H1 H2] Hf. constructor; cbn.
  - intros Hc. destruct (H1 Hc) as [Ha Hb]. split; [|exact Hb]. eapply Forall_map_impl; [exact Ha|exact Hf].
  - rewrite map_length. exact H2.
Qed.

Lemma ie_ing : forall s l', Inv_exit s -> (noexit (e_ing s) -> noexit l') -> Inv_exit (set_ing s l').
Proof.
  intros s l' [H1 H2] Hf. constructor; cbn; [|exact H2].
  intros Hc. destruct (H1 Hc) as [Ha Hb]. split; auto.
Qed.

Lemma ie_trigger : forall s i t, Inv_exit s -> Inv_exit (trigger s i t).
Proof. intros. unfold trigger. apply ie_upd; [assumption|]. intros x _ Hx. exact Hx. Qed.

Lemma ie_trigger_ing : forall s t, Inv_exit s -> Inv_exit (trigger_ing s t).
Proof. intros. unfold trigger_ing. apply ie_ing; [assumption|]. intros Hx. exact Hx. Qed.

Lemma Inv_exit_init : forall cfg nu, Inv_exit (einit cfg nu).
Proof.
  intros cfg nu. constructor; cbn.
  - intros _. split; [|discriminate]. apply Forall_forall. intros l Hl. apply repeat_spec in Hl. subst. discriminate.
  - apply repeat_length.
Qed.

(* ------------------------------------------------------------------ *)
(* the steps *)

(* only the step that reports engine.shutdown leaves a loop exited *)
Lemma loop_common_noexit : forall t l c l' evs off, loop_common t l c = Some (l', evs, off) ->
  off = false -> noexit l'.
Proof.
  intros t l c l' evs off H Hoff. unfold loop_common in H.
  destruct (l_pc l) eqn:Epc; destruct c; try discriminate H.
  all: try (destruct (l_conns l) as [|cid rest] eqn:Ec); injection H as <- <- <-; try discriminate Hoff.
  all: unfold noexit; cbn; congruence.
Qed.

Lemma apply_cb_noexit : forall t l cid h l2 evs d, apply_cb t l cid h = (l2, evs, d) ->
  noexit l -> noexit l2.
Proof.
  intros t l cid h l2 evs d H Hn. apply apply_cb_shape in H. destruct H as [[Hp|Hp] _]; unfold noexit in *; congruence.
Qed.

Ltac ie_peel :=
  repeat first [apply ie_cancel_if | apply ie_set_next | apply ie_signal | apply ie_set_workers | apply ie_set_inall
               | apply ie_set_r | apply ie_set_t | apply ie_set_insd | apply ie_set_alloc | apply ie_set_started
               | apply ie_put_user | apply ie_new_worker | apply ie_trigger | apply ie_trigger_ing | apply ie_set_users].

Lemma rstep_exit : forall s c s' evs, Inv_exit s -> rstep s c = Some (s', evs) -> Inv_exit s'.
Proof.
  intros s c s' evs HI H. unfold rstep in H.
  destruct (e_r s) eqn:E; destruct c; step_cases H.
  all: ie_peel; try exact HI.
  - (* start *)
    assert (Inv_exit (set_loops s (map (fun l => l_set_pc l LPoll) (e_loops s)))) as H1
      by (apply ie_map; [exact HI|]; intros; discriminate).
    destruct (c_ticker (e_cfg s)); ie_peel; (destruct (c_reactor (e_cfg s)); [apply ie_ing; [exact H1|intros; discriminate]|exact H1]).
  - destruct (c_client (e_cfg s)); ie_peel; exact HI.
  - apply ie_set_cancel; exact HI.
  - destruct (c_reactor (e_cfg s)); ie_peel; exact HI.
  - apply ie_ing; [|intros Hx; exact Hx]. apply ie_map; [exact HI|]. intros x Hx; exact Hx.
Qed.

Lemma lstep_exit : forall i s c s' evs, Inv_exit s -> lstep i s c = Some (s', evs) -> Inv_exit s'.
Proof.
  intros i s c s' evs HI H. unfold lstep in H.
  destruct (get_loop s i) as [l|] eqn:Hl; [|discriminate H].
  destruct (l_pc l) eqn:Epc.
  2: destruct c as [| | | | |io|k h| | | | | | |]; try (destruct io).
  all: step_cases H.
  all: try match goal with E : apply_cb _ _ _ _ = _ |- _ =>
         apply apply_cb_noexit in E; [|unfold noexit; cbn; congruence] end.
  all: try match goal with E : loop_common _ _ _ = Some (_, _, ?b) |- _ => destruct b end.
  all: ie_peel.
  all: try match goal with E : loop_common _ _ _ = Some (_, _, true) |- _ =>
         eapply ie_cancelled; [exact HI|reflexivity|cbn; apply upd_length|reflexivity] end.
  all: try match goal with E : loop_common _ _ _ = Some (_, _, false) |- _ =>
         apply loop_common_noexit in E; [|reflexivity] end.
  all: apply ie_upd; [exact HI|]; intros x _ _; try assumption.
  all: try (destruct (act_shut _)); unfold noexit; cbn; congruence.
Qed.

Lemma astep_exit : forall s c s' evs, Inv_exit s -> astep s c = Some (s', evs) -> Inv_exit s'.
Proof.
  intros s c s' evs HI H. unfold astep in H.
  destruct (l_pc (e_ing s)) eqn:Epc.
  2: destruct c as [| | |li| | |k h| | | | | | |].
  all: step_cases H.
  all: try match goal with E : loop_common _ _ _ = Some (_, _, ?b) |- _ => destruct b end.
  all: ie_peel; try exact HI.
  all: try match goal with E : loop_common _ _ _ = Some (_, _, true) |- _ =>
         eapply ie_cancelled; [exact HI|reflexivity|reflexivity|reflexivity] end.
  all: try match goal with E : loop_common _ _ _ = Some (_, _, false) |- _ =>
         apply loop_common_noexit in E; [|reflexivity] end.
  all: apply ie_ing; [exact HI|]; intros _; try assumption.
  all: unfold noexit; cbn; congruence.
Qed.

Lemma tstep_exit : forall s c s' evs, Inv_exit s -> tstep s c = Some (s', evs) -> Inv_exit s'.
Proof.
  intros s c s' evs HI H. unfold tstep in H. step_cases H.
  all: try (destruct (act_shut _); [destruct (c_reactor (e_cfg s))|]).
  all: ie_peel; exact HI.
Qed.

Lemma wstep_exit : forall k s c s' evs, Inv_exit s -> wstep k s c = Some (s', evs) -> Inv_exit s'.
Proof.
  intros k s c s' evs HI H. unfold wstep in H. step_cases H.
  all: ie_peel; exact HI.
Qed.

Lemma ustep_exit : forall g s c s' evs, Inv_exit s -> ustep g s c = Some (s', evs) -> Inv_exit s'.
Proof.
  intros g s c s' evs HI H. unfold ustep in H.
  destruct (get_user s g) as [u|] eqn:Hu; [|discriminate H].
  destruct u as [|expired pkg|opened].
  - destruct c; try discriminate H.
    unfold do_call in H. destruct c; step_cases H.
    all: ie_peel; try (apply ie_set_cancel); ie_peel; try exact HI.
    all: try (destruct b; ie_peel; exact HI).
  - destruct c; step_cases H.
    all: ie_peel; try (destruct pkg; ie_peel); exact HI.
  - step_cases H; ie_peel; exact HI.
Qed.

Theorem inv_exit_reachable : forall s, ereachable s -> Inv_exit s.
Proof.
  apply engine_invariant.
  - apply Inv_exit_init.
  - intros s t c s' evs _ HI H. apply ie_push. destruct t; cbn in H.
    + eapply rstep_exit; eauto.
    + eapply lstep_exit; eauto.
    + eapply astep_exit; eauto.
    + eapply tstep_exit; eauto.
    + eapply ustep_exit; eauto.
    + eapply wstep_exit; eauto.
Qed.

(* ------------------------------------------------------------------ *)
(* consequences *)

(* the lemma announced in EngineExtra: an exited loop means the engine is cancelled *)
Theorem exited_cancelled : forall s, ereachable s ->
  (forall i l, get_loop s i = Some l -> l_pc l = LExited -> e_cancel s = true) /\
  (l_pc (e_ing s) = LExited -> e_cancel s = true).
Proof.
  intros s Hr. pose proof (ie_live _ (inv_exit_reachable _ Hr)) as H.
  destruct (e_cancel s); [split; reflexivity|]. destruct (H eq_refl) as [Ha Hb]. split.
  - intros i l Hl Hx. exfalso. exact (Forall_nth_error _ _ _ _ _ Ha Hl Hx).
  - intros Hx. exfalso. exact (Hb Hx).
Qed.

Theorem exited_requested : forall s, ereachable s ->
  ((exists i l, get_loop s i = Some l /\ l_pc l = LExited) \/ l_pc (e_ing s) = LExited) -> requested s = true.
Proof.
  intros s Hr H. destruct (exited_cancelled _ Hr) as [Ha Hb]. unfold requested.
  destruct H as [[i [l [Hl Hx]]]|Hx]; [rewrite (Ha _ _ Hl Hx)|rewrite (Hb Hx)]; reflexivity.
Qed.

Theorem loops_configured : forall s, ereachable s -> List.length (e_loops s) = c_nloops (e_cfg s).
Proof. intros s Hr. exact (ie_len _ (inv_exit_reachable _ Hr)). Qed.

(* OnTick returning Shutdown raises `requested` in every reachable state in which the ticker's
   loop exists: always with reactors, and without them when at least one loop is configured *)
Theorem tick_shutdown_requests_reachable : forall s s' evs, ereachable s ->
  (c_reactor (e_cfg s) = false -> c_nloops (e_cfg s) <> O) ->
  tstep s (CTick AShut) = Some (s', evs) -> requested s' = true.
Proof.
  intros s s' evs Hr Hn H.
  pose proof (inv_pc_reachable _ Hr) as HP. pose proof (inv_exit_reachable _ Hr) as [Hlive Hlen].
  destruct (e_cancel s) eqn:Ec.
  - (* already cancelled *)
    unfold tstep in H. destruct (e_t s); try discriminate H. injection H as <- <-. cbn [act_shut].
    unfold requested. destruct (c_reactor (e_cfg s)); cbn; rewrite Ec; reflexivity.
  - destruct (Hlive eq_refl) as [Ha Hb].
    eapply tick_shutdown_requests; [exact HP|exact H|].
    destruct (c_reactor (e_cfg s)) eqn:Ere; [exact Hb|].
    specialize (Hn eq_refl). unfold get_loop.
    destruct (e_loops s) as [|l r] eqn:El; [cbn in Hlen; congruence|].
    exists l. split; [reflexivity|]. inversion Ha; assumption.
Qed.

Corollary tick_shutdown_requests_reactor : forall s s' evs, ereachable s ->
  c_reactor (e_cfg s) = true -> tstep s (CTick AShut) = Some (s', evs) -> requested s' = true.
Proof.
  intros s s' evs Hr Hc H. eapply tick_shutdown_requests_reachable; [exact Hr| |exact H]. congruence.
Qed.

(* the hypothesis on c_nloops is needed: without reactors and without loops the ticker runs
   (start launches it) and its exit task reaches nobody *)
Definition run_steps (s : estate) (l : list (tid * choice)) : estate :=
  fold_left (fun s tc => fst (estep s tc)) l s.

Lemma run_steps_reachable : forall l s, ereachable s -> ereachable (run_steps s l).
Proof.
  induction l as [|[t c] r IH]; intros s Hr; cbn; [exact Hr|]. apply IH.
  unfold estep; cbn. destruct (estep_opt s t c) as [[s1 evs]|] eqn:E; cbn; [|exact Hr].
  eapply ereachable_step; eauto.
Qed.

Definition tick_witness : estate :=
  run_steps (einit (mkCfg false 1 false true O) O) [(TR, CBoot ANone); (TR, CNone)].

Theorem tick_shutdown_requests_full_refuted :
  ~ (forall s s' evs, ereachable s -> tstep s (CTick AShut) = Some (s', evs) -> requested s' = true).
Proof.
  intros H.
  assert (ereachable tick_witness) as Hr by (apply run_steps_reachable; apply ereachable_init).
  specialize (H tick_witness tick_witness [(TT, KTick)] Hr eq_refl). vm_compute in H. discriminate H.
Qed.
