(* C05 -- event-loop confinement and freedom from data races: definitions.

   Part A  executions, happens-before, data races, and the ownership discipline
           (ghost owner of every location; ownership changes only at
           synchronisation releases).
   Part B  the static side: footprint tables (what each kind of thread reads and
           writes, extracted from the source by harness/cmd/genfootprint), the
           classification of a location from the list of all its writers, and the
           executable checker [race_free_table].
   Part C  executions that conform to a table (objects with a creator, a
           publication point and per-role home threads).
   Part D  the engine as independent sequential event loops (Model/Loop.v) whose
           histories interleave: the setting of callbacks_confined / _serial.

   No proofs here (Proofs/FootprintProofs.v). *)
From Coq Require Import List ZArith String Bool Arith.
From GV Require Import Lib.Trace Model.Loop.
Import ListNotations.
Open Scope string_scope.
Open Scope list_scope.
Open Scope nat_scope.

(* ================================================================== *)
(* Part A: executions and races *)

(* Read/write, plain or through sync/atomic (or an internally synchronised type). *)
Inductive akind := Rd | Wr | ARd | AWr.

Definition is_write (k : akind) : bool := match k with Wr | AWr => true | _ => false end.
Definition is_atomic (k : akind) : bool := match k with ARd | AWr => true | _ => false end.

(* Two accesses to one location conflict when at least one writes and they are not
   both atomic (Go memory model).  This is slightly stronger than "at least one is
   a non-atomic write": a plain read racing with an atomic write also counts. *)
Definition conflict (k1 k2 : akind) : bool :=
  (is_write k1 || is_write k2) && negb (is_atomic k1 && is_atomic k2).

Definition akind_eqb (a b : akind) : bool :=
  match a, b with Rd, Rd | Wr, Wr | ARd, ARd | AWr, AWr => true | _, _ => false end.

Section Exec.
  Variable loc : Type.

  (* One step of an execution.  [Rel t s] is the releasing half of synchronisation
     edge s (queue enqueue, `go` statement, channel send / close, errgroup.Wait's
     counterpart Done, an atomic publication store), [Acq t s] an acquiring half
     (dequeue, first step of the new goroutine, channel receive, Wait, the atomic
     load that saw the store). *)
  Inductive event :=
  | Acc (t : nat) (l : loc) (k : akind)
  | Rel (t : nat) (s : nat)
  | Acq (t : nat) (s : nat).

  Definition thr (e : event) : nat := match e with Acc t _ _ | Rel t _ | Acq t _ => t end.

  Variable ex : list event.          (* the interleaving, oldest first *)

  Definition at_ (n : nat) : option event := nth_error ex n.

  (* happens-before = program order + synchronisation edges, transitively closed *)
  Inductive hb : nat -> nat -> Prop :=
  | hb_po : forall i j x y, i < j -> at_ i = Some x -> at_ j = Some y -> thr x = thr y -> hb i j
  | hb_sw : forall i j t t' s, i < j -> at_ i = Some (Rel t s) -> at_ j = Some (Acq t' s) -> hb i j
  | hb_tr : forall i k j, hb i k -> hb k j -> hb i j.

  Definition race : Prop :=
    exists i j t1 t2 l k1 k2,
      i < j /\ at_ i = Some (Acc t1 l k1) /\ at_ j = Some (Acc t2 l k2) /\
      t1 <> t2 /\ conflict k1 k2 = true /\ ~ hb i j.

  (* Ghost ownership state of a location. *)
  Inductive ostate :=
  | Own (t : nat)                 (* exclusively owned by thread t *)
  | Released (r : nat)            (* given up at step r (a Rel); whoever happens-after r may take it *)
  | Frozen (r : nat)              (* immutable since step r: readable by whoever happens-after r *)
  | Atom (r : option nat)         (* accessed only atomically (since step r, if given) *)
  | AtomOwned (r : option nat) (t : nat).  (* atomic; written only by t, which may also read it plainly *)

  (* [own n l] is the state of l just before step n.  The discipline:
     - an access is made by the current owner, or takes a released location it
       happens-after, or reads a frozen one it happens-after, or is atomic on an
       atomic one;
     - ownership is given up (released / frozen / turned atomic) only by the
       owner and only at one of its Rel steps;
     - nothing else changes. *)
  Definition after (r : option nat) (n : nat) : Prop :=
    match r with None => True | Some r => hb r n end.

  Definition access_allowed (s : ostate) (n t : nat) (k : akind) (s' : ostate) : Prop :=
    match s with
    | Own t0 => t0 = t /\ s' = Own t
    | Released r => hb r n /\ s' = Own t
    | Frozen r => hb r n /\ is_write k = false /\ s' = s
    | Atom r => after r n /\ is_atomic k = true /\ s' = s
    | AtomOwned r t0 =>
        after r n /\ s' = s /\
        ((is_atomic k = true /\ (is_write k = true -> t = t0)) \/ (t = t0 /\ k = Rd))
    end.

  Definition release_allowed (s : ostate) (n t : nat) (s' : ostate) : Prop :=
    s' = s \/
    (s = Own t /\ (s' = Released n \/ s' = Frozen n \/ s' = Atom (Some n) \/ exists t0, s' = AtomOwned (Some n) t0)).

  Definition disciplined (own : nat -> loc -> ostate) : Prop :=
    forall n e, at_ n = Some e ->
      match e with
      | Acc t l k =>
          access_allowed (own n l) n t k (own (S n) l) /\
          forall l', l' <> l -> own (S n) l' = own n l'
      | Rel t s => forall l, release_allowed (own n l) n t (own (S n) l)
      | Acq t s => forall l, own (S n) l = own n l
      end.

  (* initial states: owned by somebody, or atomic from the start *)
  Definition init_ok (own : nat -> loc -> ostate) : Prop :=
    forall l, (exists t, own 0 l = Own t) \/ own 0 l = Atom None \/ exists t, own 0 l = AtomOwned None t.
End Exec.

Arguments Acc {loc} t l k.
Arguments Rel {loc} t s.
Arguments Acq {loc} t s.

(* ================================================================== *)
(* Part B: footprint tables and the checker *)

(* Who runs a piece of code.  RUser / RWorker: any number of goroutines (callers
   of the concurrency-safe API; worker-pool goroutines of Register/Enroll).  The
   others are single goroutines: an event loop (per eventloop object), the main
   reactor (acceptor), the ticker, the goroutine that runs gnet.Run / Client.Start /
   Client.Stop (engine thread).  ROut: code outside the property (APIs it does not
   list, e.g. Engine.Register, Engine.Dup, Client.EnrollContext). *)
Inductive role := RUser | RWorker | RLoop | RAcceptor | RTicker | REngine | ROut.

Definition role_eqb (a b : role) : bool :=
  match a, b with
  | RUser, RUser | RWorker, RWorker | RLoop, RLoop | RAcceptor, RAcceptor
  | RTicker, RTicker | REngine, REngine | ROut, ROut => true
  | _, _ => false
  end.

Definition single_threaded (r : role) : bool :=
  match r with RLoop | RAcceptor | RTicker | REngine => true | _ => false end.

Definition guards := list (string * bool).

Record access := mkAcc {
  a_loc : string;        (* Type.field, Type.field[] (elements), var:pkg.name *)
  a_kind : akind;
  a_owned : bool;        (* through an object allocated in the same call and not yet published *)
  a_guards : guards;     (* boolean fields of the same struct that dominate the access *)
  a_via : string;        (* function in which the access is written *)
}.

Record row := mkRow { r_fn : string; r_role : role; r_acc : list access }.

Record writer := mkWr {
  w_loc : string;
  w_kind : akind;        (* Wr or AWr *)
  w_init : bool;         (* written while the object is still private to its creator *)
  w_role : role;
  w_fn : string;
  w_guards : guards;
}.

Record cbsite := mkCb { cb_kind : string; cb_via : string; cb_role : role; cb_entry : string }.

(* An accepted deviation from the discipline, justified by hand: the accesses of
   kind x_kind to x_loc written in function x_via when run by a thread of role
   x_role (None: any role).  "*" is a wildcard for x_via / x_loc.  x_finding marks deviations that
   are genuine defects (known findings) rather than unreachable or ordered code. *)
Record exc := mkExc { x_role : option role; x_via : string; x_loc : string; x_kind : akind; x_finding : bool; x_why : string }.

Definition wild (pat s : string) : bool := String.eqb pat "*" || String.eqb pat s.

Definition exc_match (x : exc) (r : role) (via loc : string) (k : akind) : bool :=
  (match x_role x with None => true | Some r' => role_eqb r' r end) && wild (x_via x) via && wild (x_loc x) loc && akind_eqb (x_kind x) k.

Inductive lclass :=
| CImmutable                 (* written only before publication *)
| CAtomic                    (* every write is atomic *)
| CAtomicOwned (r : role)    (* every write is atomic and made by the one thread of role r *)
| COwnedBy (r : role)        (* written (plainly) only by the one thread of role r *)
| CUnsafe.

Definition writers_of (l : string) (ws : list writer) : list writer :=
  filter (fun w => String.eqb (w_loc w) l) ws.

(* writers that matter after publication and inside the property's scope; writes
   that are themselves listed as exceptions (unreachable paths) do not count *)
Definition live (xs : list exc) (ws : list writer) (l : string) : list writer :=
  filter (fun w => negb (w_init w) && negb (role_eqb (w_role w) ROut) &&
                   negb (existsb (fun x => exc_match x (w_role w) (w_fn w) (w_loc w) (w_kind w)) xs))
         (writers_of l ws).

Definition class_of (xs : list exc) (ws : list writer) (l : string) : lclass :=
  match live xs ws l with
  | [] => CImmutable
  | w :: rest =>
      let all_atomic := forallb (fun w => is_atomic (w_kind w)) (w :: rest) in
      let one := forallb (fun w' => role_eqb (w_role w') (w_role w)) rest && single_threaded (w_role w) in
      if all_atomic then (if one then CAtomicOwned (w_role w) else CAtomic)
      else if one then COwnedBy (w_role w) else CUnsafe
  end.

Definition has_guard (g : string) (v : bool) (gs : guards) : bool :=
  existsb (fun p => String.eqb (fst p) g && Bool.eqb (snd p) v) gs.

(* Guard exclusion: the read is dominated by `g = v` for an immutable boolean field g
   of the same struct, and every live writer of the location is dominated by
   `g = negb v`: for the objects on which the read happens the field is never
   written after publication. *)
Definition guard_ok (xs : list exc) (ws : list writer) (a : access) : bool :=
  negb (is_write (a_kind a)) &&
  existsb (fun p =>
    match class_of xs ws (fst p) with
    | CImmutable => forallb (fun w => has_guard (fst p) (negb (snd p)) (w_guards w)) (live xs ws (a_loc a))
    | _ => false
    end) (a_guards a).

Definition class_ok (c : lclass) (r : role) (k : akind) : bool :=
  match c with
  | CImmutable => negb (is_write k)
  | CAtomic => is_atomic k
  | CAtomicOwned r' =>
      (is_atomic k && (negb (is_write k) || role_eqb r r')) || (role_eqb r r' && akind_eqb k Rd)
  | COwnedBy r' => role_eqb r r'
  | CUnsafe => false
  end.

Definition access_ok (xs : list exc) (ws : list writer) (r : role) (a : access) : bool :=
  a_owned a || class_ok (class_of xs ws (a_loc a)) r (a_kind a) || guard_ok xs ws a.

Definition excepted (xs : list exc) (r : role) (a : access) : bool :=
  existsb (fun x => exc_match x r (a_via a) (a_loc a) (a_kind a)) xs.

Definition row_ok (ws : list writer) (xs : list exc) (rw : row) : bool :=
  forallb (fun a => access_ok xs ws (r_role rw) a || excepted xs (r_role rw) a) (r_acc rw).

Definition race_free_table (ws : list writer) (xs : list exc) (t : list row) : bool :=
  forallb (row_ok ws xs) t.

(* every exception is still needed: it matches an access that fails without it *)
Definition exceptions_used (ws : list writer) (xs : list exc) (t : list row) : bool :=
  forallb (fun x =>
    existsb (fun rw =>
      existsb (fun a => exc_match x (r_role rw) (a_via a) (a_loc a) (a_kind a) &&
                        negb (access_ok xs ws (r_role rw) a)) (r_acc rw)) t) xs.

(* diagnostics: the accesses a table fails on *)
Definition bad_accesses (ws : list writer) (xs : list exc) (t : list row) : list (string * string * akind * string) :=
  flat_map (fun rw =>
    flat_map (fun a => if access_ok xs ws (r_role rw) a || excepted xs (r_role rw) a then []
                       else [(r_fn rw, a_loc a, a_kind a, a_via a)]) (r_acc rw)) t.

(* User callbacks the property speaks about must be invoked by loop threads. *)
Definition confined_kind (k : string) : bool :=
  existsb (String.eqb k)
    ["EventHandler.OnOpen"; "EventHandler.OnTraffic"; "EventHandler.OnClose"; "AsyncCallback"; "Runnable.Run"; "RunnableFunc"].

Definition cb_exception (c : cbsite) : bool :=
  (* AsyncWrite on a datagram connection calls its callback synchronously with a nil
     Conn on the caller's goroutine (documented by gnet: "it will not go
     asynchronously with UDP"); recorded as known finding udp-asyncwrite-callback. *)
  String.eqb (cb_kind c) "AsyncCallback" && String.eqb (cb_via c) "conn.AsyncWrite".

Definition confined_sites (cs : list cbsite) : bool :=
  forallb (fun c => negb (confined_kind (cb_kind c)) || role_eqb (cb_role c) RLoop || cb_exception c) cs.

(* the table's non-owned writes are all listed among the writers (so that a
   classification made from the writers speaks about the table) *)
Definition guards_eqb (a b : guards) : bool :=
  (List.length a =? List.length b) &&
  forallb (fun p => has_guard (fst p) (snd p) b) a && forallb (fun p => has_guard (fst p) (snd p) a) b.

Definition writers_cover (ws : list writer) (t : list row) : bool :=
  forallb (fun rw =>
    negb (role_eqb (r_role rw) ROut) &&
    forallb (fun a =>
      negb (is_write (a_kind a)) || a_owned a ||
      existsb (fun w => String.eqb (w_loc w) (a_loc a) && akind_eqb (w_kind w) (a_kind a) && negb (w_init w) &&
                        role_eqb (w_role w) (r_role rw) && String.eqb (w_fn w) (a_via a) &&
                        guards_eqb (w_guards w) (a_guards a)) ws) (r_acc rw)) t.

(* ================================================================== *)
(* Part C: executions that conform to a table *)

(* A concrete location: field f of object o. *)
Definition cloc := (nat * string)%type.

Definition cloc_eqb (a b : cloc) : bool := Nat.eqb (fst a) (fst b) && String.eqb (snd a) (snd b).

(* What the table cannot know: which goroutine plays which role, who creates an
   object, at which step it is published, which single thread of each role it
   belongs to (the loop of a connection, ...), and the values of its immutable
   boolean fields. *)
Record layout := mkLayout {
  trole : nat -> role;
  creator : nat -> nat;
  pub : nat -> option nat;          (* step at which the creator publishes the object *)
  home : nat -> role -> nat;
  gval : nat -> string -> bool;
}.

Section Conform.
  Variable L : layout.
  Variable xs : list exc.
  Variable ws : list writer.
  Variable t : list row.
  Variable ex : list (event cloc).

  Definition unpublished (o n : nat) : Prop := forall r, pub L o = Some r -> n < r.

  (* Every access of the execution is an instance of a table access of a row of the
     thread's role that is not one of the listed exceptions, and:
     - either the accessing thread is the creator and the object is not yet published
       (construction), which is all an `owned` table access may be;
     - or the access happens-after the publication of the object (a goroutine can
       only use an object it obtained through a chain of synchronisation from the
       one that published it), single-goroutine roles touch only the objects that
       belong to them (a loop its own connections, ...), and the guards recorded for
       the access hold of the object. *)
  Definition access_conforms (n th o : nat) (f : string) (k : akind) : Prop :=
    exists rw a,
      In rw t /\ In a (r_acc rw) /\ r_role rw = trole L th /\ a_loc a = f /\ a_kind a = k /\
      excepted xs (trole L th) a = false /\
      ((th = creator L o /\ unpublished o n) \/
       (a_owned a = false /\
        (exists r, pub L o = Some r /\ hb cloc ex r n) /\
        (single_threaded (trole L th) = true -> th = home L o (trole L th)) /\
        (forall g v, In (g, v) (a_guards a) -> gval L o g = v))).

  Definition conforms : Prop :=
    (forall o r, pub L o = Some r -> exists s, at_ cloc ex r = Some (Rel (creator L o) s)) /\
    (forall n th o f k, at_ cloc ex n = Some (Acc th (o, f) k) -> access_conforms n th o f k).
End Conform.

(* ================================================================== *)
(* Part D: the engine as independent sequential loops *)

(* The history of one event loop is what the one sequential run of Poller.Polling
   produces from the loop's input (Model/Loop.v): a function of the input. *)
Definition loop_history (i : list line) : list ev :=
  match init_world i with
  | Some w => rev (log (polling (S (List.length i)) w))
  | None => []
  end.

Definition is_callback (e : ev) : bool :=
  match e with
  | EOut (n, _) => String.eqb n "cb" || String.eqb n "acb" || String.eqb n "exec"
  | EIn _ => false
  end.

Fixpoint upd {A} (l : list A) (k : nat) (x : A) : list A :=
  match l, k with
  | [], _ => []
  | _ :: r, O => x :: r
  | y :: r, S k' => y :: upd r k' x
  end.

(* An execution of the engine: the histories of its loops merged in any order; each
   event carries the index of the loop (= goroutine) that took it. *)
Inductive merge : list (list ev) -> list (nat * ev) -> Prop :=
| merge_done : forall hs, (forall h, In h hs -> h = []) -> merge hs []
| merge_step : forall hs k e rest g,
    nth_error hs k = Some (e :: rest) -> merge (upd hs k rest) g -> merge hs ((k, e) :: g).

Definition engine_exec (ins : list (list line)) (g : list (nat * ev)) : Prop :=
  merge (map loop_history ins) g.

Definition proj (k : nat) (g : list (nat * ev)) : list ev :=
  map snd (filter (fun p => Nat.eqb (fst p) k) g).
