(* The mutual block of Model/Loop.v (el_close ... hcall) preserves the C04/C07 invariant. *)
From GV Require Import Lib.Trace Model.Loop Spec.LoopSpec
  Proofs.LoopInv Proofs.LoopAState Proofs.LoopATrans Proofs.LoopAPrims Proofs.LoopAUnfold.
From Coq Require Import Lia Permutation.
Open Scope string_scope.
Open Scope list_scope.
Open Scope Z_scope.

(* the handler's dispatch on the next line, with decidable tests *)
Lemma handler_S_eqb : forall f cid w,
  handler (S f) cid w =
  match pull w with
  | (None, w1) => ((ANone, None), w1)
  | (Some l, w1) =>
      if String.eqb (fst l) "hret" then
        match snd l with
        | a :: rest => ((action_of a, match rest with ABytes b :: _ => Some b | _ => None end), w1)
        | [] => ((ANone, None), desync "expected-h" w1)
        end
      else if String.eqb (fst l) "h" then
        match snd l with
        | ASym call :: args => handler f cid (hcall f cid call args w1)
        | _ => ((ANone, None), desync "expected-h" w1)
        end
      else ((ANone, None), desync "expected-h" w1)
  end.
Proof.
  intros. rewrite handler_S. destruct (pull w) as [[[ln la]|] w1]; [|reflexivity].
  cbn [fst snd].
  destruct (String.eqb_spec ln "hret") as [->|H1]; [destruct la; reflexivity|].
  destruct (String.eqb_spec ln "h") as [->|H2]; [destruct la as [|[]]; reflexivity|].
  sdef ln.
Qed.

Definition Opened (cid : Z) := At cid (fun c _ => c_opened c = true).
Definition OpFd (cid fd : Z) := At cid (fun c _ => c_opened c = true /\ c_fd c = fd).

Section Mutual.
Variable c0 : pst.
Notation Iv := (Inv pstep c0).

Definition spec (f : nat) : Prop :=
  (forall cid e w L P N, Iv (Rel L P N) w -> Iv (Rel L P N) (snd (el_close f cid e w))) /\
  (forall cid w L P N, In cid L -> Iv (Rel L P N) w -> Iv (Rel L P N) (close_drain f cid w)) /\
  (forall cid d w L P N, Iv (Rel L P N) w -> Iv (Rel L P N) (snd (conn_write f cid d w))) /\
  (forall cid d n w L P N, Iv (RelX L P N (Opened cid)) w ->
     Iv (Rel L P N) (snd (conn_write_loop f cid d n w))) /\
  (forall cid segs n w L P N, Iv (RelX L P N (Opened cid)) w ->
     Iv (Rel L P N) (snd (conn_writev_loop f cid segs n w))) /\
  (forall cid segs w L P N, Iv (Rel L P N) w -> Iv (Rel L P N) (snd (conn_writev f cid segs w))) /\
  (forall cid sent w L P N, Iv (Rel L P N) w -> Iv (Rel L P N) (snd (el_write f cid sent w))) /\
  (forall cid w L P N, Iv (Rel L P N) w -> Iv (Rel L P N) (snd (handler f cid w))) /\
  (forall cid call args w L P N, Iv (Rel L P N) w -> Iv (Rel L P N) (hcall f cid call args w)).

(* guards *)
Lemma owns_opened : forall L P N m cs s cid,
  RelQ L P N None (m, cs) s -> Led L P None cs s -> c_opened (getc s cid) = true ->
  owns cs (c_fd (getc s cid)) = true.
Proof. intros. eapply Led_owns_holder; eauto. left. auto. Qed.

Lemma I_opened_fd : forall L P N w cid,
  Iv (RelX L P N (Opened cid)) w -> Iv (RelX L P N (OpFd cid (c_fd (wc w cid)))) w.
Proof.
  intros L P N w cid H. eapply Inv_weaken; [exact H|].
  intros c _ [HR [H1 H2]]. split; [exact HR|]. split; [exact H1|]. split; [exact H2|reflexivity].
Qed.

Lemma I_fd_opened : forall L P N w cid fd,
  Iv (RelX L P N (OpFd cid fd)) w -> Iv (RelX L P N (Opened cid)) w.
Proof.
  intros L P N w cid fd H. eapply Inv_weaken; [exact H|].
  intros c _ [HR [H1 [H2 H3]]]. split; [exact HR|]. split; [exact H1|exact H2].
Qed.

Lemma I_assert_opened : forall L P N w cid,
  Iv (Rel L P N) w -> c_opened (wc w cid) = true -> Iv (RelX L P N (Opened cid)) w.
Proof.
  intros. apply I_assert_At; auto. intros _. left. exact H0.
Qed.

(* sys_wr on the descriptor of an open connection *)
Lemma I_sys_wr_open : forall L P N cid fd src exact w k w',
  Iv (RelX L P N (OpFd cid fd)) w -> sys_wr cid fd src exact w = (k, w') ->
  Iv (RelX L P N (OpFd cid fd)) w'.
Proof.
  intros L P N cid fd src exact w k w' H Hs.
  eapply I_sys_wr; [apply Stable_At|exact H| |exact Hs].
  intros m cs Hh [HR [_ [Ho Hf]]] HL. rewrite <- Hf. eapply owns_opened; eauto.
Qed.

Lemma I_epctl_open : forall L P N cid fd op rw et w r w',
  In op ["add"; "mod"; "del"] ->
  Iv (RelX L P N (OpFd cid fd)) w -> epctl op fd rw et w = (r, w') ->
  Iv (RelX L P N (OpFd cid fd)) w'.
Proof.
  intros L P N cid fd op rw et w r w' Hop H Hs.
  eapply I_epctl; [apply Stable_At|exact Hop|exact H| |exact Hs].
  intros m cs Hh [HR [_ [Ho Hf]]] _ HL. rewrite <- Hf. eapply owns_opened; eauto.
Qed.

Lemma I_wsetc_out_open : forall L P N cid fd w x,
  Iv (RelX L P N (OpFd cid fd)) w ->
  Iv (RelX L P N (OpFd cid fd)) (wsetc w cid (c_set_out (wc w cid) x)).
Proof.
  intros L P N cid fd w x H.
  eapply Inv_wsetc; [exact H|]. intros c _ [HR [H1 [H2 H3]]]. split.
  - apply RelQ_setc_same; auto.
  - apply At_setc; [|split; auto]. cbn. auto.
Qed.

Lemma el_close_step : forall f, spec f ->
  forall cid e w L P N, Iv (Rel L P N) w -> Iv (Rel L P N) (snd (el_close (S f) cid e w)).
Proof.
  intros f (IHclose & IHdrain & _ & _ & _ & _ & _ & IHhandler & _) cid e w L P N H.
  rewrite el_close_S. cbv zeta.
  destruct (c_opened (wc w cid)) eqn:Hop; cbn [negb orb]; [|exact H].
  destruct (alookup (c_fd (wc w cid)) (l_reg (st w))) as [x|] eqn:Hreg; [|exact H].
  set (w1 := with_st w (set_reg (st w) (aremove (c_fd (wc w cid)) (l_reg (st w))))).
  set (w2 := emit (obs "cb" [ASym "close"; AInt cid; err_sym e]) w1).
  assert (H2 : Iv (Rel (cid :: L) P N) w2).
  { unfold w2, w1. eapply Inv_st_emit; [exact H|reflexivity|].
    intros [m cs] Hh HR.
    destruct (RelQ_close_start L P N m cs (st w) cid HR Hop) as [Hph HR'].
    { unfold regs. unfold wc in Hreg. rewrite Hreg. discriminate. }
    exists (aset cid PClosed m, cs). split; [apply pstep_cb_close; exact Hph|exact HR']. }
  destruct (handler f cid w2) as [[act rep] w3] eqn:Hh3.
  assert (H3 : Iv (Rel (cid :: L) P N) w3).
  { specialize (IHhandler cid w2 _ P N H2). rewrite Hh3 in IHhandler. exact IHhandler. }
  set (w4 := close_drain f cid w3).
  assert (H4 : Iv (Rel (cid :: L) P N) w4) by (apply IHdrain; [left; reflexivity|exact H3]).
  set (fd4 := c_fd (wc w4 cid)).
  set (w5 := wsetc w4 cid (c_release (wc w4 cid))).
  pose (F := At cid (fun c _ => c_opened c = false /\ c_fd c = fd4)).
  assert (H5 : Iv (RelX (cid :: L) P N F) w5).
  { unfold w5. eapply Inv_wsetc; [exact H4|]. intros c _ HR. split.
    - apply RelQ_release; [right; left; reflexivity|exact HR].
    - split; [apply (holder_lt (cid :: L) P N (fst c) (st w4) cid (proj1 HR)); right; left; left; reflexivity|].
      rewrite getc_setc, Z.eqb_refl. unfold c_release, fd4, wc.
      destruct (c_udp (getc (st w4) cid)); split; reflexivity. }
  destruct (epctl "del" fd4 false false w5) as [r0 w6] eqn:He6.
  assert (H6 : Iv (RelX (cid :: L) P N F) w6).
  { eapply (I_epctl c0 (cid :: L) P N F "del"); [apply Stable_At|cbn; tauto|exact H5| |exact He6].
    intros m cs _ _ Hne. congruence. }
  destruct (sys "close" [AInt fd4] w6) as [k1 w7] eqn:Hs7.
  assert (H7 : Iv (Rel L P N) w7).
  { eapply (I_sys_close_L c0 L P N F cid fd4); [apply Stable_At| |exact H6|exact Hs7].
    intros m s [_ HG]. exact HG. }
  destruct (match r0 with RNil => match k1 with KErr _ => true | _ => false end | _ => true end);
    [exact H7|].
  destruct act; [exact H7|apply IHclose; exact H7|exact H7].
Qed.


Lemma close_drain_step : forall f, spec f ->
  forall cid w L P N, In cid L -> Iv (Rel L P N) w -> Iv (Rel L P N) (close_drain (S f) cid w).
Proof.
  intros f (_ & IHdrain & _) cid w L P N Hin H.
  rewrite close_drain_S. cbv zeta.
  destruct (c_out (wc w cid)) as [|b0 out]; [exact H|].
  destruct (sys_wr cid (c_fd (wc w cid)) (b0 :: out) false w) as [k w1] eqn:Hs.
  assert (H1 : Iv (Rel L P N) w1).
  { apply Iv_Rel_X. eapply I_sys_wr; [apply Stable_Tr|apply Iv_Rel_X; exact H| |exact Hs].
    intros m cs _ _ HL. eapply Led_owns_holder; [exact HL|]. right; left; exact Hin. }
  destruct k; try exact H1.
  apply IHdrain; [exact Hin|]. apply I_wsetc; auto.
Qed.

(* the tail shared by conn_write_loop / conn_writev_loop: buffer the rest, arm EPOLLOUT *)
Lemma write_tail : forall L P N cid fd w x (et : bool) (n : Z),
  Iv (RelX L P N (OpFd cid fd)) w ->
  Iv (Rel L P N)
    (snd (let w2 := wsetc w cid (c_set_out (wc w cid) x) in
          if et then ((n, true), w2)
          else let '(r, w3) := epctl "mod" fd true et w2 in
               ((n, match r with RNil => true | _ => false end), w3))).
Proof.
  intros L P N cid fd w x et n H. cbv zeta.
  assert (H2 := I_wsetc_out_open L P N cid fd w x H).
  destruct et; cbn [snd]; [eapply Iv_X_Rel; exact H2|].
  destruct (epctl "mod" fd true false _) as [r w3] eqn:He. cbn [snd].
  eapply Iv_X_Rel. eapply (I_epctl_open L P N cid fd "mod"); [cbn; tauto|exact H2|exact He].
Qed.

Lemma conn_write_loop_step : forall f, spec f ->
  forall cid d n w L P N, Iv (RelX L P N (Opened cid)) w ->
  Iv (Rel L P N) (snd (conn_write_loop (S f) cid d n w)).
Proof.
  intros f (_ & _ & _ & IHloop & _) cid d n w L P N H.
  rewrite conn_write_loop_S. cbv zeta.
  apply I_opened_fd in H. set (fd := c_fd (wc w cid)) in *.
  destruct (sys_wr cid fd d true w) as [k w1] eqn:Hs.
  assert (H1 := I_sys_wr_open L P N cid fd d true w k w1 H Hs).
  destruct k as [sent ex|e|].
  - destruct (zdrop sent d) as [|r0 rest] eqn:Hz; [cbn [snd]; eapply Iv_X_Rel; exact H1|].
    destruct (l_et (st w)) eqn:Het.
    + apply IHloop. eapply I_fd_opened; exact H1.
    + apply (write_tail L P N cid fd w1 (c_out (wc w1 cid) ++ r0 :: rest) false n H1).
  - destruct (is_eagain e); [|cbn [snd]; eapply Iv_X_Rel; exact H1].
    apply (write_tail L P N cid fd w1 (c_out (wc w1 cid) ++ d) (l_et (st w)) n H1).
  - cbn [snd]. eapply Iv_X_Rel; exact H1.
Qed.

Lemma conn_writev_loop_step : forall f, spec f ->
  forall cid segs n w L P N, Iv (RelX L P N (Opened cid)) w ->
  Iv (Rel L P N) (snd (conn_writev_loop (S f) cid segs n w)).
Proof.
  intros f (_ & _ & _ & _ & IHloop & _) cid segs n w L P N H.
  rewrite conn_writev_loop_S. cbv zeta.
  apply I_opened_fd in H. set (fd := c_fd (wc w cid)) in *.
  destruct (sys_wr cid fd (List.concat (firstn iov_max segs)) true w) as [k w1] eqn:Hs.
  assert (H1 := I_sys_wr_open L P N cid fd _ true w k w1 H Hs).
  destruct k as [sent ex|e|].
  - destruct (List.concat (drop_sent sent segs)) as [|r0 rest] eqn:Hz; [cbn [snd]; eapply Iv_X_Rel; exact H1|].
    destruct (l_et (st w)) eqn:Het.
    + apply IHloop. eapply I_fd_opened; exact H1.
    + apply (write_tail L P N cid fd w1 (c_out (wc w1 cid) ++ r0 :: rest) false n H1).
  - destruct (is_eagain e); [|cbn [snd]; eapply Iv_X_Rel; exact H1].
    apply (write_tail L P N cid fd w1 (c_out (wc w1 cid) ++ List.concat segs) (l_et (st w)) n H1).
  - cbn [snd]. eapply Iv_X_Rel; exact H1.
Qed.

Lemma conn_write_step : forall f, spec f ->
  forall cid d w L P N, Iv (Rel L P N) w -> Iv (Rel L P N) (snd (conn_write (S f) cid d w)).
Proof.
  intros f (IHclose & _ & _ & IHloop & _) cid d w L P N H.
  rewrite conn_write_S. cbv zeta.
  destruct (c_opened (wc w cid)) eqn:Hop; cbn [negb]; [|exact H].
  assert (Hg : Iv (Rel L P N) (ghost "sub" cid d w)) by (apply I_ghost; [cbn; tauto|exact H]).
  destruct (c_out (wc w cid)) as [|b0 out] eqn:Hout.
  - destruct (conn_write_loop f cid d (zlen d) (ghost "sub" cid d w)) as [[rn ok] w1] eqn:Hl.
    assert (H1 : Iv (Rel L P N) w1).
    { specialize (IHloop cid d (zlen d) (ghost "sub" cid d w) L P N). rewrite Hl in IHloop.
      apply IHloop. apply I_assert_opened; [exact Hg|]. rewrite wc_ghost. exact Hop. }
    destruct ok; [exact H1|].
    destruct (el_close f cid false w1) as [r2 w2] eqn:Hc. cbn [snd].
    specialize (IHclose cid false w1 L P N H1). rewrite Hc in IHclose. exact IHclose.
  - cbn [snd]. apply I_wsetc; try (rewrite wc_ghost; reflexivity). exact Hg.
Qed.

Lemma conn_writev_step : forall f, spec f ->
  forall cid segs w L P N, Iv (Rel L P N) w -> Iv (Rel L P N) (snd (conn_writev (S f) cid segs w)).
Proof.
  intros f (IHclose & _ & _ & _ & IHloop & _) cid segs w L P N H.
  rewrite conn_writev_S. cbv zeta.
  destruct (c_opened (wc w cid)) eqn:Hop; cbn [negb]; [|exact H].
  assert (Hg : Iv (Rel L P N) (ghost "sub" cid (List.concat segs) w)) by (apply I_ghost; [cbn; tauto|exact H]).
  destruct (c_out (wc w cid)) as [|b0 out] eqn:Hout.
  - destruct segs as [|s0 segs']; [exact Hg|].
    destruct (conn_writev_loop f cid (s0 :: segs') (zlen (List.concat (s0 :: segs'))) _) as [[rn ok] w1] eqn:Hl.
    assert (H1 : Iv (Rel L P N) w1).
    { specialize (IHloop cid (s0 :: segs') (zlen (List.concat (s0 :: segs'))) (ghost "sub" cid (List.concat (s0 :: segs')) w) L P N).
      rewrite Hl in IHloop.
      apply IHloop. apply I_assert_opened; [exact Hg|]. rewrite wc_ghost. exact Hop. }
    destruct ok; [exact H1|].
    destruct (el_close f cid false w1) as [r2 w2] eqn:Hc. cbn [snd].
    specialize (IHclose cid false w1 L P N H1). rewrite Hc in IHclose. exact IHclose.
  - cbn [snd]. apply I_wsetc; try (rewrite wc_ghost; reflexivity). exact Hg.
Qed.

Lemma el_write_step : forall f, spec f ->
  forall cid sent w L P N, Iv (Rel L P N) w -> Iv (Rel L P N) (snd (el_write (S f) cid sent w)).
Proof.
  intros f (IHclose & _ & _ & _ & _ & _ & IHwrite & _) cid sent w L P N H.
  rewrite el_write_S. cbv zeta.
  destruct (c_opened (wc w cid)) eqn:Hop; cbn [negb]; [|exact H].
  destruct (c_out (wc w cid)) as [|b0 out] eqn:Hout; [exact H|].
  assert (HX := I_opened_fd L P N w cid (I_assert_opened L P N w cid H Hop)).
  set (fd := c_fd (wc w cid)) in *.
  destruct (sys_wr cid fd (b0 :: out) false w) as [k w1] eqn:Hs.
  assert (H1 := I_sys_wr_open L P N cid fd _ false w k w1 HX Hs).
  destruct k as [n ex|e|].
  - set (w2 := wsetc w1 cid (c_set_out (wc w1 cid) (zdrop n (c_out (wc w1 cid))))).
    assert (H2 : Iv (RelX L P N (OpFd cid fd)) w2) by (apply I_wsetc_out_open; exact H1).
    destruct (zdrop n (c_out (wc w1 cid))) as [|r0 rest].
    + destruct (l_et (st w)); [eapply Iv_X_Rel; exact H2|].
      destruct (epctl "mod" fd false false w2) as [r w3] eqn:He. cbn [snd].
      eapply Iv_X_Rel. eapply (I_epctl_open L P N cid fd "mod"); [cbn; tauto|exact H2|exact He].
    + destruct (l_et (st w)); [|eapply Iv_X_Rel; exact H2].
      destruct (sent + n <? l_chunk (st w2)).
      * apply IHwrite. eapply Iv_X_Rel; exact H2.
      * eapply Iv_X_Rel. apply I_trigger; [apply Stable_At|reflexivity|].
        apply I_ghost; [cbn; tauto|exact H2].
  - destruct (is_eagain e); [eapply Iv_X_Rel; exact H1|].
    apply IHclose. eapply Iv_X_Rel; exact H1.
  - eapply Iv_X_Rel; exact H1.
Qed.

Lemma handler_step : forall f, spec f ->
  forall cid w L P N, Iv (Rel L P N) w -> Iv (Rel L P N) (snd (handler (S f) cid w)).
Proof.
  intros f (_ & _ & _ & _ & _ & _ & _ & IHhandler & IHhcall) cid w L P N H.
  rewrite handler_S_eqb.
  destruct (pull w) as [o w1] eqn:Hp.
  assert (HP := I_pull c0 L P N Tr false w o w1 Stable_Tr (proj1 (Iv_Rel_X c0 L P N w) H) Hp).
  destruct o as [l|]; [|apply HP].
  apply Iv_Rel_X in HP.
  destruct (String.eqb (fst l) "hret").
  - destruct (snd l); cbn [snd]; [eapply Inv_desync; exact HP|exact HP].
  - destruct (String.eqb (fst l) "h"); [|eapply Inv_desync; exact HP].
    destruct (snd l) as [|[z|b|call] args]; cbn [snd]; try (eapply Inv_desync; exact HP).
    apply IHhandler. apply IHhcall. exact HP.
Qed.


(* sendto on a datagram connection that is open, or is a listener's per-datagram identity *)
Lemma I_sendto : forall L P N w cid d fl k w1,
  Iv (Rel L P N) w -> c_udp (wc w cid) = true ->
  c_remote (wc w cid) = true \/ c_opened (wc w cid) = true ->
  sys "sendto" [AInt (c_fd (wc w cid)); ABytes d; fl] w = (k, w1) -> Iv (Rel L P N) w1.
Proof.
  intros L P N w cid d fl k w1 H Hudp Hor Hs.
  apply Iv_Rel_X. eapply (I_sys_plain c0 L P N Tr "sendto" (c_fd (wc w cid)));
    [apply Stable_Tr|reflexivity|reflexivity|apply Iv_Rel_X; exact H| |exact Hs].
  intros m cs _ [[HR HF] _]. apply FdR_sendto; [exact HF|]. intros HL.
  destruct Hor as [Hr|Ho].
  - eapply Led_owns_listener; [exact HL|]. apply (r_udp _ _ _ _ _ HR); auto.
  - eapply Led_owns_holder; [exact HL|]. left. exact Ho.
Qed.

Lemma I_stale_sendto : forall L P N w cid fd d fl k w1,
  Iv (Rel L P N) w ->
  sys "sendto" [AInt fd; ABytes d; fl] (ghost "staleudp" cid [] w) = (k, w1) -> Iv (Rel L P N) w1.
Proof.
  intros L P N w cid fd d fl k w1 H Hs.
  assert (Hg : Iv (RelXQ L P N (Some ("staleudp", 0)) Tr) (ghost "staleudp" cid [] w)).
  { unfold ghost. eapply Inv_emit; [exact H|reflexivity|].
    intros [m cs] _ [HR HF].
    exists (m, mkFd0 (f_owned cs) (f_static cs) (Some ("staleudp", 0)) (f_dead cs)).
    split; [reflexivity|]. split; [split; [exact HR|]|exact I]. cbn [snd].
    destruct HF as [HF|[H1 H2 H3 H4]]; [left; exact HF|].
    destruct (f_dead cs) eqn:Hd; [left; reflexivity|right]. constructor; auto. }
  apply Iv_Rel_X. eapply (I_sys_plain_q c0 L P N (Some ("staleudp", 0)) Tr "sendto" fd);
    [apply Stable_Tr|reflexivity|reflexivity|exact Hg| |exact Hs].
  intros m cs _ [[HR HF] _]. cbn [snd] in HF.
  destruct HF as [HF|[H1 H2 H3 H4]].
  - cbn. destruct (f_last cs) as [[nm z]|].
    + destruct (sym_eqb nm "staleudp").
      * eexists. split; [reflexivity|]. left. exact HF.
      * unfold fd_step. rewrite HF. eexists. split; [reflexivity|]. left. exact HF.
    + unfold fd_step. rewrite HF. eexists. split; [reflexivity|]. left. exact HF.
  - cbn. rewrite H1. cbn. eexists. split; [reflexivity|].
    destruct (f_dead cs) eqn:Hd; [left; reflexivity|right]. constructor; auto.
Qed.

Lemma I_epctl_opened_now : forall L P N w cid op rw et r w',
  In op ["add"; "mod"; "del"] -> Iv (Rel L P N) w -> c_opened (wc w cid) = true ->
  epctl op (c_fd (wc w cid)) rw et w = (r, w') -> Iv (Rel L P N) w'.
Proof.
  intros L P N w cid op rw et r w' Hop H Ho He.
  eapply Iv_X_Rel. eapply (I_epctl_open L P N cid (c_fd (wc w cid)) op); [exact Hop| |exact He].
  apply I_opened_fd. apply I_assert_opened; auto.
Qed.

Lemma I_trigger_rel : forall L P N b t w, plain_task t ->
  Iv (Rel L P N) w -> Iv (Rel L P N) (snd (trigger b t w)).
Proof.
  intros. apply Iv_Rel_X. apply I_trigger; [apply Stable_Tr|auto|apply Iv_Rel_X; auto].
Qed.

Ltac hstep H :=
  lazymatch goal with
  | |- Inv pstep c0 _ (emit (obs "hr" _) _) => apply I_hr
  | |- Inv pstep c0 _ (desync _ _) => eapply Inv_desync; exact H
  | |- Inv pstep c0 _ (wsetc _ _ _) => apply I_wsetc; [reflexivity|reflexivity|reflexivity|reflexivity|]
  | |- Inv pstep c0 _ (if ?b then _ else _) => destruct b
  | |- Inv pstep c0 _ (match ?x with _ => _ end) => destruct x
  | |- _ => exact H
  end.

Lemma hcall_step : forall f, spec f ->
  forall cid call args w L P N, Iv (Rel L P N) w -> Iv (Rel L P N) (hcall (S f) cid call args w).
Proof.
  intros f (IHclose & _ & IHcw & _ & _ & IHcwv & IHwrite & _ & IHhcall) cid call args w L P N H.
  rewrite hcall_S. cbv zeta.
  destruct (sym_eqb call "read"); [repeat hstep H|].
  destruct (sym_eqb call "next"); [repeat hstep H|].
  destruct (sym_eqb call "peek"); [repeat hstep H|].
  destruct (sym_eqb call "discard"); [repeat hstep H|].
  destruct (sym_eqb call "writeto"); [repeat hstep H|].
  destruct (sym_eqb call "inbuf"); [repeat hstep H|].
  destruct (sym_eqb call "outbuf"); [repeat hstep H|].
  destruct (sym_eqb call "write").
  { destruct args as [|[z|d|s0] [|a2 rest]]; try (eapply Inv_desync; exact H).
    destruct (c_udp (wc w cid)) eqn:Hudp.
    - destruct (negb (c_remote (wc w cid)) && negb (c_opened (wc w cid))) eqn:Hb; [apply I_hr; exact H|].
      destruct (sys "sendto" _ w) as [k w1] eqn:Hs.
      assert (H1 : Iv (Rel L P N) w1).
      { eapply I_sendto; [exact H|exact Hudp| |exact Hs].
        destruct (c_remote (wc w cid)); [left; reflexivity|].
        destruct (c_opened (wc w cid)); [right; reflexivity|discriminate]. }
      destruct k; apply I_hr; exact H1.
    - destruct (conn_write f cid d w) as [[n ok] w1] eqn:Hc. apply I_hr.
      specialize (IHcw cid d w L P N H). rewrite Hc in IHcw. exact IHcw. }
  destruct (sym_eqb call "writev").
  { destruct (c_udp (wc w cid)); [apply I_hr; exact H|].
    destruct (conn_writev f cid (segs_of args) w) as [[n ok] w1] eqn:Hc. apply I_hr.
    specialize (IHcwv cid (segs_of args) w L P N H). rewrite Hc in IHcwv. exact IHcwv. }
  destruct (sym_eqb call "flush").
  { destruct (c_udp (wc w cid)); [apply I_hr; exact H|].
    destruct (negb (c_opened (wc w cid))); [apply I_hr; exact H|].
    destruct (el_write f cid 0 w) as [r w1] eqn:He.
    assert (H1 : Iv (Rel L P N) w1).
    { specialize (IHwrite cid 0 w L P N H). rewrite He in IHwrite. exact IHwrite. }
    destruct r; try (apply I_hr; exact H1).
    destruct (negb (l_et (st w1)) && c_opened (wc w1 cid) &&
              match c_out (wc w1 cid) with [] => false | _ :: _ => true end) eqn:Hb;
      [|apply I_hr; exact H1].
    destruct (epctl "mod" (c_fd (wc w1 cid)) true false w1) as [r2 w2] eqn:Hep.
    apply I_hr. eapply (I_epctl_opened_now L P N w1 cid "mod"); [cbn; tauto|exact H1| |exact Hep].
    destruct (c_opened (wc w1 cid)); [reflexivity|].
    rewrite Bool.andb_false_r in Hb. discriminate. }
  destruct (sym_eqb call "readfrom").
  { destruct args as [|[z|d|s0] [|a2 rest]]; try (eapply Inv_desync; exact H).
    apply I_hr. apply I_wsetc; try (rewrite wc_ghost; reflexivity).
    apply I_ghost; [cbn; tauto|exact H]. }
  destruct (sym_eqb call "asyncwrite").
  { destruct args as [|[z|d|s0] [|cb [|a3 rest]]]; try (eapply Inv_desync; exact H).
    destruct (c_udp (wc w cid)) eqn:Hudp.
    - destruct (negb (c_remote (wc w cid)) && negb (c_opened (wc w cid))) eqn:Hb.
      + destruct (sys "sendto" _ (ghost "staleudp" cid [] w)) as [k w1] eqn:Hs.
        assert (H1 : Iv (Rel L P N) w1) by (eapply I_stale_sendto; [exact H|exact Hs]).
        apply I_hr. destruct (flag_of cb); [apply I_quiet; [apply quiet_acb|reflexivity|exact H1]|exact H1].
      + destruct (sys "sendto" _ w) as [k w1] eqn:Hs.
        assert (H1 : Iv (Rel L P N) w1).
        { eapply I_sendto; [exact H|exact Hudp| |exact Hs].
          destruct (c_remote (wc w cid)); [left; reflexivity|].
          destruct (c_opened (wc w cid)); [right; reflexivity|discriminate]. }
        apply I_hr. destruct (flag_of cb); [apply I_quiet; [apply quiet_acb|reflexivity|exact H1]|exact H1].
    - destruct (trigger false (TAsyncWrite cid d (flag_of cb)) w) as [r w1] eqn:Ht.
      apply I_hr. assert (Hx := I_trigger_rel L P N false (TAsyncWrite cid d (flag_of cb)) w eq_refl H).
      rewrite Ht in Hx. exact Hx. }
  destruct (sym_eqb call "asyncwritev").
  { destruct args as [|cb segs]; [eapply Inv_desync; exact H|].
    destruct (c_udp (wc w cid)); [apply I_hr; exact H|].
    destruct (trigger false (TAsyncWritev cid (segs_of segs) (flag_of cb)) w) as [r w1] eqn:Ht.
    apply I_hr. assert (Hx := I_trigger_rel L P N false (TAsyncWritev cid (segs_of segs) (flag_of cb)) w eq_refl H).
    rewrite Ht in Hx. exact Hx. }
  destruct (sym_eqb call "wake").
  { destruct args as [|cb [|a2 rest]]; try (eapply Inv_desync; exact H).
    destruct (trigger true (TWake cid (flag_of cb)) w) as [r w1] eqn:Ht.
    apply I_hr. assert (Hx := I_trigger_rel L P N true (TWake cid (flag_of cb)) w eq_refl H).
    rewrite Ht in Hx. exact Hx. }
  destruct (sym_eqb call "close").
  { destruct args as [|cb [|a2 rest]]; try (eapply Inv_desync; exact H).
    destruct (trigger true (TClose cid (flag_of cb)) w) as [r w1] eqn:Ht.
    apply I_hr. assert (Hx := I_trigger_rel L P N true (TClose cid (flag_of cb)) w eq_refl H).
    rewrite Ht in Hx. exact Hx. }
  destruct (sym_eqb call "elclose").
  { match goal with |- context [el_close f ?t true w] => set (tg := t) end.
    destruct (el_close f tg true w) as [r w1] eqn:Hc.
    apply I_hr. specialize (IHclose tg true w L P N H). rewrite Hc in IHclose. exact IHclose. }
  destruct (sym_eqb call "on").
  { destruct args as [|[t|b1|s0] [|[z|b2|call'] args']]; try (eapply Inv_desync; exact H).
    destruct (c_opened (wc w t)); [apply IHhcall; exact H|eapply Inv_desync; exact H]. }
  eapply Inv_desync; exact H.
Qed.

Lemma spec_all : forall f, spec f.
Proof.
  induction f as [|f IH].
  - unfold spec. repeat split; intros.
    + rewrite el_close_O. eapply Inv_desync; eauto.
    + rewrite close_drain_O. eapply Inv_desync; eauto.
    + rewrite conn_write_O. eapply Inv_desync; eauto.
    + rewrite conn_write_loop_O. eapply Inv_desync; eauto.
    + rewrite conn_writev_loop_O. eapply Inv_desync; eauto.
    + rewrite conn_writev_O. eapply Inv_desync; eauto.
    + rewrite el_write_O. eapply Inv_desync; eauto.
    + rewrite handler_O. eapply Inv_desync; eauto.
    + rewrite hcall_O. eapply Inv_desync; eauto.
  - unfold spec. repeat split.
    + apply el_close_step; exact IH.
    + apply close_drain_step; exact IH.
    + apply conn_write_step; exact IH.
    + apply conn_write_loop_step; exact IH.
    + apply conn_writev_loop_step; exact IH.
    + apply conn_writev_step; exact IH.
    + apply el_write_step; exact IH.
    + apply handler_step; exact IH.
    + apply hcall_step; exact IH.
Qed.

Lemma I_el_close : forall f cid e w L P N, Iv (Rel L P N) w -> Iv (Rel L P N) (snd (el_close f cid e w)).
Proof. intros f. apply (spec_all f). Qed.
Lemma I_conn_write : forall f cid d w L P N, Iv (Rel L P N) w -> Iv (Rel L P N) (snd (conn_write f cid d w)).
Proof. intros f. apply (spec_all f). Qed.
Lemma I_conn_writev : forall f cid d w L P N, Iv (Rel L P N) w -> Iv (Rel L P N) (snd (conn_writev f cid d w)).
Proof. intros f. apply (spec_all f). Qed.
Lemma I_el_write : forall f cid n w L P N, Iv (Rel L P N) w -> Iv (Rel L P N) (snd (el_write f cid n w)).
Proof. intros f. apply (spec_all f). Qed.
Lemma I_handler : forall f cid w L P N, Iv (Rel L P N) w -> Iv (Rel L P N) (snd (handler f cid w)).
Proof. intros f. apply (spec_all f). Qed.

End Mutual.
