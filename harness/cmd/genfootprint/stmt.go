package main

import (
	"go/ast"
	"go/token"
	"go/types"
)

func (a *az) block(list []ast.Stmt) {
	saved := a.guards
	for _, s := range list {
		a.stmt(s)
	}
	a.guards = saved
}

func terminates(b *ast.BlockStmt) bool {
	if b == nil || len(b.List) == 0 {
		return false
	}
	switch s := b.List[len(b.List)-1].(type) {
	case *ast.ReturnStmt:
		return true
	case *ast.BranchStmt:
		return s.Tok == token.GOTO || s.Tok == token.CONTINUE || s.Tok == token.BREAK
	case *ast.ExprStmt:
		if c, ok := s.X.(*ast.CallExpr); ok {
			if id, ok := c.Fun.(*ast.Ident); ok && id.Name == "panic" {
				return true
			}
		}
	}
	return false
}

// condGuards: guards implied by cond being true (pos) / false (neg); only
// boolean struct fields, possibly negated, combined with && (pos) or || (neg).
func (a *az) condGuards(cond ast.Expr) (pos, neg []guard) {
	switch v := unparen(cond).(type) {
	case *ast.SelectorExpr:
		if loc, ok := a.fieldOf(v); ok {
			if b, ok := a.p.info.Types[v].Type.Underlying().(*types.Basic); ok && b.Kind() == types.Bool {
				return []guard{{loc, true}}, []guard{{loc, false}}
			}
		}
	case *ast.UnaryExpr:
		if v.Op == token.NOT {
			p, n := a.condGuards(v.X)
			return n, p
		}
	case *ast.BinaryExpr:
		if v.Op == token.LAND {
			p1, _ := a.condGuards(v.X)
			p2, _ := a.condGuards(v.Y)
			return append(p1, p2...), nil
		}
		if v.Op == token.LOR {
			_, n1 := a.condGuards(v.X)
			_, n2 := a.condGuards(v.Y)
			return nil, append(n1, n2...)
		}
	}
	return nil, nil
}

func (a *az) stmt(s ast.Stmt) {
	switch v := s.(type) {
	case nil:
	case *ast.BlockStmt:
		a.block(v.List)
	case *ast.ExprStmt:
		a.expr(v.X, mRead)
	case *ast.AssignStmt:
		for _, r := range v.Rhs {
			a.expr(r, mRead)
		}
		for i, l := range v.Lhs {
			if id, ok := l.(*ast.Ident); ok {
				if id.Name == "_" {
					continue
				}
				// assignment to a plain variable: package variable = publication; local = alias
				isPkgVar := false
				if o, ok := a.p.info.Uses[id].(*types.Var); ok {
					if _, ok := a.w.varName[o]; ok {
						isPkgVar = true
						a.expr(l, mWrite)
					}
				}
				_ = isPkgVar
				// `x = v` aliases the fresh object v, `x = &T{f: v}` stores it: give up tracking v
				if len(v.Lhs) == len(v.Rhs) {
					a.escapeAll(v.Rhs[i], v.Pos())
				}
				continue
			}
			a.expr(l, mWrite)
			// x.f = append(x.f, ...) also writes the new elements
			if len(v.Lhs) == len(v.Rhs) {
				if ce, ok := unparen(v.Rhs[i]).(*ast.CallExpr); ok {
					if id, ok := unparen(ce.Fun).(*ast.Ident); ok && id.Name == "append" {
						if loc, ok := a.fieldOf(l); ok {
							a.record(loc+"[]", "W", l, l.Pos())
						}
					}
				}
			}
			// storing into memory: published unless the destination lies in an object we still own
			root, in := a.pathRoot(l)
			ownedDest := a.ownedRoot(root, in)
			var rs []ast.Expr
			if len(v.Lhs) == len(v.Rhs) {
				rs = []ast.Expr{v.Rhs[i]}
			} else {
				rs = v.Rhs
			}
			for _, r := range rs {
				for _, c := range a.carriers(r) {
					if !(ownedDest && c == root) {
						a.escape(c, v.Pos())
					}
				}
			}
		}
	case *ast.IncDecStmt:
		a.expr(v.X, mWrite)
	case *ast.DeclStmt:
		if gd, ok := v.Decl.(*ast.GenDecl); ok {
			for _, sp := range gd.Specs {
				if vs, ok := sp.(*ast.ValueSpec); ok {
					for _, val := range vs.Values {
						a.expr(val, mRead)
						a.escapeAll(val, v.Pos())
					}
				}
			}
		}
	case *ast.IfStmt:
		saved := a.guards
		a.stmt(v.Init)
		a.expr(v.Cond, mRead)
		pos, neg := a.condGuards(v.Cond)
		a.guards = append(append([]guard(nil), saved...), pos...)
		a.block(v.Body.List)
		a.guards = append(append([]guard(nil), saved...), neg...)
		if v.Else != nil {
			a.stmt(v.Else)
		}
		a.guards = saved
		if v.Else == nil && terminates(v.Body) {
			// the rest of the enclosing block runs only when cond was false
			a.guards = append(append([]guard(nil), saved...), neg...)
		}
	case *ast.ForStmt:
		a.stmt(v.Init)
		a.loops = append(a.loops, v)
		a.expr(v.Cond, mRead)
		a.block(v.Body.List)
		a.stmt(v.Post)
		a.loops = a.loops[:len(a.loops)-1]
	case *ast.RangeStmt:
		a.expr(v.X, mRead)
		if loc, ok := a.fieldOf(v.X); ok {
			a.record(loc+"[]", "R", v.X, v.X.Pos())
		}
		if v.Tok == token.ASSIGN {
			a.expr(v.Key, mWrite)
			a.expr(v.Value, mWrite)
		}
		a.loops = append(a.loops, v)
		a.block(v.Body.List)
		a.loops = a.loops[:len(a.loops)-1]
	case *ast.SwitchStmt:
		a.stmt(v.Init)
		a.expr(v.Tag, mRead)
		for _, c := range v.Body.List {
			cc := c.(*ast.CaseClause)
			for _, e := range cc.List {
				a.expr(e, mRead)
			}
			a.block(cc.Body)
		}
	case *ast.TypeSwitchStmt:
		a.stmt(v.Init)
		a.stmt(v.Assign)
		for _, c := range v.Body.List {
			a.block(c.(*ast.CaseClause).Body)
		}
	case *ast.SelectStmt:
		for _, c := range v.Body.List {
			cc := c.(*ast.CommClause)
			a.stmt(cc.Comm)
			a.block(cc.Body)
		}
	case *ast.ReturnStmt:
		for _, r := range v.Results {
			a.expr(r, mRead)
		}
	case *ast.DeferStmt:
		// arguments are evaluated now, the call runs when the function returns
		for _, arg := range v.Call.Args {
			if _, isLit := unparen(arg).(*ast.FuncLit); !isLit {
				a.expr(arg, mRead)
			}
		}
		a.defers = append(a.defers, v.Call)
	case *ast.GoStmt:
		a.spawnCall("go", v.Call)
	case *ast.SendStmt:
		a.expr(v.Chan, mRead)
		a.expr(v.Value, mRead)
		a.escapeAll(v.Value, v.Pos())
	case *ast.LabeledStmt:
		// a label that is the target of a backward goto is a loop
		a.loops = append(a.loops, labelLoop{v, a.fn.body.End()})
		a.stmt(v.Stmt)
		// statements after the label up to the goto are handled conservatively: keep the
		// pseudo-loop open until the end of the function
	case *ast.BranchStmt, *ast.EmptyStmt:
	default:
		a.sum.untrans = append(a.sum.untrans, a.w.l.relPos(s.Pos()))
	}
}

// labelLoop makes `label: ... goto label` behave like a loop from the label to the end of the function.
type labelLoop struct {
	s   *ast.LabeledStmt
	end token.Pos
}

func (l labelLoop) Pos() token.Pos { return l.s.Pos() }
func (l labelLoop) End() token.Pos { return l.end }
