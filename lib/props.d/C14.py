PROP = dict(
    drivers=[dict(cmd="drv-registry", family="registry", variant="map", tags="verif", search_thorough=False),
             dict(cmd="drv-registry", family="registry", variant="gcopt", tags="verif gc_opt", search_thorough=False)],
    rule="a case is one registry driven by a generated op sequence (add / del first-middle-last-random by position / "
         "re-register the just-removed fd / iterate read-only, shutdown, remove-some, early stop / checkpoints that read "
         "getConn for every fd ever used, loadCount and each live conn's stored (row,column)); populations 0..8 (160 cases), "
         "10..300 (60 cases), one case crossing the 65536 row boundary (thorough: 7 more around 65536 and 131072, "
         "and 10-50x the small cases); both build variants (conn_map.go, conn_matrix.go with -tags gc_opt); "
         "non-trivial = tagged with a deletion shape / iteration pattern / boundary; distinct by hash of the op lines",
    trusted=["stdlib FMapPositive (PositiveMap) as the executable finite map of the model; Sorting.Mergesort only to sort the visit list for printing"],
    assumptions=["a connection object is an identity with an fd and a stored (row, column, fd) GFD; the GFD byte packing is C20",
                 "int32 counters do not wrap (population < 2^31); Go map iteration visits every entry present throughout the loop exactly once",
                 "API preconditions (sp_wf): a descriptor is registered only while unregistered, only registered connections are removed "
                 "(eventloop.register/close guard this with getConn and the kernel's descriptor uniqueness)",
                 "matrix theorems need COL > 1 (real value 65536) and population < ROW*COL (at capacity addConn drops silently: theorem C14_matrix_add_at_capacity_drops)"],
)
