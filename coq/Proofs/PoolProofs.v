(* Proofs about Model/Pool.v (property C12). *)
From Coq Require Import Lia ZArith ZifyBool List Bool.
From GV Require Import Lib.Trace Model.Arith Model.Pool Proofs.ArithProofs.
Import ListNotations.
Open Scope Z_scope.

Ltac splits := repeat match goal with |- _ /\ _ => split end.

(* ------------------------------------------------------------------ *)
(* size classes *)

Lemma shiftl1 i : 0 <= i -> Z.shiftl 1 i = 2^i.
Proof. intros. apply Z.shiftl_1_l. Qed.

Lemma maxint32 : MaxInt32 = 2147483647. Proof. reflexivity. Qed.

(* Put rounds the class DOWN: the implied capacity never exceeds the donated one *)
Lemma put_idx_spec c : 1 <= c <= MaxInt32 ->
  exists i, put_idx c = Ret i /\ 0 <= i <= 31 /\ 2^i <= c.
Proof.
  intros Hc. rewrite maxint32 in Hc.
  destruct (put_class_le_cap c Hc) as (i & Hp & Hi & Hle).
  exists i. split; [|split; assumption].
  unfold put_class in Hp. unfold put_idx.
  destruct (bs_index_spec c Hc) as (k & Hk & Hk31 & Hck & _).
  rewrite Hk in *. cbn [obind] in *.
  destruct (negb (c =? Z.shiftl 1 k)) eqn:E; [|assumption].
  assert (1 <= k).
  { destruct (Z.eq_dec k 0) as [->|]; [|lia]. cbn in E. cbn in Hck. lia. }
  rewrite wrapu32_id by lia. assumption.
Qed.

Lemma get_idx_spec size : 1 <= size <= MaxInt32 ->
  exists i, bs_index size = Ret i /\ 0 <= i <= 31 /\ size <= 2^i.
Proof.
  intros H. rewrite maxint32 in H.
  destruct (bs_index_spec size H) as (i & Hi & Hr & Hle & _). eauto.
Qed.

(* ------------------------------------------------------------------ *)
(* how many intervals of a list contain byte x of allocation id *)

Definition covers (v : iv) (id x : Z) : Z :=
  if (vid v =? id) && (vlo v <=? x) && (x <? vhi v) then 1 else 0.

Fixpoint cover (l : list iv) (id x : Z) : Z :=
  match l with
  | [] => 0
  | v :: l' => covers v id x + cover l' id x
  end.

Lemma covers_range v id x : 0 <= covers v id x <= 1.
Proof. unfold covers. destruct (_ && _); lia. Qed.

Lemma cover_nonneg l id x : 0 <= cover l id x.
Proof. induction l as [|v l IH]; cbn [cover]; [lia|]. pose proof (covers_range v id x). lia. Qed.

Lemma cover_app l1 l2 id x : cover (l1 ++ l2) id x = cover l1 id x + cover l2 id x.
Proof. induction l1 as [|v l1 IH]; cbn [cover app]; lia. Qed.

Lemma cover_in_le l v id x : In v l -> covers v id x <= cover l id x.
Proof.
  induction l as [|w l IH]; intros Hin; [destruct Hin|].
  cbn [cover]. destruct Hin as [->|Hin].
  - pose proof (cover_nonneg l id x). lia.
  - specialize (IH Hin). pose proof (covers_range w id x). lia.
Qed.

Lemma cover_nth_two l : forall i j a b id x, i <> j ->
  nth_error l i = Some a -> nth_error l j = Some b ->
  covers a id x + covers b id x <= cover l id x.
Proof.
  induction l as [|v l IH]; intros i j a b id x Hij Hi Hj.
  - destruct i; discriminate.
  - cbn [cover]. destruct i as [|i], j as [|j]; cbn [nth_error] in *.
    + congruence.
    + injection Hi as ->. apply nth_error_In in Hj. pose proof (cover_in_le l b id x Hj). lia.
    + injection Hj as ->. apply nth_error_In in Hi. pose proof (cover_in_le l a id x Hi). lia.
    + assert (i <> j) by congruence. specialize (IH i j a b id x H Hi Hj).
      pose proof (covers_range v id x). lia.
Qed.

Lemma cover_other_id l id x : (forall v, In v l -> vid v <> id) -> cover l id x = 0.
Proof.
  induction l as [|v l IH]; intros H; [reflexivity|].
  cbn [cover]. rewrite IH by (intros w Hw; apply H; right; assumption).
  unfold covers. specialize (H v (or_introl eq_refl)).
  destruct (Z.eqb_spec (vid v) id); [contradiction|]. reflexivity.
Qed.

Lemma cover_filter_le {A} (f : A -> iv) (p : A -> bool) l id x :
  cover (map f (filter p l)) id x <= cover (map f l) id x.
Proof.
  induction l as [|a l IH]; cbn [filter map cover]; [lia|].
  destruct (p a); cbn [map cover]; pose proof (covers_range (f a) id x); lia.
Qed.

Lemma covers_1 v id x : vid v = id -> vlo v <= x < vhi v -> covers v id x = 1.
Proof. intros H1 H2. unfold covers. destruct ((vid v =? id) && (vlo v <=? x) && (x <? vhi v)) eqn:E; lia. Qed.

Lemma overlap_common a b : iv_overlap a b = true ->
  exists x, covers a (vid a) x = 1 /\ covers b (vid a) x = 1.
Proof.
  unfold iv_overlap. intros H.
  exists (Z.max (vlo a) (vlo b)). split; apply covers_1; lia.
Qed.

Lemma inside_covers a b id x : iv_inside a b = true -> covers a id x <= covers b id x.
Proof.
  unfold iv_inside, covers. intros H.
  destruct ((vid a =? id) && (vlo a <=? x) && (x <? vhi a)) eqn:E1;
  destruct ((vid b =? id) && (vlo b <=? x) && (x <? vhi b)) eqn:E2; lia.
Qed.

(* ------------------------------------------------------------------ *)
(* ledger: release *)

Lemma owns_release led c v : existsb (own_match c v) led = true ->
  exists led', release c v led = Some led'.
Proof.
  induction led as [|o led IH]; cbn [existsb release]; intros H; [discriminate|].
  destruct (own_match c v o) eqn:E; [eauto|].
  cbn [orb] in H. destruct (IH H) as (l' & ->). eauto.
Qed.

Lemma release_cover c v led led' id x : vlo v <= vhi v ->
  release c v led = Some led' ->
  cover (map snd led) id x = cover (map snd led') id x + covers v id x.
Proof.
  intros Hv. revert led'. induction led as [|o led IH]; cbn [release]; intros led' H; [discriminate|].
  destruct (own_match c v o) eqn:E.
  - injection H as <-. cbn [map cover snd].
    unfold own_match, iv_inside in E. unfold covers; cbn [vid vlo vhi].
    destruct ((vid (snd o) =? id) && (vlo (snd o) <=? x) && (x <? vhi (snd o))) eqn:E0;
    destruct ((vid (snd o) =? id) && (vlo (snd o) <=? x) && (x <? vlo v)) eqn:E1;
    destruct ((vid (snd o) =? id) && (vhi v <=? x) && (x <? vhi (snd o))) eqn:E2;
    destruct ((vid v =? id) && (vlo v <=? x) && (x <? vhi v)) eqn:E3; lia.
  - destruct (release c v led) as [r|] eqn:Er; [|discriminate].
    injection H as <-. cbn [map cover]. rewrite (IH r eq_refl). lia.
Qed.

(* every interval left after a release lies inside an interval owned before *)
Lemma release_in c v led led' : vlo v <= vhi v ->
  release c v led = Some led' ->
  forall o', In o' led' -> exists o, In o led /\ vid (snd o') = vid (snd o) /\
             vlo (snd o) <= vlo (snd o') /\ vhi (snd o') <= vhi (snd o).
Proof.
  intros Hv. revert led'. induction led as [|o led IH]; cbn [release]; intros led' H o' Hin; [discriminate|].
  destruct (own_match c v o) eqn:E.
  - injection H as <-. unfold own_match, iv_inside in E.
    destruct Hin as [<-|[<-|Hin]]; cbn [snd vid vlo vhi].
    + exists o. split; [left; reflexivity|]. lia.
    + exists o. split; [left; reflexivity|]. lia.
    + exists o'. split; [right; assumption|]. lia.
  - destruct (release c v led) as [r|] eqn:Er; [|discriminate].
    injection H as <-. destruct Hin as [<-|Hin].
    + exists o. split; [left; reflexivity|]. lia.
    + destruct (IH r eq_refl o' Hin) as (o0 & Hi0 & Hrest).
      exists o0. split; [right; assumption|assumption].
Qed.

Lemma owns_in led c v : existsb (own_match c v) led = true ->
  exists o, In o led /\ fst o = c /\ iv_inside v (snd o) = true.
Proof.
  intros H. apply existsb_exists in H. destruct H as (o & Hin & Hm).
  unfold own_match in Hm. exists o. split; [assumption|]. lia.
Qed.

(* ------------------------------------------------------------------ *)
(* pool entries: take_entry *)

Lemma take_entry_spec ser l e rest : take_entry ser l = Some (e, rest) ->
  eser e = ser /\ In e l /\ (forall x, In x rest -> In x l) /\
  (forall id x, cover (map entry_iv l) id x = covers (entry_iv e) id x + cover (map entry_iv rest) id x).
Proof.
  revert rest. induction l as [|a l IH]; cbn [take_entry]; intros rest H; [discriminate|].
  destruct (Z.eqb_spec (eser a) ser) as [Heq|Hne].
  - injection H as <- <-. splits; auto.
    + left; reflexivity.
    + intros; right; assumption.
  - destruct (take_entry ser l) as [[x r]|] eqn:Et; [|discriminate].
    injection H as <- <-. destruct (IH r eq_refl) as (Hs & Hin & Hsub & Hcov).
    splits; auto.
    + right; assumption.
    + intros y [<-|Hy]; [left; reflexivity|right; auto].
    + intros id z. cbn [map cover]. rewrite Hcov. lia.
Qed.

(* ------------------------------------------------------------------ *)
(* the invariant behind exclusivity *)

Definition items (st : state) : list iv := map snd (ledger st) ++ map entry_iv (entries st).

Definition in_alloc (st : state) (v : iv) : Prop :=
  exists sz, In (vid v, sz) (allocs st) /\ 0 <= vlo v /\ vhi v <= sz.

Record inv (st : state) : Prop := mkInv {
  inv_cover : forall id x, cover (items st) id x <= 1;
  inv_led : forall o, In o (ledger st) -> in_alloc st (snd o);
  inv_ent : forall e, In e (entries st) -> in_alloc st (entry_iv e) /\ 0 <= ecls e <= 31;
  inv_ids : forall id sz, In (id, sz) (allocs st) -> id < next_id st
}.

Lemma inv_init : inv init.
Proof. constructor; cbn; intros; try contradiction; lia. Qed.

Lemma in_alloc_id st v : inv st -> in_alloc st v -> vid v < next_id st.
Proof. intros I (sz & Hin & _). apply (inv_ids st I) in Hin. lia. Qed.

Lemma items_ids st v : inv st -> In v (items st) -> vid v < next_id st.
Proof.
  intros I Hin. unfold items in Hin. apply in_app_or in Hin. destruct Hin as [H|H];
  apply in_map_iff in H; destruct H as (a & <- & Ha).
  - apply in_alloc_id; [assumption|]. apply (inv_led st I). assumption.
  - apply in_alloc_id; [assumption|]. apply (inv_ent st I). assumption.
Qed.

(* a fresh allocation handed to client c keeps the invariant *)
Lemma inv_alloc_for st c sz : inv st -> inv (alloc_for st c sz).
Proof.
  intros I. constructor; unfold alloc_for, items; cbn [allocs next_id entries ledger map app cover snd].
  - intros id x. fold (items st).
    destruct (Z.eq_dec id (next_id st)) as [->|Hne].
    + rewrite (cover_other_id (items st)).
      * pose proof (covers_range (mkIv (next_id st) 0 sz) (next_id st) x). lia.
      * intros v Hv. pose proof (items_ids st v I Hv). lia.
    + pose proof (inv_cover st I id x). unfold covers; cbn [vid].
      destruct (Z.eqb_spec (next_id st) id); [congruence|]. cbn [andb]. lia.
  - intros o [<-|Ho].
    + exists sz. cbn. split; [left; reflexivity|lia].
    + destruct (inv_led st I o Ho) as (s & Hin & Hb). exists s. split; [right; assumption|assumption].
  - intros e He. destruct (inv_ent st I e He) as ((s & Hin & Hb) & Hc).
    split; [|assumption]. exists s. split; [right; assumption|assumption].
  - intros id s [H|H].
    + injection H as <- <-. lia.
    + apply (inv_ids st I) in H. lia.
Qed.

Lemma cover_items st id x :
  cover (items st) id x = cover (map snd (ledger st)) id x + cover (map entry_iv (entries st)) id x.
Proof. unfold items. apply cover_app. Qed.

Lemma entry_region_iv e size :
  region_iv (mkRegion (eid e) (eoff e) size (Z.shiftl 1 (ecls e))) = entry_iv e.
Proof. reflexivity. Qed.

(* Get keeps the invariant (no discipline needed) *)
Lemma get_inv st c size choice : inv st -> inv (fst (get st c size choice)).
Proof.
  intros I. unfold get.
  destruct (size <=? 0); [assumption|].
  destruct (size >? MaxInt32); [apply inv_alloc_for; assumption|].
  destruct (bs_index size) as [idx|]; [|assumption].
  destruct ((idx <? 0) || (32 <=? idx)); [assumption|].
  destruct (choice <? 0); [apply inv_alloc_for; assumption|].
  destruct (take_entry choice (entries st)) as [[e rest]|] eqn:Et; [|assumption].
  destruct (Z.eqb_spec (ecls e) idx) as [<-|]; [|assumption].
  cbn [fst]. destruct (take_entry_spec _ _ _ _ Et) as (_ & Hin & Hsub & Hcov).
  constructor; cbn [allocs next_id entries ledger].
  - intros id x. pose proof (inv_cover st I id x) as Hc. rewrite cover_items in *.
    cbn [ledger entries map cover snd]. rewrite entry_region_iv. rewrite Hcov in Hc. lia.
  - intros o [<-|Ho]; cbn [snd].
    + rewrite entry_region_iv. destruct (inv_ent st I e Hin) as ((s & Ha & Hb) & _). exists s. auto.
    + destruct (inv_led st I o Ho) as (s & Ha & Hb). exists s. auto.
  - intros e' He'. destruct (inv_ent st I e' (Hsub e' He')) as ((s & Ha & Hb) & Hc). split; [exists s; auto|assumption].
  - apply (inv_ids st I).
Qed.

Lemma inv_bump st : inv st -> inv (bump st).
Proof. intros [A B C D]. constructor; assumption. Qed.

Lemma put_inv st c r : inv st -> op_ok st (OPut c r) -> inv (fst (put st c r)).
Proof.
  intros I [Hlen Hown]. unfold put.
  destruct (put_noop r) eqn:En; [apply inv_bump; assumption|].
  destruct Hown as [Hown|Hown]; [discriminate Hown|].
  assert (Hc : 1 <= rcap r <= MaxInt32) by (unfold put_noop in En; lia).
  destruct (put_idx_spec (rcap r) Hc) as (idx & -> & Hidx & Hle).
  destruct ((idx <? 0) || (32 <=? idx)) eqn:Eb; [lia|].
  unfold owns in Hown.
  destruct (owns_release _ _ _ Hown) as (led' & Hrel). rewrite Hrel. cbn [fst].
  assert (Hv : vlo (region_iv r) <= vhi (region_iv r)) by (cbn; lia).
  set (e := mkEntry idx (rid r) (roff r) (nput st) r).
  assert (Hins : iv_inside (entry_iv e) (region_iv r) = true).
  { unfold iv_inside, entry_iv, region_iv, e; cbn [vid vlo vhi eid eoff ecls]. rewrite shiftl1 by lia. lia. }
  destruct (owns_in _ _ _ Hown) as (o & Ho & Hoc & Hoins).
  destruct (inv_led st I o Ho) as (s & Hs & Hsb).
  constructor; cbn [allocs next_id entries ledger].
  - intros id x. pose proof (inv_cover st I id x) as Hcv. rewrite cover_items in *.
    cbn [ledger entries]. rewrite map_app, cover_app. cbn [map cover].
    rewrite (release_cover _ _ _ _ id x Hv Hrel) in Hcv.
    pose proof (inside_covers _ _ id x Hins). lia.
  - intros o' Ho'. destruct (release_in _ _ _ _ Hv Hrel o' Ho') as (o0 & Hi0 & Hid & Hlo & Hhi).
    destruct (inv_led st I o0 Hi0) as (s0 & Hs0 & Hb0). exists s0. rewrite Hid. split; [assumption|lia].
  - intros e' He'. apply in_app_or in He'. destruct He' as [He'|[<-|[]]].
    + apply (inv_ent st I). assumption.
    + split; [|cbn; lia]. exists s. unfold iv_inside in *. cbn [vid vlo vhi entry_iv region_iv e eid eoff ecls] in *.
      replace (rid r) with (vid (snd o)) by lia. split; [assumption|lia].
  - apply (inv_ids st I).
Qed.

Lemma gc_inv st keep : inv st -> inv (gc st keep).
Proof.
  intros I. constructor; unfold gc; cbn [allocs next_id entries ledger].
  - intros id x. pose proof (inv_cover st I id x) as Hc. rewrite cover_items in *. cbn [ledger entries].
    pose proof (cover_filter_le entry_iv (fun e => existsb (Z.eqb (eser e)) keep) (entries st) id x). lia.
  - apply (inv_led st I).
  - intros e He. apply filter_In in He. apply (inv_ent st I). tauto.
  - apply (inv_ids st I).
Qed.

Lemma step_inv st o : inv st -> op_ok st o -> inv (fst (step st o)).
Proof.
  intros I Hok. destruct o as [c size choice|c r|keep|c len cap|c r]; cbn [step].
  - apply get_inv; assumption.
  - apply put_inv; assumption.
  - apply gc_inv; assumption.
  - unfold mk. destruct ((0 <=? len) && (len <=? cap)); [apply inv_alloc_for|]; assumption.
  - assumption.
Qed.

(* ------------------------------------------------------------------ *)
(* histories *)

Lemma run_cons st o rest :
  run st (o :: rest) = (fst (run (fst (step st o)) rest), snd (step st o) :: snd (run (fst (step st o)) rest)).
Proof. cbn [run]. destruct (step st o) as [st1 ev]. cbn [fst snd]. destruct (run st1 rest) as [st2 evs]. reflexivity. Qed.

Lemma final_cons st o rest : final st (o :: rest) = final (fst (step st o)) rest.
Proof. unfold final. rewrite run_cons. reflexivity. Qed.

Lemma events_cons st o rest : events st (o :: rest) = snd (step st o) :: events (fst (step st o)) rest.
Proof. unfold events. rewrite run_cons. reflexivity. Qed.

Lemma final_app st ops1 ops2 : final st (ops1 ++ ops2) = final (final st ops1) ops2.
Proof.
  revert st. induction ops1 as [|o ops1 IH]; intros st; [reflexivity|].
  cbn [app]. rewrite !final_cons. apply IH.
Qed.

Lemma events_app st ops1 ops2 : events st (ops1 ++ ops2) = (events st ops1 ++ events (final st ops1) ops2)%list.
Proof.
  revert st. induction ops1 as [|o ops1 IH]; intros st; [reflexivity|].
  cbn [app]. rewrite !events_cons, final_cons, IH. reflexivity.
Qed.

Lemma events_length st ops : List.length (events st ops) = List.length ops.
Proof.
  revert st. induction ops as [|o ops IH]; intros st; [reflexivity|].
  rewrite events_cons. cbn [List.length]. rewrite IH. reflexivity.
Qed.

Lemma disciplined_app st ops1 ops2 :
  disciplined st (ops1 ++ ops2) <-> disciplined st ops1 /\ disciplined (final st ops1) ops2.
Proof.
  revert st. induction ops1 as [|o ops1 IH]; intros st.
  - cbn. tauto.
  - cbn [app disciplined]. rewrite final_cons, IH. tauto.
Qed.

(* invariant rule: a state invariant preserved by disciplined steps, and an
   event property established by them, hold along every disciplined history *)
Lemma run_rule (I : state -> Prop) (Q : state -> op -> event -> Prop) :
  (forall st o, I st -> op_ok st o -> I (fst (step st o)) /\ Q st o (snd (step st o))) ->
  forall ops st, I st -> disciplined st ops ->
    I (final st ops) /\
    forall k o ev, nth_error ops k = Some o -> nth_error (events st ops) k = Some ev ->
      exists stk, I stk /\ op_ok stk o /\ step stk o = (fst (step stk o), ev) /\ Q stk o ev.
Proof.
  intros Hstep. induction ops as [|o ops IH]; intros st HI Hd.
  - split; [assumption|]. intros [|k]; discriminate.
  - destruct Hd as [Hok Hd]. destruct (Hstep st o HI Hok) as [HI' HQ].
    destruct (IH _ HI' Hd) as [HF HE].
    rewrite final_cons, events_cons. split; [assumption|].
    intros [|k] o' ev Ho Hev; cbn [nth_error] in *.
    + injection Ho as <-. injection Hev as <-. exists st. splits; auto. destruct (step st o); reflexivity.
    + eapply HE; eassumption.
Qed.

Lemma run_inv ops st : inv st -> disciplined st ops -> inv (final st ops).
Proof.
  intros I D.
  destruct (run_rule inv (fun _ _ _ => True) (fun s o i ok => conj (step_inv s o i ok) Logic.I) ops st I D) as [H _].
  exact H.
Qed.

(* ------------------------------------------------------------------ *)
(* exclusivity *)

(* under the invariant, the items (outstanding intervals and the implied
   regions of pooled pointers) are pairwise disjoint *)
Lemma inv_pairwise st : inv st ->
  forall i j a b, i <> j -> nth_error (items st) i = Some a -> nth_error (items st) j = Some b ->
  iv_overlap a b = false.
Proof.
  intros I i j a b Hij Ha Hb. destruct (iv_overlap a b) eqn:E; [exfalso|reflexivity].
  destruct (overlap_common a b E) as (x & Hca & Hcb).
  pose proof (cover_nth_two (items st) i j a b (vid a) x Hij Ha Hb).
  pose proof (inv_cover st I (vid a) x). lia.
Qed.

Lemma excl_fresh st sz : inv st -> excl_of st (mkIv (next_id st) 0 sz) = true.
Proof.
  intros I. unfold excl_of. apply forallb_forall. intros o Ho.
  pose proof (in_alloc_id st (snd o) I (inv_led st I o Ho)).
  unfold iv_overlap; cbn [vid]. destruct (Z.eqb_spec (vid (snd o)) (next_id st)); [lia|reflexivity].
Qed.

Lemma excl_entry st e : inv st -> In e (entries st) -> excl_of st (entry_iv e) = true.
Proof.
  intros I He. unfold excl_of. apply forallb_forall. intros o Ho.
  destruct (iv_overlap (snd o) (entry_iv e)) eqn:E; [exfalso|reflexivity].
  destruct (overlap_common _ _ E) as (x & Hca & Hcb).
  pose proof (inv_cover st I (vid (snd o)) x) as Hc. rewrite cover_items in Hc.
  pose proof (cover_in_le (map snd (ledger st)) (snd o) (vid (snd o)) x (in_map snd _ _ Ho)).
  pose proof (cover_in_le (map entry_iv (entries st)) (entry_iv e) (vid (snd o)) x (in_map entry_iv _ _ He)).
  lia.
Qed.

Definition get_event_ok (ev : event) : Prop :=
  match ev with
  | EGetFresh r x => x = true
  | EGetPool r e x => x = true
  | _ => True
  end.

Lemma get_excl st c size choice : inv st -> get_event_ok (snd (get st c size choice)).
Proof.
  intros I. unfold get.
  destruct (size <=? 0); [exact Logic.I|].
  destruct (size >? MaxInt32); [cbn; apply excl_fresh; assumption|].
  destruct (bs_index size) as [idx|]; [|exact Logic.I].
  destruct ((idx <? 0) || (32 <=? idx)); [exact Logic.I|].
  destruct (choice <? 0); [cbn; apply excl_fresh; assumption|].
  destruct (take_entry choice (entries st)) as [[e rest]|] eqn:Et; [|exact Logic.I].
  destruct (Z.eqb_spec (ecls e) idx) as [<-|]; [|exact Logic.I].
  cbn. rewrite entry_region_iv. apply excl_entry; [assumption|].
  destruct (take_entry_spec _ _ _ _ Et) as (_ & Hin & _). exact Hin.
Qed.

Definition step_event_ok (st : state) (o : op) (ev : event) : Prop :=
  get_event_ok ev /\
  match o, ev with
  | OWr c r, EWr own =>
      own = true /\ forall o', In o' (ledger st) -> fst o' <> c -> iv_overlap (snd o') (region_len_iv r) = false
  | OPut c r, EPut _ d => d = true
  | _, _ => True
  end.

Lemma in_nth_error_pos {A} (l : list A) a : In a l -> exists i, nth_error l i = Some a.
Proof. apply In_nth_error. Qed.

Lemma wr_confined st c r : inv st -> owns st c (region_len_iv r) = true ->
  forall o', In o' (ledger st) -> fst o' <> c -> iv_overlap (snd o') (region_len_iv r) = false.
Proof.
  intros I Hown o' Ho' Hc.
  destruct (iv_overlap (snd o') (region_len_iv r)) eqn:E; [exfalso|reflexivity].
  destruct (owns_in _ _ _ Hown) as (o & Ho & Hoc & Hins).
  destruct (overlap_common _ _ E) as (x & Hc1 & Hc2).
  pose proof (inside_covers _ _ (vid (snd o')) x Hins) as Hle.
  destruct (In_nth_error _ _ Ho) as (i & Hi). destruct (In_nth_error _ _ Ho') as (j & Hj).
  assert (Hij : i <> j) by (intros ->; rewrite Hi in Hj; injection Hj as ->; congruence).
  pose proof (cover_nth_two (map snd (ledger st)) i j (snd o) (snd o') (vid (snd o')) x Hij
               (map_nth_error snd _ _ Hi) (map_nth_error snd _ _ Hj)) as H2.
  pose proof (inv_cover st I (vid (snd o')) x) as H1. rewrite cover_items in H1.
  pose proof (cover_nonneg (map entry_iv (entries st)) (vid (snd o')) x).
  pose proof (covers_range (snd o) (vid (snd o')) x). lia.
Qed.

Lemma step_ok st o : inv st -> op_ok st o -> inv (fst (step st o)) /\ step_event_ok st o (snd (step st o)).
Proof.
  intros I Hok. split; [apply step_inv; assumption|].
  destruct o as [c size choice|c r|keep|c len cap|c r]; cbn [step snd].
  - split; [apply get_excl; assumption|]. destruct (snd (get st c size choice)); exact Logic.I.
  - destruct Hok as [Hlen Hown]. unfold put.
    destruct (put_noop r) eqn:En; [split; [exact Logic.I|reflexivity]|].
    destruct Hown as [Hown|Hown]; [discriminate Hown|].
    destruct (put_idx (rcap r)) as [idx|]; [|split; exact Logic.I].
    destruct ((idx <? 0) || (32 <=? idx)); [split; exact Logic.I|].
    destruct (owns_release _ _ _ Hown) as (led' & ->). split; [exact Logic.I|reflexivity].
  - split; exact Logic.I.
  - unfold mk. destruct ((0 <=? len) && (len <=? cap)); split; exact Logic.I.
  - destruct Hok as [Hl Hown]. split; [exact Logic.I|]. split; [assumption|].
    apply wr_confined; assumption.
Qed.

(* C12, byte-slice part: along every disciplined history of Get/Put/GC/make/
   write by any number of clients, outstanding memory and pooled memory are
   pairwise disjoint, every Get result shares no byte with outstanding
   memory, and a client's write stays out of every other client's memory. *)
Theorem exclusive : forall ops, disciplined init ops ->
  (forall i j a b, i <> j ->
     nth_error (items (final init ops)) i = Some a -> nth_error (items (final init ops)) j = Some b ->
     iv_overlap a b = false) /\
  (forall k ev, nth_error (events init ops) k = Some ev ->
     match ev with
     | EGetFresh r x => x = true
     | EGetPool r e x => x = true
     | _ => True
     end).
Proof.
  intros ops D.
  destruct (run_rule inv step_event_ok step_ok ops init inv_init D) as [HF HE].
  split; [apply inv_pairwise; assumption|].
  intros k ev Hev.
  assert (Hk : (k < List.length ops)%nat).
  { rewrite <- (events_length init ops). apply nth_error_Some. congruence. }
  destruct (nth_error ops k) as [o|] eqn:Ho; [|apply nth_error_None in Ho; lia].
  destruct (HE k o ev Ho Hev) as (stk & _ & _ & _ & [Hg _]). exact Hg.
Qed.

(* outstanding regions only (the ledger), stated separately *)
Corollary outstanding_disjoint : forall ops, disciplined init ops ->
  forall i j a b, i <> j ->
    nth_error (ledger (final init ops)) i = Some a -> nth_error (ledger (final init ops)) j = Some b ->
    iv_overlap (snd a) (snd b) = false.
Proof.
  intros ops D i j a b Hij Ha Hb. destruct (exclusive ops D) as [H _].
  assert (Hi : (i < List.length (map snd (ledger (final init ops))))%nat)
    by (rewrite map_length; apply nth_error_Some; congruence).
  assert (Hj : (j < List.length (map snd (ledger (final init ops))))%nat)
    by (rewrite map_length; apply nth_error_Some; congruence).
  apply (H i j); [assumption| |]; unfold items; rewrite nth_error_app1 by assumption;
    apply map_nth_error; assumption.
Qed.

(* a pointer sitting in the pool never aliases outstanding memory *)
Corollary pooled_disjoint_from_outstanding : forall ops, disciplined init ops ->
  forall o e, In o (ledger (final init ops)) -> In e (entries (final init ops)) ->
    iv_overlap (snd o) (entry_iv e) = false.
Proof.
  intros ops D o e Ho He.
  pose proof (run_inv ops init inv_init D) as I.
  pose proof (excl_entry _ e I He) as Hx. unfold excl_of in Hx.
  rewrite forallb_forall in Hx. specialize (Hx o Ho). destruct (iv_overlap (snd o) (entry_iv e)); [discriminate|reflexivity].
Qed.

(* "data held in one connection's buffers can never be overwritten through
   another's": a disciplined write by client c touches no byte owned by anyone else *)
Theorem write_confined : forall ops c r, disciplined init (ops ++ [OWr c r]) ->
  forall o', In o' (ledger (final init ops)) -> fst o' <> c ->
    iv_overlap (snd o') (region_len_iv r) = false.
Proof.
  intros ops c r D. apply disciplined_app in D. destruct D as [D1 [[Hl Hown] _]].
  apply wr_confined; [apply run_inv; [exact inv_init|assumption]|assumption].
Qed.

(* ------------------------------------------------------------------ *)
(* shape of what Get returns *)

Definition got (ev : event) : option region :=
  match ev with
  | EGetFresh r _ => Some r
  | EGetPool r _ _ => Some r
  | _ => None
  end.

Theorem get_shape : forall st c size choice r,
  got (snd (get st c size choice)) = Some r ->
  0 < size /\ rlen r = size /\ size <= rcap r /\
  (size <= MaxInt32 -> exists i, 0 <= i <= 31 /\ rcap r = 2^i /\ forall j, 0 <= j -> size <= 2^j -> i <= j) /\
  (MaxInt32 < size -> rcap r = size) /\
  (inv st -> 0 <= roff r /\ in_alloc (fst (get st c size choice)) (region_iv r)).
Proof.
  intros st c size choice r. unfold get.
  destruct (Z.leb_spec size 0) as [|Hpos]; [discriminate|].
  destruct (Z.gtb_spec size MaxInt32) as [Hbig|Hsmall].
  - cbn. intros [= <-]. cbn. splits; try lia.
    intros _. split; [lia|]. exists size. cbn. split; [left; reflexivity|lia].
  - assert (Hs : 1 <= size <= 2147483647) by (rewrite maxint32 in Hsmall; lia).
    destruct (bs_index_spec size Hs) as (i & Hi & Hr & Hle & Hmin). rewrite Hi.
    destruct ((i <? 0) || (32 <=? i)) eqn:Eb; [lia|].
    destruct (choice <? 0).
    + cbn. intros [= <-]. cbn. rewrite shiftl1 by lia. splits; try lia.
      * intros _. exists i. splits; auto; lia.
      * intros _. split; [lia|]. exists (2^i). cbn. split; [left; reflexivity|lia].
    + destruct (take_entry choice (entries st)) as [[e rest]|] eqn:Et; [|discriminate].
      destruct (Z.eqb_spec (ecls e) i) as [Hc|]; [|discriminate].
      cbn. intros [= <-]. cbn. rewrite shiftl1 by lia.
      destruct (take_entry_spec _ _ _ _ Et) as (_ & Hin & _).
      splits; try lia.
      * intros _. exists i. splits; auto; lia.
      * intros I. destruct (inv_ent st I e Hin) as ((s & Ha & Hb) & _).
        cbn in *. rewrite Hc, shiftl1 in Hb by lia. split; [lia|].
        exists s. cbn. split; [assumption|lia].
Qed.

Lemma get_nil st c size choice : size <= 0 -> get st c size choice = (st, EGetNil).
Proof. intros H. unfold get. destruct (Z.leb_spec size 0); [reflexivity|lia]. Qed.

(* ------------------------------------------------------------------ *)
(* what sits in the pool came from a Put and is handed out at most once
   (no discipline assumed) *)

Definition entry_ok (st : state) (e : entry) : Prop :=
  eid e = rid (edon e) /\ eoff e = roff (edon e) /\ 0 <= ecls e <= 31 /\
  (0 <= rcap (edon e) -> 2^(ecls e) <= rcap (edon e)) /\ eser e < nput st.

Record don (st : state) : Prop := mkDon {
  don_ok : forall e, In e (entries st) -> entry_ok st e;
  don_nodup : NoDup (map eser (entries st))
}.

Lemma take_entry_nodup ser l e rest : NoDup (map eser l) -> take_entry ser l = Some (e, rest) ->
  ~ In (eser e) (map eser rest) /\ NoDup (map eser rest).
Proof.
  revert rest. induction l as [|a l IH]; cbn [take_entry]; intros rest Hnd H; [discriminate|].
  cbn [map] in Hnd. apply NoDup_cons_iff in Hnd. destruct Hnd as [Hna Hnd].
  destruct (Z.eqb_spec (eser a) ser).
  - injection H as <- <-. auto.
  - destruct (take_entry ser l) as [[x r]|] eqn:Et; [|discriminate].
    injection H as <- <-. destruct (IH r Hnd eq_refl) as [H1 H2].
    destruct (take_entry_spec _ _ _ _ Et) as (Hs & Hin & Hsub & _).
    split.
    + cbn [map]. intros [Heq|Hi]; [|contradiction].
      apply Hna. rewrite Heq. apply in_map. assumption.
    + cbn [map]. apply NoDup_cons; [|assumption].
      intros Hi. apply Hna. apply in_map_iff in Hi. destruct Hi as (y & Hy & Hyin).
      apply in_map_iff. exists y. auto.
Qed.

Lemma NoDup_snoc {A} (l : list A) a : NoDup l -> ~ In a l -> NoDup (l ++ [a]).
Proof.
  induction l as [|b l IH]; intros Hnd Hni; cbn [app].
  - constructor; [intros []|constructor].
  - apply NoDup_cons_iff in Hnd. destruct Hnd as [Hb Hnd]. apply NoDup_cons.
    + intros Hi. apply in_app_or in Hi. destruct Hi as [Hi|[->|[]]]; [contradiction|].
      apply Hni. left; reflexivity.
    + apply IH; [assumption|]. intros Hi. apply Hni. right; assumption.
Qed.

Lemma don_init : don init.
Proof. constructor; cbn; [contradiction|constructor]. Qed.

Lemma entry_ok_nput st st' e : nput st <= nput st' -> entry_ok st e -> entry_ok st' e.
Proof. unfold entry_ok. intros. splits; try tauto. lia. Qed.

Lemma step_don st o : don st -> don (fst (step st o)) /\ nput st <= nput (fst (step st o)).
Proof.
  intros [Hok Hnd]. destruct o as [c size choice|c r|keep|c len cap|c r]; cbn [step].
  - unfold get.
    destruct (size <=? 0); [split; [constructor; assumption|cbn; lia]|].
    destruct (size >? MaxInt32); [split; [constructor; assumption|cbn; lia]|].
    destruct (bs_index size) as [idx|]; [|split; [constructor; assumption|cbn; lia]].
    destruct ((idx <? 0) || (32 <=? idx)); [split; [constructor; assumption|cbn; lia]|].
    destruct (choice <? 0); [split; [constructor; assumption|cbn; lia]|].
    destruct (take_entry choice (entries st)) as [[e rest]|] eqn:Et; [|split; [constructor; assumption|cbn; lia]].
    destruct (ecls e =? idx); [|split; [constructor; assumption|cbn; lia]].
    destruct (take_entry_spec _ _ _ _ Et) as (_ & _ & Hsub & _).
    destruct (take_entry_nodup _ _ _ _ Hnd Et) as [_ Hnd'].
    cbn [fst]. split; [|cbn; lia]. constructor; cbn [entries]; [|assumption].
    intros e' He'. apply (Hok e' (Hsub e' He')).
  - unfold put.
    assert (Hb : don (bump st)).
    { constructor; cbn [bump entries]; [|assumption].
      intros e He. eapply entry_ok_nput; [|apply Hok; assumption]. cbn. lia. }
    destruct (put_noop r) eqn:En; [split; [assumption|cbn; lia]|].
    destruct (put_idx (rcap r)) as [idx|] eqn:Ep; [|split; [assumption|cbn; lia]].
    destruct ((idx <? 0) || (32 <=? idx)) eqn:Eb; [split; [assumption|cbn; lia]|].
    assert (Hne : forall led, don (mkState (allocs st) (next_id st)
                     (entries st ++ [mkEntry idx (rid r) (roff r) (nput st) r]) led (nput st + 1))).
    { intros led. constructor; cbn [entries nput].
      - intros e He. apply in_app_or in He. destruct He as [He|[<-|[]]].
        + eapply entry_ok_nput; [|apply Hok; assumption]. cbn. lia.
        + unfold entry_ok; cbn.
          splits; try lia. intros Hnn.
          assert (Hc : 1 <= rcap r <= MaxInt32) by (unfold put_noop in En; lia).
          destruct (put_idx_spec (rcap r) Hc) as (i & Hi & Hir & Hle).
          rewrite Hi in Ep. injection Ep as <-. lia.
      - rewrite map_app. cbn [map eser].
        apply NoDup_snoc; [assumption|].
        intros Hi. apply in_map_iff in Hi. destruct Hi as (y & Hy & Hyin).
        destruct (Hok y Hyin) as (_ & _ & _ & _ & Hlt). lia. }
    destruct (release c (region_iv r) (ledger st)); (split; [apply Hne|cbn; lia]).
  - split; [|cbn; lia]. constructor; cbn [gc entries].
    + intros e He. apply filter_In in He. destruct He as [He _]. apply (Hok e He).
    + clear Hok. induction (entries st) as [|a l IH]; cbn [filter map]; [constructor|].
      cbn [map] in Hnd. apply NoDup_cons_iff in Hnd. destruct Hnd as [Hna Hnd].
      destruct (existsb (Z.eqb (eser a)) keep); [|apply IH; assumption].
      cbn [map]. apply NoDup_cons; [|apply IH; assumption].
      intros Hi. apply Hna. apply in_map_iff in Hi. destruct Hi as (y & Hy & Hyin).
      apply filter_In in Hyin. apply in_map_iff. exists y. tauto.
  - unfold mk. destruct ((0 <=? len) && (len <=? cap)); (split; [constructor; assumption|cbn; lia]).
  - split; [constructor; assumption|lia].
Qed.
