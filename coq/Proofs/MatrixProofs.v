(* Proofs about the compacting matrix registry (conn_matrix.go model):
   the representation invariant is preserved by addConn / delConn, lookups
   are those of a finite map (relocation is invisible), iteration visits every
   live connection once, and the shutdown iteration empties the matrix. *)
From Coq Require Import Lia ZArith ZifyBool Permutation.
From GV Require Import Lib.Trace Spec.FinMap Model.Registry Proofs.ZMapFacts.
Open Scope Z_scope.
Open Scope list_scope.

Ltac splits := repeat match goal with |- _ /\ _ => split end.

(* ------------------------------------------------------------------ *)
(* views of the primitive state updates                                 *)

Lemma cnt_inc_count : forall st r d r',
  cnt (inc_count st r d) r' = if r' =? r then cnt st r + d else cnt st r'.
Proof.
  intros. unfold cnt, inc_count, set_counts; cbn. rewrite zget_zset.
  destruct (Z.eqb_spec r' r); subst; reflexivity.
Qed.
Lemma cell_inc_count : forall st r d r' c', cell (inc_count st r d) r' c' = cell st r' c'.
Proof. reflexivity. Qed.
Lemma nil_inc_count : forall st r d r', row_nil (inc_count st r d) r' = row_nil st r'.
Proof. reflexivity. Qed.

Lemma cnt_set_f2g : forall st x r, cnt (set_f2g st x) r = cnt st r. Proof. reflexivity. Qed.
Lemma cell_set_f2g : forall st x r c, cell (set_f2g st x) r c = cell st r c. Proof. reflexivity. Qed.
Lemma nil_set_f2g : forall st x r, row_nil (set_f2g st x) r = row_nil st r. Proof. reflexivity. Qed.

Lemma cnt_set_heap : forall st x r, cnt (set_heap st x) r = cnt st r. Proof. reflexivity. Qed.
Lemma cell_set_heap : forall st x r c, cell (set_heap st x) r c = cell st r c. Proof. reflexivity. Qed.
Lemma nil_set_heap : forall st x r, row_nil (set_heap st x) r = row_nil st r. Proof. reflexivity. Qed.

Lemma cnt_set_next : forall st a b r, cnt (set_next st a b) r = cnt st r. Proof. reflexivity. Qed.
Lemma cell_set_next : forall st a b r c, cell (set_next st a b) r c = cell st r c. Proof. reflexivity. Qed.
Lemma nil_set_next : forall st a b r, row_nil (set_next st a b) r = row_nil st r. Proof. reflexivity. Qed.

Lemma cnt_set_dc : forall st b r, cnt (set_dc st b) r = cnt st r. Proof. reflexivity. Qed.
Lemma cell_set_dc : forall st b r c, cell (set_dc st b) r c = cell st r c. Proof. reflexivity. Qed.
Lemma nil_set_dc : forall st b r, row_nil (set_dc st b) r = row_nil st r. Proof. reflexivity. Qed.

Lemma cnt_release_row : forall st r r', cnt (release_row st r) r' = cnt st r'. Proof. reflexivity. Qed.
Lemma cell_release_row : forall st r r' c',
  cell (release_row st r) r' c' = if r' =? r then None else cell st r' c'.
Proof.
  intros. unfold cell, release_row, set_table; cbn. rewrite zget_zdel.
  destruct (r' =? r); reflexivity.
Qed.
Lemma nil_release_row : forall st r r',
  row_nil (release_row st r) r' = if r' =? r then true else row_nil st r'.
Proof.
  intros. unfold row_nil, release_row, set_table; cbn. rewrite zget_zdel.
  destruct (r' =? r); reflexivity.
Qed.

Lemma cnt_set_table : forall st x r, cnt (set_table st x) r = cnt st r. Proof. reflexivity. Qed.

(* everything but the table is the same *)
Definition frame_table (st st' : matst) : Prop :=
  m_dc st' = m_dc st /\ m_counts st' = m_counts st /\ m_row st' = m_row st /\
  m_col st' = m_col st /\ m_f2g st' = m_f2g st /\ m_heap st' = m_heap st.

Lemma frame_table_cnt : forall st st' r, frame_table st st' -> cnt st' r = cnt st r.
Proof. intros st st' r (_ & H & _). unfold cnt. rewrite H. reflexivity. Qed.

Lemma set_cell_ret : forall st r c v,
  row_nil st r = false ->
  exists st', set_cell st r c v = Ret st' /\ frame_table st st' /\
    (forall r' c', cell st' r' c' = if (r' =? r) && (c' =? c) then v else cell st r' c') /\
    (forall r', row_nil st' r' = row_nil st r').
Proof.
  intros st r c v H. unfold row_nil in H. unfold set_cell.
  destruct (zget (m_table st) r) as [rowm|] eqn:E; [|discriminate].
  eexists. split; [reflexivity|]. split; [repeat split|]. split.
  - intros r' c'. unfold cell, set_table; cbn. rewrite zget_zset.
    destruct (Z.eqb_spec r' r) as [->|N]; cbn.
    + rewrite E. destruct v; [rewrite zget_zset|rewrite zget_zdel]; destruct (c' =? c); reflexivity.
    + reflexivity.
  - intros r'. unfold row_nil, set_table; cbn. rewrite zget_zset.
    destruct (Z.eqb_spec r' r) as [->|N]; [rewrite E|]; reflexivity.
Qed.

Lemma set_cell_panic : forall st r c v, row_nil st r = true -> set_cell st r c v = Panic.
Proof.
  intros st r c v H. unfold row_nil in H. unfold set_cell.
  destruct (zget (m_table st) r); [discriminate|reflexivity].
Qed.

(* allocation of a row slice *)
Lemma cell_alloc : forall st r r' c',
  row_nil st r = true ->
  cell (set_table st (zset (m_table st) r zempty)) r' c' = cell st r' c'.
Proof.
  intros st r r' c' H. unfold cell, set_table; cbn. rewrite zget_zset.
  destruct (Z.eqb_spec r' r) as [->|N]; [|reflexivity].
  unfold row_nil in H. destruct (zget (m_table st) r); [discriminate|]. apply zget_zempty.
Qed.
Lemma nil_alloc : forall st r r',
  row_nil (set_table st (zset (m_table st) r zempty)) r' = if r' =? r then false else row_nil st r'.
Proof.
  intros. unfold row_nil, set_table; cbn. rewrite zget_zset. destruct (r' =? r); reflexivity.
Qed.

Global Hint Rewrite cnt_inc_count cell_inc_count nil_inc_count cnt_set_f2g cell_set_f2g nil_set_f2g
  cnt_set_heap cell_set_heap nil_set_heap cnt_set_next cell_set_next nil_set_next
  cnt_set_dc cell_set_dc nil_set_dc cnt_release_row cell_release_row nil_release_row
  cnt_set_table nil_alloc : mxv.

Ltac fields :=
  cbn [m_dc m_counts m_row m_col m_table m_f2g m_heap
       set_dc set_next set_counts set_table set_f2g set_heap inc_count release_row] in *.
