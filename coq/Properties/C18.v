(* C18 -- an I/O failure on one connection stays on that connection.
   Statements only; proofs in Proofs/LoopFault.v (and the files of C01/C02/C04/C07, whose
   theorems quantify over every input stream, fault results included). *)
From GV Require Import Lib.Trace Model.Loop Spec.LoopSpec Proofs.LoopFault.
Open Scope Z_scope.

Theorem C18_fault_handling : forall i t, run_history i = Some t -> fault_ok t = true.
Proof. exact fault_holds. Qed.
Print Assumptions C18_fault_handling.

(* the loop keeps running: the model's run ends only when the input ends or the
   environment leaves its contract -- never because the recursion bound was too small *)
Theorem C18_engine_survives : forall i t, run_history i = Some t -> fuel_ok t = true.
Proof. exact engine_survives. Qed.
Print Assumptions C18_engine_survives.

(* Non-vacuity: a run with three fatal results (and one where the OnOpen reply cannot be written) is accepted by
   both checkers, never leaves the environment contract, and the doomed connection gets OnClose with an error. *)
Example C18_nonvacuous :
  match run_history LoopFault.fault_example with
  | Some t => (fault_ok t, fuel_ok t,
               List.length (filter (fun e => match e with EOut ("g", ASym "fail" :: _) => true | _ => false end) t),
               existsb is_desync t)
  | None => (false, false, O, true)
  end = (true, true, 3%nat, false) /\
  match run_history LoopFault.fault_example_open with
  | Some t => (fault_ok t, fuel_ok t,
               existsb (fun e => match e with EOut ("cb", [ASym "close"; AInt 0; ASym "err"]) => true | _ => false end) t,
               existsb is_desync t)
  | None => (false, false, false, true)
  end = (true, true, true, false).
Proof. split; [exact LoopFault.fault_example_runs|exact LoopFault.fault_example_open_runs]. Qed.
Print Assumptions C18_nonvacuous.
