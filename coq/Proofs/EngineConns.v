(* Accounting of connections: every connection id is, at any time, exactly one of
   not yet created / riding in a registration task / open on one loop / closed,
   and the OnOpen / OnClose events in the history say the same. *)
From GV Require Import Lib.Trace Lib.Interleave Model.Engine Proofs.EngineBase Proofs.EngineInv Proofs.EngineHist.
From Coq Require Import Lia List Bool Arith ZArith.
Import ListNotations.
Open Scope list_scope.
Open Scope Z_scope.

Fixpoint zcount (x : Z) (l : list Z) : Z :=
  match l with [] => 0 | y :: r => (if x =? y then 1 else 0) + zcount x r end.

Fixpoint qcount (cid : Z) (q : list task) : Z :=
  match q with
  | [] => 0
  | TReg c _ :: r => (if cid =? c then 1 else 0) + qcount cid r
  | _ :: r => qcount cid r
  end.

Definition zsum (f : loop -> Z) (l : list loop) : Z := fold_right (fun x a => f x + a) 0 l.

Definition nlive (s : estate) (cid : Z) : Z := zsum (fun l => zcount cid (l_conns l)) (e_loops s).
Definition npend (s : estate) (cid : Z) : Z := zsum (fun l => qcount cid (l_q l)) (e_loops s).

Definition in_range (cid n : Z) : Z := if (0 <=? cid) && (cid <? n) then 1 else 0.

Definition Inv_c (s : estate) : Prop :=
  0 <= e_next s /\
  forall cid,
  nlive s cid + npend s cid + closes cid (e_hist s) = in_range cid (e_next s) /\
  opens cid (e_hist s) = nlive s cid + closes cid (e_hist s).

(* ------------------------------------------------------------------ *)
(* list lemmas *)

Lemma zcount_nonneg : forall x l, 0 <= zcount x l.
Proof. induction l; cbn; [lia|]. destruct (x =? a); lia. Qed.

Lemma qcount_nonneg : forall x q, 0 <= qcount x q.
Proof. induction q as [|t r IH]; cbn; [lia|]. destruct t; try lia. destruct (x =? cid); lia. Qed.

Lemma zcount_app : forall x a b, zcount x (a ++ b) = zcount x a + zcount x b.
Proof. induction a; intros; cbn; [lia|]. rewrite IHa. lia. Qed.

Lemma zcount_zremove : forall x y l, zcount x (zremove y l) = if x =? y then 0 else zcount x l.
Proof.
  induction l as [|z r IH]; cbn; [destruct (x =? y); reflexivity|].
  destruct (y =? z) eqn:Eyz.
  - rewrite IH. destruct (x =? y) eqn:Exy; [reflexivity|].
    apply Z.eqb_eq in Eyz. subst z. rewrite Exy. lia.
  - cbn. rewrite IH. destruct (x =? y) eqn:Exy; [|reflexivity].
    apply Z.eqb_eq in Exy. subst y. rewrite Eyz. lia.
Qed.

Lemma zmem_zcount : forall x l, zmem x l = true -> 1 <= zcount x l.
Proof.
  induction l as [|y r IH]; cbn; [discriminate|]. intros H. apply orb_prop in H.
  pose proof (zcount_nonneg x r). destruct (x =? y); [lia|]. destruct H as [H|H]; [discriminate|]. specialize (IH H). lia.
Qed.

Lemma qcount_app : forall x a b, qcount x (a ++ b) = qcount x a + qcount x b.
Proof.
  induction a as [|t r IH]; intros; cbn; [lia|]. destruct t; rewrite IH; lia.
Qed.

Definition treg_is (x : Z) (t : task) : Z := match t with TReg c _ => if x =? c then 1 else 0 | _ => 0 end.

Lemma qcount_remove_nth : forall x q k t, nth_error q k = Some t ->
  qcount x (remove_nth k q) = qcount x q - treg_is x t.
Proof.
  induction q as [|u r IH]; intros [|k] t H; cbn in *; try discriminate.
  - inversion H; subst. destruct t; cbn; lia.
  - rewrite (IH _ _ H). destruct u; lia.
Qed.

Lemma zsum_nonneg : forall f l, (forall x, 0 <= f x) -> 0 <= zsum f l.
Proof. intros f l H. unfold zsum. induction l; cbn; [lia|]. specialize (H a). lia. Qed.

Lemma zsum_upd : forall f g l n x, nth_error l n = Some x ->
  zsum f (upd n g l) = zsum f l - f x + f (g x).
Proof.
  unfold zsum. induction l as [|y r IH]; intros [|n] x H; cbn in *; try discriminate.
  - inversion H; subst. lia.
  - rewrite (IH _ _ H). lia.
Qed.

Lemma zsum_upd_none : forall f g l n, nth_error l n = None -> zsum f (upd n g l) = zsum f l.
Proof. intros. rewrite upd_none; auto. Qed.

Lemma zsum_map : forall f g l, (forall x, f (g x) = f x) -> zsum f (map g l) = zsum f l.
Proof. intros f g l H. unfold zsum. induction l as [|y r IH]; cbn; [reflexivity|]. rewrite H, IH. reflexivity. Qed.

Lemma zsum_ge_nth : forall f l n x, (forall y, 0 <= f y) -> nth_error l n = Some x -> f x <= zsum f l.
Proof.
  induction l as [|y r IH]; intros [|n] x Hf H; cbn in *; try discriminate.
  - inversion H; subst. pose proof (zsum_nonneg f r Hf). unfold zsum in *. lia.
  - specialize (IH _ _ Hf H). specialize (Hf y). unfold zsum in *. lia.
Qed.

(* counts of events in a list *)
Lemma opens_app : forall c a b, opens c (a ++ b) = opens c a + opens c b.
Proof. intros. apply count_kind_app. Qed.
Lemma closes_app : forall c a b, closes c (a ++ b) = closes c a + closes c b.
Proof. intros. apply count_kind_app. Qed.
Lemma opens_rev : forall c a, opens c (rev a) = opens c a.
Proof. intros. apply count_kind_rev. Qed.
Lemma closes_rev : forall c a, closes c (rev a) = closes c a.
Proof. intros. apply count_kind_rev. Qed.

Arguments zsum : simpl never.

(* ------------------------------------------------------------------ *)
(* consequences of the invariant *)

Lemma nlive_nonneg : forall s c, 0 <= nlive s c.
Proof. intros. apply zsum_nonneg. intros. apply zcount_nonneg. Qed.
Lemma npend_nonneg : forall s c, 0 <= npend s c.
Proof. intros. apply zsum_nonneg. intros. apply qcount_nonneg. Qed.
Lemma closes_nonneg : forall c h, 0 <= closes c h.
Proof. intros. apply count_kind_nonneg. Qed.

Ltac zb :=
  repeat match goal with
  | |- context [Z.eqb ?a ?b] => destruct (Z.eqb_spec a b); subst
  | |- context [Z.ltb ?a ?b] => destruct (Z.ltb_spec a b)
  | |- context [Z.leb ?a ?b] => destruct (Z.leb_spec a b)
  | H : context [Z.eqb ?a ?b] |- _ => destruct (Z.eqb_spec a b); subst
  | H : context [Z.ltb ?a ?b] |- _ => destruct (Z.ltb_spec a b)
  | H : context [Z.leb ?a ?b] |- _ => destruct (Z.leb_spec a b)
  end; cbn [andb] in *.

Lemma inv_c_fresh : forall s cid, Inv_c s -> e_next s <= cid ->
  nlive s cid = 0 /\ npend s cid = 0 /\ closes cid (e_hist s) = 0 /\ opens cid (e_hist s) = 0.
Proof.
  intros s cid [Hn H] Hc. destruct (H cid) as [H1 H2]. unfold in_range in H1.
  pose proof (nlive_nonneg s cid). pose proof (npend_nonneg s cid). pose proof (closes_nonneg cid (e_hist s)).
  zb; lia.
Qed.

Lemma inv_c_le1 : forall s cid, Inv_c s ->
  nlive s cid + npend s cid + closes cid (e_hist s) <= 1.
Proof. intros s cid [Hn H]. destruct (H cid) as [H1 _]. rewrite H1. unfold in_range. zb; lia. Qed.

(* ------------------------------------------------------------------ *)
(* local effect of a callback *)

Lemma apply_cb_spec : forall t l cid h l2 evs d, apply_cb t l cid h = (l2, evs, d) ->
  l_q l2 = l_q l /\
  ((l_conns l2 = l_conns l /\ evs = []) \/ (l_conns l2 = zremove cid (l_conns l) /\ evs = [(t, KClose cid)])).
Proof.
  intros t l cid h l2 evs d H. unfold apply_cb in H. destruct (after_cb h) as [[cl se] off].
  injection H as <- <- <-. destruct cl, se; cbn; auto.
Qed.

(* the accounting equations for one connection id, given the change of the loop that took the step *)
Definition acct_ok (s : estate) (l l' : loop) (evs : list evt) (next' : Z) : Prop := forall cid,
  (zcount cid (l_conns l') - zcount cid (l_conns l)) + (qcount cid (l_q l') - qcount cid (l_q l)) + closes cid evs =
     in_range cid next' - in_range cid (e_next s) /\
  opens cid evs = (zcount cid (l_conns l') - zcount cid (l_conns l)) + closes cid evs.

Lemma Inv_c_replace : forall s i l l' evs next' s',
  Inv_c s -> get_loop s i = Some l -> acct_ok s l l' evs next' -> e_next s <= next' ->
  e_loops s' = upd i (fun _ => l') (e_loops s) -> e_next s' = next' -> e_hist s' = e_hist s ->
  Inv_c (push evs s').
Proof.
  intros s i l l' evs next' s' [Hn HI] Hl Ha Hle EL EN EH. split; [cbn [push set_hist e_next]; lia|]. intros cid.
  destruct (HI cid) as [H1 H2]. destruct (Ha cid) as [A1 A2].
  unfold nlive, npend in *. rewrite hist_push, EH. cbn [push set_hist e_loops e_next].
  rewrite EL, EN. unfold get_loop in Hl.
  rewrite !(zsum_upd _ _ _ _ _ Hl). rewrite opens_app, closes_app, opens_rev, closes_rev.
  split; lia.
Qed.

(* steps that touch neither connections, registration tasks, the id counter nor the events *)
Lemma Inv_c_same : forall s s' evs,
  Inv_c s -> (forall cid, nlive s' cid = nlive s cid /\ npend s' cid = npend s cid) ->
  e_next s' = e_next s -> e_hist s' = e_hist s ->
  Forall (fun e => is_loop_kind (snd e) = false) evs ->
  Inv_c (push evs s').
Proof.
  intros s s' evs [Hn0 HI] Hn EN EH He. split; [cbn [push set_hist e_next]; lia|]. intros cid.
  destruct (HI cid) as [H1 H2]. destruct (Hn cid) as [N1 N2].
  rewrite hist_push, EH. cbn [push set_hist e_next]. rewrite EN.
  assert (Ho : opens cid evs = 0).
  { apply count_kind_zero. eapply Forall_impl; [|exact He]. intros [? k]; cbn. destruct k; auto; discriminate. }
  assert (Hc : closes cid evs = 0).
  { apply count_kind_zero. eapply Forall_impl; [|exact He]. intros [? k]; cbn. destruct k; auto; discriminate. }
  rewrite opens_app, closes_app, opens_rev, closes_rev, Ho, Hc.
  assert (nlive (push evs s') cid = nlive s' cid) by reflexivity.
  assert (npend (push evs s') cid = npend s' cid) by reflexivity.
  split; lia.
Qed.

Lemma loop_bounds : forall s i l, Inv_c s -> get_loop s i = Some l -> forall cid,
  0 <= zcount cid (l_conns l) /\ 0 <= qcount cid (l_q l) /\
  zcount cid (l_conns l) + qcount cid (l_q l) <= 1 /\
  (e_next s <= cid -> zcount cid (l_conns l) = 0 /\ qcount cid (l_q l) = 0) /\ 0 <= e_next s.
Proof.
  intros s i l HI Hl cid. unfold get_loop in Hl.
  pose proof (zcount_nonneg cid (l_conns l)). pose proof (qcount_nonneg cid (l_q l)).
  pose proof (zsum_ge_nth (fun l => zcount cid (l_conns l)) _ _ _ (fun y => zcount_nonneg cid (l_conns y)) Hl) as H1.
  pose proof (zsum_ge_nth (fun l => qcount cid (l_q l)) _ _ _ (fun y => qcount_nonneg cid (l_q y)) Hl) as H2.
  fold (nlive s cid) in H1. fold (npend s cid) in H2. cbn beta in H1, H2.
  pose proof (inv_c_le1 s cid HI). pose proof (closes_nonneg cid (e_hist s)).
  splits; try lia; [|destruct HI; lia]. intros Hc. destruct (inv_c_fresh s cid HI Hc) as [F1 [F2 _]]. lia.
Qed.

Lemma qcount_nth_ge : forall q k c o, nth_error q k = Some (TReg c o) -> 1 <= qcount c q.
Proof.
  induction q as [|t r IH]; intros [|k] c o H; cbn in *; try discriminate.
  - inversion H; subst. rewrite Z.eqb_refl. pose proof (qcount_nonneg c r). lia.
  - specialize (IH _ _ _ H). destruct t; try lia. pose proof (qcount_nonneg c r). destruct (c =? cid); lia.
Qed.

Ltac acct_rw :=
  repeat match goal with
  | H : l_conns ?x = _ |- _ => is_var x; progress (rewrite H in * )
  | H : l_q ?x = _ |- _ => is_var x; progress (rewrite H in * )
  end;
  cbn [l_conns l_q l_pc l_set_conns l_set_q l_set_pc enq_loop] in *.

Ltac acct :=
  let cid := fresh "cid" in
  intros cid;
  try match goal with E : nth_error _ _ = Some (TReg _ _) |- _ => pose proof (qcount_nth_ge _ _ _ _ E) end;
  match goal with HB : forall c, 0 <= zcount c _ /\ _ |- _ => destruct (HB cid) as (?&?&?&?&?) end;
  acct_rw; acct_rw;
  try match goal with QR : forall x, qcount x (remove_nth _ _) = _ |- _ => rewrite ?QR end;
  repeat (rewrite zcount_app || rewrite zcount_zremove || rewrite qcount_app);
  unfold in_range;
  cbn [zcount qcount treg_is opens closes count_kind fst snd] in *;
  split; zb; try lia.

Lemma lstep_conns : forall i s c s' evs, Inv_c s -> lstep i s c = Some (s', evs) -> Inv_c (push evs s').
Proof.
  intros i s c s' evs HI H. unfold lstep in H.
  destruct (get_loop s i) as [l|] eqn:Hl; [|discriminate H].
  pose proof (loop_bounds _ _ _ HI Hl) as HB.
  destruct (l_pc l) eqn:Epc.
  2: destruct c as [| | | | |io|k h| | | | | | |]; try (destruct io).
  all: step_cases H.
  all: try match goal with E : apply_cb _ _ _ _ = _ |- _ =>
         apply apply_cb_spec in E; cbn [l_conns l_q l_set_conns l_set_q] in E; destruct E as [Eq [[Ec ->]|[Ec ->]]] end.
  all: try match goal with E : loop_common _ _ _ = Some _ |- _ => unfold loop_common in E; rewrite Epc in E; step_cases E end.
  all: try match goal with E : zmem _ _ = true |- _ => apply zmem_zcount in E end.
  all: try match goal with E : nth_error (l_q _) ?k = Some _ |- _ => pose proof (qcount_remove_nth) as QR; specialize (fun x => QR x _ _ _ E) end.
  all: try match goal with |- context [if act_shut ?a then _ else _] => destruct (act_shut a) end.
  all: eapply Inv_c_replace; [exact HI|exact Hl| | |frame_fin|frame_fin|frame_fin]; [|lia].
  all: acct.
Qed.

Lemma upd_const : forall A (f : A -> A) l n x, nth_error l n = Some x -> upd n f l = upd n (fun _ => f x) l.
Proof.
  induction l as [|y r IH]; intros [|n] x H; cbn in *; try discriminate.
  - inversion H; reflexivity.
  - f_equal. apply IH; exact H.
Qed.

Lemma nlive_upd_q : forall s i f cid, (forall l, l_conns (f l) = l_conns l) ->
  zsum (fun l => zcount cid (l_conns l)) (upd i f (e_loops s)) = nlive s cid.
Proof.
  intros s i f cid Hf. unfold nlive. destruct (nth_error (e_loops s) i) as [x|] eqn:E.
  - rewrite (zsum_upd _ _ _ _ _ E), Hf. lia.
  - rewrite upd_none; auto.
Qed.

Lemma npend_upd_enq : forall s i t cid, (forall c, treg_is c t = 0) ->
  zsum (fun l => qcount cid (l_q l)) (upd i (fun l => enq_loop l t) (e_loops s)) = npend s cid.
Proof.
  intros s i t cid Ht. unfold npend. destruct (nth_error (e_loops s) i) as [x|] eqn:E.
  - rewrite (zsum_upd _ _ _ _ _ E). cbn. rewrite qcount_app. cbn.
    specialize (Ht cid). destruct t; cbn in *; lia.
  - rewrite upd_none; auto.
Qed.

Lemma Inv_c_trigger_reg : forall s li o s' evs,
  Inv_c s -> get_loop s li <> None ->
  e_loops s' = e_loops (trigger s li (TReg (e_next s) o)) -> e_next s' = e_next s + 1 -> e_hist s' = e_hist s ->
  Forall (fun e => is_loop_kind (snd e) = false) evs ->
  Inv_c (push evs s').
Proof.
  intros s li o s' evs HI Hl EL EN EH He.
  destruct (get_loop s li) as [l|] eqn:Hg; [|congruence].
  pose proof (loop_bounds _ _ _ HI Hg) as HB.
  assert (Ho : forall cid, opens cid evs = 0).
  { intros. apply count_kind_zero. eapply Forall_impl; [|exact He]. intros [? k]; cbn. destruct k; auto; discriminate. }
  assert (Hc : forall cid, closes cid evs = 0).
  { intros. apply count_kind_zero. eapply Forall_impl; [|exact He]. intros [? k]; cbn. destruct k; auto; discriminate. }
  eapply Inv_c_replace with (l' := enq_loop l (TReg (e_next s) o)); [exact HI|exact Hg| | |..]; auto; try lia.
  - intros cid. destruct (HB cid) as (?&?&?&?&?). rewrite Ho, Hc. cbn. rewrite qcount_app. cbn. unfold in_range. split; zb; lia.
  - rewrite EL. cbn. unfold get_loop in Hg. exact (upd_const _ (fun l => enq_loop l (TReg (e_next s) o)) _ _ _ Hg).
Qed.

Arguments upd : simpl never.

Ltac same_counts :=
  intros; split; unfold nlive, npend; cbn [e_loops set_loops trigger trigger_ing set_ing set_r set_t set_cancel set_insd set_inall
     set_started set_alloc set_users set_workers set_next put_user new_worker];
  frame_fin;
  try (rewrite zsum_map; [reflexivity|intros; reflexivity]);
  try (apply nlive_upd_q; intros; reflexivity);
  try (apply npend_upd_enq; intros; reflexivity).

Ltac by_same HI := eapply Inv_c_same; [exact HI|same_counts|frame_fin|frame_fin|repeat constructor].

Lemma rstep_conns : forall s c s' evs, Inv_c s -> rstep s c = Some (s', evs) -> Inv_c (push evs s').
Proof.
  intros s c s' evs HI H. unfold rstep in H.
  destruct (e_r s) eqn:Er; destruct c; try discriminate H; cbv beta iota in H; step_cases H.
  all: by_same HI.
Qed.

Lemma astep_conns : forall s c s' evs, l_conns (e_ing s) = [] -> Inv_c s -> astep s c = Some (s', evs) -> Inv_c (push evs s').
Proof.
  intros s c s' evs Hic HI H. pose proof (astep_events _ _ _ _ Hic H) as He.
  unfold astep in H.
  destruct (l_pc (e_ing s)) eqn:Epc.
  2: destruct c as [| | |li| | |k h| | | | | | |].
  all: step_cases H.
  all: try subst.
  all: try solve [by_same HI].
  eapply Inv_c_trigger_reg; [exact HI| |reflexivity|reflexivity|reflexivity|constructor]. congruence.
Qed.

Lemma tstep_conns : forall s c s' evs, Inv_c s -> tstep s c = Some (s', evs) -> Inv_c (push evs s').
Proof.
  intros s c s' evs HI H. unfold tstep in H. step_cases H.
  all: by_same HI.
Qed.

Lemma wstep_conns : forall k s c s' evs, Inv_c s -> wstep k s c = Some (s', evs) -> Inv_c (push evs s').
Proof.
  intros k s c s' evs HI H. unfold wstep in H. step_cases H.
  all: try solve [by_same HI].
  all: eapply Inv_c_trigger_reg; [exact HI| |reflexivity|reflexivity|reflexivity|repeat constructor].
  all: congruence.
Qed.

Lemma ustep_conns : forall g s c s' evs, Inv_c s -> ustep g s c = Some (s', evs) -> Inv_c (push evs s').
Proof.
  intros g s c s' evs HI H. unfold ustep in H.
  destruct (get_user s g) as [u|] eqn:Hu; [|discriminate H].
  destruct u as [|ex pk|op].
  - destruct c; try discriminate H. unfold do_call in H. destruct c; step_cases H.
    all: try solve [by_same HI].
    all: eapply Inv_c_trigger_reg; [exact HI| |reflexivity|reflexivity|reflexivity|repeat constructor]; congruence.
  - destruct c; try discriminate H; step_cases H.
    all: by_same HI.
  - step_cases H. by_same HI.
Qed.

Lemma Inv_c_init : forall cfg nu, Inv_c (einit cfg nu).
Proof.
  intros cfg nu. split; [cbn; lia|]. intros cid. unfold nlive, npend, in_range. cbn.
  assert (forall f, f new_loop = 0 -> zsum f (repeat new_loop (c_nloops cfg)) = 0) as Hz.
  { intros f Hf. unfold zsum. induction (c_nloops cfg); cbn; [reflexivity|]. rewrite IHn, Hf; reflexivity. }
  rewrite !Hz by reflexivity. split; zb; lia.
Qed.

Theorem inv_c_reachable : forall s, ereachable s -> Inv_c s.
Proof.
  intros s Hr. assert (Inv_pc s /\ Inv_c s) as [_ H]; [|exact H].
  revert s Hr. apply engine_invariant.
  - intros. split; [apply Inv_pc_init|apply Inv_c_init].
  - intros s t c s' evs Hr [HP HC] H. split.
    + apply (inv_pc_reachable _ (ereachable_step _ _ _ _ _ Hr H)).
    + destruct t; cbn in H.
      * eapply rstep_conns; eauto.
      * eapply lstep_conns; eauto.
      * eapply astep_conns; eauto. apply (ip_ing_conns _ HP).
      * eapply tstep_conns; eauto.
      * eapply ustep_conns; eauto.
      * eapply wstep_conns; eauto.
Qed.
