(* Model of /repo/pkg/buffer/ring/ring_buffer.go (C09), transcribed branch by
   branch.  Bytes are Z in [0,256), sizes and cursors are Z.  Every Go slice
   expression / index is bounds-checked into [Panic] (upper bounds are checked
   against len(buf); Go checks slice upper bounds against cap(buf) >= len(buf),
   so the model panics whenever Go does).  Go's [%] is [Z.rem].
   The byteslice pool hands out a slice of exactly the requested length
   (capacity rounded up to the size class), whose stale content is never
   observable: the model fills it with zeros.  No proofs here. *)
From GV Require Export Lib.Trace Model.Arith Spec.Fifo.
Open Scope Z_scope.

Definition MinRead : Z := 512.
Definition DefaultBufferSize : Z := 1024.
Definition bufferGrowThreshold : Z := 4096.

Inductive err := ENil | EEmpty | EShort | EEof | EErr.

Record ring := mkRing { buf : list Z; size : Z; r : Z; w : Z; is_empty : bool }.

Definition set_r (rb : ring) (x : Z) : ring := mkRing (buf rb) (size rb) x (w rb) (is_empty rb).
Definition set_w (rb : ring) (x : Z) : ring := mkRing (buf rb) (size rb) (r rb) x (is_empty rb).
Definition set_buf (rb : ring) (b : list Z) : ring := mkRing b (size rb) (r rb) (w rb) (is_empty rb).
Definition set_nonempty (rb : ring) : ring := mkRing (buf rb) (size rb) (r rb) (w rb) false.

(* ---- Go slices ---- *)
(* l[lo:hi] *)
Definition slice (l : list Z) (lo hi : Z) : outcome (list Z) :=
  if (0 <=? lo) && (lo <=? hi) && (hi <=? zlen l) then Ret (ztake (hi - lo) (zdrop lo l)) else Panic.
(* l[i] *)
Definition index (l : list Z) (i : Z) : outcome Z :=
  if (0 <=? i) && (i <? zlen l) then Ret (znth i l) else Panic.
(* copy(l[lo:hi], src): the new l and the number of bytes copied *)
Definition copy_at (l : list Z) (lo hi : Z) (src : list Z) : outcome (list Z * Z) :=
  if (0 <=? lo) && (lo <=? hi) && (hi <=? zlen l) then
    let d := ztake (hi - lo) src in
    Ret (ztake lo l ++ d ++ zdrop (lo + zlen d) l, zlen d)
  else Panic.
(* a % b *)
Definition gorem (a b : Z) : outcome Z := if b =? 0 then Panic else Ret (Z.rem a b).

Definition zeros (n : Z) : list Z := repeat 0 (Z.to_nat n).

(* ---- New ---- *)
Definition New (n : Z) : outcome ring :=
  if n =? 0 then Ret (mkRing [] 0 0 0 true) else
  obind (CeilToPowerOfTwo n) (fun sz => Ret (mkRing (zeros sz) sz 0 0 true)).

(* ---- Reset ---- *)
Definition Reset (rb : ring) : ring := mkRing (buf rb) (size rb) 0 0 true.

(* ---- accessors ---- *)
Definition Buffered (rb : ring) : Z :=
  if r rb =? w rb then (if is_empty rb then 0 else size rb)
  else if w rb >? r rb then w rb - r rb
  else size rb - r rb + w rb.

Definition Available (rb : ring) : Z :=
  if r rb =? w rb then (if is_empty rb then size rb else 0)
  else if w rb <? r rb then r rb - w rb
  else size rb - w rb + r rb.

Definition Len (rb : ring) : Z := zlen (buf rb).
Definition Cap (rb : ring) : Z := size rb.
Definition IsFull (rb : ring) : bool := (r rb =? w rb) && negb (is_empty rb).
Definition IsEmpty (rb : ring) : bool := is_empty rb.

(* ---- Peek / peekAll: (head, tail) ---- *)
Definition peekAll (rb : ring) : outcome (list Z * list Z) :=
  if is_empty rb then Ret ([], []) else
  if w rb >? r rb then obind (slice (buf rb) (r rb) (w rb)) (fun h => Ret (h, []))
  else
    obind (slice (buf rb) (r rb) (zlen (buf rb))) (fun h =>
    if negb (w rb =? 0) then obind (slice (buf rb) 0 (w rb)) (fun t => Ret (h, t))
    else Ret (h, [])).

Definition Peek (rb : ring) (n : Z) : outcome (list Z * list Z) :=
  if is_empty rb then Ret ([], []) else
  if n <=? 0 then peekAll rb else
  if w rb >? r rb then
    let m := w rb - r rb in
    let m := if m >? n then n else m in
    obind (slice (buf rb) (r rb) (r rb + m)) (fun h => Ret (h, []))
  else
    let m := size rb - r rb + w rb in
    let m := if m >? n then n else m in
    if r rb + m <=? size rb then
      obind (slice (buf rb) (r rb) (r rb + m)) (fun h => Ret (h, []))
    else
      let c1 := size rb - r rb in
      obind (slice (buf rb) (r rb) (zlen (buf rb))) (fun h =>
      let c2 := m - c1 in
      obind (slice (buf rb) 0 c2) (fun t => Ret (h, t))).

(* ---- Discard ---- *)
Definition Discard (rb : ring) (n : Z) : outcome (ring * (Z * err)) :=
  if n <=? 0 then Ret (rb, (0, ENil)) else
  let discarded := Buffered rb in
  if n <? discarded then
    obind (gorem (r rb + n) (size rb)) (fun r' => Ret (set_r rb r', (n, ENil)))
  else Ret (Reset rb, (discarded, ENil)).

(* ---- Read(p) with len p = plen: the bytes stored into p[:n], n, err ---- *)
Definition Read (rb : ring) (plen : Z) : outcome (ring * (list Z * Z * err)) :=
  if plen =? 0 then Ret (rb, ([], 0, ENil)) else
  if is_empty rb then Ret (rb, ([], 0, EEmpty)) else
  if w rb >? r rb then
    let n := w rb - r rb in
    let n := if n >? plen then plen else n in
    obind (slice (buf rb) (r rb) (r rb + n)) (fun d =>
    let rb1 := set_r rb (r rb + n) in
    let rb2 := if r rb1 =? w rb1 then Reset rb1 else rb1 in
    Ret (rb2, (d, n, ENil)))
  else
    let n := size rb - r rb + w rb in
    let n := if n >? plen then plen else n in
    obind (if r rb + n <=? size rb then slice (buf rb) (r rb) (r rb + n)
           else
             let c1 := size rb - r rb in
             obind (slice (buf rb) (r rb) (zlen (buf rb))) (fun d1 =>
             let c2 := n - c1 in
             (* copy(p, d1) and copy(p[c1:], ..) never truncate: c1 < n <= len p *)
             obind (slice (buf rb) 0 c2) (fun d2 => Ret (d1 ++ d2)))) (fun d =>
    obind (gorem (r rb + n) (size rb)) (fun r' =>
    let rb1 := set_r rb r' in
    let rb2 := if r rb1 =? w rb1 then Reset rb1 else rb1 in
    Ret (rb2, (d, n, ENil)))).

(* ---- ReadByte ---- *)
Definition ReadByte (rb : ring) : outcome (ring * (Z * err)) :=
  if is_empty rb then Ret (rb, (0, EEmpty)) else
  obind (index (buf rb) (r rb)) (fun b =>
  let rb1 := set_r rb (r rb + 1) in
  let rb2 := if r rb1 =? size rb1 then set_r rb1 0 else rb1 in
  let rb3 := if r rb2 =? w rb2 then Reset rb2 else rb2 in
  Ret (rb3, (b, ENil))).

(* ---- grow ---- *)
Fixpoint grow_loop (fuel : nat) (n newCap : Z) : Z :=
  match fuel with
  | O => n
  | S f => if (0 <? n) && (n <? newCap) then grow_loop f (n + n / 4) newCap else n
  end.
(* newCap <= 2n and n >= 4096 at the only call, so the loop body runs at most
   4 times (proved in Proofs/RingOps.v, grow_loop_spec); 8 is ample *)
Definition grow_fuel : nat := 8.

Definition grow_policy (n newCap : Z) : outcome Z :=
  if n =? 0 then
    if newCap <=? DefaultBufferSize then Ret DefaultBufferSize
    else CeilToPowerOfTwo newCap
  else
    let doubleCap := n + n in
    if newCap <=? doubleCap then
      if n <? bufferGrowThreshold then Ret doubleCap
      else
        let n' := grow_loop grow_fuel n newCap in
        if n' >? 0 then Ret n' else Ret newCap
    else Ret newCap.

(* bsPool.Get(size): length = size (nil when size <= 0) *)
Definition pool_get (sz : Z) : list Z := if sz <=? 0 then [] else zeros sz.

Definition grow (rb : ring) (newCap : Z) : outcome ring :=
  obind (grow_policy (size rb) newCap) (fun newCap =>
  let newBuf := pool_get newCap in
  let oldLen := Buffered rb in
  obind (Read rb (zlen newBuf)) (fun '(rb1, (d, _, _)) =>
  let newBuf := d ++ zdrop (zlen d) newBuf in
  let e := if oldLen >? 0 then false else is_empty rb1 in
  Ret (mkRing newBuf newCap 0 oldLen e))).

(* ---- Write / WriteString / WriteByte ---- *)
Definition Write (rb : ring) (p : list Z) : outcome (ring * (Z * err)) :=
  let n := zlen p in
  if n =? 0 then Ret (rb, (n, ENil)) else
  let free := Available rb in
  obind (if n >? free then grow rb (size rb + n - free) else Ret rb) (fun rb =>
  obind
    (if w rb >=? r rb then
       let c1 := size rb - w rb in
       if c1 >=? n then
         obind (copy_at (buf rb) (w rb) (zlen (buf rb)) p) (fun '(b, _) =>
         Ret (set_w (set_buf rb b) (w rb + n)))
       else
         obind (slice p 0 c1) (fun p1 =>
         obind (copy_at (buf rb) (w rb) (zlen (buf rb)) p1) (fun '(b, _) =>
         let c2 := n - c1 in
         obind (slice p c1 (zlen p)) (fun p2 =>
         obind (copy_at b 0 (zlen b) p2) (fun '(b, _) =>
         Ret (set_w (set_buf rb b) c2)))))
     else
       obind (copy_at (buf rb) (w rb) (zlen (buf rb)) p) (fun '(b, _) =>
       Ret (set_w (set_buf rb b) (w rb + n)))) (fun rb =>
  let rb := if w rb =? size rb then set_w rb 0 else rb in
  Ret (set_nonempty rb, (n, ENil)))).

Definition WriteString := Write.

Definition WriteByte (rb : ring) (c : Z) : outcome (ring * err) :=
  obind (if Available rb <? 1 then grow rb (size rb + 1) else Ret rb) (fun rb =>
  (* rb.buf[rb.w] = c : index check 0 <= w < len(buf) *)
  obind (copy_at (buf rb) (w rb) (w rb + 1) [c]) (fun '(b, _) =>
  let rb := set_w (set_buf rb b) (w rb + 1) in
  let rb := if w rb =? size rb then set_w rb 0 else rb in
  Ret (set_nonempty rb, ENil))).

(* ---- Bytes ---- *)
Definition Bytes (rb : ring) : outcome (list Z) :=
  if is_empty rb then Ret [] else
  if w rb =? r rb then
    obind (slice (buf rb) (r rb) (zlen (buf rb))) (fun a =>
    obind (slice (buf rb) 0 (w rb)) (fun b => Ret (a ++ b)))
  else if w rb >? r rb then slice (buf rb) (r rb) (w rb)
  else
    obind (slice (buf rb) (r rb) (zlen (buf rb))) (fun a =>
    if negb (w rb =? 0) then obind (slice (buf rb) 0 (w rb)) (fun b => Ret (a ++ b))
    else Ret a).

(* ---- scripted io.Reader ----
   state: remaining source bytes; one script entry (mx, e) answers one Read(p):
   n = min(len p, mx, len src) bytes are delivered together with e.  An
   exhausted script answers (0, EOF). *)
Definition rscript := list (Z * err).

Definition reader_read (src : list Z) (resp : Z * err) (plen : Z) : list Z * list Z * err :=
  let k := Z.min plen (Z.max 0 (fst resp)) in
  (ztake k src, zdrop k src, snd resp).

Inductive rf_res :=
| RFDone (rb : ring) (src : list Z) (n : Z) (e : err) (offered : list Z)
| RFCont (rb : ring) (src : list Z) (n : Z) (second : bool) (offered : list Z).

(* one r.Read call of ReadFrom's loop; [second] = this is the second Read of
   the [w >= r] branch; [offered] logs len(p) of every call *)
Definition rf_once (second : bool) (resp : Z * err) (src : list Z) (rb : ring) (n : Z) (offered : list Z)
  : outcome rf_res :=
  if second then
    (* m, err = r.Read(rb.buf[:rb.r]) *)
    let '(d, src', e) := reader_read src resp (r rb) in
    obind (copy_at (buf rb) 0 (r rb) d) (fun '(b, m) =>
    obind (gorem (w rb + m) (size rb)) (fun w' =>
    let rb := set_w (set_buf rb b) w' in
    let n := n + m in
    let offered := offered ++ [r rb] in
    match e with
    | EEof => Ret (RFDone rb src' n ENil offered)
    | ENil => Ret (RFCont rb src' n false offered)
    | _ => Ret (RFDone rb src' n e offered)
    end))
  else
    obind (if Available rb <? MinRead then grow rb (Buffered rb + MinRead) else Ret rb) (fun rb =>
    if w rb >=? r rb then
      (* m, err = r.Read(rb.buf[rb.w:]) *)
      let plen := zlen (buf rb) - w rb in
      let '(d, src', e) := reader_read src resp plen in
      obind (copy_at (buf rb) (w rb) (zlen (buf rb)) d) (fun '(b, m) =>
      obind (gorem (w rb + m) (size rb)) (fun w' =>
      let rb := set_buf rb b in
      let rb := if m >? 0 then set_nonempty rb else rb in
      let rb := set_w rb w' in
      let n := n + m in
      let offered := offered ++ [plen] in
      match e with
      | EEof => Ret (RFDone rb src' n ENil offered)
      | ENil => (* if rb.w != 0 { continue } : the tail is not full yet *)
          Ret (RFCont rb src' n (w rb =? 0) offered)
      | _ => Ret (RFDone rb src' n e offered)
      end))
    else
      (* m, err = r.Read(rb.buf[rb.w:rb.r]) *)
      let plen := r rb - w rb in
      let '(d, src', e) := reader_read src resp plen in
      obind (copy_at (buf rb) (w rb) (r rb) d) (fun '(b, m) =>
      obind (gorem (w rb + m) (size rb)) (fun w' =>
      let rb := set_buf rb b in
      let rb := if m >? 0 then set_nonempty rb else rb in
      let rb := set_w rb w' in
      let n := n + m in
      let offered := offered ++ [plen] in
      match e with
      | EEof => Ret (RFDone rb src' n ENil offered)
      | ENil => Ret (RFCont rb src' n false offered)
      | _ => Ret (RFDone rb src' n e offered)
      end))).

Record rf_out := mkRfOut { rf_n : Z; rf_err : err; rf_src : list Z; rf_offered : list Z }.

Fixpoint rf_loop (script : rscript) (second : bool) (src : list Z) (rb : ring) (n : Z) (offered : list Z)
  : outcome (ring * rf_out) :=
  match script with
  | [] =>
      match rf_once second (0, EEof) src rb n offered with
      | Ret (RFDone rb src n e off) => Ret (rb, mkRfOut n e src off)
      | Ret (RFCont rb src n _ off) => Ret (rb, mkRfOut n ENil src off)   (* unreachable: EOF ends the loop *)
      | Panic => Panic
      end
  | resp :: rest =>
      match rf_once second resp src rb n offered with
      | Ret (RFDone rb src n e off) => Ret (rb, mkRfOut n e src off)
      | Ret (RFCont rb src n sec off) => rf_loop rest sec src rb n off
      | Panic => Panic
      end
  end.

Definition ReadFrom (rb : ring) (src : list Z) (script : rscript) : outcome (ring * rf_out) :=
  rf_loop script false src rb 0 [].

(* ---- scripted io.Writer ----
   one script entry (k, e) answers one Write(p): the first min(len p, k) bytes
   are accepted, e is returned.  An exhausted script accepts everything. *)
Definition wscript := list (Z * err).

Definition writer_write (script : wscript) (p : list Z) : list Z * err * wscript :=
  match script with
  | [] => (p, ENil, [])
  | (k, e) :: rest => (ztake (Z.min (zlen p) (Z.max 0 k)) p, e, rest)
  end.

Record wt_out := mkWtOut { wt_n : Z; wt_err : err; wt_recv : list Z }.

Definition is_nil (e : err) : bool := match e with ENil => true | _ => false end.

Definition WriteTo (rb : ring) (script : wscript) : outcome (ring * wt_out) :=
  if is_empty rb then Ret (rb, mkWtOut 0 EEmpty []) else
  if w rb >? r rb then
    let n := w rb - r rb in
    obind (slice (buf rb) (r rb) (r rb + n)) (fun p =>
    let '(acc, e, _) := writer_write script p in
    let m := zlen acc in
    let rb := set_r rb (r rb + m) in
    let rb := if r rb =? w rb then Reset rb else rb in
    if negb (is_nil e) then Ret (rb, mkWtOut m e acc) else
    if negb (is_empty rb) then Ret (rb, mkWtOut m EShort acc) else
    Ret (rb, mkWtOut m ENil acc))
  else
  let n := size rb - r rb + w rb in
  if r rb + n <=? size rb then
    obind (slice (buf rb) (r rb) (r rb + n)) (fun p =>
    let '(acc, e, _) := writer_write script p in
    let m := zlen acc in
    obind (gorem (r rb + m) (size rb)) (fun r' =>
    let rb := set_r rb r' in
    let rb := if m =? n then Reset rb else rb in
    if negb (is_nil e) then Ret (rb, mkWtOut m e acc) else
    if negb (is_empty rb) then Ret (rb, mkWtOut m EShort acc) else
    Ret (rb, mkWtOut m ENil acc)))
  else
    let c1 := size rb - r rb in
    obind (slice (buf rb) (r rb) (zlen (buf rb))) (fun p1 =>
    let '(acc1, e, script) := writer_write script p1 in
    let m := zlen acc1 in
    obind (gorem (r rb + m) (size rb)) (fun r' =>
    let rb := set_r rb r' in
    if negb (is_nil e) then Ret (rb, mkWtOut m e acc1) else
    if m <? c1 then Ret (rb, mkWtOut m EShort acc1) else
    let cum := m in
    let c2 := n - c1 in
    obind (slice (buf rb) 0 c2) (fun p2 =>
    let '(acc2, e, _) := writer_write script p2 in
    let m := zlen acc2 in
    let rb := set_r rb m in
    let cum := cum + m in
    let rb := if r rb =? w rb then Reset rb else rb in
    if negb (is_nil e) then Ret (rb, mkWtOut cum e (acc1 ++ acc2)) else
    if negb (is_empty rb) then Ret (rb, mkWtOut cum EShort (acc1 ++ acc2)) else
    Ret (rb, mkWtOut cum ENil (acc1 ++ acc2))))).

(* ---- operations as data ---- *)
Inductive op :=
| OWrite (p : list Z) | OWriteString (p : list Z) | OWriteByte (c : Z)
| ORead (n : Z) | OReadByte | OPeek (n : Z) | ODiscard (n : Z) | OBytes
| OReadFrom (src : list Z) (script : rscript) | OWriteTo (script : wscript) | OReset
| OBuffered | OAvailable | OCap | OLen | OIsEmpty | OIsFull.

Inductive out :=
| RWrite (n : Z) (e : err)
| RWriteByte (e : err)
| RRead (d : list Z) (n : Z) (e : err)
| RReadByte (b : Z) (e : err)
| RPeek (head tail : list Z)
| RDiscard (n : Z) (e : err)
| RBytes (d : list Z)
| RReadFrom (o : rf_out)
| RWriteTo (o : wt_out)
| RUnit
| RInt (z : Z)
| RBool (b : bool).

Definition omap {A B} (f : A -> B) (o : outcome A) : outcome B :=
  match o with Ret a => Ret (f a) | Panic => Panic end.

Definition step (rb : ring) (o : op) : outcome (ring * out) :=
  match o with
  | OWrite p => omap (fun '(rb, (n, e)) => (rb, RWrite n e)) (Write rb p)
  | OWriteString p => omap (fun '(rb, (n, e)) => (rb, RWrite n e)) (WriteString rb p)
  | OWriteByte c => omap (fun '(rb, e) => (rb, RWriteByte e)) (WriteByte rb c)
  | ORead n => omap (fun '(rb, (d, n, e)) => (rb, RRead d n e)) (Read rb n)
  | OReadByte => omap (fun '(rb, (b, e)) => (rb, RReadByte b e)) (ReadByte rb)
  | OPeek n => omap (fun '(h, t) => (rb, RPeek h t)) (Peek rb n)
  | ODiscard n => omap (fun '(rb, (n, e)) => (rb, RDiscard n e)) (Discard rb n)
  | OBytes => omap (fun d => (rb, RBytes d)) (Bytes rb)
  | OReadFrom src sc => omap (fun '(rb, o) => (rb, RReadFrom o)) (ReadFrom rb src sc)
  | OWriteTo sc => omap (fun '(rb, o) => (rb, RWriteTo o)) (WriteTo rb sc)
  | OReset => Ret (Reset rb, RUnit)
  | OBuffered => Ret (rb, RInt (Buffered rb))
  | OAvailable => Ret (rb, RInt (Available rb))
  | OCap => Ret (rb, RInt (Cap rb))
  | OLen => Ret (rb, RInt (Len rb))
  | OIsEmpty => Ret (rb, RBool (IsEmpty rb))
  | OIsFull => Ret (rb, RBool (IsFull rb))
  end.

Fixpoint run_ops (rb : ring) (ops : list op) : outcome (ring * list out) :=
  match ops with
  | [] => Ret (rb, [])
  | o :: rest =>
      obind (step rb o) (fun '(rb1, x) =>
      obind (run_ops rb1 rest) (fun '(rb2, xs) => Ret (rb2, x :: xs)))
  end.

(* ---- trace runner: family "ring" ----
   op lines                               obs lines
     new <n>                                new ok | new panic
     write x<p> / writestring x<p>          write <n> <err>
     writebyte <c>                          writebyte <err>
     read <n>                               read <n> <err> x<data>
     readbyte                               readbyte <b> <err>
     peek <n>                               peek <len head> <len tail> x<head> x<tail>
     discard <n>                            discard <n> <err>
     bytes                                  bytes x<data>
     readfrom x<src> (<mx> <e>)*            readfrom <n> <err> <consumed> <offered lens...>
     writeto (<k> <e>)*                     writeto <n> <err> x<received>
     reset                                  reset ok
   after every op:  st <Buffered> <Available> <Cap> <Len> <IsEmpty> <IsFull> x<Bytes()> ("-" when longer than 768)
   a panic is "<name> panic" and ends the case. *)
Open Scope string_scope.

Definition err_arg (e : err) : arg :=
  ASym (match e with ENil => "nil" | EEmpty => "empty" | EShort => "short" | EEof => "eof" | EErr => "err" end).

Definition err_of_sym (s : string) : err :=
  if sym_eqb s "nil" then ENil else if sym_eqb s "eof" then EEof else EErr.

Fixpoint parse_script (a : list arg) : list (Z * err) :=
  match a with
  | AInt k :: ASym e :: rest => (k, err_of_sym e) :: parse_script rest
  | _ => []
  end.

Definition parse_op (l : line) : option op :=
  match l with
  | ("write", [ABytes p]) => Some (OWrite p)
  | ("writestring", [ABytes p]) => Some (OWriteString p)
  | ("writebyte", [AInt c]) => Some (OWriteByte c)
  | ("read", [AInt n]) => Some (ORead n)
  | ("readbyte", []) => Some OReadByte
  | ("peek", [AInt n]) => Some (OPeek n)
  | ("discard", [AInt n]) => Some (ODiscard n)
  | ("bytes", []) => Some OBytes
  | ("readfrom", ABytes src :: sc) => Some (OReadFrom src (parse_script sc))
  | ("writeto", sc) => Some (OWriteTo (parse_script sc))
  | ("reset", []) => Some OReset
  | _ => None
  end.

Definition out_line (name : string) (x : out) : line :=
  match x with
  | RWrite n e => obs "write" [AInt n; err_arg e]
  | RWriteByte e => obs "writebyte" [err_arg e]
  | RRead d n e => obs "read" [AInt n; err_arg e; ABytes d]
  | RReadByte b e => obs "readbyte" [AInt b; err_arg e]
  | RPeek h t => obs "peek" [AInt (zlen h); AInt (zlen t); ABytes h; ABytes t]
  | RDiscard n e => obs "discard" [AInt n; err_arg e]
  | RBytes d => obs "bytes" [ABytes d]
  | RReadFrom o => obs "readfrom" ([AInt (rf_n o); err_arg (rf_err o); AInt (zlen (rf_src o))]
                                   ++ map AInt (rf_offered o))%list
  | RWriteTo o => obs "writeto" [AInt (wt_n o); err_arg (wt_err o); ABytes (wt_recv o)]
  | RUnit => obs name [ASym "ok"]
  | RInt z => obs name [AInt z]
  | RBool b => obs name [bool_arg b]
  end.

(* Bytes() is printed in the state line only while Buffered() is small (the
   driver's oracle still checks it after every op; the "bytes" op always prints it) *)
Definition st_bytes_limit : Z := 768.

Definition st_lines (rb : ring) : list line :=
  let pre := [AInt (Buffered rb); AInt (Available rb); AInt (Cap rb); AInt (Len rb);
              bool_arg (IsEmpty rb); bool_arg (IsFull rb)] in
  if (Buffered rb <=? st_bytes_limit)%Z then
    match Bytes rb with
    | Ret d => [obs "st" (pre ++ [ABytes d])%list]
    | Panic => [panic_line "st"]
    end
  else [obs "st" (pre ++ [ASym "-"])%list].

(* state of the fold: None = the case is over (panic) *)
Definition ring_line (acc : option ring * list line) (l : line) : option ring * list line :=
  match acc with
  | (None, _) => acc
  | (Some rb, outl) =>
      match l with
      | ("new", [AInt n]) =>
          match New n with
          | Ret rb' => (Some rb', (outl ++ obs "new" [ASym "ok"] :: st_lines rb')%list)
          | Panic => (None, (outl ++ [panic_line "new"])%list)
          end
      | (name, _) =>
          match parse_op l with
          | None => (Some rb, (outl ++ [obs "unknown" []])%list)
          | Some o =>
              match step rb o with
              | Ret (rb', x) => (Some rb', (outl ++ out_line name x :: st_lines rb')%list)
              | Panic => (None, (outl ++ [panic_line (if sym_eqb name "writestring" then "write" else name)])%list)
              end
          end
      end
  end.

Definition run_ring : runner := fun ls =>
  snd (fold_left ring_line ls (Some (mkRing [] 0 0 0 true), [])).
