(* Infrastructure shared by the proofs of the data theorems of the event-loop model
   (C01 inbound, C02 outbound, C08 UDP): checkers as folds ([run]), the invariant
   [Inv] relating the checker state reached on the history so far to the model state,
   one lemma per primitive that touches the log or the state, simplification lemmas
   for the state accessors, and small list lemmas (ztake / zdrop / is_prefix). *)
From Coq Require Import Lia ZArith ZifyBool.
From GV Require Import Lib.Trace Model.Loop Spec.LoopSpec.
Open Scope string_scope.
Open Scope list_scope.
Open Scope Z_scope.

(* ------------------------------------------------------------------ *)
(* checkers as folds *)

Inductive verdict (C : Type) := VOk (c : C) | VDone | VFail.
Arguments VOk {C} c.
Arguments VDone {C}.
Arguments VFail {C}.

Fixpoint run {C} (step : C -> ev -> option C) (c : C) (t : list ev) : verdict C :=
  match t with
  | [] => VOk c
  | e :: r => if is_desync e then VDone else
              match step c e with Some c' => run step c' r | None => VFail end
  end.

Lemma check_run : forall C (step : C -> ev -> option C) t c,
  check step c t = match run step c t with VFail => false | _ => true end.
Proof.
  induction t as [|e r IH]; intros c; cbn [check run]; [reflexivity|].
  destruct (is_desync e); [reflexivity|].
  destruct (step c e); [apply IH|reflexivity].
Qed.

Lemma run_app : forall C (step : C -> ev -> option C) t1 t2 c,
  run step c (t1 ++ t2) = match run step c t1 with VOk c' => run step c' t2 | v => v end.
Proof.
  induction t1 as [|e r IH]; intros t2 c; cbn [run app]; [reflexivity|].
  destruct (is_desync e); [reflexivity|].
  destruct (step c e); [apply IH|reflexivity].
Qed.

(* ------------------------------------------------------------------ *)
(* a checker [step] run together with a second fold [hstep] over the same history:
   either a hypothesis about the environment (when it fails, nothing more is
   demanded) or a ghost variable (when it never fails). *)

Section Gen.
Context {H S : Type}.
Variable hstep : H -> ev -> option H.
Variable step : S -> ev -> option S.
Variable h0 : H.
Variable s0 : S.

Definition cst := option (H * S).

Definition cstep (c : cst) (e : ev) : option cst :=
  match c with
  | None => Some None
  | Some (h, x) =>
      match hstep h e with
      | None => Some None
      | Some h' => match step x e with None => None | Some x' => Some (Some (h', x')) end
      end
  end.

Lemma run_none : forall t, run cstep None t <> VFail.
Proof. induction t as [|e r IH]; cbn; [discriminate|]. destruct (is_desync e); [discriminate|exact IH]. Qed.

Lemma check_cstep : forall t h x,
  check cstep (Some (h, x)) t = true -> check hstep h t = true -> check step x t = true.
Proof.
  induction t as [|e r IH]; intros h x Hc Hh; cbn [check] in *; [reflexivity|].
  destruct (is_desync e); [reflexivity|].
  cbn [cstep] in Hc.
  destruct (hstep h e) as [h'|]; [|discriminate].
  destruct (step x e) as [x'|]; [|discriminate].
  eapply IH; eassumption.
Qed.

Lemma check_total : (forall h e, hstep h e <> None) -> forall t h, check hstep h t = true.
Proof.
  intros T. induction t as [|e r IH]; intros h; cbn [check]; [reflexivity|].
  destruct (is_desync e); [reflexivity|].
  destruct (hstep h e) eqn:E; [apply IH|]. exfalso. eapply T; eassumption.
Qed.

(* the invariant: the history so far is accepted, and unless the run is over (halt:
   nothing is emitted any more) or the checker has stopped demanding anything, the
   checker state and the model state are related by R *)
Definition Inv (R : H -> S -> lstate -> Prop) (w : world) : Prop :=
  match run cstep (Some (h0, s0)) (rev (log w)) with
  | VFail => False
  | VDone => True
  | VOk None => True
  | VOk (Some (h, x)) => halt w = true \/ R h x (st w)
  end.

Definition RF : H -> S -> lstate -> Prop := fun _ _ _ => False.

Lemma Inv_check : forall R w, Inv R w -> check cstep (Some (h0, s0)) (rev (log w)) = true.
Proof.
  intros R w. unfold Inv. rewrite check_run.
  destruct (run cstep (Some (h0, s0)) (rev (log w))); [reflexivity|reflexivity|intros []].
Qed.

Lemma Inv_weaken : forall (R R' : H -> S -> lstate -> Prop) w,
  (forall h x, halt w = false -> R h x (st w) -> R' h x (st w)) -> Inv R w -> Inv R' w.
Proof.
  intros R R' w HR. unfold Inv.
  destruct (run cstep (Some (h0, s0)) (rev (log w))) as [[[h x]|]| |]; auto.
  intros [Hh|Hr]; [left; exact Hh|].
  destruct (halt w) eqn:E; [left; reflexivity|right; apply HR; auto].
Qed.

Lemma Inv_halted : forall R R' w, halt w = true -> Inv R w -> Inv R' w.
Proof.
  intros R R' w Hh. apply Inv_weaken. intros h x E. congruence.
Qed.

Lemma Inv_dead : forall R w, Inv RF w -> Inv R w.
Proof. intros R w. apply Inv_weaken. intros h x _ []. Qed.

(* worlds that only differ by the state *)
Lemma Inv_with_st : forall (R R' : H -> S -> lstate -> Prop) w s',
  Inv R w -> (forall h x, halt w = false -> R h x (st w) -> R' h x s') -> Inv R' (with_st w s').
Proof.
  intros R R' w s' HI HR. unfold Inv in *. cbn [with_st log halt st].
  destruct (run cstep (Some (h0, s0)) (rev (log w))) as [[[h x]|]| |]; auto.
  destruct HI as [Hh|Hr]; [left; exact Hh|].
  destruct (halt w) eqn:E; [left; reflexivity|right; apply HR; auto].
Qed.

Lemma Inv_wsetc : forall (R R' : H -> S -> lstate -> Prop) w cid c,
  Inv R w -> (forall h x, halt w = false -> R h x (st w) -> R' h x (setc (st w) cid c)) -> Inv R' (wsetc w cid c).
Proof. intros. unfold wsetc. eapply Inv_with_st; eauto. Qed.

Lemma Inv_emit : forall (R R' : H -> S -> lstate -> Prop) l w,
  Inv R w ->
  is_desync (EOut l) = false ->
  (forall h x, halt w = false -> R h x (st w) ->
     match hstep h (EOut l) with
     | None => True
     | Some h' => exists x', step x (EOut l) = Some x' /\ R' h' x' (st w)
     end) ->
  Inv R' (emit l w).
Proof.
  intros R R' l w HI Hd HR. unfold emit.
  destruct (halt w) eqn:Hh; [eapply Inv_halted; eauto|].
  unfold Inv in *. cbn [log halt st rev]. rewrite run_app.
  destruct (run cstep (Some (h0, s0)) (rev (log w))) as [[[h x]|]| |]; cbn [run]; auto.
  - rewrite Hd. cbn [cstep]. destruct HI as [HI|HI]; [congruence|].
    specialize (HR h x eq_refl HI).
    destruct (hstep h (EOut l)) as [h'|]; [|exact I].
    destruct HR as [x' [E HR]]. rewrite E. right. exact HR.
  - rewrite Hd. cbn [cstep]. exact I.
Qed.

Lemma Inv_desync : forall R what w, Inv R w -> Inv RF (desync what w).
Proof.
  intros R what w HI. unfold desync, stop, emit.
  destruct (halt w) eqn:Hh.
  - unfold Inv in *. cbn [log halt st].
    destruct (run cstep (Some (h0, s0)) (rev (log w))) as [[[h x]|]| |]; auto.
  - unfold Inv in *. cbn [log halt st rev]. rewrite run_app.
    destruct (run cstep (Some (h0, s0)) (rev (log w))) as [[[h x]|]| |]; cbn [run]; auto;
      change (is_desync (EOut (obs "desync" [ASym what]))) with true; exact I.
Qed.

Lemma halt_desync : forall what w, halt (desync what w) = true.
Proof. reflexivity. Qed.

(* pulling input: requests of other goroutines are applied on the way *)
Definition pull_ok (R : H -> S -> lstate -> Prop) : Prop :=
  (forall h x s l, R h x s -> step x (EIn l) <> None) /\
  (forall h x s l s' h' x', R h x s -> apply_async s l = Some s' ->
      hstep h (EIn l) = Some h' -> step x (EIn l) = Some x' -> R h' x' s').

Definition after_in (R : H -> S -> lstate -> Prop) (l : line) : H -> S -> lstate -> Prop :=
  fun h' x' s => exists h x, R h x s /\ apply_async s l = None /\
                             hstep h (EIn l) = Some h' /\ step x (EIn l) = Some x'.

Definition after_pull (R : H -> S -> lstate -> Prop) (o : option line) : H -> S -> lstate -> Prop :=
  match o with None => RF | Some l => after_in R l end.

Definition acc (lg : list ev) (Q : H -> S -> Prop) : Prop :=
  match run cstep (Some (h0, s0)) (rev lg) with
  | VFail => False | VDone => True | VOk None => True | VOk (Some (h, x)) => Q h x end.

Lemma acc_in : forall lg l (Q Q' : H -> S -> Prop),
  acc lg Q ->
  (forall h x, Q h x -> step x (EIn l) <> None /\
     forall h' x', hstep h (EIn l) = Some h' -> step x (EIn l) = Some x' -> Q' h' x') ->
  acc (EIn l :: lg) Q'.
Proof.
  intros lg l Q Q' HA HQ. unfold acc in *. cbn [rev]. rewrite run_app.
  destruct (run cstep (Some (h0, s0)) (rev lg)) as [[[h x]|]| |]; cbn [run is_desync cstep]; auto.
  destruct (HQ h x HA) as [N HQ'].
  destruct (hstep h (EIn l)) as [h'|]; [|exact I].
  destruct (step x (EIn l)) as [x'|]; [|congruence].
  apply HQ'; reflexivity.
Qed.

Lemma pull_from_spec : forall (R : H -> S -> lstate -> Prop) picks, pull_ok R ->
  forall i s lg s' lg' o r,
  pull_from picks s lg i = (s', lg', o, r) ->
  acc lg (fun h x => R h x s) ->
  acc lg' (fun h x => match o with Some l => after_in R l h x s' | None => True end).
Proof.
  intros R picks [P1 P2]. induction i as [|l i IH]; intros s lg s' lg' o r E HI; cbn [pull_from] in E.
  - inversion E; subst. unfold acc in *.
    destruct (run cstep (Some (h0, s0)) (rev lg')) as [[[h x]|]| |]; auto.
  - destruct (apply_async s l) as [s1|] eqn:Ea.
    + eapply IH; [exact E|]. eapply acc_in; [exact HI|].
      intros h x HR. cbv beta in HR. split; [eapply P1; eauto|]. intros h' x' E1 E2. eapply P2; eauto.
    + destruct (negb picks && is_pick l).
      * eapply IH; eauto.
      * inversion E; subst. eapply acc_in; [exact HI|].
        intros h x HR. cbv beta in HR. split; [eapply P1; eauto|]. intros h' x' E1 E2.
        exists h, x. auto.
Qed.

Lemma Inv_pull_gen : forall R picks w o w', pull_ok R ->
  Inv R w -> pull_gen picks w = (o, w') -> Inv (after_pull R o) w'.
Proof.
  intros R picks w o w' P HI E. unfold pull_gen in E.
  destruct (halt w) eqn:Hh.
  - inversion E; subst. eapply Inv_halted; eauto.
  - destruct (pull_from picks (st w) (log w) (inp w)) as [[[s lg] o'] r] eqn:Ep.
    pose proof (pull_from_spec R picks P _ _ _ _ _ _ _ Ep) as HS.
    assert (HA : acc (log w) (fun h x => R h x (st w))).
    { unfold acc, Inv in *. destruct (run cstep (Some (h0, s0)) (rev (log w))) as [[[h x]|]| |]; auto.
      destruct HI; [congruence|auto]. }
    specialize (HS HA). clear HA.
    destruct o' as [l|]; inversion E; subst; unfold Inv, acc in *; cbn [log halt st after_pull];
      destruct (run cstep (Some (h0, s0)) (rev lg)) as [[[h x]|]| |]; auto.
Qed.

Lemma Inv_pull : forall R w o w', pull_ok R ->
  Inv R w -> pull w = (o, w') -> Inv (after_pull R o) w'.
Proof. intros. eapply Inv_pull_gen; eauto. Qed.

End Gen.

Arguments Inv {H S} hstep step h0 s0 R w.
Arguments RF {H S} _ _ _.
Arguments pull_ok {H S} hstep step R.
Arguments after_in {H S} hstep step R l _ _ _.
Arguments after_pull {H S} hstep step R o _ _ _.

(* ------------------------------------------------------------------ *)
(* cracking matches on string literals: destruct one character of a string variable,
   pruning the dead branches with [tac] after every bit *)
Ltac crack_char n tac :=
  let a := fresh "a" in let n' := fresh "n" in
  destruct n as [|a n']; [try tac|
    let b0 := fresh "b" in let b1 := fresh "b" in let b2 := fresh "b" in let b3 := fresh "b" in
    let b4 := fresh "b" in let b5 := fresh "b" in let b6 := fresh "b" in let b7 := fresh "b" in
    destruct a as [b0 b1 b2 b3 b4 b5 b6 b7];
    destruct b0; try tac; destruct b1; try tac; destruct b2; try tac; destruct b3; try tac;
    destruct b4; try tac; destruct b5; try tac; destruct b6; try tac; destruct b7; try tac].
Ltac crack_goal tac :=
  repeat match goal with |- context [match ?n with EmptyString => _ | String _ _ => _ end] =>
     is_var n; crack_char n tac end.
Ltac crack_hyp E tac :=
  repeat match type of E with context [match ?n with EmptyString => _ | String _ _ => _ end] =>
     is_var n; crack_char n tac end.

(* ------------------------------------------------------------------ *)
(* worlds *)

Lemma st_emit : forall l w, st (emit l w) = st w.
Proof. intros. unfold emit. destruct (halt w); reflexivity. Qed.
Lemma halt_emit : forall l w, halt (emit l w) = halt w.
Proof. intros. unfold emit. destruct (halt w) eqn:E; [exact E|reflexivity]. Qed.
Lemma inp_emit : forall l w, inp (emit l w) = inp w.
Proof. intros. unfold emit. destruct (halt w); reflexivity. Qed.
Lemma st_ghost : forall k c b w, st (ghost k c b w) = st w.
Proof. intros. apply st_emit. Qed.
Lemma halt_ghost : forall k c b w, halt (ghost k c b w) = halt w.
Proof. intros. apply halt_emit. Qed.
Lemma st_desync : forall k w, st (desync k w) = st w.
Proof. intros. unfold desync, stop. cbn [st]. apply st_emit. Qed.
Lemma emit_with_st : forall l w s, emit l (with_st w s) = with_st (emit l w) s.
Proof. intros l [s0 i lg h] s. unfold emit, with_st. cbn [halt st inp log]. destruct h; reflexivity. Qed.
Lemma wc_emit : forall l w cid, wc (emit l w) cid = wc w cid.
Proof. intros. unfold wc. rewrite st_emit. reflexivity. Qed.
Lemma wc_ghost : forall k c b w cid, wc (ghost k c b w) cid = wc w cid.
Proof. intros. apply wc_emit. Qed.

(* ------------------------------------------------------------------ *)
(* association lists *)

Lemma alookup_aremove : forall A k k' (m : list (Z * A)),
  alookup k (aremove k' m) = if k =? k' then None else alookup k m.
Proof.
  induction m as [|[k0 v] m IH]; cbn [aremove alookup].
  - destruct (k =? k'); reflexivity.
  - destruct (Z.eqb_spec k' k0) as [->|N].
    + rewrite IH. destruct (Z.eqb_spec k k0); reflexivity.
    + cbn [alookup]. rewrite IH. destruct (Z.eqb_spec k k0) as [->|N2]; [|reflexivity].
      destruct (Z.eqb_spec k0 k'); [congruence|reflexivity].
Qed.

Lemma alookup_aset : forall A k k' (v : A) m,
  alookup k (aset k' v m) = if k =? k' then Some v else alookup k m.
Proof.
  intros. unfold aset. cbn [alookup]. rewrite alookup_aremove. destruct (k =? k'); reflexivity.
Qed.

Lemma getd_aset : forall A (d : A) k k' v m,
  getd d k (aset k' v m) = if k =? k' then v else getd d k m.
Proof. intros. unfold getd. rewrite alookup_aset. destruct (k =? k'); reflexivity. Qed.

Lemma getc_setc : forall s cid c cid', getc (setc s cid c) cid' = if cid' =? cid then c else getc s cid'.
Proof. intros. unfold getc, setc. cbn [l_conns]. rewrite alookup_aset. destruct (cid' =? cid); reflexivity. Qed.

Lemma getc_set_reg : forall s r cid, getc (set_reg s r) cid = getc s cid.
Proof. reflexivity. Qed.
Lemma getc_set_queues : forall s u lo f cid, getc (set_queues s u lo f) cid = getc s cid.
Proof. reflexivity. Qed.
Lemma getc_set_next : forall s n cid, getc (set_next s n) cid = getc s cid.
Proof. reflexivity. Qed.
Lemma getc_set_flag : forall s f cid, getc (set_flag s f) cid = getc s cid.
Proof. reflexivity. Qed.
Lemma getc_enqueue : forall s b t cid, getc (enqueue s b t) cid = getc s cid.
Proof. intros. unfold enqueue. destruct (_ && _); reflexivity. Qed.
Lemma l_reg_enqueue : forall s b t, l_reg (enqueue s b t) = l_reg s.
Proof. intros. unfold enqueue. destruct (_ && _); reflexivity. Qed.
Lemma l_next_enqueue : forall s b t, l_next (enqueue s b t) = l_next s.
Proof. intros. unfold enqueue. destruct (_ && _); reflexivity. Qed.
Lemma l_conns_enqueue : forall s b t, l_conns (enqueue s b t) = l_conns s.
Proof. intros. unfold enqueue. destruct (_ && _); reflexivity. Qed.

(* the tasks waiting in the two queues *)
Definition tasks (s : lstate) : list task := l_urgent s ++ l_low s.

Lemma tasks_enqueue : forall s b t x, In x (tasks (enqueue s b t)) <-> x = t \/ In x (tasks s).
Proof.
  intros. unfold enqueue, tasks. destruct (_ && _); cbn [set_queues l_urgent l_low];
    rewrite ?in_app_iff; cbn [In]; rewrite ?in_app_iff; cbn [In]; intuition.
Qed.
Lemma tasks_set_flag : forall s f, tasks (set_flag s f) = tasks s.
Proof. reflexivity. Qed.
Lemma tasks_setc : forall s cid c, tasks (setc s cid c) = tasks s.
Proof. reflexivity. Qed.
Lemma tasks_set_reg : forall s r, tasks (set_reg s r) = tasks s.
Proof. reflexivity. Qed.
Lemma tasks_set_next : forall s n, tasks (set_next s n) = tasks s.
Proof. reflexivity. Qed.

(* ------------------------------------------------------------------ *)
(* requests of other goroutines *)

Definition is_reg_task (t : task) : bool := match t with TRegister _ _ => true | _ => false end.

Definition fresh_conn (c : conn) : Prop :=
  c_opened c = false /\ c_in c = [] /\ c_out c = [] /\ c_buf c = [] /\ c_udp c && c_remote c = false.

Lemma apply_async_cases : forall s l s', apply_async s l = Some s' ->
  (exists b t, is_reg_task t = false /\ s' = set_flag (enqueue s b t) true) \/
  (exists b c cb, fresh_conn c /\
     s' = set_flag (enqueue (set_next (setc s (l_next s) c) (l_next s + 1)) b (TRegister (l_next s) cb)) true).
Proof.
  intros s [name args] s' E. unfold apply_async in E.
  crack_hyp E ltac:(discriminate E).
  all: repeat match type of E with
    | context [match ?a with [] => _ | _ :: _ => _ end] => is_var a; destruct a; try discriminate E
    | context [match ?a with AInt _ => _ | ABytes _ => _ | ASym _ => _ end] => is_var a; destruct a; try discriminate E
    | context [if ?c then _ else _] => destruct c eqn:?; try discriminate E
    end.
  all: inversion E; subst.
  all: first [ left; eexists _, _; split; [|reflexivity]; reflexivity
             | right; eexists _, _, _; split; [|reflexivity]; repeat split; cbn; auto using andb_false_r ].
Qed.

(* ------------------------------------------------------------------ *)
(* unfolding equations for the procedures that dispatch on the name of an input line *)

Lemma handler_eq : forall f cid w, handler (S f) cid w =
  match pull w with
  | (None, w1) => ((ANone, None), w1)
  | (Some (name, args), w1) =>
      if String.eqb name "hret" then
        match args with
        | a :: rest => ((action_of a, match rest with ABytes b :: _ => Some b | _ => None end), w1)
        | [] => ((ANone, None), desync "expected-h" w1)
        end
      else if String.eqb name "h" then
        match args with
        | ASym call :: args' => handler f cid (hcall f cid call args' w1)
        | _ => ((ANone, None), desync "expected-h" w1)
        end
      else ((ANone, None), desync "expected-h" w1)
  end.
Proof.
  intros. cbn [handler].
  destruct (pull w) as [[[name args]|] w1]; [|reflexivity].
  crack_goal reflexivity.
Qed.

Lemma sysret_eq : forall name w, sysret name w =
  match pull w with
  | (None, w') => (KNone, w')
  | (Some (nm0, args), w') =>
      if String.eqb nm0 "r" then
        match args with
        | ASym nm :: AInt n :: rest =>
            if negb (sym_eqb nm name) then (KNone, desync "syscall-name" w')
            else if n <? 0 then
              match rest with
              | ASym e :: _ => (KErr e, w')
              | _ => (KErr "err", w')
              end
            else (KOk n rest, w')
        | _ => (KNone, desync "expected-r" w')
        end
      else (KNone, desync "expected-r" w')
  end.
Proof.
  intros. unfold sysret.
  destruct (pull w) as [[[name0 args]|] w1]; [|reflexivity].
  crack_goal reflexivity.
Qed.

Lemma sys_wr_eq : forall cid fd src exact w, sys_wr cid fd src exact w =
  match pull (emit (obs "sys" [ASym "wr"; AInt fd]) w) with
  | (None, w') => (KNone, w')
  | (Some (nm0, args), w') =>
      if String.eqb nm0 "r" then
        match args with
        | ASym nm :: AInt off :: AInt n :: rest =>
            if negb (sym_eqb nm "wr") then (KNone, desync "syscall-name" w') else
            if (off <? 0) || (zlen src <? off) || (off <? n) then (KNone, desync "kernel-contract-wr" w') else
            let offered := if exact then src else ztake off src in
            let w2 := emit (obs "wdata" [ABytes offered]) w' in
            if n <? 0 then
              match rest with
              | ASym e :: _ => (KErr e, if is_eagain e then ghost "eagain" cid [] w2 else ghost "fail" cid [] w2)
              | _ => (KErr "err", ghost "fail" cid [] w2)
              end
            else (KOk n [], ghost "hand" cid (ztake n offered) w2)
        | _ => (KNone, desync "expected-r-wr" w')
        end
      else (KNone, desync "expected-r-wr" w')
  end.
Proof.
  intros. unfold sys_wr.
  destruct (pull _) as [[[name0 args]|] w1]; [|reflexivity].
  crack_goal reflexivity.
Qed.

(* ------------------------------------------------------------------ *)
(* derived rules for the primitives built from emit and pull, for relations R that do
   not look at the input lines concerned (P l) and output lines the checker ignores *)

Section Derived.
Context {H S : Type}.
Variable hstep : H -> ev -> option H.
Variable step : S -> ev -> option S.
Variable h0 : H.
Variable s0 : S.
Local Notation INV := (Inv hstep step h0 s0).
Local Notation rel := (H -> S -> lstate -> Prop).

Definition in_ign (P : line -> Prop) (R : rel) : Prop :=
  forall h x s l h' x', P l -> R h x s ->
    hstep h (EIn l) = Some h' -> step x (EIn l) = Some x' -> R h' x' s.

Definition out_ign (l : line) : Prop :=
  is_desync (EOut l) = false /\ forall h x, hstep h (EOut l) = Some h /\ step x (EOut l) = Some x.

Definition enq_ok (R : rel) : Prop :=
  forall h x s b t, R h x s -> is_reg_task t = false -> R h x (enqueue s b t).
Definition flag_ok (R : rel) : Prop :=
  forall h x s f, R h x s -> R h x (set_flag s f).

Lemma Inv_emit_ign : forall (R : rel) l w, out_ign l -> INV R w -> INV R (emit l w).
Proof.
  intros R l w [Hd Hi] HI. eapply Inv_emit; [exact HI|exact Hd|].
  intros h x _ HR. destruct (Hi h x) as [E1 E2]. rewrite E1. exists x. auto.
Qed.

Lemma Inv_after_in : forall (P : line -> Prop) (R : rel) l w,
  in_ign P R -> P l -> INV (after_in hstep step R l) w -> INV R w.
Proof.
  intros P R l w HP Pl. apply Inv_weaken. intros h' x' _ [h [x [HR [_ [E1 E2]]]]].
  eapply HP; eauto.
Qed.

Lemma Inv_pull_ign : forall (R : rel) picks w o w',
  pull_ok hstep step R -> in_ign (fun _ => True) R ->
  INV R w -> pull_gen picks w = (o, w') -> INV R w'.
Proof.
  intros R picks w o w' P HP HI E.
  pose proof (Inv_pull_gen hstep step h0 s0 R picks w o w' P HI E) as HA.
  destruct o as [l|]; cbn [after_pull] in HA.
  - eapply Inv_after_in; [exact HP|exact I|exact HA].
  - apply Inv_dead. exact HA.
Qed.

Lemma Inv_sysret : forall (P : line -> Prop) (R : rel) name w k w',
  pull_ok hstep step R -> in_ign P R ->
  (forall n rest, P ("r", ASym name :: AInt n :: rest)) ->
  INV R w -> sysret name w = (k, w') -> INV R w'.
Proof.
  intros P R name w k w' PO HP HN HI E. rewrite sysret_eq in E.
  destruct (pull w) as [[[nm0 args]|] w1] eqn:Ep.
  - pose proof (Inv_pull hstep step h0 s0 R w _ w1 PO HI Ep) as HA. cbn [after_pull] in HA.
    destruct (String.eqb_spec nm0 "r") as [->|N].
    + destruct args as [|[?|?|nm] [|[n|?|?] rest]];
        try (inversion E; subst; apply Inv_dead; eapply Inv_desync; exact HA).
      unfold sym_eqb in E. destruct (String.eqb_spec nm name) as [->|N]; cbn [negb] in E.
      * assert (HR : INV R w1) by (eapply Inv_after_in; eauto).
        destruct (n <? 0); [destruct rest as [|[?|?|?] ?]|]; inversion E; subst; exact HR.
      * inversion E; subst. apply Inv_dead. eapply Inv_desync. exact HA.
    + inversion E; subst. apply Inv_dead. eapply Inv_desync. exact HA.
  - inversion E; subst. apply Inv_dead.
    exact (Inv_pull hstep step h0 s0 R w _ _ PO HI Ep).
Qed.

Lemma Inv_sys : forall (P : line -> Prop) (R : rel) name args w k w',
  pull_ok hstep step R -> in_ign P R ->
  (forall n rest, P ("r", ASym name :: AInt n :: rest)) ->
  out_ign (obs "sys" (ASym name :: args)) ->
  INV R w -> sys name args w = (k, w') -> INV R w'.
Proof.
  intros P R name args w k w' PO HP HN HO HI E. unfold sys in E.
  eapply Inv_sysret; [exact PO|exact HP|exact HN| |exact E].
  apply Inv_emit_ign; assumption.
Qed.

Lemma Inv_epctl : forall (P : line -> Prop) (R : rel) op fd rw et w r w',
  pull_ok hstep step R -> in_ign P R ->
  (forall n rest, P ("r", ASym "epctl" :: AInt n :: rest)) ->
  out_ign (obs "sys" [ASym "epctl"; ASym op; AInt fd; bool_arg rw; bool_arg et]) ->
  INV R w -> epctl op fd rw et w = (r, w') -> INV R w'.
Proof.
  intros P R op fd rw et w r w' PO HP HN HO HI E. unfold epctl in E.
  destruct (sys "epctl" _ w) as [k w1] eqn:Es.
  assert (HR : INV R w1) by (eapply (Inv_sys P R); eauto).
  destruct k; inversion E; subst; exact HR.
Qed.

Lemma Inv_efd_write : forall (P : line -> Prop) (R : rel),
  pull_ok hstep step R -> in_ign P R ->
  (forall n rest, P ("r", ASym "write" :: AInt n :: rest)) ->
  (forall n rest, P ("r", ASym "read" :: AInt n :: rest)) ->
  (forall fd, out_ign (obs "sys" [ASym "write"; AInt fd])) ->
  (forall fd, out_ign (obs "sys" [ASym "read"; AInt fd])) ->
  forall fuel w r w', INV R w -> efd_write fuel w = (r, w') -> INV R w'.
Proof.
  intros P R PO HP HN1 HN2 HO1 HO2. induction fuel as [|f IH]; intros w r w' HI E; cbn [efd_write] in E.
  - inversion E; subst. apply Inv_dead. eapply Inv_desync. exact HI.
  - destruct (sys "write" _ w) as [k w1] eqn:Es.
    pose proof (Inv_sys P R _ _ _ _ _ PO HP HN1 (HO1 _) HI Es) as HR.
    destruct k as [n extra|e|]; try (inversion E; subst; exact HR).
    destruct (is_eagain e); [|inversion E; subst; exact HR].
    destruct (sys "read" _ w1) as [k2 w2] eqn:Es2.
    eapply IH; [|exact E]. exact (Inv_sys P R _ _ _ _ _ PO HP HN2 (HO2 _) HR Es2).
Qed.

Lemma Inv_trigger : forall (P : line -> Prop) (R : rel),
  pull_ok hstep step R -> in_ign P R ->
  (forall n rest, P ("r", ASym "write" :: AInt n :: rest)) ->
  (forall n rest, P ("r", ASym "read" :: AInt n :: rest)) ->
  (forall fd, out_ign (obs "sys" [ASym "write"; AInt fd])) ->
  (forall fd, out_ign (obs "sys" [ASym "read"; AInt fd])) ->
  enq_ok R -> flag_ok R ->
  forall is_low t w r w', is_reg_task t = false -> INV R w -> trigger is_low t w = (r, w') -> INV R w'.
Proof.
  intros P R PO HP HN1 HN2 HO1 HO2 HE HF is_low t w r w' Ht HI E. unfold trigger in E.
  destruct (l_flag (enqueue (st w) is_low t)).
  - inversion E; subst. eapply Inv_with_st; [exact HI|]. intros h x _ HR. apply HE; assumption.
  - refine (Inv_efd_write P R PO HP HN1 HN2 HO1 HO2 _ _ _ _ _ E).
    eapply Inv_with_st; [exact HI|]. intros h x _ HR. apply HF. apply HE; assumption.
Qed.

End Derived.

(* ------------------------------------------------------------------ *)
(* list lemmas: ztake / zdrop / is_prefix *)

Lemma zlen_nonneg : forall A (l : list A), 0 <= zlen l.
Proof. intros. unfold zlen. lia. Qed.
Lemma zlen_app : forall A (a b : list A), zlen (a ++ b) = zlen a + zlen b.
Proof. intros. unfold zlen. rewrite app_length. lia. Qed.
Lemma zlen_nil : forall A, zlen (@nil A) = 0.
Proof. reflexivity. Qed.
Lemma zlen_zero : forall A (l : list A), zlen l = 0 -> l = [].
Proof. intros A [|a l]; [reflexivity|]. unfold zlen. cbn [List.length]. lia. Qed.

Lemma is_prefix_app : forall p r, is_prefix p (p ++ r) = true.
Proof. induction p as [|a p IH]; intros r; cbn; [reflexivity|]. rewrite Z.eqb_refl. apply IH. Qed.
Lemma is_prefix_nil : forall l, is_prefix [] l = true.
Proof. destruct l; reflexivity. Qed.
Lemma is_prefix_ztake : forall n l, is_prefix (ztake n l) l = true.
Proof. intros. unfold ztake. rewrite <- (firstn_skipn (Z.to_nat n) l) at 2. apply is_prefix_app. Qed.

Lemma zlen_ztake : forall A n (l : list A), zlen (ztake n l) = Z.min (Z.max n 0) (zlen l).
Proof. intros. unfold zlen, ztake. rewrite firstn_length. lia. Qed.
Lemma zdrop_zlen_ztake : forall A n (l : list A), zdrop (zlen (ztake n l)) l = zdrop n l.
Proof.
  intros. rewrite zlen_ztake. unfold zdrop.
  destruct (Z_le_gt_dec (Z.max n 0) (zlen l)) as [Hle|Hgt].
  - f_equal. lia.
  - rewrite !skipn_all2; [reflexivity| |]; unfold zlen in *; lia.
Qed.
Lemma ztake_app : forall A n (a b : list A), ztake n (a ++ b) = ztake n a ++ ztake (n - zlen a) b.
Proof. intros. unfold ztake, zlen. rewrite firstn_app. do 2 f_equal. lia. Qed.
Lemma zdrop_app : forall A n (a b : list A), zdrop n (a ++ b) = zdrop n a ++ zdrop (n - zlen a) b.
Proof. intros. unfold zdrop, zlen. rewrite skipn_app. do 2 f_equal. lia. Qed.
Lemma ztake_all : forall A n (l : list A), zlen l <= n -> ztake n l = l.
Proof. intros. unfold ztake. apply firstn_all2. unfold zlen in *. lia. Qed.
Lemma zdrop_all : forall A n (l : list A), zlen l <= n -> zdrop n l = [].
Proof. intros. unfold zdrop. apply skipn_all2. unfold zlen in *. lia. Qed.
Lemma ztake_neg : forall A n (l : list A), n <= 0 -> ztake n l = [].
Proof. intros. unfold ztake. replace (Z.to_nat n) with O by lia. reflexivity. Qed.
Lemma zdrop_neg : forall A n (l : list A), n <= 0 -> zdrop n l = l.
Proof. intros. unfold zdrop. replace (Z.to_nat n) with O by lia. reflexivity. Qed.
Lemma ztake_nil : forall A n, ztake n (@nil A) = [].
Proof. intros. unfold ztake. apply firstn_nil. Qed.
Lemma zdrop_nil : forall A n, zdrop n (@nil A) = [].
Proof. intros. unfold zdrop. apply skipn_nil. Qed.

(* sys_wr when the checker ignores its four kinds of output lines *)
Section Derived2.
Context {H S : Type}.
Variable hstep : H -> ev -> option H.
Variable step : S -> ev -> option S.
Variable h0 : H.
Variable s0 : S.
Local Notation INV := (Inv hstep step h0 s0).
Local Notation rel := (H -> S -> lstate -> Prop).

Lemma Inv_sys_wr_ign : forall (P : line -> Prop) (R : rel) cid fd src exact w k w',
  pull_ok hstep step R -> in_ign hstep step P R ->
  (forall off n rest, P ("r", ASym "wr" :: AInt off :: AInt n :: rest)) ->
  out_ign hstep step (obs "sys" [ASym "wr"; AInt fd]) ->
  (forall d, out_ign hstep step (obs "wdata" [ABytes d])) ->
  (forall d, out_ign hstep step ("g", [ASym "fail"; AInt cid; ABytes d])) ->
  (forall d, out_ign hstep step ("g", [ASym "hand"; AInt cid; ABytes d])) ->
  (forall d, out_ign hstep step ("g", [ASym "eagain"; AInt cid; ABytes d])) ->
  INV R w -> sys_wr cid fd src exact w = (k, w') -> INV R w'.
Proof.
  intros P R cid fd src exact w k w' PO HP HN O1 O2 O3 O4 O5 HI E. rewrite sys_wr_eq in E.
  destruct (pull _) as [[[nm0 args]|] w1] eqn:Ep.
  - assert (HI0 : INV R (emit (obs "sys" [ASym "wr"; AInt fd]) w)) by (apply Inv_emit_ign; assumption).
    pose proof (Inv_pull hstep step h0 s0 R _ _ w1 PO HI0 Ep) as HA. cbn [after_pull] in HA.
    destruct (String.eqb_spec nm0 "r") as [->|N].
    + destruct args as [|[?|?|nm] [|[off|?|?] [|[n|?|?] rest]]];
        try (inversion E; subst; apply Inv_dead; eapply Inv_desync; exact HA).
      unfold sym_eqb in E. destruct (String.eqb_spec nm "wr") as [->|N]; cbn [negb] in E;
        [|inversion E; subst; apply Inv_dead; eapply Inv_desync; exact HA].
      destruct ((off <? 0) || (zlen src <? off) || (off <? n));
        [inversion E; subst; apply Inv_dead; eapply Inv_desync; exact HA|].
      assert (HR : INV R w1) by (eapply Inv_after_in; eauto).
      cbv zeta in E.
      assert (HR2 : INV R (emit (obs "wdata" [ABytes (if exact then src else ztake off src)]) w1))
        by (apply Inv_emit_ign; [apply O2|exact HR]).
      destruct (n <? 0).
      * destruct rest as [|[?|?|e] ?]; inversion E; subst;
          try (apply Inv_emit_ign; [apply O3|exact HR2]).
        destruct (is_eagain e); [apply Inv_emit_ign; [apply O5|exact HR2]|apply Inv_emit_ign; [apply O3|exact HR2]].
      * inversion E; subst. apply Inv_emit_ign; [apply O4|exact HR2].
    + inversion E; subst. apply Inv_dead. eapply Inv_desync. exact HA.
  - inversion E; subst. apply Inv_dead.
    refine (Inv_pull hstep step h0 s0 R _ _ _ PO _ Ep). apply Inv_emit_ign; assumption.
Qed.

End Derived2.

(* an output line emitted after a state change *)
Section Derived3.
Context {H S : Type}.
Variable hstep : H -> ev -> option H.
Variable step : S -> ev -> option S.
Variable h0 : H.
Variable s0 : S.
Local Notation INV := (Inv hstep step h0 s0).
Local Notation rel := (H -> S -> lstate -> Prop).

Lemma Inv_set_emit : forall (R R' : rel) l w s',
  INV R w ->
  is_desync (EOut l) = false ->
  (forall h x, halt w = false -> R h x (st w) ->
     match hstep h (EOut l) with
     | None => True
     | Some h' => exists x', step x (EOut l) = Some x' /\ R' h' x' s'
     end) ->
  INV R' (emit l (with_st w s')).
Proof.
  intros R R' l w s' HI Hd HR. rewrite emit_with_st.
  eapply Inv_with_st with (R := fun h x _ => R' h x s'); [|auto].
  eapply Inv_emit; [exact HI|exact Hd|]. rewrite ?st_emit. exact HR.
Qed.

Lemma Inv_wsetc_emit : forall (R R' : rel) l w cid c,
  INV R w ->
  is_desync (EOut l) = false ->
  (forall h x, halt w = false -> R h x (st w) ->
     match hstep h (EOut l) with
     | None => True
     | Some h' => exists x', step x (EOut l) = Some x' /\ R' h' x' (setc (st w) cid c)
     end) ->
  INV R' (emit l (wsetc w cid c)).
Proof. intros. unfold wsetc. apply Inv_set_emit with (R := R); assumption. Qed.

End Derived3.

Section Derived4.
Context {H S : Type}.
Variable hstep : H -> ev -> option H.
Variable step : S -> ev -> option S.
Variable h0 : H.
Variable s0 : S.
Local Notation INV := (Inv hstep step h0 s0).
Local Notation rel := (H -> S -> lstate -> Prop).

(* a state change right after an output line *)
Lemma Inv_emit_wsetc : forall (R R' : rel) l w cid c,
  INV R w ->
  is_desync (EOut l) = false ->
  (forall h x, halt w = false -> R h x (st w) ->
     match hstep h (EOut l) with
     | None => True
     | Some h' => exists x', step x (EOut l) = Some x' /\ R' h' x' (setc (st w) cid c)
     end) ->
  INV R' (wsetc (emit l w) cid c).
Proof.
  intros R R' l w cid c HI Hd HR. unfold wsetc. rewrite st_emit.
  eapply Inv_with_st with (R := fun h x _ => R' h x (setc (st w) cid c)); [|auto].
  eapply Inv_emit; [exact HI|exact Hd|exact HR].
Qed.

End Derived4.

(* the reply loop of el.open, named *)
Definition open_loop (cid : Z) : nat -> list Z -> world -> bool * world :=
  fix open_loop (k : nat) (data : list Z) (w : world) : bool * world :=
    match k with
    | O => (false, desync "fuel" w)
    | S k' =>
      match data with
      | [] =>
        match sys_wr cid (c_fd (wc w cid)) [] true w with
        | (KErr e, w') => if is_eagain e then (true, w') else (false, w')
        | (_, w') => (true, w')
        end
      | _ =>
      match sys_wr cid (c_fd (wc w cid)) data true w with
      | (KErr e, w') =>
          if is_eagain e then
            let c' := wc w' cid in (true, wsetc w' cid (c_set_out c' (c_out c' ++ data)))
          else (false, w')
      | (KOk n _, w') =>
          match zdrop n data with
          | [] => (true, w')
          | rest => open_loop k' rest w'
          end
      | (KNone, w') => (true, w')
      end
      end
    end.

Lemma el_open_eq : forall fuel cid w, el_open fuel cid w =
  let c := wc w cid in
  let w1 := wsetc w cid (c_set_opened c true) in
  let w2 := emit (obs "cb" [ASym "open"; AInt cid]) w1 in
  let '(act, reply, w3) := handler fuel cid w2 in
  if negb (c_opened (wc w3 cid)) then
    match act with
    | AShutdown => (RShutdown, w3)
    | _ => (RNil, w3)
    end
  else
  let '(ok, w4) :=
    match reply with
    | None => (true, w3)
    | Some data =>
      let c3 := wc w3 cid in
      let w3 := if c_udp c3 then w3 else ghost "sub" cid data w3 in
      if c_udp c3 && negb (c_remote c3) then
        match sys "sendto" [AInt (c_fd c3); ABytes data; bool_arg false] w3 with
        | (KErr _, w') => (false, w')
        | (_, w') => (true, w')
        end
      else if (match c_out c3 with [] => false | _ => true end) then
        (true, wsetc w3 cid (c_set_out c3 (c_out c3 ++ data)))
      else open_loop cid (S (List.length (inp w3))) data w3
    end in
  if negb ok then el_close fuel cid false w4
  else
    let c4 := wc w4 cid in
    let '(r5, w5) :=
      match c_out c4 with
      | _ :: _ => if l_et (st w4) then (RNil, w4) else epctl "mod" (c_fd c4) true false w4
      | [] => (RNil, w4)
      end in
    match r5 with
    | RNil =>
      match act with
      | ANone => (RNil, w5)
      | AClose => el_close fuel cid true w5
      | AShutdown => (RShutdown, w5)
      end
    | _ => el_close fuel cid false w5
    end.
Proof. reflexivity. Qed.

Lemma close_conns_eq : forall f w, close_conns (S f) w =
  if halt w then w else
  match l_reg (st w) with
  | [] => w
  | _ =>
    match pull_gen true w with
    | (Some (name, args), w1) =>
        if String.eqb name "pick" then
          match args with
          | [AInt cid] => let '(_, w2) := el_close f cid true w1 in close_conns f w2
          | _ => desync "expected-pick" w1
          end
        else desync "expected-pick" w1
    | (None, w1) => w1
    end
  end.
Proof.
  intros. cbn [close_conns]. destruct (halt w); [reflexivity|].
  destruct (l_reg (st w)); [reflexivity|].
  destruct (pull_gen true w) as [[[name args]|] w1]; [|reflexivity].
  crack_goal reflexivity.
Qed.

Lemma polling_eq : forall f w, polling (S f) w =
  let w := emit ("g", [ASym "count"; AInt (zlen (l_reg (st w))); ABytes []]) w in
  let w := fold_left (fun w fc => if c_udp (wc w (snd fc)) then w else
                                  emit ("g", [ASym "pending"; AInt (snd fc); AInt (fst fc);
                                              AInt (zlen (c_out (wc w (snd fc))))]) w) (l_reg (st w)) w in
  match pull w with
  | (None, w1) => w1
  | (Some (name, evs), w1) =>
      if String.eqb name "wait" then
        match events f evs false w1 with
        | (RShutdown, _, w2) => close_conns f w2
        | (RAccept, _, w2) => close_conns f w2
        | (_, true, w2) =>
            match chores f w2 with
            | (RShutdown, w3) => close_conns f w3
            | (_, w3) => polling f w3
            end
        | (_, false, w2) => polling f w2
        end
      else desync "expected-wait" w1
  end.
Proof.
  intros. cbn [polling]. cbv zeta.
  destruct (pull _) as [[[name args]|] w1]; [|reflexivity].
  crack_goal reflexivity.
Qed.

(* the initial world *)
Lemma init_world_spec : forall i w, init_world i = Some w ->
  log w = [] /\ halt w = false /\ l_conns (st w) = [] /\ l_reg (st w) = [] /\
  l_urgent (st w) = [] /\ l_low (st w) = [] /\ l_next (st w) = 0.
Proof.
  intros i w E. unfold init_world in E.
  destruct i as [|[name args] r]; [discriminate|].
  crack_hyp E ltac:(discriminate E).
  repeat match type of E with
    | context [match ?a with [] => _ | _ :: _ => _ end] => is_var a; destruct a; try discriminate E
    | context [match ?a with AInt _ => _ | ABytes _ => _ | ASym _ => _ end] => is_var a; destruct a; try discriminate E
    end.
  destruct (take_listeners r) as [ls r']. inversion E; subst. cbn. auto 10.
Qed.

(* answers of the consuming handler calls are fronts of c_in ++ c_buf *)
Lemma is_prefix_refl : forall l, is_prefix l l = true.
Proof. intros. rewrite <- (app_nil_r l) at 2. apply is_prefix_app. Qed.

Lemma read_take : forall (n : Z) (a b : list Z),
  ztake n a ++ ztake (n - zlen (ztake n a)) b = ztake n (a ++ b).
Proof.
  intros. rewrite ztake_app. f_equal. rewrite zlen_ztake. pose proof (zlen_nonneg _ a).
  destruct (Z_le_gt_dec n 0) as [H0|H0]; [rewrite !ztake_neg by lia; reflexivity|].
  destruct (Z_le_gt_dec n (zlen a)) as [H1|H1].
  - rewrite !ztake_neg by lia. reflexivity.
  - f_equal. lia.
Qed.
Lemma read_drop : forall (n : Z) (a b : list Z),
  zdrop n a ++ zdrop (n - zlen (ztake n a)) b = zdrop n (a ++ b).
Proof.
  intros. rewrite zdrop_app. f_equal. rewrite zlen_ztake. pose proof (zlen_nonneg _ a).
  destruct (Z_le_gt_dec n 0) as [H0|H0]; [rewrite !zdrop_neg by lia; reflexivity|].
  destruct (Z_le_gt_dec n (zlen a)) as [H1|H1].
  - rewrite !zdrop_neg by lia. reflexivity.
  - f_equal. lia.
Qed.
Lemma read_take_in : forall (n : Z) (a b : list Z), zlen (ztake n a) = n -> ztake n a = ztake n (a ++ b).
Proof.
  intros n a b E. rewrite ztake_app. rewrite zlen_ztake in E. pose proof (zlen_nonneg _ a).
  rewrite (ztake_neg _ (n - zlen a)) by lia. rewrite app_nil_r. reflexivity.
Qed.
Lemma read_drop_in : forall (n : Z) (a b : list Z), zlen (ztake n a) = n -> zdrop n a ++ b = zdrop n (a ++ b).
Proof.
  intros n a b E. rewrite zdrop_app. rewrite zlen_ztake in E. pose proof (zlen_nonneg _ a).
  rewrite (zdrop_neg _ (n - zlen a)) by lia. reflexivity.
Qed.


(* the `g pending` markers of a polling iteration, when the checker ignores them *)
Definition pending_fold (l : list (Z * Z)) (w : world) : world :=
  fold_left (fun w fc => if c_udp (wc w (snd fc)) then w else
                         emit ("g", [ASym "pending"; AInt (snd fc); AInt (fst fc);
                                     AInt (zlen (c_out (wc w (snd fc))))]) w) l w.

Section Derived5.
Context {H S : Type}.
Variable hstep : H -> ev -> option H.
Variable step : S -> ev -> option S.
Variable h0 : H.
Variable s0 : S.
Local Notation INV := (Inv hstep step h0 s0).

Lemma Inv_pending_ign : forall (R : H -> S -> lstate -> Prop) l w,
  (forall cid fd n, out_ign hstep step ("g", [ASym "pending"; AInt cid; AInt fd; AInt n])) ->
  INV R w -> INV R (pending_fold l w).
Proof.
  intros R l. unfold pending_fold. induction l as [|fc l IH]; intros w HO HI; cbn [fold_left]; [exact HI|].
  apply IH; [exact HO|]. destruct (c_udp _); [exact HI|]. apply Inv_emit_ign; [apply HO|exact HI].
Qed.

End Derived5.
