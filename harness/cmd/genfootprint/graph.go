package main

import (
	"fmt"
	"sort"
	"strings"
)

type rowSpec struct {
	name    string
	role    string
	entries []string
	keepVia bool
}

type rowOut struct {
	spec   rowSpec
	acc    []access
	cbs    []cbsite
	spawns []spawn
}

// The operations the property calls concurrency-safe.
var userAPI = []string{
	"conn.AsyncWrite", "conn.AsyncWritev", "conn.Wake", "conn.Close", "conn.CloseWithCallback",
	"conn.SafeContext", "conn.SetSafeContext", "conn.Fd", "conn.Dup",
	"conn.SetReadBuffer", "conn.SetWriteBuffer", "conn.SetLinger", "conn.SetNoDelay",
	"conn.SetKeepAlivePeriod", "conn.SetKeepAlive",
	"eventloop.Execute", "eventloop.Register", "eventloop.Enroll",
	"Engine.CountConnections", "Engine.Stop",
}

// Methods documented as usable only inside the event handler: they run on the loop thread.
var handlerAPI = []string{
	"conn.Read", "conn.Next", "conn.Peek", "conn.Discard", "conn.Write", "conn.SendTo", "conn.Writev",
	"conn.ReadFrom", "conn.WriteTo", "conn.Flush", "conn.InboundBuffered", "conn.OutboundBuffered",
	"conn.Context", "conn.SetContext", "conn.LocalAddr", "conn.RemoteAddr", "conn.EventLoop",
	"conn.SetDeadline", "conn.SetReadDeadline", "conn.SetWriteDeadline",
	"eventloop.Close", "eventloop.Schedule",
}

type visitState struct {
	guards []guard
}

// closure computes the nodes reachable on the calling goroutine from the entries,
// with the guards common to all paths to each node.
func (w *world) closure(entries []*fnode) map[skey]*visitState {
	st := map[skey]*visitState{}
	var work []skey
	for _, e := range entries {
		k := skey{e, 0}
		if _, ok := st[k]; !ok {
			st[k] = &visitState{}
			work = append(work, k)
		}
	}
	for len(work) > 0 {
		k := work[len(work)-1]
		work = work[:len(work)-1]
		sum := w.summarize(k.fn, k.mask)
		if sum == nil {
			continue
		}
		pre := st[k].guards
		for _, e := range sum.edges {
			g := normGuards(append(append([]guard(nil), pre...), e.guards...))
			nk := skey{e.callee, e.mask}
			if old, ok := st[nk]; !ok {
				st[nk] = &visitState{guards: g}
				work = append(work, nk)
			} else {
				ng := interGuards(old.guards, g)
				if len(ng) < len(old.guards) {
					old.guards = ng
					work = append(work, nk)
				}
			}
		}
	}
	return st
}

func (w *world) buildRow(spec rowSpec) (*rowOut, []string) {
	var entries []*fnode
	var missing []string
	for _, n := range spec.entries {
		if fn := w.byName[n]; fn != nil {
			entries = append(entries, fn)
		} else {
			missing = append(missing, n)
		}
	}
	out := &rowOut{spec: spec}
	st := w.closure(entries)
	var keys []skey
	for k := range st {
		keys = append(keys, k)
	}
	sort.Slice(keys, func(i, j int) bool {
		if keys[i].fn.name != keys[j].fn.name {
			return keys[i].fn.name < keys[j].fn.name
		}
		return keys[i].mask < keys[j].mask
	})
	for _, k := range keys {
		sum := w.summarize(k.fn, k.mask)
		if sum == nil {
			continue
		}
		pre := st[k].guards
		for _, a := range sum.acc {
			a.guards = sameStructGuards(a.loc, normGuards(append(append([]guard(nil), pre...), a.guards...)))
			out.acc = append(out.acc, a)
		}
		for _, c := range sum.cbs {
			c.guards = normGuards(append(append([]guard(nil), pre...), c.guards...))
			out.cbs = append(out.cbs, c)
		}
		out.spawns = append(out.spawns, sum.spawns...)
		for _, u := range sum.untrans {
			missing = append(missing, "construct:"+u)
		}
	}
	return out, missing
}

func ownerOf(loc string) string {
	loc = strings.TrimSuffix(loc, "[]")
	if i := strings.LastIndex(loc, "."); i >= 0 {
		return loc[:i]
	}
	return loc
}

// only guards on a field of the same struct as the accessed location are kept
func sameStructGuards(loc string, gs []guard) []guard {
	var out []guard
	for _, g := range gs {
		if ownerOf(g.loc) == ownerOf(loc) {
			out = append(out, g)
		}
	}
	return out
}

func accKey(a access, via bool) string {
	k := fmt.Sprintf("%s|%s|%v|%s", a.loc, a.kind, a.owned, guardsKey(a.guards))
	if via {
		k += "|" + a.via
	}
	return k
}

func dedupAcc(in []access, via bool) []access {
	seen := map[string]bool{}
	var out []access
	for _, a := range in {
		if !via {
			a.via = ""
		}
		k := accKey(a, via)
		if !seen[k] {
			seen[k] = true
			out = append(out, a)
		}
	}
	sort.Slice(out, func(i, j int) bool { return accKey(out[i], true) < accKey(out[j], true) })
	return out
}

type writerOut struct {
	loc, kind string
	init      bool
	role, fn  string
	guards    []guard
}

func (x writerOut) key() string {
	return fmt.Sprintf("%s|%s|%s|%s|%v|%s", x.loc, x.fn, x.role, x.kind, x.init, guardsKey(x.guards))
}

type analysis struct {
	rows     []*rowOut
	writers  []writerOut
	cbs      []string // coq terms
	tasks    []string
	problems []string
}

func (w *world) analyse() *analysis {
	res := &analysis{}
	// 1. every function value handed to Poller.Trigger anywhere is a loop-thread root;
	//    every closure handed to Submit / go is a worker; errgroup closures by what they run.
	triggerTargets := map[string]bool{}
	workerTargets := map[string]bool{}
	tickerTargets := map[string]bool{}
	var names []string
	for n := range w.byName {
		names = append(names, n)
	}
	sort.Strings(names)
	scanned := map[*fnode]bool{}
	var scan func(fn *fnode)
	scan = func(fn *fnode) {
		if scanned[fn] {
			return
		}
		scanned[fn] = true
		sum := w.summarize(fn, 0)
		if sum == nil {
			return
		}
		for _, sp := range sum.spawns {
			if sp.target == nil {
				res.problems = append(res.problems, fmt.Sprintf("unresolved function value %s handed to %s in %s", sp.text, sp.kind, sp.from))
				continue
			}
			switch sp.kind {
			case "trigger":
				triggerTargets[sp.target.name] = true
				res.tasks = append(res.tasks, fmt.Sprintf("(%s, %s)", coqStr(sp.target.name), coqStr(fn.name)))
			case "submit", "go":
				workerTargets[sp.target.name] = true
			case "errgroup":
				switch {
				case strings.HasSuffix(sp.target.name, "eventloop.run"), strings.HasSuffix(sp.target.name, "eventloop.orbit"),
					strings.HasSuffix(sp.target.name, "eventloop.rotate"):
				default:
					tickerTargets[sp.target.name] = true
				}
			}
			if sp.target.lit != nil {
				scan(sp.target) // a spawned closure is not part of its parent: look inside it too
			}
		}
	}
	for _, n := range names {
		if fn := w.byName[n]; fn.lit == nil {
			scan(fn)
		}
	}
	sortedKeys := func(m map[string]bool) []string {
		var ks []string
		for k := range m {
			ks = append(ks, k)
		}
		sort.Strings(ks)
		return ks
	}
	var specs []rowSpec
	for _, n := range userAPI {
		specs = append(specs, rowSpec{name: n, role: "RUser", entries: []string{n}, keepVia: true})
	}
	for _, n := range sortedKeys(workerTargets) {
		specs = append(specs, rowSpec{name: n, role: "RWorker", entries: []string{n}, keepVia: true})
	}
	loopEntries := append([]string{"eventloop.run", "eventloop.orbit"}, handlerAPI...)
	loopEntries = append(loopEntries, sortedKeys(triggerTargets)...)
	specs = append(specs,
		rowSpec{name: "loop", role: "RLoop", entries: loopEntries},
		rowSpec{name: "acceptor", role: "RAcceptor", entries: []string{"eventloop.rotate"}},
		rowSpec{name: "ticker", role: "RTicker", entries: append([]string{"eventloop.ticker"}, sortedKeys(tickerTargets)...)},
		rowSpec{name: "Run", role: "REngine", entries: []string{"Run"}},
		rowSpec{name: "Client.Start", role: "REngine", entries: []string{"Client.Start"}},
		rowSpec{name: "Client.Stop", role: "REngine", entries: []string{"Client.Stop"}},
	)
	visited := map[*fnode]bool{}
	wseen := map[string]bool{}
	cseen := map[string]bool{}
	for _, sp := range specs {
		row, missing := w.buildRow(sp)
		for _, m := range missing {
			res.problems = append(res.problems, "row "+sp.name+": "+m)
		}
		for _, a := range row.acc {
			if a.kind == "W" || a.kind == "AW" {
				x := writerOut{loc: a.loc, kind: a.kind, init: a.owned, role: sp.role, fn: a.via, guards: a.guards}
				if !wseen[x.key()] {
					wseen[x.key()] = true
					res.writers = append(res.writers, x)
				}
			}
		}
		for _, c := range row.cbs {
			t := fmt.Sprintf("mkCb %s %s %s %s", coqStr(c.kind), coqStr(c.via), sp.role, coqStr(sp.name))
			if !cseen[t] {
				cseen[t] = true
				res.cbs = append(res.cbs, t)
			}
		}
		st := w.closure(func() []*fnode {
			var es []*fnode
			for _, n := range sp.entries {
				if fn := w.byName[n]; fn != nil {
					es = append(es, fn)
				}
			}
			return es
		}())
		for k := range st {
			visited[k.fn] = true
		}
		row.acc = dedupAcc(row.acc, true)
		res.rows = append(res.rows, row)
	}
	// 2. writes in functions no row reaches (APIs outside the property's list, dead code)
	for _, n := range names {
		fn := w.byName[n]
		if visited[fn] || fn.lit != nil {
			continue
		}
		sum := w.summarize(fn, 0)
		if sum == nil {
			continue
		}
		for _, a := range sum.acc {
			if a.kind == "W" || a.kind == "AW" {
				x := writerOut{loc: a.loc, kind: a.kind, init: a.owned, role: "ROut", fn: a.via, guards: sameStructGuards(a.loc, normGuards(a.guards))}
				if !wseen[x.key()] {
					wseen[x.key()] = true
					res.writers = append(res.writers, x)
				}
			}
		}
	}
	sort.Slice(res.writers, func(i, j int) bool { return res.writers[i].key() < res.writers[j].key() })
	sort.Strings(res.cbs)
	sort.Strings(res.tasks)
	return res
}
