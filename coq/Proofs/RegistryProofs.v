(* C14: both registry variants refine the finite-map specification Spec/FinMap.v
   for every finite sequence of registrations, removals and iterations. *)
From Coq Require Import Lia ZArith ZifyBool Permutation.
From GV Require Import Lib.Trace Spec.FinMap Model.Registry Proofs.ZMapFacts Proofs.MatrixProofs.
Open Scope Z_scope.
Open Scope list_scope.

(* ------------------------------------------------------------------ *)
(* the specification: association lists with unique keys and values     *)

Definition sp_ok (s : fmap) : Prop := NoDup (map fst s) /\ NoDup (map snd s).

Lemma fm_get_in : forall s fd id, NoDup (map fst s) -> (fm_get s fd = Some id <-> In (fd, id) s).
Proof.
  induction s as [|[k v] s IH]; intros fd id Hn; cbn.
  - split; [discriminate|tauto].
  - inversion Hn as [|? ? Hk Hn']; subst. destruct (Z.eqb_spec k fd) as [->|N].
    + split.
      * intros H; inversion H; auto.
      * intros [H|H]; [inversion H; reflexivity|]. exfalso. apply Hk. apply in_map_iff. exists (fd, id). auto.
    + rewrite IH by assumption. split; [auto|]. intros [H|H]; [inversion H; congruence|exact H].
Qed.

Lemma fm_get_none_notin : forall s fd, fm_get s fd = None -> forall p, In p s -> fst p <> fd.
Proof.
  induction s as [|[k v] s IH]; intros fd H p Hp; cbn in *; [contradiction|].
  destruct (Z.eqb_spec k fd); [discriminate|]. destruct Hp as [<-|Hp]; cbn; auto.
Qed.

Lemma fm_vals_get : forall s id, NoDup (map fst s) -> (In id (fm_vals s) <-> exists fd, fm_get s fd = Some id).
Proof.
  intros s id Hn. unfold fm_vals. rewrite in_map_iff. split.
  - intros ([fd v] & E & H). cbn in E; subst v. exists fd. apply fm_get_in; auto.
  - intros (fd & H). apply fm_get_in in H; auto. exists (fd, id). auto.
Qed.

Lemma NoDup_map_filter : forall A B (f : A -> B) (p : A -> bool) l, NoDup (map f l) -> NoDup (map f (filter p l)).
Proof.
  induction l as [|a l IH]; intros H; cbn; [constructor|]. inversion H; subst.
  destruct (p a); cbn; auto. constructor; auto.
  intro Hin. apply in_map_iff in Hin. destruct Hin as (x & E & Hx). apply filter_In in Hx.
  match goal with H : ~ In _ _ |- _ => apply H end. apply in_map_iff. exists x. tauto.
Qed.

Lemma sp_ok_filter : forall s p, sp_ok s -> sp_ok (filter p s).
Proof. intros s p (A & B). split; apply NoDup_map_filter; assumption. Qed.

Lemma fm_get_filter_key : forall (p : Z -> bool) s fd, NoDup (map fst s) ->
  fm_get (filter (fun q => p (fst q)) s) fd = if p fd then fm_get s fd else None.
Proof.
  induction s as [|[k v] s IH]; intros fd Hn; cbn.
  - destruct (p fd); reflexivity.
  - inversion Hn as [|? ? Hk Hn']; subst. destruct (p k) eqn:Ep; cbn.
    + destruct (Z.eqb_spec k fd) as [->|N]; [rewrite Ep; reflexivity|]. apply IH; assumption.
    + rewrite IH by assumption. destruct (Z.eqb_spec k fd) as [->|N]; [rewrite Ep; reflexivity|reflexivity].
Qed.

Lemma filter_all : forall A (p : A -> bool) l, (forall x, In x l -> p x = true) -> filter p l = l.
Proof.
  induction l as [|a l IH]; intros H; cbn; [reflexivity|]. rewrite H by (cbn; auto). f_equal. apply IH.
  intros; apply H; cbn; auto.
Qed.
Lemma filter_none : forall A (p : A -> bool) l, (forall x, In x l -> p x = false) -> filter p l = [].
Proof.
  induction l as [|a l IH]; intros H; cbn; [reflexivity|]. rewrite H by (cbn; auto). apply IH.
  intros; apply H; cbn; auto.
Qed.

Lemma filter_length_split : forall A (p : A -> bool) l,
  (List.length (filter p l) + List.length (filter (fun x => negb (p x)) l) = List.length l)%nat.
Proof. induction l as [|a l IH]; cbn; [reflexivity|]. destruct (p a); cbn; lia. Qed.

(* registration *)
Lemma sp_add : forall s fd id, sp_ok s -> fm_get s fd = None -> ~ In id (fm_vals s) ->
  sp_ok (fm_add s fd id) /\
  (forall fd', fm_get (fm_add s fd id) fd' = if fd' =? fd then Some id else fm_get s fd') /\
  fm_size (fm_add s fd id) = fm_size s + 1.
Proof.
  intros s fd id (A & B) Hg Hv. unfold fm_add, fm_remove.
  rewrite filter_all.
  2:{ intros p Hp. pose proof (fm_get_none_notin s fd Hg p Hp). lia. }
  splits.
  - split; cbn; constructor; auto. intro Hin. apply in_map_iff in Hin. destruct Hin as (p & E & Hp).
    apply (fm_get_none_notin s fd Hg p Hp). exact E.
  - intros fd'. cbn. destruct (Z.eqb_spec fd fd'), (Z.eqb_spec fd' fd); try congruence; reflexivity.
  - unfold fm_size. cbn [List.length]. lia.
Qed.

(* removal of a registered connection *)
Lemma sp_del : forall s fd id, sp_ok s -> fm_get s fd = Some id ->
  let s' := filter (fun p => negb (snd p =? id)) s in
  sp_ok s' /\ (forall fd', fm_get s' fd' = if fd' =? fd then None else fm_get s fd') /\
  fm_size s' = fm_size s - 1.
Proof.
  intros s fd id Hok Hg s'. split; [apply sp_ok_filter; exact Hok|].
  destruct Hok as (A & B). subst s'. revert fd Hg A B.
  induction s as [|[k v] s IH]; intros fd Hg A B; cbn in Hg; [discriminate|].
  inversion A as [|? ? Ak A']; subst. inversion B as [|? ? Bv B']; subst. cbn in Ak, Bv.
  cbn [filter snd]. destruct (Z.eqb_spec k fd) as [->|N].
  - inversion Hg; subst v. rewrite Z.eqb_refl. cbn [negb].
    rewrite filter_all.
    2:{ intros [k' v'] Hp. cbn. destruct (Z.eqb_spec v' id) as [->|]; [|reflexivity].
        exfalso. apply Bv. apply in_map_iff. exists (k', id). auto. }
    split.
    + intros fd'. cbn. destruct (Z.eqb_spec fd fd'), (Z.eqb_spec fd' fd); try congruence.
      subst. destruct (fm_get s fd') eqn:E; [|reflexivity]. exfalso. apply Ak.
      apply fm_get_in in E; auto. apply in_map_iff. exists (fd', z). auto.
    + unfold fm_size. cbn [List.length]. lia.
  - destruct (IH fd Hg A' B') as (G & S).
    destruct (Z.eqb_spec v id) as [->|Nv].
    + exfalso. apply Bv. apply fm_get_in in Hg; auto. apply in_map_iff. exists (fd, id). auto.
    + cbn [negb]. split.
      * intros fd'. cbn. rewrite G. destruct (Z.eqb_spec k fd'), (Z.eqb_spec fd' fd); try congruence; reflexivity.
      * unfold fm_size in *. cbn [List.length]. lia.
Qed.

(* iteration with a removing visitor *)
Lemma sp_iter : forall s m k, sp_ok s ->
  let s' := filter (fun p => negb (del_pred m k (fst p))) s in
  sp_ok s' /\ (forall fd', fm_get s' fd' = if del_pred m k fd' then None else fm_get s fd').
Proof.
  intros s m k Hok s'. split; [apply sp_ok_filter; exact Hok|]. intros fd'. subst s'.
  rewrite (fm_get_filter_key (fun x => negb (del_pred m k x))) by apply Hok.
  destruct (del_pred m k fd'); reflexivity.
Qed.

Lemma same_members_perm : forall (l l' : list Z), NoDup l -> NoDup l' -> (forall x, In x l <-> In x l') -> Permutation l l'.
Proof. intros. apply NoDup_Permutation; assumption. Qed.

(* ------------------------------------------------------------------ *)
(* the matrix variant refines the map                                   *)
Section MatrixRefines.
Variables ROW COL : Z.
Hypothesis HROW : 0 < ROW.
Hypothesis HCOL : 1 < COL.

Definition Rmx (st : matst) (s : fmap) : Prop :=
  matrix_inv ROW COL st /\ (forall fd, mx_get st fd = fm_get s fd) /\
  population COL st = fm_size s /\ sp_ok s.

Lemma Rmx_init : Rmx mx_init fm_empty.
Proof.
  unfold Rmx. splits.
  - apply inv_init; assumption.
  - intros fd. unfold mx_get, mx_init; cbn. rewrite zget_zempty. reflexivity.
  - reflexivity.
  - split; constructor.
Qed.

Lemma Rmx_ids : forall st s, Rmx st s ->
  NoDup (live_ids ROW COL st) /\ Permutation (live_ids ROW COL st) (fm_vals s).
Proof.
  intros st s (I & G & P & (A & B)).
  pose proof (live_ids_nodup ROW COL st I) as N. split; [exact N|].
  apply NoDup_Permutation; auto. intros id.
  rewrite (live_ids_in ROW COL HROW HCOL st id I), (cell_iff_get ROW COL st id I), (fm_vals_get s id A).
  split; intros (fd & H); exists fd; [rewrite <- G|rewrite G]; exact H.
Qed.

Lemma sim_add : forall st s id fd, Rmx st s -> sp_pre s (OAdd id fd) -> fm_size s < ROW * COL ->
  Rmx (mx_add ROW COL st id fd) (fm_add s fd id).
Proof.
  intros st s id fd (I & G & P & Hok) (Hg & Hv) Hcap.
  destruct (sp_add s fd id Hok Hg Hv) as (Hok' & G' & S').
  destruct (mx_add_inv ROW COL HCOL st id fd I) as (I' & Gm & Pm).
  - apply (population_full ROW COL HCOL st I). lia.
  - rewrite G. exact Hg.
  - intros r c Hc. apply Hv. apply fm_vals_get; [apply Hok|].
    destruct (proj1 (cell_iff_get ROW COL st id I)) as (fd0 & H0); [eauto|].
    exists fd0. rewrite <- G. exact H0.
  - unfold Rmx. splits; auto.
    + intros fd'. rewrite Gm, G', G. reflexivity.
    + lia.
Qed.

Lemma sim_del : forall st s id, Rmx st s -> sp_pre s (ODel id) ->
  exists st', mx_del ROW COL st id = Ret st' /\ Rmx st' (sp_step s (ODel id)).
Proof.
  intros st s id (I & G & P & Hok) Hv. cbn in Hv.
  apply fm_vals_get in Hv; [|apply Hok]. destruct Hv as (fd & Hg).
  assert (Hm : mx_get st fd = Some id) by (rewrite G; exact Hg).
  apply (mx_get_some ROW COL st fd id I) in Hm. destruct Hm as (r & c & Hc & Hh).
  destruct (mx_del_inv ROW COL HCOL st id fd r c I Hh Hc) as (st' & E & I' & Gm & Pm).
  destruct (sp_del s fd id Hok Hg) as (Hok' & G' & S').
  exists st'. split; [exact E|]. cbn [sp_step]. unfold Rmx. splits; auto.
  - intros fd'. rewrite Gm, G', G. reflexivity.
  - lia.
Qed.

Lemma sim_iter : forall st s m k, Rmx st s -> all_or_none (OIter m k) ->
  exists st' vis, mx_iterate ROW COL st m k (-1) = Ret (st', vis) /\
    Rmx st' (sp_step s (OIter m k)) /\ NoDup vis /\ Permutation vis (fm_vals s).
Proof.
  intros st s m k R Han. destruct (Rmx_ids st s R) as (Nd & Pm).
  destruct R as (I & G & P & Hok). cbn in Han. destruct Han as [Hn|Ha].
  - exists st, (live_ids ROW COL st). split; [apply mx_iterate_none; auto|].
    cbn [sp_step]. rewrite filter_all by (intros p _; rewrite Hn; reflexivity).
    unfold Rmx. splits; auto.
  - destruct (mx_iterate_all ROW COL HROW HCOL st m k I Ha) as (st' & E & I' & _ & G' & P').
    exists st', (live_ids ROW COL st). split; [exact E|].
    cbn [sp_step]. rewrite filter_none by (intros p _; rewrite Ha; reflexivity).
    unfold Rmx. splits; auto. split; constructor.
Qed.

Theorem mx_refines : forall ops st s,
  Rmx st s -> sp_wf s ops -> sp_below (ROW * COL) s ops -> Forall all_or_none ops ->
  exists st' outs, mx_run ROW COL st ops = Ret (st', outs) /\ Rmx st' (sp_run s ops) /\
    Forall2 (fun vis vals => NoDup vis /\ Permutation vis vals) outs (sp_outs s ops).
Proof.
  induction ops as [|o ops IH]; intros st s R Hwf Hcap Han.
  - exists st, []. cbn. splits; auto.
  - cbn in Hwf, Hcap. destruct Hwf as (Hpre & Hwf). destruct Hcap as (Hc1 & Hcap).
    inversion Han as [|? ? Ha1 Han']; subst.
    cbn [mx_run sp_run sp_outs]. destruct o as [id fd|id|m k].
    + cbn [mx_apply]. pose proof (sim_add st s id fd R Hpre Hc1) as R1.
      destruct (IH _ _ R1 Hwf Hcap Han') as (st' & outs & E & R' & F). rewrite E.
      exists st', outs. cbn. splits; auto.
    + cbn [mx_apply]. destruct (sim_del st s id R Hpre) as (st1 & E1 & R1). rewrite E1.
      destruct (IH _ _ R1 Hwf Hcap Han') as (st' & outs & E & R' & F). rewrite E.
      exists st', outs. cbn. splits; auto.
    + cbn [mx_apply]. destruct (sim_iter st s m k R Ha1) as (st1 & vis & E1 & R1 & Nd & Pm). rewrite E1.
      destruct (IH _ _ R1 Hwf Hcap Han') as (st' & outs & E & R' & F). rewrite E.
      exists st', (vis :: outs). cbn. splits; auto.
Qed.

End MatrixRefines.

(* ------------------------------------------------------------------ *)
(* the map variant refines the map (for every visitor)                  *)

Definition Rmp (st : mapst) (s : fmap) : Prop :=
  (forall fd, zget (mp_map st) fd = fm_get s fd) /\ mp_count st = fm_size s /\ sp_ok s /\
  (forall fd id, zget (mp_map st) fd = Some id -> exists c, zget (mp_heap st) id = Some c /\ c_fd c = fd).

Lemma Rmp_init : Rmp mp_init fm_empty.
Proof.
  unfold Rmp, mp_init; cbn. splits.
  - intros. apply zget_zempty.
  - reflexivity.
  - split; constructor.
  - intros fd id H. rewrite zget_zempty in H. discriminate.
Qed.

Lemma Rmp_elems : forall st s, Rmp st s -> Permutation (zelems (mp_map st)) s.
Proof.
  intros st s (G & _ & (A & _) & _). apply NoDup_Permutation.
  - apply zelems_nodup_pairs.
  - eapply NoDup_map_inv. exact A.
  - intros [fd id]. rewrite zelems_spec, G. apply fm_get_in. exact A.
Qed.

Lemma mp_sim_add : forall st s id fd, Rmp st s -> sp_pre s (OAdd id fd) -> Rmp (mp_add st id fd) (fm_add s fd id).
Proof.
  intros st s id fd (G & C & Hok & H) (Hg & Hv).
  destruct (sp_add s fd id Hok Hg Hv) as (Hok' & G' & S').
  unfold Rmp, mp_add; cbn [mp_map mp_count mp_heap]. splits; auto.
  - intros fd'. rewrite zget_zset, G', G. reflexivity.
  - lia.
  - intros fd' id'. rewrite !zget_zset. destruct (Z.eqb_spec fd' fd) as [->|N].
    + intros E; inversion E; subst id'. rewrite Z.eqb_refl. eexists; split; reflexivity.
    + intros E. destruct (Z.eqb_spec id' id) as [->|N'].
      * exfalso. apply Hv. apply fm_vals_get; [apply Hok|]. exists fd'. rewrite <- G. exact E.
      * apply H. exact E.
Qed.

Lemma mp_sim_del : forall st s id, Rmp st s -> sp_pre s (ODel id) ->
  exists st', mp_del st id = Ret st' /\ Rmp st' (sp_step s (ODel id)).
Proof.
  intros st s id (G & C & Hok & H) Hv. cbn in Hv.
  apply fm_vals_get in Hv; [|apply Hok]. destruct Hv as (fd & Hg).
  assert (Hm : zget (mp_map st) fd = Some id) by (rewrite G; exact Hg).
  destruct (H fd id Hm) as (c & Hc & Hfd).
  destruct (sp_del s fd id Hok Hg) as (Hok' & G' & S').
  unfold mp_del. rewrite Hc. eexists. split; [reflexivity|]. rewrite Hfd.
  unfold Rmp; cbn [mp_map mp_count mp_heap sp_step]. splits; auto.
  - intros fd'. rewrite zget_zdel, G', G. reflexivity.
  - lia.
  - intros fd' id'. rewrite zget_zdel. destruct (fd' =? fd); [discriminate|]. apply H.
Qed.

(* the traversal of a snapshot l of the map's entries *)
Definition key_in (x : Z) (l : list (Z * Z)) : bool := existsb (fun p => fst p =? x) l.

Lemma mp_visit_fold : forall m k (l : list (Z * Z)) st vis n,
  NoDup (map fst l) ->
  (forall fd id, In (fd, id) l -> zget (mp_map st) fd = Some id) ->
  (forall fd id, zget (mp_map st) fd = Some id -> exists c, zget (mp_heap st) id = Some c /\ c_fd c = fd) ->
  exists st' n',
    fold_left (mp_visit m k (-1)) l (Ret (st, vis, n, false)) = Ret (st', rev (map snd l) ++ vis, n', false) /\
    (forall x, zget (mp_map st') x = if key_in x l && del_pred m k x then None else zget (mp_map st) x) /\
    mp_count st' = mp_count st - Z.of_nat (List.length (filter (fun p => del_pred m k (fst p)) l)) /\
    mp_heap st' = mp_heap st.
Proof.
  intros m k. induction l as [|[fd id] l IH]; intros st vis n Hnd Hin Hheap.
  - exists st, n. cbn. splits; auto. lia.
  - inversion Hnd as [|? ? Hfd Hnd']; subst. cbn in Hfd.
    cbn [fold_left]. unfold mp_visit at 2. cbn [fst].
    rewrite (Hin fd id) by (cbn; auto).
    destruct (Hheap fd id) as (c & Hc & Hcfd); [apply Hin; cbn; auto|].
    rewrite Hc, Hcfd.
    assert (Hk : negb (keep_going (-1) (n + 1)) = false) by reflexivity. 
    destruct (del_pred m k fd) eqn:Ep.
    + unfold mp_del. rewrite Hc, Hcfd. rewrite Hk.
      set (st1 := mkMap (mp_count st - 1) (zdel (mp_map st) fd) (mp_heap st)).
      destruct (IH st1 (id :: vis) (n + 1) Hnd') as (st' & n' & E & M & C & Hp).
      * intros fd' id' H'. subst st1; cbn. rewrite zget_zdel.
        destruct (Z.eqb_spec fd' fd) as [->|N].
        -- exfalso. apply Hfd. apply in_map_iff. exists (fd, id'). auto.
        -- apply Hin. cbn; auto.
      * intros fd' id'. subst st1; cbn. rewrite zget_zdel. destruct (fd' =? fd); [discriminate|]. apply Hheap.
      * exists st', n'. splits.
        -- rewrite E. cbn [map snd rev]. rewrite <- app_assoc. reflexivity.
        -- intros x. rewrite M. subst st1; cbn [mp_map key_in existsb fst]. rewrite zget_zdel.
           fold (key_in x l). destruct (Z.eqb_spec fd x) as [->|N].
           ++ rewrite Z.eqb_refl, Ep. cbn. destruct (key_in x l); reflexivity.
           ++ replace (x =? fd) with false by lia. cbn [orb]. reflexivity.
        -- rewrite C. subst st1; cbn [mp_count filter fst]. rewrite Ep. cbn [List.length]. lia.
        -- rewrite Hp. reflexivity.
    + rewrite Hk. destruct (IH st (id :: vis) (n + 1) Hnd') as (st' & n' & E & M & C & Hp); auto.
      * intros fd' id' H'. apply Hin. cbn; auto.
      * exists st', n'. splits; auto.
        -- rewrite E. cbn [map snd rev]. rewrite <- app_assoc. reflexivity.
        -- intros x. rewrite M. cbn [key_in existsb fst]. fold (key_in x l).
           destruct (Z.eqb_spec fd x) as [->|N]; [rewrite Ep|]; cbn [orb]; [|reflexivity].
           rewrite Bool.andb_false_r. destruct (key_in x l && false); reflexivity.
        -- rewrite C. cbn [filter fst]. rewrite Ep. reflexivity.
Qed.

Lemma key_in_spec : forall x l, key_in x l = true <-> In x (map fst l).
Proof.
  intros. unfold key_in. rewrite existsb_exists, in_map_iff. split.
  - intros (p & Hp & E). exists p. split; [lia|exact Hp].
  - intros (p & E & Hp). exists p. split; [exact Hp|lia].
Qed.

Lemma mp_sim_iter : forall st s m k, Rmp st s ->
  exists st' vis, mp_iterate st m k (-1) = Ret (st', vis) /\
    Rmp st' (sp_step s (OIter m k)) /\ NoDup vis /\ Permutation vis (fm_vals s).
Proof.
  intros st s m k R. pose proof (Rmp_elems st s R) as Pm. destruct R as (G & C & Hok & H).
  unfold mp_iterate.
  destruct (mp_visit_fold m k (zelems (mp_map st)) st [] 0) as (st' & n' & E & M & Cn & Hp).
  - apply zelems_nodup.
  - intros fd id Hin. apply zelems_spec. exact Hin.
  - exact H.
  - rewrite E. rewrite app_nil_r, rev_append_nil, rev_involutive.
    eexists _, _. split; [reflexivity|].
    destruct (sp_iter s m k Hok) as (Hok' & G').
    assert (Pv : Permutation (map snd (zelems (mp_map st))) (fm_vals s)) by (apply Permutation_map; exact Pm).
    splits.
    + unfold Rmp. cbn [sp_step]. splits; auto.
      * intros x. rewrite M, G', G. destruct (del_pred m k x); [|rewrite Bool.andb_false_r; reflexivity].
        rewrite Bool.andb_true_r. destruct (key_in x (zelems (mp_map st))) eqn:K; [reflexivity|].
        destruct (fm_get s x) as [id|] eqn:Eg; [|reflexivity]. exfalso.
        assert (key_in x (zelems (mp_map st)) = true); [|congruence].
        apply key_in_spec. apply in_map_iff. exists (x, id). split; [reflexivity|].
        apply zelems_spec. rewrite G. exact Eg.
      * rewrite Cn, C. unfold fm_size.
        pose proof (filter_length_split _ (fun p : Z * Z => del_pred m k (fst p)) s) as Fs.
        assert (List.length (filter (fun p : Z * Z => del_pred m k (fst p)) (zelems (mp_map st))) =
                List.length (filter (fun p : Z * Z => del_pred m k (fst p)) s)) as El
          by (apply Permutation_length, Permutation_filter_compat; exact Pm).
        rewrite El. lia.
      * intros fd id. rewrite M, Hp. destruct (key_in fd (zelems (mp_map st)) && del_pred m k fd); [discriminate|]. apply H.
    + eapply Permutation_NoDup; [apply Permutation_sym; exact Pv|]. apply Hok.
    + exact Pv.
Qed.

Theorem mp_refines : forall ops st s,
  Rmp st s -> sp_wf s ops ->
  exists st' outs, mp_run st ops = Ret (st', outs) /\ Rmp st' (sp_run s ops) /\
    Forall2 (fun vis vals => NoDup vis /\ Permutation vis vals) outs (sp_outs s ops).
Proof.
  induction ops as [|o ops IH]; intros st s R Hwf.
  - exists st, []. cbn. splits; auto.
  - cbn in Hwf. destruct Hwf as (Hpre & Hwf).
    cbn [mp_run sp_run sp_outs]. destruct o as [id fd|id|m k].
    + cbn [mp_apply]. pose proof (mp_sim_add st s id fd R Hpre) as R1.
      destruct (IH _ _ R1 Hwf) as (st' & outs & E & R' & F). rewrite E.
      exists st', outs. cbn. splits; auto.
    + cbn [mp_apply]. destruct (mp_sim_del st s id R Hpre) as (st1 & E1 & R1). rewrite E1.
      destruct (IH _ _ R1 Hwf) as (st' & outs & E & R' & F). rewrite E.
      exists st', outs. cbn. splits; auto.
    + cbn [mp_apply]. destruct (mp_sim_iter st s m k R) as (st1 & vis & E1 & R1 & Nd & Pm). rewrite E1.
      destruct (IH _ _ R1 Hwf) as (st' & outs & E & R' & F). rewrite E.
      exists st', (vis :: outs). cbn. splits; auto.
Qed.

(* ------------------------------------------------------------------ *)
(* final statements (restated verbatim in Properties/C14.v)             *)

Theorem map_registry_refines_map : forall ops,
  sp_wf fm_empty ops ->
  exists st outs, mp_run mp_init ops = Ret (st, outs) /\
    (forall fd, mp_get st fd = fm_get (sp_run fm_empty ops) fd) /\
    mp_load st = fm_size (sp_run fm_empty ops) /\
    Forall2 (fun vis vals => NoDup vis /\ Permutation vis vals) outs (sp_outs fm_empty ops).
Proof.
  intros ops Hwf. destruct (mp_refines ops mp_init fm_empty Rmp_init Hwf) as (st & outs & E & (G & C & _) & F).
  exists st, outs. splits; auto.
Qed.

Theorem matrix_registry_refines_map_partial : forall ROW COL, 0 < ROW -> 1 < COL -> forall ops,
  sp_wf fm_empty ops -> sp_below (ROW * COL) fm_empty ops -> Forall all_or_none ops ->
  exists st outs, mx_run ROW COL mx_init ops = Ret (st, outs) /\
    matrix_inv ROW COL st /\
    (forall fd, mx_get st fd = fm_get (sp_run fm_empty ops) fd) /\
    mx_load ROW st = fm_size (sp_run fm_empty ops) /\
    Forall2 (fun vis vals => NoDup vis /\ Permutation vis vals) outs (sp_outs fm_empty ops).
Proof.
  intros ROW COL HROW HCOL ops Hwf Hcap Han.
  destruct (mx_refines ROW COL HROW HCOL ops mx_init fm_empty (Rmx_init ROW COL HROW HCOL) Hwf Hcap Han)
    as (st & outs & E & (I & G & P & _) & F).
  exists st, outs. splits; auto. rewrite (mx_load_pop ROW COL HROW HCOL st I). exact P.
Qed.

Theorem matrix_inv_init : forall ROW COL, 0 < ROW -> 1 < COL -> matrix_inv ROW COL mx_init.
Proof. exact inv_init. Qed.

Theorem matrix_add_spec : forall ROW COL, 0 < ROW -> 1 < COL -> forall st id fd,
  matrix_inv ROW COL st -> mx_load ROW st < ROW * COL ->
  mx_get st fd = None -> (forall fd', mx_get st fd' <> Some id) ->
  matrix_inv ROW COL (mx_add ROW COL st id fd) /\
  (forall fd', mx_get (mx_add ROW COL st id fd) fd' = if fd' =? fd then Some id else mx_get st fd') /\
  mx_load ROW (mx_add ROW COL st id fd) = mx_load ROW st + 1.
Proof.
  intros ROW COL HROW HCOL st id fd I Hcap Hg Hfresh.
  rewrite (mx_load_pop ROW COL HROW HCOL st I) in Hcap.
  destruct (mx_add_inv ROW COL HCOL st id fd I) as (I' & G & P); auto.
  - apply (population_full ROW COL HCOL st I). exact Hcap.
  - intros r c Hc. destruct (proj1 (cell_iff_get ROW COL st id I)) as (fd0 & H0); [eauto|].
    apply (Hfresh fd0). exact H0.
  - splits; auto. rewrite !(mx_load_pop ROW COL HROW HCOL) by assumption. exact P.
Qed.

Theorem matrix_add_full_drops : forall ROW COL, 0 < ROW -> 1 < COL -> forall st id fd,
  matrix_inv ROW COL st -> mx_load ROW st = ROW * COL ->
  mat_equiv (mx_add ROW COL st id fd) st /\
  (forall fd', mx_get (mx_add ROW COL st id fd) fd' = mx_get st fd') /\
  mx_load ROW (mx_add ROW COL st id fd) = mx_load ROW st.
Proof.
  intros ROW COL HROW HCOL st id fd I Hfull. apply (mx_add_full ROW COL st id fd).
  rewrite (mx_load_pop ROW COL HROW HCOL st I) in Hfull.
  pose proof (population_full ROW COL HCOL st I) as Pf. pose proof (inv_next _ _ _ I). lia.
Qed.

Theorem matrix_del_relocation_invisible : forall ROW COL, 0 < ROW -> 1 < COL -> forall st id fd,
  matrix_inv ROW COL st -> mx_get st fd = Some id ->
  exists st', mx_del ROW COL st id = Ret st' /\ matrix_inv ROW COL st' /\
    (forall fd', mx_get st' fd' = if fd' =? fd then None else mx_get st fd') /\
    mx_load ROW st' = mx_load ROW st - 1.
Proof.
  intros ROW COL HROW HCOL st id fd I Hg.
  apply (mx_get_some ROW COL st fd id I) in Hg. destruct Hg as (r & c & Hc & Hh).
  destruct (mx_del_inv ROW COL HCOL st id fd r c I Hh Hc) as (st' & E & I' & G & P).
  exists st'. splits; auto. rewrite !(mx_load_pop ROW COL HROW HCOL) by assumption. exact P.
Qed.

Theorem matrix_iterate_visits_once : forall ROW COL, 0 < ROW -> 1 < COL -> forall st m k,
  matrix_inv ROW COL st -> (forall fd, del_pred m k fd = false) ->
  exists vis, mx_iterate ROW COL st m k (-1) = Ret (st, vis) /\ NoDup vis /\
    (forall id, In id vis <-> exists fd, mx_get st fd = Some id).
Proof.
  intros ROW COL HROW HCOL st m k I Hn. exists (live_ids ROW COL st). splits.
  - apply mx_iterate_none; auto.
  - apply live_ids_nodup; auto.
  - intros id. rewrite (live_ids_in ROW COL HROW HCOL st id I). apply (cell_iff_get ROW COL st id I).
Qed.

Theorem matrix_iterate_delete_all_empties : forall ROW COL, 0 < ROW -> 1 < COL -> forall st m k,
  matrix_inv ROW COL st -> (forall fd, del_pred m k fd = true) ->
  exists st' vis, mx_iterate ROW COL st m k (-1) = Ret (st', vis) /\ NoDup vis /\
    (forall id, In id vis <-> exists fd, mx_get st fd = Some id) /\
    mat_equiv st' mx_init /\ matrix_inv ROW COL st' /\
    (forall fd, mx_get st' fd = None) /\ mx_load ROW st' = 0.
Proof.
  intros ROW COL HROW HCOL st m k I Ha.
  destruct (mx_iterate_all ROW COL HROW HCOL st m k I Ha) as (st' & E & I' & Q & G & P).
  exists st', (live_ids ROW COL st). splits; auto.
  - apply live_ids_nodup; auto.
  - intros id. rewrite (live_ids_in ROW COL HROW HCOL st id I). apply (cell_iff_get ROW COL st id I).
  - rewrite (mx_load_pop ROW COL HROW HCOL st' I'). exact P.
Qed.

Lemma del_pred_all : forall fd, del_pred 1 0 fd = true.
Proof. intros. unfold del_pred. rewrite Z.mod_1_r. reflexivity. Qed.
Lemma del_pred_none : forall k fd, del_pred 0 k fd = false.
Proof. reflexivity. Qed.

(* ------------------------------------------------------------------ *)
(* the unrestricted statement fails for the matrix: a visitor that removes
   some but not all connections leaves holes with the cursor on the first
   hole, and the next registrations overwrite live entries *)
Definition c14_witness_ops : list rop :=
  [OAdd 1 10; OAdd 2 11; OAdd 3 12; OIter 3 1; OAdd 4 20; OAdd 5 21].

Lemma c14_witness_wf : sp_wf fm_empty c14_witness_ops /\ sp_below (256 * 65536) fm_empty c14_witness_ops.
Proof.
  split; cbn; repeat split; try reflexivity; try lia;
    try (intros H; cbn in H; repeat (destruct H as [H|H]; try discriminate H; try lia); try contradiction).
Qed.

Theorem matrix_full_statement_refuted :
  ~ (forall ROW COL, 0 < ROW -> 1 < COL -> forall ops,
       sp_wf fm_empty ops -> sp_below (ROW * COL) fm_empty ops ->
       exists st outs, mx_run ROW COL mx_init ops = Ret (st, outs) /\
         matrix_inv ROW COL st /\
         (forall fd, mx_get st fd = fm_get (sp_run fm_empty ops) fd) /\
         mx_load ROW st = fm_size (sp_run fm_empty ops) /\
         Forall2 (fun vis vals => NoDup vis /\ Permutation vis vals) outs (sp_outs fm_empty ops)).
Proof.
  intros H. destruct c14_witness_wf as (W1 & W2).
  destruct (H 256 65536 ltac:(lia) ltac:(lia) c14_witness_ops W1 W2) as (st & outs & E & _ & G & _).
  vm_compute in E. inversion E; subst st outs. clear E.
  specialize (G 11). vm_compute in G. discriminate G.
Qed.
