(* C03 — asynchronous requests run exactly once: no lost wake-up of an event loop.
   Statements only; proofs live in Proofs/Wakeup*.v.
   Model: Model/Wakeup.v — the interleavings, at the granularity of single atomic operations,
   queue linearization points and eventfd/epoll system calls, of any number of producers running
   Trigger with the event loop running Polling (pkg/netpoll/poller_epoll_{default,ultimate}.go),
   on top of the atomic-queue specification of the two task queues (C13: each queue is
   (items, length) with Enqueue = link; count and Dequeue = unlink; decount | empty).
   Assumptions: sync/atomic is sequentially consistent; the queues behave as their specification
   (C13); eventfd/epoll edge semantics as written in the model (every write raises a fresh edge, a
   reported edge is reported once, write fails only with EAGAIN: g_fault = false); the int32 length
   counters stay in range (g_ovf = false); the loop keeps running (no shutdown).  sane s is
   g_ovf = false /\ g_fault = false. *)
From GV Require Import Lib.Trace Lib.Interleave Model.Wakeup
  Proofs.WakeupBase Proofs.WakeupInv Proofs.WakeupProofs Proofs.WakeupGhost Proofs.WakeupOnce.
From GV Require Model.Loop Proofs.LoopWakeupLink.
Open Scope Z_scope.
Open Scope list_scope.

(* wake_inv: the conjunction K /\ I0 /\ I1 /\ G_W /\ G_chkU of DESIGN Appendix A.5 holds in every
   reachable state.  n_p1 q = number of Trigger calls (of producers and of the loop itself) that
   have linked into q but not yet counted, n_p2 = counted and before the CAS, n_p3 = CAS won and
   eventfd write still to do; d_q = 1 iff the loop is between unlink and decount on q;
   cons_B = the loop has chores pending or in progress and has not yet stored 0; cons_W = the loop
   is at epoll_wait or in I/O callbacks with no chores pending; cons_wr = the loop is at its own
   eventfd write. *)
Theorem C03_wake_inv : forall s, reachable wk_init wk_step s ->
  g_ovf (w_gh s) = false /\ g_fault (w_gh s) = false ->
  (flag (w_sh s) = 0 \/ flag (w_sh s) = 1) /\
  lenU (w_sh s) = Z.of_nat (List.length (itemsU (w_sh s))) - n_p1 QU s + d_q QU s /\
  lenL (w_sh s) = Z.of_nat (List.length (itemsL (w_sh s))) - n_p1 QL s + d_q QL s /\
  (cons_wr s = true -> flag (w_sh s) = 1) /\
  (flag (w_sh s) = 1 -> eff_edge (w_sh s) = true \/ 0 < n_p3 s \/ cons_wr s = true \/ cons_B s = true) /\
  (cons_W s = true -> flag (w_sh s) = 0 -> (itemsU (w_sh s) <> [] \/ itemsL (w_sh s) <> []) ->
     eff_edge (w_sh s) = true \/ 0 < n_p1 QU s + n_p1 QL s + n_p2 s + n_p3 s) /\
  (c_pc (con s) = CChkU -> flag (w_sh s) = 0 -> itemsL (w_sh s) <> [] ->
     eff_edge (w_sh s) = true \/ 0 < n_p1 QU s + n_p1 QL s + n_p2 s + n_p3 s).
Proof. exact wake_inv. Qed.
Print Assumptions C03_wake_inv.

(* no lost wake-up: in every quiescent state (no Trigger call in flight, the loop at epoll_wait,
   nothing for epoll_wait to report) both queues are empty: every published request has been taken *)
Theorem C03_no_lost_wakeup : forall s, reachable wk_init wk_step s ->
  g_ovf (w_gh s) = false /\ g_fault (w_gh s) = false ->
  (forall t, t_pc (get_trig (trigs s) t) = TIdle) /\ c_pc (con s) = CWait /\ eff_edge (w_sh s) = false ->
  itemsU (w_sh s) = [] /\ itemsL (w_sh s) = [].
Proof. exact no_lost_wakeup. Qed.
Print Assumptions C03_no_lost_wakeup.

(* quiescence or progress: a reachable state is quiescent with empty queues, or a Trigger call in
   flight has an enabled step, or nobody is in flight and the loop has an enabled step (it is not
   at epoll_wait, or epoll_wait will report the eventfd).  Under weak fairness (an assumption about
   the Go scheduler and the kernel, not a theorem) every request is therefore eventually executed. *)
Theorem C03_quiescence_or_progress : forall s, reachable wk_init wk_step s ->
  g_ovf (w_gh s) = false /\ g_fault (w_gh s) = false ->
  (((forall t, t_pc (get_trig (trigs s) t) = TIdle) /\ c_pc (con s) = CWait /\ eff_edge (w_sh s) = false) /\
   itemsU (w_sh s) = [] /\ itemsL (w_sh s) = []) \/
  (exists t, t_pc (get_trig (trigs s) t) <> TIdle /\
             exists s1 o d, trig_step s t (CStep []) = (s1, o, d) /\ forall e, In e o -> e <> EvStuck t) \/
  ((forall t, t_pc (get_trig (trigs s) t) = TIdle) /\ (c_pc (con s) <> CWait \/ eff_edge (w_sh s) = true)).
Proof. exact quiescence_or_progress. Qed.
Print Assumptions C03_quiescence_or_progress.

(* exactly once.  g_exec is the log of executed requests (with the queue each came from), g_cb the
   log of AsyncCallback invocations, g_begun the requests for which Trigger was called, g_acc the
   ids whose Trigger returned nil ("accepted without error").  In every reachable state: no request
   is executed twice; the callback log is exactly the executions of requests that have a callback,
   in order (invoked exactly once, with the execution); only issued requests are executed; and at
   quiescence every accepted request has been executed. *)
Theorem C03_exactly_once : forall s, reachable wk_init wk_step s ->
  g_ovf (w_gh s) = false /\ g_fault (w_gh s) = false ->
  NoDup (map (fun e => tk_id (snd e)) (g_exec (w_gh s))) /\
  g_cb (w_gh s) = flat_map (fun e => if sp_cb (tk_spec (snd e)) then [tk_id (snd e)] else []) (g_exec (w_gh s)) /\
  (forall e, In e (g_exec (w_gh s)) -> In (snd e) (g_begun (w_gh s))) /\
  ((forall t, t_pc (get_trig (trigs s) t) = TIdle) /\ c_pc (con s) = CWait /\ eff_edge (w_sh s) = false ->
   forall i, In i (g_acc (w_gh s)) -> In i (map (fun e => tk_id (snd e)) (g_exec (w_gh s)))).
Proof. exact exactly_once. Qed.
Print Assumptions C03_exactly_once.

(* high-priority requests issued by one goroutine are carried out in issue order: ids are issue
   numbers (the id of a request is the number of Trigger calls begun before it); if a and b were
   issued by the same thread (a producer or the loop itself), both with high priority, a before b,
   and b has been executed, then a was executed before b *)
Theorem C03_urgent_fifo_per_producer : forall s a b l1 l2 q, reachable wk_init wk_step s ->
  g_ovf (w_gh s) = false /\ g_fault (w_gh s) = false ->
  In a (g_begun (w_gh s)) -> In b (g_begun (w_gh s)) ->
  tk_prod a = tk_prod b -> sp_high (tk_spec a) = true -> sp_high (tk_spec b) = true ->
  (tk_id a < tk_id b)%nat ->
  g_exec (w_gh s) = l1 ++ (q, b) :: l2 ->
  exists q' l3 l4, l1 = l3 ++ (q', a) :: l4.
Proof. exact urgent_fifo_per_producer. Qed.
Print Assumptions C03_urgent_fifo_per_producer.

(* a Wake on an open connection results in exactly one OnTraffic: g_traffic logs (id of the wake
   request, connection) for every OnTraffic made by a wake task.  No wake request has two entries;
   every entry belongs to an executed wake request for that connection; and an executed wake
   request whose connection has not been closed has its entry.  (The task body of Wake calls
   el.wake once: connection_unix.go; el.wake ignores a connection that is no longer open.) *)
Theorem C03_wake_one_traffic : forall s, reachable wk_init wk_step s ->
  g_ovf (w_gh s) = false /\ g_fault (w_gh s) = false ->
  NoDup (map fst (g_traffic (w_gh s))) /\
  (forall i c, In (i, c) (g_traffic (w_gh s)) ->
     exists q x, In (q, x) (g_exec (w_gh s)) /\ tk_id x = i /\ sp_kind (tk_spec x) = KWake c) /\
  (forall q x c, In (q, x) (g_exec (w_gh s)) -> sp_kind (tk_spec x) = KWake c -> ~ In c (closed (w_env s)) ->
     In (tk_id x, c) (g_traffic (w_gh s))).
Proof. exact wake_one_traffic. Qed.
Print Assumptions C03_wake_one_traffic.

(* What ties the coarse wake-up bookkeeping of Model/Loop.v to the fine-grained protocol.  The
   event-loop model (C01, C02, C04, C08, ...) keeps the two task queues and wakeupCall as the triple
   (l_urgent, l_low, l_flag) and changes it in three atomic operations: [Loop.trigger] (Trigger on
   the loop thread: enqueue; flag already set -> nothing, else flag := true and the loop thread
   writes the eventfd), [Loop.apply_async] (Trigger of another goroutine: enqueue; flag := true, its
   eventfd write invisible to the loop thread) and the end of [Loop.chores] (flag := false; a queue
   non-empty -> flag := true and write).  Proofs/LoopWakeupLink.v ([nm] maps the tasks of the Wakeup
   model to those of the loop model, any map; [wrep nm s st]: itemsU / itemsL / flag / threshold of s,
   read through nm, are l_urgent / l_low / l_flag / l_thr of st; [counted s]: the length counters
   are the queue lengths; [at_point p s]: no Trigger call in flight and the loop at epoll_wait
   (PIdle), at the first Dequeue of a batch (PDrain), at the store of 0 (PBatchEnd); [wrel nm p s st]:
   all three; [coarse_trigger st is_low t] = set_flag (enqueue st is_low t) true;
   [coarse_batch_end st] = set_flag st (a queue of st is non-empty); [writes o]: the eventfd writes
   among the observations, with thread and result; [stp t] / [start t sp]: the scheduler lets
   thread t take one step / producer t call Trigger):
   1. a new poller is related to a new loop-model state; in reachable states the counters come for
      free at the three points and at the beginning of a Trigger call of the loop (C03_wake_inv, K);
   2. each coarse operation is the schedule of the fine model in which the thread concerned runs
      alone -- a producer: start; [load urgent.length]; link; count; CAS; [write]; the loop inside its
      own Trigger: the same steps; the loop after a batch: store 0; load; [load]; [CAS; write] -- and
      leads to a reachable ([wk_reachable s] is [reachable wk_init wk_step s]), sane state that
      represents the result of the coarse operation, wherever the loop is (2a) resp. whatever the
      other Trigger slots hold (2b, 3), provided the counters agree with the queues; the eventfd is
      written (once, successfully; after one EAGAIN and a read when the counter is at 2^64-2)
      exactly when the loop model writes it (Loop.trigger with the flag clear, Loop.chores with a
      queue non-empty) or marks the flag of a request of another goroutine (flag was false), and is
      then reported by the next epoll_wait (eff_edge); otherwise the eventfd is not touched;
   3. idle -> about to drain is the epoll_wait that reports the eventfd;
   4. ABOUT TO BLOCK.  Fine model: no Trigger call in flight, the loop at epoll_wait, eff_edge =
      false (the readiness edge is not pending or the counter is 0), i.e. [quiescent]: the next loop
      step is an epoll_wait that reports no eventfd.  Loop model: the head of an iteration of
      [Loop.polling], whose next action is to pull a `wait` line; it has no eventfd, so "will the
      wait report the eventfd" is the fine model's eff_edge.  In a related pair: eff_edge = false ->
      l_urgent = l_low = [] and l_flag = false (C03_no_lost_wakeup; I1 of C03_wake_inv for the
      flag); hence l_flag = false with a non-empty queue, or l_flag = true, never meets a blocking
      wait: the eventfd is reported;
   5. [Loop.trigger], [Loop.apply_async] and the end of [Loop.chores] ARE coarse_trigger /
      coarse_batch_end on the triple, up to requests of other goroutines absorbed while the loop
      thread waits for the result of its eventfd write ([asyncs]: zero or more apply_async), and
      [Loop.efd_write] issues the system calls the fine model has, given the fine model's answers;
      the loop model's own invariant "l_flag = false -> nothing queued" holds after every coarse
      operation and is kept by the drains;
   6. the converse direction does not hold, and is not claimed: a Trigger call of another
      goroutine is not atomic.  [ex_late_cas] reaches an idle state with wakeupCall = 1, both queues
      empty and the edge pending (the request was linked and counted during a batch, run in that
      batch, and its CAS came after the loop's store of 0): after a batch the loop model always has
      l_flag = (a queue is non-empty).  The wake-up is spurious, the requests ran exactly once. *)
Theorem C03_loop_model_link : forall nm : task -> Loop.task,
  (* 1. the representation relation: a new poller; the counters, from reachability (wake_inv, K) *)
  (forall thr max st,
     Loop.l_urgent st = [] -> Loop.l_low st = [] -> Loop.l_flag st = false -> Loop.l_thr st = thr ->
     LoopWakeupLink.wrel nm LoopWakeupLink.PIdle (init_state thr max) st) /\
  (forall p s st, wk_reachable s -> sane s -> LoopWakeupLink.at_point p s -> LoopWakeupLink.wrep nm s st -> LoopWakeupLink.wrel nm p s st) /\
  (forall s x, wk_reachable s -> sane s ->
     (forall t', t_pc (get_trig (trigs s) (S t')) = TIdle) -> c_pc (con s) = CTrig ->
     get_trig (trigs s) O = mkTrig (pc0 (tk_spec x)) x -> LoopWakeupLink.counted s) /\
  (* 2a. a request of another goroutine (Loop.apply_async) = one producer's Trigger, run alone *)
  (forall s st t' sp,
     wk_reachable s -> sane s -> LoopWakeupLink.counted s -> LoopWakeupLink.wrep nm s st ->
     t_pc (get_trig (trigs s) (S t')) = TIdle ->
     Loop.zlen (Loop.l_urgent st) < 2147483647 -> Loop.zlen (Loop.l_low st) < 2147483647 ->
     exists n, let r := run wk_fstep s (LoopWakeupLink.start (S t') sp :: repeat (LoopWakeupLink.stp (S t')) n) in
       wk_reachable (fst r) /\ sane (fst r) /\ LoopWakeupLink.counted (fst r) /\
       LoopWakeupLink.wrep nm (fst r) (LoopWakeupLink.coarse_trigger st (negb (sp_high sp)) (nm (mkTask (g_next (w_gh s)) (S t') sp))) /\
       con (fst r) = con s /\ w_env (fst r) = w_env s /\
       (forall u, u <> S t' -> get_trig (trigs (fst r)) u = get_trig (trigs s) u) /\
       get_trig (trigs (fst r)) (S t') = idle_trig /\
       In (g_next (w_gh s)) (g_acc (w_gh (fst r))) /\
       LoopWakeupLink.writes (List.concat (snd r)) =
         (if Loop.l_flag st then []
          else if efd_cnt (w_sh s) + 1 >? efd_max then [(S t', WAgain); (S t', WOk)] else [(S t', WOk)]) /\
       (Loop.l_flag st = false -> eff_edge (w_sh (fst r)) = true) /\
       (Loop.l_flag st = true ->
          efd_cnt (w_sh (fst r)) = efd_cnt (w_sh s) /\ edge (w_sh (fst r)) = edge (w_sh s))) /\
  (forall p s st t' sp,
     wk_reachable s -> sane s -> LoopWakeupLink.wrel nm p s st ->
     Loop.zlen (Loop.l_urgent st) < 2147483647 -> Loop.zlen (Loop.l_low st) < 2147483647 ->
     exists n, let r := run wk_fstep s (LoopWakeupLink.start (S t') sp :: repeat (LoopWakeupLink.stp (S t')) n) in
       wk_reachable (fst r) /\ sane (fst r) /\
       LoopWakeupLink.wrel nm p (fst r) (LoopWakeupLink.coarse_trigger st (negb (sp_high sp)) (nm (mkTask (g_next (w_gh s)) (S t') sp))) /\
       In (g_next (w_gh s)) (g_acc (w_gh (fst r))) /\
       LoopWakeupLink.writes (List.concat (snd r)) =
         (if Loop.l_flag st then []
          else if efd_cnt (w_sh s) + 1 >? efd_max then [(S t', WAgain); (S t', WOk)] else [(S t', WOk)]) /\
       (Loop.l_flag st = false -> eff_edge (w_sh (fst r)) = true)) /\
  (* 2b. Trigger on the loop thread (Loop.trigger), both branches *)
  (forall s st x,
     wk_reachable s -> sane s -> LoopWakeupLink.counted s -> LoopWakeupLink.wrep nm s st ->
     c_pc (con s) = CTrig -> get_trig (trigs s) O = mkTrig (pc0 (tk_spec x)) x ->
     Loop.zlen (Loop.l_urgent st) < 2147483647 -> Loop.zlen (Loop.l_low st) < 2147483647 ->
     exists n, let r := run wk_fstep s (repeat (LoopWakeupLink.stp O) n) in
       wk_reachable (fst r) /\ sane (fst r) /\ LoopWakeupLink.counted (fst r) /\
       LoopWakeupLink.wrep nm (fst r) (LoopWakeupLink.coarse_trigger st (negb (sp_high (tk_spec x))) (nm x)) /\
       w_env (fst r) = w_env s /\
       (forall t', get_trig (trigs (fst r)) (S t') = get_trig (trigs s) (S t')) /\
       (t_pc (get_trig (trigs (fst r)) O) = TIdle \/
        exists x', get_trig (trigs (fst r)) O = mkTrig (pc0 (tk_spec x')) x') /\
       In (tk_id x) (g_acc (w_gh (fst r))) /\
       LoopWakeupLink.writes (List.concat (snd r)) =
         (if Loop.l_flag st then []
          else if efd_cnt (w_sh s) + 1 >? efd_max then [(O, WAgain); (O, WOk)] else [(O, WOk)]) /\
       (Loop.l_flag st = false -> eff_edge (w_sh (fst r)) = true) /\
       (Loop.l_flag st = true ->
          efd_cnt (w_sh (fst r)) = efd_cnt (w_sh s) /\ edge (w_sh (fst r)) = edge (w_sh s))) /\
  (* 3. the end of a batch (the tail of Loop.chores) *)
  (forall s st,
     wk_reachable s -> sane s -> LoopWakeupLink.counted s -> LoopWakeupLink.wrep nm s st -> c_pc (con s) = CStore ->
     exists n, let r := run wk_fstep s (repeat (LoopWakeupLink.stp O) n) in
       wk_reachable (fst r) /\ sane (fst r) /\ LoopWakeupLink.counted (fst r) /\
       LoopWakeupLink.wrep nm (fst r) (LoopWakeupLink.coarse_batch_end st) /\
       c_pc (con (fst r)) = CWait /\ trigs (fst r) = trigs s /\ w_env (fst r) = w_env s /\
       LoopWakeupLink.writes (List.concat (snd r)) =
         (if LoopWakeupLink.queues_empty st then []
          else if efd_cnt (w_sh s) + 1 >? efd_max then [(O, WAgain); (O, WOk)] else [(O, WOk)]) /\
       (LoopWakeupLink.queues_empty st = false -> eff_edge (w_sh (fst r)) = true) /\
       (LoopWakeupLink.queues_empty st = true ->
          efd_cnt (w_sh (fst r)) = efd_cnt (w_sh s) /\ edge (w_sh (fst r)) = edge (w_sh s))) /\
  (forall s st,
     wk_reachable s -> sane s -> LoopWakeupLink.wrel nm LoopWakeupLink.PBatchEnd s st ->
     exists n, let r := run wk_fstep s (repeat (LoopWakeupLink.stp O) n) in
       wk_reachable (fst r) /\ sane (fst r) /\
       LoopWakeupLink.wrel nm LoopWakeupLink.PIdle (fst r) (LoopWakeupLink.coarse_batch_end st) /\
       LoopWakeupLink.writes (List.concat (snd r)) =
         (if LoopWakeupLink.queues_empty st then []
          else if efd_cnt (w_sh s) + 1 >? efd_max then [(O, WAgain); (O, WOk)] else [(O, WOk)]) /\
       (LoopWakeupLink.queues_empty st = false -> eff_edge (w_sh (fst r)) = true) /\
       (LoopWakeupLink.queues_empty st = true ->
          efd_cnt (w_sh (fst r)) = efd_cnt (w_sh s) /\ edge (w_sh (fst r)) = edge (w_sh s))) /\
  (* idle -> about to drain: epoll_wait reports the eventfd *)
  (forall s st, LoopWakeupLink.wrel nm LoopWakeupLink.PIdle s st -> eff_edge (w_sh s) = true -> io_pend (w_env s) = [] ->
     let r := run wk_fstep s [LoopWakeupLink.stp O] in
     LoopWakeupLink.wrel nm LoopWakeupLink.PDrain (fst r) st /\ snd r = [[EvWait (c_msec (con s)) [-1]]] /\
     eff_edge (w_sh (fst r)) = false /\
     g_ovf (w_gh (fst r)) = g_ovf (w_gh s) /\ g_fault (w_gh (fst r)) = g_fault (w_gh s)) /\
  (* 4. about to block (no_lost_wakeup and I1 of wake_inv, in the vocabulary of the loop model) *)
  (forall s st,
     wk_reachable s -> sane s -> LoopWakeupLink.wrep nm s st -> all_idle s -> c_pc (con s) = CWait ->
     (eff_edge (w_sh s) = false ->
        Loop.l_urgent st = [] /\ Loop.l_low st = [] /\ Loop.l_flag st = false) /\
     (Loop.l_flag st = true \/ Loop.l_urgent st <> [] \/ Loop.l_low st <> [] -> eff_edge (w_sh s) = true)) /\
  (* 5. the loop model performs exactly these coarse operations *)
  (forall is_low t w,
     Loop.trigger is_low t w =
     if Loop.l_flag (Loop.st w)
     then (Loop.RNil, Loop.with_st w (Loop.enqueue (Loop.st w) is_low t))
     else Loop.efd_write (S (List.length (Loop.inp w))) (Loop.with_st w (LoopWakeupLink.coarse_trigger (Loop.st w) is_low t))) /\
  (forall is_low t w,
     LoopWakeupLink.asyncs (LoopWakeupLink.coarse_trigger (Loop.st w) is_low t) (Loop.st (snd (Loop.trigger is_low t w)))) /\
  (forall s l s', Loop.apply_async s l = Some s' ->
     exists s0 is_low t, s' = LoopWakeupLink.coarse_trigger s0 is_low t /\
       Loop.l_urgent s0 = Loop.l_urgent s /\ Loop.l_low s0 = Loop.l_low s /\
       Loop.l_flag s0 = Loop.l_flag s /\ Loop.l_thr s0 = Loop.l_thr s) /\
  (forall fuel w r1 w1 r2 w2,
     Loop.drain_urgent fuel w = (r1, w1) -> r1 <> Loop.RShutdown ->
     Loop.drain_low fuel (Loop.l_maxlow (Loop.st w1)) w1 = (r2, w2) -> r2 <> Loop.RShutdown ->
     Loop.chores fuel w = (Loop.RNil, LoopWakeupLink.batch_end w2)) /\
  (forall w2, LoopWakeupLink.asyncs (LoopWakeupLink.coarse_batch_end (Loop.st w2)) (Loop.st (LoopWakeupLink.batch_end w2))) /\
  (forall fuel w, LoopWakeupLink.asyncs (Loop.st w) (Loop.st (snd (Loop.efd_write fuel w)))) /\
  (forall f w n rest,
     Loop.halt w = false -> Loop.inp w = ("r"%string, [ASym "write"; AInt n]) :: rest -> 0 <= n ->
     Loop.efd_write (S f) w =
       (Loop.RNil, Loop.mkW (Loop.st w) rest
          (Loop.EIn ("r"%string, [ASym "write"; AInt n]) ::
           Loop.EOut (obs "sys" [ASym "write"; AInt (Loop.l_efd (Loop.st w))]) :: Loop.log w) false)) /\
  (forall f w v n rest,
     Loop.halt w = false ->
     Loop.inp w = ("r"%string, [ASym "write"; AInt (-1); ASym "eagain"]) ::
                  ("r"%string, [ASym "read"; AInt v]) ::
                  ("r"%string, [ASym "write"; AInt n]) :: rest -> 0 <= n ->
     Loop.efd_write (S (S f)) w =
       (Loop.RNil, Loop.mkW (Loop.st w) rest
          (Loop.EIn ("r"%string, [ASym "write"; AInt n]) ::
           Loop.EOut (obs "sys" [ASym "write"; AInt (Loop.l_efd (Loop.st w))]) ::
           Loop.EIn ("r"%string, [ASym "read"; AInt v]) ::
           Loop.EOut (obs "sys" [ASym "read"; AInt (Loop.l_efd (Loop.st w))]) ::
           Loop.EIn ("r"%string, [ASym "write"; AInt (-1); ASym "eagain"]) ::
           Loop.EOut (obs "sys" [ASym "write"; AInt (Loop.l_efd (Loop.st w))]) :: Loop.log w) false)) /\
  (* the loop model's own "flag clear -> nothing queued" *)
  (forall st b t, LoopWakeupLink.flag_ok (LoopWakeupLink.coarse_trigger st b t)) /\
  (forall st, LoopWakeupLink.flag_ok (LoopWakeupLink.coarse_batch_end st)) /\
  (forall s s', LoopWakeupLink.asyncs s s' -> LoopWakeupLink.flag_ok s -> LoopWakeupLink.flag_ok s') /\
  (forall st u lo, LoopWakeupLink.flag_ok st -> Loop.l_flag st = true \/ (u = [] /\ lo = []) ->
     LoopWakeupLink.flag_ok (Loop.set_queues st u lo (Loop.l_flag st))) /\
  (* 6. the difference: flag set with nothing queued, idle -- reachable in the fine model only *)
  (forall st, Loop.l_flag (LoopWakeupLink.coarse_batch_end st) = negb (LoopWakeupLink.queues_empty (LoopWakeupLink.coarse_batch_end st))) /\
  (let s := fst (run wk_fstep (init_state 1024 256) LoopWakeupLink.ex_late_cas) in
   wk_reachable s /\ g_ovf (w_gh s) = false /\ g_fault (w_gh s) = false /\
   map t_pc (trigs s) = [TIdle; TIdle; TIdle] /\ c_pc (con s) = CWait /\
   flag (w_sh s) = 1 /\ itemsU (w_sh s) = [] /\ itemsL (w_sh s) = [] /\
   lenU (w_sh s) = 0 /\ lenL (w_sh s) = 0 /\ eff_edge (w_sh s) = true /\
   map (fun e => tk_id (snd e)) (g_exec (w_gh s)) = [0%nat; 1%nat] /\ g_acc (w_gh s) = [0%nat; 1%nat]).
Proof. exact LoopWakeupLink.loop_wakeup_link. Qed.
Print Assumptions C03_loop_model_link.

(* ---- non-vacuity: concrete schedules, evaluated by the kernel ---- *)
Definition hi : tspec := mkSpec true KPlain false O.
Definition st (t : nat) : tid * choice := (t, CStep []).
(* the loop's round for one queued urgent request: wait, unlink, decount+run, urgent empty (+ return),
   low empty (+ return), store 0, re-check low, re-check urgent, wait(0) *)
Definition round : list (tid * choice) :=
  [(O, CStep [-1]); st 0; st 0; st 0; (O, CTau); st 0; (O, CTau); st 0; st 0; st 0; st 0].

(* one producer, one high-priority request, the loop runs it and goes back to sleep: a quiescent,
   sane, reachable state with a non-empty execution log *)
Definition ex_one : list (tid * choice) := [(1%nat, CStart hi); st 1; st 1; st 1; st 1] ++ round.

Example C03_ex_quiescent :
  let s := fst (run wk_fstep (init_state 1024 256) ex_one) in
  reachable wk_init wk_step s /\ g_ovf (w_gh s) = false /\ g_fault (w_gh s) = false /\
  quiescent_b s = true /\ map (fun e => tk_id (snd e)) (g_exec (w_gh s)) = [O] /\ g_acc (w_gh s) = [O] /\
  flag (w_sh s) = 0 /\ itemsU (w_sh s) = [].
Proof. split; [apply wk_run_reachable|]. vm_compute. repeat split; reflexivity. Qed.

(* the race the re-check exists for: producer 2's CAS lands between the loop's store 0 and its
   re-check; the loop's own CAS fails, the loop finds nothing at wait(0), producer 2 then writes
   the eventfd and the loop runs request 1 *)
Definition ex_race : list (tid * choice) :=
  [(1%nat, CStart hi); st 1; st 1; st 1; st 1;
   (O, CStep [-1]); st 0; st 0; st 0; (O, CTau); st 0; (O, CTau);
   (2%nat, CStart hi); st 2; st 2;
   st 0;                       (* store 0 *)
   st 2;                       (* producer 2: CAS 0 -> 1 wins *)
   st 0; st 0; st 0;           (* re-check: low 0, urgent 1, the loop's CAS fails *)
   st 0;                       (* wait(0): nothing *)
   st 2] ++ round.

Example C03_ex_race :
  let r := run wk_fstep (init_state 1024 256) ex_race in
  reachable wk_init wk_step (fst r) /\
  nth 16 (snd r) [] = [EvCas 2%nat true] /\ nth 18 (snd r) [] = [EvLd O QU 1] /\
  nth 19 (snd r) [] = [EvCas O false] /\ nth 20 (snd r) [] = [EvWait 0 []] /\
  quiescent_b (fst r) = true /\ map (fun e => tk_id (snd e)) (g_exec (w_gh (fst r))) = [0%nat; 1%nat].
Proof. split; [apply wk_run_reachable|]. vm_compute. repeat split; reflexivity. Qed.

(* a dequeue overtakes a count: the urgent length is -1 while the queue is empty; the re-check takes
   that for "not empty" and the loop wakes itself up (a state in which K holds with n_p1 = 1) *)
Definition ex_overtake : list (tid * choice) :=
  [(2%nat, CStart hi); st 2; st 2; st 2; st 2; (O, CStep [-1]);
   (1%nat, CStart hi); st 1;                        (* producer 1 linked, not counted *)
   st 0; st 0; st 0; st 0;                          (* the loop runs request 0 and request 1 *)
   st 0; (O, CTau); st 0; (O, CTau); st 0; st 0; st 0; st 0; st 0].

Example C03_ex_overtake :
  let s := fst (run wk_fstep (init_state 1024 256) ex_overtake) in
  reachable wk_init wk_step s /\ lenU (w_sh s) = -1 /\ itemsU (w_sh s) = [] /\ n_p1 QU s = 1 /\
  d_q QU s = 0 /\ flag (w_sh s) = 1 /\ eff_edge (w_sh s) = true /\ c_pc (con s) = CWait.
Proof. split; [apply wk_run_reachable|]. vm_compute. repeat split; reflexivity. Qed.

(* two high-priority requests of one producer run in issue order (hypotheses of
   urgent_fifo_per_producer with a = request 0, b = request 1); a wake request on an open
   connection gives one OnTraffic, a wake after a close gives none *)
Definition wake5 : tspec := mkSpec false (KWake 5) true O.
Definition close5 : tspec := mkSpec false (KClose 5) false O.
Definition lowreq (t : nat) (sp : tspec) : list (tid * choice) := [(t, CStart sp); st t; st t; st t; st t; st t].
Definition ex_fifo : list (tid * choice) :=
  [(1%nat, CStart hi); st 1; st 1; st 1; st 1; (1%nat, CStart hi); st 1; st 1; st 1] ++
  lowreq 2 wake5 ++ lowreq 2 close5 ++ lowreq 2 wake5 ++
  [(O, CStep [-1]); st 0; st 0; st 0; st 0; st 0; st 0; st 0; st 0; st 0; st 0; st 0; (O, CTau); st 0; (O, CTau);
   st 0; st 0; st 0; st 0].

Example C03_ex_fifo_wake :
  let s := fst (run wk_fstep (init_state 1024 256) ex_fifo) in
  reachable wk_init wk_step s /\ g_ovf (w_gh s) = false /\ g_fault (w_gh s) = false /\ quiescent_b s = true /\
  map (fun e => tk_id (snd e)) (g_exec (w_gh s)) = [0; 1; 2; 3; 4]%nat /\
  g_traffic (w_gh s) = [(2%nat, 5)] /\ g_cb (w_gh s) = [2; 4]%nat /\ closed (w_env s) = [5].
Proof. split; [apply wk_run_reachable|]. vm_compute. repeat split; reflexivity. Qed.

(* outside the property, and why the assumption g_fault = false is needed: if the eventfd write of
   request 0 fails with an error other than EAGAIN, Trigger returns that error (request 0 is not
   "accepted without error"), the flag stays 1, request 1 is then accepted (its CAS fails, Trigger
   returns nil) and nobody ever wakes the loop: a quiescent state with two queued requests *)
Definition ex_fault : list (tid * choice) :=
  [(1%nat, CStart hi); st 1; st 1; st 1; (1%nat, CFault); (2%nat, CStart hi); st 2; st 2; st 2; st 0].

Example C03_ex_write_fault :
  let s := fst (run wk_fstep (init_state 1024 256) ex_fault) in
  reachable wk_init wk_step s /\ g_fault (w_gh s) = true /\ quiescent_b s = true /\
  g_rej (w_gh s) = [0%nat] /\ g_acc (w_gh s) = [1%nat] /\ g_exec (w_gh s) = [] /\
  List.length (itemsU (w_sh s)) = 2%nat /\ flag (w_sh s) = 1.
Proof. split; [apply wk_run_reachable|]. vm_compute. repeat split; reflexivity. Qed.
