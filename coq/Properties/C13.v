(* C13 — the lock-free task queue is a linearizable FIFO queue.
   Statements only; proofs live in Proofs/MSQueue*.v and Proofs/AtomicQueueProofs.v.
   Model: Model/MSQueue.v (interleavings of single sync/atomic operations of any
   number of threads running Enqueue / Dequeue of pkg/queue/lock_free_queue.go).
   Assumptions: sync/atomic is sequentially consistent; a node is never reused
   while reachable (fresh allocation, no ABA); tasks are non-nil.
   Histories (g_hist) are lists of events, NEWEST FIRST (Spec/AtomicQueue.v). *)
From GV Require Import Lib.Trace Lib.Interleave Spec.AtomicQueue Model.MSQueue
  Proofs.MSQueueBase Proofs.MSQueueInv Proofs.AtomicQueueProofs Proofs.MSQueueProofs.
Open Scope Z_scope.
Open Scope list_scope.

(* chain_inv (DESIGN Appendix A.4) holds in every reachable state *)
Theorem C13_chain_inv : forall s, reachable ms_init ms_step s ->
  NoDup (g_chain s) /\
  (forall i n, nth_error (g_chain s) i = Some n ->
     exists nd, nth_error (heap s) n = Some nd /\ n_next nd = nth_error (g_chain s) (S i)) /\
  head s = nth_error (g_chain s) (g_h s) /\ tail s = nth_error (g_chain s) (g_t s) /\
  (g_h s <= g_t s)%nat /\ (g_t s < List.length (g_chain s))%nat /\
  (List.length (g_chain s) <= g_t s + 2)%nat.
Proof. exact chain_inv_reachable. Qed.
Print Assumptions C13_chain_inv.

(* every thread-local pointer is on the chain, at an index not beyond the shared index
   it was read from; no thread ever dereferences nil (no Crashed state) *)
Theorem C13_locals_on_chain : forall s t, reachable ms_init ms_step s ->
  let th := get_thread (threads s) t in
  t_pc th <> Crashed /\
  (holds_tail (t_pc th) = true ->
     exists i p, l_tail th = Some p /\ nth_error (g_chain s) i = Some p /\ (i <= g_t s)%nat) /\
  (holds_head (t_pc th) = true ->
     exists j p, l_head th = Some p /\ nth_error (g_chain s) j = Some p /\ (j <= g_h s)%nat).
Proof. exact locals_on_chain. Qed.
Print Assumptions C13_locals_on_chain.

(* positions of head and tail never decrease; chain and history are append-only *)
Theorem C13_monotone : forall s tr s', reachable ms_init ms_step s -> exec ms_step s tr s' ->
  (g_h s <= g_h s')%nat /\ (g_t s <= g_t s')%nat /\
  (exists suf, g_chain s' = g_chain s ++ suf) /\ (exists newer, g_hist s' = newer ++ g_hist s).
Proof. exact monotone. Qed.
Print Assumptions C13_monotone.

(* linearizability with explicit linearization points: the linearization events of the
   history replay legally on the sequential FIFO specification and yield the abstract
   queue (items on the chain after head); every thread's events are well bracketed:
   call, the linearization event of that operation inside the call, response carrying the
   result the specification gave at that event (tphase never reaches PBad) *)
Theorem C13_linearizable : forall s, reachable ms_init ms_step s ->
  replay (g_hist s) = Some (absq_items s) /\ forall t, tphase t (g_hist s) <> PBad.
Proof. exact linearizable. Qed.
Print Assumptions C13_linearizable.

(* the abstract queue is a function of the concrete state alone: the values found by
   following the next pointers from head, without the dummy *)
Theorem C13_absq_concrete : forall s, reachable ms_init ms_step s -> absq s = queue_of_heap s.
Proof. exact absq_concrete. Qed.
Print Assumptions C13_absq_concrete.

(* the abstract queue evolves as the specification: a step leaves it unchanged or applies
   exactly one linearization event of the stepping thread to it *)
Theorem C13_absq_step : forall s l s', reachable ms_init ms_step s -> ms_step s l s' ->
  (g_hist s' = g_hist s /\ absq_items s' = absq_items s) \/
  (exists e, g_hist s' = e :: g_hist s /\ ev_tid e = fst (fst l) /\
             apply_ev e (absq_items s) = Some (absq_items s')).
Proof. exact absq_step. Qed.
Print Assumptions C13_absq_step.

(* the linearization points are: the successful link CAS (on a node's next field), the
   successful CAS on head, and a load of head.next that returned nil *)
Theorem C13_lin_points : forall s t c s' ao r, reachable ms_init ms_step s ->
  tstep s t c = (s', (ao, r)) ->
  match ao with
  | OCas (LNext _) _ _ true => exists n v, g_hist s' = LinEnq t n v :: g_hist s
  | OCas LHead _ _ true => exists n v, g_hist s' = LinDeq t n v :: g_hist s
  | OLd (LNext _) None => g_hist s' = g_hist s \/ g_hist s' = EmptyAt t :: g_hist s
  | _ => g_hist s' = g_hist s \/ exists e, g_hist s' = e :: g_hist s /\ lin_free e
  end.
Proof. exact lin_points. Qed.
Print Assumptions C13_lin_points.

(* FIFO master equation: linked items = dequeued items ++ items still queued, in order *)
Theorem C13_fifo_equation : forall s, reachable ms_init ms_step s ->
  enqs (g_hist s) = deqs (g_hist s) ++ absq_items s.
Proof. exact fifo_equation. Qed.
Print Assumptions C13_fifo_equation.

(* every enqueued task is dequeued at most once, only enqueued tasks are dequeued, and a
   dequeued task is no longer in the queue (items are identified by their enqueue operation) *)
Theorem C13_dequeued_at_most_once : forall s, reachable ms_init ms_step s ->
  NoDup (map fst (deqs (g_hist s))) /\
  (forall it, In it (deqs (g_hist s)) -> In it (enqs (g_hist s))) /\
  (forall it, In it (deqs (g_hist s)) -> ~ In (fst it) (map fst (absq_items s))).
Proof. exact dequeued_at_most_once. Qed.
Print Assumptions C13_dequeued_at_most_once.

(* a Dequeue never returns a task that was not enqueued: before the response RetDeq t (Some v),
   inside the same call, lies its linearization event removing item (id, v); before that the
   linearization event of the Enqueue of (id, v); before that the invocation Enqueue(v) *)
Theorem C13_never_invented : forall s newer t v older, reachable ms_init ms_step s ->
  g_hist s = newer ++ RetDeq t (Some v) :: older ->
  exists id t' l1 l2 l3 l4,
    older = l1 ++ LinDeq t id v :: l2 ++ LinEnq t' id v :: l3 ++ CallEnq t' id v :: l4 /\
    (forall e, In e l1 -> is_boundary t e = false).
Proof. exact never_invented. Qed.
Print Assumptions C13_never_invented.

(* tasks enqueued by one goroutine are dequeued in that order: thread t invoked Enqueue(a)
   before Enqueue(b); if b has been dequeued then a was dequeued before it *)
Theorem C13_producer_fifo : forall s t a va b vb l3 l4 l5 n1 n2 tb wb, reachable ms_init ms_step s ->
  g_hist s = l5 ++ CallEnq t b vb :: l4 ++ CallEnq t a va :: l3 ->
  g_hist s = n1 ++ LinDeq tb b wb :: n2 ->
  exists ta n3 n4, n2 = n3 ++ LinDeq ta a va :: n4.
Proof. exact producer_fifo. Qed.
Print Assumptions C13_producer_fifo.

(* a Dequeue reports "empty" only if the queue was empty at some instant during the call:
   before the response RetDeq t None, with no invocation/response of t in between and t
   inside a Dequeue, there is a reachable earlier state s0 whose abstract queue is empty *)
Theorem C13_empty_only_if_empty : forall s newer t older, reachable ms_init ms_step s ->
  g_hist s = newer ++ RetDeq t None :: older ->
  exists l1 l2 s0, older = l1 ++ EmptyAt t :: l2 /\
    (forall e, In e l1 -> is_boundary t e = false) /\
    (exists b, tphase t l2 = PDeqCalled b) /\
    reachable ms_init ms_step s0 /\ g_hist s0 = l2 /\ absq s0 = [].
Proof. exact empty_only_if_empty. Qed.
Print Assumptions C13_empty_only_if_empty.

(* once the queue is drained every enqueued task has been dequeued exactly once, in order;
   this includes every task whose Enqueue is no longer before its linearization point *)
Theorem C13_drained_exactly_once : forall s, reachable ms_init ms_step s -> absq s = [] ->
  deqs (g_hist s) = enqs (g_hist s) /\ NoDup (map fst (deqs (g_hist s))) /\
  (forall t id v, In (CallEnq t id v) (g_hist s) ->
     (forall n, tphase t (g_hist s) <> PEnqCalled n v) -> In (id, v) (deqs (g_hist s))).
Proof. exact drained_exactly_once. Qed.
Print Assumptions C13_drained_exactly_once.

(* the length counter lags behind the abstract queue by the operations that are linked /
   unlinked but not yet counted (lag = -1 at E5, E6; +1 at D7; 0 elsewhere) — needed by C03 *)
Theorem C13_length_lag : forall s, reachable ms_init ms_step s ->
  len s = wrap_i32 (Z.of_nat (List.length (absq s)) + total_lag s) /\
  total_lag s = Z.of_nat (count_pc (fun p => match p with D7 => true | _ => false end) s)
              - Z.of_nat (count_pc (fun p => match p with E5 | E6 => true | _ => false end) s).
Proof. intros s R. split; [exact (length_lag s R)|exact (total_lag_counts s)]. Qed.
Print Assumptions C13_length_lag.

(* when no operation is in flight, Length equals the number of tasks in the queue and
   IsEmpty agrees with it (fewer than 2^31 tasks queued: int32 counter) *)
Theorem C13_length_quiescent : forall s, reachable ms_init ms_step s -> quiescent s ->
  Z.of_nat (List.length (absq s)) < 2147483648 ->
  q_length s = Z.of_nat (List.length (absq s)) /\ (q_isempty s = true <-> absq s = []).
Proof. exact length_quiescent. Qed.
Print Assumptions C13_length_quiescent.

(* ---- non-vacuity: concrete schedules, evaluated by the kernel ---- *)

(* thread 0 enqueues 7 while thread 1 dequeues: 1 reads head and tail of the empty queue,
   0 links its node, 1 sees the lagging tail and helps, 0's own tail CAS fails, 1 retries
   and takes 7 *)
Definition ex_sched : list (tid * choice) :=
  [(0%nat, CEnq 7); (1%nat, CDeq); (1%nat, CStep); (1%nat, CStep);
   (0%nat, CStep); (0%nat, CStep); (0%nat, CStep); (0%nat, CStep);
   (1%nat, CStep); (1%nat, CStep); (1%nat, CStep);
   (0%nat, CStep); (0%nat, CStep);
   (1%nat, CStep); (1%nat, CStep); (1%nat, CStep); (1%nat, CStep); (1%nat, CStep); (1%nat, CStep)].

Example C13_ex_schedule :
  let r := run ms_fstep init_state ex_sched in
  reachable ms_init ms_step (fst r) /\
  absq (fst r) = [] /\ len (fst r) = 0 /\ g_chain (fst r) = [0%nat; 1%nat] /\
  nth 10 (snd r) (OStuck, RNone) = (OCas LTail (Some 0%nat) (Some 1%nat) true, RNone) /\   (* the helper swings tail *)
  nth 11 (snd r) (OStuck, RNone) = (OCas LTail (Some 0%nat) (Some 1%nat) false, RNone) /\  (* the enqueuer's own CAS fails *)
  nth 18 (snd r) (OStuck, RNone) = (OAdd LLen (-1) 0, RDeq (Some 7)) /\
  g_hist (fst r) = [RetDeq 1 (Some 7); LinDeq 1 1 7; RetEnq 0; LinEnq 0 1 7; CallDeq 1; CallEnq 0 1 7].
Proof. split; [apply ms_run_reachable|]. vm_compute. repeat split; reflexivity. Qed.

(* a Dequeue on the empty queue observes emptiness and reports it; a linked but not yet
   counted Enqueue makes Length lag: non-trivial instances of the hypotheses above *)
Example C13_ex_empty :
  let r := run ms_fstep init_state [(2%nat, CDeq); (2%nat, CStep); (2%nat, CStep); (2%nat, CStep); (2%nat, CStep)] in
  reachable ms_init ms_step (fst r) /\
  g_hist (fst r) = [RetDeq 2 None; EmptyAt 2; CallDeq 2] /\ quiescent_b (fst r) = true.
Proof. split; [apply ms_run_reachable|]. vm_compute. split; reflexivity. Qed.

Example C13_ex_lag :
  let r := run ms_fstep init_state [(0%nat, CEnq 5); (0%nat, CStep); (0%nat, CStep); (0%nat, CStep); (0%nat, CStep)] in
  reachable ms_init ms_step (fst r) /\ absq (fst r) = [5] /\ len (fst r) = 0 /\ total_lag (fst r) = -1.
Proof. split; [apply ms_run_reachable|]. vm_compute. repeat split; reflexivity. Qed.

(* a quiescent state after three Enqueues of one producer and two Dequeues: the hypotheses of
   length_quiescent, producer_fifo (a = 1, b = 2), never_invented are satisfiable *)
Definition ex_seq : list (tid * choice) :=
  [(0%nat, CEnq 5)] ++ repeat (0%nat, CStep) 6 ++ [(0%nat, CEnq 6)] ++ repeat (0%nat, CStep) 6 ++
  [(0%nat, CEnq 8)] ++ repeat (0%nat, CStep) 6 ++ [(1%nat, CDeq)] ++ repeat (1%nat, CStep) 6 ++
  [(1%nat, CDeq)] ++ repeat (1%nat, CStep) 6.

Example C13_ex_quiescent :
  let s := fst (run ms_fstep init_state ex_seq) in
  reachable ms_init ms_step s /\ quiescent_b s = true /\ absq s = [8] /\ q_length s = 1 /\
  q_isempty s = false /\ queue_of_heap s = [8] /\
  g_hist s = [RetDeq 1 (Some 6); LinDeq 1 2 6; CallDeq 1; RetDeq 1 (Some 5); LinDeq 1 1 5; CallDeq 1;
              RetEnq 0; LinEnq 0 3 8; CallEnq 0 3 8;
              RetEnq 0; LinEnq 0 2 6; CallEnq 0 2 6; RetEnq 0; LinEnq 0 1 5; CallEnq 0 1 5].
Proof. split; [apply ms_run_reachable|]. vm_compute. repeat split; reflexivity. Qed.
