//go:build poll_opt

package main

import (
	"unsafe"

	"golang.org/x/sys/unix"

	"github.com/panjf2000/gnet/v2/pkg/netpoll"
	"github.com/panjf2000/gnet/v2/pkg/vsys"
)

// poll_opt poller (poller_epoll_ultimate.go): callbacks live in the
// PollAttachment stored in epoll_data; epoll_wait is issued through
// Syscall6/RawSyscall6 in syscall_epoll_generic_linux.go, whose import of
// x/sys/unix is swapped for pkg/vsys.
const variant = "poll_opt"

func runPolling(d *drv) error { return d.p.Polling() }

var keep []*netpoll.PollAttachment // attachments are referenced from kernel memory only

func addIO(d *drv, fd int) error {
	pa := &netpoll.PollAttachment{FD: fd}
	pa.Callback = func(fd int, _ netpoll.IOEvent, _ netpoll.IOFlags) error {
		if cd := current(); cd != nil {
			return cd.ioCallback(fd)
		}
		return nil
	}
	keep = append(keep, pa)
	if len(keep) > 4096 {
		keep = keep[2048:]
	}
	return d.p.AddRead(pa, true)
}

// linux/amd64: struct epoll_event is packed: 4 bytes events, 8 bytes data
const evSize = 12

func installWaitHook() {
	vsys.SetWaitHook(func(epfd int, events unsafe.Pointer, max int, msec int, real func(int) (int, vsys.Errno)) (int, vsys.Errno) {
		d := current()
		if d == nil {
			return real(msec)
		}
		n, err := d.waitCommon(msec,
			func(ms int) (int, error) {
				n, e := real(ms)
				if e != 0 {
					return n, e
				}
				return n, nil
			},
			func(n int) []int {
				var fds []int
				for i := 0; i < n && i < max; i++ {
					pa := *(**netpoll.PollAttachment)(unsafe.Add(events, i*evSize+4))
					fds = append(fds, pa.FD)
				}
				return fds
			})
		if err != nil {
			if en, ok := err.(unix.Errno); ok {
				return n, en
			}
			return n, unix.EBADF
		}
		return n, 0
	})
}

func removeWaitHook() { vsys.SetWaitHook(nil) }
