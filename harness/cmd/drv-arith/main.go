// drv-arith drives pkg/math, byteslice.index and internal/gfd (C20) and
// writes the trace consumed by the extracted model (family "arith").
package main

import (
	"flag"
	"fmt"
	"math/bits"
	"strconv"

	gnet "github.com/panjf2000/gnet/v2"
	gmath "github.com/panjf2000/gnet/v2/pkg/math"
	"github.com/panjf2000/gnet/v2/pkg/pool/byteslice"

	"verifharness/tr"
)

var w *tr.Writer

func callInt(f func(int) int, n int) (string, bool) {
	var r int
	p, _ := tr.Guard(func() { r = f(n) })
	if p {
		return "panic", true
	}
	return strconv.Itoa(r), false
}

func isPow(u uint64) bool { return u != 0 && u&(u-1) == 0 }

// direct oracle: the statement of C20 evaluated on the implementation result
func oracle(name string, n int, res string) {
	bad := func(exp string) {
		w.Fail(name, fmt.Sprintf("n=%d got=%s want=%s", n, res, exp), "C20 closed-form spec")
	}
	const top = 1 << 62
	switch name {
	case "ispow2":
		exp := "0"
		if n > 0 && isPow(uint64(n)) {
			exp = "1"
		}
		if res != exp {
			bad(exp)
		}
	case "ceil":
		if n > top {
			if res != "panic" {
				bad("panic")
			}
			return
		}
		m := n
		if m < 2 {
			m = 2
		}
		p := 1
		for p < m {
			p <<= 1
		}
		if res != strconv.Itoa(p) {
			bad(strconv.Itoa(p))
		}
	case "floor":
		exp := n
		if n > 2 {
			exp = 1 << (bits.Len64(uint64(n)) - 1)
		}
		if res != strconv.Itoa(exp) {
			bad(strconv.Itoa(exp))
		}
	case "closest":
		if n < 1 || n > top {
			return
		}
		lo := 1 << (bits.Len64(uint64(n)) - 1)
		hi := lo
		if lo != n {
			hi = lo << 1
		}
		exp := hi
		if n-lo < hi-n {
			exp = lo
		}
		if res != strconv.Itoa(exp) {
			bad(strconv.Itoa(exp))
		}
	case "bsindex":
		if n < 1 || n > 1<<31-1 {
			return
		}
		i := 0
		for (1 << i) < n {
			i++
		}
		if res != strconv.Itoa(i) {
			bad(strconv.Itoa(i))
		}
	}
}

func doF(name string, n int) {
	w.Op(tr.L("f", name, tr.I(n)))
	var res string
	switch name {
	case "ispow2":
		var b bool
		p, _ := tr.Guard(func() { b = gmath.IsPowerOfTwo(n) })
		if p {
			res = "panic"
		} else {
			res = tr.B(b)
		}
	case "ceil":
		res, _ = callInt(gmath.CeilToPowerOfTwo, n)
	case "floor":
		res, _ = callInt(gmath.FloorToPowerOfTwo, n)
	case "closest":
		res, _ = callInt(gmath.ClosestPowerOfTwo, n)
	case "bsindex":
		res, _ = callInt(func(x int) int { return int(byteslice.VerifIndex(uint32(x))) }, n)
	}
	w.Obs(tr.L("r", res))
	oracle(name, n, res)
}

var funcs = []string{"ispow2", "ceil", "floor", "closest", "bsindex"}

func doAll(n int) {
	for _, f := range funcs {
		if f == "bsindex" && (n < 0 || n > 1<<32-1) {
			continue // argument type is uint32
		}
		doF(f, n)
	}
}

func doGFD(fd, el, row, col, row2, col2 int) {
	raw, ofd, oel, orow, ocol, seq, valid, r2, c2, fd2, el2, seq2 := gnet.VerifGFD(fd, el, row, col, row2, col2)
	w.Op(tr.L("gfd", tr.I(fd), tr.I(el), tr.I(row), tr.I(col), tr.U64(uint64(seq)), tr.I(row2), tr.I(col2)))
	w.Obs(tr.L("gfd", tr.I(ofd), tr.I(oel), tr.I(orow), tr.I(ocol), tr.U64(uint64(seq)), tr.B(valid),
		tr.I(r2), tr.I(c2), tr.I(fd2), tr.I(el2), tr.U64(uint64(seq2)), tr.X(raw[:])))
	if el >= 0 && el < 256 && row >= 0 && row < 256 && col >= 0 && col < 65536 {
		if ofd != fd || oel != el || orow != row || ocol != col {
			w.Fail("gfd", fmt.Sprintf("pack fd=%d el=%d row=%d col=%d", fd, el, row, col), "unpacked values differ")
		}
		if row2 >= 0 && row2 < 256 && col2 >= 0 && col2 < 65536 {
			if fd2 != fd || el2 != el || r2 != row2 || c2 != col2 || seq2 != seq {
				w.Fail("gfd-update", fmt.Sprintf("fd=%d el=%d row2=%d col2=%d", fd, el, row2, col2), "values differ after UpdateIndexes")
			}
		}
	}
}

func replay(path string) {
	for _, c := range tr.ReadCases(path) {
		w.Case(c.ID, "arith")
		w.Tag("replay")
		for _, op := range c.Ops {
			switch op.Name {
			case "f":
				doF(op.Args[0], op.Int(1))
			case "gfd":
				doGFD(op.Int(0), op.Int(1), op.Int(2), op.Int(3), op.Int(5), op.Int(6))
			}
		}
		w.End()
	}
}

func main() {
	seed := flag.Uint64("seed", 1, "")
	tier := flag.String("tier", "quick", "")
	out := flag.String("out", "trace.txt", "")
	stats := flag.String("stats", "", "")
	rep := flag.String("replay", "", "")
	flag.Parse()
	w = tr.NewWriter(*out)
	defer w.Close(*stats)
	if *rep != "" {
		replay(*rep)
		return
	}
	rnd := tr.NewRand(*seed)
	cid := 0
	newCase := func(tag string) {
		cid++
		w.Case(fmt.Sprintf("a%d", cid), "arith")
		w.Tag(tag)
	}
	// powers of two and neighbours
	for k := 0; k < 64; k++ {
		newCase("pow-neighbourhood")
		p := int(uint64(1) << uint(k))
		for _, n := range []int{p, p - 1, p + 1, 3 * p, 3*p - 1, 3*p + 1, -p, p + p/2, p + p/2 - 1, p + p/2 + 1} {
			doAll(n)
			w.Hist("pow-neighbourhood")
		}
		w.End()
	}
	// exhaustive small range
	lo, hi := -4096, 70000
	if *tier == "thorough" {
		lo, hi = -65536, 1<<20
	}
	for n := lo; n <= hi; {
		newCase("small-exhaustive")
		for j := 0; j < 2000 && n <= hi; j++ {
			doAll(n)
			w.Hist("small-exhaustive")
			n++
		}
		w.End()
	}
	// random 64-bit values, random magnitudes
	cnt := 40000
	if *tier == "thorough" {
		cnt = 1000000
	}
	for i := 0; i < cnt; {
		newCase("random")
		for j := 0; j < 2000 && i < cnt; j++ {
			v := rnd.U64() >> uint(rnd.Intn(64))
			n := int(v)
			if rnd.Chance(15) {
				n = -n
			}
			doAll(n)
			w.Hist(fmt.Sprintf("random-bits%02d", bits.Len64(v)/8*8))
			i++
		}
		w.End()
	}
	// GFD
	gcnt := 4000
	if *tier == "thorough" {
		gcnt = 100000
	}
	edge := func(max int) int {
		switch rnd.Intn(6) {
		case 0:
			return 0
		case 1:
			return max - 1
		case 2:
			return max // out of field width: truncation must agree with the model
		default:
			return rnd.Intn(max)
		}
	}
	for i := 0; i < gcnt; {
		newCase("gfd")
		for j := 0; j < 500 && i < gcnt; j++ {
			fd := int(rnd.U64() >> uint(rnd.Intn(64)))
			if rnd.Chance(10) {
				fd = -fd
			}
			doGFD(fd, edge(256), edge(256), edge(65536), edge(256), edge(65536))
			w.Hist("gfd")
			i++
		}
		w.End()
	}
}
