(* C05 -- the data side of Model/FootprintCore.v and the trace runner.

   justified_writers   every assignment to every tracked struct field / package
                       variable of gnet, pkg/netpoll, pkg/socket, pkg/queue, as
                       extracted by harness/cmd/genfootprint (union of the build
                       variants "" and gc_opt), each with the kind of thread that
                       executes it and whether the object is still private to its
                       creator (w_init).  The per-run obligation
                       `gen_writers = justified_writers` makes any new, moved or
                       changed writer visible; the classification of every field
                       (class_of) is COMPUTED from this list.
   exceptions          the closed list of accesses that the conservative,
                       path-insensitive extraction reports but that are ordered or
                       unreachable in the code (each with its justification), plus
                       the genuine defects (x_finding = true, see known_findings.d).
   justified_loop_tasks every function value handed to Poller.Trigger (runs on the
                       loop thread) with the function that hands it over.
   run_footprint       model side of the confinement observations of drv-race.

   No proofs in this file. *)
From GV Require Export Lib.Trace Model.FootprintCore.
Open Scope string_scope.
Open Scope list_scope.

Definition justified_writers : list writer := [
  mkWr "Client.eng" Wr true ROut "NewClient" [];
  mkWr "Client.opts" Wr true ROut "NewClient" [];
  mkWr "Engine.eng" Wr true REngine "Client.Start" [];
  mkWr "Engine.eng" Wr true REngine "Client.Stop" [];
  mkWr "Engine.eng" Wr true REngine "run" [];
  mkWr "Options.BindToDevice" Wr false ROut "WithBindToDevice" [];
  mkWr "Options.EdgeTriggeredIOChunk" Wr false ROut "NewClient" [];
  mkWr "Options.EdgeTriggeredIOChunk" Wr false ROut "NewClient" [("Options.EdgeTriggeredIO", true)];
  mkWr "Options.EdgeTriggeredIOChunk" Wr false ROut "WithEdgeTriggeredIOChunk" [];
  mkWr "Options.EdgeTriggeredIOChunk" Wr true REngine "createListeners" [];
  mkWr "Options.EdgeTriggeredIOChunk" Wr true REngine "createListeners" [("Options.EdgeTriggeredIO", true)];
  mkWr "Options.EdgeTriggeredIO" Wr false ROut "NewClient" [];
  mkWr "Options.EdgeTriggeredIO" Wr false ROut "WithEdgeTriggeredIO" [];
  mkWr "Options.EdgeTriggeredIO" Wr true REngine "createListeners" [];
  mkWr "Options.LB" Wr false ROut "WithLoadBalancing" [];
  mkWr "Options.LockOSThread" Wr false ROut "WithLockOSThread" [];
  mkWr "Options.LogLevel" Wr false ROut "WithLogLevel" [];
  mkWr "Options.LogPath" Wr false ROut "WithLogPath" [];
  mkWr "Options.Logger" Wr false ROut "NewClient" [];
  mkWr "Options.Logger" Wr false ROut "WithLogger" [];
  mkWr "Options.Logger" Wr true REngine "createListeners" [];
  mkWr "Options.MulticastInterfaceIndex" Wr false ROut "WithMulticastInterfaceIndex" [];
  mkWr "Options.Multicore" Wr false ROut "WithMulticore" [];
  mkWr "Options.NumEventLoop" Wr false ROut "WithNumEventLoop" [];
  mkWr "Options.ReadBufferCap" Wr false ROut "NewClient" [];
  mkWr "Options.ReadBufferCap" Wr false ROut "WithReadBufferCap" [];
  mkWr "Options.ReadBufferCap" Wr true REngine "createListeners" [];
  mkWr "Options.ReuseAddr" Wr false ROut "WithReuseAddr" [];
  mkWr "Options.ReusePort" Wr false ROut "WithReusePort" [];
  mkWr "Options.ReusePort" Wr true REngine "createListeners" [];
  mkWr "Options.ReusePort" Wr true REngine "createListeners" [("Options.ReusePort", true)];
  mkWr "Options.SocketRecvBuffer" Wr false ROut "WithSocketRecvBuffer" [];
  mkWr "Options.SocketSendBuffer" Wr false ROut "WithSocketSendBuffer" [];
  mkWr "Options.TCPKeepAlive" Wr false ROut "WithTCPKeepAlive" [];
  mkWr "Options.TCPKeepCount" Wr false ROut "WithTCPKeepCount" [];
  mkWr "Options.TCPKeepInterval" Wr false ROut "WithTCPKeepInterval" [];
  mkWr "Options.TCPNoDelay" Wr false ROut "WithTCPNoDelay" [];
  mkWr "Options.Ticker" Wr false ROut "WithTicker" [];
  mkWr "Options.WriteBufferCap" Wr false ROut "NewClient" [];
  mkWr "Options.WriteBufferCap" Wr false ROut "WithWriteBufferCap" [];
  mkWr "Options.WriteBufferCap" Wr true REngine "createListeners" [];
  mkWr "RegisteredResult.Conn" Wr true RWorker "eventloop.enroll$1" [];
  mkWr "RegisteredResult.Err" Wr true RWorker "eventloop.enroll$1" [];
  mkWr "asyncWriteHook.callback" Wr true RUser "conn.AsyncWrite" [];
  mkWr "asyncWriteHook.data" Wr true RUser "conn.AsyncWrite" [];
  mkWr "asyncWritevHook.callback" Wr true RUser "conn.AsyncWritev" [];
  mkWr "asyncWritevHook.data" Wr true RUser "conn.AsyncWritev" [];
  mkWr "baseLoadBalancer.eventLoops[]" Wr false REngine "baseLoadBalancer.register" [];
  mkWr "baseLoadBalancer.eventLoops" Wr false REngine "baseLoadBalancer.register" [];
  mkWr "baseLoadBalancer.size" Wr false REngine "baseLoadBalancer.register" [];
  mkWr "conn.buffer[]" Wr false RLoop "conn.WriteTo" [];
  mkWr "conn.buffer[]" Wr false RLoop "eventloop.read" [("conn.opened", true)];
  mkWr "conn.buffer" Wr false RLoop "conn.Discard" [];
  mkWr "conn.buffer" Wr false RLoop "conn.Next" [];
  mkWr "conn.buffer" Wr false RLoop "conn.Read" [];
  mkWr "conn.buffer" Wr false RLoop "conn.WriteTo" [];
  mkWr "conn.buffer" Wr false RAcceptor "conn.release" [];
  mkWr "conn.buffer" Wr false RLoop "conn.release" [];
  mkWr "conn.buffer" Wr false RLoop "conn.resetBuffer" [];
  mkWr "conn.buffer" Wr false RLoop "eventloop.readUDP" [];
  mkWr "conn.buffer" Wr false RLoop "eventloop.read" [("conn.opened", true)];
  mkWr "conn.cache[]" Wr false RLoop "conn.Discard" [];
  mkWr "conn.cache" Wr false RLoop "conn.Discard" [];
  mkWr "conn.cache" Wr false RLoop "conn.Peek" [];
  mkWr "conn.ctx" Wr false RLoop "conn.SetContext" [];
  mkWr "conn.ctx" Wr true RWorker "conn.SetContext" [];
  mkWr "conn.ctx" Wr false RAcceptor "conn.release" [];
  mkWr "conn.ctx" Wr false RLoop "conn.release" [];
  mkWr "conn.fd" Wr true RAcceptor "newStreamConn" [];
  mkWr "conn.fd" Wr true RLoop "newStreamConn" [];
  mkWr "conn.fd" Wr true RWorker "newStreamConn" [];
  mkWr "conn.fd" Wr true RLoop "newUDPConn" [];
  mkWr "conn.fd" Wr true RWorker "newUDPConn" [];
  mkWr "conn.gfd" Wr false RLoop "connMatrix.addConn" [];
  mkWr "conn.gfd" Wr false RLoop "connMatrix.delConn" [("conn.opened", true)];
  mkWr "conn.gfd" Wr true RLoop "newUDPConn" [];
  mkWr "conn.gfd" Wr true RWorker "newUDPConn" [];
  mkWr "conn.inboundBuffer" Wr false RLoop "conn.Discard" [];
  mkWr "conn.inboundBuffer" Wr false RLoop "conn.InboundBuffered" [];
  mkWr "conn.inboundBuffer" Wr false RLoop "conn.Next" [];
  mkWr "conn.inboundBuffer" Wr false RLoop "conn.Peek" [];
  mkWr "conn.inboundBuffer" Wr false RLoop "conn.Read" [];
  mkWr "conn.inboundBuffer" Wr false RLoop "conn.WriteTo" [];
  mkWr "conn.inboundBuffer" Wr false RAcceptor "conn.release" [("conn.isDatagram", false)];
  mkWr "conn.inboundBuffer" Wr false RLoop "conn.release" [("conn.isDatagram", false)];
  mkWr "conn.inboundBuffer" Wr false RLoop "conn.resetBuffer" [];
  mkWr "conn.inboundBuffer" Wr false RLoop "eventloop.read" [("conn.opened", true)];
  mkWr "conn.isDatagram" Wr true RLoop "newUDPConn" [];
  mkWr "conn.isDatagram" Wr true RWorker "newUDPConn" [];
  mkWr "conn.isEOF" Wr false RLoop "conn.processIO" [("conn.opened", true)];
  mkWr "conn.isEOF" Wr false RAcceptor "conn.release" [];
  mkWr "conn.isEOF" Wr false RLoop "conn.release" [];
  mkWr "conn.localAddr" Wr false RAcceptor "conn.release" [];
  mkWr "conn.localAddr" Wr false RLoop "conn.release" [];
  mkWr "conn.localAddr" Wr true RAcceptor "newStreamConn" [];
  mkWr "conn.localAddr" Wr true RLoop "newStreamConn" [];
  mkWr "conn.localAddr" Wr true RWorker "newStreamConn" [];
  mkWr "conn.localAddr" Wr true RLoop "newUDPConn" [];
  mkWr "conn.localAddr" Wr true RWorker "newUDPConn" [];
  mkWr "conn.loop" Wr true RAcceptor "newStreamConn" [];
  mkWr "conn.loop" Wr true RLoop "newStreamConn" [];
  mkWr "conn.loop" Wr true RWorker "newStreamConn" [];
  mkWr "conn.loop" Wr true RLoop "newUDPConn" [];
  mkWr "conn.loop" Wr true RWorker "newUDPConn" [];
  mkWr "conn.opened" Wr false RAcceptor "conn.release" [];
  mkWr "conn.opened" Wr false RLoop "conn.release" [];
  mkWr "conn.opened" Wr false RLoop "eventloop.open" [];
  mkWr "conn.outboundBuffer" Wr false RLoop "conn.Flush" [("conn.isDatagram", false); ("conn.opened", true)];
  mkWr "conn.outboundBuffer" Wr false RLoop "conn.OutboundBuffered" [];
  mkWr "conn.outboundBuffer" Wr false RLoop "conn.ReadFrom" [];
  mkWr "conn.outboundBuffer" Wr false RLoop "conn.open" [("conn.opened", true)];
  mkWr "conn.outboundBuffer" Wr false RLoop "conn.processIO" [];
  mkWr "conn.outboundBuffer" Wr false RAcceptor "conn.release" [("conn.isDatagram", false)];
  mkWr "conn.outboundBuffer" Wr false RLoop "conn.release" [("conn.isDatagram", false)];
  mkWr "conn.outboundBuffer" Wr false RLoop "conn.writev" [("conn.opened", true)];
  mkWr "conn.outboundBuffer" Wr false RLoop "conn.write" [("conn.opened", true)];
  mkWr "conn.outboundBuffer" Wr false RLoop "eventloop.close" [("conn.opened", true)];
  mkWr "conn.outboundBuffer" Wr false RLoop "eventloop.open" [("conn.opened", true)];
  mkWr "conn.outboundBuffer" Wr false RLoop "eventloop.write" [];
  mkWr "conn.outboundBuffer" Wr false RLoop "eventloop.write" [("conn.opened", true)];
  mkWr "conn.outboundBuffer" Wr true RAcceptor "newStreamConn" [];
  mkWr "conn.outboundBuffer" Wr true RLoop "newStreamConn" [];
  mkWr "conn.outboundBuffer" Wr true RWorker "newStreamConn" [];
  mkWr "conn.pollAttachment" Wr true RAcceptor "newStreamConn" [];
  mkWr "conn.pollAttachment" Wr true RLoop "newStreamConn" [];
  mkWr "conn.pollAttachment" Wr true RWorker "newStreamConn" [];
  mkWr "conn.pollAttachment" Wr true RLoop "newUDPConn" [];
  mkWr "conn.pollAttachment" Wr true RWorker "newUDPConn" [];
  mkWr "conn.proto" Wr true RAcceptor "newStreamConn" [];
  mkWr "conn.proto" Wr true RLoop "newStreamConn" [];
  mkWr "conn.proto" Wr true RWorker "newStreamConn" [];
  mkWr "conn.proto" Wr true RLoop "newUDPConn" [];
  mkWr "conn.proto" Wr true RWorker "newUDPConn" [];
  mkWr "conn.remoteAddr" Wr false RAcceptor "conn.release" [];
  mkWr "conn.remoteAddr" Wr false RLoop "conn.release" [];
  mkWr "conn.remoteAddr" Wr true RAcceptor "newStreamConn" [];
  mkWr "conn.remoteAddr" Wr true RLoop "newStreamConn" [];
  mkWr "conn.remoteAddr" Wr true RWorker "newStreamConn" [];
  mkWr "conn.remoteAddr" Wr true RLoop "newUDPConn" [];
  mkWr "conn.remoteAddr" Wr true RWorker "newUDPConn" [];
  mkWr "conn.remote" Wr false RAcceptor "conn.release" [("conn.isDatagram", false)];
  mkWr "conn.remote" Wr false RLoop "conn.release" [("conn.isDatagram", false)];
  mkWr "conn.remote" Wr true RAcceptor "newStreamConn" [];
  mkWr "conn.remote" Wr true RLoop "newStreamConn" [];
  mkWr "conn.remote" Wr true RWorker "newStreamConn" [];
  mkWr "conn.remote" Wr true RLoop "newUDPConn" [];
  mkWr "conn.remote" Wr true RWorker "newUDPConn" [];
  mkWr "conn.safeCtx" AWr false RUser "conn.SetSafeContext" [];
  mkWr "conn.safeCtx" AWr true RWorker "conn.SetSafeContext" [];
  mkWr "conn.safeCtx" AWr false RAcceptor "conn.release" [];
  mkWr "conn.safeCtx" AWr false RLoop "conn.release" [];
  mkWr "connMatrix.column" Wr false RLoop "connMatrix.addConn" [];
  mkWr "connMatrix.column" Wr false RLoop "connMatrix.delConn" [];
  mkWr "connMatrix.column" Wr false RLoop "connMatrix.delConn" [("connMatrix.disableCompact", false)];
  mkWr "connMatrix.connCounts[]" AWr false RLoop "connMatrix.incCount" [];
  mkWr "connMatrix.connCount" AWr false RLoop "connMatrix.incCount" [];
  mkWr "connMatrix.connMap[]" Wr false RLoop "connMatrix.addConn" [];
  mkWr "connMatrix.connMap[]" Wr false RLoop "connMatrix.delConn" [];
  mkWr "connMatrix.connMap" Wr true REngine "connMatrix.init" [];
  mkWr "connMatrix.disableCompact" Wr false RLoop "connMatrix.iterate" [];
  mkWr "connMatrix.fd2gfd[]" Wr false RLoop "connMatrix.addConn" [];
  mkWr "connMatrix.fd2gfd[]" Wr false RLoop "connMatrix.delConn" [];
  mkWr "connMatrix.fd2gfd[]" Wr false RLoop "connMatrix.delConn" [("connMatrix.disableCompact", false)];
  mkWr "connMatrix.fd2gfd" Wr true REngine "connMatrix.init" [];
  mkWr "connMatrix.row" Wr false RLoop "connMatrix.addConn" [];
  mkWr "connMatrix.row" Wr false RLoop "connMatrix.delConn" [];
  mkWr "connMatrix.row" Wr false RLoop "connMatrix.delConn" [("connMatrix.disableCompact", false)];
  mkWr "connMatrix.table[]" Wr false RLoop "connMatrix.addConn" [];
  mkWr "connMatrix.table[]" Wr false RLoop "connMatrix.delConn" [];
  mkWr "connMatrix.table[]" Wr false RLoop "connMatrix.delConn" [("connMatrix.disableCompact", false)];
  mkWr "connWithCallback.cb" Wr true ROut "Client.EnrollContext" [];
  mkWr "connWithCallback.cb" Wr true RWorker "eventloop.enroll$1" [];
  mkWr "connWithCallback.c" Wr true ROut "Client.EnrollContext" [];
  mkWr "connWithCallback.c" Wr true RWorker "eventloop.enroll$1" [];
  mkWr "engine.concurrency" Wr true ROut "NewClient" [];
  mkWr "engine.concurrency" Wr true REngine "run" [];
  mkWr "engine.eventHandler" Wr true ROut "NewClient" [];
  mkWr "engine.eventHandler" Wr true REngine "run" [];
  mkWr "engine.eventLoops" Wr true ROut "NewClient" [];
  mkWr "engine.eventLoops" Wr true REngine "run" [];
  mkWr "engine.inShutdown" AWr false REngine "Client.Start" [];
  mkWr "engine.inShutdown" AWr false REngine "Client.Stop" [];
  mkWr "engine.inShutdown" AWr false REngine "engine.stop" [];
  mkWr "engine.ingress" Wr false REngine "engine.activateReactors" [];
  mkWr "engine.listeners" Wr true ROut "NewClient" [];
  mkWr "engine.listeners" Wr true REngine "run" [];
  mkWr "engine.opts" Wr true ROut "NewClient" [];
  mkWr "engine.opts" Wr true REngine "run" [];
  mkWr "engine.turnOff" Wr true ROut "NewClient" [];
  mkWr "engine.turnOff" Wr true REngine "run" [];
  mkWr "eventloop.buffer[]" Wr false RLoop "eventloop.readUDP" [];
  mkWr "eventloop.buffer[]" Wr false RLoop "eventloop.read" [];
  mkWr "eventloop.buffer" Wr true REngine "Client.Start" [];
  mkWr "eventloop.buffer" Wr true REngine "engine.activateReactors" [];
  mkWr "eventloop.buffer" Wr true REngine "engine.runEventLoops" [];
  mkWr "eventloop.engine" Wr true REngine "Client.Start" [];
  mkWr "eventloop.engine" Wr true REngine "engine.activateReactors" [];
  mkWr "eventloop.engine" Wr true REngine "engine.runEventLoops" [];
  mkWr "eventloop.eventHandler" Wr true REngine "Client.Start" [];
  mkWr "eventloop.eventHandler" Wr true REngine "engine.activateReactors" [];
  mkWr "eventloop.eventHandler" Wr true REngine "engine.runEventLoops" [];
  mkWr "eventloop.idx" Wr true REngine "baseLoadBalancer.register" [];
  mkWr "eventloop.idx" Wr true REngine "engine.activateReactors" [];
  mkWr "eventloop.listeners" Wr true REngine "Client.Start" [];
  mkWr "eventloop.listeners" Wr true REngine "engine.activateReactors" [];
  mkWr "eventloop.listeners" Wr true REngine "engine.runEventLoops" [];
  mkWr "eventloop.poller" Wr true REngine "Client.Start" [];
  mkWr "eventloop.poller" Wr true REngine "engine.activateReactors" [];
  mkWr "eventloop.poller" Wr true REngine "engine.runEventLoops" [];
  mkWr "listener.address" Wr true REngine "initListener" [];
  mkWr "listener.addr" Wr true REngine "listener.open" [];
  mkWr "listener.closeOnce" AWr false REngine "listener.close" [];
  mkWr "listener.closeOnce" AWr true REngine "listener.close" [];
  mkWr "listener.fd" Wr false REngine "listener.close" [];
  mkWr "listener.fd" Wr true REngine "listener.close" [];
  mkWr "listener.fd" Wr true REngine "listener.open" [];
  mkWr "listener.network" Wr true REngine "initListener" [];
  mkWr "listener.network" Wr true REngine "listener.open" [];
  mkWr "listener.openOnce" AWr true REngine "listener.open" [];
  mkWr "listener.pollAttachment" Wr false REngine "listener.packPollAttachment" [];
  mkWr "listener.sockOptInts" Wr true REngine "initListener" [];
  mkWr "listener.sockOptStrs" Wr true REngine "initListener" [];
  mkWr "netpoll.PollAttachment.Callback" Wr true REngine "listener.packPollAttachment" [];
  mkWr "netpoll.PollAttachment.Callback" Wr true RAcceptor "newStreamConn" [];
  mkWr "netpoll.PollAttachment.Callback" Wr true RLoop "newStreamConn" [];
  mkWr "netpoll.PollAttachment.Callback" Wr true RWorker "newStreamConn" [];
  mkWr "netpoll.PollAttachment.Callback" Wr true RLoop "newUDPConn" [];
  mkWr "netpoll.PollAttachment.Callback" Wr true RWorker "newUDPConn" [];
  mkWr "netpoll.PollAttachment.FD" Wr true REngine "listener.packPollAttachment" [];
  mkWr "netpoll.PollAttachment.FD" Wr true REngine "netpoll.OpenPoller" [];
  mkWr "netpoll.PollAttachment.FD" Wr true RAcceptor "newStreamConn" [];
  mkWr "netpoll.PollAttachment.FD" Wr true RLoop "newStreamConn" [];
  mkWr "netpoll.PollAttachment.FD" Wr true RWorker "newStreamConn" [];
  mkWr "netpoll.PollAttachment.FD" Wr true RLoop "newUDPConn" [];
  mkWr "netpoll.PollAttachment.FD" Wr true RWorker "newUDPConn" [];
  mkWr "netpoll.Poller.asyncTaskQueue" Wr true REngine "netpoll.OpenPoller" [];
  mkWr "netpoll.Poller.efdBuf[]" Wr false RAcceptor "netpoll.Poller.Polling" [];
  mkWr "netpoll.Poller.efdBuf[]" Wr false RLoop "netpoll.Poller.Polling" [];
  mkWr "netpoll.Poller.efdBuf[]" Wr false RAcceptor "netpoll.Poller.Trigger" [];
  mkWr "netpoll.Poller.efdBuf[]" Wr false REngine "netpoll.Poller.Trigger" [];
  mkWr "netpoll.Poller.efdBuf[]" Wr false RLoop "netpoll.Poller.Trigger" [];
  mkWr "netpoll.Poller.efdBuf[]" Wr false RTicker "netpoll.Poller.Trigger" [];
  mkWr "netpoll.Poller.efdBuf[]" Wr false RUser "netpoll.Poller.Trigger" [];
  mkWr "netpoll.Poller.efdBuf[]" Wr false RWorker "netpoll.Poller.Trigger" [];
  mkWr "netpoll.Poller.efdBuf" Wr true REngine "netpoll.OpenPoller" [];
  mkWr "netpoll.Poller.efd" Wr true REngine "netpoll.OpenPoller" [];
  mkWr "netpoll.Poller.fd" Wr true REngine "netpoll.OpenPoller" [];
  mkWr "netpoll.Poller.highPriorityEventsThreshold" Wr true REngine "netpoll.OpenPoller" [];
  mkWr "netpoll.Poller.urgentAsyncTaskQueue" Wr true REngine "netpoll.OpenPoller" [];
  mkWr "netpoll.Poller.wakeupCall" AWr false RAcceptor "netpoll.Poller.Polling" [];
  mkWr "netpoll.Poller.wakeupCall" AWr false RLoop "netpoll.Poller.Polling" [];
  mkWr "netpoll.Poller.wakeupCall" AWr false RAcceptor "netpoll.Poller.Trigger" [];
  mkWr "netpoll.Poller.wakeupCall" AWr false REngine "netpoll.Poller.Trigger" [];
  mkWr "netpoll.Poller.wakeupCall" AWr false RLoop "netpoll.Poller.Trigger" [];
  mkWr "netpoll.Poller.wakeupCall" AWr false RTicker "netpoll.Poller.Trigger" [];
  mkWr "netpoll.Poller.wakeupCall" AWr false RUser "netpoll.Poller.Trigger" [];
  mkWr "netpoll.Poller.wakeupCall" AWr false RWorker "netpoll.Poller.Trigger" [];
  mkWr "netpoll.epollevent.Events" Wr true ROut "netpoll.Poller.AddReadWrite" [];
  mkWr "netpoll.epollevent.Events" Wr true REngine "netpoll.Poller.AddRead" [];
  mkWr "netpoll.epollevent.Events" Wr true ROut "netpoll.Poller.AddWrite" [];
  mkWr "netpoll.epollevent.Events" Wr true RLoop "netpoll.Poller.ModReadWrite" [];
  mkWr "netpoll.epollevent.Events" Wr true RLoop "netpoll.Poller.ModRead" [];
  mkWr "netpoll.epollevent.Fd" Wr true ROut "netpoll.Poller.AddReadWrite" [];
  mkWr "netpoll.epollevent.Fd" Wr true REngine "netpoll.Poller.AddRead" [];
  mkWr "netpoll.epollevent.Fd" Wr true ROut "netpoll.Poller.AddWrite" [];
  mkWr "netpoll.epollevent.Fd" Wr true RLoop "netpoll.Poller.ModReadWrite" [];
  mkWr "netpoll.epollevent.Fd" Wr true RLoop "netpoll.Poller.ModRead" [];
  mkWr "netpoll.eventList.events[]" Wr true RAcceptor "netpoll.Poller.Polling" [];
  mkWr "netpoll.eventList.events[]" Wr true RLoop "netpoll.Poller.Polling" [];
  mkWr "netpoll.eventList.events" Wr true RAcceptor "netpoll.eventList.expand" [];
  mkWr "netpoll.eventList.events" Wr true RLoop "netpoll.eventList.expand" [];
  mkWr "netpoll.eventList.events" Wr true RAcceptor "netpoll.eventList.shrink" [];
  mkWr "netpoll.eventList.events" Wr true RLoop "netpoll.eventList.shrink" [];
  mkWr "netpoll.eventList.events" Wr true RAcceptor "netpoll.newEventList" [];
  mkWr "netpoll.eventList.events" Wr true RLoop "netpoll.newEventList" [];
  mkWr "netpoll.eventList.size" Wr true RAcceptor "netpoll.eventList.expand" [];
  mkWr "netpoll.eventList.size" Wr true RLoop "netpoll.eventList.expand" [];
  mkWr "netpoll.eventList.size" Wr true RAcceptor "netpoll.eventList.shrink" [];
  mkWr "netpoll.eventList.size" Wr true RLoop "netpoll.eventList.shrink" [];
  mkWr "netpoll.eventList.size" Wr true RAcceptor "netpoll.newEventList" [];
  mkWr "netpoll.eventList.size" Wr true RLoop "netpoll.newEventList" [];
  mkWr "queue.Task.Exec" Wr true RAcceptor "netpoll.Poller.Trigger" [];
  mkWr "queue.Task.Exec" Wr true REngine "netpoll.Poller.Trigger" [];
  mkWr "queue.Task.Exec" Wr true RLoop "netpoll.Poller.Trigger" [];
  mkWr "queue.Task.Exec" Wr true RTicker "netpoll.Poller.Trigger" [];
  mkWr "queue.Task.Exec" Wr true RUser "netpoll.Poller.Trigger" [];
  mkWr "queue.Task.Exec" Wr true RWorker "netpoll.Poller.Trigger" [];
  mkWr "queue.Task.Param" Wr true RAcceptor "netpoll.Poller.Trigger" [];
  mkWr "queue.Task.Param" Wr true REngine "netpoll.Poller.Trigger" [];
  mkWr "queue.Task.Param" Wr true RLoop "netpoll.Poller.Trigger" [];
  mkWr "queue.Task.Param" Wr true RTicker "netpoll.Poller.Trigger" [];
  mkWr "queue.Task.Param" Wr true RUser "netpoll.Poller.Trigger" [];
  mkWr "queue.Task.Param" Wr true RWorker "netpoll.Poller.Trigger" [];
  mkWr "roundRobinLoadBalancer.nextIndex" Wr false RAcceptor "roundRobinLoadBalancer.next" [];
  mkWr "socket.Option.Opt" Wr true REngine "initListener" [];
  mkWr "socket.Option.SetSockOpt" Wr true REngine "initListener" [];
  mkWr "var:allEngines" AWr false ROut "Stop" [];
  mkWr "var:allEngines" AWr false REngine "run" [];
  mkWr "var:socket.tryDupCloexec" AWr false RUser "socket.dupCloseOnExec" [];
  mkWr "var:socket.tryDupCloexec" AWr false RWorker "socket.dupCloseOnExec" [];
  mkWr "var:socket.tryDupCloexec" AWr false ROut "socket.init" []
].

Definition justified_loop_tasks : list (string * string) := [
  ("Client.Stop$2", "Client.Stop");
  ("conn.Close$1", "conn.Close");
  ("conn.CloseWithCallback$1", "conn.CloseWithCallback");
  ("conn.Wake$1", "conn.Wake");
  ("conn.asyncWrite", "conn.AsyncWrite");
  ("conn.asyncWritev", "conn.AsyncWritev");
  ("engine.stop$2", "engine.stop");
  ("engine.stop$3", "engine.stop");
  ("eventloop.Execute$1", "eventloop.Execute");
  ("eventloop.read0", "eventloop.read");
  ("eventloop.register", "Client.EnrollContext");
  ("eventloop.register", "eventloop.accept0");
  ("eventloop.register", "eventloop.enroll$1");
  ("eventloop.ticker$2", "eventloop.ticker");
  ("eventloop.write0", "eventloop.write")
].

(* ------------------------------------------------------------------ *)
(* Exceptions.  How to read an entry: threads of role x_role executing function
   x_via may make the x_kind access to x_loc although the classification computed
   from the writers does not permit it. *)
Definition exceptions : list exc := [
  (* Poller.Trigger / Polling: `unix.Read(p.efd, p.efdBuf)` is reached only when
     write(2) on the eventfd returns EAGAIN, i.e. when its 64-bit counter would
     overflow; the counter grows by one per wake-up and is never reset, so this
     needs 2^64-1 wake-ups.  The 8 bytes read are never looked at. *)
  mkExc None "*" "netpoll.Poller.efdBuf[]" Wr false
        "scratch buffer written only on eventfd counter overflow (unreachable); contents never read";
  (* acceptor_unix.go accept0: `c.release()` after Trigger returned an error.  Trigger
     fails only if write(2) on the target loop's eventfd fails with an error other
     than EAGAIN; the eventfd is closed (closeEventLoops) only after every loop and
     the acceptor have returned (errgroup Wait), so while the acceptor runs the
     write cannot fail and this path is not executed. *)
  mkExc (Some RAcceptor) "conn.release" "*" Wr false
        "accept0 error path after a failed Trigger: not executable while the pollers are open";
  (* eventloop.idx is assigned once, in baseLoadBalancer.register, by the goroutine that starts the
     engine.  Since a32188d the loop is registered right after it has been constructed, before it is
     stored in any listener's poll attachment, so the extraction sees the assignment as a constructor
     write and the three read exceptions that used to be listed here (loop, ticker, worker) are gone. *)
  (* the load balancer's loop list is complete before the main reactor (acceptor)
     goroutine is started: activateReactors registers every loop, creates the acceptor,
     and only then starts the loops and the acceptor (89130c4) *)
  mkExc (Some RAcceptor) "*" "baseLoadBalancer.eventLoops" Rd false "filled before the acceptor goroutine is started";
  mkExc (Some RAcceptor) "*" "baseLoadBalancer.eventLoops[]" Rd false "filled before the acceptor goroutine is started";
  mkExc (Some RAcceptor) "*" "baseLoadBalancer.size" Rd false "filled before the acceptor goroutine is started";
  (* engine.ingress is assigned in activateReactors before `eng.concurrency.Go` starts
     the ticker closure that reads it *)
  mkExc (Some RTicker) "*" "engine.ingress" Rd false "assigned before the ticker goroutine is started";
  (* FINDING cc-during-start: the Engine handle is given to user code in OnBoot, before
     engine.start registers the event loops; Engine.CountConnections called from a
     goroutine started in OnBoot iterates baseLoadBalancer.eventLoops while
     baseLoadBalancer.register appends to it.  Confirmed with the race detector. *)
  mkExc (Some RUser) "baseLoadBalancer.iterate" "baseLoadBalancer.eventLoops" Rd true
        "Engine.CountConnections concurrent with engine start (OnBoot hands out the Engine before start)";
  mkExc (Some RUser) "baseLoadBalancer.iterate" "baseLoadBalancer.eventLoops[]" Rd true
        "Engine.CountConnections concurrent with engine start (OnBoot hands out the Engine before start)"
].

Definition findings (xs : list exc) : list exc := filter x_finding xs.


(* ------------------------------------------------------------------ *)
(* Trace runner (family footprint): the confinement observations of drv-race.
   Input: the callback brackets of one engine run in the order of a global
   sequence counter,
     op b <loop> <goroutine> <conn>     a callback of <loop> starts on <goroutine>
     op e <loop> <goroutine> <conn>     ... returns        (<conn> = -1: none)
   Output: obs verdict <foreign> <overlaps> <migrations>
     foreign     callbacks of a loop that ran on a goroutine other than the first one
                 seen for that loop
     overlaps    callbacks that started while a callback of the same loop was active
                 on a different goroutine
     migrations  connections seen on more than one loop
   The model's claim (callbacks_confined / callbacks_serial / conn_loop_fixed) is
   0 0 0; the runner recomputes the three numbers from the brackets. *)
Open Scope Z_scope.

Fixpoint zlookup {A} (k : Z) (m : list (Z * A)) : option A :=
  match m with
  | [] => None
  | (k', v) :: r => if k =? k' then Some v else zlookup k r
  end.

Fixpoint zset {A} (k : Z) (v : A) (m : list (Z * A)) : list (Z * A) :=
  match m with
  | [] => [(k, v)]
  | (k', v') :: r => if k =? k' then (k, v) :: r else (k', v') :: zset k v r
  end.

Record fstate := mkF {
  f_owner : list (Z * Z);            (* loop -> goroutine first seen *)
  f_active : list (Z * list Z);      (* loop -> stack of goroutines inside a callback *)
  f_conn : list (Z * Z);             (* conn -> loop first seen *)
  f_foreign : Z; f_overlap : Z; f_migr : Z;
}.

Definition f_init : fstate := mkF [] [] [] 0 0 0.

Definition f_step (s : fstate) (l : line) : fstate :=
  match l with
  | ("b", [AInt lp; AInt g; AInt c]) =>
      let '(owner, foreign) :=
        match zlookup lp (f_owner s) with
        | None => (zset lp g (f_owner s), f_foreign s)
        | Some g0 => (f_owner s, if g0 =? g then f_foreign s else f_foreign s + 1)
        end in
      let stack := match zlookup lp (f_active s) with Some st => st | None => [] end in
      let overlap := if existsb (fun g' => negb (g' =? g)) stack then f_overlap s + 1 else f_overlap s in
      let '(conns, migr) :=
        if c <? 0 then (f_conn s, f_migr s) else
        match zlookup c (f_conn s) with
        | None => (zset c lp (f_conn s), f_migr s)
        | Some lp0 => (f_conn s, if lp0 =? lp then f_migr s else f_migr s + 1)
        end in
      mkF owner (zset lp (g :: stack) (f_active s)) conns foreign overlap migr
  | ("e", [AInt lp; AInt g; AInt c]) =>
      let stack := match zlookup lp (f_active s) with Some st => st | None => [] end in
      let fix drop (st : list Z) : list Z :=
        match st with [] => [] | g' :: r => if g' =? g then r else g' :: drop r end in
      mkF (f_owner s) (zset lp (drop stack) (f_active s)) (f_conn s) (f_foreign s) (f_overlap s) (f_migr s)
  | _ => s
  end.

Definition run_footprint : runner := fun i =>
  let s := fold_left f_step i f_init in
  [obs "verdict" [AInt (f_foreign s); AInt (f_overlap s); AInt (f_migr s)]].
