"""Per-property description consumed by bin/check."""

COMMON_TRUSTED = [
    "Coq 8.16.1 kernel (coqc; re-checked by coqchk in the thorough tier); vm_compute used only in Examples / finite sweeps; no native_compute",
    "Extraction: ExtrOcamlBasic only (Extract Inductive bool/option/unit/list/prod/sumbool/sumor, Extract Inlined Constant fst/snd/andb/orb/negb); no Extract Constant of our own; OCaml 4.13.1; runner/run.ml trace parser",
    "Go harness (harness/): generators, overlay export files, canonicalisation, lib/vcheck.py diff",
    "gnet code is modelled by hand in coq/Model; the tie to /repo is the per-run correspondence (and the translators where listed)",
]

COMMON_ASSUMPTIONS = [
    "linux/amd64, 64-bit int, Go toolchain as installed",
    "correspondence is differential testing: agreement on the explored cases is evidence, not proof, that the model is the code",
]

import glob, os, runpy

PROPS = {}
for _f in sorted(glob.glob(os.path.join(os.path.dirname(os.path.abspath(__file__)), "props.d", "C*.py"))):
    PROPS[os.path.basename(_f)[:-3]] = runpy.run_path(_f)["PROP"]
