(* Which events each thread can emit, frame facts of the steps, and the invariants
   that tie the history to the program counters: OnShutdown once, one return, no
   callback after the return. *)
From GV Require Import Lib.Trace Lib.Interleave Model.Engine Proofs.EngineBase Proofs.EngineInv.
From Coq Require Import Lia List Bool Arith ZArith.
Import ListNotations.
Open Scope list_scope.

(* ------------------------------------------------------------------ *)
(* frame facts *)

Lemma fr_cancel_if : forall b s,
  e_r (cancel_if b s) = e_r s /\ e_started (cancel_if b s) = e_started s /\ e_cfg (cancel_if b s) = e_cfg s /\
  e_insd (cancel_if b s) = e_insd s /\ e_t (cancel_if b s) = e_t s /\ e_hist (cancel_if b s) = e_hist s /\
  e_loops (cancel_if b s) = e_loops s /\ e_ing (cancel_if b s) = e_ing s /\ e_next (cancel_if b s) = e_next s /\
  e_workers (cancel_if b s) = e_workers s /\ e_users (cancel_if b s) = e_users s /\ e_alloc (cancel_if b s) = e_alloc s /\
  e_inall (cancel_if b s) = e_inall s.
Proof. intros [|] s; cbn; splits; reflexivity. Qed.

Lemma fr_signal : forall o s,
  e_r (signal s o) = e_r s /\ e_started (signal s o) = e_started s /\ e_cfg (signal s o) = e_cfg s /\
  e_insd (signal s o) = e_insd s /\ e_t (signal s o) = e_t s /\ e_hist (signal s o) = e_hist s /\
  e_loops (signal s o) = e_loops s /\ e_ing (signal s o) = e_ing s /\ e_next (signal s o) = e_next s /\
  e_cancel (signal s o) = e_cancel s /\ e_alloc (signal s o) = e_alloc s /\ e_inall (signal s o) = e_inall s.
Proof. intros [|k|g] s; cbn; splits; reflexivity. Qed.

Ltac frame_rw :=
  repeat match goal with
  | |- context [cancel_if ?b ?s] =>
      let H := fresh in pose proof (fr_cancel_if b s) as H;
      destruct H as (?&?&?&?&?&?&?&?&?&?&?&?&?); generalize dependent (cancel_if b s); intros
  | |- context [signal ?s ?o] =>
      let H := fresh in pose proof (fr_signal o s) as H;
      destruct H as (?&?&?&?&?&?&?&?&?&?&?&?); generalize dependent (signal s o); intros
  end.

(* the steps of every thread but the Run caller leave its program counter, the
   configuration and the started flag alone *)
Ltac frame_fin :=
  cbn; repeat match goal with
       | |- context [cancel_if ?b ?s] => destruct b; cbn
       | |- context [signal ?s ?o] => destruct o; cbn
       | |- context [if ?b then _ else _] => destruct b; cbn
       end; auto.

Lemma nonR_frame : forall s t c s' evs, t <> TR -> estep_opt s t c = Some (s', evs) ->
  e_r s' = e_r s /\ e_started s' = e_started s /\ e_cfg s' = e_cfg s /\ e_alloc s' = e_alloc s.
Proof.
  intros s t c s' evs Ht H. destruct t; [congruence| | | | |]; cbn in H.
  - unfold lstep in H. destruct (get_loop s i); [|discriminate]. step_cases H; frame_fin.
  - unfold astep in H. step_cases H; frame_fin.
  - unfold tstep in H. step_cases H; frame_fin.
  - unfold ustep in H. destruct (get_user s g); [|discriminate].
    destruct u as [|ex pk|op].
    + destruct c; try discriminate H. unfold do_call in H. destruct c; step_cases H; frame_fin.
    + destruct c; try discriminate H; step_cases H; frame_fin.
    + step_cases H; frame_fin.
  - unfold wstep in H. step_cases H; frame_fin.
Qed.

(* ------------------------------------------------------------------ *)
(* events per thread *)

Definition is_loop_kind (k : ekind) : bool :=
  match k with KOpen _ | KTraffic _ | KClose _ | KDatagram | KExec _ => true | _ => false end.

Lemma apply_cb_events : forall t l cid h l2 evs d, apply_cb t l cid h = (l2, evs, d) ->
  evs = [] \/ evs = [(t, KClose cid)].
Proof.
  intros t l cid h l2 evs d H. unfold apply_cb in H. destruct (after_cb h) as [[cl se] off].
  injection H as <- <- <-. destruct cl; auto.
Qed.

Lemma loop_common_events : forall t l c l' evs off, loop_common t l c = Some (l', evs, off) ->
  evs = [] \/ exists cid, evs = [(t, KClose cid)] /\ l_conns l <> [].
Proof.
  intros t l c l' evs off H. unfold loop_common in H. step_cases H; auto.
  right. eexists. split; [reflexivity|]. congruence.
Qed.

Lemma lstep_events : forall i s c s' evs, lstep i s c = Some (s', evs) ->
  Forall (fun e => fst e = TL i /\ is_loop_kind (snd e) = true) evs.
Proof.
  intros i s c s' evs H. unfold lstep in H. destruct (get_loop s i); [|discriminate].
  step_cases H.
  all: try match goal with E : apply_cb _ _ _ _ = _ |- _ => apply apply_cb_events in E; destruct E as [->| ->] end.
  all: try match goal with E : loop_common _ _ _ = _ |- _ => apply loop_common_events in E; destruct E as [->|[cid [-> _]]] end.
  all: repeat constructor.
Qed.

Lemma astep_events : forall s c s' evs, l_conns (e_ing s) = [] -> astep s c = Some (s', evs) -> evs = [].
Proof.
  intros s c s' evs Hc H. unfold astep in H. step_cases H; auto.
  all: match goal with E : loop_common _ _ _ = _ |- _ => apply loop_common_events in E; destruct E as [->|[cid [_ Hn]]] end; auto; congruence.
Qed.

Lemma tstep_events : forall s c s' evs, tstep s c = Some (s', evs) -> evs = [] \/ evs = [(TT, KTick)].
Proof. intros s c s' evs H. unfold tstep in H. step_cases H; auto. Qed.

Lemma ustep_events : forall g s c s' evs, ustep g s c = Some (s', evs) ->
  evs = [] \/ exists r, evs = [(TU g, KRes r)].
Proof.
  intros g s c s' evs H. unfold ustep in H. destruct (get_user s g); [|discriminate].
  destruct u as [|ex pk|op].
  - destruct c; try discriminate H. unfold do_call in H. destruct c; step_cases H; eauto.
  - destruct c; try discriminate H; step_cases H; eauto.
  - step_cases H; eauto.
Qed.

Lemma wstep_events : forall k s c s' evs, wstep k s c = Some (s', evs) ->
  evs = [] \/ exists b, evs = [(TW k, KResult b)].
Proof. intros k s c s' evs H. unfold wstep in H. step_cases H; eauto. Qed.

(* events of a thread other than the Run caller: never OnShutdown, never the return *)
Definition r_kind (k : ekind) : bool := match k with KBoot | KShutdown | KRet => true | _ => false end.

Lemma nonR_events : forall s t c s' evs, Inv_pc s -> t <> TR -> estep_opt s t c = Some (s', evs) ->
  Forall (fun e => r_kind (snd e) = false) evs.
Proof.
  intros s t c s' evs HI Ht H. destruct t; [congruence| | | | |]; cbn in H.
  - apply lstep_events in H. eapply Forall_impl; [|exact H]. intros [t k] [_ Hk]; cbn in *. destruct k; auto; discriminate.
  - apply astep_events in H; [subst; constructor|]. apply (ip_ing_conns _ HI).
  - apply tstep_events in H. destruct H as [->| ->]; repeat constructor.
  - apply ustep_events in H. destruct H as [->|[r ->]]; repeat constructor.
  - apply wstep_events in H. destruct H as [->|[b ->]]; repeat constructor.
Qed.

Lemma count_kind_zero : forall p evs, Forall (fun e : evt => p (snd e) = false) evs -> count_kind p evs = 0%Z.
Proof.
  intros p evs H. induction H as [|[t k] r Hk _ IH]; cbn in *; [reflexivity|]. rewrite Hk, IH. reflexivity.
Qed.

Lemma count_kind_rev : forall p evs, count_kind p (rev evs) = count_kind p evs.
Proof.
  induction evs as [|[t k] r IH]; cbn; [reflexivity|]. rewrite count_kind_app, IH. cbn. lia.
Qed.

(* ------------------------------------------------------------------ *)
(* once the Run caller has returned nothing can run a callback *)

Lemma returned_no_cb : forall s t c s' evs, Inv_pc s -> returned s = true ->
  estep_opt s t c = Some (s', evs) -> Forall (fun e => is_cb (snd e) = false) evs.
Proof.
  intros s t c s' evs HI Hr H. unfold returned in Hr. destruct (e_r s) eqn:Er; try discriminate Hr.
  assert (Hloops : Forall (fun l => l_pc l = LIdle \/ l_pc l = LExited) (e_loops s) /\
                   (l_pc (e_ing s) = LIdle \/ l_pc (e_ing s) = LExited) /\ e_t s <> TRun).
  { destruct (e_started s) eqn:Es.
    - destruct (ip_after _ HI) as [H1 [H2 H3]]; [rewrite Er, Es; reflexivity|]. splits; auto.
      eapply Forall_impl; [|exact H1]. intros l Hl. right; exact Hl.
    - destruct (ip_unstarted _ HI Es) as [H1 [H2 [H3 _]]]. splits; auto; [|congruence].
      eapply Forall_impl; [|exact H1]. intros l Hl. left; exact Hl. }
  destruct Hloops as [Hl [Hi Htk]].
  destruct t; cbn in H.
  - unfold rstep in H. rewrite Er in H. destruct c; discriminate H.
  - unfold lstep, loop_common in H. destruct (get_loop s i) as [l|] eqn:Hg; [|discriminate].
    pose proof (Forall_nth_error _ _ _ _ _ Hl Hg) as [Hp|Hp]; rewrite Hp in H; step_cases H.
  - unfold astep, loop_common in H. destruct Hi as [Hp|Hp]; rewrite Hp in H; step_cases H.
  - unfold tstep in H. destruct (e_t s); try congruence; destruct c; discriminate H.
  - apply ustep_events in H. destruct H as [->|[r ->]]; repeat constructor.
  - apply wstep_events in H. destruct H as [->|[b ->]]; repeat constructor.
Qed.

Lemma started_at : forall s, Inv_pc s -> rb_unstarted_ok (e_r s) = false -> e_started s = true.
Proof.
  intros s HI H. destruct (e_started s) eqn:Es; [reflexivity|].
  destruct (ip_unstarted _ HI Es) as [_ [_ [_ [_ Hx]]]]. congruence.
Qed.

Lemma unstarted_at : forall s, Inv_pc s -> rb_started_ok (e_r s) = false -> e_started s = false.
Proof.
  intros s HI H. destruct (e_started s) eqn:Es; [|reflexivity].
  destruct (ip_started _ HI Es) as [_ [_ [_ Hx]]]. congruence.
Qed.

(* ------------------------------------------------------------------ *)
(* history invariant *)

Definition rb_past_sd (r : rpc) (st : bool) : bool :=
  match r with
  | RNotify _ | RWait | RClosePollers | RStoreInsd | RReturn => true
  | RReturned => st
  | _ => false
  end.

(* what a step of the Run caller does to the history-related quantities *)
Lemma rstep_spec : forall s c s' evs, Inv_pc s -> rstep s c = Some (s', evs) ->
  e_hist s' = e_hist s /\
  ((evs = [] /\ rb_past_sd (e_r s') (e_started s') = rb_past_sd (e_r s) (e_started s) /\ returned s' = returned s) \/
   (evs = [(TR, KBoot)] /\ rb_past_sd (e_r s') (e_started s') = rb_past_sd (e_r s) (e_started s) /\ returned s' = returned s) \/
   (evs = [(TR, KShutdown)] /\ rb_past_sd (e_r s) (e_started s) = false /\ rb_past_sd (e_r s') (e_started s') = true /\
      returned s = false /\ returned s' = false) \/
   (evs = [(TR, KRet)] /\ returned s = false /\ returned s' = true /\
      rb_past_sd (e_r s') (e_started s') = rb_past_sd (e_r s) (e_started s))).
Proof.
  intros s c s' evs HI H. unfold rstep in H.
  destruct (e_r s) eqn:Er; destruct c; try discriminate H; cbv beta iota in H; step_cases H.
  all: try (pose proof (started_at _ HI) as Hst; rewrite Er in Hst; specialize (Hst eq_refl)).
  all: try (pose proof (unstarted_at _ HI) as Hst; rewrite Er in Hst; specialize (Hst eq_refl)).
  all: unfold returned; cbn [e_r e_started e_hist set_r set_alloc set_cancel set_insd set_started set_inall rb_past_sd].
  all: rewrite ?Er, ?Hst.
  - split; [reflexivity|]. right; left. auto.
  - split; [reflexivity|]. right; right; right. auto.
  - split; [frame_fin|]. left. splits; auto.
  - split; [frame_fin|]. left. splits; frame_fin.
  - split; [reflexivity|]. right; right; left. auto.
  - split; [reflexivity|]. left. auto.
  - split; [reflexivity|]. right; right; left. auto.
  - split; [reflexivity|]. left. auto.
  - split; [frame_fin|]. left. splits; frame_fin.
  - split; [reflexivity|]. left. auto.
  - split; [reflexivity|]. left. auto.
  - split; [reflexivity|]. left. auto.
  - split; [reflexivity|]. right; right; right. auto.
Qed.


Record Inv_h (s : estate) : Prop := mkInvH {
  ih_sd : onshutdowns (e_hist s) = if rb_past_sd (e_r s) (e_started s) then 1%Z else 0%Z;
  ih_ret : returns (e_hist s) = if returned s then 1%Z else 0%Z;
  ih_ncar : no_cb_after_ret (e_hist s) = true;
}.

Lemma ncar_push : forall evs h,
  no_cb_after_ret h = true ->
  Forall (fun e : evt => match snd e with KRet => False | _ => True end) evs ->
  (returns h = 0%Z \/ Forall (fun e : evt => is_cb (snd e) = false) evs) ->
  no_cb_after_ret (rev evs ++ h) = true.
Proof.
  induction evs as [|[t k] r IH]; intros h Hh Hk Hor; cbn; [exact Hh|].
  rewrite <- app_assoc. cbn. inversion Hk as [|? ? Hk1 Hk2]; subst. cbn in Hk1.
  apply IH; auto.
  - cbn. destruct k; try contradiction; cbn; try exact Hh.
    all: destruct Hor as [Hz|Hc]; [rewrite Hz; cbn; exact Hh|inversion Hc; subst; discriminate].
  - destruct Hor as [Hz|Hc].
    + left. unfold returns in *. cbn. destruct k; try contradiction; cbn; exact Hz.
    + right. inversion Hc; auto.
Qed.

Lemma Inv_h_init : forall cfg nu, Inv_h (einit cfg nu).
Proof. intros. constructor; reflexivity. Qed.

Lemma no_ret_of_nonr : forall evs : list evt, Forall (fun e => r_kind (snd e) = false) evs ->
  Forall (fun e : evt => match snd e with KRet => False | _ => True end) evs.
Proof. intros evs H. eapply Forall_impl; [|exact H]. intros [t k]; cbn. destruct k; auto; discriminate. Qed.

Lemma Inv_h_nonR : forall s t c s' evs, Inv_pc s -> Inv_h s -> t <> TR ->
  estep_opt s t c = Some (s', evs) -> Inv_h (push evs s').
Proof.
  intros s t c s' evs HI [Hsd Hret Hn] Ht H.
  destruct (nonR_frame _ _ _ _ _ Ht H) as [Fr [Fs _]].
  pose proof (nonR_events _ _ _ _ _ HI Ht H) as He.
  assert (Hh : e_hist (push evs s') = rev evs ++ e_hist s).
  { rewrite hist_push. f_equal.
    destruct t; [congruence| | | | |]; cbn in H.
    - unfold lstep in H. destruct (get_loop s i); [|discriminate]. step_cases H; frame_fin.
    - unfold astep in H. step_cases H; frame_fin.
    - unfold tstep in H. step_cases H; frame_fin.
    - unfold ustep in H. destruct (get_user s g); [|discriminate].
      destruct u as [|ex pk|op].
      + destruct c; try discriminate H. unfold do_call in H. destruct c; step_cases H; frame_fin.
      + destruct c; try discriminate H; step_cases H; frame_fin.
      + step_cases H; frame_fin.
    - unfold wstep in H. step_cases H; frame_fin. }
  assert (Pr : forall e, e_r (push e s') = e_r s') by reflexivity.
  assert (Ps : forall e, e_started (push e s') = e_started s') by reflexivity.
  constructor; rewrite Hh; unfold returned in *; rewrite ?Pr, ?Ps, ?Fr, ?Fs.
  - unfold onshutdowns in *. rewrite count_kind_app, count_kind_rev, count_kind_zero; [exact Hsd|].
    eapply Forall_impl; [|exact He]. intros [? k]; cbn; destruct k; auto; discriminate.
  - unfold returns in *. rewrite count_kind_app, count_kind_rev, count_kind_zero; [exact Hret|].
    eapply Forall_impl; [|exact He]. intros [? k]; cbn; destruct k; auto; discriminate.
  - apply ncar_push; [exact Hn|apply no_ret_of_nonr; exact He|].
    destruct (returned s) eqn:Hr; [right; eapply returned_no_cb; eauto|left; unfold returned in Hr; rewrite Hret, Hr; reflexivity].
Qed.

Lemma Inv_h_step : forall s t c s' evs, Inv_pc s -> Inv_h s ->
  estep_opt s t c = Some (s', evs) -> Inv_h (push evs s').
Proof.
  intros s t c s' evs HI HH H.
  destruct t; [|eapply Inv_h_nonR; eauto; congruence ..].
  destruct HH as [Hsd Hret Hn].
  { (* the Run caller *)
    cbn in H. destruct (rstep_spec _ _ _ _ HI H) as [Hh Hcases].
    assert (Hz : returned s = false -> returns (e_hist s) = 0%Z) by (intros Hq; rewrite Hret, Hq; reflexivity).
    assert (Pr : forall e, e_r (push e s') = e_r s') by reflexivity.
    assert (Ps : forall e, e_started (push e s') = e_started s') by reflexivity.
    constructor; rewrite hist_push, Hh; unfold returned in *; rewrite ?Pr, ?Ps.
    + unfold onshutdowns in *. rewrite count_kind_app, count_kind_rev.
      destruct Hcases as [[-> [E1 E2]]|[[-> [E1 E2]]|[[-> [E1 [E2 [E3 E4]]]]|[-> [E1 [E2 E3]]]]]]; cbn [count_kind];
        rewrite Hsd; rewrite ?E1, ?E2, ?E3; reflexivity.
    + unfold returns in *. rewrite count_kind_app, count_kind_rev.
      destruct Hcases as [[-> [E1 E2]]|[[-> [E1 E2]]|[[-> [E1 [E2 [E3 E4]]]]|[-> [E1 [E2 E3]]]]]]; cbn [count_kind];
        rewrite Hret; rewrite ?E1, ?E2, ?E3, ?E4; reflexivity.
    + destruct Hcases as [[-> [E1 E2]]|[[-> [E1 E2]]|[[-> [E1 [E2 [E3 E4]]]]|[-> [E1 [E2 E3]]]]]]; cbn; auto.
      * assert (Hq : match e_r s with RReturned => true | _ => false end = false).
        { unfold rstep in H. destruct (e_r s); destruct c; try discriminate H; reflexivity. }
        rewrite (Hz Hq), Hn. reflexivity.
      * rewrite (Hz E3), Hn. reflexivity. }
Qed.
