(* C09 — placeholder while the proofs are being built *)
From GV Require Import Lib.Trace Model.Ring.
